import Marwood.Lemmas.NumScm
/-!
# abs, floor, ceiling, truncate, numerator, denominator, expt: an inexact answer only when the exact
result is not representable, and the answer does not depend on the representation of the operand

The value of a well-formed number determines its representation up to the choice among
`fix n`, `big n`, `rat n 1` for an integer; a proper fraction has exactly one representation
(`rat n d` in lowest terms).  Each unary operation answers exactly on every integer representation,
and on a proper fraction the answer is a function of the (unique) representation.
-/
namespace Marwood.Arith
open Marwood Marwood.NumSpec

theorem wf_rat_coprime {n d : Int} (h : (Num.rat n d).WF = true) : n.natAbs.Coprime d.natAbs := by
  simp only [Num.WF, Bool.and_eq_true, beq_iff_eq] at h
  have := h.2
  unfold Nat.Coprime
  rw [Int.gcd] at this; exact this

/-- numerator and denominator of the value of a well-formed `rat n d` are `n` and `d` -/
theorem wf_rat_num_den {n d : Int} (h : (Num.rat n d).WF = true) :
    ((n : Rat) / d).num = n ∧ (((n : Rat) / d).den : Int) = d :=
  ⟨Rat.num_div_eq_of_coprime (wf_rat_pos h) (wf_rat_coprime h),
   Rat.den_div_eq_of_coprime (wf_rat_pos h) (wf_rat_coprime h)⟩

/-- a value has at most one representation as a well-formed `rat` -/
theorem wf_rat_inj {n d n' d' : Int} (h : (Num.rat n d).WF = true) (h' : (Num.rat n' d').WF = true)
    (hv : val (.rat n d) = val (.rat n' d')) : n = n' ∧ d = d' := by
  simp only [val, Option.some.injEq] at hv
  obtain ⟨a1, a2⟩ := wf_rat_num_den h
  obtain ⟨b1, b2⟩ := wf_rat_num_den h'
  rw [hv] at a1 a2
  exact ⟨a1.symm.trans b1, a2.symm.trans b2⟩

/-- an integer value is carried by a well-formed `rat` only with denominator 1 -/
theorem wf_rat_int {n d m : Int} (h : (Num.rat n d).WF = true)
    (hv : val (.rat n d) = some (m : Rat)) : d = 1 ∧ n = m := by
  simp only [val, Option.some.injEq] at hv
  obtain ⟨a1, a2⟩ := wf_rat_num_den h
  rw [hv] at a1 a2
  simp only [Rat.den_intCast, Rat.num_intCast] at a1 a2
  exact ⟨by exact_mod_cast a2.symm, a1.symm⟩

/-- the other representations of the value of a proper fraction: none -/
theorem proper_fraction_unique {n d : Int} {a' : Num} (h : (Num.rat n d).WF = true) (hd : d ≠ 1)
    (ha' : a'.WF = true) (he' : isExact a' = true) (hv : val (.rat n d) = val a') :
    a' = .rat n d := by
  cases a' with
  | fix m => exact absurd (wf_rat_int h (by rw [hv]; rfl)).1 hd
  | big m => exact absurd (wf_rat_int h (by rw [hv]; rfl)).1 hd
  | flo f => cases he'
  | rat n' d' => obtain ⟨rfl, rfl⟩ := wf_rat_inj h ha' hv; rfl

/-- the integer representations -/
theorem intVal_of_val {a : Num} {m : Int} (ha : a.WF = true) (he : isExact a = true)
    (hv : val a = some (m : Rat)) : intVal? a = some m := by
  cases a with
  | fix n => simp only [val, Option.some.injEq] at hv; simp only [intVal?]; congr 1; exact_mod_cast hv
  | big n => simp only [val, Option.some.injEq] at hv; simp only [intVal?]; congr 1; exact_mod_cast hv
  | flo f => cases he
  | rat n d =>
    obtain ⟨rfl, rfl⟩ := wf_rat_int ha hv
    simp [intVal?]

/-! ## expt -/

theorem chkPow_none {inR : Int → Bool} {b : Int} {e : Nat} (h : chkPow inR b e = none) :
    inR (b ^ e) = false := by
  unfold chkPow at h
  simp only at h
  split at h
  · cases h
  · rename_i hh; simpa using hh

theorem chkPow_of {inR : Int → Bool} {b : Int} {e : Nat} (h : inR (b ^ e) = true) :
    chkPow inR b e = some (b ^ e) := by
  unfold chkPow; simp [h]

/-- the power of a well-formed rational, in lowest terms -/
theorem wf_rat_pow_num_den {n d : Int} (h : (Num.rat n d).WF = true) (e : Nat) :
    (((n : Rat) / d) ^ e).num = n ^ e ∧ ((((n : Rat) / d) ^ e).den : Int) = d ^ e := by
  have hd := wf_rat_pos h
  have hpos : 0 < d ^ e := Int.pow_pos hd
  have hcop : (n ^ e).natAbs.Coprime (d ^ e).natAbs := by
    rw [Int.natAbs_pow, Int.natAbs_pow]; exact Nat.Coprime.pow e e (wf_rat_coprime h)
  have e1 : ((n : Rat) / d) ^ e = ((n ^ e : Int) : Rat) / ((d ^ e : Int) : Rat) := by
    rw [div_pow]; push_cast; rfl
  rw [e1]
  exact ⟨Rat.num_div_eq_of_coprime hpos hcop, Rat.den_div_eq_of_coprime hpos hcop⟩

/-- T08.2 (first conjunct) for `expt`, full strength: an inexact power is given only when the exact
    power is not representable. -/
theorem pow_inexact_spec (a : Num) (ha : a.WF = true) (e : Nat) {r : Num} (h : pow a e = some r)
    (he : isExact r = false) : ∃ x, val a = some x ∧ representable (x ^ e) = false := by
  cases a with
  | flo f => cases h
  | fix n =>
    simp only [pow, Option.some.injEq] at h; subst h
    rw [isExact_powFix] at he; cases he
  | big n =>
    simp only [pow, Option.some.injEq] at h; subst h; cases he
  | rat n d =>
    refine ⟨(n : Rat) / d, rfl, ?_⟩
    obtain ⟨hnum, hden⟩ := wf_rat_pow_num_den ha e
    have hd := wf_rat_pos ha
    simp only [pow] at h
    split at h
    · cases h; cases he
    · rename_i hfail
      split at h
      · cases h; rw [isExact_powFix] at he; cases he
      · rename_i hd1
        simp only [beq_iff_eq] at hd1
        -- one of the two powers leaves i32
        have hover : inI32 (n ^ e) = false ∨ inI32 (d ^ e) = false := by
          cases h1 : chkPow inI32 n e with
          | none => exact Or.inl (chkPow_none h1)
          | some n' =>
            cases h2 : chkPow inI32 d e with
            | none => exact Or.inr (chkPow_none h2)
            | some d' => exact absurd h2 (hfail n' d' h1)
        unfold representable
        rw [hnum, hden]
        have hden1 : ((((n : Rat) / d) ^ e).den == 1) = false := by
          rw [beq_eq_false_iff_ne]
          intro h1
          have h1' : d ^ e = 1 := by rw [← hden, h1]; rfl
          cases e with
          | zero =>
            rcases hover with ho | ho <;> simp [inI32, i32Min, i32Max] at ho
          | succ k =>
            have := one_lt_pow₀ (by omega : (1 : Int) < d) (by omega : k + 1 ≠ 0)
            omega
        rw [hden1]
        rcases hover with ho | ho <;> simp [ho]

/-- `expt` answers an exact base exactly iff the exact power is representable -/
theorem pow_exact_iff (a : Num) (ha : a.WF = true) (e : Nat) {r : Num} {x : Rat}
    (hx : val a = some x) (h : pow a e = some r) : isExact r = representable (x ^ e) := by
  cases hr : isExact r with
  | false =>
    obtain ⟨x', hx', hrep⟩ := pow_inexact_spec a ha e h hr
    rw [hx] at hx'; cases hx'; exact hrep.symm
  | true =>
    symm
    cases a with
    | flo f => cases h
    | fix n =>
      simp only [val, Option.some.injEq] at hx; subst hx
      unfold representable
      have : ((n : Rat) ^ e) = ((n ^ e : Int) : Rat) := by push_cast; rfl
      rw [this]; simp
    | big n =>
      simp only [val, Option.some.injEq] at hx; subst hx
      unfold representable
      have : ((n : Rat) ^ e) = ((n ^ e : Int) : Rat) := by push_cast; rfl
      rw [this]; simp
    | rat n d =>
      simp only [val, Option.some.injEq] at hx; subst hx
      obtain ⟨hnum, hden⟩ := wf_rat_pow_num_den ha e
      unfold representable
      rw [hnum, hden]
      simp only [pow] at h
      split at h
      · rename_i n' d' h1 h2
        have i1 : inI32 (n ^ e) = true := by
          unfold chkPow at h1; simp only at h1; split at h1
          · assumption
          · cases h1
        have i2 : inI32 (d ^ e) = true := by
          unfold chkPow at h2; simp only at h2; split at h2
          · assumption
          · cases h2
        simp [i1, i2]
      · split at h
        · rename_i hd1
          simp only [beq_iff_eq] at hd1; subst hd1
          have : (((n : Rat) / (1 : Int)) ^ e).den = 1 := by
            have := hden; simp only [one_pow] at this; exact_mod_cast this
          simp
        · split at h
          · cases h; cases hr
          · cases h

/-- T08.4 for `expt`, full strength: the same value in any two representations gives answers of
    equal exactness and equal value. -/
theorem pow_indep (a a' : Num) (ha : a.WF = true) (ha' : a'.WF = true) (hv : val a = val a')
    (e : Nat) {r r' : Num} (h : pow a e = some r) (h' : pow a' e = some r') :
    isExact r = isExact r' ∧ val r = val r' := by
  have hea : isExact a = true := by cases a <;> first | rfl | cases h
  have hea' : isExact a' = true := by cases a' <;> first | rfl | cases h'
  obtain ⟨x, hx⟩ : ∃ x, val a = some x := by
    cases a with
    | flo f => cases hea
    | fix n => exact ⟨_, rfl⟩
    | big n => exact ⟨_, rfl⟩
    | rat n d => exact ⟨_, rfl⟩
  have hx' : val a' = some x := hv ▸ hx
  have hex : isExact r = isExact r' := by
    rw [pow_exact_iff a ha e hx h, pow_exact_iff a' ha' e hx' h']
  refine ⟨hex, ?_⟩
  cases hr : isExact r with
  | true =>
    obtain ⟨y, hy, hyv⟩ := pow_spec a ha e h hr
    obtain ⟨y', hy', hyv'⟩ := pow_spec a' ha' e h' (hex ▸ hr)
    rw [hx] at hy; rw [hx'] at hy'; cases hy; cases hy'
    rw [hyv, hyv']
  | false =>
    -- an inexact answer: `a` is a proper fraction, which has one representation only
    cases a with
    | flo f => cases hea
    | fix n => simp only [pow, Option.some.injEq] at h; subst h; rw [isExact_powFix] at hr; cases hr
    | big n => simp only [pow, Option.some.injEq] at h; subst h; cases hr
    | rat n d =>
      by_cases hd1 : d = 1
      · subst hd1
        exfalso
        simp only [pow] at h
        split at h
        · cases h; cases hr
        · simp only [beq_self_eq_true, if_true, Option.some.injEq] at h; subst h
          rw [isExact_powFix] at hr; cases hr
      · have := proper_fraction_unique ha hd1 ha' hea' hv
        subst this
        rw [h] at h'; cases h'; rfl

/-! ## abs, floor, ceiling, truncate, numerator, denominator -/

theorem floor_exact {a r : Num} (h : floor a = some r) (hea : isExact a = true) : isExact r = true := by
  cases a <;> simp_all [floor, isExact] <;> subst h <;> rfl

theorem ceil_exact {a r : Num} (h : ceil a = some r) (hea : isExact a = true) : isExact r = true := by
  cases a <;> simp_all [ceil, isExact] <;> subst h <;> rfl

theorem truncate_exact {a r : Num} (h : truncate a = some r) (hea : isExact a = true) :
    isExact r = true := by
  cases a <;> simp_all [truncate, isExact] <;> subst h <;> rfl

theorem numerator_exact {a r : Num} (h : numerator a = some r) (hea : isExact a = true) :
    isExact r = true := by
  cases a <;> simp_all [numerator, isExact] <;> subst h <;> rfl

theorem denominator_exact {a r : Num} (h : denominator a = some r) : isExact r = true := by
  cases a <;> simp_all [denominator, isExact] <;> subst h <;> rfl

/-- T08.2 (first conjunct) for `abs`, full strength: the only inexact answers are to
    `-2147483648/d` with `d > 1`, whose absolute value has a numerator beyond i32. -/
theorem abs_inexact_spec (a : Num) (ha : a.WF = true) {r : Num} (h : abs a = some r)
    (he : isExact r = false) : ∃ x, val a = some x ∧ representable (absR x) = false := by
  cases a with
  | flo f => cases h
  | fix n =>
    simp only [abs, Option.some.injEq] at h; subst h
    split at he <;> cases he
  | big n => simp only [abs, Option.some.injEq] at h; subst h; cases he
  | rat n d =>
    refine ⟨(n : Rat) / d, rfl, ?_⟩
    have hd := wf_rat_pos ha
    have hq : (0 : Rat) < d := by exact_mod_cast hd
    have hn32 := (inI32_iff n).mp (wf_rat_i32 ha).1
    simp only [abs, Option.some.injEq] at h; subst h
    -- the answer is inexact: `chk32 |n|` failed and `d ≠ 1`
    cases hc : chk32 (if n < 0 then -n else n) with
    | some m => rw [hc] at he; cases he
    | none =>
      rw [hc] at he
      simp only at he
      have hd1 : d ≠ 1 := by
        intro h1; subst h1; simp [isExact] at he
      have hneg : n < 0 := by
        by_contra hn
        simp only [hn, if_false] at hc
        rw [chk32_of (wf_rat_i32 ha).1] at hc; cases hc
      have hnmin : n = -2147483648 := by
        simp only [hneg, if_true] at hc
        have : inI32 (-n) = false := by
          unfold chk32 at hc; split at hc
          · cases hc
          · rename_i hh; simpa using hh
        have h2 : ¬ (-2147483648 ≤ -n ∧ -n ≤ 2147483647) := by
          intro hh; rw [(inI32_iff (-n)).mpr hh] at this; cases this
        omega
      -- |n/d| = (-n)/d in lowest terms, numerator 2^31
      have hneg' : (n : Rat) / d < 0 := by
        have hnq : (n : Rat) < 0 := by exact_mod_cast hneg
        rw [div_lt_iff₀ hq]; linarith
      unfold absR
      rw [if_pos hneg']
      have e1 : -((n : Rat) / d) = ((-n : Int) : Rat) / d := by push_cast; ring
      have hcop : (-n).natAbs.Coprime d.natAbs := by rw [Int.natAbs_neg]; exact wf_rat_coprime ha
      rw [e1]
      unfold representable
      rw [Rat.num_div_eq_of_coprime hd hcop]
      have hden := Rat.den_div_eq_of_coprime hd hcop
      have hden1 : ((((-n : Int) : Rat) / d).den == 1) = false := by
        rw [beq_eq_false_iff_ne]; intro h1; apply hd1; rw [← hden, h1]; rfl
      rw [hden1, hnmin]
      simp [inI32, i32Min, i32Max]

/-- `abs` answers exactly on every integer representation -/
theorem abs_int_exact {a r : Num} {m : Int} (hi : intVal? a = some m) (h : abs a = some r) :
    isExact r = true := by
  cases a with
  | flo f => cases hi
  | fix n => simp only [abs, Option.some.injEq] at h; subst h; split <;> rfl
  | big n => simp only [abs, Option.some.injEq] at h; subst h; rfl
  | rat n d =>
    obtain ⟨rfl, rfl⟩ := intVal_rat hi
    simp only [abs, Option.some.injEq] at h; subst h
    split
    · rfl
    · simp [isExact]

/-- representation independence of a unary operation that answers every integer representation
    exactly: equal exactness always, equal value when exact values are determined by the value of
    the operand (`hspec`). -/
theorem unary_indep (op : Num → Option Num)
    (hint : ∀ a r m, intVal? a = some m → op a = some r → isExact r = true)
    (hspec : ∀ a a' r r', a.WF = true → a'.WF = true → val a = val a' → op a = some r →
      op a' = some r' → isExact r = true → isExact r' = true → val r = val r')
    (a a' : Num) (ha : a.WF = true) (ha' : a'.WF = true) (hea : isExact a = true)
    (hea' : isExact a' = true) (hv : val a = val a') {r r' : Num} (h : op a = some r)
    (h' : op a' = some r') : isExact r = isExact r' ∧ val r = val r' := by
  -- either the value is an integer (then both answers are exact) or a proper fraction (then a = a')
  have key : (∃ m m', intVal? a = some m ∧ intVal? a' = some m') ∨ a = a' := by
    cases a with
    | flo f => cases hea
    | fix n =>
      left; exact ⟨n, n, rfl, intVal_of_val ha' hea' (hv ▸ rfl)⟩
    | big n =>
      left; exact ⟨n, n, rfl, intVal_of_val ha' hea' (hv ▸ rfl)⟩
    | rat n d =>
      by_cases hd1 : d = 1
      · subst hd1
        left
        refine ⟨n, n, by simp [intVal?], intVal_of_val ha' hea' ?_⟩
        rw [← hv]; simp [val]
      · right; exact (proper_fraction_unique ha hd1 ha' hea' hv).symm
  rcases key with ⟨m, m', hm, hm'⟩ | rfl
  · have e1 := hint a r m hm h
    have e2 := hint a' r' m' hm' h'
    exact ⟨by rw [e1, e2], hspec a a' r r' ha ha' hv h h' e1 e2⟩
  · rw [h] at h'; cases h'; exact ⟨rfl, rfl⟩

theorem int_bracket_unique {x : Rat} {k k' : Int} (h1 : (k : Rat) ≤ x) (h2 : x < k + 1)
    (h1' : (k' : Rat) ≤ x) (h2' : x < k' + 1) : k = k' := by
  have a : (k : Rat) < k' + 1 := lt_of_le_of_lt h1 h2'
  have b : (k' : Rat) < k + 1 := lt_of_le_of_lt h1' h2
  have a' : k < k' + 1 := by exact_mod_cast a
  have b' : k' < k + 1 := by exact_mod_cast b
  omega

/-- T08.4 for `abs`, full strength -/
theorem abs_indep (a a' : Num) (ha : a.WF = true) (ha' : a'.WF = true) (hea : isExact a = true)
    (hea' : isExact a' = true) (hv : val a = val a') {r r' : Num} (h : abs a = some r)
    (h' : abs a' = some r') : isExact r = isExact r' ∧ val r = val r' := by
  refine unary_indep abs (fun a r m hi h => abs_int_exact hi h) ?_ a a' ha ha' hea hea' hv h h'
  intro a a' r r' ha ha' hv h h' e e'
  obtain ⟨x, hx, hr⟩ := abs_spec a ha h e
  obtain ⟨x', hx', hr'⟩ := abs_spec a' ha' h' e'
  rw [hv, hx'] at hx; cases hx; rw [hr, hr']

/-- T08.4 for `floor`, full strength -/
theorem floor_indep (a a' : Num) (ha : a.WF = true) (ha' : a'.WF = true) (hea : isExact a = true)
    (hea' : isExact a' = true) (hv : val a = val a') {r r' : Num} (h : floor a = some r)
    (h' : floor a' = some r') : isExact r = isExact r' ∧ val r = val r' := by
  refine ⟨by rw [floor_exact h hea, floor_exact h' hea'], ?_⟩
  obtain ⟨x, k, hx, hr, l1, l2⟩ := floor_spec a ha h
  obtain ⟨x', k', hx', hr', l1', l2'⟩ := floor_spec a' ha' h'
  rw [hv, hx'] at hx; cases hx
  rw [hr, hr', int_bracket_unique l1 l2 l1' l2']

/-- T08.4 for `ceiling`, full strength -/
theorem ceil_indep (a a' : Num) (ha : a.WF = true) (ha' : a'.WF = true) (hea : isExact a = true)
    (hea' : isExact a' = true) (hv : val a = val a') {r r' : Num} (h : ceil a = some r)
    (h' : ceil a' = some r') : isExact r = isExact r' ∧ val r = val r' := by
  refine ⟨by rw [ceil_exact h hea, ceil_exact h' hea'], ?_⟩
  obtain ⟨x, k, hx, hr, l1, l2⟩ := ceil_spec a ha h
  obtain ⟨x', k', hx', hr', l1', l2'⟩ := ceil_spec a' ha' h'
  rw [hv, hx'] at hx; cases hx
  have : k = k' := by
    have a : (k : Rat) - 1 < k' := lt_of_lt_of_le l2 l1'
    have b : (k' : Rat) - 1 < k := lt_of_lt_of_le l2' l1
    have a' : k - 1 < k' := by exact_mod_cast a
    have b' : k' - 1 < k := by exact_mod_cast b
    omega
  rw [hr, hr', this]

/-- T08.4 for `truncate`, full strength -/
theorem truncate_indep (a a' : Num) (ha : a.WF = true) (ha' : a'.WF = true) (hea : isExact a = true)
    (hea' : isExact a' = true) (hv : val a = val a') {r r' : Num} (h : truncate a = some r)
    (h' : truncate a' = some r') : isExact r = isExact r' ∧ val r = val r' := by
  refine ⟨by rw [truncate_exact h hea, truncate_exact h' hea'], ?_⟩
  obtain ⟨x, k, hx, hr, p, n⟩ := truncate_spec a ha h
  obtain ⟨x', k', hx', hr', p', n'⟩ := truncate_spec a' ha' h'
  rw [hv, hx'] at hx; cases hx
  have : k = k' := by
    rcases le_total 0 x with h0 | h0
    · exact int_bracket_unique (p h0).1 (p h0).2 (p' h0).1 (p' h0).2
    · have a : (k : Rat) - 1 < k' := lt_of_lt_of_le (n h0).2 (n' h0).1
      have b : (k' : Rat) - 1 < k := lt_of_lt_of_le (n' h0).2 (n h0).1
      have a' : k - 1 < k' := by exact_mod_cast a
      have b' : k' - 1 < k := by exact_mod_cast b
      omega
  rw [hr, hr', this]

/-- T08.4 for `numerator` and `denominator`, full strength -/
theorem numer_denom_indep (a a' : Num) (ha : a.WF = true) (ha' : a'.WF = true)
    (hea : isExact a = true) (hea' : isExact a' = true) (hv : val a = val a') {r r' s s' : Num}
    (h1 : numerator a = some r) (h1' : numerator a' = some r') (h2 : denominator a = some s)
    (h2' : denominator a' = some s') :
    isExact r = true ∧ isExact r' = true ∧ val r = val r' ∧
    isExact s = true ∧ isExact s' = true ∧ val s = val s' := by
  obtain ⟨x, hx, hr, hs⟩ := numer_denom_spec a ha h1 h2
  obtain ⟨x', hx', hr', hs'⟩ := numer_denom_spec a' ha' h1' h2'
  rw [hv, hx'] at hx; cases hx
  exact ⟨numerator_exact h1 hea, numerator_exact h1' hea', by rw [hr, hr'],
    denominator_exact h2, denominator_exact h2', by rw [hs, hs']⟩

/-! ## the procedure `expt` -/

/-- two answers the property does not distinguish: the same error class, or numbers of equal
    exactness and equal value -/
def SameAnswer : Outcome Num → Outcome Num → Prop
  | .ok r, .ok r' => isExact r = isExact r' ∧ val r = val r'
  | .err c, .err c' => c = c'
  | _, _ => False

theorem toU32_of_intVal {e : Num} {m : Int} (he : e.WF = true) (hi : intVal? e = some m) :
    toU32 e = if 0 ≤ m ∧ m ≤ 4294967295 then some m.toNat else none := by
  cases e with
  | flo f => cases hi
  | fix n => simp only [intVal?, Option.some.injEq] at hi; subst hi; simp [toU32]
  | big n => simp only [intVal?, Option.some.injEq] at hi; subst hi; simp [toU32]
  | rat n d =>
    obtain ⟨hd1, hmn⟩ := intVal_rat hi
    subst hd1; rw [hmn]
    have := (inI32_iff n).mp (wf_rat_i32 he).1
    simp only [toU32, beq_self_eq_true, Bool.true_and, decide_eq_true_eq]
    by_cases h0 : 0 ≤ n
    · rw [if_pos h0, if_pos ⟨h0, by omega⟩]
    · rw [if_neg h0, if_neg (fun h => h0 h.1)]

/-- an exact well-formed number is an integer in some representation, or a proper fraction -/
theorem int_or_fraction (a : Num) (ha : a.WF = true) (hea : isExact a = true) :
    (∃ m, intVal? a = some m ∧ val a = some (m : Rat)) ∨ (∃ n d, a = .rat n d ∧ d ≠ 1) := by
  cases a with
  | flo f => cases hea
  | fix n => exact Or.inl ⟨n, rfl, rfl⟩
  | big n => exact Or.inl ⟨n, rfl, rfl⟩
  | rat n d =>
    by_cases hd1 : d = 1
    · subst hd1; exact Or.inl ⟨n, by simp [intVal?], by simp [val]⟩
    · exact Or.inr ⟨n, d, rfl, hd1⟩

/-- T08.4 for the procedure `(expt x e)`, full strength: base and exponent in any representation
    of the same values give the same error class, or answers of equal exactness and value. -/
theorem scmExpt_indep (x x' e e' : Num) (hx : x.WF = true) (hx' : x'.WF = true) (he : e.WF = true)
    (he' : e'.WF = true) (hee : isExact e = true) (hee' : isExact e' = true)
    (hvx : val x = val x') (hve : val e = val e') {o o' : Outcome Num}
    (h : scmExpt [x, e] = some o) (h' : scmExpt [x', e'] = some o') : SameAnswer o o' := by
  have flo_e : ∀ {z : Num}, isExact z = true → ∀ {o}, scmExpt [x, z] = some o →
      scmExpt [x, z] = (if !isInteger z then some (.err "syntax")
        else match toU32 z with
          | none => some (.err "syntax")
          | some k => (pow x k).map .ok) := by
    intro z hz o _; cases z <;> first | rfl | cases hz
  have flo_e' : ∀ {z : Num}, isExact z = true → ∀ {o}, scmExpt [x', z] = some o →
      scmExpt [x', z] = (if !isInteger z then some (.err "syntax")
        else match toU32 z with
          | none => some (.err "syntax")
          | some k => (pow x' k).map .ok) := by
    intro z hz o _; cases z <;> first | rfl | cases hz
  rw [flo_e hee h] at h
  rw [flo_e' hee' h'] at h'
  rcases int_or_fraction e he hee with ⟨m, hm, hmv⟩ | ⟨n, d, rfl, hd1⟩
  · have hm' : intVal? e' = some m := intVal_of_val he' hee' (hve ▸ hmv)
    rw [isInteger_of_intVal hm, toU32_of_intVal he hm] at h
    rw [isInteger_of_intVal hm', toU32_of_intVal he' hm'] at h'
    simp only [Bool.not_true, Bool.false_eq_true, if_false] at h h'
    by_cases hk : 0 ≤ m ∧ m ≤ 4294967295
    · rw [if_pos hk] at h h'
      simp only [Option.map_eq_some_iff] at h h'
      obtain ⟨r, hr, rfl⟩ := h
      obtain ⟨r', hr', rfl⟩ := h'
      exact pow_indep x x' hx hx' hvx _ hr hr'
    · rw [if_neg hk] at h h'
      cases h; cases h'; rfl
  · have := proper_fraction_unique he hd1 he' hee' hve
    subst this
    have hni : isInteger (.rat n d) = false := by simp [isInteger, hd1]
    rw [hni] at h h'
    cases h; cases h'; rfl

end Marwood.Arith
