import Marwood.Lemmas.GoodStepA
/-!
# `Safe` as an invariant: the heap part of `run_one`, opcode by opcode (2): CONS VPUSH CLOSURE VARARG
-/
namespace Marwood.Lemmas.Good
open Marwood Marwood.Vm Marwood.Vm.Concrete Marwood.Lemmas.Sim
open Marwood.Heap (GcState WFHeap RootsOk vrefs vrefsList crefs)

/-! ## inversions (in `StepB`: the CALL / builtin files have their own copies of some of these) -/

namespace StepB

theorem pop_inv {st st' : Stack} {v : VCell} (h : st.pop = .ok (v, st')) :
    0 < st.sp ∧ st.cells[st.sp]? = some v ∧ st' = { st with sp := st.sp - 1 } := by
  unfold Stack.pop at h
  split at h
  · rename_i hpos
    split at h
    · rename_i w hw
      cases h
      exact ⟨hpos, hw, rfl⟩
    · cases h
  · cases h

theorem getOffset_inv {st : Stack} {off : Int} {v : VCell} (h : st.getOffset off = .ok v) :
    0 ≤ (st.sp : Int) + off ∧ st.cells[((st.sp : Int) + off).toNat]? = some v := by
  unfold Stack.getOffset at h
  simp only at h
  split at h
  · rename_i hnn
    unfold Stack.get at h
    split at h
    · rename_i w hw
      cases h
      exact ⟨hnn, hw⟩
    · cases h
  · cases h

theorem asPtr_inv {v : VCell} {a : Nat} (h : asPtr v = .ok a) : v = .ptr a := by
  cases v <;> first | (cases h; rfl) | cases h

theorem asArgc_inv {v : VCell} {n : Nat} (h : asArgc v = .ok n) : v = .argc n := by
  cases v <;> first | (cases h; rfl) | cases h

/-! ## storing a value -/

theorem putV_sz {h h' : CHeap} {v r : VCell} (e : putV h v = (h', r)) : h.cells.size ≤ h'.cells.size := by
  have := putV_size h v
  rw [e] at this
  exact this

theorem putV_ok {h h' : CHeap} (g : HG h) {v r : VCell} (hr : VRefsOk h v) (hp : plainVal v = true)
    (e : putV h v = (h', r)) (sm : Small h') : HG h' ∧ Mono h h' ∧ ∃ a, r = .ptr a ∧ NF h' a := by
  have key := putV_hg g hr hp (by rw [e]; exact sm)
  rw [e] at key
  obtain ⟨pr, a, ha⟩ := key
  simp only at ha
  subst ha
  exact ⟨pr.hg, pr.mono, a, rfl, VRefsOk.ptr.mp pr.res.2⟩

theorem pair_refs {h : CHeap} {a d : Nat} (ha : NF h a) (hd : NF h d) : VRefsOk h (.pair a d) := by
  intro y hy
  simp only [eraseV, vrefs, List.mem_cons, List.not_mem_nil, or_false] at hy
  rcases hy with rfl | rfl
  · exact ha
  · exact hd

theorem deref_refs {h : CHeap} (g : HG h) {v : VCell} (hv : VRefsOk h v) : VRefsOk h (deref h v) := by
  cases v with
  | ptr p => exact (getAt_ok g (VRefsOk.ptr.mp hv)).1
  | _ => exact hv

/-! ## the list-building loop of VARARG -/

section
variable {ext : ExtOps}

theorem varargCollect_size : ∀ (k : Nat) {h h' : CHeap} {acc l : Nat} {st st' : Stack},
    varargCollect (concreteOps ext) k h acc st = .ok (h', l, st') → h.cells.size ≤ h'.cells.size := by
  intro k
  induction k with
  | zero =>
    intro h h' acc l st st' hr
    simp only [varargCollect] at hr
    cases hr
    exact Nat.le_refl _
  | succ k ih =>
    intro h h' acc l st st' hr
    simp only [varargCollect, concreteOps] at hr
    obtain ⟨⟨v, st1⟩, _, hr⟩ := bind_ok hr
    simp only at hr
    generalize e1 : putV h v = r1 at hr
    obtain ⟨h1, a1⟩ := r1
    simp only at hr
    obtain ⟨a, _, hr⟩ := bind_ok hr
    generalize e2 : putV h1 (.pair a acc) = r2 at hr
    obtain ⟨h2, p2⟩ := r2
    simp only at hr
    obtain ⟨p, _, hr⟩ := bind_ok hr
    exact Nat.le_trans (putV_sz e1) (Nat.le_trans (putV_sz e2) (ih hr))

theorem varargCollect_hg : ∀ (k : Nat) {h h' : CHeap} {acc l : Nat} {st st' : Stack},
    varargCollect (concreteOps ext) k h acc st = .ok (h', l, st') → HG h → NF h acc →
    (∀ i v, i ≤ st.sp → st.sp < i + k → st.cells[i]? = some v → plainGlob v = true ∧ VRefsOk h v) →
    Small h' → HG h' := by
  intro k
  induction k with
  | zero =>
    intro h h' acc l st st' hr g _ _ _
    simp only [varargCollect] at hr
    cases hr
    exact g
  | succ k ih =>
    intro h h' acc l st st' hr g hacc hc sm
    simp only [varargCollect, concreteOps] at hr
    obtain ⟨⟨v, st1⟩, hpop, hr⟩ := bind_ok hr
    simp only at hr
    generalize e1 : putV h v = r1 at hr
    obtain ⟨h1, a1⟩ := r1
    simp only at hr
    obtain ⟨a, ha, hr⟩ := bind_ok hr
    generalize e2 : putV h1 (.pair a acc) = r2 at hr
    obtain ⟨h2, p2⟩ := r2
    simp only at hr
    obtain ⟨p, hp, hr⟩ := bind_ok hr
    obtain ⟨hpos, hcell, rfl⟩ := pop_inv hpop
    have sm2 : Small h2 := sm.of_le (varargCollect_size k hr)
    have sm1 : Small h1 := sm2.of_le (putV_sz e2)
    have hv := hc st.sp v (Nat.le_refl _) (by omega) hcell
    obtain ⟨g1, m1, a', rfl, nfa⟩ := putV_ok g hv.2 (plainGlob_plainVal hv.1) e1 sm1
    cases asPtr_inv ha
    obtain ⟨g2, m2, p', rfl, nfp⟩ := putV_ok g1 (pair_refs nfa (hacc.mono m1)) rfl e2 sm2
    cases asPtr_inv hp
    refine ih hr g2 nfp ?_ sm
    intro i w hi hlt hw
    have x := hc i w (by simp only at hi; omega) (by simp only at hlt; omega) hw
    exact ⟨x.1, x.2.mono (m1.trans m2)⟩

end

end StepB

/-! ## the instructions -/

open StepB

section
variable {ext : ExtOps} {s0 : St CHeap}

theorem hg_cons {s' : St CHeap} {b : Bool} (g : GoodI s0) (sd : StackDisc s0) (hop : opAt s0 .cons)
    (hx : exec (concreteOps ext) .cons (nx s0) = .ok (s', b)) (sm : Small s'.heap) :
    HG s'.heap ∧ plainGlob s'.acc = true := by
  unfold exec at hx
  obtain ⟨⟨d, st1⟩, hp1, hx⟩ := bind_ok hx
  simp only [concreteOps] at hx
  generalize e1 : putV s0.heap d = r1 at hx
  obtain ⟨h1, d1⟩ := r1
  simp only at hx
  obtain ⟨⟨a, st2⟩, hp2, hx⟩ := bind_ok hx
  simp only at hx
  generalize e2 : putV h1 a = r2 at hx
  obtain ⟨h2, a1⟩ := r2
  simp only at hx
  obtain ⟨a', ha, hx⟩ := bind_ok hx
  obtain ⟨d', hd, hx⟩ := bind_ok hx
  generalize e3 : putV h2 (.pair a' d') = r3 at hx
  obtain ⟨h3, p⟩ := r3
  simp only at hx
  cases hx
  have sm3 : Small h3 := sm
  have sm2 : Small h2 := sm3.of_le (putV_sz e3)
  have sm1 : Small h1 := sm2.of_le (putV_sz e2)
  obtain ⟨hpos1, hc1, rfl⟩ := pop_inv hp1
  obtain ⟨hpos2, hc2, rfl⟩ := pop_inv hp2
  have hc1' : s0.stack.cells[s0.stack.sp]? = some d := hc1
  have hc2' : s0.stack.cells[s0.stack.sp - 1]? = some a := hc2
  have hpos1' : 0 < s0.stack.sp := hpos1
  have pd := sd.cons hop _ d (Nat.le_refl _) (by omega) hc1'
  have pa := sd.cons hop _ a (by omega) (by omega) hc2'
  have rd : VRefsOk s0.heap d := roots_stack g.roots (Nat.le_refl _) hc1'
  have ra : VRefsOk s0.heap a := roots_stack g.roots (by omega) hc2'
  obtain ⟨g1, m1, dd, rfl, nfd⟩ := putV_ok g.hg rd (plainGlob_plainVal pd) e1 sm1
  obtain ⟨g2, m2, aa, rfl, nfa⟩ := putV_ok g1 (ra.mono m1) (plainGlob_plainVal pa) e2 sm2
  cases asPtr_inv ha
  cases asPtr_inv hd
  obtain ⟨g3, m3, pp, rfl, nfp⟩ := putV_ok g2 (pair_refs nfa (nfd.mono m2)) rfl e3 sm3
  exact ⟨g3, rfl⟩

theorem hg_vpush {s' : St CHeap} {b : Bool} (eg : ExtGood ext) (g : GoodI s0)
    (hx : exec (concreteOps ext) .vpushAcc (nx s0) = .ok (s', b)) (sm : Small s'.heap) :
    HG s'.heap ∧ plainGlob s'.acc = true := by
  unfold exec at hx
  obtain ⟨⟨v, st1⟩, hp1, hx⟩ := bind_ok hx
  obtain ⟨h', h2, hx⟩ := bind_ok hx
  cases hx
  obtain ⟨_, hcell, _⟩ := pop_inv hp1
  have hv : VRefsOk s0.heap v := roots_stack g.roots (Nat.le_refl _) hcell
  have key := eg.vpush s0.heap (deref s0.heap v) s0.acc h' g.hg (deref_refs g.hg hv) g.accOk h2 sm
  refine ⟨key.1, ?_⟩
  -- `acc` is the popped cell: a pointer, or a cell that is its own dereference
  have k2 := key.2.2
  show plainGlob v = true
  cases v <;> first | rfl | exact k2

theorem hg_closure {s' : St CHeap} {b : Bool} (g : GoodI s0)
    (hx : exec (concreteOps ext) .closureAcc (nx s0) = .ok (s', b)) (sm : Small s'.heap) :
    HG s'.heap ∧ plainGlob s'.acc = true := by
  unfold exec at hx
  obtain ⟨lam, h1, hx⟩ := bind_ok hx
  obtain ⟨⟨h', c⟩, h2, hx⟩ := bind_ok hx
  cases hx
  have hacc : s0.acc = .ptr lam := asPtr_inv h1
  have hl : NF s0.heap lam := by
    have := roots_acc g.roots
    rw [hacc] at this
    exact VRefsOk.ptr.mp this
  obtain ⟨x, _, y, _⟩ := makeClosure_hg g.hg hl (roots_ep g.roots) h2 sm
  exact ⟨x, y.1⟩

theorem hg_varArg {s' : St CHeap} {b : Bool} (g : GoodI s0) (sd : StackDisc s0) (hop : opAt s0 .varArg)
    (hx : exec (concreteOps ext) .varArg (nx s0) = .ok (s', b)) (sm : Small s'.heap) :
    HG s'.heap ∧ plainGlob s'.acc = true := by
  unfold exec at hx
  obtain ⟨s1, h1, hx⟩ := bind_ok hx
  cases hx
  unfold stepVarArg at h1
  simp only [concreteOps] at h1
  cases hl : lambdaAt s0.heap s0.ipL with
  | none => simp [hl] at h1
  | some lam =>
    simp only [hl, Option.map_some] at h1
    obtain ⟨req, hreq, h1⟩ := bind_ok h1
    obtain ⟨argc, hargc, h1⟩ := bind_ok h1
    obtain ⟨va, hva, hargc⟩ := bind_ok hargc
    cases asArgc_inv hargc
    obtain ⟨nn2, hcA⟩ := getOffset_inv hva
    have e2 : ((s0.stack.sp : Int) + -2).toNat = s0.stack.sp - 2 := by omega
    have hcA' : s0.stack.cells[s0.stack.sp - 2]? = some (.argc argc) := by rw [← e2]; exact hcA
    have ab := sd.enter (.inr hop) argc hcA'
    split at h1
    · cases h1
    · rename_i hge
      split at h1
      · rename_i heq
        obtain ⟨v, hv, h1⟩ := bind_ok h1
        generalize e1 : putV s0.heap v = r1 at h1
        obtain ⟨hp1, a1⟩ := r1
        simp only at h1
        generalize e2' : putV hp1 .nil = r2 at h1
        obtain ⟨hp2, n1⟩ := r2
        simp only at h1
        obtain ⟨a', ha, h1⟩ := bind_ok h1
        obtain ⟨n', hn, h1⟩ := bind_ok h1
        generalize e3 : putV hp2 (.pair a' n') = r3 at h1
        obtain ⟨hp3, p⟩ := r3
        simp only at h1
        obtain ⟨st, _, h1⟩ := bind_ok h1
        cases h1
        have sm3 : Small hp3 := sm
        have sm2 : Small hp2 := sm3.of_le (putV_sz e3)
        have sm1 : Small hp1 := sm2.of_le (putV_sz e2')
        obtain ⟨nn3, hcV⟩ := getOffset_inv hv
        have e3' : ((s0.stack.sp : Int) + -3).toNat = s0.stack.sp - 3 := by omega
        have hcV' : s0.stack.cells[s0.stack.sp - 3]? = some v := by rw [← e3']; exact hcV
        have pv := ab _ v (by omega) (by omega) hcV'
        have rv : VRefsOk s0.heap v := roots_stack g.roots (by omega) hcV'
        obtain ⟨g1, m1, aa, rfl, nfa⟩ := putV_ok g.hg rv (plainGlob_plainVal pv) e1 sm1
        obtain ⟨g2, m2, nn, rfl, nfn⟩ := putV_ok g1 (.of_addrFree _ rfl) rfl e2' sm2
        cases asPtr_inv ha
        cases asPtr_inv hn
        obtain ⟨g3, _, _⟩ := putV_ok g2 (pair_refs (nfa.mono m2) nfn) rfl e3 sm3
        exact ⟨g3, g.accv⟩
      · rename_i hne
        obtain ⟨⟨c1, st1⟩, hq1, h1⟩ := bind_ok h1
        obtain ⟨⟨c2, st2⟩, hq2, h1⟩ := bind_ok h1
        obtain ⟨⟨c3, st3⟩, hq3, h1⟩ := bind_ok h1
        simp only at h1
        generalize e1 : putV s0.heap .nil = r1 at h1
        obtain ⟨hp1, n1⟩ := r1
        simp only at h1
        obtain ⟨n', hn, h1⟩ := bind_ok h1
        obtain ⟨⟨hp2, lst, st4⟩, hcol, h1⟩ := bind_ok h1
        cases h1
        have sm2 : Small hp2 := sm
        have sm1 : Small hp1 := sm2.of_le (varargCollect_size _ hcol)
        obtain ⟨pos1, _, rfl⟩ := pop_inv hq1
        obtain ⟨pos2, _, rfl⟩ := pop_inv hq2
        obtain ⟨pos3, _, rfl⟩ := pop_inv hq3
        have pos1' : 0 < s0.stack.sp := pos1
        have pos2' : 0 < s0.stack.sp - 1 := pos2
        have pos3' : 0 < s0.stack.sp - 1 - 1 := pos3
        obtain ⟨g1, m1, nn, rfl, nfn⟩ := putV_ok g.hg (.of_addrFree _ rfl) rfl e1 sm1
        cases asPtr_inv hn
        refine ⟨varargCollect_hg _ hcol g1 nfn ?_ sm2, g.accv⟩
        intro i w hi hlt hw
        have hi' : i ≤ s0.stack.sp - 1 - 1 - 1 := hi
        have hlt' : s0.stack.sp - 1 - 1 - 1 < i + (argc - req) := hlt
        have hw' : s0.stack.cells[i]? = some w := hw
        exact ⟨ab i w (by omega) (by omega) hw', (roots_stack g.roots (by omega) hw').mono m1⟩

end

end Marwood.Lemmas.Good
