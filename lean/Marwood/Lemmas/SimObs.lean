import Marwood.Lemmas.SimHeapOps
/-!
# Heap simulation, lemma (c): observations are equal

`readObs fuel h v` is the structural read-out of a value, `get_as_cell`-style (heap.rs:262-326): pairs and
vectors are followed through the heap, scalars are returned with their payload tag, procedures and
other non-data are `proc`; `cut` when the fuel runs out (the Rust function recurses natively and does
not terminate on cyclic data, C06/C19). Under `Sim φ` the read-outs of related values are **equal** — no
address survives into the observation — and `eq?`-style pointer comparisons agree because `φ` is
injective.
-/
namespace Marwood.Lemmas.Sim
open Marwood Marwood.Vm Marwood.Vm.Concrete

inductive Obs
  | atom (v : VCell)
  | pair (a d : Obs)
  | vec (es : List Obs)
  | proc
  | cut
deriving Repr

def readObs : Nat → CHeap → VCell → Obs
  | 0, _, _ => .cut
  | f+1, h, v =>
    match v with
    | .ptr p =>
      match h.cells[p]? with
      | some (.val (.pair a d)) => .pair (readObs f h (.ptr a)) (readObs f h (.ptr d))
      | some (.val w) => if addrFree w then .atom w else .proc
      | some (.vector es) => .vec (es.map (readObs f h))
      | some _ => .proc
      | none => .atom .undefined
    | w => if addrFree w then .atom w else .proc

variable {φ : Inj} {h h' : CHeap}

theorem readObs_rel (hs : HeapSim φ h h') (ok : SizeOk h) (ok' : SizeOk h') :
    ∀ (f : Nat) {v v'}, VRel φ v v' → readObs f h v = readObs f h' v' := by
  intro f
  induction f with
  | zero => intro v v' _; rfl
  | succ f ih =>
    intro v v' hv
    cases hv with
    | ptr hp =>
      simp only [readObs]
      rcases hp.lookup hs ok ok' with ⟨e1, e2⟩ | ⟨_, c, c', e1, e2, r⟩
      · rw [e1, e2]
      · rw [e1, e2]
        cases r with
        | val hw =>
          cases hw with
          | pair ha hd => simp only; rw [ih (.ptr ha), ih (.ptr hd)]
          | atom hf => rename_i w; cases w <;> first | rfl | simp [addrFree] at hf
          | closure _ _ => rfl
          | lexEnvPtr _ => rfl
          | envPtr _ => rfl
          | instrPtr _ => rfl
          | ptr _ => rfl
        | lexEnv _ => rfl
        | vector hes =>
          simp only
          congr 1
          clear e1 e2
          induction hes with
          | nil => rfl
          | cons h1 _ ih2 => simp only [List.map_cons]; rw [ih h1, ih2]
        | lambda _ _ _ => rfl
        | cont _ => rfl
    | atom hf => cases v <;> first | rfl | simp [addrFree] at hf
    | pair _ _ => rfl
    | closure _ _ => rfl
    | lexEnvPtr _ => rfl
    | envPtr _ => rfl
    | instrPtr _ => rfl

/-- the value an evaluation returns (`heap.get_as_cell(&acc)`), read with `fuel` -/
def resultObs (fuel : Nat) (s : St CHeap) : Obs := readObs fuel s.heap s.acc

theorem resultObs_sim {s t : St CHeap} (hs : Sim φ s t) (ok : SizeOk s.heap) (ok' : SizeOk t.heap) (fuel : Nat) :
    resultObs fuel s = resultObs fuel t :=
  readObs_rel hs.heap ok ok' fuel hs.acc

/-- `eq?` on pointers: two related pairs of pointers are equal on the left iff they are on the right -/
theorem eq_agree (hs : HeapSim φ h h') {a b a' b' : Nat} (ha : φ a = some a') (hb : φ b = some b') :
    a = b ↔ a' = b' := by
  constructor
  · intro e; subst e; rw [ha] at hb; cases hb; rfl
  · intro e; subst e; exact hs.inj a b a' ha hb

end Marwood.Lemmas.Sim
