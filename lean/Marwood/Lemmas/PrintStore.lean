import Marwood.Print.Store
/-!
# T10.2: `get_as_cell (put_cell d) = d` over the abstract store

`Ext st st'`: `st'` extends `st` (allocation only appends). Reading is stable under extension and
under more fuel; `put_cell` extends the store and returns a pointer to a cell from which
`get_as_cell` rebuilds the datum.
-/
namespace Marwood.PStore
open Marwood

def Ext (st st' : Store) : Prop := ∃ extra, st'.cells = st.cells ++ extra

theorem Ext.refl (st : Store) : Ext st st := ⟨[], by simp⟩

theorem Ext.trans {a b c : Store} (h1 : Ext a b) (h2 : Ext b c) : Ext a c := by
  obtain ⟨x, hx⟩ := h1
  obtain ⟨y, hy⟩ := h2
  exact ⟨x ++ y, by rw [hy, hx, List.append_assoc]⟩

theorem Ext.get {st st' : Store} (h : Ext st st') {p : Nat} {c : SCell} (hc : st.cells[p]? = some c) :
    st'.cells[p]? = some c := by
  obtain ⟨x, hx⟩ := h
  rw [hx]
  have hp : p < st.cells.length := by
    rcases Nat.lt_or_ge p st.cells.length with h | h
    · exact h
    · rw [List.getElem?_eq_none h] at hc; cases hc
  rw [List.getElem?_append_left hp]
  exact hc

theorem alloc_ext (st : Store) (c : SCell) : Ext st (st.alloc c).1 ∧
    (st.alloc c).1.cells[(st.alloc c).2]? = some c := by
  refine ⟨⟨[c], rfl⟩, ?_⟩
  simp [Store.alloc]

theorem findSym_spec (s : Text) : ∀ (cs : List SCell) (i p : Nat), findSym s cs i = some p →
    i ≤ p ∧ cs[p - i]? = some (.sym s) := by
  intro cs
  induction cs with
  | nil => intro i p h; cases h
  | cons c cs ih =>
    intro i p h
    simp only [findSym] at h
    split at h
    · rename_i hc
      cases h
      simp [hc]
    · obtain ⟨h1, h2⟩ := ih (i + 1) p h
      refine ⟨by omega, ?_⟩
      have : p - i = (p - (i + 1)) + 1 := by omega
      rw [this, List.getElem?_cons_succ]
      exact h2

/-- `Heap::put`: the store is extended (possibly not at all) and the returned address holds the cell -/
theorem put_spec (st : Store) (c : SCell) : Ext st (st.put c).1 ∧ (st.put c).1.cells[(st.put c).2]? = some c := by
  cases c with
  | sym s =>
    simp only [Store.put]
    cases h : findSym s st.cells 0 with
    | none => exact alloc_ext st _
    | some p =>
      simp only
      have := (findSym_spec s st.cells 0 p h).2
      simp only [Nat.sub_zero] at this
      exact ⟨Ext.refl st, this⟩
  | val d => exact alloc_ext st _
  | pair a b => exact alloc_ext st _
  | str s => exact alloc_ext st _
  | vec es => exact alloc_ext st _

/-! ## reading: more fuel and a larger store do not change a successful read -/

def okOf {α : Type} (r : R α) : Option α :=
  match r with
  | .ok a => some a
  | _ => none

theorem get_stable (st st' : Store) (hext : Ext st st') : ∀ f : Nat,
    (∀ p x, getPtr st f p = .ok x → getPtr st' (f + 1) p = .ok x ∧ getPtr st' f p = .ok x) ∧
    (∀ c x, getCell st f c = .ok x → getCell st' (f + 1) c = .ok x ∧ getCell st' f c = .ok x) ∧
    (∀ v x, getVal st f v = .ok x → getVal st' (f + 1) v = .ok x ∧ getVal st' f v = .ok x) ∧
    (∀ vs xs, getVals st f vs = .ok xs → getVals st' (f + 1) vs = .ok xs ∧ getVals st' f vs = .ok xs) ∧
    (∀ a d acc x, getSpine st f a d acc = .ok x →
        getSpine st' (f + 1) a d acc = .ok x ∧ getSpine st' f a d acc = .ok x) := by
  intro f
  induction f with
  | zero =>
    refine ⟨?_, ?_, ?_, ?_, ?_⟩ <;> intros <;> simp_all [getPtr, getCell, getVal, getVals, getSpine]
  | succ f ih =>
    obtain ⟨ihP, ihC, ihV, ihVs, ihS⟩ := ih
    refine ⟨?_, ?_, ?_, ?_, ?_⟩
    · intro p x h
      rw [getPtr] at h
      cases hc : st.cells[p]? with
      | none => simp [hc] at h
      | some c =>
        simp only [hc] at h
        have hc' := hext.get hc
        obtain ⟨h1, h2⟩ := ihC c x h
        constructor
        · rw [getPtr]; simp only [hc']; exact h1
        · rw [getPtr]; simp only [hc']; exact h2
    · intro c x h
      cases c with
      | val d => rw [getCell] at h; exact ⟨by rw [getCell]; exact h, by rw [getCell]; exact h⟩
      | str s => rw [getCell] at h; exact ⟨by rw [getCell]; exact h, by rw [getCell]; exact h⟩
      | sym s => rw [getCell] at h; exact ⟨by rw [getCell]; exact h, by rw [getCell]; exact h⟩
      | vec es =>
        rw [getCell] at h
        cases hv : getVals st f es with
        | ok xs =>
          simp only [hv] at h
          obtain ⟨h1, h2⟩ := ihVs es xs hv
          constructor
          · rw [getCell]; simp only [h1]; exact h
          · rw [getCell]; simp only [h2]; exact h
        | err e => simp [hv] at h
        | panic m => simp [hv] at h
      | pair a d =>
        rw [getCell] at h
        obtain ⟨h1, h2⟩ := ihS a d [] x h
        exact ⟨by rw [getCell]; exact h1, by rw [getCell]; exact h2⟩
    · intro v x h
      cases v with
      | imm d => rw [getVal] at h; exact ⟨by rw [getVal]; exact h, by rw [getVal]; exact h⟩
      | ptr p =>
        rw [getVal] at h
        obtain ⟨h1, h2⟩ := ihP p x h
        exact ⟨by rw [getVal]; exact h1, by rw [getVal]; exact h2⟩
    · intro vs xs h
      cases vs with
      | nil => rw [getVals] at h; exact ⟨by rw [getVals]; exact h, by rw [getVals]; exact h⟩
      | cons v vs =>
        rw [getVals] at h
        cases hv : getVal st f v with
        | ok x =>
          simp only [hv] at h
          cases hvs : getVals st f vs with
          | ok ys =>
            simp only [hvs] at h
            obtain ⟨a1, a2⟩ := ihV v x hv
            obtain ⟨b1, b2⟩ := ihVs vs ys hvs
            constructor
            · rw [getVals]; simp only [a1, b1]; exact h
            · rw [getVals]; simp only [a2, b2]; exact h
          | err e => simp [hvs] at h
          | panic m => simp [hvs] at h
        | err e => simp [hv] at h
        | panic m => simp [hv] at h
    · intro a d acc x h
      rw [getSpine] at h
      cases hp : getPtr st f a with
      | ok y =>
        simp only [hp] at h
        obtain ⟨p1, p2⟩ := ihP a y hp
        cases hc : st.cells[d]? with
        | none => simp [hc] at h
        | some c =>
          have hc' := hext.get hc
          simp only [hc] at h
          cases hk : spineKind c with
          | next a' d' =>
            simp only [hk] at h
            obtain ⟨s1, s2⟩ := ihS _ _ _ _ h
            constructor
            · rw [getSpine]; simp only [p1, hc', hk]; exact s1
            · rw [getSpine]; simp only [p2, hc', hk]; exact s2
          | stop =>
            simp only [hk] at h
            constructor
            · rw [getSpine]; simp only [p1, hc', hk]; exact h
            · rw [getSpine]; simp only [p2, hc', hk]; exact h
          | tail =>
            simp only [hk] at h
            cases hg : getCell st f c with
            | ok t =>
              simp only [hg] at h
              obtain ⟨g1, g2⟩ := ihC c t hg
              constructor
              · rw [getSpine]; simp only [p1, hc', hk, g1]; exact h
              · rw [getSpine]; simp only [p2, hc', hk, g2]; exact h
            | err e => simp [hg] at h
            | panic m => simp [hg] at h
      | err e => simp [hp] at h
      | panic m => simp [hp] at h

theorem getCell_mono {st st' : Store} (hext : Ext st st') {f f' : Nat} (hle : f ≤ f') {c : SCell} {x : Datum}
    (h : getCell st f c = .ok x) : getCell st' f' c = .ok x := by
  induction hle with
  | refl => exact ((get_stable st st' hext f).2.1 c x h).2
  | step _ ih => exact ((get_stable st' st' (Ext.refl _) _).2.1 c x ih).1

theorem getPtr_mono {st st' : Store} (hext : Ext st st') {f f' : Nat} (hle : f ≤ f') {p : Nat} {x : Datum}
    (h : getPtr st f p = .ok x) : getPtr st' f' p = .ok x := by
  induction hle with
  | refl => exact ((get_stable st st' hext f).1 p x h).2
  | step _ ih => exact ((get_stable st' st' (Ext.refl _) _).1 p x ih).1

theorem getVal_mono {st st' : Store} (hext : Ext st st') {f f' : Nat} (hle : f ≤ f') {v : SVal} {x : Datum}
    (h : getVal st f v = .ok x) : getVal st' f' v = .ok x := by
  induction hle with
  | refl => exact ((get_stable st st' hext f).2.2.1 v x h).2
  | step _ ih => exact ((get_stable st' st' (Ext.refl _) _).2.2.1 v x ih).1

theorem getVals_mono {st st' : Store} (hext : Ext st st') {f f' : Nat} (hle : f ≤ f') {vs : List SVal}
    {xs : List Datum} (h : getVals st f vs = .ok xs) : getVals st' f' vs = .ok xs := by
  induction hle with
  | refl => exact ((get_stable st st' hext f).2.2.2.1 vs xs h).2
  | step _ ih => exact ((get_stable st' st' (Ext.refl _) _).2.2.2.1 vs xs ih).1

theorem getSpine_mono {st st' : Store} (hext : Ext st st') {f f' : Nat} (hle : f ≤ f') {a d : Nat}
    {acc : List Datum} {x : Datum} (h : getSpine st f a d acc = .ok x) : getSpine st' f' a d acc = .ok x := by
  induction hle with
  | refl => exact ((get_stable st st' hext f).2.2.2.2 a d acc x h).2
  | step _ ih => exact ((get_stable st' st' (Ext.refl _) _).2.2.2.2 a d acc x ih).1

/-! ## the accumulator of the spine loop -/

theorem ofListTail_append (xs ys : List Datum) (t : Datum) :
    Datum.ofListTail (xs ++ ys) t = Datum.ofListTail xs (Datum.ofListTail ys t) := by
  induction xs with
  | nil => rfl
  | cons x xs ih => simp [Datum.ofListTail, ih]

theorem ofListTail_nil (xs : List Datum) : Datum.ofListTail xs .nil = Datum.ofList xs := by
  induction xs with
  | nil => rfl
  | cons x xs ih => simp [Datum.ofListTail, Datum.ofList, ih]

theorem getSpine_acc (st : Store) : ∀ (f a d : Nat) (acc0 acc : List Datum) (r0 : Datum),
    getSpine st f a d acc0 = .ok r0 → getSpine st f a d (acc ++ acc0) = .ok (Datum.ofListTail acc r0) := by
  intro f
  induction f with
  | zero => intro a d acc0 acc r0 h; simp [getSpine] at h
  | succ f ih =>
    intro a d acc0 acc r0 h
    rw [getSpine] at h ⊢
    cases hp : getPtr st f a with
    | ok x =>
      simp only [hp] at h ⊢
      cases hc : st.cells[d]? with
      | none => simp [hc] at h
      | some c =>
        simp only [hc] at h ⊢
        cases hk : spineKind c with
        | next a' d' =>
          simp only [hk] at h ⊢
          rw [List.append_assoc]
          exact ih _ _ _ _ _ h
        | stop =>
          simp only [hk] at h ⊢
          cases h
          rw [List.append_assoc, ← ofListTail_nil, ofListTail_append, ofListTail_nil]
        | tail =>
          simp only [hk] at h ⊢
          cases hg : getCell st f c with
          | ok t =>
            simp only [hg] at h ⊢
            cases h
            simp only [improper]
            rw [List.append_assoc, ofListTail_append]
          | err e => simp [hg] at h
          | panic m => simp [hg] at h
    | err e => simp [hp] at h
    | panic m => simp [hp] at h

/-! ## `put_cell` then `get_as_cell` -/

def proper : Datum → Bool
  | .nil => true
  | .pair _ d => proper d
  | _ => false

/-- data that have a heap form: no procedure, macro or continuation inside; vector spines proper -/
def Plain : Datum → Bool
  | .continuation => false
  | .macro_ => false
  | .procedure _ => false
  | .pair a d => Plain a && Plain d
  | .vec e => Plain e && proper e
  | _ => true

def KindFor (c : SCell) (d : Datum) : Prop :=
  match d with
  | .pair _ _ => ∃ a b, c = .pair a b
  | .nil => spineKind c = .stop
  | _ => spineKind c = .tail

def bound (d : Datum) : Nat := 4 * dsize d

theorem dsize_pos (d : Datum) : 1 ≤ dsize d := by
  cases d <;> simp [dsize]

theorem ofList_listElems : ∀ e : Datum, proper e = true → Datum.ofList (Datum.listElems e) = e := by
  intro e
  induction e with
  | nil => intro _; rfl
  | pair a d _ ih => intro h; simp only [proper] at h; simp [Datum.listElems, Datum.ofList, ih h]
  | _ => intro h; cases h

/-- what `put_cell`, `maybe_put_cell` and the element loop of the `Vector` arm establish -/
def PutOk (d : Datum) : Prop :=
  (∀ st, ∃ st' p c, putCell st d = .ok (st', p) ∧ Ext st st' ∧ st'.cells[p]? = some c ∧ KindFor c d ∧
      getCell st' (bound d) c = .ok d) ∧
  (∀ st, ∃ st' v, maybePutCell st d = .ok (st', v) ∧ Ext st st' ∧ getVal st' (bound d + 2) v = .ok d) ∧
  (proper d = true → ∀ st, ∃ st' vs, putElems st d = .ok (st', vs) ∧ Ext st st' ∧
      getVals st' (bound d) vs = .ok (Datum.listElems d))

/-- a scalar: boxed by `put_cell`, unboxed by `maybe_put_cell` -/
theorem putOk_scalar (d : Datum) (hput : ∀ st, putCell st d = .ok (st.put (.val d)))
    (hmaybe : ∀ st, maybePutCell st d = .ok (st, .imm d)) (hk : KindFor (.val d) d)
    (he : ∀ st, putElems st d = .ok (st, [])) (hl : Datum.listElems d = []) : PutOk d := by
  refine ⟨?_, ?_, ?_⟩
  · intro st
    obtain ⟨h1, h2⟩ := put_spec st (.val d)
    refine ⟨_, _, _, hput st, h1, h2, hk, ?_⟩
    have : bound d = (bound d - 1) + 1 := by have := dsize_pos d; unfold bound; omega
    rw [this, getCell]
  · intro st
    exact ⟨st, _, hmaybe st, Ext.refl st, by rw [getVal]⟩
  · intro _ st
    refine ⟨st, [], he st, Ext.refl st, ?_⟩
    have : bound d = (bound d - 1) + 1 := by have := dsize_pos d; unfold bound; omega
    rw [this, getVals, hl]

theorem getVal_ptr {st : Store} {p : Nat} {c : SCell} {d : Datum} {f : Nat} (hc : st.cells[p]? = some c)
    (h : getCell st f c = .ok d) : getVal st (f + 2) (.ptr p) = .ok d := by
  rw [getVal, getPtr]
  simp only [hc, h]

/-- a string or symbol: boxed by both -/
theorem putOk_boxed (d : Datum) (c : SCell) (hput : ∀ st, putCell st d = .ok (st.put c))
    (hmaybe : ∀ st, maybePutCell st d = .ok ((st.put c).1, .ptr (st.put c).2)) (hk : KindFor c d)
    (hget : ∀ st f, getCell st (f + 1) c = .ok d)
    (he : ∀ st, putElems st d = .ok (st, [])) (hl : Datum.listElems d = []) : PutOk d := by
  have hb : bound d = (bound d - 1) + 1 := by have := dsize_pos d; unfold bound; omega
  refine ⟨?_, ?_, ?_⟩
  · intro st
    obtain ⟨h1, h2⟩ := put_spec st c
    exact ⟨_, _, _, hput st, h1, h2, hk, by rw [hb]; exact hget _ _⟩
  · intro st
    obtain ⟨h1, h2⟩ := put_spec st c
    exact ⟨_, _, hmaybe st, h1, getVal_ptr h2 (by rw [hb]; exact hget _ _)⟩
  · intro _ st
    refine ⟨st, [], he st, Ext.refl st, ?_⟩
    rw [hb, getVals, hl]

theorem spineKind_next {c : SCell} {a b : Nat} (h : spineKind c = .next a b) : c = .pair a b := by
  cases c with
  | pair x y => simp only [spineKind] at h; cases h; rfl
  | val d => cases d <;> simp [spineKind] at h
  | str s => simp [spineKind] at h
  | sym s => simp [spineKind] at h
  | vec es => simp [spineKind] at h

/-- reading back a freshly built pair cell -/
theorem getCell_pair {st : Store} {a d : Datum} {pa pd : Nat} {ca cd : SCell}
    (hca : st.cells[pa]? = some ca) (hga : getCell st (bound a) ca = .ok a)
    (hcd : st.cells[pd]? = some cd) (hkd : KindFor cd d) (hgd : getCell st (bound d) cd = .ok d) :
    getCell st (bound (.pair a d)) (.pair pa pd) = .ok (.pair a d) := by
  have hb : bound (.pair a d) = (bound a + bound d + 2) + 1 + 1 := by simp [bound, dsize]; omega
  rw [hb, getCell, getSpine]
  have hp : getPtr st (bound a + bound d + 2) pa = .ok a := by
    have : bound a + bound d + 2 = (bound a + bound d + 1) + 1 := by omega
    rw [this, getPtr]
    simp only [hca]
    exact getCell_mono (Ext.refl st) (by omega) hga
  simp only [hp, hcd]
  cases d with
  | pair x y =>
    obtain ⟨a', d', hcd'⟩ := hkd
    subst hcd'
    simp only [spineKind]
    have hbd : bound (.pair x y) = (bound (.pair x y) - 1) + 1 := by simp [bound, dsize]; omega
    rw [hbd, getCell] at hgd
    have := getSpine_acc st _ _ _ [] [a] _ hgd
    simp only [List.append_nil] at this
    exact getSpine_mono (Ext.refl st) (by omega) this
  | nil =>
    simp only [KindFor] at hkd
    simp only [hkd]
    rfl
  | bool b =>
    simp only [KindFor] at hkd
    simp only [hkd, getCell_mono (Ext.refl st) (show bound (.bool b) ≤ bound a + bound (.bool b) + 2 by omega) hgd]
    rfl
  | char c =>
    simp only [KindFor] at hkd
    simp only [hkd, getCell_mono (Ext.refl st) (show bound (.char c) ≤ bound a + bound (.char c) + 2 by omega) hgd]
    rfl
  | num n =>
    simp only [KindFor] at hkd
    simp only [hkd, getCell_mono (Ext.refl st) (show bound (.num n) ≤ bound a + bound (.num n) + 2 by omega) hgd]
    rfl
  | str s =>
    simp only [KindFor] at hkd
    simp only [hkd, getCell_mono (Ext.refl st) (show bound (.str s) ≤ bound a + bound (.str s) + 2 by omega) hgd]
    rfl
  | sym s =>
    simp only [KindFor] at hkd
    simp only [hkd, getCell_mono (Ext.refl st) (show bound (.sym s) ≤ bound a + bound (.sym s) + 2 by omega) hgd]
    rfl
  | vec e =>
    simp only [KindFor] at hkd
    simp only [hkd, getCell_mono (Ext.refl st) (show bound (.vec e) ≤ bound a + bound (.vec e) + 2 by omega) hgd]
    rfl
  | continuation =>
    simp only [KindFor] at hkd
    simp only [hkd, getCell_mono (Ext.refl st) (show bound .continuation ≤ bound a + bound .continuation + 2 by omega) hgd]
    rfl
  | macro_ =>
    simp only [KindFor] at hkd
    simp only [hkd, getCell_mono (Ext.refl st) (show bound .macro_ ≤ bound a + bound .macro_ + 2 by omega) hgd]
    rfl
  | procedure p =>
    simp only [KindFor] at hkd
    simp only [hkd, getCell_mono (Ext.refl st) (show bound (.procedure p) ≤ bound a + bound (.procedure p) + 2 by omega) hgd]
    rfl
  | undefined =>
    simp only [KindFor] at hkd
    simp only [hkd, getCell_mono (Ext.refl st) (show bound .undefined ≤ bound a + bound .undefined + 2 by omega) hgd]
    rfl
  | void =>
    simp only [KindFor] at hkd
    simp only [hkd, getCell_mono (Ext.refl st) (show bound .void ≤ bound a + bound .void + 2 by omega) hgd]
    rfl

theorem putOk_pair (a d : Datum) (ha : PutOk a) (hd : PutOk d) : PutOk (.pair a d) := by
  -- what both `put_cell` and `maybe_put_cell` do with a pair
  have core : ∀ st, ∃ st1 pa st2 pd, putCell st a = .ok (st1, pa) ∧ putCell st1 d = .ok (st2, pd) ∧
      Ext st (st2.put (.pair pa pd)).1 ∧
      (st2.put (.pair pa pd)).1.cells[(st2.put (.pair pa pd)).2]? = some (.pair pa pd) ∧
      getCell (st2.put (.pair pa pd)).1 (bound (.pair a d)) (.pair pa pd) = .ok (.pair a d) := by
    intro st
    obtain ⟨st1, pa, ca, h1, e1, hca, _, hga⟩ := ha.1 st
    obtain ⟨st2, pd, cd, h2, e2, hcd, hkd, hgd⟩ := hd.1 st1
    obtain ⟨e3, hc3⟩ := put_spec st2 (.pair pa pd)
    refine ⟨st1, pa, st2, pd, h1, h2, e1.trans (e2.trans e3), hc3, ?_⟩
    exact getCell_pair ((e2.trans e3).get hca) (getCell_mono (e2.trans e3) (Nat.le_refl _) hga)
      (e3.get hcd) hkd (getCell_mono e3 (Nat.le_refl _) hgd)
  refine ⟨?_, ?_, ?_⟩
  · intro st
    obtain ⟨st1, pa, st2, pd, h1, h2, e, hc, hg⟩ := core st
    refine ⟨_, _, _, ?_, e, hc, ⟨pa, pd, rfl⟩, hg⟩
    rw [putCell]
    simp only [h1, h2]
  · intro st
    obtain ⟨st1, pa, st2, pd, h1, h2, e, hc, hg⟩ := core st
    refine ⟨_, _, ?_, e, getVal_ptr hc hg⟩
    rw [maybePutCell]
    simp only [h1, h2]
  · intro hp st
    simp only [proper] at hp
    obtain ⟨st1, v, h1, e1, hv⟩ := ha.2.1 st
    obtain ⟨st2, vs, h2, e2, hvs⟩ := hd.2.2 hp st1
    refine ⟨st2, v :: vs, ?_, e1.trans e2, ?_⟩
    · rw [putElems]
      simp only [h1, h2]
    · have hb : bound (.pair a d) = (bound a + bound d + 3) + 1 := by simp [bound, dsize]; omega
      rw [hb, getVals]
      have g1 := getVal_mono e2 (show bound a + 2 ≤ bound a + bound d + 3 by omega) hv
      have g2 := getVals_mono (Ext.refl st2) (show bound d ≤ bound a + bound d + 3 by omega) hvs
      simp only [g1, g2, Datum.listElems]

theorem putOk_vec (e : Datum) (he : PutOk e) (hp : proper e = true) : PutOk (.vec e) := by
  have core : ∀ st, ∃ st1 vs, putElems st e = .ok (st1, vs) ∧ Ext st (st1.put (.vec vs)).1 ∧
      (st1.put (.vec vs)).1.cells[(st1.put (.vec vs)).2]? = some (.vec vs) ∧
      getCell (st1.put (.vec vs)).1 (bound (.vec e)) (.vec vs) = .ok (.vec e) := by
    intro st
    obtain ⟨st1, vs, h1, e1, hvs⟩ := he.2.2 hp st
    obtain ⟨e2, hc⟩ := put_spec st1 (.vec vs)
    refine ⟨st1, vs, h1, e1.trans e2, hc, ?_⟩
    have hb : bound (.vec e) = (bound e + 3) + 1 := by simp [bound, dsize]; omega
    rw [hb, getCell]
    have g := getVals_mono e2 (show bound e ≤ bound e + 3 by omega) hvs
    simp only [g, Datum.vecOfList, ofList_listElems e hp]
  refine ⟨?_, ?_, ?_⟩
  · intro st
    obtain ⟨st1, vs, h1, e, hc, hg⟩ := core st
    refine ⟨_, _, _, ?_, e, hc, rfl, hg⟩
    rw [putCell]
    simp only [h1]
  · intro st
    obtain ⟨st1, vs, h1, e, hc, hg⟩ := core st
    refine ⟨_, _, ?_, e, getVal_ptr hc hg⟩
    rw [maybePutCell]
    simp only [h1]
  · intro h; cases h

/-- **T10.2 core** for every datum that has a heap form -/
theorem putOk_all : ∀ d : Datum, Plain d = true → PutOk d := by
  intro d
  induction d with
  | bool b => intro _; exact putOk_scalar _ (fun _ => rfl) (fun _ => rfl) rfl (fun _ => rfl) rfl
  | char c => intro _; exact putOk_scalar _ (fun _ => rfl) (fun _ => rfl) rfl (fun _ => rfl) rfl
  | num n => intro _; exact putOk_scalar _ (fun _ => rfl) (fun _ => rfl) rfl (fun _ => rfl) rfl
  | nil => intro _; exact putOk_scalar _ (fun _ => rfl) (fun _ => rfl) rfl (fun _ => rfl) rfl
  | undefined => intro _; exact putOk_scalar _ (fun _ => rfl) (fun _ => rfl) rfl (fun _ => rfl) rfl
  | void => intro _; exact putOk_scalar _ (fun _ => rfl) (fun _ => rfl) rfl (fun _ => rfl) rfl
  | str s =>
    intro _
    exact putOk_boxed _ (.str s) (fun _ => rfl) (fun _ => rfl) rfl (fun _ _ => rfl) (fun _ => rfl) rfl
  | sym s =>
    intro _
    exact putOk_boxed _ (.sym s) (fun _ => rfl) (fun _ => rfl) rfl (fun _ _ => rfl) (fun _ => rfl) rfl
  | continuation => intro h; cases h
  | macro_ => intro h; cases h
  | procedure p => intro h; cases h
  | pair a d iha ihd =>
    intro h
    simp only [Plain, Bool.and_eq_true] at h
    exact putOk_pair a d (iha h.1) (ihd h.2)
  | vec e ih =>
    intro h
    simp only [Plain, Bool.and_eq_true] at h
    exact putOk_vec e (ih h.1) h.2

theorem hasOpaque_of_plain : ∀ d : Datum, Plain d = true → hasOpaque d = false := by
  intro d
  induction d with
  | pair a d iha ihd =>
    intro h
    simp only [Plain, Bool.and_eq_true] at h
    simp [hasOpaque, iha h.1, ihd h.2]
  | vec e ih =>
    intro h
    simp only [Plain, Bool.and_eq_true] at h
    simp [hasOpaque, ih h.1]
  | continuation => intro h; cases h
  | macro_ => intro h; cases h
  | procedure p => intro h; cases h
  | _ => intro _; rfl

/-- **T10.2** `Vm::eval` of `(quote d)` returns `d` -/
theorem evalQuote_id (d : Datum) (h : Plain d = true) : evalQuote d = .ok d := by
  obtain ⟨st', v, hput, _, hg⟩ := (putOk_all d h).2.1 Store.empty
  unfold evalQuote
  simp only [hasOpaque_of_plain d h, Bool.false_eq_true, if_false, hput]
  exact getVal_mono (Ext.refl _) (by unfold bound; omega) hg

end Marwood.PStore
