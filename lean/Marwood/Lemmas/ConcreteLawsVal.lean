import Marwood.Lemmas.ConcreteLawsGc
import Marwood.Lemmas.ReadsCongr
/-!
# `CodeLaws` for the concrete heap with the value typing: `Val = IsValue`

`concreteLaws ext ecl : CodeLaws (gops ext)` (Lemmas/ConcreteLawsOps.lean) instantiates the heap laws with
`Val = fun _ => True`: the frame chain in shape only. Here the value notion is `IsValue` (a pointer or an
address-free cell: `Lemmas.Sim.plainGlob`, the notion of `GoodI`). The `*_val` laws about *allocation*
(`put`, `maybe_put`, the continuation and closure constructors return a `Ptr`, or the immediate itself) hold
of the concrete heap as it is. The laws about *reads* — a global slot, a lexical-environment slot hold a
value — are facts about reachable heaps (`Plain.globals`, `EnvOk` of the heap-simulation invariant `HG`), not
about every heap; `vops ext` therefore **guards** the reads (`vglobGet`, `venvGet`: a slot that does not hold
a value reads as `Undefined` / as no slot) and VPUSH (a non-value "vector" is an `ExpectedType` error), just
as `gops` guards the callee. The guards are invisible on the states of a real run: `step_vops` in
`Lemmas/StackDiscOfWFS.lean` (from `GoodI s`, `CalleeOk s` and `ExtGood ext`).
-/
namespace Marwood.Vm.Concrete
open Marwood Marwood.Vm Marwood.Vm.Verify
open Marwood.Heap (GcState)
open Marwood.Lemmas.Sim (plainGlob)

/-- a global slot, read as a value -/
def vglobGet (h : CHeap) (n : Nat) : VCell :=
  if plainGlob (h.globals[n]?.getD .undefined) then h.globals[n]?.getD .undefined else .undefined

/-- an environment slot is a value, or a `LexicalEnvPtr` to a slot holding a value (`EnvOk`) -/
def slotOkB (h : CHeap) (v : VCell) : Bool :=
  plainGlob v || (match v with
    | .lexEnvPtr e k => (match envGet h e k with
      | some w => plainGlob w
      | none => true)
    | _ => false)

def venvGet (h : CHeap) (e k : Nat) : Option VCell :=
  match envGet h e k with
  | some v => if slotOkB h v then some v else none
  | none => none

def vvectorPush (ext : ExtOps) (h : CHeap) (vec v : VCell) : Outcome CHeap :=
  if plainGlob vec then ext.vectorPush h vec v else .err .expectedType

/-- the concrete machine's heap interface with the guarded callee and the value-guarded reads -/
def vops (ext : ExtOps) : HeapOps CHeap := (gops ext).withReads vglobGet venvGet (vvectorPush ext)

theorem putNew_ptr (h : CHeap) (v : VCell) : ∃ p, (putNew h v).2 = .ptr p := by
  unfold putNew
  split
  · split
    · exact ⟨_, rfl⟩
    · exact ⟨_, rfl⟩
  · exact ⟨_, rfl⟩

theorem putV_val (h : CHeap) (v : VCell) : IsValue (putV h v).2 := by
  unfold putV
  split
  · rename_i hp
    show IsValue v
    cases v <;> first | rfl | (simp [isPtr] at hp)
  · obtain ⟨p, hp⟩ := putNew_ptr h v
    rw [hp]; rfl

theorem maybePutV_val (h : CHeap) (v : VCell) : IsValue (maybePutV h v).2 := by
  unfold maybePutV
  split
  · rename_i hp
    show IsValue v
    cases v <;> first | rfl | (simp [isPtr, immediate] at hp)
  · obtain ⟨p, hp⟩ := putNew_ptr h v
    rw [hp]; rfl

theorem makeClosure_val {h h' : CHeap} {lam ep bp : Nat} {st : Stack} {c : VCell}
    (hm : makeClosure h lam ep bp st = .ok (h', c)) : IsValue c := by
  unfold makeClosure at hm
  split at hm
  · cases hm
  · obtain ⟨slots, _, hm⟩ := bind_inv hm
    cases hm
    rfl

theorem vglobGet_val (h : CHeap) (n : Nat) : IsValue (vglobGet h n) := by
  unfold vglobGet
  split
  · assumption
  · rfl

theorem venvGet_some {h : CHeap} {e k : Nat} {v : VCell} (hg : venvGet h e k = some v) :
    envGet h e k = some v ∧ slotOkB h v = true := by
  unfold venvGet at hg
  cases hx : envGet h e k with
  | none => rw [hx] at hg; cases hg
  | some w =>
    rw [hx] at hg
    dsimp only at hg
    split at hg
    · cases hg; exact ⟨rfl, by assumption⟩
    · cases hg

theorem venvGet_val {h : CHeap} {e k : Nat} {v : VCell} (hg : venvGet h e k = some v)
    (hne : ∀ e' k', v ≠ .lexEnvPtr e' k') : IsValue v := by
  obtain ⟨_, hs⟩ := venvGet_some hg
  unfold slotOkB at hs
  cases hp : plainGlob v with
  | true => exact hp
  | false =>
    rw [hp] at hs
    simp only [Bool.false_or] at hs
    cases v <;> first | cases hs | exact absurd rfl (hne _ _)

theorem venvGet_val2 {h : CHeap} {e k e' k' : Nat} {w : VCell} (hg : venvGet h e k = some (.lexEnvPtr e' k'))
    (hw : venvGet h e' k' = some w) : IsValue w := by
  obtain ⟨_, hs⟩ := venvGet_some hg
  obtain ⟨hw', _⟩ := venvGet_some hw
  unfold slotOkB at hs
  have hp : plainGlob (VCell.lexEnvPtr e' k') = false := rfl
  rw [hp] at hs
  simp only [Bool.false_or, hw'] at hs
  exact hs

/-- a heap operation of the value-guarded machine is one of the callee-guarded machine -/
theorem heapStep_vops {ext : ExtOps} {h h' : CHeap} (hs : HeapStep (vops ext) h h') : HeapStep (gops ext) h h' := by
  cases hs with
  | put v => exact .put h v
  | maybePut v => exact .maybePut h v
  | globPut n v => exact .globPut h n v
  | envPut he => exact .envPut he
  | makeClosure he => exact .makeClosure he
  | makeActivation he => exact .makeActivation he
  | @vectorPush _ vec v he =>
    have he' : vvectorPush ext h vec v = .ok h' := he
    unfold vvectorPush at he'
    split at he'
    · exact .vectorPush he'
    · cases he'
  | builtinEval he => exact .builtinEval he
  | compileEval he => exact .compileEval he

theorem heapStep_gops_inv {V : VCell → Prop} {ext : ExtOps} (ecl : ExtCodeLawsG V ext) {h h' : CHeap}
    (hi : CInvG V h) (hs : HeapStep (gops ext) h h') :
    CInvG V h' ∧ ∀ l bc, codeC h l = some bc → codeC h' l = some bc := by
  cases hs with
  | put v => exact ⟨(putV_grows hi v).inv hi (fun c hc => hc.elim), fun _ _ hc => (putV_grows hi v).code hc⟩
  | maybePut v =>
    exact ⟨(maybePutV_grows hi v).inv hi (fun c hc => hc.elim), fun _ _ hc => (maybePutV_grows hi v).code hc⟩
  | globPut n v =>
    exact ⟨(globPut_grows hi n v).inv hi (fun c hc => hc.elim), fun _ _ hc => (globPut_grows hi n v).code hc⟩
  | envPut he => exact ⟨(envPut_grows hi he).inv hi (fun c hc => hc.elim), fun _ _ hc => (envPut_grows hi he).code hc⟩
  | makeClosure he =>
    exact ⟨(makeClosure_grows hi he).inv hi (fun c hc => hc.elim), fun _ _ hc => (makeClosure_grows hi he).code hc⟩
  | makeActivation he =>
    exact ⟨(makeActivation_grows hi he).inv hi (fun c hc => hc.elim),
      fun _ _ hc => (makeActivation_grows hi he).code hc⟩
  | vectorPush he => exact ecl.vectorPush hi he
  | builtinEval he => exact ecl.builtinEval hi he
  | compileEval he => exact ecl.compileEval hi he

/-- **`CodeLaws` for the concrete heap, value-typed** (guarded callee, guarded reads): every field is a theorem;
    the hypotheses are the ones in the invariant `CInvG IsValue` (every lambda cell passes the verifier, every
    continuation cell is the snapshot of a value-typed WF state) and `ExtCodeLawsV ext`. -/
def concreteLawsV (ext : ExtOps) (ecl : ExtCodeLawsV ext) : CodeLaws (vops ext) where
  e := 0
  code := codeC
  HInv := CInvG IsValue
  Val := IsValue
  val_imm := fun _ h => isValue_of_isVal h
  put_val := fun h v => putV_val h v
  maybePut_val := fun h v => maybePutV_val h v
  newCont_val := fun _ _ => rfl
  makeClosure_val := fun hm => makeClosure_val hm
  vectorPush_val := by
    intro h h' d v he
    have he' : vvectorPush ext h (deref h d) v = .ok h' := he
    unfold vvectorPush at he'
    split at he'
    · rename_i hp
      show plainGlob d = true
      cases d <;> first | rfl | exact hp
    · cases he'
  globGet_val := fun h n => vglobGet_val h n
  envGet_val := fun hg hne => venvGet_val hg hne
  envGet_val2 := fun hg hw => venvGet_val2 hg hw
  info_code := by
    intro h l bc info hi hc hinfo
    exact lambdaInfo_args hi hc hinfo
  fetch_code := by
    intro h l bc _ hc o
    obtain ⟨lam, h1, h2⟩ := codeC_some hc
    subst h2
    show (match lambdaAt h l with | some lam => lam.bc[o]? | none => none) = lam.bc[o]?
    rw [lambdaAt_iff.mpr h1]
  step_inv := fun hi hs => (heapStep_gops_inv ecl hi (heapStep_vops hs)).1
  step_code := fun hi hs hc => (heapStep_gops_inv ecl hi (heapStep_vops hs)).2 _ _ hc
  callee_closure := by
    intro h v lam env hi hc
    exact procAt_ty hi (gcallee_closure hc)
  callee_lambda := by
    intro h lam hi hc
    exact procAt_ty hi (gcallee_lambda hc)
  cont_wf := by
    intro h v c hi hc
    obtain ⟨p, _, hcell⟩ := callee_cont_cell (gcallee_cont hc)
    exact hi.cont p c hcell
  newCont_inv := by
    intro h c K hi hcw
    show CInvG IsValue (cput h (CCell.cont c)).1
    have g := cput_grows (P := fun k => k = c) hi (c := CCell.cont c) (by intro lam hh; cases hh)
      (by intro k hk; cases hk; rfl)
    exact g.inv hi (fun k hk => by subst hk; exact ⟨K, hcw⟩)
  newCont_code := by
    intro h c l bc hi hc
    show codeC (cput h (CCell.cont c)).1 l = some bc
    have g := cput_grows (P := fun k => k = c) hi (c := CCell.cont c) (by intro lam hh; cases hh)
      (by intro k hk; cases hk; rfl)
    exact g.code hc

/-- **`GcLaws` for the real collector over the value-typed laws.** -/
theorem cgc_gcLawsV (ext : ExtOps) (ecl : ExtCodeLawsV ext) (force : Bool) :
    GcLaws (concreteLawsV ext ecl) (cgc force) where
  frame := fun s => by
    obtain ⟨g1, _, _, g4, g5, g6⟩ := cgc_regs force s
    exact ⟨g1, g4, g5, g6⟩
  acc := fun s => (cgc_regs force s).2.1
  callee := fun s hi h => cgc_enterLam force s (V := IsValue) hi rfl h
  inv := fun s hi => cgc_inv force s hi
  roots := fun s l bc hi hc hor => cgc_roots force s l bc hi hc hor

/-- the value-typed WF-stack implies the untyped one (same frame chain) -/
theorem wfs_weaken {ext : ExtOps} {eclV : ExtCodeLawsV ext} {ecl : ExtCodeLaws ext} {s : St CHeap} {K : List FDesc}
    (hw : WFS (concreteLawsV ext eclV) s K) : WFS (concreteLaws ext ecl) s K :=
  ⟨CInvG.weaken (fun _ _ => trivial) hw.inv, ⟨hw.wf.cap, hw.wf.frames.weaken (fun _ _ => trivial)⟩, trivial, hw.pre⟩

end Marwood.Vm.Concrete
