import Marwood.Lemmas.EvalPromiseSpan
import Marwood.Lemmas.EvalPromiseX2
import Marwood.Lemmas.EvalPromiseFrame
/-!
# T01.2 for `delay` / `force`: `(force (delay e))` natively and through the prelude's expansion agree

The expansion's leg (`expansion_leg`): from "`I`, the guarded evaluation of `e` in the state of the use,
is definite" to "the expansion `(force (make-promise #f (lambda () (make-promise #t e))))`, run with the
prelude's `force`, `make-promise`, `promise-done?`, `promise-value`, `promise-update!`, has the image
of `I`'s outcome under `shiftAt size 7`, and the promise structure holds the value, done":

* frame property (T01.1, for `guardN`): `e` does not mention `force` and no value of the state does,
  so rebinding the global `force` (primitive ↦ the prelude's procedure) does not change `I`;
* frame simulation (`EvalPromiseJ*`): `e` evaluates alike in the store with the seven cells the
  expansion has allocated by then (the structure and three call frames), and leaves them alone;
* `EvalPromiseX.lean`: what the library procedures then do (`forceDelayX_ok`, `forceDelayX_err`).

`force_delay_agrees` puts the two legs together (`SpanAgree`).
-/
namespace Marwood.Spec.Eval.Derived
open Marwood Marwood.Spec.Eval Marwood.Spec.Eval.Prelude Marwood.Spec.Eval.Extra Marwood.Spec.Eval.Conv
open Marwood.Spec.Eval.ExtraJ

/-- the junk of the expansion's side: the cells of `σ'` from `n` up to `n + k` -/
def junkX (n k : Nat) (σ' : Array Cell) : Junk := fun l' => if n ≤ l' ∧ l' < n + k then σ'[l']? else none

theorem size_pushAll (σ : Array Cell) (cs : List Cell) : (pushAll σ cs).size = σ.size + cs.length := by
  induction cs generalizing σ with
  | nil => rfl
  | cons c cs ih => simp only [pushAll, List.foldl_cons] at ih ⊢; rw [ih]; simp; omega

theorem get_pushAll_lt (σ : Array Cell) (cs : List Cell) (l : Nat) (h : l < σ.size) : (pushAll σ cs)[l]? = σ[l]? := by
  induction cs generalizing σ with
  | nil => rfl
  | cons c cs ih =>
    simp only [pushAll, List.foldl_cons] at ih ⊢
    rw [ih (σ.push c) (by simp; omega), Array.getElem?_push, if_neg (by omega)]

theorem stRelJ_extend {st : St} (hst : WFSt st) (k : Nat) (σ' : Array Cell) (hsz : σ'.size = st.store.size + k)
    (hpre : ∀ l, l < st.store.size → σ'[l]? = st.store[l]?) :
    StRelJ (shiftAt st.store.size k) (junkX st.store.size k σ') st { st with store := σ' } := by
  refine ⟨stRel_extend hst k σ' hsz hpre, ?_, ?_⟩
  · intro l' c h
    simp only [junkX] at h
    split at h
    · exact h
    · cases h
  · intro l
    simp only [junkX]
    rw [if_neg]
    unfold shiftAt
    split <;> omega

theorem libOK_withForce {g : List (Text × Val)} (h : LibOK g) : LibOK (insertG k_force cForce g) := by
  have hne : ∀ y, (y == k_force) = false → (insertG k_force cForce g).lookup y = g.lookup y := by
    intro y hy; rw [lookup_insertG, hy]; rfl
  exact ⟨by rw [hne _ (by decide)]; exact h.makePromise, by rw [hne _ (by decide)]; exact h.done,
    by rw [hne _ (by decide)]; exact h.value, by rw [hne _ (by decide)]; exact h.update,
    by rw [hne _ (by decide)]; exact h.car, by rw [hne _ (by decide)]; exact h.cdr,
    by rw [hne _ (by decide)]; exact h.cons, by rw [hne _ (by decide)]; exact h.list,
    by rw [hne _ (by decide)]; exact h.setCar, by rw [hne _ (by decide)]; exact h.setCdr⟩

theorem libSt_withForce {st : St} (h : LibOK st.globals) : LibSt (withForce st) :=
  ⟨libOK_withForce h, by simp [withForce, lookup_insertG]⟩

theorem wf_withForce {st : St} (hst : WFSt st) : WFSt (withForce st) :=
  hst.insertG k_force cForce (by intro p hp; cases hp)

/-- **expansion leg** -/
theorem expansion_leg (m : Nat) (e : Datum) (ρ : Env) (st : St) (hst : WFSt st) (hρ : EnvOK st.store.size ρ)
    (hρ1 : ρ.lookup k_force = none) (hρ2 : ρ.lookup k_makePromise = none) (hlib : LibOK st.globals)
    (hce : mentions k_force e = false) (hinv : Inv k_force st)
    (hkeep : ∀ m v s2, (evalN m).eval e ρ (preX e ρ (withForce st)) = .ok v s2 → LibSt s2)
    (hI : (guardN m).eval e ρ st ≠ .timeout) :
    ResRelW (shiftAt st.store.size 7) [k_force] ((guardN m).eval e ρ st)
      ((evalN (m+12)).eval (forceUse (delayFull e)) ρ (withForce st)) ∧
    ∀ vX sX, (evalN (m+12)).eval (forceUse (delayFull e)) ρ (withForce st) = .ok vX sX →
      PromStruct sX.store (st.store.size + 3) true vX := by
  -- frame: rebinding `force`
  have hfr := frame_guardN (x := k_force) m e ρ hce hinv cForce
  have hwf := wf_withForce hst
  -- frame simulation into the store with the seven cells
  have hsz : (preX e ρ (withForce st)).store.size = (withForce st).store.size + 7 := by
    simp only [preX]; rw [size_pushAll]; rfl
  have hfwd := ExtraJ.extra_cell_invariance
    (J := junkX (withForce st).store.size 7 (preX e ρ (withForce st)).store)
    (inj_shiftAt (withForce st).store.size 7) m e (envRel_shift_self (k := 7) hρ) (cleanB_nil e)
    (stRelJ_extend hwf 7 (preX e ρ (withForce st)).store hsz (fun l hl => get_pushAll_lt _ _ l hl))
  have hoff : ∀ l, shiftAt st.store.size 7 l ≠ st.store.size + 2 := by
    intro l; unfold shiftAt; split <;> omega
  cases hRI : (guardN m).eval e ρ st with
  | timeout => exact absurd hRI hI
  | err c sI =>
    rw [hRI] at hfr
    cases hR2 : (guardN m).eval e ρ { st with globals := insertG k_force cForce st.globals } with
    | ok _ _ => rw [hR2] at hfr; exact hfr.elim
    | timeout => rw [hR2] at hfr; exact hfr.elim
    | err c2 sI2 =>
      rw [hR2] at hfr
      obtain ⟨ec, _, hsim⟩ := hfr
      subst ec
      have hR2' : (guardN m).eval e ρ (withForce st) = .err c sI2 := hR2
      rw [hR2'] at hfwd
      obtain ⟨s2, e2, rs⟩ := hfwd.err_inv
      have herr := forceDelayX_err m e ρ (withForce st) s2 c (libSt_withForce hlib) hρ1 hρ2 e2
      rw [evalN_mono (show m + 10 ≤ m + 12 by omega) _ ρ _ (by rw [herr]; simp), herr]
      refine ⟨⟨rfl, ?_, ?_, ?_⟩, fun _ _ h => by cases h⟩
      · intro l d hl
        exact rs.cells l d (by rw [hsim.store]; exact hl)
      · rw [rs.out, hsim.out]
      · intro y hy
        have hy' : y ≠ k_force := by simpa using hy
        rw [← hsim.globals y hy']
        exact rs.globals y
  | ok vI sI =>
    rw [hRI] at hfr
    cases hR2 : (guardN m).eval e ρ { st with globals := insertG k_force cForce st.globals } with
    | err _ _ => rw [hR2] at hfr; exact hfr.elim
    | timeout => rw [hR2] at hfr; exact hfr.elim
    | ok vI2 sI2 =>
      rw [hR2] at hfr
      obtain ⟨ev, _, _, hsim⟩ := hfr
      subst ev
      have hR2' : (guardN m).eval e ρ (withForce st) = .ok vI sI2 := hR2
      rw [hR2'] at hfwd
      obtain ⟨vX, s2, e2, rv, rs⟩ := hfwd.ok_inv
      -- growth of `I`'s store, hence of the expansion's
      have hgI : st.store.size ≤ sI.store.size := by
        have h1 : (evalN m).eval e ρ st = .ok vI sI := by
          rw [guardN_eval_evalN m e ρ st (by rw [hRI]; simp), hRI]
        exact (wf_evalN_ok hst hρ h1).2.1
      have hfront := rs.front 0
      simp only [Nat.add_zero] at hfront
      have hs2 : sI2.store.size + 7 = s2.store.size := by
        rw [← hfront]
        have : (withForce st).store.size ≤ sI2.store.size := by rw [hsim.store]; exact hgI
        exact (shiftAt_ge this).symm
      have hgrow : (preX e ρ (withForce st)).store.size ≤ s2.store.size := by
        rw [hsz, ← hs2, hsim.store]
        show st.store.size + 7 ≤ _
        omega
      have hint : ∀ i, i < 7 → s2.store[(withForce st).store.size + i]? =
          (preX e ρ (withForce st)).store[(withForce st).store.size + i]? := by
        intro i hi
        have hlt : (withForce st).store.size + i < (preX e ρ (withForce st)).store.size := by rw [hsz]; omega
        rw [Array.getElem?_eq_getElem hlt]
        apply rs.junk
        simp only [junkX]
        rw [if_pos ⟨by omega, by omega⟩, Array.getElem?_eq_getElem hlt]
      obtain ⟨s3, e3, ho, hg3, _, hcells, hps⟩ := forceDelayX_ok m e ρ (withForce st) s2 vX (libSt_withForce hlib)
        hρ1 hρ2 e2 (hkeep m vX s2 e2) hgrow hint
      rw [e3]
      refine ⟨⟨rv, ?_, ?_, ?_⟩, fun _ _ h => by cases h; exact hps⟩
      · intro l d hl
        obtain ⟨c', h1, h2⟩ := rs.cells l d (by rw [hsim.store]; exact hl)
        refine ⟨c', ?_, h2⟩
        have hlt : shiftAt st.store.size 7 l < s2.store.size := by
          rcases Nat.lt_or_ge (shiftAt st.store.size 7 l) s2.store.size with h | h
          · exact h
          · have h1' : s2.store[shiftAt (withForce st).store.size 7 l]? = some c' := h1
            have : (withForce st).store.size = st.store.size := rfl
            rw [this, Array.getElem?_eq_none h] at h1'; cases h1'
        rw [show (withForce st).store.size = st.store.size from rfl] at h1
        rw [hcells _ hlt (hoff l)]
        exact h1
      · rw [ho, rs.out, hsim.out]
      · intro y hy
        have hy' : y ≠ k_force := by simpa using hy
        rw [← hsim.globals y hy', hg3]
        exact rs.globals y

/-- **`(force (delay e))`**: native meaning vs. the prelude's expansion run with the prelude's library.
    If the native run (fuel `m + 3`, slack-guarded by one cell) is definite, it is `Spec.Eval`'s run and
    the expansion (fuel `m + 12`) agrees with it: same kind of outcome, error class, output log; values
    that are images of one value; natively the promise cell, in the expansion the structure
    `((#t . value))`, hold the value: both are forced exactly once. -/
theorem force_delay_agrees (e : Datum) (ρ : Env) (st : St) (hst : WFSt st) (hρ : EnvOK st.store.size ρ)
    (hdef : isDefine e = false) (hρ1 : ρ.lookup k_force = none) (hρ2 : ρ.lookup k_makePromise = none)
    (hg : st.globals.lookup k_force = some (.prim .force)) (hlib : LibOK st.globals)
    (hce : mentions k_force e = false) (hinv : Inv k_force st)
    (hkeep : ∀ m v s2, (evalN m).eval e ρ (preX e ρ (withForce st)) = .ok v s2 → LibSt s2)
    (m : Nat) (hd : (sguardN 1 (m+3)).eval (forceUse (delayUse e)) ρ st ≠ .timeout) :
    (evalN (m+3)).eval (forceUse (delayUse e)) ρ st = (sguardN 1 (m+3)).eval (forceUse (delayUse e)) ρ st ∧
    SpanAgree ((evalN (m+3)).eval (forceUse (delayUse e)) ρ st)
      ((evalN (m+3+9)).eval (forceUse (delayFull e)) ρ (withForce st)) st.store.size (st.store.size + 3) := by
  obtain ⟨hI, hev, hN, hNm⟩ := native_leg m e ρ st hst hρ hdef hρ1 hg hd
  obtain ⟨hX, hXm⟩ := expansion_leg m e ρ st hst hρ hρ1 hρ2 hlib hce hinv hkeep hI
  refine ⟨hev, (guardN m).eval e ρ st, shiftAt st.store.size 1, shiftAt st.store.size 7,
    inj_shiftAt _ _, inj_shiftAt _ _, hN, hX, ?_⟩
  intro vN sN vX sX h1 h2
  exact ⟨hNm vN sN h1, hXm vX sX h2⟩

end Marwood.Spec.Eval.Derived
