import Marwood.Lemmas.PrepareDemo
import Marwood.Lemmas.PrepareEnv
/-!
# `prepare_envInv` on a concrete `prepare_eval` (non-vacuity), and what the strengthened checker refuses

The instance of `Lemmas/PrepareDemo.lean` (the form `#t` on the idle demo machine `sHalt 0`; `demo_installs` through the
executable checker `installsB` and `installsB_sound`) satisfies every hypothesis of `prepare_envInv`; the conclusion
agrees with the executable form `stateEnvB` of `EnvInv`. Hand-mutated after-heaps show that the clauses added to
the relation in wave 12 are not vacuous: the checker refuses a loaded code object whose environment map is longer than
the model's (`LoadedLam.envLen`) and an entry lambda whose immediate does not point to a loading of the top-level lambda
(`ImmLoaded.lam`); the environment clauses `LamEnvOk` (stated of garbage code) refuse a MOVIMM immediate that points to
a capturing lambda outside a CLOSURE site and a site whose child has an `IofEnvironment` slot beyond the object's map.
-/
namespace Marwood.Lemmas.Good.Demo
open Marwood Marwood.Vm Marwood.Vm.Verify Marwood.Vm.Concrete Marwood.Lemmas.Sim Marwood.Lemmas.Good
open Marwood.Heap (GcState)
open Marwood.Proofs.C13

/-- the idle invariant of the demo machine -/
theorem sHalt_idleOk : IdleOk (sHalt 0) :=
  (sHalt_vmOkP failingExt failingExt_codeLawsV).idleOk rfl (by decide)

/-- **`prepare_envInv` applies**: the state in which the evaluation of `#t` starts satisfies the slot invariant -/
theorem demo_prepared_envInv : EnvInv (prepare sT 2) :=
  prepare_envInv sHalt_idleOk (sHalt_envInv 0 (.inl rfl)) rfl demo_installs demo_small

/-- … as the executable form of the invariant confirms -/
example : stateEnvB (prepare sT 2) = true := by decide +kernel

/-- `EnvInv` survives the loader steps regarded as garbage, too -/
theorem demo_garbage_envInv : EnvInv sT :=
  (envInv_installsGarbage sHalt_idleOk (sHalt_envInv 0 (.inl rfl)) demo_garbage demo_small).1

/-! ## refused -/

def lamHalt : CCell := .lambda { bc := [.opcode .halt], args := [], envmap := [] }

def entryCl (p : Nat) : CLambda :=
  { bc := [.opcode .pushImm, .argc 0, .opcode .movImm, .ptr p, .acc, .opcode .callAcc, .opcode .halt], args := [],
    envmap := [] }

def topCl (em : List (VCell × Concrete.Source)) : CLambda :=
  { bc := [.opcode .enter, .opcode .movImm, .bool true, .acc, .opcode .ret], args := [], envmap := em }

def siteCl (em : List (VCell × Concrete.Source)) : CLambda :=
  { bc := [.opcode .enter, .opcode .movImm, .ptr 1, .acc, .opcode .closureAcc, .opcode .ret], args := [], envmap := em }

/-- the demo's after-heap with cells 1 and 2 replaced -/
def hWith (c1 c2 : CCell) : CHeap := { hT with cells := #[lamHalt, c1, c2, .val .undefined] }

def sWith (c1 c2 : CCell) : St CHeap := { sHalt 0 with heap := hWith c1 c2 }

/-- sanity: the unmodified cells are accepted -/
example : installsB (Datum.bool true) 20 (sHalt 0) (sWith (.lambda (topCl [])) (.lambda (entryCl 1))) 2 = true := by
  decide +kernel

/-- cell 1 (the top-level lambda) with a one-entry environment map — the model's is empty: `LoadedLam.envLen` -/
example : installsB (Datum.bool true) 20 (sHalt 0)
    (sWith (.lambda (topCl [(.undefined, .internal)])) (.lambda (entryCl 1))) 2 = false := by decide +kernel

/-- the entry lambda's immediate points to cell 0 (the old `[HALT]` object), not to a loading of the top-level lambda:
    `ImmLoaded.lam` -/
example : installsB (Datum.bool true) 20 (sHalt 0) (sWith (.lambda (topCl [])) (.lambda (entryCl 0))) 2 = false := by
  decide +kernel

/-- a heap whose cell 1 is a capturing lambda with an `IofEnvironment(0)` source -/
def hCapt : CHeap :=
  hWith (.lambda { bc := [.opcode .enter, .opcode .ret], args := [], envmap := [(.undefined, .iofEnv 0)] }) (.val .undefined)

/-- the environment clauses `LamEnvOk` of a code object, relative to the heap it is put into (what `InstallsGarbage`
    states of garbage code): accepted for the demo's entry lambda; refused when a MOVIMM immediate outside a CLOSURE
    site points to a capturing lambda, and when a site's child has an `IofEnvironment` slot beyond this object's map;
    accepted when the map has that slot -/
example : envOkB hT (entryCl 1) = true := by decide +kernel
example : envOkB hCapt (entryCl 1) = false := by decide +kernel
example : envOkB hCapt (siteCl []) = false := by decide +kernel
example : envOkB hCapt (siteCl [(.undefined, .internal)]) = true := by decide +kernel

end Marwood.Lemmas.Good.Demo
