import Marwood.Lemmas.EvalPromise
import Marwood.Lemmas.EvalConverseGuard
import Marwood.Lemmas.EvalDerived2
/-!
# `(force (delay e))` under the NATIVE meaning of `Spec.Eval`

What `Spec.Eval` computes for `(force (delay e))` — with the plain evaluator `evalN` and with the
slack-guarded one `sguardN k` alike (`Tower`): allocate the promise cell, run `e` in the environment
of the `delay`, read the cell again (R7RS: if the promise was forced while its expression was being
evaluated the first value stays), otherwise store the value.
-/
namespace Marwood.Spec.Eval.Derived
open Marwood Marwood.Spec.Eval Marwood.Spec.Eval.Prelude

/-- the native thunk of `(delay e)` closed in `ρ` -/
def thunkN (e : Datum) (ρ : Env) : Val := .closure [] none [e] ρ

/-- the native meaning of `(force (delay e))`, given the meaning `re` of `e` -/
def nativeFD (re : M Val) (T : Val) : M Val := fun st =>
  let l := st.store.size
  match re { st with store := st.store.push (.promise false T) } with
  | .ok v s =>
    (match s.store[l]? with
     | some (.promise true w) => .ok w s
     | some _ => if l < s.store.size then .ok v { s with store := s.store.setIfInBounds l (.promise true v) } else .err .internal s
     | none => .err .internal s)
  | .err c s => .err c s
  | .timeout => .timeout

/-- a fuel-indexed evaluator whose levels unfold like `evalN`'s on expressions, on `force` and on closures -/
structure Tower (X : Nat → Rec) : Prop where
  eval : ∀ k e ρ, (X (k+1)).eval e ρ = evalStep (X k) e ρ
  appForce : ∀ k args, (X (k+1)).apply (.prim .force) args = applyStep (X k) (.prim .force) args
  appClo : ∀ k ps r b ρ args, (X (k+1)).apply (.closure ps r b ρ) args = applyStep (X k) (.closure ps r b ρ) args

theorem tower_evalN : Tower evalN := ⟨fun _ _ _ => rfl, fun _ _ => rfl, fun _ _ _ _ _ _ => rfl⟩

theorem tower_sguardN (k : Nat) : Tower (sguardN k) := by
  refine ⟨fun _ _ _ => rfl, fun n args => ?_, fun n ps r b ρ args => ?_⟩
  · funext st
    show sguardApply k (sguardN k n) (.prim .force) args st = _
    simp [sguardApply, helperCutAt]
  · funext st
    show sguardApply k (sguardN k n) (.closure ps r b ρ) args st = _
    simp [sguardApply, helperCutAt]

theorem kwOf_force : kwOf k_force = none := by decide
theorem kwOf_delay : kwOf k_delay = some .delay := by decide
theorem reserved_force : reserved k_force = false := by decide

theorem native_forceDelay {X : Nat → Rec} (hX : Tower X) (m : Nat) (e : Datum) (ρ : Env) (st : St)
    (hdef : isDefine e = false) (hρ : ρ.lookup k_force = none) (hg : st.globals.lookup k_force = some (.prim .force)) :
    (X (m+3)).eval (forceUse (delayUse e)) ρ st = nativeFD ((X m).eval e ρ) (thunkN e ρ) st := by
  have hbody : ∀ (r : Rec) (ρ' : Env), evalBody r ρ' [e] = r.eval e ρ' := by
    intro r ρ'
    rw [evalBody_noDefs r ρ' [e] (by intro d hd; simp at hd; subst hd; exact hdef)]
    rfl
  rw [hX.eval, forceUse, native_app _ _ (s k_force) [delayUse e] (by intro x hx; cases hx; exact kwOf_force), evalArgs_one]
  have hdelay : (X (m+2)).eval (delayUse e) ρ st =
      .ok (.promise st.store.size) { st with store := st.store.push (.promise false (thunkN e ρ)) } := by
    rw [hX.eval]
    simp only [delayUse, L, s, Datum.ofList, evalStep, kwOf_delay, evalKw, properList]
    rfl
  have hforce : ∀ st1 : St, st1.globals = st.globals → (X (m+2)).eval (s k_force) ρ st1 = .ok (.prim .force) st1 := by
    intro st1 h1
    rw [hX.eval, native_sym]
    simp [evalVar, reserved_force, hρ, getGlobal, h1, hg]
  show M.bind' (M.bind' ((X (m+2)).eval (delayUse e) ρ) _) _ st = _
  unfold M.bind'
  simp only [hdelay]
  show M.bind' ((X (m+2)).eval (s k_force) ρ) (fun fv => (X (m + 2)).apply fv [Val.promise st.store.size]) _ = _
  unfold M.bind'
  rw [hforce { st with store := st.store.push (.promise false (thunkN e ρ)) } rfl]
  simp only [hX.appForce, applyStep]
  show M.bind' (readCell st.store.size) _ _ = _
  unfold M.bind'
  have hread : readCell st.store.size { st with store := st.store.push (.promise false (thunkN e ρ)) } =
      .ok (.promise false (thunkN e ρ)) { st with store := st.store.push (.promise false (thunkN e ρ)) } := by
    simp [readCell]
  simp only [hread]
  show M.bind' ((X (m+1)).apply (thunkN e ρ) []) _ _ = _
  unfold M.bind'
  have hth : (X (m+1)).apply (thunkN e ρ) [] = (X m).eval e ρ := by
    rw [thunkN, hX.appClo]
    simp only [applyStep, bindArgs]
    show (pure ρ >>= fun ρ' => evalBody (X m) ρ' [e]) = _
    rw [pure_bind, hbody]
  rw [hth]
  unfold nativeFD
  simp only
  cases he : (X m).eval e ρ { st with store := st.store.push (.promise false (thunkN e ρ)) } with
  | timeout => rfl
  | err c s => rfl
  | ok v s =>
    simp only
    show M.bind' (readCell st.store.size) _ s = _
    unfold M.bind'
    simp only [readCell]
    cases hc : s.store[st.store.size]? with
    | none => rfl
    | some c =>
      cases c with
      | promise b w =>
        cases b with
        | true => rfl
        | false =>
          simp only
          by_cases hlt : st.store.size < s.store.size <;>
            simp [bind, M.bind', writeCell, hlt, Pure.pure, M.pure']
      | var _ =>
        simp only
        by_cases hlt : st.store.size < s.store.size <;>
          simp [bind, M.bind', writeCell, hlt, Pure.pure, M.pure']
      | pair _ _ =>
        simp only
        by_cases hlt : st.store.size < s.store.size <;>
          simp [bind, M.bind', writeCell, hlt, Pure.pure, M.pure']
      | vec _ =>
        simp only
        by_cases hlt : st.store.size < s.store.size <;>
          simp [bind, M.bind', writeCell, hlt, Pure.pure, M.pure']

end Marwood.Spec.Eval.Derived
