import Marwood.Lemmas.EnvRefineStep2
/-!
# T02.4, part 8: sessions; what an observer sees

`Obs` is what the correspondence harness prints of a value (a procedure prints as `p`); related
values have equal observations, so the refinement is an *equality* of the printed results and of
the printed read/write log.
-/
namespace Marwood.Vm.EnvRefine
open Marwood Marwood.Scope Marwood.Vm.Env Marwood.Spec.Scope

inductive Obs where
  | int (n : Nat)
  | proc
  | nil
  | pair (a d : Obs)
  | void
  | undef
deriving DecidableEq, Repr

def obsS : SVal → Obs
  | .int n => .int n
  | .clo .. => .proc
  | .nil => .nil
  | .pair a d => .pair (obsS a) (obsS d)
  | .void => .void
  | .undef => .undef

def obsM : MVal → Obs
  | .int n => .int n
  | .clo .. => .proc
  | .nil => .nil
  | .pair a d => .pair (obsM a) (obsM d)
  | .void => .void
  | .undef => .undef

theorem VRel.obs {β : LocMap} {h : Envs MVal} {v : SVal} {v' : MVal} (r : VRel β h v v') : obsM v' = obsS v := by
  induction r with
  | int n => rfl
  | nil => rfl
  | void => rfl
  | pair _ _ iha ihd => simp [obsS, obsM, iha, ihd]
  | clo _ => rfl

/-- the outcome of a top-level form as printed -/
def obsResS : Except SErr SVal → Except MErr Obs
  | .ok v => .ok (obsS v)
  | .error e => .error (errMap e)

def obsResM : Except MErr MVal → Except MErr Obs
  | .ok v => .ok (obsM v)
  | .error e => .error e

instance : DecidableEq (Except MErr Obs) := fun a b => match a, b with
  | .ok x, .ok y => if h : x = y then isTrue (by rw [h]) else isFalse (by intro h'; cases h'; exact h rfl)
  | .error x, .error y => if h : x = y then isTrue (by rw [h]) else isFalse (by intro h'; cases h'; exact h rfl)
  | .ok _, .error _ => isFalse (by intro h; cases h)
  | .error _, .ok _ => isFalse (by intro h; cases h)

/-- the outcomes about which the refinement theorem says nothing: the specification stopped because
    a location was read before its initialisation / a name was unbound, or ran out of fuel -/
def faulty : Except SErr SVal → Bool
  | .error .unbound => true
  | .error .fuel => true
  | _ => false

/-! ## one top-level form -/

theorem sim_runTop (f g : Nat) (hg : 2 * f ≤ g) (β : LocMap) (s : SSt) (t : MSt) (r : StRel β s t) (top : Top) :
    Post β t QV (exec (Spec.Scope.runTop f top) s) (exec (Vm.EnvRun.runTop g top) t) := by
  have S := sims f
  cases top with
  | expr e =>
    exact S.eval g hg β s t (fun _ => True) LamCtx.top none [] [] e r (ActRel.top _ _ _) (fun _ _ => trivial)
  | define x e =>
    simp only [Spec.Scope.runTop, Vm.EnvRun.runTop]
    apply Post.bind _ _ _ _
      (S.eval g hg β s t (fun _ => True) LamCtx.top none [] [] e r (ActRel.top _ _ _) (fun _ _ => trivial))
    intro β1 s1 t1 v v' e1 r1 hv
    simp only [exec_bind, exec_get, exec_setGlobal, exec_pure]
    cases hgl : s1.globals.find? x with
    | some l =>
      obtain ⟨t2, hw, e2, r2⟩ := sim_write r1 (ActRel.top β1 t1.envs (fun _ => True)) x trivial l v v'
        (Or.inr ⟨rfl, hgl⟩) hv
      have hw' : exec (Vm.EnvRun.writeVar LamCtx.top none x v') t1 =
          (.ok ⟨⟩, { t1 with globals := (x, v') :: t1.globals.filter (·.1 != x) }) := by
        simp [Vm.EnvRun.writeVar, bindingLocation, LamCtx.top, slotOf, argIndex, exec_setGlobal]
      rw [hw'] at hw
      cases hw
      simp only [exec_writeLoc]
      exact Post.ok β1 e2 r2 .void
    | none =>
      simp only [exec_alloc, exec_modify]
      exact Post.ok β1 (Ext.refl _ _) (sim_define_fresh r1 x v v' hgl hv) .void

/-! ## a session -/

def ResRel (β : LocMap) (h : Envs MVal) : Except SErr SVal → Except MErr MVal → Prop
  | .ok v, .ok v' => VRel β h v v'
  | .error e, .error e' => e' = errMap e
  | _, _ => False

theorem ResRel.mono {β β' : LocMap} {h h' : Envs MVal} (e : Ext β h β' h') {a b} (r : ResRel β h a b) :
    ResRel β' h' a b := by
  cases a <;> cases b <;> simp_all [ResRel]
  exact r.mono e

theorem ResRel.obs {β : LocMap} {h : Envs MVal} {a b} (r : ResRel β h a b) : obsResM b = obsResS a := by
  cases a <;> cases b <;> simp_all [ResRel, obsResM, obsResS]
  exact r.obs

theorem run_cons_S (f : Nat) (top : Top) (ts : Program) (s : SSt) :
    Spec.Scope.run f (top :: ts) s =
      ((exec (Spec.Scope.runTop f top) s).1 :: (Spec.Scope.run f ts (exec (Spec.Scope.runTop f top) s).2).1,
       (Spec.Scope.run f ts (exec (Spec.Scope.runTop f top) s).2).2) := rfl

theorem run_cons_M (g : Nat) (top : Top) (ts : Program) (t : MSt) :
    Vm.EnvRun.run g (top :: ts) t =
      ((exec (Vm.EnvRun.runTop g top) t).1 :: (Vm.EnvRun.run g ts (exec (Vm.EnvRun.runTop g top) t).2).1,
       (Vm.EnvRun.run g ts (exec (Vm.EnvRun.runTop g top) t).2).2) := rfl

/-- **Sessions.** From related states, as long as no form of the specification run is `faulty`, the
    model run yields related outcomes form by form and ends in a related state. -/
theorem sim_run (f g : Nat) (hg : 2 * f ≤ g) (p : Program) (β : LocMap) (s : SSt) (t : MSt) (r : StRel β s t)
    (hok : (Spec.Scope.run f p s).1.any faulty = false) :
    ∃ β', Ext β t.envs β' (Vm.EnvRun.run g p t).2.envs ∧
      StRel β' (Spec.Scope.run f p s).2 (Vm.EnvRun.run g p t).2 ∧
      Forall2 (ResRel β' (Vm.EnvRun.run g p t).2.envs) (Spec.Scope.run f p s).1 (Vm.EnvRun.run g p t).1 := by
  induction p generalizing β s t with
  | nil => exact ⟨β, Ext.refl _ _, r, .nil⟩
  | cons top ts ih =>
    rw [run_cons_S] at hok ⊢
    rw [run_cons_M]
    simp only [List.any_cons, Bool.or_eq_false_iff] at hok
    obtain ⟨hok1, hok2⟩ := hok
    have h1 := sim_runTop f g hg β s t r top
    rcases hS : exec (Spec.Scope.runTop f top) s with ⟨res, s1⟩
    rcases hM : exec (Vm.EnvRun.runTop g top) t with ⟨res', t1⟩
    rw [hS] at hok1 hok2
    rw [hS, hM] at h1
    simp only at hok1 hok2 ⊢
    -- the first form
    have first : ∃ β1, Ext β t.envs β1 t1.envs ∧ StRel β1 s1 t1 ∧ ResRel β1 t1.envs res res' := by
      cases res with
      | error er =>
        cases er with
        | unbound => simp [faulty] at hok1
        | fuel => simp [faulty] at hok1
        | arity | notProcedure | type =>
          obtain ⟨β1, e1, e2, e3⟩ := h1
          simp only at e1
          subst e1
          exact ⟨β1, e2, e3, rfl⟩
      | ok v =>
        obtain ⟨β1, v', e1, e2, e3, e4⟩ := h1
        simp only at e1
        subst e1
        exact ⟨β1, e2, e3, e4⟩
    obtain ⟨β1, e1, r1, hres⟩ := first
    obtain ⟨β2, e2, r2, hrest⟩ := ih β1 s1 t1 r1 hok2
    exact ⟨β2, e1.trans e2, r2, .cons (hres.mono e2) hrest⟩

/-- the empty states are related -/
theorem StRel.init : StRel (fun _ => none) ({} : SSt) ({} : MSt) := by
  refine ⟨rfl, .nil, ⟨?_, ?_, ?_⟩, ⟨?_, ?_⟩, OneLevel.empty⟩
  · intro x l h; simp [Frame.find?] at h
  · intro x _; rfl
  · intro x y l h; simp [Frame.find?] at h
  · intro l e i h; simp at h
  · intro l l' p h; simp at h

theorem Forall2.map_eq {α β γ : Type} {R : α → β → Prop} {fa : α → γ} {fb : β → γ} {as : List α} {bs : List β}
    (h : Forall2 R as bs) (hf : ∀ a b, R a b → fb b = fa a) : bs.map fb = as.map fa := by
  induction h with
  | nil => rfl
  | cons hr _ ih => simp [hf _ _ hr, ih]

end Marwood.Vm.EnvRefine
