import Marwood.Lemmas.EvalDerivedLet
/-!
# T01.2, second half (part 4): named `let` and `letrec`
-/
namespace Marwood.Spec.Eval.Derived
open Marwood Marwood.Spec.Eval Marwood.Spec.Eval.Prelude

variable (r : Rec) (ρ : Env)

/-! ## the native meaning -/

theorem native_letrec (bs : List (Text × Datum)) (b : Datum) (body : List Datum)
    (hb : ∀ p ∈ bs, reserved p.1 = false) :
    evalStep r (letrecUse (symBindings bs) b body) ρ = (do
      let ρ' ← allocVars (bs.map fun p => (p.1, Val.undef)) ρ
      evalLetrecInits r ρ' bs
      evalBody r ρ' (b :: body)) := by
  have hp := parseBindings_bindingList bs hb
  have hl : properList (Datum.pair b (Datum.ofList body)) = some (b :: body) := properList_ofList (b :: body)
  simp only [letrecUse, L, s, Datum.ofList, evalStep, kwOf_letrec, evalKw, hp, hl]

/-- the procedure a named `let` binds its tag to, given the location of the tag's variable -/
def loopProc (tag : Text) (bs : List (Text × Datum)) (b : Datum) (body : List Datum) (l : Loc) : Val :=
  .closure (bs.map (·.1)) none (b :: body) ((tag, l) :: ρ)

theorem native_namedLet (tag : Text) (bs : List (Text × Datum)) (b : Datum) (body : List Datum)
    (ht : reserved tag = false) (hb : ∀ p ∈ bs, reserved p.1 = false) :
    evalStep r (namedLetUse tag (symBindings bs) b body) ρ = (do
      let vs ← evalArgs r ρ (bs.map (·.2))
      let l ← allocCell (.var .undef)
      writeCell l (.var (loopProc ρ tag bs b body l))
      r.apply (loopProc ρ tag bs b body l) vs) := by
  have hp := parseBindings_bindingList bs hb
  have hl : properList (Datum.pair b (Datum.ofList body)) = some (b :: body) := properList_ofList (b :: body)
  simp only [namedLetUse, L, s, Datum.ofList, evalStep, kwOf_let, evalKw, hp, hl, ht, loopProc]
  rfl

/-! ## named let -/

/-- writing a variable and reading it back -/
theorem write_read {β : Type} (l : Loc) (v : Val) (K : Val → M β) :
    (writeCell l (.var v) >>= fun _ => readVar l >>= K) = (writeCell l (.var v) >>= fun _ => K v) := by
  funext st
  show M.bind' (writeCell l (.var v)) (fun _ => M.bind' (readVar l) K) st = M.bind' (writeCell l (.var v)) (fun _ => K v) st
  unfold M.bind' writeCell
  by_cases h : l < st.store.size
  · simp only [h, if_true]
    have : readVar l { st with store := st.store.setIfInBounds l (.var v) } =
        .ok v { st with store := st.store.setIfInBounds l (.var v) } := by
      show M.bind' (readCell l) _ _ = _
      simp [M.bind', readCell, h, Pure.pure, M.pure']
    rw [this]
  · simp only [h, if_false]

/-- `(letrec ((tag (lambda (x …) b body …))) tag)`, given one level of fuel for the `lambda` and the
    reference: allocate the tag's variable, store the procedure, return it -/
theorem loop_letrec_eval (n : Nat) (tag : Text) (bs : List (Text × Datum)) (b : Datum) (body : List Datum)
    (ht : reserved tag = false) (hb : ∀ p ∈ bs, reserved p.1 = false) :
    evalStep (evalN (n+1))
      (L [s k_letrec, L [L [s tag, L (s k_lambda :: L ((bs.map (·.1)).map s) :: b :: body)]], s tag]) ρ = (do
      let l ← allocCell (.var .undef)
      writeCell l (.var (loopProc ρ tag bs b body l))
      pure (loopProc ρ tag bs b body l)) := by
  have h := native_letrec (evalN (n+1)) ρ [(tag, L (s k_lambda :: L ((bs.map (·.1)).map s) :: b :: body))] (s tag) []
    (by intro p hp; simp at hp; subst hp; exact ht)
  have e1 : letrecUse (symBindings [(tag, L (s k_lambda :: L ((bs.map (·.1)).map s) :: b :: body))]) (s tag) [] =
      L [s k_letrec, L [L [s tag, L (s k_lambda :: L ((bs.map (·.1)).map s) :: b :: body)]], s tag] := rfl
  rw [e1] at h
  rw [h]
  simp only [List.map, allocVars_one, bind_assoc, pure_bind, evalLetrecInits]
  congr 1; funext l
  rw [evalN_succ_eval, native_lambda, lambda_closure _ _ b body (names_ok hb), pure_bind]
  have ha : assignVar ((tag, l) :: ρ) tag (.closure (bs.map (·.1)) none (b :: body) ((tag, l) :: ρ)) =
      writeCell l (.var (loopProc ρ tag bs b body l)) := by
    simp [assignVar, List.lookup, loopProc]
  rw [ha, evalBody_noDefs _ _ [s tag] (by intro d hd; simp at hd; subst hd; rfl)]
  show (writeCell l _ >>= fun _ => (evalN (n+1)).eval (s tag) ((tag, l) :: ρ)) = _
  rw [evalN_succ_eval, native_sym]
  have hv : evalVar tag ((tag, l) :: ρ) = readVar l := by
    simp [evalVar, ht, List.lookup]
  rw [hv]
  have := write_read l (loopProc ρ tag bs b body l) (fun v => (pure v : M Val))
  simp only [bind_pure] at this
  exact this

theorem native_namedLetExp (tag : Text) (bs : List (Text × Datum)) (b : Datum) (body : List Datum) :
    evalStep r (namedLetExp tag (symBindings bs) b body) ρ = (do
      let vs ← evalArgs r ρ (bs.map (·.2))
      let fv ← r.eval (L [s k_letrec, L [L [s tag, L (s k_lambda :: L ((bs.map (·.1)).map s) :: b :: body)]], s tag]) ρ
      r.apply fv vs) := by
  rw [namedLetExp, native_app r ρ _ _ (by intro x hx; simp [L, Datum.ofList] at hx), symBindings_fst, symBindings_snd]

/-- **named let**: `(let tag ((x e) …) b body …)` and
    `((letrec ((tag (lambda (x …) b body …))) tag) e …)` (the inner `letrec` with its native meaning) -/
theorem namedLet_same (tag : Text) (bs : List (Text × Datum)) (b : Datum) (body : List Datum)
    (ht : reserved tag = false) (hb : ∀ p ∈ bs, reserved p.1 = false) :
    Same 2 (namedLetUse tag (symBindings bs) b body) (namedLetExp tag (symBindings bs) b body) ρ := by
  intro n
  cases n with
  | zero => exact ⟨Le.timeout _, Le.timeout _⟩
  | succ n =>
    constructor
    · rw [evalN_succ_eval, evalN_succ_eval, native_namedLet _ _ tag bs b body ht hb, native_namedLetExp,
        evalN_succ_eval, loop_letrec_eval ρ n tag bs b body ht hb]
      refine Le.bind (le_evalArgs (recLe_evalN (Nat.le_add_right n 2)) ρ _) (fun vs => ?_)
      simp only [bind_assoc, pure_bind]
      refine Le.bind (Le.refl _) (fun l => Le.bind (Le.refl _) (fun _ => ?_))
      exact (recLe_evalN (Nat.le_add_right n 2)).apply _ vs
    · refine Le.trans ?_ (eval_le_add (n+1) 2 _ ρ)
      rw [evalN_succ_eval, evalN_succ_eval, native_namedLet _ _ tag bs b body ht hb, native_namedLetExp]
      refine Le.bind (Le.refl _) (fun vs => ?_)
      have h1 := (eval_le_step n _ ρ).trans ((le_evalStep (recLe_evalN_succ n) _ ρ).trans
        (Le.of_eq (loop_letrec_eval ρ n tag bs b body ht hb)))
      refine (Le.bind h1 (fun fv => Le.refl ((evalN n).apply fv vs))).trans (Le.of_eq ?_)
      simp only [bind_assoc, pure_bind]

/-! ## letrec -/

/-- the meaning of `letrec` with `u` as the content of the variables before their initialisation.
    R7RS 4.2.2 makes referring to such a variable "an error", i.e. leaves the content unspecified;
    `Spec.Eval` puts `#<undefined>` (`native_letrec'`), the prelude's expansion `#f` (`letrec_exp_eval`). -/
def letrecWith (u : Val) (r : Rec) (ρ : Env) (bs : List (Text × Datum)) (body : List Datum) : M Val := do
  let ρ' ← allocVars (bs.map fun p => (p.1, u)) ρ
  evalLetrecInits r ρ' bs
  evalBody r ρ' body

theorem native_letrec' (bs : List (Text × Datum)) (b : Datum) (body : List Datum)
    (hb : ∀ p ∈ bs, reserved p.1 = false) :
    evalStep r (letrecUse (symBindings bs) b body) ρ = letrecWith .undef r ρ bs (b :: body) :=
  native_letrec r ρ bs b body hb

theorem native_letL (bs : List (Text × Datum)) (bodyL : List Datum) (hne : bodyL ≠ [])
    (hb : ∀ p ∈ bs, reserved p.1 = false) :
    evalStep r (L (s k_let_ :: bindingList (symBindings bs) :: bodyL)) ρ = (do
      let vs ← evalArgs r ρ (bs.map (·.2))
      let ρ' ← allocVars ((bs.map (·.1)).zip vs) ρ
      evalBody r ρ' bodyL) := by
  cases bodyL with
  | nil => exact absurd rfl hne
  | cons b body => exact native_let r ρ bs b body hb

theorem evalArgs_falses (n : Nat) : ∀ (xs : List (Text × Datum)),
    evalArgs (evalN (n+1)) ρ (xs.map fun _ => Datum.bool false) = pure (xs.map fun _ => Val.bool false)
  | [] => rfl
  | x :: xs => by
    simp only [List.map, evalArgs, evalN_succ_eval, native_bool, pure_bind, evalArgs_falses n xs]

theorem evalExprs_cons (e : Datum) (es : List Datum) (h : es ≠ []) :
    evalExprs r ρ (e :: es) = (r.eval e ρ >>= fun _ => evalExprs r ρ es) := by
  cases es with
  | nil => exact absurd rfl h
  | cons _ _ => rfl

theorem native_set (x : Text) (e : Datum) (hx : reserved x = false) :
    evalStep r (L [s k_setBang, s x, e]) ρ = (do
      let v ← r.eval e ρ
      assignVar ρ x v
      pure .void) := by
  simp [L, s, Datum.ofList, evalStep, evalKw, properList, hx]

/-- the `(set! x e) …` forms of the expansion, one level down, are the initialisation sequence -/
theorem sets_eval (n : Nat) (inner : Datum) : ∀ (bs : List (Text × Datum)), (∀ p ∈ bs, reserved p.1 = false) →
    evalExprs (evalN (n+1)) ρ ((bs.map fun p => L [s k_setBang, s p.1, p.2]) ++ [inner]) =
      (evalLetrecInits (evalN n) ρ bs >>= fun _ => (evalN (n+1)).eval inner ρ)
  | [], _ => rfl
  | (x, e) :: bs, h => by
    have hx : reserved x = false := h (x, e) (by simp)
    have ih := sets_eval n inner bs (fun p hp => h p (by simp [hp]))
    simp only [List.map, List.cons_append]
    rw [evalExprs_cons _ _ _ _ (by simp), evalN_succ_eval, native_set _ _ x e hx, ih]
    simp only [evalLetrecInits, bind_assoc, pure_bind]

theorem letrecExp_shape (bs : List (Text × Datum)) (b : Datum) (body : List Datum) :
    letrecExp (symBindings bs) b body =
      L (s k_let_ :: bindingList (symBindings (bs.map fun p => (p.1, Datum.bool false)))
        :: ((bs.map fun p => L [s k_setBang, s p.1, p.2]) ++ [L (s k_let_ :: .nil :: b :: body)])) := by
  simp [letrecExp, bindingList, symBindings, List.map_map, Function.comp_def]

theorem isDefine_set (x e : Datum) : isDefine (L [s k_setBang, x, e]) = false := by
  have : (k_setBang == k_define) = false := by decide
  simp [L, s, Datum.ofList, isDefine, this]

theorem isDefine_let (rest : List Datum) : isDefine (L (s k_let_ :: rest)) = false := by
  have : (k_let_ == k_define) = false := by decide
  simp [L, s, Datum.ofList, isDefine, this]

/-- **letrec**, the expansion evaluated: `(let ((x #f) …) (set! x e) … (let () b body …))` with two more
    levels of fuel is the `letrec` meaning with `#f` in the variables before their initialisation -/
theorem letrec_exp_eval (n : Nat) (bs : List (Text × Datum)) (b : Datum) (body : List Datum)
    (hb : ∀ p ∈ bs, reserved p.1 = false) :
    (evalN (n+2)).eval (letrecExp (symBindings bs) b body) ρ = letrecWith (.bool false) (evalN n) ρ bs (b :: body) := by
  have hb' : ∀ p ∈ bs.map (fun p => (p.1, Datum.bool false)), reserved p.1 = false := by
    intro p hp
    simp only [List.mem_map] at hp
    obtain ⟨q, hq, rfl⟩ := hp
    exact hb q hq
  rw [evalN_succ_eval, letrecExp_shape, native_letL _ _ _ _ (by simp) hb']
  simp only [List.map_map, Function.comp_def]
  rw [evalArgs_falses ρ n bs, pure_bind]
  have hz : (bs.map fun p => p.1).zip (bs.map fun _ => Val.bool false) = bs.map fun p => (p.1, Val.bool false) := by
    rw [List.zip_map']
  rw [hz]
  unfold letrecWith
  congr 1; funext ρ'
  rw [evalBody_noDefs _ _ _ (by
    intro d hd
    simp only [List.mem_append, List.mem_map, List.mem_singleton] at hd
    rcases hd with ⟨p, _, rfl⟩ | rfl
    · exact isDefine_set _ _
    · exact isDefine_let _)]
  rw [sets_eval ρ' n _ bs hb]
  congr 1; funext _
  rw [evalN_succ_eval]
  exact (native_let (evalN n) ρ' [] b body (by simp)).trans rfl

/-- **letrec**: the native meaning is `letrecWith #<undefined>`; the expansion is `letrecWith #f`,
    up to fuel. The two differ only in what a variable holds before its initialisation (unspecified
    in R7RS). -/
theorem letrec_same_with (bs : List (Text × Datum)) (b : Datum) (body : List Datum)
    (hb : ∀ p ∈ bs, reserved p.1 = false) (n : Nat) :
    (evalN (n+1)).eval (letrecUse (symBindings bs) b body) ρ = letrecWith .undef (evalN n) ρ bs (b :: body) ∧
    (evalN (n+2)).eval (letrecExp (symBindings bs) b body) ρ = letrecWith (.bool false) (evalN n) ρ bs (b :: body) ∧
    Le ((evalN n).eval (letrecExp (symBindings bs) b body) ρ) (letrecWith (.bool false) (evalN n) ρ bs (b :: body)) := by
  refine ⟨native_letrec' _ _ bs b body hb, letrec_exp_eval ρ n bs b body hb, ?_⟩
  have := (eval_le_add n 2 (letrecExp (symBindings bs) b body) ρ)
  rwa [letrec_exp_eval ρ n bs b body hb] at this

/-! ## letrec with a single procedure: the expansion is exact

`(letrec ((f (lambda formals lb …))) b body …)` — one recursive procedure, the shape the expansion of
named `let` produces — never looks at the variable before it is initialised, so `#f` vs
`#<undefined>` does not matter. -/

theorem push_set_size {α : Type} (a : Array α) (x y : α) : (a.push x).setIfInBounds a.size y = a.push y := by
  apply Array.ext'
  simp [Array.toList_setIfInBounds]

/-- allocating a variable and assigning it at once: the initial content does not matter -/
theorem alloc_write_indep {β : Type} (u u' : Val) (c : Loc → Val) (K : Loc → M β) :
    (allocCell (.var u) >>= fun l => writeCell l (.var (c l)) >>= fun _ => K l) =
    (allocCell (.var u') >>= fun l => writeCell l (.var (c l)) >>= fun _ => K l) := by
  funext st
  show M.bind' (allocCell (.var u)) (fun l => M.bind' (writeCell l (.var (c l))) (fun _ => K l)) st =
    M.bind' (allocCell (.var u')) (fun l => M.bind' (writeCell l (.var (c l))) (fun _ => K l)) st
  simp [M.bind', allocCell, writeCell, push_set_size]

theorem letrecWith_single (u : Val) (n : Nat) (f : Text) (formals lb : Datum) (lbs body : List Datum)
    (ps : List Text) (rest : Option Text) (_hf : reserved f = false)
    (hp : parseFormals formals = some (ps, rest)) :
    letrecWith u (evalN (n+1)) ρ [(f, L (s k_lambda :: formals :: lb :: lbs))] body =
      (allocCell (.var u) >>= fun l => writeCell l (.var (.closure ps rest (lb :: lbs) ((f, l) :: ρ))) >>= fun _ =>
        evalBody (evalN (n+1)) ((f, l) :: ρ) body) := by
  unfold letrecWith
  simp only [List.map, allocVars_one, bind_assoc, pure_bind, evalLetrecInits]
  congr 1; funext l
  have hl : properList (L (lb :: lbs)) = some (lb :: lbs) := properList_ofList _
  rw [evalN_succ_eval, native_lambda]
  have hm : makeClosure formals (L (lb :: lbs)) ((f, l) :: ρ) = pure (.closure ps rest (lb :: lbs) ((f, l) :: ρ)) := by
    unfold makeClosure
    rw [hp, hl]
  rw [hm, pure_bind]
  have ha : ∀ v, assignVar ((f, l) :: ρ) f v = writeCell l (.var v) := by
    intro v; simp [assignVar, List.lookup]
  rw [ha]

/-- **letrec**, one procedure: `(letrec ((f (lambda formals lb …))) b body …)` and
    `(let ((f #f)) (set! f (lambda formals lb …)) (let () b body …))` -/
theorem letrec_single_same (f : Text) (formals lb : Datum) (lbs : List Datum) (b : Datum) (body : List Datum)
    (ps : List Text) (rest : Option Text) (hf : reserved f = false)
    (hp : parseFormals formals = some (ps, rest)) :
    Same 1 (letrecUse (symBindings [(f, L (s k_lambda :: formals :: lb :: lbs))]) b body)
           (letrecExp (symBindings [(f, L (s k_lambda :: formals :: lb :: lbs))]) b body) ρ := by
  have hb : ∀ p ∈ [(f, L (s k_lambda :: formals :: lb :: lbs))], reserved p.1 = false := by
    intro p hp'; simp at hp'; subst hp'; exact hf
  have indep : ∀ m, letrecWith .undef (evalN (m+1)) ρ [(f, L (s k_lambda :: formals :: lb :: lbs))] (b :: body) =
      letrecWith (.bool false) (evalN (m+1)) ρ [(f, L (s k_lambda :: formals :: lb :: lbs))] (b :: body) := by
    intro m
    rw [letrecWith_single ρ .undef m f formals lb lbs _ ps rest hf hp,
        letrecWith_single ρ (.bool false) m f formals lb lbs _ ps rest hf hp]
    exact alloc_write_indep _ _ _ _
  intro n
  constructor
  · match n with
    | 0 => exact Le.timeout _
    | 1 =>
      intro st h
      refine absurd ?_ h
      rw [(letrec_same_with ρ _ b body hb 0).1]
      rfl
    | m + 2 =>
      rw [(letrec_same_with ρ _ b body hb (m+1)).1, (letrec_same_with ρ _ b body hb (m+1)).2.1, indep m]
      exact Le.refl _
  · match n with
    | 0 => exact Le.timeout _
    | m + 1 =>
      refine (letrec_same_with ρ _ b body hb (m+1)).2.2.trans ?_
      rw [← indep m, ← (letrec_same_with ρ _ b body hb (m+1)).1]
      exact Le.refl _

end Marwood.Spec.Eval.Derived
