import Marwood.Lemmas.ListExtProc
import Marwood.Lemmas.ListExtSim
import Marwood.Lemmas.ListExtGood
import Marwood.Lemmas.ContResumeMachine
import Marwood.Proofs.C05
/-!
# C05 on the real machine under the weaker law `ExtProcL`, and at the real builtins

`runN_live_congruence_machine` (Lemmas/ContResumeMachine.lean) and the two run-level theorems of Proofs/C05.lean
(`invoke_run_continues_machine`, `invoke_run_same_result_machine`) take `ExtProc ext`, which no allocating builtin
satisfies (`Lemmas/ListExtProc.lean: not_extProc_listExt`). The three proofs are repeated here verbatim from
`ExtProcL ext` (the only use of the law is `vmOkP_step`), and instantiated at `listExtWith eqTag`.
-/
namespace Marwood.Lemmas.Good
open Marwood Marwood.Vm Marwood.Vm.Verify Marwood.Vm.Concrete Marwood.Lemmas.Sim
open Marwood.Heap (GcState)

variable {ext : ExtOps} {ecl : ExtCodeLawsV ext}

/-- **live congruence of runs of the REAL machine**: `a` reachable and satisfying the bundled invariant, `b` live-equal
    to it (any capacity, any stale cells; not necessarily reachable) — `m` instructions of `run_one` over
    `concreteOps ext` from both end in live-equal states with the same flag (HALT reached together). `FitOK`: an
    invoked continuation's stack copy fits the capacity of the second machine's stack. -/
theorem runN_live_congruence_machine_L (force : Bool) (el : ExtLaws ext) (eg : ExtGood ext) (ep : ExtProcL ext)
    {t0 : St CHeap} (sb : SizeBounded (machine ext force) t0) :
    ∀ (m : Nat) {a b r1 : St CHeap} {bl : Bool}, Reaches (machine ext force) t0 a → VmOkP ext ecl a → LiveEq a b →
      b.stack.sp < b.stack.cells.length → FitOK (concreteOps ext) m a b →
      runN (concreteOps ext) m a = .ok (r1, bl) →
      ∃ r2, runN (concreteOps ext) m b = .ok (r2, bl) ∧ LiveEq r1 r2 := by
  intro m
  induction m with
  | zero =>
    intro a b r1 bl _ _ heq _ _ hr
    simp only [runN] at hr ⊢
    cases hr
    exact ⟨b, rfl, heq⟩
  | succ m ih =>
    intro a b r1 bl hreach hv heq hcap2 hfo hr
    obtain ⟨hfit, hnext⟩ := hfo
    simp only [runN] at hr ⊢
    cases hst : step (concreteOps ext) a with
    | err e => rw [hst] at hr; cases hr
    | panic x => rw [hst] at hr; cases hr
    | ok q =>
      obtain ⟨a', b1⟩ := q
      obtain ⟨K, hw⟩ := hv.1.wfs_of_step hst
      have hco : CalleeOk a := hv.calleeOk
      have hsm' : Small a'.heap := by
        cases b1 with
        | false =>
          refine sb a' (.next hreach ?_)
          show vmStep (concreteOps ext) a = .next a'
          unfold vmStep; rw [hst]
        | true =>
          refine sb a' (.halt hreach ?_)
          show vmStep (concreteOps ext) a = .halt a'
          unfold vmStep; rw [hst]
      have hvs : step (vops ext) a = .ok (a', b1) := step_vops eg hv.1.1 (fun _ => hco) hst hsm'
      have hfit' : ∀ c, (vops ext).callee a.heap a.acc = .continuation c →
          c.stack.cells.length ≤ b.stack.cells.length := by
        intro c hc
        exact hfit c (gcallee_cont hc)
      obtain ⟨b', hsb, hle, hcb⟩ := step_live_congruence_wf (concreteLiveLawsV ext ecl) hw heq hcap2 hfit' hvs
      have hsb' : step (concreteOps ext) b = .ok (b', b1) :=
        step_vops_conv (hv.1.1.of_liveEq heq) (fun _ => calleeOk_of_liveEq hco heq) hsb
      rw [hst] at hr
      rw [hsb']
      cases b1 with
      | true =>
        simp only at hr ⊢
        cases hr
        exact ⟨b', rfl, hle⟩
      | false =>
        simp only at hr ⊢
        have hreach' : Reaches (machine ext force) t0 a' := by
          refine .next hreach ?_
          show vmStep (concreteOps ext) a = .next a'
          unfold vmStep; rw [hst]
        exact ih hreach' (vmOkP_step_L el eg ep hv (sb a hreach) hst hsm') hle hcb (hnext a' b' hst hsb') hr

end Marwood.Lemmas.Good

namespace Marwood.Proofs.C05
open Marwood.Vm Marwood.Vm.Stack Marwood.Proofs.C04 Marwood.Vm.Concrete

open Marwood.Lemmas.Good Marwood.Lemmas.Sim in
/-- **The property's first sentence on the real concrete machine**: everything the machine does after `(k v)` — any
    number `m` of further instructions of `run_one` over `concreteOps ext`, up to and including HALT — is, state by
    state up to stale cells above `sp`, what it does from "the `call/cc` expression at `s0` has just returned `v`". -/
theorem invoke_run_continues_machine_L (ext : ExtOps) (force : Bool) (el : ExtLaws ext) (eg : ExtGood ext)
    (ecl : ExtCodeLawsV ext) (ep : ExtProcL ext)
    {s0 t t1 : St CHeap} {Kt : List FDesc} {op : Op} {n : Nat}
    (h0sp : 2 ≤ s0.stack.sp) (h0cap : s0.stack.sp < s0.stack.cells.length)
    (g : GoodI t) (hwt : WFS (concreteLawsV ext ecl) t Kt) (pt : PInv t)
    (sb : SizeBounded (machine ext force) t)
    (hr : readOpcode (concreteOps ext) t = .ok (op, t1)) (hop : op = .callAcc ∨ op = .tcallAcc)
    (hk : callee t.heap t.acc = .continuation (capturedCont s0))
    (hsp : 2 ≤ t.stack.sp) (htop : t.stack.cellAt t.stack.sp = .argc n) (hn : 1 ≤ n)
    (hfit : s0.stack.sp - 2 + 1 ≤ t.stack.cells.length) :
    ∃ r, step (concreteOps ext) t = .ok (r, false) ∧
      ∀ (m : Nat) (r' : St CHeap) (bl : Bool),
        FitOK (concreteOps ext) m r (Resume s0 (t.stack.cellAt (t.stack.sp - 1)) t.heap) →
        runN (concreteOps ext) m r = .ok (r', bl) →
        ∃ r'', runN (concreteOps ext) m (Resume s0 (t.stack.cellAt (t.stack.sp - 1)) t.heap) = .ok (r'', bl) ∧
          LiveEq r' r'' := by
  obtain ⟨r, hstep, hle, hrcap⟩ :=
    invoke_continues_as_if_returned (concreteOps ext) h0sp h0cap hr hop hk hwt.wf.cap hsp htop hn hfit
  have hv : VmOkP ext ecl t := ⟨⟨g, .inl ⟨Kt, hwt⟩⟩, pt⟩
  have hreach : Reaches (machine ext force) t r := by
    refine .next (.refl t) ?_
    show vmStep (concreteOps ext) t = .next r
    unfold vmStep; rw [hstep]
  have hvr : VmOkP ext ecl r := vmOkP_step_L el eg ep hv (sb t (.refl t)) hstep (sb r hreach)
  refine ⟨r, hstep, ?_⟩
  intro m r' bl hf hrun
  exact runN_live_congruence_machine_L force el eg ep sb m hreach hvr hle
    (by show s0.stack.sp - 2 < s0.stack.cells.length; omega) hf hrun

open Marwood.Lemmas.Good Marwood.Lemmas.Sim in
/-- in particular: if the run of the real machine after `(k v)` halts with value `a` in heap `h`, so does its run from
    "call/cc has just returned `v`" — same value, same heap -/
theorem invoke_run_same_result_machine_L (ext : ExtOps) (force : Bool) (el : ExtLaws ext) (eg : ExtGood ext)
    (ecl : ExtCodeLawsV ext) (ep : ExtProcL ext)
    {s0 t t1 : St CHeap} {Kt : List FDesc} {op : Op} {n : Nat}
    (h0sp : 2 ≤ s0.stack.sp) (h0cap : s0.stack.sp < s0.stack.cells.length)
    (g : GoodI t) (hwt : WFS (concreteLawsV ext ecl) t Kt) (pt : PInv t)
    (sb : SizeBounded (machine ext force) t)
    (hr : readOpcode (concreteOps ext) t = .ok (op, t1)) (hop : op = .callAcc ∨ op = .tcallAcc)
    (hk : callee t.heap t.acc = .continuation (capturedCont s0))
    (hsp : 2 ≤ t.stack.sp) (htop : t.stack.cellAt t.stack.sp = .argc n) (hn : 1 ≤ n)
    (hfit : s0.stack.sp - 2 + 1 ≤ t.stack.cells.length) :
    ∃ r, step (concreteOps ext) t = .ok (r, false) ∧
      ∀ (m : Nat) (r' : St CHeap),
        FitOK (concreteOps ext) m r (Resume s0 (t.stack.cellAt (t.stack.sp - 1)) t.heap) →
        runN (concreteOps ext) m r = .ok (r', true) →
        ∃ r'', runN (concreteOps ext) m (Resume s0 (t.stack.cellAt (t.stack.sp - 1)) t.heap) = .ok (r'', true) ∧
          r''.acc = r'.acc ∧ r''.heap = r'.heap := by
  obtain ⟨r, hstep, hall⟩ := invoke_run_continues_machine_L ext force el eg ecl ep h0sp h0cap g hwt pt sb hr hop hk hsp
    htop hn hfit
  refine ⟨r, hstep, ?_⟩
  intro m r' hf hrun
  obtain ⟨r'', h1, h2⟩ := hall m r' true hf hrun
  exact ⟨r'', h1, h2.acc.symm, h2.heap.symm⟩


open Marwood.Lemmas.Good Marwood.Lemmas.Sim in
/-- **C05's run-level sentence at the real builtins**: if the run of the machine after `(k v)` — through any calls of
    `cons`, `car`, `set-car!`, … — halts with value `a` in heap `h`, so does its run from "call/cc has just returned
    `v`": same value, same heap. No hypothesis about the builtins. -/
theorem invoke_run_same_result_listExt (eqTag : String → String → Bool) (force : Bool)
    {s0 t t1 : St CHeap} {Kt : List FDesc} {op : Op} {n : Nat}
    (h0sp : 2 ≤ s0.stack.sp) (h0cap : s0.stack.sp < s0.stack.cells.length)
    (g : GoodI t) (hwt : WFS (concreteLawsV (listExtWith eqTag) (listExtWith_codeLawsV eqTag)) t Kt) (pt : PInv t)
    (sb : SizeBounded (machine (listExtWith eqTag) force) t)
    (hr : readOpcode (concreteOps (listExtWith eqTag)) t = .ok (op, t1)) (hop : op = .callAcc ∨ op = .tcallAcc)
    (hk : callee t.heap t.acc = .continuation (capturedCont s0))
    (hsp : 2 ≤ t.stack.sp) (htop : t.stack.cellAt t.stack.sp = .argc n) (hn : 1 ≤ n)
    (hfit : s0.stack.sp - 2 + 1 ≤ t.stack.cells.length) :
    ∃ r, step (concreteOps (listExtWith eqTag)) t = .ok (r, false) ∧
      ∀ (m : Nat) (r' : St CHeap),
        FitOK (concreteOps (listExtWith eqTag)) m r (Resume s0 (t.stack.cellAt (t.stack.sp - 1)) t.heap) →
        runN (concreteOps (listExtWith eqTag)) m r = .ok (r', true) →
        ∃ r'', runN (concreteOps (listExtWith eqTag)) m (Resume s0 (t.stack.cellAt (t.stack.sp - 1)) t.heap) =
            .ok (r'', true) ∧ r''.acc = r'.acc ∧ r''.heap = r'.heap :=
  invoke_run_same_result_machine_L _ force (listExtWith_laws eqTag) (listExtWith_good eqTag) (listExtWith_codeLawsV eqTag)
    (listExtWith_procL eqTag) h0sp h0cap g hwt pt sb hr hop hk hsp htop hn hfit

end Marwood.Proofs.C05
