import Marwood.Lemmas.CompileCorrect2Main
import Marwood.Lemmas.CompileCorrect2Err
/-!
# T01.3 stage 2, ERROR case — definitions, inversion of `Spec.Eval` failures, the failing `ENTER`

When `Spec.Eval` ends with a definite error while closures are being called, the machine fails with the
corresponding class somewhere inside the innermost activation; nothing is unwound (the frames of the
enclosing calls are still on the stack: this is what C07's reset has to deal with), the caller's live stack is
intact below them, and the heap represents the specification's state at the failure.

* `ErrRun2` — what a failing run establishes (`base`: the part of the stack that is certainly still there);
* `ErrLaws2` — ASSUMED: a failing primitive is a generic builtin failing with the same class, and a stage-1
  value that is not a primitive procedure is no procedure for `CALL`'s dispatch;
* inversion lemmas; `step_enter_arity` (wrong number of arguments: `InvalidNumArgs`).
-/
namespace Marwood.Lemmas.CompileCorrect2
open Marwood Marwood.Vm Marwood.Lemmas.CompileCorrect
open Marwood.Spec.Eval (Val Prim Cell Env ErrClass evalN evalStep applyStep evalArgs properList quoteVal kwOf insertG
  k_quote k_if_ k_setBang k_define k_lambda)

variable {H : Type} {ops : HeapOps H} {D : RepData2 ops}

structure ErrRun2 (D : RepData2 ops) (W' : World) (s : MSt H) (base : Stack) (σ σ' : SSt) (c : ErrClass)
    (sf : MSt H) (e' : Err) : Prop where
  steps : Steps ops s sf
  fails : step ops sf = .err e'
  cls : machClass e' = specClass c
  stack : StackExt base sf.stack
  swf : SWF sf.stack
  inv : Inv2 D W' sf.heap σ'
  ext : Ext2 D s.heap σ.store sf.heap σ'.store

/-- a successful prefix in front of a failing run -/
theorem ErrRun2.after {W' : World} {s s1 sf : MSt H} {base base1 : Stack} {σ σ1 σ' : SSt} {c : ErrClass} {e' : Err}
    (hst : Steps ops s s1) (hx : Ext2 D s.heap σ.store s1.heap σ1.store) (hb : StackExt base base1)
    (r : ErrRun2 D W' s1 base1 σ1 σ' c sf e') : ErrRun2 D W' s base σ σ' c sf e' :=
  ⟨hst.trans r.steps, r.fails, r.cls, hb.trans r.stack, r.swf, r.inv, hx.trans r.ext⟩

theorem FrameAt.stackExt {st : Stack} {bp : Nat} {fr : Frame} (h : FrameAt st bp fr) : StackExt fr.st0 st :=
  ⟨by have := h.sp0; have := h.live; omega, h.below⟩

/-- the part of the stack a failing run of code compiled with flag `tail` certainly keeps -/
def errBase (tail : Bool) (s : MSt H) (fr : Frame) : Stack := if tail = true then fr.st0 else s.stack

theorem errBase_le {tail : Bool} {s : MSt H} {fr : Frame} (h : tail = true → FrameAt s.stack s.bp fr) :
    StackExt (errBase tail s fr) s.stack := by
  unfold errBase
  cases tail with
  | false => exact StackExt.refl _
  | true => exact (h rfl).stackExt

structure ErrLaws2 (D : RepData2 ops) : Prop where
  call_err : ∀ n W h (σ : SSt) vf p vs ws c (σ' : SSt), Inv2 D W h σ → D.VR h σ.store vf (.prim p) →
    All2 (VR2 D W h σ.store) vs ws → (evalN n).apply (.prim p) ws σ = .err c σ' → c ≠ .syntax →
    ∃ id e', ops.callee h vf = .builtin id ∧ ops.builtinKind h id = .generic ∧
      builtinResult ops h id vs.reverse = .err e' ∧ machClass e' = specClass c ∧
      Inv2 D W h σ' ∧ Ext2 D h σ.store h σ'.store
  callee_other : ∀ h S v w, D.VR h S v w → (∀ p, w ≠ .prim p) → ops.callee h v = .other

/-- statements, at specification fuel `n` -/
def ExprErr2 (D : RepData2 ops) (n : Nat) : Prop :=
  ∀ f cst c base tail e cst' code (ρ : Env), F2 D.setG f c (bound ρ) tail e → CtxOK c →
  compileExpr f cst c base tail e = .ok (cst', code) → cst'.lambdas <+: D.final →
  ∀ (σ : SSt) cl (σ' : SSt), (evalN n).eval e ρ σ = .err cl σ' → cl ≠ .syntax →
  ∀ (W : World) (s : MSt H) (fr : Frame), CodeAt2 D c.envmap s.heap σ.store s.ipL base code → s.ipO = base →
    Inv2 D W s.heap σ → EnvRep ops W s.heap c s.ep ρ → SWF s.stack →
    (tail = true → FrameAt s.stack s.bp fr) →
  ∃ W' sf e', W.le W' ∧ ErrRun2 D W' s (errBase tail s fr) σ σ' cl sf e'

def ExprErr2NT (D : RepData2 ops) (n : Nat) : Prop :=
  ∀ f cst c base e cst' code (ρ : Env), F2 D.setG f c (bound ρ) false e → CtxOK c →
  compileExpr f cst c base false e = .ok (cst', code) → cst'.lambdas <+: D.final →
  ∀ (σ : SSt) cl (σ' : SSt), (evalN n).eval e ρ σ = .err cl σ' → cl ≠ .syntax →
  ∀ (W : World) (s : MSt H), CodeAt2 D c.envmap s.heap σ.store s.ipL base code → s.ipO = base →
    Inv2 D W s.heap σ → EnvRep ops W s.heap c s.ep ρ → SWF s.stack →
  ∃ W' sf e', W.le W' ∧ ErrRun2 D W' s s.stack σ σ' cl sf e'

theorem ExprErr2.nontail {n : Nat} (h : ExprErr2 D n) : ExprErr2NT D n := by
  intro f cst c base e cst' code ρ hf hcx hcomp hpre σ cl σ' hev hcs W s hc hip hi her hw
  exact h f cst c base false e cst' code ρ hf hcx hcomp hpre σ cl σ' hev hcs W s ⟨0, 0, 0, 0, 0, s.stack⟩ hc hip hi
    her hw (by intro h; cases h)

def CallErr2 (D : RepData2 ops) (n : Nat) : Prop :=
  ∀ ps body ρc ws (σ : SSt) cl (σ' : SSt), (evalN n).apply (.closure ps none body ρc) ws σ = .err cl σ' →
  cl ≠ .syntax →
  ∀ (W : World) (s : MSt H) lam cenv vs st0 epc lc oc, ops.callee s.heap s.acc = .closure lam cenv →
    ClosOK D W s.heap lam cenv ps body ρc → Inv2 D W s.heap σ → All2 (VR2 D W s.heap σ.store) vs ws →
    s.ipL = lam → s.ipO = 0 → LiveEq (callFrame st0 vs epc lc oc) s.stack → SWF st0 → SWF s.stack →
  ∃ W' sf e', W.le W' ∧ ErrRun2 D W' s st0 σ σ' cl sf e'

/-! ## inversion of failures -/

open Marwood.Spec.Eval in
/-- a failing variable reference: an unbound global (a lexical variable's cell is always there) -/
theorem evalStep_sym_err_inv2 {r : Rec} {x : Text} {ρ : Env} {σ σ' : SSt} {c : ErrClass}
    (h : evalStep r (.sym x) ρ σ = .err c σ') :
    c = .syntax ∨ (∃ l, ρ.lookup x = some l ∧ ∀ w, σ.store[l]? ≠ some (.var w)) ∨
      (ρ.lookup x = none ∧ σ.globals.lookup x = none ∧ c = .unbound ∧ σ' = σ) := by
  change evalVar x ρ σ = _ at h
  unfold evalVar at h
  split at h
  · exact .inl (throw_err_inv h).1
  · cases hl : ρ.lookup x with
    | some l =>
      refine .inr (.inl ⟨l, rfl, fun w hw => ?_⟩)
      rw [hl] at h
      change (readCell l >>= fun c => match c with | .var v => pure v | _ => throw .internal) σ = _ at h
      rcases bind_err_inv h with h1 | ⟨cc, σ1, h1, h2⟩
      · unfold readCell at h1
        rw [hw] at h1; cases h1
      · unfold readCell at h1
        rw [hw] at h1
        injection h1 with h3 h4
        subst h3
        exact absurd h2 pure_ne_err
    | none =>
      rw [hl] at h
      change getGlobal x σ = _ at h
      unfold getGlobal at h
      cases hg : σ.globals.lookup x with
      | none =>
        rw [hg] at h
        injection h with h1 h2
        exact .inr (.inr ⟨rfl, rfl, h1.symm, h2.symm⟩)
      | some v => rw [hg] at h; cases h

open Marwood.Spec.Eval in
/-- a failing `set!`: the value fails, or the assignment does (a missing cell, an unbound global) -/
theorem evalStep_setBang_err_inv2 {r : Rec} {x : Text} {e : Datum} {ρ : Env} {σ σ' : SSt} {c : ErrClass}
    (h : evalStep r (.pair (.sym k_setBang) (.pair (.sym x) (.pair e .nil))) ρ σ = .err c σ') :
    c = .syntax ∨ r.eval e ρ σ = .err c σ' ∨
      ∃ v σ1, r.eval e ρ σ = .ok v σ1 ∧
        ((∃ l, ρ.lookup x = some l ∧ ¬ l < σ1.store.size) ∨ (ρ.lookup x = none ∧ σ1.globals.lookup x = none)) := by
  simp only [evalStep, kwOf_setBang, evalKw, properList, Option.map] at h
  split at h
  · exact .inl (throw_err_inv h).1
  · rcases bind_err_inv h with h1 | ⟨v, σ1, h1, h2⟩
    · exact .inr (.inl h1)
    · refine .inr (.inr ⟨v, σ1, h1, ?_⟩)
      rcases bind_err_inv h2 with h3 | ⟨u, σ2, _, h4⟩
      · cases hl : ρ.lookup x with
        | some l =>
          simp only [assignVar, hl] at h3
          unfold writeCell at h3
          by_cases hlt : l < σ1.store.size
          · simp only [hlt, if_true] at h3; cases h3
          · exact .inl ⟨l, rfl, hlt⟩
        | none =>
          simp only [assignVar, hl] at h3
          unfold setGlobal at h3
          cases hg : σ1.globals.lookup x with
          | none => exact .inr ⟨rfl, rfl⟩
          | some old => rw [hg] at h3; cases h3
      · exact absurd h4 pure_ne_err

/-- quoting fails only outside the grammar -/
theorem quoteVal_err_syntax (d : Datum) :
    (∀ (σ : SSt) c σ', quoteVal d σ = .err c σ' → c = .syntax) ∧
    (∀ (σ : SSt) c σ', Spec.Eval.quoteElems d σ = .err c σ' → c = .syntax) := by
  have elemsNil : ∀ d : Datum, (∀ a b, d ≠ .pair a b) → ∀ (σ : SSt) c σ', Spec.Eval.quoteElems d σ = .err c σ' →
      c = .syntax := by
    intro d hnp σ c σ' h
    have : Spec.Eval.quoteElems d σ = (pure [] : Spec.Eval.M _) σ := by
      cases d <;> first | rfl | exact absurd rfl (hnp _ _)
    rw [this] at h
    exact absurd h pure_ne_err
  induction d with
  | pair a d iha ihd =>
    refine ⟨fun σ c σ' h => ?_, fun σ c σ' h => ?_⟩
    · unfold quoteVal at h
      rcases bind_err_inv h with h1 | ⟨a', σ1, _, h⟩
      · exact iha.1 _ _ _ h1
      rcases bind_err_inv h with h1 | ⟨d', σ2, _, h⟩
      · exact ihd.1 _ _ _ h1
      change (Spec.Eval.allocCell (.pair a' d') >>= fun l => pure (Val.pair l)) σ2 = _ at h
      rcases bind_err_inv h with h1 | ⟨l, σ3, _, h⟩
      · unfold Spec.Eval.allocCell at h1; cases h1
      · exact absurd h pure_ne_err
    · unfold Spec.Eval.quoteElems at h
      rcases bind_err_inv h with h1 | ⟨a', σ1, _, h⟩
      · exact iha.1 _ _ _ h1
      rcases bind_err_inv h with h1 | ⟨d', σ2, _, h⟩
      · exact ihd.2 _ _ _ h1
      · exact absurd h pure_ne_err
  | vec e ihe =>
    refine ⟨fun σ c σ' h => ?_, elemsNil _ (by intro a b x; cases x)⟩
    unfold quoteVal at h
    rcases bind_err_inv h with h1 | ⟨xs, σ1, _, h⟩
    · exact ihe.2 _ _ _ h1
    change (Spec.Eval.allocCell (.vec xs) >>= fun l => pure (Val.vec l)) σ1 = _ at h
    rcases bind_err_inv h with h1 | ⟨l, σ3, _, h⟩
    · unfold Spec.Eval.allocCell at h1; cases h1
    · exact absurd h pure_ne_err
  | num n =>
    refine ⟨fun σ c σ' h => ?_, elemsNil _ (by intro a b x; cases x)⟩
    unfold quoteVal at h
    cases hn : Spec.Eval.intOfNum n with
    | none => rw [hn] at h; exact (throw_err_inv h).1
    | some i => rw [hn] at h; exact absurd h pure_ne_err
  | bool b => exact ⟨fun σ c σ' h => by unfold quoteVal at h; exact absurd h pure_ne_err, elemsNil _ (by intro a b x; cases x)⟩
  | char b => exact ⟨fun σ c σ' h => by unfold quoteVal at h; exact absurd h pure_ne_err, elemsNil _ (by intro a b x; cases x)⟩
  | nil => exact ⟨fun σ c σ' h => by unfold quoteVal at h; exact absurd h pure_ne_err, elemsNil _ (by intro a b x; cases x)⟩
  | str b => exact ⟨fun σ c σ' h => by unfold quoteVal at h; exact absurd h pure_ne_err, elemsNil _ (by intro a b x; cases x)⟩
  | sym b => exact ⟨fun σ c σ' h => by unfold quoteVal at h; exact absurd h pure_ne_err, elemsNil _ (by intro a b x; cases x)⟩
  | void => exact ⟨fun σ c σ' h => by unfold quoteVal at h; exact absurd h pure_ne_err, elemsNil _ (by intro a b x; cases x)⟩
  | undefined => exact ⟨fun σ c σ' h => by unfold quoteVal at h; exact absurd h pure_ne_err, elemsNil _ (by intro a b x; cases x)⟩
  | procedure b => exact ⟨fun σ c σ' h => by unfold quoteVal at h; exact (throw_err_inv h).1, elemsNil _ (by intro a b x; cases x)⟩
  | macro_ => exact ⟨fun σ c σ' h => by unfold quoteVal at h; exact (throw_err_inv h).1, elemsNil _ (by intro a b x; cases x)⟩
  | continuation => exact ⟨fun σ c σ' h => by unfold quoteVal at h; exact (throw_err_inv h).1, elemsNil _ (by intro a b x; cases x)⟩

/-- `lambda` with well-formed formals and body never fails -/
theorem evalStep_lambda_ne_err {r : Spec.Eval.Rec} {formals body : Datum} {ps : List Text} {rest : Option Text}
    {b : Datum} {bs : List Datum} {ρ : Env} {σ σ' : SSt} {c : ErrClass}
    (hf : Spec.Eval.parseFormals formals = some (ps, rest)) (hb : properList body = some (b :: bs)) :
    evalStep r (.pair (.sym k_lambda) (.pair formals body)) ρ σ ≠ .err c σ' := by
  simp only [evalStep, kwOf_lambda, Spec.Eval.evalKw, Spec.Eval.makeClosure, hf, hb]
  exact pure_ne_err

open Marwood.Spec.Eval in
/-- binding fails only on a wrong number of arguments; the store may have grown by unreferenced cells -/
theorem bindArgs_err_inv : ∀ (ps : List Text) (args : List Val) (ρ : Env) (σ σ' : SSt) (c : ErrClass),
    bindArgs ps none args ρ σ = .err c σ' →
    c = .arity ∧ args.length ≠ ps.length ∧ σ'.globals = σ.globals ∧ σ.store.size ≤ σ'.store.size ∧
    ∀ l, l < σ.store.size → σ'.store[l]? = σ.store[l]? := by
  intro ps
  induction ps with
  | nil =>
    intro args ρ σ σ' c h
    cases args with
    | nil => simp only [bindArgs] at h; exact absurd h pure_ne_err
    | cons a as =>
      simp only [bindArgs] at h
      obtain ⟨rfl, rfl⟩ := throw_err_inv h
      exact ⟨rfl, by simp, rfl, Nat.le_refl _, fun _ _ => rfl⟩
  | cons p ps ih =>
    intro args ρ σ σ' c h
    cases args with
    | nil =>
      simp only [bindArgs] at h
      obtain ⟨rfl, rfl⟩ := throw_err_inv h
      exact ⟨rfl, by simp, rfl, Nat.le_refl _, fun _ _ => rfl⟩
    | cons a as =>
      simp only [bindArgs] at h
      rcases bind_err_inv h with h1 | ⟨l, σ0, h1, h2⟩
      · unfold allocCell at h1; cases h1
      · unfold allocCell at h1
        injection h1 with hl hσ
        subst hl hσ
        obtain ⟨e1, e2, e3, e4, e5⟩ := ih as _ _ σ' c h2
        simp only [Array.size_push] at e4 e5
        refine ⟨e1, by simpa using e2, e3, by omega, fun l hl => ?_⟩
        rw [e5 l (by omega)]
        simp [Array.getElem?_push, Nat.ne_of_lt hl]

theorem applyStep_closure_err_inv {r : Spec.Eval.Rec} {ps : List Text} {body : List Datum} {ρc : Env}
    {args : List Val} {σ σ' : SSt} {c : ErrClass}
    (h : applyStep r (.closure ps none body ρc) args σ = .err c σ') :
    Spec.Eval.bindArgs ps none args ρc σ = .err c σ' ∨
      ∃ ρ' σ1, Spec.Eval.bindArgs ps none args ρc σ = .ok ρ' σ1 ∧ Spec.Eval.evalBody r ρ' body σ1 = .err c σ' := by
  simp only [applyStep] at h
  rcases bind_err_inv h with h1 | ⟨ρ', σ1, h1, h2⟩
  · exact .inl h1
  · exact .inr ⟨ρ', σ1, h1, h2⟩

/-! ## the failing `ENTER` -/

/-- `ENTER` with the wrong number of arguments -/
theorem step_enter_arity {s : MSt H} {lam env n m : Nat} (hl : ops.isLambda s.heap s.ipL = true)
    (h0 : ops.fetch s.heap s.ipL s.ipO = some (.opcode .enter))
    (hc : ops.callee s.heap s.acc = .closure lam env) (hi : ops.lambdaInfo s.heap lam = some ⟨n⟩)
    (hsp : 2 ≤ s.stack.sp) (hargc : s.stack.cells[s.stack.sp - 2]? = some (.argc m)) (hne : m ≠ n) :
    step ops s = .err .invalidNumArgs := by
  unfold step
  rw [readOpcode_eq hl h0]
  simp only [ok_bind, stepEnter, hc, hi]
  have hoff : s.stack.getOffset (-2) = .ok (.argc m) := by
    unfold Stack.getOffset
    have h0' : (0 : Int) ≤ (s.stack.sp : Int) + -2 := by omega
    simp only [h0', if_true]
    have e : ((s.stack.sp : Int) + -2).toNat = s.stack.sp - 2 := by omega
    rw [e]
    exact stack_get_of hargc
  simp only [hoff, ok_bind, asArgc, ne_eq, hne, not_false_eq_true, if_true]
  rfl

end Marwood.Lemmas.CompileCorrect2
