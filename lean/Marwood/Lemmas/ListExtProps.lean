import Marwood.Lemmas.ListExtSim
import Marwood.Lemmas.ListExtGood
import Marwood.Lemmas.ListExtCode
import Marwood.Lemmas.ListExtProc
import Marwood.Lemmas.ListExtDemo
import Marwood.Lemmas.ListExtCont
import Marwood.Proofs.C03
import Marwood.Proofs.C04
import Marwood.Proofs.C07
import Marwood.Proofs.C12
import Marwood.Proofs.C13
import Marwood.Proofs.C18
/-!
# The machine-level property theorems at REAL builtins: no `Ext…` hypothesis left

Every machine-level theorem of C03 / C13 / C07 / C04 / C12 / C18 is parametric in `ext : ExtOps` (the generic Rust
builtins, `eval`'s compiler, VPUSH) and assumes law structures about it. Here they are instantiated at
`listExtWith eqTag` (`Vm/ListExt.lean`: `car cdr cons set-car! set-cdr! eq? eqv? null? pair? not boolean? char?
string? symbol? number? vector? procedure?` modelled over the concrete heap as the Rust code does; `apply` and
`call/cc` are modelled by `Machine.lean` itself), for which ALL the laws are theorems:

| law | theorem | file |
|---|---|---|
| `ExtLaws` | `listExtWith_laws` | Lemmas/ListExtSim.lean |
| `ExtGood` | `listExtWith_good` | Lemmas/ListExtGood.lean |
| `ExtCodeLawsG V` (`ExtCodeLawsV`, `ExtCodeLaws`) | `listExtWith_codeLawsG` | Lemmas/ListExtCode.lean |
| `ExtCodePlain` | `listExtWith_codePlain` | Lemmas/ListExtCode.lean |
| `ExtAllocOnly` | `listExtWith_allocOnly` | Lemmas/ListExtCode.lean |
| `ExtProcL` (= `ExtProc` + the premise `LF h`; `ExtProc` itself is FALSE of `cons`: `not_extProc_listExt`) | `listExtWith_procL` | Lemmas/ListExtProc.lean |

C05's run-level theorems (`invoke_run_continues_machine`, `invoke_run_same_result_machine`) are re-proved from `ExtProcL`
and instantiated in `Lemmas/ListExtCont.lean` (`Marwood.Proofs.C05.invoke_run_same_result_listExt`).

What remains in the statements: `VmOk` and `PInv` of the INITIAL state and the physical bound `SizeBounded`. The
statements are about programs that really cons and mutate; `eqTag` (payload equality of two number / two string
tags) is arbitrary. The demo (`Lemmas/ListExtDemo.lean`) discharges every hypothesis for a program that runs
`cons`, `set-car!` and `car`.
-/

/-! ## C03 -/

namespace Marwood.Proofs.C03
open Marwood Marwood.Vm Marwood.Vm.Concrete Marwood.Lemmas.Sim Marwood.Lemmas.Good Marwood.Proofs.C13

section
variable (eqTag : String → String → Bool)

/-- the callee guard along every run of the machine with the real builtins -/
theorem calleeOkAlong_listExt (force : Bool) {s0 : St CHeap}
    (h0 : VmOk (listExtWith eqTag) (listExtWith_codeLawsV eqTag) s0) (p0 : PInv s0)
    (sb : SizeBounded (machine (listExtWith eqTag) force) s0) :
    CalleeOkAlong (machine (listExtWith eqTag) force) s0 :=
  calleeOkAlong_of_vmOk_L force (listExtWith_laws eqTag) (listExtWith_good eqTag) (listExtWith_procL eqTag) h0 p0 sb

/-- **T03.5 at the real builtins**: on the concrete machine whose generic builtins are the table of
    `Vm/ListExt.lean`, every schedule of collections at instruction boundaries and the collection-free run end with
    the same status in `Sim`-related states. No hypothesis about the builtins. -/
theorem gc_unobservable_listExt (force : Bool) (sched : Nat → Bool) (n : Nat) (s0 : St CHeap)
    (h0 : VmOk (listExtWith eqTag) (listExtWith_codeLawsV eqTag) s0) (p0 : PInv s0)
    (sb : SizeBounded (machine (listExtWith eqTag) force) s0) :
    ResRel (Lemmas.Sim.R (machine (listExtWith eqTag) force))
      (runSched (machine (listExtWith eqTag) force) sched n 0 s0) (pureN (machine (listExtWith eqTag) force) n s0) :=
  gc_unobservable_wf _ force (listExtWith_laws eqTag) (listExtWith_good eqTag) (listExtWith_codeLawsV eqTag) sched n s0
    h0 sb (calleeOkAlong_listExt eqTag force h0 p0 sb)

/-- … and the value is the same -/
theorem gc_unobservable_value_listExt (force : Bool) (sched : Nat → Bool) (n : Nat) (s0 t' : St CHeap)
    (h0 : VmOk (listExtWith eqTag) (listExtWith_codeLawsV eqTag) s0) (p0 : PInv s0)
    (sb : SizeBounded (machine (listExtWith eqTag) force) s0)
    (hk : pureN (machine (listExtWith eqTag) force) n s0 = .done t') :
    ∃ s', runSched (machine (listExtWith eqTag) force) sched n 0 s0 = .done s' ∧
      ∀ fuel, resultObs fuel s' = resultObs fuel t' :=
  gc_unobservable_value_wf _ force (listExtWith_laws eqTag) (listExtWith_good eqTag) (listExtWith_codeLawsV eqTag) sched
    n s0 t' h0 sb (calleeOkAlong_listExt eqTag force h0 p0 sb) hk

/-- `run_one` (any of the 16 opcodes, any builtin of the table) and `run_gc` preserve the bundled invariant
    `VmOk ∧ PInv` — the heap invariant of T03.3 (`WFHeap`, allocated roots) included -/
theorem run_one_preserves_vmOkP_listExt (s s' : St CHeap) (b : Bool)
    (h : VmOkP (listExtWith eqTag) (listExtWith_codeLawsV eqTag) s) (sm : Small s.heap)
    (hs : step (concreteOps (listExtWith eqTag)) s = .ok (s', b)) (sm' : Small s'.heap) :
    VmOkP (listExtWith eqTag) (listExtWith_codeLawsV eqTag) s' ∧ Heap.WFHeap true (toHeap s'.heap) ∧
      Heap.RootsOk (toHeap s'.heap) ((rootsOf s').refs true) :=
  let h' := vmOkP_step_L (listExtWith_laws eqTag) (listExtWith_good eqTag) (listExtWith_procL eqTag) h sm hs sm'
  ⟨h', h'.1.1.hg.wf, h'.1.1.roots⟩

end

/-! ### non-vacuity: a program that runs `cons`, `set-car!` and `car` -/

open Marwood.Lemmas.Good.LDemo in
/-- every hypothesis holds of the demo state -/
example : VmOk listExt listExt_codeLawsV sDemo ∧ PInv sDemo ∧ SizeBounded (machine listExt false) sDemo :=
  ⟨sDemo_vmOk _ _, sDemo_pinv, sDemo_sizeBounded⟩

open Marwood.Lemmas.Good.LDemo in
/-- `(define p (cons 1 2)) (set-car! p 3) (car p)` returns `3` under EVERY schedule of (utilisation-tested)
    collections, through the theorem -/
theorem demo_every_schedule (sched : Nat → Bool) :
    ∃ s', runSched (machine listExt false) sched 17 0 sDemo = .done s' ∧
      resultObs 5 s' = .atom (.opaque "n3") := by
  obtain ⟨s', h1, h2⟩ := gc_unobservable_value_listExt _ false sched 17 sDemo (st 17) (sDemo_vmOk _ _) sDemo_pinv
    sDemo_sizeBounded (pure_done false)
  exact ⟨s', h1, by rw [h2 5]; exact st17_result⟩

open Marwood.Lemmas.Good.LDemo in
/-- … and under two schedules of FORCED collections (mark and sweep before every instruction; before every third
    instruction), by evaluation of the model; the first run really reclaims the cell of the overwritten `1` -/
theorem demo_forced_schedules :
    (∃ s', runSched (machine listExt true) (fun _ => true) 17 0 sDemo = .done s' ∧
      resultObs 5 s' = .atom (.opaque "n3")) ∧
    (∃ s', runSched (machine listExt true) (fun i => i % 3 == 1) 17 0 sDemo = .done s' ∧
      resultObs 5 s' = .atom (.opaque "n3")) :=
  ⟨doneTag_some sched_all, doneTag_some sched_third⟩

end Marwood.Proofs.C03

/-! ## C13 -/

namespace Marwood.Proofs.C13
open Marwood Marwood.Vm Marwood.Vm.Concrete Marwood.Lemmas.Sim Marwood.Lemmas.Good Marwood.Proofs.C03

section
variable (eqTag : String → String → Bool)

/-- **T13.3 at the real builtins**: if the uninterrupted evaluation reaches HALT after `k` instructions, then for
    every sequence of positive budgets whose sum reaches `k` the sliced evaluation (budget-stop collections and the
    collections every 8192 cycles on the real collector model) reaches HALT too, and the datum read out of `acc` is
    the same. No hypothesis about the builtins. -/
theorem sliced_value_eq_uninterrupted_listExt (force : Bool) (s0 : St CHeap)
    (h0 : VmOk (listExtWith eqTag) (listExtWith_codeLawsV eqTag) s0) (p0 : PInv s0)
    (sb : SizeBounded (machine (listExtWith eqTag) force) s0) (k : Nat) (t' : St CHeap)
    (hk : pureN (machine (listExtWith eqTag) force) k s0 = .done t')
    (bs : List Nat) (hpos : ∀ b ∈ bs, 1 ≤ b) (hsum : k ≤ bs.sum) (fuel : Nat) :
    ∃ s1 s2, run (machine (listExtWith eqTag) force) k s0 = .done s1 ∧
      runSliced (machine (listExtWith eqTag) force) bs s0 = .done s2 ∧ resultObs fuel s1 = resultObs fuel s2 :=
  sliced_value_eq_uninterrupted_wf _ force (listExtWith_laws eqTag) (listExtWith_good eqTag)
    (listExtWith_codeLawsV eqTag) s0 h0 sb (calleeOkAlong_listExt eqTag force h0 p0 sb) k t' hk bs hpos hsum fuel

/-- … and for an evaluation that fails: the same failure, `Sim`-related states -/
theorem sliced_error_eq_uninterrupted_listExt (force : Bool) (s0 : St CHeap)
    (h0 : VmOk (listExtWith eqTag) (listExtWith_codeLawsV eqTag) s0) (p0 : PInv s0)
    (sb : SizeBounded (machine (listExtWith eqTag) force) s0) (k : Nat) (e : Fault) (t' : St CHeap)
    (hk : pureN (machine (listExtWith eqTag) force) k s0 = .error e t')
    (bs : List Nat) (hpos : ∀ b ∈ bs, 1 ≤ b) (hsum : k ≤ bs.sum) :
    ∃ s1 s2, run (machine (listExtWith eqTag) force) k s0 = .error e s1 ∧
      runSliced (machine (listExtWith eqTag) force) bs s0 = .error e s2 ∧
      R (machine (listExtWith eqTag) force) s1 t' ∧ R (machine (listExtWith eqTag) force) s2 t' :=
  sliced_error_eq_uninterrupted_wf _ force (listExtWith_laws eqTag) (listExtWith_good eqTag)
    (listExtWith_codeLawsV eqTag) s0 h0 sb (calleeOkAlong_listExt eqTag force h0 p0 sb) k e t' hk bs hpos hsum

end

open Marwood.Lemmas.Good.LDemo in
/-- non-vacuity: every slicing of the 17-instruction evaluation that conses, mutates and reads returns `3` -/
theorem demo_every_slicing (bs : List Nat) (hpos : ∀ b ∈ bs, 1 ≤ b) (hsum : 17 ≤ bs.sum) :
    ∃ s1 s2, run (machine listExt false) 17 sDemo = .done s1 ∧ runSliced (machine listExt false) bs sDemo = .done s2 ∧
      resultObs 5 s1 = resultObs 5 s2 :=
  sliced_value_eq_uninterrupted_listExt _ false sDemo (sDemo_vmOk _ _) sDemo_pinv sDemo_sizeBounded 17 (st 17)
    (pure_done false) bs hpos hsum 5

end Marwood.Proofs.C13

/-! ## C07 -/

namespace Marwood.Proofs.C07
open Marwood Marwood.Vm Marwood.Vm.Concrete Marwood.Lemmas.Sim Marwood.Lemmas.Good Marwood.Proofs.C13
  Marwood.Proofs.C03

/-- **T07.4 at the real builtins**: a failed evaluation (an error raised by `car` of a non-pair, say) leaves a VM
    that is `Sim`-equivalent to its error-reset twin, and every later evaluation on both gives the same value /
    the same failure. Hypotheses: the bundled invariant of the initial states, the laws of the COMPILER inside
    `prepare_eval` (`CompLaws`, `CompGood`: not part of `ExtOps`), the size bound. -/
theorem failed_eval_equivalent_later_listExt (eqTag : String → String → Bool) (force : Bool)
    (comp : CHeap → VCell → Outcome (CHeap × VCell)) (cl : CompLaws comp) (cg : CompGood comp)
    (count : Option Nat) (fuel : Nat) (s : St CHeap) (f : Fault) (s1 : St CHeap)
    (hfail : runEval (concreteOps (listExtWith eqTag)) (cgc force) count fuel s = .failed f s1)
    (h0 : VmOk (listExtWith eqTag) (listExtWith_codeLawsV eqTag) s) (p0 : PInv s)
    (sb : SizeBounded (machine (listExtWith eqTag) force) s) (sm1 : Small s1.heap) :
    ∃ sf, runLoop (machine (listExtWith eqTag) force) count fuel 0 s = .error f sf ∧ s1 = cgc force (onError sf) ∧
      (∃ ψ, Sim ψ s1 (onError sf)) ∧
      ∀ (d : VCell) (s2 t2 : St CHeap), addrFree d = true →
        prepareEval comp s1 d = .ok s2 → prepareEval comp (onError sf) d = .ok t2 →
        SizeBounded (machine (listExtWith eqTag) force) s2 →
        VmOk (listExtWith eqTag) (listExtWith_codeLawsV eqTag) s2 → PInv s2 →
        SizeBounded (machine (listExtWith eqTag) force) t2 →
        VmOk (listExtWith eqTag) (listExtWith_codeLawsV eqTag) t2 → PInv t2 →
        ∀ k : Nat,
          (∀ t', pureN (machine (listExtWith eqTag) force) k t2 = .done t' →
            ∃ s' t'', run (machine (listExtWith eqTag) force) k s2 = .done s' ∧
              run (machine (listExtWith eqTag) force) k t2 = .done t'' ∧
              ∀ fl, resultObs fl s' = resultObs fl t'') ∧
          (∀ e t', pureN (machine (listExtWith eqTag) force) k t2 = .error e t' →
            ∃ s' t'', run (machine (listExtWith eqTag) force) k s2 = .error e s' ∧
              run (machine (listExtWith eqTag) force) k t2 = .error e t'' ∧
              (∃ ψ, Sim ψ s' t' ∧ All2 (AddrRel ψ) (traceFrames s') (traceFrames t')) ∧
              (∃ ψ, Sim ψ t'' t' ∧ All2 (AddrRel ψ) (traceFrames t'') (traceFrames t'))) := by
  obtain ⟨sf, h1, h2, h3, h4⟩ := failed_eval_equivalent_later_wf _ force (listExtWith_laws eqTag)
    (listExtWith_good eqTag) (listExtWith_codeLawsV eqTag) comp cl cg count fuel s f s1 hfail h0 sb
    (calleeOkAlong_listExt eqTag force h0 p0 sb) sm1
  refine ⟨sf, h1, h2, h3, ?_⟩
  intro d s2 t2 hd hs2 ht2 sb2 v2 p2 sbt vt pt k
  exact h4 d s2 t2 hd hs2 ht2 sb2 v2 (calleeOkAlong_listExt eqTag force v2 p2 sb2) sbt vt
    (calleeOkAlong_listExt eqTag force vt pt sbt) k

end Marwood.Proofs.C07

/-! ## C04 -/

namespace Marwood.Proofs.C04
open Marwood Marwood.Vm Marwood.Vm.Concrete Marwood.Vm.Verify Marwood.Lemmas.Sim Marwood.Lemmas.Good Marwood.Proofs.C03

/-- **T04.5 at the real builtins**: loops of tail calls whose bodies call `cons`, `car`, `set-car!`, … run in the
    same frame slot; `sp` at the loop head depends on the frame's base and the head's arity only -/
theorem tail_loop_sp_listExt (eqTag : String → String → Bool) (force : Bool) {D : FDesc} {R : List FDesc} {n : Nat}
    {s s' : St CHeap} (hl : TailLoop (concreteOps (listExtWith eqTag)) D.base n s s') (g : GoodI s)
    (hw : WFS (concreteLawsV (listExtWith eqTag) (listExtWith_codeLawsV eqTag)) s (D :: R)) (p0 : PInv s)
    (hh : AtHead s D.base) (sb : SizeBounded (machine (listExtWith eqTag) force) s) :
    ∃ arity, s'.stack.cellAt (s'.bp + 1) = .argc arity ∧ s'.stack.sp = D.base + arity + 3 :=
  tail_loop_sp_machine _ force (listExtWith_laws eqTag) (listExtWith_good eqTag) (listExtWith_codeLawsV eqTag) hl g hw hh
    sb (calleeOkAlong_listExt eqTag force ⟨g, .inl ⟨_, hw⟩⟩ p0 sb)

end Marwood.Proofs.C04

/-! ## C18 and C12 -/

namespace Marwood.Proofs.C18
open Marwood Marwood.Heap Marwood.Vm Marwood.Vm.Concrete Marwood.Lemmas.Sim Marwood.Lemmas.Good Marwood.Proofs.C03
  Marwood.Lemmas.MachineSym

/-- the stack discipline along every run of the machine with the real builtins -/
theorem stackDiscAlong_listExt (eqTag : String → String → Bool) (force : Bool) {s0 : St CHeap}
    (h0 : VmOk (listExtWith eqTag) (listExtWith_codeLawsV eqTag) s0) (p0 : PInv s0)
    (sb : SizeBounded (machine (listExtWith eqTag) force) s0) :
    StackDiscAlong (machine (listExtWith eqTag) force) s0 :=
  stackDiscAlong_of_wfs force (listExtWith_laws eqTag) (listExtWith_good eqTag) h0 sb
    (calleeOkAlong_listExt eqTag force h0 p0 sb)

/-- **T18.1/T18.2 at the real builtins**: in every state the machine reaches — through any number of `cons`,
    `set-car!`, `eq?`, … calls and of collections — two symbol values sitting anywhere a first-class value can sit
    are equal iff their names are equal -/
theorem symbols_interned_listExt (eqTag : String → String → Bool) (force : Bool) {s0 : St CHeap}
    (h0 : VmOk (listExtWith eqTag) (listExtWith_codeLawsV eqTag) s0) (p0 : PInv s0)
    (sb : SizeBounded (machine (listExtWith eqTag) force) s0) {s : St CHeap}
    (hr : Reaches (machine (listExtWith eqTag) force) s0 s)
    {v w : Vm.VCell} {n m : Text} (lv : Loc s v) (lw : Loc s w) (sv : SymVal s.heap v n) (sw : SymVal s.heap w m) :
    v = w ↔ n = m :=
  symbols_interned_in_every_reachable_state force (listExtWith_laws eqTag) (listExtWith_good eqTag) h0.1 sb
    (stackDiscAlong_listExt eqTag force h0 p0 sb) hr lv lw sv sw

/-- production: every allocated symbol cell of the state after an instruction (a builtin call included) is THE
    cell of its name -/
theorem symbol_production_interns_listExt (eqTag : String → String → Bool) (force : Bool) {s0 : St CHeap}
    (h0 : VmOk (listExtWith eqTag) (listExtWith_codeLawsV eqTag) s0) (p0 : PInv s0)
    (sb : SizeBounded (machine (listExtWith eqTag) force) s0) {s s' : St CHeap}
    (hr : Reaches (machine (listExtWith eqTag) force) s0 s)
    (hs : (machine (listExtWith eqTag) force).step s = .next s' ∨ (machine (listExtWith eqTag) force).step s = .halt s')
    {p : Nat} {n : Text} (hc : SymCell s'.heap p n) (hn : (toHeap s'.heap).NonFree p) :
    symLookup s'.heap n = some p ∧ ∀ q, SymCell s'.heap q n → (toHeap s'.heap).NonFree q → q = p :=
  symbol_production_interns_machine force (listExtWith_laws eqTag) (listExtWith_good eqTag) h0.1 sb
    (stackDiscAlong_listExt eqTag force h0 p0 sb) hr hs hc hn

end Marwood.Proofs.C18

namespace Marwood.Proofs.C12
open Marwood Marwood.Heap Marwood.Spec Marwood.Vm Marwood.Vm.Concrete Marwood.Lemmas.Sim Marwood.Lemmas.Good
  Marwood.Proofs.C03 Marwood.Proofs.C18 Marwood.Lemmas.MachineGarbage Marwood.Lemmas.PolicyAlloc

/-- **T12.1 at the real builtins**: in every reachable state, whenever `run_gc` collects, allocated = live -/
theorem no_floating_garbage_listExt (eqTag : String → String → Bool) (force : Bool) {s0 : St CHeap}
    (h0 : VmOk (listExtWith eqTag) (listExtWith_codeLawsV eqTag) s0) (p0 : PInv s0)
    (sb : SizeBounded (machine (listExtWith eqTag) force) s0) (cp0 : CodePlain s0.heap)
    {s : St CHeap} (hr : Reaches (machine (listExtWith eqTag) force) s0 s) {h' : Heap}
    (hrun : Heap.runGc true force (toHeap s.heap) (rootsOf s) = .ok (.collected h')) (x : Nat) :
    ((toHeap ((machine (listExtWith eqTag) force).gc s).heap).NonFree x ↔ Live (toHeap s.heap) (rootsOf s) x) ∧
    ((toHeap ((machine (listExtWith eqTag) force).gc s).heap).NonFree x ↔
      Live (toHeap ((machine (listExtWith eqTag) force).gc s).heap)
        (rootsOf ((machine (listExtWith eqTag) force).gc s)) x) :=
  no_floating_garbage_machine force (listExtWith_laws eqTag) (listExtWith_good eqTag) h0.1 sb
    (stackDiscAlong_listExt eqTag force h0 p0 sb) (listExtWith_codePlain eqTag) cp0 hr hrun x

/-- … and with the forcing hook the collection always happens -/
theorem forced_gc_no_floating_garbage_listExt (eqTag : String → String → Bool) {s0 : St CHeap}
    (h0 : VmOk (listExtWith eqTag) (listExtWith_codeLawsV eqTag) s0) (p0 : PInv s0)
    (sb : SizeBounded (machine (listExtWith eqTag) true) s0) (cp0 : CodePlain s0.heap)
    {s : St CHeap} (hr : Reaches (machine (listExtWith eqTag) true) s0 s) (x : Nat) :
    ((toHeap (cgc true s).heap).NonFree x ↔ Live (toHeap s.heap) (rootsOf s) x) ∧
    ((toHeap (cgc true s).heap).NonFree x ↔ Live (toHeap (cgc true s).heap) (rootsOf (cgc true s)) x) :=
  forced_gc_no_floating_garbage_machine (listExtWith_laws eqTag) (listExtWith_good eqTag) h0.1 sb
    (stackDiscAlong_listExt eqTag true h0 p0 sb) (listExtWith_codePlain eqTag) cp0 hr x

/-- **the allocation bound of one slice at the real builtins** (parameter `A` of T12.3): between two collection
    points at most `8192 · 3 + E` cells are allocated, `E` = what the builtins called in the slice allocate — and a
    `cons` allocates at most 2 (`evalCons_allocs`; its pair cell is the `maybe_put` of `runBuiltin`, counted in the
    opcode constant), `set-car!` / `set-cdr!` at most 1, every other builtin of the table 0 -/
theorem slice_alloc_bound_listExt (eqTag : String → String → Bool) {n E : Nat} {s s' : St CHeap} (inv : HInv s.heap)
    (sl : Slice (listExtWith eqTag) n E s s') (hn : n ≤ 8192) :
    HInv s'.heap ∧ used s'.heap ≤ used s.heap + (8192 * maxOpAlloc + E) ∧
      ∃ j, j ≤ 8192 * maxOpAlloc + E ∧ Allocs s.heap s'.heap j :=
  slice_alloc_bound (listExtWith_allocOnly eqTag) inv sl hn

end Marwood.Proofs.C12
