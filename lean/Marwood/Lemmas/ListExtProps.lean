import Marwood.Lemmas.ListExtC03
import Marwood.Lemmas.ListExtC13
import Marwood.Lemmas.ListExtC07
import Marwood.Lemmas.ListExtC04
import Marwood.Lemmas.ListExtC05
import Marwood.Lemmas.ListExtC18
import Marwood.Lemmas.ListExtC12
import Marwood.Lemmas.ListExtC06
import Marwood.Lemmas.ListExtSession

/-!
# The machine-level property theorems at REAL builtins: no `Ext…` hypothesis left

Every machine-level theorem of C03 / C13 / C07 / C04 / C12 / C18 / C06 (T06.6) is parametric in `ext : ExtOps` (the generic Rust
builtins, `eval`'s compiler, VPUSH) and assumes law structures about it. Here they are instantiated at
`listExtWith eqTag` (`Vm/ListExt.lean`: `car cdr cons set-car! set-cdr! eq? eqv? null? pair? not boolean? char?
string? symbol? number? vector? procedure?` modelled over the concrete heap as the Rust code does; `apply` and
`call/cc` are modelled by `Machine.lean` itself), for which ALL the laws are theorems:

| law | theorem | file |
|---|---|---|
| `ExtLaws` | `listExtWith_laws` | Lemmas/ListExtSim.lean |
| `ExtGood` | `listExtWith_good` | Lemmas/ListExtGood.lean |
| `ExtCodeLawsG V` (`ExtCodeLawsV`, `ExtCodeLaws`) | `listExtWith_codeLawsG` | Lemmas/ListExtCode.lean |
| `ExtCodePlain` | `listExtWith_codePlain` | Lemmas/ListExtCode.lean |
| `ExtAllocOnly` | `listExtWith_allocOnly` | Lemmas/ListExtCode.lean |
| `ExtProc` (with the premise `LF h`, added for this instance: without it the law is false of `cons`, `extProc_needs_lf`) | `listExtWith_proc` | Lemmas/ListExtProc.lean |
| `ExtNoPanic` (T06.6; holds without the premises the law offers: no builtin of the table has a panic site) | `listExtWith_noPanic` | Lemmas/ListExtNoPanic.lean |
| `ExtEnvInv` = `ExtTaint` + `ExtFit` (T06.6; as stated, no premise added) | `listExtWith_envInv` | Lemmas/ListExtEnv.lean |

What remains in the statements: `VmOk` and `PInv` of the INITIAL state and the physical bound `SizeBounded` (for the
T06.6 corollaries of Lemmas/ListExtC06.lean also `NPInv` and `EnvInv` of the initial state). The
statements are about programs that really cons and mutate; `eqTag` (payload equality of two number / two string
tags) is arbitrary. The demo (`Lemmas/ListExtDemo.lean`) discharges every hypothesis for a program that runs
`cons`, `set-car!` and `car`.
-/

