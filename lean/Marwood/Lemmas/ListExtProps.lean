import Marwood.Lemmas.ListExtC03
import Marwood.Lemmas.ListExtC13
import Marwood.Lemmas.ListExtC07
import Marwood.Lemmas.ListExtC04
import Marwood.Lemmas.ListExtC05
import Marwood.Lemmas.ListExtC18
import Marwood.Lemmas.ListExtC12

/-!
# The machine-level property theorems at REAL builtins: no `Ext…` hypothesis left

Every machine-level theorem of C03 / C13 / C07 / C04 / C12 / C18 is parametric in `ext : ExtOps` (the generic Rust
builtins, `eval`'s compiler, VPUSH) and assumes law structures about it. Here they are instantiated at
`listExtWith eqTag` (`Vm/ListExt.lean`: `car cdr cons set-car! set-cdr! eq? eqv? null? pair? not boolean? char?
string? symbol? number? vector? procedure?` modelled over the concrete heap as the Rust code does; `apply` and
`call/cc` are modelled by `Machine.lean` itself), for which ALL the laws are theorems:

| law | theorem | file |
|---|---|---|
| `ExtLaws` | `listExtWith_laws` | Lemmas/ListExtSim.lean |
| `ExtGood` | `listExtWith_good` | Lemmas/ListExtGood.lean |
| `ExtCodeLawsG V` (`ExtCodeLawsV`, `ExtCodeLaws`) | `listExtWith_codeLawsG` | Lemmas/ListExtCode.lean |
| `ExtCodePlain` | `listExtWith_codePlain` | Lemmas/ListExtCode.lean |
| `ExtAllocOnly` | `listExtWith_allocOnly` | Lemmas/ListExtCode.lean |
| `ExtProc` (with the premise `LF h`, added for this instance: without it the law is false of `cons`, `extProc_needs_lf`) | `listExtWith_proc` | Lemmas/ListExtProc.lean |

What remains in the statements: `VmOk` and `PInv` of the INITIAL state and the physical bound `SizeBounded`. The
statements are about programs that really cons and mutate; `eqTag` (payload equality of two number / two string
tags) is arbitrary. The demo (`Lemmas/ListExtDemo.lean`) discharges every hypothesis for a program that runs
`cons`, `set-car!` and `car`.
-/

