import Marwood.Lemmas.CompileCorrect2Concrete
import Marwood.Lemmas.CompileCorrect2Main
import Marwood.Lemmas.CompileCorrectAtoms
/-!
# T01.3 stage 2 on the concrete heap — the representation, and what it keeps when cells are kept

`cD`: the stage-2 representation data over `concreteOps ext` (`Vm/ConcreteHeap.lean`): values are the
store-free representation `atomVR` of stage 1 closed under heap pairs; the environment-map sources of a lambda
are read off its heap cell; the heap invariant is `CInv` (the invariant of `Lemmas/ConcreteLaws.lean`), `FreeInv`
(free cells are `Undefined`) and "the named global slots exist".

`Keeps h h'`: every cell of `h` that is not `Undefined` is still there in `h'`, except that a lexical
environment may have been replaced by another one (assignment). This is what allocation (`Alloc.keeps`) and
`envPut` do, and it is all the representation needs: `ext2_of_keeps`.
-/
namespace Marwood.Lemmas.CompileCorrect2.Conc
open Marwood Marwood.Vm Marwood.Vm.Concrete Marwood.Lemmas.CompileCorrect Marwood.Lemmas.CompileCorrect2
open Marwood.Spec.Eval (Val Cell)

/-- `environment.rs` source as the laws of stage 2 name it (`Global` entries are never built by
    `new_from_iof`; CLOSURE and ENTER treat them like internal definitions) -/
def conv : Concrete.Source → RSrc
  | .iofArg n => .iofArg n
  | .iofEnv n => .iofEnv n
  | .arg n => .arg n
  | .global => .internal
  | .internal => .internal

def cBase (ext : ExtOps) (E : AtomEnc) (h : CHeap) (v : VCell) (w : Val) : Prop :=
  atomVR (concreteOps ext) E h #[] v w

abbrev cVR (ext : ExtOps) (E : AtomEnc) (h : CHeap) (S : Array Cell) (v : VCell) (w : Val) : Prop :=
  ClosedVR (concreteOps ext) (fun _ _ => none) (cBase ext E) h S v w

def cD (ext : ExtOps) (E : AtomEnc) (named : Text → Prop) (slot : Text → Nat) (LM : Nat → Nat)
    (final : List LambdaM) (setG : Text → Prop) : RepData2 (concreteOps ext) :=
  { named := named, slot := slot, VR := cVR ext E
    SRx := fun h _ => CInv h ∧ FreeInv h ∧ ∀ x, named x → slot x < h.globals.size
    vecElems := fun _ _ => none
    envOK := fun h e => ∃ ss, envAt h e = some ss
    lamSrcs := fun h l => (lambdaAt h l).map fun lam => lam.envmap.map fun p => conv p.2
    LM := LM, final := final, setG := setG }

/-- non-`Undefined` cells are kept; a lexical environment may be replaced by a lexical environment -/
def Keeps (h h' : CHeap) : Prop :=
  ∀ (i : Nat) (c : CCell), h.cells[i]? = some c → c ≠ CCell.val .undefined →
    h'.cells[i]? = some c ∨ ∃ ss ss', c = CCell.lexEnv ss ∧ h'.cells[i]? = some (CCell.lexEnv ss')

theorem Keeps.refl (h : CHeap) : Keeps h h := fun _ _ hc _ => .inl hc

theorem Alloc.keeps {h h' : CHeap} {p : Nat} {c : CCell} (a : Alloc h h' p c) : Keeps h h' :=
  fun _ _ hc hne => .inl (a.kept hc hne)

theorem Keeps.trans {a b c : CHeap} (h1 : Keeps a b) (h2 : Keeps b c) : Keeps a c := by
  intro i x hx hne
  rcases h1 i x hx hne with h | ⟨ss, ss', rfl, h⟩
  · exact h2 i x h hne
  · rcases h2 i _ h (by intro e; cases e) with h' | ⟨s1, s2, _, h'⟩
    · exact .inr ⟨ss, ss', rfl, h'⟩
    · exact .inr ⟨ss, s2, rfl, h'⟩

variable {ext : ExtOps} {E : AtomEnc}

theorem repr_undef {c : CCell} (h : Concrete.repr c = .undefined) : c = CCell.val .undefined := by
  cases c with
  | val v => simp only [Concrete.repr] at h; rw [h]
  | lexEnv s => cases h
  | vector s => cases h
  | lambda s => cases h
  | cont s => cases h

/-- what `heap.get_at_index` shows is kept, unless it was `Undefined` -/
theorem Keeps.getAt {h h' : CHeap} (k : Keeps h h') {p : Nat} {c : VCell} (hg : Concrete.getAt h p = c)
    (hne : c ≠ .undefined) : Concrete.getAt h' p = c := by
  unfold Concrete.getAt at hg ⊢
  cases hc : h.cells[p]? with
  | none => rw [hc] at hg; exact absurd hg.symm hne
  | some cell =>
    rw [hc] at hg
    have hcn : cell ≠ CCell.val .undefined := by
      intro e; subst e; exact hne hg.symm
    rcases k p cell hc hcn with h1 | ⟨ss, ss', rfl, h1⟩
    · rw [h1]; exact hg
    · rw [h1]; exact hg

theorem Keeps.base {h h' : CHeap} (k : Keeps h h') {v : VCell} {w : Val} (x : cBase ext E h v w) :
    cBase ext E h' v w := by
  obtain ⟨c, hc, hv⟩ := x
  refine ⟨c, hc, ?_⟩
  rcases hv with hv | ⟨p, hp, hg⟩
  · exact .inl hv
  · exact .inr ⟨p, hp, k.getAt hg (cell_ne_undefined hc)⟩

theorem Keeps.derefPair {h h' : CHeap} (k : Keeps h h') {v : VCell} {a d : Nat}
    (x : Concrete.deref h v = .pair a d) : Concrete.deref h' v = .pair a d := by
  cases v with
  | ptr p => exact k.getAt x (by intro e; cases e)
  | _ => exact x

theorem Keeps.vr {h h' : CHeap} (k : Keeps h h') {S S' : Array Cell}
    (keep : ∀ (l : Nat) (c : Cell), S[l]? = some c → (∀ v, c ≠ .var v) → S'[l]? = some c) {v : VCell} {w : Val}
    (x : cVR ext E h S v w) : cVR ext E h' S' v w :=
  ClosedVR.transport (ops := concreteOps ext) (vecElems := fun _ _ => none) (base := cBase ext E) (h := h) (h' := h')
    (fun _ _ y => k.base y) (fun _ _ _ y => k.derefPair y) (fun _ _ y => y) keep x

theorem Keeps.lambdaAt {h h' : CHeap} (k : Keeps h h') {l : Nat} {lam : CLambda} (x : lambdaAt h l = some lam) :
    lambdaAt h' l = some lam := by
  have hc := lambdaAt_iff.mp x
  rcases k l _ hc (by intro e; cases e) with h1 | ⟨ss, ss', e, _⟩
  · exact lambdaAt_iff.mpr h1
  · cases e

theorem Keeps.envAt {h h' : CHeap} (k : Keeps h h') {e : Nat} {ss : List VCell} (x : envAt h e = some ss) :
    h'.cells[e]? = some (CCell.lexEnv ss) ∨ ∃ ss', h'.cells[e]? = some (CCell.lexEnv ss') := by
  rcases k e _ (envAt_cell x) (by intro e; cases e) with h1 | ⟨s1, s2, _, h1⟩
  · exact .inl h1
  · exact .inr ⟨s2, h1⟩

theorem Keeps.closure {h h' : CHeap} (k : Keeps h h') {v : VCell} {l e : Nat}
    (x : Concrete.callee h v = .closure l e) : Concrete.callee h' v = .closure l e := by
  cases v with
  | ptr p =>
    have x' : (match h.cells[p]? with | some c => calleeOfCell c | none => Callee.other) = .closure l e := x
    show (match h'.cells[p]? with | some c => calleeOfCell c | none => Callee.other) = .closure l e
    cases hc : h.cells[p]? with
    | none => rw [hc] at x'; cases x'
    | some cell =>
      rw [hc] at x'
      have hcn : cell ≠ CCell.val .undefined := by
        intro e0; subst e0; cases x'
      rcases k p cell hc hcn with h1 | ⟨ss, ss', rfl, _⟩
      · rw [h1]; exact x'
      · cases x'
  | _ => exact x

theorem envAt_of_cell {h : CHeap} {e : Nat} {ss : List VCell} (x : h.cells[e]? = some (CCell.lexEnv ss)) :
    envAt h e = some ss := by
  unfold Concrete.envAt; rw [x]

/-- what a heap operation keeps, from `Keeps` and what it does to the environment slots -/
theorem ext2_of_keeps {named : Text → Prop} {slot : Text → Nat} {LM : Nat → Nat} {final : List LambdaM}
    {setG : Text → Prop} {h h' : CHeap} (S : Array Cell) (k : Keeps h h')
    (hp : ∀ e n a b, Concrete.envGet h e n = some (.lexEnvPtr a b) → Concrete.envGet h' e n = some (.lexEnvPtr a b))
    (hv : ∀ e n v, Concrete.envGet h e n = some v → isEnvPtr v = false →
      ∃ v', Concrete.envGet h' e n = some v' ∧ isEnvPtr v' = false) :
    Ext2 (cD ext E named slot LM final setG) h S h' S := by
  refine ⟨StoreExt.refl _, fun _ _ x => k.vr (fun _ _ y _ => y) x,
    fun _ _ x => DatumAt.transport (D := (cD ext E named slot LM final setG).toRepData)
      (vecElems := fun _ _ => none) (h := h) (h' := h') (S := S) (S' := S) (fun _ _ y => k.vr (fun _ _ z _ => z) y)
      (fun _ _ _ y => k.derefPair y) (fun _ _ y => y) x,
    fun l x => ?_, fun v l e x => k.closure x, fun e x => ?_, hp, hv⟩
  case refine_2 =>
    obtain ⟨ss, hs⟩ := x
    rcases k.envAt hs with h1 | ⟨ss', h1⟩
    · exact ⟨ss, envAt_of_cell h1⟩
    · exact ⟨ss', envAt_of_cell h1⟩
  have x' : (lambdaAt h l).isSome = true := x
  cases hl : lambdaAt h l with
  | none => rw [hl] at x'; cases x'
  | some lam =>
    have hl' := k.lambdaAt hl
    refine ⟨?_, fun o => ?_, ?_, ?_⟩
    · show (lambdaAt h' l).isSome = true
      rw [hl']; rfl
    · show (match lambdaAt h' l with | some lam => lam.bc[o]? | none => none) =
        (match lambdaAt h l with | some lam => lam.bc[o]? | none => none)
      rw [hl, hl']
    · show (lambdaAt h' l).map _ = (lambdaAt h l).map _
      rw [hl, hl']
    · show (lambdaAt h' l).map _ = (lambdaAt h l).map _
      rw [hl, hl']

end Marwood.Lemmas.CompileCorrect2.Conc
