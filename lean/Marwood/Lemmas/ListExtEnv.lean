import Marwood.Vm.ListExt
import Marwood.Lemmas.ListExtCode
import Marwood.Lemmas.EnvInvMain
/-!
# `ExtEnvInv (listExtWith eqTag)`: the real builtins keep "no value leads to a capturing lambda" and "fit"

`ExtEnvInv = ExtTaint + ExtFit` (Lemmas/EnvInvMain.lean) is what the invariant `EnvInv = TInv ∧ FInv` of T06.6 asks of
the unmodelled operations.

* `ExtTaint` (Lemmas/EnvTaintOps.lean) — the shape of `Lemmas/ListExtProc.lean` with `capAt` for `entryAt`: one lemma
  per builtin through the per-operation lemmas `putV_res`, `cwrite_res`, `deref_valEB`. The law already carries the
  premise `LF h` (it was stated after `extProc_needs_lf`).
* `ExtFit` (Lemmas/EnvFitStack.lean) — `car` / `cdr` / the predicates / `eq?` return the heap they were given and a
  pointer or a boolean; `cons` is two `heap.put`s of VALUES (`VOk`: a pointer or an address-free scalar, never an
  inline closure), i.e. two `FStep NoClaim` (`putV_fstepNC`); `set-car!` / `set-cdr!` are one such `put` followed by the
  overwrite of a `val` cell (the pair) with a `val` cell that is not a closure — not an `FStep` (the cell is allocated),
  but it changes no lambda cell and no environment cell, so EVERY fitting pair keeps fitting (`cwrite_val_fit`).
  No builtin of the table returns an inline closure (`car` returns the pointer stored in the pair).

Both hold as stated: no premise had to be added.
-/

/-! ## `ExtTaint` -/

namespace Marwood.Lemmas.Taint
open Marwood.Lemmas.Good Marwood Marwood.Vm Marwood.Vm.Verify Marwood.Vm.Concrete Marwood.Vm.Concrete.ListExt
  Marwood.Lemmas.Sim

section
variable (eqTag : String → String → Bool) {h h' : CHeap} {v : VCell}

theorem ptr_capE {h : CHeap} {a : Nat} (hn : neE h (.ptr a) = true) : capAt h a = false := by
  simpa using hn

theorem evalCar_taint (first : Bool) (hp : HP h) {x : VCell} (hx : plainGlob x = true ∧ neE h x = true)
    (he : evalCar first h x = .ok (h', v)) : HP h' ∧ EShr h h' ∧ valEB h' v = true := by
  unfold evalCar at he
  have hv := deref_valEB hp hx.1 hx.2
  cases hd : deref h x with
  | pair a d =>
    rw [hd] at he hv
    cases he
    have hv' : (!capAt h a && !capAt h d) = true := hv
    simp only [Bool.and_eq_true] at hv'
    refine ⟨hp, .refl h, ?_⟩
    cases first
    · exact hv'.2
    · exact hv'.1
  | _ => rw [hd] at he; cases he

theorem evalCons_taint (hp : HP h) (lf : LF h) {d a : VCell} (hd : plainGlob d = true ∧ neE h d = true)
    (ha : plainGlob a = true ∧ neE h a = true) (he : evalCons h d a = .ok (h', v)) :
    HP h' ∧ EShr h h' ∧ valEB h' v = true := by
  simp only [evalCons] at he
  obtain ⟨dp, h1, he⟩ := bind_ok he
  obtain ⟨ap, h2, he⟩ := bind_ok he
  cases he
  obtain ⟨r1, n1⟩ := putV_res lf hp (valEB_of_value hd.1 hd.2)
  obtain ⟨r2, n2⟩ := putV_res r1.lf r1.hp (r1.valEB (valEB_of_value ha.1 ha.2))
  rw [Concrete.asPtr_ok h1] at n1
  rw [Concrete.asPtr_ok h2] at n2
  have e1 : capAt (putV (putV h d).1 a).1 dp = false := by rw [r2.ls.capE]; exact ptr_capE n1
  exact ⟨r2.hp, (r1.trans r2).eshr, valEB_pair (ptr_capE n2) e1⟩

theorem evalSetPair_taint (first : Bool) (hp : HP h) (lf : LF h) {obj pair : VCell}
    (ho : plainGlob obj = true ∧ neE h obj = true) (he : evalSetPair first h obj pair = .ok (h', v)) :
    HP h' ∧ EShr h h' ∧ valEB h' v = true := by
  simp only [evalSetPair] at he
  cases hd : deref h pair with
  | pair a d =>
    rw [hd] at he
    simp only at he
    obtain ⟨o, h1, he⟩ := bind_ok he
    obtain ⟨p, h2, he⟩ := bind_ok he
    cases he
    have := Concrete.asPtr_ok h2
    subst this
    have hcell := getAt_pair_cell (show getAt h p = .pair a d from hd)
    obtain ⟨r1, n1⟩ := putV_res lf hp (valEB_of_value ho.1 ho.2)
    rw [Concrete.asPtr_ok h1] at n1
    have hold : ∀ lam, (putV h obj).1.cells[p]? ≠ some (CCell.lambda lam) := by
      intro lam hl
      have := r1.ls p
      rw [lambdaAt_iff.mpr hl] at this
      have := lambdaAt_iff.mp this.symm
      rw [hcell] at this; cases this
    have hpair : (!capAt h a && !capAt h d) = true := hp.cells p _ hcell
    simp only [Bool.and_eq_true] at hpair
    have ea : capAt (putV h obj).1 a = false := by rw [r1.ls.capE]; simpa using hpair.1
    have ed : capAt (putV h obj).1 d = false := by rw [r1.ls.capE]; simpa using hpair.2
    have eo : capAt (putV h obj).1 o = false := ptr_capE n1
    have r2 : OpRes (putV h obj).1 (cwrite (putV h obj).1 p (.val (if first then .pair o d else .pair a o))) := by
      refine cwrite_res r1.lf r1.hp hold (fun lam hh => by cases hh) ?_
      cases first
      · exact valEB_pair ea eo
      · exact valEB_pair eo ed
    exact ⟨r2.hp, (r1.trans r2).eshr, rfl⟩
  | _ => rw [hd] at he; cases he

theorem evalPrim_taint (p : Prim) (hp : HP h) (lf : LF h) {args : List VCell}
    (hargs : ∀ a ∈ args, plainGlob a = true ∧ neE h a = true)
    (he : evalPrim eqTag p h args = .ok (h', v)) : HP h' ∧ EShr h h' ∧ valEB h' v = true := by
  have pure : ∀ b : Bool, (Outcome.ok (h, VCell.bool b) : Outcome (CHeap × VCell)) = .ok (h', v) →
      HP h' ∧ EShr h h' ∧ valEB h' v = true := by
    intro b e; cases e; exact ⟨hp, .refl h, rfl⟩
  match args, hargs with
  | [], _ => cases p <;> cases he
  | [x], hargs =>
    have hx := hargs x (by simp)
    cases p with
    | car => exact evalCar_taint true hp hx he
    | cdr => exact evalCar_taint false hp hx he
    | pred q => exact pure _ he
    | _ => cases he
  | [x, y], hargs =>
    have hx := hargs x (by simp)
    have hy := hargs y (by simp)
    cases p with
    | cons => exact evalCons_taint hp lf hx hy he
    | setCar => exact evalSetPair_taint true hp lf hx he
    | setCdr => exact evalSetPair_taint false hp lf hx he
    | eq => exact pure _ he
    | _ => cases he
  | _ :: _ :: _ :: _, _ => cases p <;> cases he

/-- **the real builtins create no capturing lambda and return nothing that leads to one** -/
theorem listExtWith_taint : ExtTaint (listExtWith eqTag) where
  eval := by
    intro h id args h' v hp lf hargs he
    have he' : ListExt.builtinEval eqTag h id args = .ok (h', v) := he
    unfold ListExt.builtinEval at he'
    cases hq : primOf id with
    | none => rw [hq] at he'; cases he'
    | some p => rw [hq] at he'; exact evalPrim_taint eqTag p hp lf hargs he'
  compile := fun _ _ _ _ _ _ _ h => (by cases h)
  vpush := fun _ _ _ _ _ _ _ _ h => (by cases h)

end

end Marwood.Lemmas.Taint

/-! ## `ExtFit` -/

namespace Marwood.Lemmas.Good
open Marwood Marwood.Vm Marwood.Vm.Verify Marwood.Vm.Concrete Marwood.Vm.Concrete.ListExt Marwood.Lemmas.Sim

/-- `heap.put` of a first-class value creates at most a cell that carries no clause -/
theorem putV_fstepNC {h : CHeap} (lf : LF h) {v : VCell} (hv : plainGlob v = true) : FStep NoClaim h (putV h v).1 :=
  (putV_fstep lf v).weaken (fun c hc => by subst hc; exact NoClaim.val (plainGlob_not_closure hv))

/-- a cell's clause when EVERY fitting pair keeps fitting and the lambda cells are the same -/
theorem CellF.keepAll {h h' : CHeap} (fa : ∀ e l, Fit h e l → Fit h' e l) (ls : LamSame h h') {c : CCell}
    (x : CellF h c) : CellF h' c := by
  cases c with
  | val v => intro l e he; exact fa e l (x l e he)
  | lambda lam => exact CodeF.ls ls x
  | cont k => exact ⟨fun i e l o hi h1 h2 => fa e l (x.1 i e l o hi h1 h2), fa _ _ x.2⟩
  | lexEnv _ => trivial
  | vector _ => trivial

/-- **overwriting a `val` cell with a `val` cell that is not a closure**: same lambda cells, same environments, `HF`
    kept -/
theorem cwrite_val_fit {h : CHeap} {p : Nat} {u w : VCell} (hold : h.cells[p]? = some (CCell.val u))
    (hw : ∀ l e, w ≠ .closure l e) (hf : HF h) :
    HF (cwrite h p (.val w)) ∧ (∀ e l, Fit h e l → Fit (cwrite h p (.val w)) e l) ∧
      LamSame h (cwrite h p (.val w)) := by
  have ls : LamSame h (cwrite h p (.val w)) := by
    intro l
    unfold lambdaAt
    rw [cwrite_cells]
    by_cases hh : p = l ∧ p < h.cells.size
    · rw [if_pos hh]; obtain ⟨e, _⟩ := hh; subst e; rw [hold]
    · rw [if_neg hh]
  have henv : ∀ e, envAt (cwrite h p (.val w)) e = envAt h e := by
    intro e
    unfold envAt
    rw [cwrite_cells]
    by_cases hh : p = e ∧ p < h.cells.size
    · rw [if_pos hh]; obtain ⟨e', _⟩ := hh; subst e'; rw [hold]
    · rw [if_neg hh]
  have fa : ∀ e l, Fit h e l → Fit (cwrite h p (.val w)) e l := by
    intro e l x lam ss hl he
    rw [ls l] at hl
    rw [henv e] at he
    exact x lam ss hl he
  refine ⟨?_, fa, ls⟩
  intro i c hc
  rw [cwrite_cells] at hc
  by_cases hh : p = i ∧ p < h.cells.size
  · rw [if_pos hh] at hc
    cases hc
    intro l e he
    exact absurd he (hw l e)
  · rw [if_neg hh] at hc
    exact CellF.keepAll fa ls (hf i c hc)

/-- an allocated (non-`Undefined`) cell is not on the free list -/
theorem not_free_of_cell {h : CHeap} (g : HG h) {i : Nat} {c : CCell} (hc : h.cells[i]? = some c)
    (hu : c ≠ .val .undefined) : i ∉ h.free := by
  have nf : NF h i := .inl (alloc_of_ne_undef g hc hu)
  rcases nf.cases g with ⟨k, _⟩ | k
  · exact k
  · have := lt_of_get_some hc
    have := hg_bound g
    omega

section
variable (eqTag : String → String → Bool) {h h' : CHeap} {v : VCell}

/-- what `ExtFit.eval` concludes -/
abbrev FitOut (h h' : CHeap) (v : VCell) : Prop :=
  HF h' ∧ FitKeep h h' ∧ LamKeep h h' ∧ ∀ l e, v = .closure l e → Fit h' e l

theorem fitOut_same (hf : HF h) {v : VCell} (hv : ∀ l e, v ≠ .closure l e) : FitOut h h v :=
  ⟨hf, fun _ _ _ _ x => x, fun _ _ x => x, fun l e he => absurd he (hv l e)⟩

theorem evalCar_fit (first : Bool) (hf : HF h) {x : VCell} (he : evalCar first h x = .ok (h', v)) :
    FitOut h h' v := by
  unfold evalCar at he
  split at he
  · cases he; exact fitOut_same hf (fun l e hh => by cases hh)
  · cases he

theorem evalCons_fit (g : HG h) (g' : HG h') (hf : HF h) (lf : LF h) {d a : VCell} (hd : VOk h d) (ha : VOk h a)
    (he : evalCons h d a = .ok (h', v)) : FitOut h h' v := by
  simp only [evalCons] at he
  obtain ⟨dp, _, he⟩ := bind_ok he
  obtain ⟨ap, _, he⟩ := bind_ok he
  cases he
  have x1 := putV_fstepNC lf hd.1
  have x2 : FStep NoClaim (putV h d).1 (putV (putV h d).1 a).1 := putV_fstepNC x1.lf ha.1
  have x := FStep.trans NoClaim.lexEnv x1 x2
  have b' := hg_bound g'
  exact ⟨HF.step_noClaim g b' hf x, x.fitKeep g b', fun l lam hl => by rw [x.ls l]; exact hl,
    fun l e hh => by cases hh⟩

theorem evalSetPair_fit (first : Bool) (g : HG h) (g' : HG h') (hf : HF h) (lf : LF h) {obj pair : VCell}
    (ho : VOk h obj) (he : evalSetPair first h obj pair = .ok (h', v)) : FitOut h h' v := by
  simp only [evalSetPair] at he
  cases hd : deref h pair with
  | pair a d =>
    rw [hd] at he
    simp only at he
    obtain ⟨o, _, he⟩ := bind_ok he
    obtain ⟨p, h2, he⟩ := bind_ok he
    cases he
    have := Concrete.asPtr_ok h2
    subst this
    have hcell := getAt_pair_cell (show getAt h p = .pair a d from hd)
    have x1 := putV_fstepNC lf ho.1
    have hcell1 : (putV h obj).1.cells[p]? = some (CCell.val (.pair a d)) :=
      x1.keep p _ hcell (not_free_of_cell g hcell (fun hh => by cases hh)) (fun ss hh => by cases hh)
    have hsz : (cwrite (putV h obj).1 p (.val (if first then .pair o d else .pair a o))).cells.size =
        (putV h obj).1.cells.size := by simp [cwrite]
    have b1 : (putV h obj).1.cells.size ≤ 2 ^ 63 := by rw [← hsz]; exact hg_bound g'
    have hf1 : HF (putV h obj).1 := HF.step_noClaim g b1 hf x1
    have fk1 : FitKeep h (putV h obj).1 := x1.fitKeep g b1
    have hw : ∀ l e, (if first then VCell.pair o d else VCell.pair a o) ≠ .closure l e := by
      intro l e hh; cases first <;> cases hh
    obtain ⟨hf2, fa, ls2⟩ := cwrite_val_fit hcell1 hw hf1
    refine ⟨hf2, fun e l nfe nfl x => fa e l (fk1 e l nfe nfl x), ?_, fun l e hh => by cases hh⟩
    intro l lam hl
    rw [ls2 l, x1.ls l]; exact hl
  | _ => rw [hd] at he; cases he

theorem evalPrim_fit (p : Prim) (g : HG h) (g' : HG h') (hf : HF h) (lf : LF h) {args : List VCell}
    (hargs : ∀ a ∈ args, VOk h a) (he : evalPrim eqTag p h args = .ok (h', v)) : FitOut h h' v := by
  have pure : ∀ b : Bool, (Outcome.ok (h, VCell.bool b) : Outcome (CHeap × VCell)) = .ok (h', v) →
      FitOut h h' v := by
    intro b e; cases e; exact fitOut_same hf (fun l e hh => by cases hh)
  match args, hargs with
  | [], _ => cases p <;> cases he
  | [x], hargs =>
    cases p with
    | car => exact evalCar_fit true hf he
    | cdr => exact evalCar_fit false hf he
    | pred q => exact pure _ he
    | _ => cases he
  | [x, y], hargs =>
    have hx := hargs x (by simp)
    have hy := hargs y (by simp)
    cases p with
    | cons => exact evalCons_fit g g' hf lf hx hy he
    | setCar => exact evalSetPair_fit true g g' hf lf hx he
    | setCdr => exact evalSetPair_fit false g g' hf lf hx he
    | eq => exact pure _ he
    | _ => cases he
  | _ :: _ :: _ :: _, _ => cases p <;> cases he

/-- **the real builtins keep every closure / continuation / code object fitting** -/
theorem listExtWith_fit : ExtFit (listExtWith eqTag) where
  eval := by
    intro h id args h' v g g' hf lf hargs he
    have he' : ListExt.builtinEval eqTag h id args = .ok (h', v) := he
    unfold ListExt.builtinEval at he'
    cases hq : primOf id with
    | none => rw [hq] at he'; cases he'
    | some p => rw [hq] at he'; exact evalPrim_fit eqTag p g g' hf lf hargs he'
  compile := fun _ _ _ _ _ _ _ _ _ h => (by cases h)
  vpush := fun _ _ _ _ _ _ _ _ _ _ h => (by cases h)

/-- **`ExtEnvInv` for the table of real builtins** -/
theorem listExtWith_envInv : ExtEnvInv (listExtWith eqTag) :=
  ⟨Taint.listExtWith_taint eqTag, listExtWith_fit eqTag⟩

theorem listExt_envInv : ExtEnvInv listExt := listExtWith_envInv _

end

end Marwood.Lemmas.Good
