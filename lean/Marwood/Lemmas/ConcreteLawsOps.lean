import Marwood.Lemmas.ConcreteLaws
/-!
# `CodeLaws` for the concrete heap — the instance

* Every heap operation of `run_one` over `concreteOps` (`put`, `maybe_put`, global / environment slot
  writes, CLOSURE's and ENTER's environment construction) is `Grows`: it neither overwrites nor creates a
  lambda cell. (`setAt` — a MOV to a `Ptr` destination — would; the verifier rejects it, `Verify.dstOk`,
  and it is not a `HeapStep`.)
* `ExtCodeLaws ext` — the law for the three operations that are parameters of the concrete model
  (`ExtOps`: generic builtins, `eval`'s compiler, VPUSH): they keep the invariant — in particular every
  lambda `eval` compiles **passes the verifier** — and change no existing lambda.
* `gops ext` — `concreteOps ext` with a **guarded callee**: `CodeLaws.callee_closure` / `callee_lambda` say
  that *whatever* CALL / TCALL / ENTER find in `acc` as a closure or a bare lambda is verified *procedure*
  code. That is not a consequence of "every lambda cell verifies": `callee` passes an inline
  `Closure(l, e)` value through whatever `l` is, and the **entry** lambda of an evaluation
  (`PUSHIMM argc0; MOVIMM λ acc; CALL; HALT`) is a heap cell too (`prepare_eval` puts it) — calling it
  would run HALT in the middle of a frame chain. In the real VM no value refers to an entry lambda (only
  `ip` does) and closures are made by CLOSURE from `compile_lambda` output; that is a reachability fact,
  not a heap-shape fact. It is made explicit as the state predicate `CalleeOk s` ("a closure / bare-lambda
  callee designates a lambda cell holding procedure code"), checked by the `bytecode-verifier` stream at
  every executed CALL / TCALL / ENTER; `gcallee` answers `other` (→ `InvalidProcedure`) where it fails, and
  `step_gops` shows `step (gops ext) s = step (concreteOps ext) s` for every `CalleeOk` state.
* `concreteLaws ext ecl : CodeLaws (gops ext)` — every field a theorem.
-/
namespace Marwood.Vm.Concrete
open Marwood Marwood.Vm Marwood.Vm.Verify
open Marwood.Heap (GcState)

/-! ## the modelled heap operations -/

variable {V : VCell → Prop}

theorem val_not_lambda (v : VCell) : ∀ lam, CCell.val v ≠ CCell.lambda lam := by intro lam h; cases h
theorem val_not_cont {P : Cont → Prop} (v : VCell) : ∀ k, CCell.val v = CCell.cont k → P k := by intro k h; cases h
theorem lexEnv_not_lambda (ss : List VCell) : ∀ lam, CCell.lexEnv ss ≠ CCell.lambda lam := by intro lam h; cases h
theorem lexEnv_not_cont {P : Cont → Prop} (ss : List VCell) : ∀ k, CCell.lexEnv ss = CCell.cont k → P k := by
  intro k h; cases h

theorem putNew_grows {h : CHeap} (inv : CInvG V h) (v : VCell) : Grows NoCont h (putNew h v).1 := by
  unfold putNew
  split
  · split
    · exact Grows.refl inv
    · have g := cput_grows (P := NoCont) inv (val_not_lambda v) (val_not_cont v)
      exact g.trans (Grows.of_eq (g.inv inv (fun c hc => hc.elim)) rfl rfl rfl rfl)
  · exact cput_grows inv (val_not_lambda v) (val_not_cont v)

theorem putV_grows {h : CHeap} (inv : CInvG V h) (v : VCell) : Grows NoCont h (putV h v).1 := by
  unfold putV
  split
  · exact Grows.refl inv
  · exact putNew_grows inv v

theorem maybePutV_grows {h : CHeap} (inv : CInvG V h) (v : VCell) : Grows NoCont h (maybePutV h v).1 := by
  unfold maybePutV
  split
  · exact Grows.refl inv
  · exact putNew_grows inv v

theorem envAt_cell {h : CHeap} {e : Nat} {ss : List VCell} (he : envAt h e = some ss) :
    h.cells[e]? = some (CCell.lexEnv ss) := by
  unfold envAt at he
  split at he
  · rename_i ss' heq; cases he; exact heq
  · cases he

theorem envPut_grows {h h' : CHeap} (inv : CInvG V h) {e k : Nat} {v : VCell} (hp : envPut h e k v = some h') :
    Grows NoCont h h' := by
  unfold envPut at hp
  split at hp
  · rename_i ss he
    split at hp
    · cases hp
      refine cwrite_grows inv ?_ (lexEnv_not_lambda _) (lexEnv_not_cont _)
      intro lam hl
      rw [envAt_cell he] at hl; cases hl
    · cases hp
  · cases hp

theorem makeClosure_grows {h h' : CHeap} (inv : CInvG V h) {lam ep bp : Nat} {st : Stack} {c : VCell}
    (hm : makeClosure h lam ep bp st = .ok (h', c)) : Grows NoCont h h' := by
  unfold makeClosure at hm
  split at hm
  · cases hm
  · obtain ⟨slots, _, hm⟩ := bind_inv hm
    cases hm
    have g1 := cput_grows (P := NoCont) inv (lexEnv_not_lambda slots) (lexEnv_not_cont slots)
    have i1 := g1.inv inv (fun c hc => hc.elim)
    exact g1.trans (cput_grows i1 (val_not_lambda _) (val_not_cont _))

theorem makeActivation_grows {h h' : CHeap} (inv : CInvG V h) {lam env bp : Nat} {st : Stack} {e : Nat}
    (hm : makeActivation h lam env bp st = .ok (h', e)) : Grows NoCont h h' := by
  unfold makeActivation at hm
  split at hm
  · cases hm
  · split at hm
    · cases hm
    · obtain ⟨slots, _, hm⟩ := bind_inv hm
      cases hm
      exact cput_grows inv (lexEnv_not_lambda slots) (lexEnv_not_cont slots)

/-! ## the parameters of the concrete model -/

/-- **What the stack discipline needs from the unmodelled operations** (`ExtOps`; a parameter, not an
    axiom): they keep the heap invariant — every lambda cell of the heap they return passes the verifier,
    in particular the lambda `eval` has just compiled — and leave the bytecode of existing lambdas alone. -/
structure ExtCodeLawsG (V : VCell → Prop) (ext : ExtOps) : Prop where
  builtinEval : ∀ {h h' : CHeap} {id : Nat} {args : List VCell} {v : VCell}, CInvG V h →
    ext.builtinEval h id args = .ok (h', v) → CInvG V h' ∧ ∀ l bc, codeC h l = some bc → codeC h' l = some bc
  compileEval : ∀ {h h' : CHeap} {v lam : VCell}, CInvG V h →
    ext.compileEval h v = .ok (h', lam) → CInvG V h' ∧ ∀ l bc, codeC h l = some bc → codeC h' l = some bc
  vectorPush : ∀ {h h' : CHeap} {vec v : VCell}, CInvG V h →
    ext.vectorPush h vec v = .ok h' → CInvG V h' ∧ ∀ l bc, codeC h l = some bc → codeC h' l = some bc

/-- the law over the untyped invariant (continuation snapshots constrained in shape only) -/
abbrev ExtCodeLaws := ExtCodeLawsG (fun _ => True)

/-- the law over the value-typed invariant: the same three clauses, the heap invariant on both sides being
    `CInvG IsValue` (continuation snapshots hold values where the verifier types a value) -/
abbrev ExtCodeLawsV := ExtCodeLawsG IsValue

/-! ## the guarded callee -/

/-- lambda cell `l` holds procedure code (`[VARARG] ENTER … RET`) -/
def procAt (h : CHeap) (l : Nat) : Bool :=
  match lambdaAt h l with
  | some lam => !isEntryCode lam.bc
  | none => false

/-- `callee`, answering `other` for a closure whose lambda is not a lambda cell holding procedure code,
    and for a pointer to a bare lambda that is entry code -/
def gcallee (h : CHeap) (v : VCell) : Callee :=
  match callee h v with
  | .closure lam env => if procAt h lam then .closure lam env else .other
  | .lambda =>
    match v with
    | .ptr p => if procAt h p then .lambda else .other
    | _ => .other
  | c => c

/-- the concrete machine's heap interface with the guarded callee -/
def gops (ext : ExtOps) : HeapOps CHeap := { concreteOps ext with callee := gcallee }

/-- **The state condition under which the guard is invisible**: what CALL / TCALL / ENTER find in `acc`,
    when it is a closure or a bare lambda, designates a lambda cell holding procedure code. -/
def CalleeOk (s : St CHeap) : Prop := gcallee s.heap s.acc = callee s.heap s.acc

theorem verifyLam_entry {bc : List VCell} {t : LamTy} (h : verifyLam bc = some t) : t.entry = isEntryCode bc := by
  unfold verifyLam verify at h
  simp only at h
  cases hi : infer bc (isEntryCode bc) with
  | error e => rw [hi] at h; cases h
  | ok r =>
    obtain ⟨tm, hh⟩ := r
    rw [hi] at h
    simp only at h
    by_cases hc : checkAll bc tm (isEntryCode bc) = true
    · simp only [hc, if_true] at h
      cases h
      rfl
    · have hc' : checkAll bc tm (isEntryCode bc) = false := by simpa using hc
      rw [hc'] at h
      simp only [Bool.false_eq_true, if_false] at h
      split at h
      · rename_i heq; split at heq <;> cases heq
      · cases h

theorem procAt_ty {h : CHeap} (inv : CInvG V h) {l : Nat} (hp : procAt h l = true) :
    ∃ t, tyOf (codeC h) l = some t ∧ t.entry = false := by
  unfold procAt at hp
  cases hl : lambdaAt h l with
  | none => rw [hl] at hp; cases hp
  | some lam =>
    rw [hl] at hp
    have hv := inv.lamVer l lam (lambdaAt_iff.mp hl)
    cases ht : verifyLam lam.bc with
    | none => rw [ht] at hv; cases hv
    | some t =>
      refine ⟨t, ?_, ?_⟩
      · unfold tyOf codeC; rw [hl]; exact ht
      · rw [verifyLam_entry ht]; simpa using hp

theorem callee_cont_cell {h : CHeap} {v : VCell} {c : Cont} (hc : callee h v = .continuation c) :
    ∃ p, v = .ptr p ∧ h.cells[p]? = some (CCell.cont c) := by
  unfold callee at hc
  split at hc
  · rename_i p
    split at hc
    · rename_i cell hcell
      cases cell <;> simp only [calleeOfCell] at hc
      · rename_i w; cases w <;> simp only [calleeOfCell] at hc <;> cases hc
      · cases hc
      · cases hc
      · cases hc
      · cases hc; exact ⟨p, rfl, hcell⟩
    · cases hc
  · cases hc
  · cases hc
  · cases hc

theorem gcallee_closure {h : CHeap} {v : VCell} {lam env : Nat} (hc : gcallee h v = .closure lam env) :
    procAt h lam = true := by
  unfold gcallee at hc
  cases hcal : callee h v with
  | closure l e =>
    simp only [hcal] at hc
    split at hc
    · rename_i hp; cases hc; exact hp
    · cases hc
  | lambda =>
    simp only [hcal] at hc
    split at hc
    · split at hc <;> cases hc
    · cases hc
  | builtin id => simp only [hcal] at hc; cases hc
  | continuation c => simp only [hcal] at hc; cases hc
  | other => simp only [hcal] at hc; cases hc

theorem gcallee_lambda {h : CHeap} {p : Nat} (hc : gcallee h (.ptr p) = .lambda) : procAt h p = true := by
  unfold gcallee at hc
  cases hcal : callee h (.ptr p) with
  | closure l e =>
    simp only [hcal] at hc
    split at hc <;> cases hc
  | lambda =>
    simp only [hcal] at hc
    split at hc
    · assumption
    · cases hc
  | builtin id => simp only [hcal] at hc; cases hc
  | continuation c => simp only [hcal] at hc; cases hc
  | other => simp only [hcal] at hc; cases hc

theorem gcallee_cont {h : CHeap} {v : VCell} {c : Cont} (hc : gcallee h v = .continuation c) :
    callee h v = .continuation c := by
  unfold gcallee at hc
  cases hcal : callee h v with
  | closure l e =>
    simp only [hcal] at hc
    split at hc <;> cases hc
  | lambda =>
    simp only [hcal] at hc
    split at hc
    · split at hc <;> cases hc
    · cases hc
  | builtin id => simp only [hcal] at hc; cases hc
  | continuation c' => simp only [hcal] at hc; exact hc
  | other => simp only [hcal] at hc; cases hc

theorem lambdaInfo_args {h : CHeap} (inv : CInvG V h) {l : Nat} {bc : List VCell} {info : LambdaInfo}
    (hc : codeC h l = some bc) (hi : (lambdaAt h l).map (fun lam => (⟨lam.args.length⟩ : LambdaInfo)) = some info) :
    argNeed bc ≤ info.argc := by
  obtain ⟨lam, h1, h2⟩ := codeC_some hc
  rw [lambdaAt_iff.mpr h1] at hi
  cases hi
  subst h2
  exact inv.lamArgs l lam h1

theorem globPut_grows {h : CHeap} (inv : CInvG V h) (n : Nat) (v : VCell) :
    Grows NoCont h { h with globals := h.globals.setIfInBounds n v } :=
  Grows.of_eq inv rfl rfl rfl rfl

/-! ## the instance -/

/-- **`CodeLaws` for the concrete heap** (guarded callee): every field is a theorem; the hypotheses are the
    ones in the invariant `CInv` (every lambda cell passes the verifier) and `ExtCodeLaws ext`. -/
def concreteLaws (ext : ExtOps) (ecl : ExtCodeLaws ext) : CodeLaws (gops ext) where
  e := 0
  code := codeC
  HInv := CInv
  Val _ := True
  val_imm := fun _ _ => trivial
  put_val := fun _ _ => trivial
  maybePut_val := fun _ _ => trivial
  newCont_val := fun _ _ => trivial
  makeClosure_val := fun _ => trivial
  vectorPush_val := fun _ => trivial
  globGet_val := fun _ _ => trivial
  envGet_val := fun _ _ => trivial
  envGet_val2 := fun _ _ => trivial
  info_code := by
    intro h l bc info hi hc hinfo
    exact lambdaInfo_args hi hc hinfo
  fetch_code := by
    intro h l bc _ hc o
    obtain ⟨lam, h1, h2⟩ := codeC_some hc
    subst h2
    show (match lambdaAt h l with | some lam => lam.bc[o]? | none => none) = lam.bc[o]?
    rw [lambdaAt_iff.mpr h1]
  step_inv := by
    intro h h' hi hs
    cases hs with
    | put v => exact (putV_grows hi v).inv hi (fun c hc => hc.elim)
    | maybePut v => exact (maybePutV_grows hi v).inv hi (fun c hc => hc.elim)
    | globPut n v => exact (globPut_grows hi n v).inv hi (fun c hc => hc.elim)
    | envPut he => exact (envPut_grows hi he).inv hi (fun c hc => hc.elim)
    | makeClosure he => exact (makeClosure_grows hi he).inv hi (fun c hc => hc.elim)
    | makeActivation he => exact (makeActivation_grows hi he).inv hi (fun c hc => hc.elim)
    | vectorPush he => exact (ecl.vectorPush hi he).1
    | builtinEval he => exact (ecl.builtinEval hi he).1
    | compileEval he => exact (ecl.compileEval hi he).1
  step_code := by
    intro h h' l bc hi hs hc
    cases hs with
    | put v => exact (putV_grows hi v).code hc
    | maybePut v => exact (maybePutV_grows hi v).code hc
    | globPut n v => exact (globPut_grows hi n v).code hc
    | envPut he => exact (envPut_grows hi he).code hc
    | makeClosure he => exact (makeClosure_grows hi he).code hc
    | makeActivation he => exact (makeActivation_grows hi he).code hc
    | vectorPush he => exact (ecl.vectorPush hi he).2 l bc hc
    | builtinEval he => exact (ecl.builtinEval hi he).2 l bc hc
    | compileEval he => exact (ecl.compileEval hi he).2 l bc hc
  callee_closure := by
    intro h v lam env hi hc
    exact procAt_ty hi (gcallee_closure hc)
  callee_lambda := by
    intro h lam hi hc
    exact procAt_ty hi (gcallee_lambda hc)
  cont_wf := by
    intro h v c hi hc
    obtain ⟨p, _, hcell⟩ := callee_cont_cell (gcallee_cont hc)
    exact hi.cont p c hcell
  newCont_inv := by
    intro h c K hi hcw
    show CInv (cput h (CCell.cont c)).1
    have g := cput_grows (P := fun k => k = c) hi (c := CCell.cont c) (by intro lam hh; cases hh)
      (by intro k hk; cases hk; rfl)
    exact g.inv hi (fun k hk => by subst hk; exact ⟨K, hcw⟩)
  newCont_code := by
    intro h c l bc hi hc
    show codeC (cput h (CCell.cont c)).1 l = some bc
    have g := cput_grows (P := fun k => k = c) hi (c := CCell.cont c) (by intro lam hh; cases hh)
      (by intro k hk; cases hk; rfl)
    exact g.code hc

end Marwood.Vm.Concrete
