import Marwood.Lemmas.EvalExtraSteps
/-!
# Extra-cell invariance: the first-order primitives that take no fuel from the store size
-/
namespace Marwood.Spec.Eval.Extra
open Marwood Marwood.Spec.Eval

variable {f : LMap}

theorem intArgs_rel {args args' : List Val} (ha : VsRel f args args') : intArgs args' = intArgs args := by
  induction ha with
  | nil => rfl
  | cons hv _ ih => cases hv <;> simp only [intArgs, ih]

theorem sim_boolV (b : Bool) : Sim f (VRel f) (boolV b) (boolV b) := Sim.pure _ _ (.bool b)

theorem sim_listTailWalk : ∀ (k : Nat) {l l' : Val}, VRel f l l' → Sim f (VRel f) (listTailWalk k l) (listTailWalk k l')
  | 0, _, _, hl => Sim.pure _ _ hl
  | k+1, _, _, hl => by
    simp only [listTailWalk]
    refine Sim.bind (sim_readPair hl) (fun p p' hp => ?_)
    exact sim_listTailWalk k hp.2

-- keep the unifier from unfolding the monad operations when a closing lemma does not apply
attribute [local irreducible] M.bind' M.pure'

/-- closes the goals of the numeric primitives once both sides compute on the same integers -/
local macro "sim_leaf" : tactic => `(tactic| (
  repeat' (first
    | exact Sim.throw _
    | exact sim_boolV _
    | (refine Sim.pure _ _ ?_; first | assumption | constructor)
    | split)))

theorem sim_primNum (p : Prim) {args args' : List Val} (ha : VsRel f args args') :
    Sim f (VRel f) (primNum p args) (primNum p args') := by
  have hi := intArgs_rel ha
  cases p
  case zeroP | abs =>
    rcases ha with _ | ⟨h1, _ | ⟨h2, ht⟩⟩
    · simp only [primNum]; sim_leaf
    · cases h1 <;> simp only [primNum] <;> sim_leaf
    · simp only [primNum]; sim_leaf
  all_goals (rcases ha with _ | ⟨h1, _ | ⟨h2, ht⟩⟩ <;> simp only [primNum, hi] <;> sim_leaf)

theorem VRel.beq_nil {v v' : Val} (h : VRel f v v') : (v' == Val.nil) = (v == Val.nil) := by
  cases h <;> rfl

/-- every primitive of the pair group except those that walk a list with store-size fuel -/
def pairNoFuel (p : Prim) : Bool :=
  match p with
  | .length | .append | .reverse | .listP | .memv | .memq | .assv | .assq => false
  | _ => true

set_option hygiene false in
/-- split the shape of both argument lists: 0, 1, 2, 3, ≥ 4 arguments -/
local macro "shapes" : tactic => `(tactic| rcases ha with _ | ⟨h1, _ | ⟨h2, _ | ⟨h3, _ | ⟨h4, ht⟩⟩⟩⟩)

/-- one `readPair` on both sides -/
local macro "sim_rp" : tactic => `(tactic| (
  refine Sim.bind (sim_readPair (by assumption)) ?_
  rintro ⟨_, _⟩ ⟨_, _⟩ ⟨_, _⟩
  dsimp only))

theorem sim_setCar (hf : Inj f) {l : Loc} {v v' : Val} (hv : VRel f v v') :
    Sim f (VRel f) (primPair .setCar [.pair l, v]) (primPair .setCar [.pair (f l), v']) := by
  simp only [primPair]
  refine Sim.bind (sim_readCell rfl) (fun c c' hc => ?_)
  cases hc with
  | pair ha hd => exact Sim.bind (sim_writeCell hf rfl (.pair hv hd)) (fun _ _ _ => Sim.pure _ _ .void)
  | _ => exact Sim.throw _

theorem sim_setCdr (hf : Inj f) {l : Loc} {v v' : Val} (hv : VRel f v v') :
    Sim f (VRel f) (primPair .setCdr [.pair l, v]) (primPair .setCdr [.pair (f l), v']) := by
  simp only [primPair]
  refine Sim.bind (sim_readCell rfl) (fun c c' hc => ?_)
  cases hc with
  | pair ha hd => exact Sim.bind (sim_writeCell hf rfl (.pair ha hv)) (fun _ _ _ => Sim.pure _ _ .void)
  | _ => exact Sim.throw _

theorem sim_primPair (hf : Inj f) (p : Prim) (hp : pairNoFuel p = true) {args args' : List Val} (ha : VsRel f args args') :
    Sim f (VRel f) (primPair p args) (primPair p args') := by
  cases p
  case length | append | reverse | listP | memv | memq | assv | assq => cases hp
  case list => simp only [primPair]; exact sim_allocList ha
  case car | cdr =>
    shapes <;> simp only [primPair] <;> first | exact Sim.throw _ | skip
    sim_rp; exact Sim.pure _ _ (by assumption)
  case cadr | cddr | caar | cdar =>
    shapes <;> simp only [primPair] <;> first | exact Sim.throw _ | skip
    sim_rp; sim_rp; exact Sim.pure _ _ (by assumption)
  case cons =>
    shapes <;> simp only [primPair] <;> first | exact Sim.throw _ | skip
    exact sim_cons h1 h2
  case nullP =>
    shapes <;> simp only [primPair] <;> first | exact Sim.throw _ | skip
    rw [h1.beq_nil]; exact sim_boolV _
  case pairP =>
    shapes <;> simp only [primPair] <;> first | exact Sim.throw _ | skip
    cases h1 <;> exact sim_boolV _
  case setCar =>
    shapes
    case cons.cons.nil => cases h1 <;> first | exact sim_setCar hf h2 | (simp only [primPair]; exact Sim.throw _)
    all_goals (simp only [primPair]; exact Sim.throw _)
  case setCdr =>
    shapes
    case cons.cons.nil => cases h1 <;> first | exact sim_setCdr hf h2 | (simp only [primPair]; exact Sim.throw _)
    all_goals (simp only [primPair]; exact Sim.throw _)
  case listTail =>
    shapes
    case cons.cons.nil =>
      cases h2 <;> simp only [primPair] <;> first | exact Sim.throw _ | skip
      split
      · exact Sim.throw _
      · exact sim_listTailWalk _ h1
    all_goals (simp only [primPair]; exact Sim.throw _)
  all_goals (simp only [primPair]; exact Sim.throw _)

set_option hygiene false in
/-- one `readVec` on both sides -/
local macro "sim_rv" : tactic => `(tactic| (
  refine Sim.bind (sim_readVec (by assumption)) ?_
  rintro ⟨l, xs⟩ ⟨l', xs'⟩ ⟨hl, hx⟩
  dsimp only at hl hx ⊢))

theorem sim_primVec (hf : Inj f) (p : Prim) (hp : p ≠ .listToVector) {args args' : List Val} (ha : VsRel f args args') :
    Sim f (VRel f) (primVec p args) (primVec p args') := by
  cases p
  case listToVector => exact absurd rfl hp
  case vector => simp only [primVec]; exact sim_allocVec ha
  case makeVector =>
    shapes
    case cons.cons.nil =>
      cases h1 <;> simp only [primVec] <;> first | exact Sim.throw _ | skip
      split
      · exact Sim.throw _
      · exact sim_allocVec (VsRel.replicate _ h2)
    all_goals (simp only [primVec]; exact Sim.throw _)
  case vectorRef =>
    shapes
    case cons.cons.nil =>
      cases h2 <;> simp only [primVec] <;> first | exact Sim.throw _ | skip
      rename_i i
      sim_rv
      split
      · exact Sim.throw _
      · have hg := hx.getElem? i.toNat
        revert hg
        generalize xs[i.toNat]? = o
        generalize xs'[i.toNat]? = o'
        intro hg
        cases o <;> cases o' <;> simp only at hg <;> first | exact Sim.throw _ | exact Sim.pure _ _ hg | exact hg.elim
    all_goals (simp only [primVec]; exact Sim.throw _)
  case vectorSet =>
    shapes
    case cons.cons.cons.nil =>
      cases h2 <;> simp only [primVec] <;> first | exact Sim.throw _ | skip
      sim_rv
      rw [hx.length_eq]
      split
      · exact Sim.throw _
      · exact Sim.bind (sim_writeCell hf hl (.vec (hx.set _ h3))) (fun _ _ _ => Sim.pure _ _ .void)
    all_goals (simp only [primVec]; exact Sim.throw _)
  case vectorLength =>
    shapes <;> simp only [primVec] <;> first | exact Sim.throw _ | skip
    sim_rv
    rw [hx.length_eq]; exact Sim.pure _ _ (.int _)
  case vectorToList =>
    shapes <;> simp only [primVec] <;> first | exact Sim.throw _ | skip
    sim_rv
    exact sim_allocList hx
  all_goals (simp only [primVec]; exact Sim.throw _)

theorem sim_primPred (hf : Inj f) (p : Prim) (hp : p ≠ .equalP) {args args' : List Val} (ha : VsRel f args args') :
    Sim f (VRel f) (primPred p args) (primPred p args') := by
  cases p
  case equalP => exact absurd rfl hp
  case eqP | eqvP =>
    shapes <;> simp only [primPred] <;> first | exact Sim.throw _ | skip
    rw [VRel.eqv hf h1 h2]; exact sim_boolV _
  case not =>
    shapes <;> simp only [primPred] <;> first | exact Sim.throw _ | skip
    rw [h1.truthy]; exact sim_boolV _
  case vectorP | symbolP | stringP | charP | integerP | numberP | booleanP | procedureP =>
    shapes <;> simp only [primPred] <;> first | exact Sim.throw _ | skip
    cases h1 <;> exact sim_boolV _
  case stringLength | charToInteger =>
    shapes
    case cons.nil =>
      cases h1 <;> simp only [primPred] <;> first | exact Sim.throw _ | exact Sim.pure _ _ (.int _)
    all_goals (simp only [primPred]; exact Sim.throw _)
  case stringEq | charEq =>
    shapes
    case cons.cons.nil =>
      cases h1 <;> cases h2 <;> simp only [primPred] <;> first | exact Sim.throw _ | exact sim_boolV _
    all_goals (simp only [primPred]; exact Sim.throw _)
  all_goals (simp only [primPred]; exact Sim.throw _)

theorem sim_primMisc_error {args args' : List Val} : Sim f (VRel f) (primMisc .error args) (primMisc .error args') := by
  simp only [primMisc]; exact Sim.throw _
end Marwood.Spec.Eval.Extra
