import Marwood.Lemmas.GoodDefs
/-!
# `Safe` as an invariant: a collection preserves `GoodI`

`cgc force s` runs the C03 collector model on the erasure and copies the result back (`liftGc`): T03.3
(`runGc_wf`) gives `WFHeap`, T03.2 (`runGc_spec`) says the cells reachable from the roots keep their content
and stay allocated and every other cell is free (hence `Undefined`); registers are untouched (`cgc_regs`).
-/
namespace Marwood.Lemmas.Good
open Marwood Marwood.Vm Marwood.Vm.Concrete Marwood.Lemmas.Sim
open Marwood.Heap (GcState WFHeap RootsOk vrefs vrefsList crefs)
open Marwood.Lemmas.GcSafety Marwood.Lemmas.HeapWF Marwood.Lemmas.GcMark Marwood.Spec

/-- a cell of the copied-back heap -/
theorem liftGc_cells_get (h : CHeap) (h' : Heap.Heap) (i : Nat) :
    (liftGc h h').cells[i]? =
      if i < h'.cells.size then
        some (if h'.gc[i]? = some GcState.free then CCell.val .undefined
              else (h.cells[i]?).getD (CCell.val .undefined))
      else none := by
  simp only [liftGc]
  rw [Array.getElem?_ofFn]
  split <;> rfl

/-- what the collection leaves: the facts about `liftGc s.heap h'` the invariant is read from -/
structure Lifted (s : St CHeap) (h' : Heap.Heap) : Prop where
  /-- a cell of the new heap is `Undefined` or a reachable cell of the old heap, unchanged -/
  cell : ∀ i c, (liftGc s.heap h').cells[i]? = some c → c = CCell.val .undefined ∨
    (Reachable true (toHeap s.heap) ((rootsOf s).refs true) i ∧ s.heap.cells[i]? = some c)
  /-- a reachable cell is kept -/
  keep : ∀ i, Reachable true (toHeap s.heap) ((rootsOf s).refs true) i →
    (liftGc s.heap h').cells[i]? = s.heap.cells[i]? ∧ h'.gc[i]? = some GcState.allocated
  erase : toHeap (liftGc s.heap h') = h'

theorem lifted {s : St CHeap} {h' : Heap.Heap} (wf : WFHeap true (toHeap s.heap)) (wf' : WFHeap true h')
    (gs : GcSpec true (toHeap s.heap) ((rootsOf s).refs true) h') : Lifted s h' := by
  have hsize : (toHeap s.heap).gc.size = s.heap.cells.size := by
    rw [wf.sizes]; simp [toHeap]
  have hle : s.heap.cells.size ≤ h'.cells.size := by
    have := gs.size_le; simpa [toHeap] using this
  -- a non-free cell of `h'` is reachable
  have hreach : ∀ i, i < h'.cells.size → h'.gc[i]? ≠ some GcState.free →
      Reachable true (toHeap s.heap) ((rootsOf s).refs true) i := by
    intro i hi hnf
    apply Classical.byContradiction
    intro hn
    exact hnf (gs.gc_unreach i hi hn)
  have hkeep : ∀ i, Reachable true (toHeap s.heap) ((rootsOf s).refs true) i →
      (liftGc s.heap h').cells[i]? = s.heap.cells[i]? ∧ h'.gc[i]? = some GcState.allocated := by
    intro i di
    have hga := gs.gc_reach i di
    have hlt : i < s.heap.cells.size := by rw [← hsize]; exact reach_lt _ di
    have hlt' : i < h'.cells.size := by omega
    refine ⟨?_, hga⟩
    rw [liftGc_cells_get]
    simp [hlt', hga, hlt]
  refine ⟨?_, hkeep, ?_⟩
  · intro i c hc
    rw [liftGc_cells_get] at hc
    split at hc
    · rename_i hi
      simp only [Option.some.injEq] at hc
      split at hc
      · exact .inl hc.symm
      · rename_i hnf
        have di := hreach i hi hnf
        have hlt : i < s.heap.cells.size := by rw [← hsize]; exact reach_lt _ di
        refine .inr ⟨di, ?_⟩
        rw [← hc]
        simp [hlt]
    · cases hc
  · have hcells : (toHeap (liftGc s.heap h')).cells = h'.cells := by
      apply Array.ext_getElem?
      intro i
      rw [toHeap_cells_get, liftGc_cells_get]
      by_cases hi : i < h'.cells.size
      · simp only [hi, if_true, Option.map_some]
        by_cases hf : h'.gc[i]? = some GcState.free
        · simp only [hf, if_true]
          rw [wf'.free_undef i hf]
          rfl
        · simp only [hf, if_false]
          have di := hreach i hi hf
          have hlt : i < s.heap.cells.size := by rw [← hsize]; exact reach_lt _ di
          rw [gs.cells_reach i di, toHeap_cells_get]
          simp [hlt]
      · simp only [hi, if_false, Option.map_none]
        exact (Array.getElem?_eq_none (by omega)).symm
    have hchunk : (toHeap (liftGc s.heap h')).chunk = h'.chunk := by
      rw [gs.chunk]; rfl
    have hgc : (toHeap (liftGc s.heap h')).gc = h'.gc := rfl
    have hfree : (toHeap (liftGc s.heap h')).free = h'.free := rfl
    have hsym : (toHeap (liftGc s.heap h')).symtab = h'.symtab := rfl
    generalize toHeap (liftGc s.heap h') = x at *
    cases x; cases h'
    simp only at hcells hchunk hgc hfree hsym
    subst hcells hchunk hgc hfree hsym
    rfl

theorem good_gc (force : Bool) {s : St CHeap} (g : GoodI s) (sm : Small (cgc force s).heap) :
    GoodI (cgc force s) := by
  unfold cgc at sm ⊢
  cases hrun : Heap.Heap.runGc true force (toHeap s.heap) (rootsOf s) with
  | error e => simpa [hrun] using g
  | ok res =>
    cases res with
    | skipped _ => simpa [hrun] using g
    | fuelExhausted => simpa [hrun] using g
    | collected h' =>
      simp only [hrun] at sm ⊢
      have wf := g.hg.wf
      have hb' : h'.cells.size ≤ 2 ^ 63 := by
        have : 2 * h'.cells.size ≤ 2 ^ 63 := by simpa [Small, liftGc] using sm
        omega
      have wf' := runGc_wf true force _ _ h' wf g.roots hb' hrun
      have gs := runGc_spec true force _ _ h' wf.sizes wf.no_used wf.shape hrun
      have L := lifted wf wf' gs
      have hsize : (toHeap s.heap).gc.size = s.heap.cells.size := by
        rw [wf.sizes]; simp [toHeap]
      refine ⟨⟨?_, ?_, ?_, ?_⟩, ?_, g.accv⟩
      · show WFHeap true (toHeap (liftGc s.heap h'))
        rw [L.erase]; exact wf'
      · -- Plain
        refine ⟨?_, g.hg.plain.globals, ?_⟩
        · intro i v hc
          rcases L.cell i _ hc with e | ⟨_, e⟩
          · cases e; rfl
          · exact g.hg.plain.cells i v e
        · intro i c hc
          rcases L.cell i _ hc with e | ⟨_, e⟩
          · cases e
          · exact g.hg.plain.conts i c e
      · -- LamAll
        intro i l hc
        rcases L.cell i _ hc with e | ⟨_, e⟩
        · cases e
        · exact g.hg.lam i l e
      · -- EnvOk
        intro i ss hc v hv
        rcases L.cell i _ hc with e | ⟨di, e⟩
        · cases e
        · rcases g.hg.env i ss e v hv with hp | ⟨e', k, ss', w, rfl, he, hk, hw⟩
          · exact .inl hp
          · refine .inr ⟨e', k, ss', w, rfl, ?_, hk, hw⟩
            have hlt : e' < (toHeap s.heap).gc.size := by
              rw [hsize]; exact lt_of_get_some he
            have de : Reachable true (toHeap s.heap) ((rootsOf s).refs true) e' := by
              refine Reach.step di ?_ hlt
              rw [toHeap_children, e]
              simp only [eraseC, crefs]
              exact vrefsList_mem_iff.mpr ⟨_, hv, by simp [eraseV, vrefs]⟩
            show (liftGc s.heap h').cells[e']? = _
            rw [(L.keep e' de).1]; exact he
      · -- RootsOk
        show RootsOk (toHeap (liftGc s.heap h')) ((rootsOf { s with heap := liftGc s.heap h' }).refs true)
        rw [L.erase]
        have hroots : rootsOf { s with heap := liftGc s.heap h' } = rootsOf s := rfl
        rw [hroots]
        intro y hy
        rcases g.roots y hy with hn | hs
        · have hlt : y < (toHeap s.heap).gc.size := by
            rcases hn with hn | hn <;> exact lt_of_get_some hn
          exact .inl (.inl (gs.gc_reach y (Reach.root hy hlt)))
        · exact .inr hs

end Marwood.Lemmas.Good
