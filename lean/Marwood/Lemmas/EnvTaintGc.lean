import Marwood.Lemmas.EnvTaintOps
/-!
# "No value leads to a capturing lambda" across `run_gc`

The shape of `Lemmas/ProcInvGc.lean`. The collector moves nothing: a cell of the collected heap is `Undefined` or the
cell it was (`liftGc_code`). So no capturing lambda appears (`EShr`) and every clause survives: all of them *forbid* a
pointer (there is no demand on the lambda of a closure cell here). For the `atSiteB` alternative of `TInv` the code
object under `ip.0` is a root, hence the same cell afterwards (`liftGc_reach`).
-/
namespace Marwood.Lemmas.Taint
open Marwood.Lemmas.Good Marwood Marwood.Vm Marwood.Vm.Verify Marwood.Vm.Concrete Marwood.Lemmas.Sim Marwood.Spec
open Marwood.Heap (GcState vrefs vrefsList crefs Roots)
open Marwood.Lemmas.GcSafety

theorem immTF_mono {E E' : Nat → Bool} (hE : ∀ q, E' q = true → E q = true) {bc : List VCell}
    (h : immTF E bc = true) : immTF E' bc = true := by
  unfold immTF at h ⊢
  rw [List.all_eq_true] at h ⊢
  intro j hj
  have := h j hj
  cases h0 : bc[j]? with
  | none => rfl
  | some c =>
    rw [h0] at this
    cases c <;> try rfl
    rename_i op
    cases op <;> try rfl
    all_goals
      cases h1 : bc[j + 1]? with
      | none => rfl
      | some v =>
        simp only [h1] at this ⊢
        first
          | exact neF_mono hE this
          | (rw [Bool.or_eq_true] at this ⊢
             exact this.imp (neF_mono hE) id)

/-- a cell content stays acceptable when no capturing lambda appears -/
theorem cellEB_shr {h h' : CHeap} (es : EShr h h') {c : CCell} (hc : cellEB h c = true) : cellEB h' c = true := by
  cases c with
  | val v =>
    cases v <;> first | rfl | skip
    · rename_i a d
      have hc' : (!capAt h a && !capAt h d) = true := hc
      show (!capAt h' a && !capAt h' d) = true
      simp only [Bool.and_eq_true, Bool.not_eq_true'] at hc' ⊢
      refine ⟨?_, ?_⟩
      · cases he : capAt h' a with
        | false => rfl
        | true => rw [es a he] at hc'; cases hc'.1
      · cases he : capAt h' d with
        | false => rfl
        | true => rw [es d he] at hc'; cases hc'.2
    · rename_i q
      exact es.neE (v := .ptr q) hc
  | lexEnv ss => exact all_neF_mono es hc
  | vector ss => exact all_neF_mono es hc
  | lambda l => exact immTF_mono es hc
  | cont k => exact all_neF_mono es hc

/-- the collector keeps the code object under `ip.0` -/
theorem cgc_ipL (force : Bool) {s : St CHeap} (ci : CInvG IsValue s.heap) {l : CLambda}
    (hl : lambdaAt s.heap s.ipL = some l) : lambdaAt (cgc force s).heap s.ipL = some l := by
  rcases cgc_cases force s with e | ⟨h', hrun, e⟩
  · rw [e]; exact hl
  · rw [e]
    have co := collected_of_run ci hrun
    have hcl := lambdaAt_iff.mp hl
    have hl1 : s.ipL < (toHeap s.heap).gc.size := by
      have := lt_of_getElem? hcl
      show s.ipL < s.heap.gc.size
      rw [ci.sizes]; exact this
    have hr : Reachable true (toHeap s.heap) ((rootsOf s).refs true) s.ipL :=
      Reach.root (by simp [Roots.refs, rootsOf]) hl1
    have := liftGc_reach ci co hr
    rw [hcl] at this
    exact lambdaAt_iff.mpr this

theorem cgc_eshr (force : Bool) {s : St CHeap} : EShr s.heap (cgc force s).heap := by
  rcases cgc_cases force s with e | ⟨h', _, e⟩
  · rw [e]; exact .refl _
  · rw [e]
    intro q hq
    show capAt s.heap q = true
    have hq' : capAt (liftGc s.heap h') q = true := hq
    unfold capAt at hq' ⊢
    cases hl : lambdaAt (liftGc s.heap h') q with
    | none => rw [hl] at hq'; cases hq'
    | some lam =>
      rw [hl] at hq'
      obtain ⟨hold, _, _⟩ := liftGc_code (lambdaAt_iff.mp hl) (by intro hh; cases hh)
      rw [lambdaAt_iff.mpr hold]; exact hq'

/-- the heap clauses across a collection -/
theorem hp_gc (force : Bool) {s : St CHeap} (ci : CInvG IsValue s.heap) (hp : HP s.heap) : HP (cgc force s).heap := by
  have es := cgc_eshr force (s := s)
  rcases cgc_cases force s with e | ⟨h', hrun, e⟩
  · rw [e]; exact hp
  · rw [e] at es ⊢
    have co := collected_of_run ci hrun
    refine ⟨?_, ?_, ?_⟩
    · intro i c hc
      by_cases hu : c = CCell.val .undefined
      · subst hu; rfl
      · obtain ⟨hold, _, _⟩ := liftGc_code hc hu
        exact cellEB_shr es (hp.cells i c hold)
    · intro n v hv
      exact es.neE (hp.globals n v hv)
    · intro name q hl
      have hl' : h'.symLookup name = some q := hl
      rw [co.gs.sym name] at hl'
      split at hl'
      · cases hl'
      · have := hp.sym name q hl'
        cases he : capAt (liftGc s.heap h') q with
        | false => rfl
        | true => rw [es q he] at this; cases this

theorem cgc_fields (force : Bool) (s : St CHeap) :
    (cgc force s).acc = s.acc ∧ (cgc force s).stack = s.stack ∧ (cgc force s).ipL = s.ipL ∧
      (cgc force s).ipO = s.ipO := by
  rcases cgc_cases force s with e | ⟨h', _, e⟩ <;> (rw [e]; exact ⟨rfl, rfl, rfl, rfl⟩)

/-- **the collector preserves the clauses** (`acc` unconstrained form) -/
theorem pinv_gc (force : Bool) {s : St CHeap} (ci : CInvG IsValue s.heap) (p : PInv s) : PInv (cgc force s) := by
  obtain ⟨e1, e2, _, _⟩ := cgc_fields force s
  have es := cgc_eshr force (s := s)
  refine ⟨hp_gc force ci p.hp, by rw [e1]; exact es.neE p.acc, ?_⟩
  intro i v hi hv
  rw [e2] at hi hv
  exact es.neE (p.stk i v hi hv)

/-- **the collector preserves the state invariant** (`_g` is not needed: the code object under `ip.0` is a root) -/
theorem tinv_gc (force : Bool) {s : St CHeap} (_g : GoodI s) (ci : CInvG IsValue s.heap) (p : TInv s) :
    TInv (cgc force s) := by
  obtain ⟨e1, e2, e3, e4⟩ := cgc_fields force s
  have es := cgc_eshr force (s := s)
  refine ⟨hp_gc force ci p.hp, ?_, ?_⟩
  · rcases p.acc with h | h
    · exact .inl (by rw [e1]; exact es.neE h)
    · obtain ⟨l, j, k1, k2, k3, k4, k5, k6⟩ := atSiteB_inv h
      refine .inr (atSiteB_intro (l := l) (j := j) ?_ (by rw [e4]; exact k2) ?_ (by rw [e1]; exact k4))
      · rw [e3]; exact cgc_ipL force ci k1
      · unfold siteB; simp [k3, k5, k6]
  · intro i v hi hv
    rw [e2] at hi hv
    exact es.neE (p.stk i v hi hv)

end Marwood.Lemmas.Taint
