import Marwood.Lemmas.TransformEllDefs
/-!
# Pure facts about the specification's bindings: keys, `projS`, `collect`
-/
namespace Marwood.Transform
open Marwood Marwood.Spec.Match

theorem proj_append (k : Datum) (a b : Bindings) : proj k (a ++ b) = proj k a ++ proj k b := by
  induction a with
  | nil => rfl
  | cons x xs ih =>
    obtain ⟨k', v⟩ := x
    simp only [List.cons_append, proj, ih]
    split <;> simp

theorem projS_append (x : Text) (a b : Binds) : projS x (a ++ b) = projS x a ++ projS x b := by
  induction a with
  | nil => rfl
  | cons y ys ih =>
    obtain ⟨k', t⟩ := y
    simp only [List.cons_append, projS, ih]
    split <;> simp

theorem projS_of_not_mem (x : Text) (bs : Binds) (h : x ∉ bs.map Prod.fst) : projS x bs = [] := by
  induction bs with
  | nil => rfl
  | cons b bs ih =>
    obtain ⟨y, t⟩ := b
    simp only [List.map_cons, List.mem_cons, not_or] at h
    have : ¬ y = x := fun e => h.1 e.symm
    simp [projS, this, ih h.2]

/-- with distinct keys, `projS` is the leaves of the looked-up tree -/
theorem projS_lookup (x : Text) (bs : Binds) (hn : (bs.map Prod.fst).Nodup) (t : MTree)
    (h : bs.lookup x = some t) : projS x bs = leaves t := by
  induction bs with
  | nil => simp [List.lookup] at h
  | cons b bs ih =>
    obtain ⟨y, t'⟩ := b
    simp only [List.map_cons, List.nodup_cons] at hn
    by_cases hxy : x = y
    · subst hxy
      simp only [List.lookup, beq_self_eq_true] at h
      cases h
      simp [projS, projS_of_not_mem x bs hn.1]
    · have hb : (x == y) = false := by simp [beq_text, hxy]
      simp only [List.lookup, hb] at h
      have : ¬ y = x := fun e => hxy e.symm
      simp [projS, this, ih hn.2 h]

theorem lookup_some_of_mem_keys (x : Text) (bs : Binds) (h : x ∈ bs.map Prod.fst) :
    ∃ t, bs.lookup x = some t := by
  induction bs with
  | nil => simp at h
  | cons b bs ih =>
    obtain ⟨y, t'⟩ := b
    by_cases hxy : x = y
    · subst hxy; exact ⟨t', by simp [List.lookup]⟩
    · have hb : (x == y) = false := by simp [beq_text, hxy]
      simp only [List.map_cons, List.mem_cons, hxy, false_or] at h
      obtain ⟨t, ht⟩ := ih h
      exact ⟨t, by simp [List.lookup, hb, ht]⟩

theorem lookup_mem (x : Text) (bs : Binds) (t : MTree) (h : bs.lookup x = some t) : (x, t) ∈ bs := by
  induction bs with
  | nil => simp [List.lookup] at h
  | cons b bs ih =>
    obtain ⟨y, t'⟩ := b
    by_cases hxy : x = y
    · subst hxy
      simp only [List.lookup, beq_self_eq_true] at h
      cases h; simp
    · have hb : (x == y) = false := by simp [beq_text, hxy]
      simp only [List.lookup, hb] at h
      exact List.mem_cons_of_mem _ (ih h)

theorem leavesL_eq_flatMap (ts : List MTree) : leaves.leavesL ts = ts.flatMap leaves := by
  induction ts with
  | nil => rfl
  | cons t ts ih => simp [leaves.leavesL, ih]

/-- one key of `collect` -/
theorem projS_collect_one (x : Text) (bsl : List Binds)
    (hk : ∀ b ∈ bsl, (b.map Prod.fst).Nodup) :
    leaves (.many (bsl.filterMap fun b => b.lookup x)) = bsl.flatMap (projS x) := by
  simp only [leaves, leavesL_eq_flatMap]
  induction bsl with
  | nil => rfl
  | cons b bsl ih =>
    have ih' := ih (fun b' hb' => hk b' (List.mem_cons_of_mem _ hb'))
    simp only [List.filterMap_cons, List.flatMap_cons]
    cases hb : b.lookup x with
    | none =>
      simp only
      have : x ∉ b.map Prod.fst := by
        intro hm
        obtain ⟨t, ht⟩ := lookup_some_of_mem_keys x b hm
        rw [hb] at ht; cases ht
      rw [projS_of_not_mem x b this, ih']; rfl
    | some t =>
      simp only [List.flatMap_cons]
      rw [projS_lookup x b (hk b (by simp)) t hb, ih']

/-- `projS` through `collect`: the items of all iterations, in order -/
theorem projS_collect (x : Text) (vars : List Text) (bsl : List Binds) (hv : vars.Nodup)
    (hk : ∀ b ∈ bsl, b.map Prod.fst = vars) :
    projS x (collect vars bsl) = bsl.flatMap (projS x) := by
  have hkn : ∀ b ∈ bsl, (b.map Prod.fst).Nodup := fun b hb => by rw [hk b hb]; exact hv
  have key : ∀ (vs : List Text), vs.Nodup →
      projS x (vs.map fun v => (v, MTree.many (bsl.filterMap fun b => b.lookup v)))
        = if x ∈ vs then bsl.flatMap (projS x) else [] := by
    intro vs
    induction vs with
    | nil => intro _; rfl
    | cons v vs ih =>
      intro hn
      simp only [List.nodup_cons] at hn
      simp only [List.map_cons, projS, ih hn.2]
      by_cases hvx : v = x
      · subst hvx
        simp only [if_true, List.mem_cons, true_or, hn.1, if_false, List.append_nil]
        exact projS_collect_one v bsl hkn
      · have : ¬ x = v := fun e => hvx e.symm
        simp [hvx, this]
  simp only [collect]
  rw [key vars hv]
  by_cases hx : x ∈ vars
  · simp [hx]
  · simp only [hx, if_false]
    symm
    rw [List.flatMap_eq_nil_iff]
    intro b hb
    exact projS_of_not_mem x b (by rw [hk b hb]; exact hx)

theorem collect_keys (vars : List Text) (bsl : List Binds) : (collect vars bsl).map Prod.fst = vars := by
  simp [collect, Function.comp_def]

theorem mapM_some_mem {α β : Type} (g : α → Option β) : ∀ (xs : List α) (ys : List β),
    xs.mapM g = some ys → ∀ y ∈ ys, ∃ x ∈ xs, g x = some y := by
  intro xs
  induction xs with
  | nil => intro ys h y hy; simp at h; subst h; cases hy
  | cons x xs ih =>
    intro ys h y hy
    simp only [List.mapM_cons] at h
    cases hx : g x with
    | none => simp [hx] at h
    | some y0 =>
      cases hxs : xs.mapM g with
      | none => simp [hx, hxs] at h
      | some ys0 =>
        simp [hx, hxs] at h
        subst h
        simp only [List.mem_cons] at hy
        rcases hy with rfl | hy
        · exact ⟨x, by simp, hx⟩
        · obtain ⟨x', hx', hg⟩ := ih ys0 hxs y hy
          exact ⟨x', List.mem_cons_of_mem _ hx', hg⟩

theorem mapM_cons_some {α β : Type} (g : α → Option β) (x : α) (xs : List α) (y : β) (ys : List β)
    (hx : g x = some y) (hxs : xs.mapM g = some ys) : (x :: xs).mapM g = some (y :: ys) := by
  simp [List.mapM_cons, hx, hxs]

theorem patVars_ellD (c : Ctx) (q : Datum) (hq : c.isEllD q = true) : patVars c q = [] := by
  cases q <;> simp [Ctx.isEllD] at hq <;> simp [patVars, Ctx.isVar, hq]

/-- the keys of a match are the pattern variables, in order (any pattern) -/
theorem specMatch_keys (c : Ctx) (P E : Datum) : ∀ (bs : Binds),
    specMatch c P E = some bs → bs.map Prod.fst = patVars c P := by
  fun_induction specMatch c P E <;> intro bs h <;> simp_all [patVars, Ctx.isVar]
  · subst h; exact ⟨_, rfl⟩
  · subst h
    have := patVars_ellD c _ ‹c.isEllD _ = true›
    simp [collect_keys, this, *]
  · subst h; simp [*]
  · subst h; simp [*]

end Marwood.Transform
