import Marwood.Lemmas.CompileCorrect3ErrMain
/-!
# T01.3 stage 3, ERROR case — bodies

A failing body: the failure is in one of its expressions (as stage 2), in the initialiser of an internal definition
`(define x e)` (nothing is stored), or after a definition (the initialiser succeeds, the value is stored, the rest
fails). A body that starts with a block of `lambda`-initialised definitions (`F3B.block`) fails in the rest after
the block — the initialisers are `lambda` expressions, which never fail, and the assignment of a variable that is
there never fails: `BlockErr3`, the error-side twin of `block3_ok` (`CompileCorrect3Rec.lean`).
-/
namespace Marwood.Lemmas.CompileCorrect3
open Marwood Marwood.Vm Marwood.Lemmas.CompileCorrect Marwood.Lemmas.CompileCorrect2
open Marwood.Spec.Eval (Val Prim Cell Env ErrClass evalN evalStep applyStep evalArgs properList quoteVal kwOf insertG
  k_quote k_if_ k_setBang k_define k_lambda)

variable {H : Type} {ops : HeapOps H} {D : RepData2 ops}

/-- the statement of `block3_ok` for a failing body: the block runs (to a `Run3`), the rest of the body fails -/
def BlockErr3 (D : RepData2 ops) (n : Nat) : Prop :=
  ∀ (f : Nat) (cst cst' : CState) (c : Ctx) (base : Nat) (bodyD : Datum) (code : List BC) (ρ : Env)
    (us : Text → Prop) (ints Bs : List Text) (body : List Datum),
    Bs ≠ [] → F3K D.setG f c (bound ρ) us Bs Bs ints bodyD → CtxOK c →
    compileBody f cst c base bodyD = .ok (cst', code) → cst'.lambdas <+: D.final →
    properList bodyD = some body →
    ∀ (σ σ' : SSt) (cl : ErrClass), Spec.Eval.evalBodyForms (evalN n) ρ true body σ = .err cl σ' →
    ∀ (W : World) (s : MSt H), CodeAt2 D c.envmap s.heap σ.store s.ipL base code → s.ipO = base →
      Inv3 D W s.heap σ → EnvRep3 ops W s.heap c s.ep ρ us → SWF s.stack →
    ∃ (s1 : MSt H) (σ1 : SSt) (f1 : Nat) (cst1 : CState) (restD : Datum) (rest : List Datum) (code1 code2 : List BC)
      (ints1 : List Text),
      Run3 D W s code1.length σ σ1 .void s1 ∧ EnvRep3 ops W s1.heap c s1.ep ρ (fun z => us z ∧ z ∉ Bs) ∧
      code = code1 ++ code2 ∧ compileBody f1 cst1 c (base + code1.length) restD = .ok (cst', code2) ∧
      F3B D.setG f1 c (bound ρ) (fun z => us z ∧ z ∉ Bs) ints1 restD ∧ properList restD = some rest ∧
      rest.length < body.length ∧ Spec.Eval.evalBodyForms (evalN n) ρ true rest σ1 = .err cl σ'

theorem F3K_ints_ne' {G : Text → Prop} {f : Nat} {c : Ctx} {ns us : Text → Prop} {Bs todo ints : List Text}
    {bodyD : Datum} (hne : todo ≠ []) (hK : F3K G f c ns us Bs todo ints bodyD) : ints ≠ [] := by
  cases hK with
  | defl => intro h; cases h
  | defc => intro h; cases h
  | done => exact absurd rfl hne

/-- bodies: the failure is inside the activation whose frame is `fr` -/
theorem bodyErr3 (L : Laws3 D) {n : Nat} (ih : ExprOK3 D n) (ihe : ExprErr3NT D n) (ihet : ExprErr3 D n)
    (hblk : BlockErr3 D n) :
    ∀ (N : Nat) (body : List Datum), body.length ≤ N →
    ∀ f cst c base bodyD cst' code (ρ : Env) (us : Text → Prop) (ints : List Text) (d : Bool),
    F3B D.setG f c (bound ρ) us ints bodyD → CtxOK c →
    compileBody f cst c base bodyD = .ok (cst', code) → cst'.lambdas <+: D.final →
    properList bodyD = some body → (ints ≠ [] → d = true) →
    ∀ (σ : SSt) cl (σ' : SSt), Spec.Eval.evalBodyForms (evalN n) ρ d body σ = .err cl σ' → cl ≠ .syntax →
    ∀ (W : World) (s : MSt H) (fr : Frame), CodeAt2 D c.envmap s.heap σ.store s.ipL base code → s.ipO = base →
      Inv3 D W s.heap σ → EnvRep3 ops W s.heap c s.ep ρ us → SWF s.stack → FrameAt s.stack s.bp fr →
    ∃ W' sf e', W.le W' ∧ ErrRun3 D W' s fr.st0 σ σ' cl sf e' := by
  intro N
  induction N with
  | zero =>
    intro body hN f cst c base bodyD cst' code ρ us ints d hfb hcx hcomp hpre hpl
    have : body = [] := List.length_eq_zero_iff.mp (by omega)
    exact absurd this (F3B_nonempty hfb hpl)
  | succ N ihN =>
    intro body hN f cst c base bodyD cst' code ρ us ints d hfb hcx hcomp hpre hpl hd σ cl σ' hev hcs W s fr hc hip hi her
      hw hfr
    cases body with
    | nil => exact absurd rfl (F3B_nonempty hfb hpl)
    | cons e0 es =>
    have hes : es.length ≤ N := by simpa using hN
    have ihes := ihN es hes
    cases hfb with
    | last x hd0 hfx =>
      obtain ⟨es', hpl', hes⟩ := properList_pair_inv hpl
      cases hes
      have : es = [] := by
        simp only [properList] at hpl'
        injection hpl' with h; exact h.symm
      subst this
      rw [evalBodyForms_last hd0] at hev
      obtain ⟨cst1, code1, code2, c1, c2, rfl⟩ := compileBody_pair_inv hcomp
      rename_i f0
      have hnil : code2 = [] ∧ cst' = cst1 := by
        cases f0 with
        | zero => cases hfx
        | succ f1 => exact compileBody_nil_inv c2
      obtain ⟨rfl, rfl⟩ := hnil
      have c1' : compileExpr f0 cst c base true e0 = .ok (cst', code1) := c1
      rw [List.append_nil] at hc
      exact ihet _ _ _ _ _ _ _ _ _ _ hfx hcx c1' hpre σ cl σ' hev hcs W s fr hc hip hi her hw (fun _ => hfr)
    | cons x y rest hd0 hfx hfr' =>
      obtain ⟨es', hpl', hes⟩ := properList_pair_inv hpl
      cases hes
      obtain ⟨es'', hpl'', rfl⟩ := properList_pair_inv hpl'
      rw [evalBodyForms_cons hd0] at hev
      obtain ⟨cst1, code1, code2, c1, c2, rfl⟩ := compileBody_pair_inv hcomp
      have c1' : compileExpr _ cst c base false e0 = .ok (cst1, code1) := c1
      subst hip
      have hpre1 : cst1.lambdas <+: D.final := ((monoOK3 _ _).2.2 _ _ _ _ _ _ _ _ _ hfr' c2).trans hpre
      rcases bind_err_inv hev with he1 | ⟨v, σ1, he1, he2⟩
      · obtain ⟨W', sf, e', hw', r⟩ := ihe _ _ _ _ _ _ _ _ _ hfx hcx c1' hpre1 σ cl σ' he1 hcs W s hc.left rfl hi her hw
        exact ⟨W', sf, e', hw', r.after (.refl _) (Ext3.refl _ _) hfr.stackExt⟩
      · obtain ⟨W1, s1, hw1, r1⟩ := ih _ _ _ _ _ _ _ _ _ hfx hcx c1' hpre1 σ v σ1 he1 W s hc.left rfl hi her hw
        have her1 : EnvRep3 ops W1 s1.heap c s1.ep ρ us := by rw [r1.ep]; exact her.ext r1.ext hw1
        have hc2 : CodeAt2 D c.envmap s1.heap σ1.store s1.ipL (s.ipO + code1.length) code2 := r1.codeAfter hc.right
        have hfr1 : FrameAt s1.stack s1.bp fr := by rw [r1.bp]; exact hfr.of_liveEq r1.stack
        obtain ⟨W2, sf, e', hw2, r2⟩ := ihes _ _ _ _ _ _ _ ρ us [] false hfr' hcx c2 hpre hpl'
          (fun h => absurd rfl h) σ1 cl σ' he2 hcs W1 s1 fr hc2 r1.ipO r1.inv her1 r1.swf hfr1
        exact ⟨W2, sf, e', World.le_trans hw1 hw2, r2.after r1.steps r1.ext (StackExt.refl _)⟩
    | @defv f0 _ _ _ x e y rest ints' hin hns hres hfe hfr' =>
      obtain ⟨es', hpl', hes⟩ := properList_pair_inv hpl
      cases hes
      obtain ⟨es'', hpl'', rfl⟩ := properList_pair_inv hpl'
      have hdt : d = true := hd (by intro h; cases h)
      subst hdt
      obtain ⟨l, hl⟩ : ∃ l, ρ.lookup x = some l := by
        have : (ρ.lookup x).isSome = true := hns
        cases hq : ρ.lookup x with
        | none => rw [hq] at this; cases this
        | some l => exact ⟨l, rfl⟩
      obtain ⟨cst1, code1, code2, c1, c2, rfl⟩ := compileBody_pair_inv hcomp
      obtain ⟨codeE, cE, rfl⟩ := compile_define_inv c1
      subst hip
      have hpre1 : cst1.lambdas <+: D.final := ((monoOK3 _ _).2.2 _ _ _ _ _ _ _ _ _ hfr' c2).trans hpre
      rcases evalBodyForms_def_err_inv hl hev with h | h | ⟨v, σ1, he1, hcase⟩
      · exact absurd h.2 hcs
      · -- the initialiser fails: nothing is stored
        obtain ⟨W', sf, e', hw', r⟩ := ihe _ _ _ _ _ _ _ _ _ hfe hcx cE hpre1 σ cl σ' h hcs W s hc.left.left rfl hi her hw
        exact ⟨W', sf, e', hw', r.after (.refl _) (Ext3.refl _ _) hfr.stackExt⟩
      · obtain ⟨W1, s1, hw1, r1⟩ := ih _ _ _ _ _ _ _ _ _ hfe hcx cE hpre1 σ v σ1 he1 W s hc.left.left rfl hi her hw
        have her1 : EnvRep3 ops W1 s1.heap c s1.ep ρ us := by rw [r1.ep]; exact her.ext r1.ext hw1
        rcases hcase with hnlt | ⟨hlt, he2⟩
        · exfalso
          obtain ⟨j, hj⟩ := (slotIdx_some_iff_inEnv c x).mp hin
          obtain ⟨e0, n0, l', _, hl', hW, _⟩ := her1 x j hj
          rw [hl] at hl'; cases hl'
          obtain ⟨_, w, _, _, h3, _⟩ := r1.inv.vars e0 n0 l hW
          exact hnlt (lt_size_of_get h3)
        · -- the definition succeeds, the rest fails
          have hcS := (r1.codeAfter hc.left.right).cast r1.ipO.symm
          obtain ⟨s2, r2, hinit⟩ := run3_store_lex L hin hl hlt hcS r1.acc r1.inv her1 r1.swf
          have r12 := r1.append r2
          have her2 : EnvRep3 ops W1 s2.heap c s2.ep ρ (fun z => us z ∧ z ≠ x) := by
            have hb : EnvRep3 ops W1 s2.heap c s2.ep ρ us := by rw [r2.ep]; exact her1.ext r2.ext (World.le_refl _)
            intro z j hj
            obtain ⟨e', n', l', hd', hl', hW', hin'⟩ := hb z j hj
            refine ⟨e', n', l', hd', hl', hW', fun hnu => ?_⟩
            by_cases hz : z = x
            · subst hz
              obtain ⟨e1, n1, _, hd1, _, _, _⟩ := her1 z j hj
              have hd2 : Denotes ops s2.heap s2.ep j e1 n1 := by rw [r2.ep]; exact hd1.ext r2.ext.toExt2
              obtain ⟨rfl, rfl⟩ := Denotes.func hd' hd2
              exact hinit j _ _ hj hd1
            · exact hin' (fun hu => hnu ⟨hu, hz⟩)
          have hc2 : CodeAt2 D c.envmap s2.heap _ s2.ipL
              (s.ipO + (codeE ++ [BC.op .mov, BC.acc, emitLoc c x, BC.op .movImm, BC.void, BC.acc]).length) code2 :=
            r12.codeAfter hc.right
          have hfr2 : FrameAt s2.stack s2.bp fr := by rw [r12.bp]; exact hfr.of_liveEq r12.stack
          obtain ⟨W2, sf, e', hw2, r3⟩ := ihes _ _ _ _ _ _ _ ρ _ ints' true hfr' hcx c2 hpre hpl'
            (fun _ => rfl) _ cl σ' he2 hcs W1 s2 fr hc2 (by rw [r12.ipO]; simp) r12.inv her2 r12.swf hfr2
          exact ⟨W2, sf, e', World.le_trans hw1 hw2, r3.after r12.steps r12.ext (StackExt.refl _)⟩
    | block Bs ints0 bodyD0 hne hK =>
      have hdt : d = true := hd (F3K_ints_ne' hne hK)
      subst hdt
      subst hip
      obtain ⟨s1, σ1, f1, cst1, restD, rest, code1, code2, ints1, r1, her1, rfl, c2, hfb2, hpl2, hlen, hev2⟩ :=
        hblk _ _ _ _ _ _ _ _ _ _ _ _ hne hK hcx hcomp hpre hpl σ σ' cl hev W s hc rfl hi her hw
      have hc2 : CodeAt2 D c.envmap s1.heap σ1.store s1.ipL (s.ipO + code1.length) code2 := r1.codeAfter hc.right
      have hfr1 : FrameAt s1.stack s1.bp fr := by rw [r1.bp]; exact hfr.of_liveEq r1.stack
      obtain ⟨W2, sf, e', hw2, r2⟩ := ihN rest (by simp only [List.length_cons] at hN hlen; omega) _ _ _ _ _ _ _ ρ _ ints1
        true hfb2 hcx c2 hpre hpl2 (fun _ => rfl) σ1 cl σ' hev2 hcs W s1 fr hc2 r1.ipO r1.inv her1 r1.swf hfr1
      exact ⟨W2, sf, e', hw2, r2.after r1.steps r1.ext (StackExt.refl _)⟩

end Marwood.Lemmas.CompileCorrect3
