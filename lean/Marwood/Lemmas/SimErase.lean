import Marwood.Lemmas.SimDefs
/-!
# Heap simulation: the relation looks only where the marker looks

`restr φ D` is `φ` restricted to the addresses satisfying `D`. If `D` contains every address the
(repaired) marker follows from the erasure of a value / cell (`vrefs`, `crefs` of Heap/Cell.lean), a
relation modulo `φ` is also a relation modulo `restr φ D`. With `D` = "reachable from the roots" this is
what lets a collection shrink the domain of `φ` to the reachable cells.

Two kinds are outside the marker's view and need the kind discipline `Plain` (Heap/Check.lean checks its
counterpart on every snapshot): a *heap cell* holding a bare `LexicalEnvPtr` / `InstructionPointer`
contributes nothing in `Heap::mark`, and a *global slot* is a root only when it is a `Ptr`.
-/
namespace Marwood.Lemmas.Sim
open Marwood Marwood.Vm Marwood.Vm.Concrete
open Marwood.Heap (GcState vrefs vrefsList bcRefs crefs lambdaRefs contRefs)
open Classical

noncomputable def restr (φ : Inj) (D : Nat → Prop) : Inj := fun x => if D x then φ x else none

theorem restr_le (φ : Inj) (D : Nat → Prop) : (restr φ D).le φ := by
  intro a b h
  unfold restr at h
  split at h
  · exact h
  · cases h

theorem restr_some {φ : Inj} {D : Nat → Prop} {a b} (h : φ a = some b) (hd : D a) : restr φ D a = some b := by
  simp [restr, hd, h]

theorem AddrRel.restrict {φ : Inj} {D : Nat → Prop} {a b} (h : AddrRel φ a b) (hd : ∀ b, φ a = some b → D a) :
    AddrRel (restr φ D) a b := by
  rcases h with h | h
  · exact .inl (restr_some h (hd _ h))
  · exact .inr h

/-- heap cells the marker does not look into although they mention an address -/
def plainVal : VCell → Bool
  | .lexEnvPtr _ _ | .instrPtr _ _ => false
  | _ => true

def plainGlob (v : VCell) : Bool := isPtr v || addrFree v

structure Plain (h : CHeap) : Prop where
  cells : ∀ (i : Nat) (v : VCell), h.cells[i]? = some (CCell.val v) → plainVal v = true
  globals : ∀ v ∈ h.globals.toList, plainGlob v = true
  /-- a continuation object holds `stack[0..=sp]` (`to_continuation`) -/
  conts : ∀ (i : Nat) (c : Cont), h.cells[i]? = some (CCell.cont c) → c.stack.sp < c.stack.cells.length

/-- inline values: `Heap::mark_vcell` -/
theorem VRel.restrict {φ : Inj} {D : Nat → Prop} {v v'} (h : VRel φ v v')
    (hd : ∀ x ∈ vrefs true (eraseV v), ∀ b, φ x = some b → D x) : VRel (restr φ D) v v' := by
  cases h with
  | pair h1 h2 =>
    exact .pair (h1.restrict (hd _ (by simp [eraseV, vrefs]))) (h2.restrict (hd _ (by simp [eraseV, vrefs])))
  | closure h1 h2 =>
    exact .closure (h1.restrict (hd _ (by simp [eraseV, vrefs]))) (h2.restrict (hd _ (by simp [eraseV, vrefs])))
  | lexEnvPtr h1 => exact .lexEnvPtr (h1.restrict (hd _ (by simp [eraseV, vrefs])))
  | envPtr h1 => exact .envPtr (h1.restrict (hd _ (by simp [eraseV, vrefs])))
  | instrPtr h1 => exact .instrPtr (h1.restrict (hd _ (by simp [eraseV, vrefs])))
  | ptr h1 => exact .ptr (h1.restrict (hd _ (by simp [eraseV, vrefs])))
  | atom h1 => exact .atom h1

/-- the content of a heap cell: the `match` of `Heap::mark` -/
theorem VRel.restrict_cell {φ : Inj} {D : Nat → Prop} {v v'} (h : VRel φ v v') (hp : plainVal v = true)
    (hd : ∀ x ∈ crefs true (eraseV v), ∀ b, φ x = some b → D x) : VRel (restr φ D) v v' := by
  cases h with
  | pair h1 h2 =>
    exact .pair (h1.restrict (hd _ (by simp [eraseV, crefs]))) (h2.restrict (hd _ (by simp [eraseV, crefs])))
  | closure h1 h2 =>
    exact .closure (h1.restrict (hd _ (by simp [eraseV, crefs]))) (h2.restrict (hd _ (by simp [eraseV, crefs])))
  | lexEnvPtr h1 => simp [plainVal] at hp
  | envPtr h1 => exact .envPtr (h1.restrict (hd _ (by simp [eraseV, crefs])))
  | instrPtr h1 => simp [plainVal] at hp
  | ptr h1 => exact .ptr (h1.restrict (hd _ (by simp [eraseV, crefs])))
  | atom h1 => exact .atom h1

theorem vrefsList_mem {l : List VCell} {c : VCell} (hc : c ∈ l) {x} (hx : x ∈ vrefs true (eraseV c)) :
    x ∈ vrefsList true (l.map eraseV) := by
  induction l with
  | nil => cases hc
  | cons d ds ih =>
    simp only [List.map_cons, vrefsList, List.mem_append]
    rcases List.mem_cons.mp hc with h | h
    · subst h; exact .inl hx
    · exact .inr (ih h)

theorem VsRel.restrict {φ : Inj} {D : Nat → Prop} {l l'} (h : VsRel φ l l')
    (hd : ∀ x ∈ vrefsList true (l.map eraseV), ∀ b, φ x = some b → D x) : VsRel (restr φ D) l l' := by
  induction h with
  | nil => exact .nil
  | cons h1 _ ih =>
    refine .cons (h1.restrict ?_) (ih ?_)
    · intro x hx; exact hd x (by simp only [List.map_cons, vrefsList, List.mem_append]; exact .inl hx)
    · intro x hx; exact hd x (by simp only [List.map_cons, vrefsList, List.mem_append]; exact .inr hx)

theorem EnvmapRel.restrict {φ : Inj} {D : Nat → Prop} {l l' : List (VCell × Source)} (h : EnvmapRel φ l l')
    (hd : ∀ x ∈ vrefsList true (l.map fun p => eraseV p.1), ∀ b, φ x = some b → D x) :
    EnvmapRel (restr φ D) l l' := by
  induction h with
  | nil => exact .nil
  | cons h1 _ ih =>
    refine .cons ⟨h1.1.restrict ?_, h1.2⟩ (ih ?_)
    · intro x hx; exact hd x (by simp only [List.map_cons, vrefsList, List.mem_append]; exact .inl hx)
    · intro x hx; exact hd x (by simp only [List.map_cons, vrefsList, List.mem_append]; exact .inr hx)

theorem StackRelK.restrict {φ : Inj} {D : Nat → Prop} {K st st'} (h : StackRelK φ K st st')
    (hd : ∀ x ∈ vrefsList true ((st.cells.take (K + 1)).map eraseV), ∀ b, φ x = some b → D x) :
    StackRelK (restr φ D) K st st' := by
  refine ⟨h.1, h.2.1, ?_⟩
  intro i hi v v' h1 h2
  refine (h.2.2 i hi v v' h1 h2).restrict ?_
  intro x hx
  refine hd x (vrefsList_mem (c := v) ?_ hx)
  rw [List.mem_iff_getElem?]
  exact ⟨i, by rw [List.getElem?_take]; simp [Nat.lt_succ_of_le hi, h1]⟩

/-! ## bytecode: the local jump rule is inside the marker's scan -/

theorem isJumpOp_erase (c : VCell) : (eraseV c).isJumpOp = isJumpOp c := by
  cases c <;> try rfl
  · rename_i tag
    simp only [eraseV]
    split <;> rfl
  · rename_i op
    cases op <;> rfl

/-- `prevIsJump` with an explicit flag for position 0 -/
def prevFrom (prev : Bool) (l : List VCell) : Nat → Bool
  | 0 => prev
  | j+1 => match l[j]? with
    | some c => isJumpOp c
    | none => false

theorem prevFrom_false (l : List VCell) (i : Nat) : prevFrom false l i = prevIsJump l i := by
  cases i <;> rfl

theorem bcRefs_mem : ∀ (l : List VCell) (skip prev : Bool), (skip = true → prev = true) →
    ∀ i c, l[i]? = some c → prevFrom prev l i = false →
      ∀ x ∈ vrefs true (eraseV c), x ∈ bcRefs true skip (l.map eraseV) := by
  intro l
  induction l with
  | nil => intro _ _ _ i c h; simp at h
  | cons d ds ih =>
    intro skip prev hsp i c hc hpf x hx
    simp only [List.map_cons, bcRefs]
    cases i with
    | zero =>
      simp only [List.getElem?_cons_zero, Option.some.injEq] at hc
      subst hc
      simp only [prevFrom] at hpf
      have hs : skip = false := by
        cases skip with
        | false => rfl
        | true => have := hsp rfl; rw [hpf] at this; cases this
      subst hs
      simp only [Bool.false_eq_true, if_false]
      rw [isJumpOp_erase]
      split
      · rename_i hj
        -- a jump opcode has no references
        cases d <;> simp [isJumpOp] at hj
        rename_i op
        cases op <;> simp [eraseV, vrefs] at hx
      · exact List.mem_append.mpr (.inl hx)
    | succ i =>
      simp only [List.getElem?_cons_succ] at hc
      have hpf' : prevFrom (isJumpOp d) ds i = false := by
        cases i with
        | zero => simpa [prevFrom] using hpf
        | succ i => simpa [prevFrom] using hpf
      cases skip with
      | true =>
        simp only [if_true]
        exact ih false (isJumpOp d) (by intro h; cases h) i c hc hpf' x hx
      | false =>
        simp only [Bool.false_eq_true, if_false]
        rw [isJumpOp_erase]
        split
        · rename_i hj
          exact ih true (isJumpOp d) (fun _ => hj) i c hc hpf' x hx
        · rename_i hj
          refine List.mem_append.mpr (.inr ?_)
          exact ih false (isJumpOp d) (by intro h; cases h) i c hc hpf' x hx

theorem BcRel.restrict {φ : Inj} {D : Nat → Prop} {l l'} (h : BcRel φ l l')
    (hd : ∀ x ∈ bcRefs true false (l.map eraseV), ∀ b, φ x = some b → D x) : BcRel (restr φ D) l l' := by
  refine ⟨h.1, ?_⟩
  intro i c c' h1 h2
  obtain ⟨a, b⟩ := h.2 i c c' h1 h2
  refine ⟨a, fun hp => (b hp).restrict ?_⟩
  intro x hx
  exact hd x (bcRefs_mem l false false (by intro h; cases h) i c h1 (by rw [prevFrom_false]; exact hp) x hx)

/-! ## cells -/

theorem CellRel.restrict {φ : Inj} {D : Nat → Prop} {c c'} (h : CellRel φ c c')
    (hp : ∀ v, c = CCell.val v → plainVal v = true)
    (hd : ∀ x ∈ crefs true (eraseC c), ∀ b, φ x = some b → D x) : CellRel (restr φ D) c c' := by
  cases h with
  | val h1 => exact .val (h1.restrict_cell (hp _ rfl) hd)
  | lexEnv h1 => exact .lexEnv (VsRel.restrict h1 hd)
  | vector h1 => exact .vector (VsRel.restrict h1 hd)
  | lambda h1 h2 h3 =>
    simp only [eraseC, crefs, lambdaRefs, if_true] at hd
    refine .lambda (h1.restrict ?_) (VsRel.restrict h2 ?_) (EnvmapRel.restrict h3 ?_)
    · intro x hx; exact hd x (List.mem_append.mpr (.inl (List.mem_append.mpr (.inl hx))))
    · intro x hx; exact hd x (List.mem_append.mpr (.inl (List.mem_append.mpr (.inr hx))))
    · intro x hx; exact hd x (List.mem_append.mpr (.inr hx))
  | cont h1 =>
    rename_i k k'
    simp only [eraseC, crefs, contRefs] at hd
    refine .cont ⟨?_, h1.full, h1.ep.restrict ?_, h1.ipL.restrict ?_, h1.ipO, h1.bp⟩
    · refine StackRelK.restrict h1.stack ?_
      intro x hx
      refine hd x (List.mem_append.mpr (.inl ?_))
      have hfull := h1.full
      have : k.stack.cells.take (k.stack.sp + 1) = k.stack.cells.take (k.stack.sp + 1) := rfl
      -- the live part is a prefix of the saved stack
      have hsub : ∀ y, y ∈ vrefsList true ((k.stack.cells.take (k.stack.sp + 1)).map eraseV) →
          y ∈ vrefsList true (k.stack.cells.map eraseV) := by
        intro y hy
        have e : k.stack.cells = k.stack.cells.take (k.stack.sp + 1) ++ k.stack.cells.drop (k.stack.sp + 1) :=
          (List.take_append_drop _ _).symm
        rw [e, List.map_append]
        clear e this hx hd
        generalize (k.stack.cells.take (k.stack.sp + 1)).map eraseV = A at hy
        generalize (k.stack.cells.drop (k.stack.sp + 1)).map eraseV = B
        induction A with
        | nil => simp [vrefsList] at hy
        | cons a as ih =>
          simp only [List.cons_append, vrefsList, List.mem_append] at hy ⊢
          rcases hy with h | h
          · exact .inl h
          · exact .inr (ih h)
      exact hsub x hx
    · intro b hb; exact hd _ (by simp) b hb
    · intro b hb; exact hd _ (by simp) b hb

end Marwood.Lemmas.Sim
