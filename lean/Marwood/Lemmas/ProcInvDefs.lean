import Marwood.Vm.ProcInv
import Marwood.Lemmas.StackDiscOfWFS
/-!
# "No value leads to entry code" as an invariant: definitions, congruence, stack and allocator lemmas

`HP h` — the heap part of `Vm/ProcInv.lean` as a proposition (the symbol-table clause phrased with the table
*lookup*, like `Heap.Interned`); `PInv s` — `HP s.heap`, `acc` and the live stack cells `0 ..= sp` do not point to
entry code. `statePB_sound`: the executable check implies it.

`CalleeOk s` (the callee guard of `gops` passes) follows from `PInv s` and `GoodI s` (`calleeOk_of_pinv`), so once
`PInv` is an invariant of the real machine (`Lemmas/ProcInvMain.lean`) the hypothesis `CalleeOkAlong` of the
machine-level theorems of C03 / C04 / C07 / C13 is discharged.

What the unmodelled parts must respect is `ExtProc ext` (builtins, `eval`'s compiler, VPUSH): they create no entry
code, keep `HP`, and return values that do not lead to entry code.
-/
namespace Marwood.Lemmas.Good
open Marwood Marwood.Vm Marwood.Vm.Verify Marwood.Vm.Concrete Marwood.Lemmas.Sim
open Marwood.Heap (GcState)

/-! ## the propositions -/

structure HP (h : CHeap) : Prop where
  cells : ∀ (i : Nat) (c : CCell), h.cells[i]? = some c → cellPB h c = true
  globals : ∀ (n : Nat) (v : VCell), h.globals[n]? = some v → neB h v = true
  sym : ∀ (name : Text) (p : Nat), symLookup h name = some p → entryAt h p = false

structure PInv (s : St CHeap) : Prop where
  hp : HP s.heap
  acc : neB s.heap s.acc = true
  stk : ∀ (i : Nat) (v : VCell), i ≤ s.stack.sp → s.stack.cells[i]? = some v → neB s.heap v = true

/-- lambda cells are not on the free list (`CInvG.lamFree`): an allocation never overwrites one -/
def LF (h : CHeap) : Prop := ∀ (l : Nat) (lam : CLambda), h.cells[l]? = some (CCell.lambda lam) → l ∉ h.free

theorem LF.of_cinv {V : VCell → Prop} {h : CHeap} (inv : CInvG V h) : LF h := inv.lamFree

/-- same lambda cells -/
def LamSame (h h' : CHeap) : Prop := ∀ l, lambdaAt h' l = lambdaAt h l

/-- no new entry code -/
def EShr (h h' : CHeap) : Prop := ∀ p, entryAt h' p = true → entryAt h p = true

/-! ## soundness of the executable check -/

theorem heapPB_sound {h : CHeap} (hb : heapPB h = true) : HP h := by
  unfold heapPB at hb
  simp only [Bool.and_eq_true] at hb
  obtain ⟨⟨h1, h2⟩, h3⟩ := hb
  refine ⟨?_, ?_, ?_⟩
  · intro i c hc
    rw [Array.all_eq_true] at h1
    have hlt : i < h.cells.size := lt_of_get_some hc
    have := h1 i hlt
    rw [Array.getElem?_eq_getElem hlt] at hc
    cases hc
    exact this
  · intro n v hv
    rw [Array.all_eq_true] at h2
    have hlt : n < h.globals.size := lt_of_get_some hv
    have := h2 n hlt
    rw [Array.getElem?_eq_getElem hlt] at hv
    cases hv
    exact this
  · intro name p hl
    unfold symLookup at hl
    cases hf : h.symtab.find? (·.1 = name) with
    | none => rw [hf] at hl; cases hl
    | some e =>
      rw [hf] at hl
      simp only [Option.map_some, Option.some.injEq] at hl
      have hm := List.mem_of_find?_eq_some hf
      rw [List.all_eq_true] at h3
      have := h3 e hm
      subst hl
      simpa using this

theorem statePB_sound {s : St CHeap} (hb : statePB s = true) : PInv s := by
  unfold statePB at hb
  simp only [Bool.and_eq_true] at hb
  obtain ⟨⟨h1, h2⟩, h3⟩ := hb
  refine ⟨heapPB_sound h1, h2, ?_⟩
  intro i v hi hv
  rw [List.all_eq_true] at h3
  refine h3 v ?_
  refine List.mem_of_getElem? (i := i) ?_
  rw [List.getElem?_take]
  simp [Nat.lt_succ_of_le hi, hv]

/-! ## basic facts about the predicates -/

theorem procAtB_eq (h : CHeap) (l : Nat) : procAtB h l = procAt h l := rfl

@[simp] theorem neB_ptr (h : CHeap) (p : Nat) : neB h (.ptr p) = !entryAt h p := rfl

theorem neB_of_not_ptr (h : CHeap) {v : VCell} (hn : ∀ p, v ≠ .ptr p) : neB h v = true := by
  cases v <;> first | rfl | exact absurd rfl (hn _)

theorem neB_undefined (h : CHeap) : neB h .undefined = true := rfl

/-- a value (`plainGlob`) that does not point to entry code may be stored in a `val` cell -/
theorem valPB_of_value {h : CHeap} {v : VCell} (hp : plainGlob v = true) (hn : neB h v = true) : valPB h v = true := by
  cases v <;> first | rfl | exact hn | (simp [plainGlob, isPtr, addrFree] at hp)

theorem neB_of_valPB {h : CHeap} {v : VCell} (hv : valPB h v = true) : neB h v = true := by
  cases v <;> first | rfl | exact hv

theorem entryAt_false_of_not_lambda {h : CHeap} {p : Nat} (hn : ∀ lam, h.cells[p]? ≠ some (CCell.lambda lam)) :
    entryAt h p = false := by
  unfold entryAt
  cases hl : lambdaAt h p with
  | none => rfl
  | some lam => exact absurd (lambdaAt_iff.mp hl) (hn lam)

theorem procAtB_of_lambda {h : CHeap} {p : Nat} {lam : CLambda} (hl : lambdaAt h p = some lam)
    (he : entryAt h p = false) : procAtB h p = true := by
  unfold procAtB; unfold entryAt at he
  rw [hl] at he ⊢
  simp only at he ⊢
  rw [he]; rfl

theorem entry_proc_excl {h : CHeap} {p : Nat} (hp : procAtB h p = true) : entryAt h p = false := by
  unfold procAtB at hp; unfold entryAt
  cases hl : lambdaAt h p with
  | none => rfl
  | some lam => rw [hl] at hp; simpa using hp

theorem immPF_at {E : Nat → Bool} {bc : List VCell} (hi : immPF E bc = true) {j : Nat} {v : VCell}
    (hop : bc[j]? = some (.opcode .movImm) ∨ bc[j]? = some (.opcode .pushImm)) (hv : bc[j + 1]? = some v) :
    neF E v = true := by
  unfold immPF at hi
  rw [List.all_eq_true] at hi
  have hj : j < bc.length := by
    by_cases hlt : j < bc.length
    · exact hlt
    · rcases hop with h | h <;> (rw [List.getElem?_eq_none (by omega)] at h; cases h)
  have := hi j (List.mem_range.mpr hj)
  rcases hop with h | h <;> (rw [h] at this; simp only [hv] at this; exact this)

/-! ## congruence: heaps with the same lambda cells -/

theorem LamSame.refl (h : CHeap) : LamSame h h := fun _ => rfl

theorem LamSame.trans {a b c : CHeap} (x : LamSame a b) (y : LamSame b c) : LamSame a c :=
  fun l => (y l).trans (x l)

theorem LamSame.entry {h h' : CHeap} (ls : LamSame h h') : entryAt h' = entryAt h := by
  funext p; unfold entryAt; rw [ls p]

theorem LamSame.proc {h h' : CHeap} (ls : LamSame h h') : procAtB h' = procAtB h := by
  funext p; unfold procAtB; rw [ls p]

theorem LamSame.neB {h h' : CHeap} (ls : LamSame h h') : neB h' = neB h := by
  unfold Concrete.neB; rw [ls.entry]

theorem LamSame.valPB {h h' : CHeap} (ls : LamSame h h') : valPB h' = valPB h := by
  unfold Concrete.valPB; rw [ls.entry, ls.proc]

theorem LamSame.cellPB {h h' : CHeap} (ls : LamSame h h') : cellPB h' = cellPB h := by
  unfold Concrete.cellPB; rw [ls.entry, ls.proc]

theorem LamSame.eshr {h h' : CHeap} (ls : LamSame h h') : EShr h h' := by
  intro p hp; rw [ls.entry] at hp; exact hp

theorem LamSame.of_cells {h h' : CHeap} (hc : h'.cells = h.cells) : LamSame h h' := by
  intro l; unfold lambdaAt; rw [hc]

theorem EShr.refl (h : CHeap) : EShr h h := fun _ x => x

theorem EShr.trans {a b c : CHeap} (x : EShr a b) (y : EShr b c) : EShr a c := fun p hp => x p (y p hp)

theorem EShr.neB {h h' : CHeap} (es : EShr h h') {v : VCell} (hv : neB h v = true) : neB h' v = true := by
  cases v <;> first | rfl | skip
  rename_i p
  simp only [neB_ptr, Bool.not_eq_true'] at hv ⊢
  cases he : entryAt h' p with
  | false => rfl
  | true => rw [es p he] at hv; cases hv

theorem Grows.lamSame {P : Cont → Prop} {h h' : CHeap} (g : Grows P h h') : LamSame h h' := by
  intro l
  cases hl : lambdaAt h l with
  | some lam => exact lambdaAt_iff.mpr (g.keep l lam (lambdaAt_iff.mp hl))
  | none =>
    cases hl' : lambdaAt h' l with
    | none => rfl
    | some lam =>
      have := lambdaAt_iff.mpr (g.newLam l lam (lambdaAt_iff.mp hl'))
      rw [hl] at this; cases this

/-- `HP` of a heap that differs outside cells / globals / symbol table -/
theorem HP.of_eq {h h' : CHeap} (hp : HP h) (hc : h'.cells = h.cells) (hg : h'.globals = h.globals)
    (hs : h'.symtab = h.symtab) : HP h' := by
  have ls : LamSame h h' := .of_cells hc
  refine ⟨?_, ?_, ?_⟩
  · intro i c hcell; rw [ls.cellPB]; rw [hc] at hcell; exact hp.cells i c hcell
  · intro n v hv; rw [ls.neB]; rw [hg] at hv; exact hp.globals n v hv
  · intro name p hl
    rw [ls.entry]
    refine hp.sym name p ?_
    unfold symLookup at hl ⊢; rw [hs] at hl; exact hl

/-! ## `CalleeOk` from the invariant -/

theorem calleeOk_of_pinv {s : St CHeap} (g : GoodI s) (p : PInv s) : CalleeOk s := by
  unfold CalleeOk gcallee
  cases hacc : s.acc with
  | ptr a =>
    cases hcell : s.heap.cells[a]? with
    | none => simp [callee, hcell]
    | some c =>
      have hcal : callee s.heap (.ptr a) = calleeOfCell c := by simp [callee, hcell]
      rw [hcal]
      cases c with
      | val v =>
        cases v <;> simp only [calleeOfCell]
        rename_i l e
        have := p.hp.cells a _ hcell
        have hpr : procAt s.heap l = true := this
        simp [hpr]
      | lambda lam =>
        simp only [calleeOfCell]
        have hne := p.acc
        rw [hacc] at hne
        simp only [neB_ptr, Bool.not_eq_true'] at hne
        have hpr : procAt s.heap a = true := procAtB_of_lambda (lambdaAt_iff.mpr hcell) hne
        simp [hpr]
      | lexEnv _ => simp only [calleeOfCell]
      | vector _ => simp only [calleeOfCell]
      | cont _ => simp only [calleeOfCell]
  | closure l e =>
    have := g.accv
    rw [hacc] at this
    simp [plainGlob, isPtr, addrFree] at this
  | _ => simp [callee]

/-! ## the stack -/

/-- the cells at or below `B`, and at or below `sp`, do not point to entry code -/
def SM (h : CHeap) (st : Stack) (B : Nat) : Prop :=
  ∀ (i : Nat) (v : VCell), (i ≤ B ∨ i ≤ st.sp) → st.cells[i]? = some v → neB h v = true

theorem SM.of_stk {h : CHeap} {st : Stack} (x : ∀ (i : Nat) (v : VCell), i ≤ st.sp → st.cells[i]? = some v → neB h v = true) :
    SM h st st.sp := by
  intro i v hi hv
  exact x i v (by omega) hv

theorem SM.stk {h : CHeap} {st : Stack} {B : Nat} (x : SM h st B) :
    ∀ (i : Nat) (v : VCell), i ≤ st.sp → st.cells[i]? = some v → neB h v = true :=
  fun i v hi hv => x i v (.inr hi) hv

theorem SM.heap {h h' : CHeap} {st : Stack} {B : Nat} (x : SM h st B) (es : EShr h h') : SM h' st B :=
  fun i v hi hv => es.neB (x i v hi hv)

/-- same cells, stack pointer not above what is covered (pop, `sp := …`) -/
theorem SM.resp {h : CHeap} {st st' : Stack} {B : Nat} (x : SM h st B) (hc : st'.cells = st.cells)
    (hsp : st'.sp ≤ B ∨ st'.sp ≤ st.sp) : SM h st' B := by
  intro i v hi hv
  rw [hc] at hv
  refine x i v ?_ hv
  rcases hi with hi | hi
  · exact .inl hi
  · rcases hsp with h1 | h1
    · exact .inl (by omega)
    · exact .inr (by omega)

theorem SM.push {h : CHeap} {st : Stack} {B : Nat} (x : SM h st B) {v : VCell} (hv : neB h v = true) :
    SM h (st.push v) B := by
  intro i w hi hw
  by_cases hi1 : i = st.sp + 1
  · subst hi1
    unfold Stack.push at hw
    split at hw
    · simp only at hw
      rw [List.getElem?_set_self (by omega)] at hw
      cases hw; exact hv
    · simp only at hw
      rw [List.getElem?_set_self (by simp; omega)] at hw
      cases hw; exact hv
  · have hi' : i ≤ B ∨ i ≤ st.sp := by
      rcases hi with hi | hi
      · exact .inl hi
      · rw [StepC.push_sp] at hi; exact .inr (by omega)
    unfold Stack.push at hw
    split at hw
    · simp only at hw
      rw [List.getElem?_set_ne (by omega)] at hw
      exact x i w hi' hw
    · simp only at hw
      rw [List.getElem?_set_ne (by omega), List.getElem?_append] at hw
      split at hw
      · exact x i w hi' hw
      · rw [List.getElem?_replicate] at hw
        split at hw
        · cases hw; rfl
        · cases hw

theorem SM.set {h : CHeap} {st st' : Stack} {B : Nat} (x : SM h st B) {v : VCell} (hv : neB h v = true) {k : Nat}
    (hs : st.set k v = .ok st') : SM h st' B := by
  unfold Stack.set at hs
  split at hs
  · cases hs
    intro i w hi hw
    simp only at hw hi
    by_cases hik : i = k
    · subst hik
      rw [List.getElem?_set_self (by assumption)] at hw
      cases hw; exact hv
    · rw [List.getElem?_set_ne (by omega)] at hw
      exact x i w hi hw
  · cases hs

theorem SM.setOffset {h : CHeap} {st st' : Stack} {B : Nat} (x : SM h st B) {v : VCell} (hv : neB h v = true) {off : Int}
    (hs : st.setOffset off v = .ok st') : SM h st' B := by
  unfold Stack.setOffset at hs
  simp only at hs
  split at hs
  · exact x.set hv hs
  · cases hs

theorem SM.get {h : CHeap} {st : Stack} {B : Nat} (x : SM h st B) {k : Nat} {v : VCell} (hg : st.get k = .ok v)
    (hk : k ≤ B ∨ k ≤ st.sp) : neB h v = true := by
  unfold Stack.get at hg
  split at hg
  · rename_i w hw; cases hg; exact x k _ hk hw
  · cases hg

theorem SM.mono {h : CHeap} {st : Stack} {B B' : Nat} (x : SM h st B) (hb : B' ≤ B) : SM h st B' := by
  intro i v hi hv
  refine x i v ?_ hv
  rcases hi with hi | hi
  · exact .inl (by omega)
  · exact .inr hi

/-- `pop`: the popped cell, and the rest -/
theorem SM.pop {h : CHeap} {st st' : Stack} {B : Nat} (x : SM h st B) {v : VCell} (hp : st.pop = .ok (v, st')) :
    neB h v = true ∧ SM h st' B ∧ st'.cells = st.cells ∧ st'.sp + 1 = st.sp := by
  obtain ⟨p1, p2, p3, p4⟩ := StepC.pop_inv hp
  exact ⟨x _ _ (.inr (Nat.le_refl _)) p2, x.resp p4 (.inr (by omega)), p4, by omega⟩

theorem SM.popN {h : CHeap} {st st' : Stack} {B : Nat} (x : SM h st B) {n : Nat} {vs : List VCell}
    (hp : popN n st = .ok (vs, st')) :
    (∀ v ∈ vs, neB h v = true) ∧ SM h st' B ∧ st'.cells = st.cells ∧ st'.sp + n = st.sp := by
  obtain ⟨q1, q2, q3⟩ := StepC.popN_inv n hp
  refine ⟨?_, x.resp q1 (.inr (by omega)), q1, q2⟩
  intro v hv
  obtain ⟨i, _, i2, i3⟩ := q3 v hv
  exact x i v (.inr i2) i3

/-! ## the allocator: lambda cells, `HP` -/

theorem calloc_eq_cons {h : CHeap} {p : Nat} {rest : List Nat} (hf : h.free = p :: rest) :
    calloc h = takeFree h p rest := by
  unfold calloc; rw [hf]

theorem calloc_eq_nil_cons {h : CHeap} {p : Nat} {rest : List Nat} (hf : h.free = [])
    (hg : (cgrow h).free = p :: rest) : calloc h = takeFree (cgrow h) p rest := by
  unfold calloc; rw [hf]; simp only [hg]

theorem calloc_eq_nil_nil {h : CHeap} (hf : h.free = []) (hg : (cgrow h).free = []) :
    calloc h = (cgrow h, (cgrow h).cells.size) := by
  unfold calloc; rw [hf]; simp only [hg]

theorem calloc_facts (h : CHeap) :
    (∀ i, i < h.cells.size → (calloc h).1.cells[i]? = h.cells[i]?) ∧
    (∀ i c, h.cells.size ≤ i → (calloc h).1.cells[i]? = some c → c = CCell.val .undefined) ∧
    ((calloc h).2 ∈ h.free ∨ h.cells.size ≤ (calloc h).2) ∧
    (∀ q, q ∈ (calloc h).1.free → q ∈ h.free ∨ h.cells.size ≤ q) ∧
    (calloc h).1.globals = h.globals ∧ (calloc h).1.symtab = h.symtab := by
  rcases hf : h.free with _ | ⟨p, rest⟩
  · have hfree : ∀ q, q ∈ (cgrow h).free → h.cells.size ≤ q := by
      intro q hq
      simp only [cgrow, hf, List.append_nil, List.mem_reverse, List.mem_range'_1] at hq
      exact hq.1
    rcases hg : (cgrow h).free with _ | ⟨p, rest⟩
    · rw [calloc_eq_nil_nil hf hg]
      refine ⟨fun i hi => cgrow_cells_old h hi, fun i c hi hc => cgrow_cells_new h hi hc, .inr ?_, ?_, rfl, rfl⟩
      · show h.cells.size ≤ (cgrow h).cells.size
        simp [cgrow]
      · intro q hq
        have hq' : q ∈ (cgrow h).free := hq
        rw [hg] at hq'; cases hq'
    · rw [calloc_eq_nil_cons hf hg]
      refine ⟨fun i hi => cgrow_cells_old h hi, fun i c hi hc => cgrow_cells_new h hi hc, .inr ?_, ?_, rfl, rfl⟩
      · exact hfree p (by rw [hg]; exact List.mem_cons_self)
      · intro q hq
        have hq' : q ∈ rest := hq
        exact .inr (hfree q (by rw [hg]; exact List.mem_cons_of_mem _ hq'))
  · rw [calloc_eq_cons hf]
    refine ⟨fun _ _ => rfl, ?_, .inl ?_, ?_, rfl, rfl⟩
    · intro i c hi hc
      have hc' : h.cells[i]? = some c := hc
      rw [Array.getElem?_eq_none (by omega)] at hc'; cases hc'
    · exact List.mem_cons_self
    · intro q hq
      have hq' : q ∈ rest := hq
      exact .inl (List.mem_cons_of_mem _ hq')

/-- **storing a non-code cell in a fresh cell**: same lambda cells, `HP` and `LF` kept, the new address does not
    hold entry code, and it holds `c` (or lies outside the heap) -/
theorem cput_hp {h : CHeap} (lf : LF h) (hp : HP h) {c : CCell} (hc : ∀ lam, c ≠ CCell.lambda lam)
    (ok : cellPB h c = true) :
    HP (cput h c).1 ∧ LF (cput h c).1 ∧ LamSame h (cput h c).1 ∧ entryAt (cput h c).1 (cput h c).2 = false := by
  obtain ⟨f1, f2, f3, f4, f5, f6⟩ := calloc_facts h
  have hnl : ∀ lam, h.cells[(calloc h).2]? ≠ some (CCell.lambda lam) := by
    intro lam hl
    rcases f3 with h1 | h1
    · exact lf _ lam hl h1
    · have := lt_of_get_some hl; omega
  have hcell : ∀ i x, (cput h c).1.cells[i]? = some x →
      x = c ∨ (i ≠ (calloc h).2 ∧ h.cells[i]? = some x) ∨ x = CCell.val .undefined := by
    intro i x hx
    simp only [cput] at hx
    rw [cwrite_cells] at hx
    split at hx
    · cases hx; exact .inl rfl
    · rename_i hne
      by_cases hlt : i < h.cells.size
      · rw [f1 i hlt] at hx
        by_cases hip : i = (calloc h).2
        · -- the write was out of bounds of the allocated heap: impossible below `h.cells.size`
          exfalso
          apply hne
          refine ⟨hip.symm, ?_⟩
          have := lt_of_get_some hx
          have hsz : h.cells.size ≤ (calloc h).1.cells.size := calloc_size h
          omega
        · exact .inr (.inl ⟨hip, hx⟩)
      · exact .inr (.inr (f2 i x (by omega) hx))
  have ls : LamSame h (cput h c).1 := by
    intro l
    cases hl : lambdaAt h l with
    | some lam =>
      refine lambdaAt_iff.mpr ?_
      have hcl := lambdaAt_iff.mp hl
      simp only [cput]
      rw [cwrite_cells]
      split
      · rename_i hh; obtain ⟨e, _⟩ := hh; rw [e] at hnl; exact absurd hcl (hnl lam)
      · rw [f1 l (lt_of_get_some hcl)]; exact hcl
    | none =>
      cases hl' : lambdaAt (cput h c).1 l with
      | none => rfl
      | some lam =>
        exfalso
        rcases hcell l _ (lambdaAt_iff.mp hl') with e | ⟨_, e⟩ | e
        · exact hc lam e.symm
        · have := lambdaAt_iff.mpr e; rw [hl] at this; cases this
        · cases e
  refine ⟨⟨?_, ?_, ?_⟩, ?_, ls, ?_⟩
  · intro i x hx
    rw [ls.cellPB]
    rcases hcell i x hx with e | ⟨_, e⟩ | e
    · subst e; exact ok
    · exact hp.cells i x e
    · subst e; rfl
  · intro n v hv
    rw [ls.neB]
    have : (cput h c).1.globals = h.globals := by simp only [cput, cwrite]; exact f5
    rw [this] at hv
    exact hp.globals n v hv
  · intro name p hl
    rw [ls.entry]
    refine hp.sym name p ?_
    have : (cput h c).1.symtab = h.symtab := by simp only [cput, cwrite]; exact f6
    unfold symLookup at hl ⊢; rw [this] at hl; exact hl
  · intro l lam hl hm
    have hold : h.cells[l]? = some (CCell.lambda lam) := by
      have := ls l
      rw [lambdaAt_iff.mpr hl] at this
      exact lambdaAt_iff.mp this.symm
    have hm' : l ∈ (calloc h).1.free := by simpa [cput, cwrite] using hm
    rcases f4 l hm' with h1 | h1
    · exact lf l lam hold h1
    · have := lt_of_get_some hold; omega
  · refine entryAt_false_of_not_lambda ?_
    intro lam hl
    rcases hcell _ _ hl with e | ⟨e, _⟩ | e
    · exact hc lam e.symm
    · exact e rfl
    · cases e

end Marwood.Lemmas.Good
