import Marwood.Lemmas.CompileBlk
/-!
# Where code-object pointers occur in emitted code, and what the environment maps of the code objects name

By induction on the fuel (same case structure as `Lemmas/CompileBlk.lean`): in everything the compiler model
emits, a code-object pointer `lambda id` occurs only as the immediate of `MOVIMM (lambda id) acc; CLOSURE`,
and the environment map of code object `id` is a *child* of the binding context of the code that contains
the site: every `iofEnvironment` entry names an entry of the enclosing map, every `iofArgument n` is below
the number of enclosing formals.
-/
namespace Marwood.Vm
open Marwood Marwood.Vm.Verify

/-- PUSHIMM's immediate: an argument count or quoted data -/
def pushB : BC → Bool
  | .argc _ | .datum _ => true
  | _ => false

/-- lambda `m` may be closed over by code compiled in the binding context `c`: each `iofEnvironment` entry of its
    environment map names an entry of `c`'s map, each `iofArgument n` is below `c`'s formals -/
def ChildOf (c : Ctx) (m : LambdaM) : Prop :=
  ∀ x ∈ m.envmap, (x.2 = Source.iofEnvironment → c.envmap.any (·.1 == x.1) = true) ∧
    (∀ n, x.2 = Source.iofArgument n → n < c.args.length)

def SiteP (tbl : List LambdaM) (c : Ctx) (id : Nat) : Prop := ∃ m, tbl[id]? = some m ∧ ChildOf c m

/-- positional facts about emitted code: a code-object pointer occurs only as the immediate of
    `MOVIMM (lambda id) acc; CLOSURE` (and then `P id`); MOVIMM's immediate is data / void / a code object;
    PUSHIMM's immediate is an argument count or quoted data -/
structure EnvCode (P : Nat → Prop) (code : List BC) : Prop where
  lam : ∀ k id, code[k]? = some (.lambda id) → P id ∧ ∃ j, k = j + 1 ∧ code[j]? = some (.op .movImm) ∧
    code[j + 2]? = some .acc ∧ code[j + 3]? = some (.op .closureAcc)
  mov : ∀ j, code[j]? = some (.op .movImm) → ∃ x, code[j + 1]? = some x ∧ immB x = true
  push : ∀ j, code[j]? = some (.op .pushImm) → ∃ x, code[j + 1]? = some x ∧ pushB x = true

def TblOK (tbl : List LambdaM) : Prop := ∀ m ∈ tbl, EnvCode (SiteP tbl ⟨m.args, m.envmap⟩) m.bc

/-! ## `EnvCode`: structural lemmas -/

theorem getElem?_app_l {α} {c1 c2 : List α} {i : Nat} {x : α} (h : c1[i]? = some x) :
    (c1 ++ c2)[i]? = some x := by
  have hi : i < c1.length := (List.getElem?_eq_some_iff.1 h).1
  rw [List.getElem?_append_left hi]; exact h

theorem getElem?_app_r {α} {c1 c2 : List α} {i : Nat} {x : α} (h : c2[i]? = some x) :
    (c1 ++ c2)[i + c1.length]? = some x := by
  rw [List.getElem?_append_right (by omega)]
  simpa using h

theorem getElem?_app_cases {α} {c1 c2 : List α} {k : Nat} {x : α} (h : (c1 ++ c2)[k]? = some x) :
    c1[k]? = some x ∨ ∃ i, k = i + c1.length ∧ c2[i]? = some x := by
  by_cases hk : k < c1.length
  · left; rwa [List.getElem?_append_left hk] at h
  · right
    rw [List.getElem?_append_right (by omega)] at h
    exact ⟨k - c1.length, by omega, h⟩

theorem EnvCode.nil {P : Nat → Prop} : EnvCode P [] :=
  ⟨by intro k id h; simp at h, by intro j h; simp at h, by intro j h; simp at h⟩

theorem EnvCode.append {P : Nat → Prop} {c1 c2 : List BC} (h1 : EnvCode P c1) (h2 : EnvCode P c2) :
    EnvCode P (c1 ++ c2) := by
  refine ⟨?_, ?_, ?_⟩
  · intro k id h
    rcases getElem?_app_cases h with h' | ⟨i, rfl, h'⟩
    · obtain ⟨hp, j, rfl, a, b, c⟩ := h1.lam k id h'
      exact ⟨hp, j, rfl, getElem?_app_l a, getElem?_app_l b, getElem?_app_l c⟩
    · obtain ⟨hp, j, rfl, a, b, c⟩ := h2.lam i id h'
      refine ⟨hp, j + c1.length, by omega, getElem?_app_r a, ?_, ?_⟩
      · rw [show j + c1.length + 2 = j + 2 + c1.length by omega]; exact getElem?_app_r b
      · rw [show j + c1.length + 3 = j + 3 + c1.length by omega]; exact getElem?_app_r c
  · intro j h
    rcases getElem?_app_cases h with h' | ⟨i, rfl, h'⟩
    · obtain ⟨x, a, b⟩ := h1.mov j h'
      exact ⟨x, getElem?_app_l a, b⟩
    · obtain ⟨x, a, b⟩ := h2.mov i h'
      refine ⟨x, ?_, b⟩
      rw [show i + c1.length + 1 = i + 1 + c1.length by omega]; exact getElem?_app_r a
  · intro j h
    rcases getElem?_app_cases h with h' | ⟨i, rfl, h'⟩
    · obtain ⟨x, a, b⟩ := h1.push j h'
      exact ⟨x, getElem?_app_l a, b⟩
    · obtain ⟨x, a, b⟩ := h2.push i h'
      refine ⟨x, ?_, b⟩
      rw [show i + c1.length + 1 = i + 1 + c1.length by omega]; exact getElem?_app_r a

theorem EnvCode.mono {P P' : Nat → Prop} {c : List BC} (hp : ∀ id, P id → P' id) (h : EnvCode P c) :
    EnvCode P' c :=
  ⟨fun k id hk => ⟨hp id (h.lam k id hk).1, (h.lam k id hk).2⟩, h.mov, h.push⟩

theorem EnvCode.of_plain {P : Nat → Prop} {code : List BC}
    (h : ∀ x ∈ code, (∀ id, x ≠ .lambda id) ∧ x ≠ .op .movImm ∧ x ≠ .op .pushImm) : EnvCode P code := by
  refine ⟨?_, ?_, ?_⟩
  · intro k id hk; exact absurd rfl ((h _ (List.mem_of_getElem? hk)).1 id)
  · intro j hj; exact absurd rfl (h _ (List.mem_of_getElem? hj)).2.1
  · intro j hj; exact absurd rfl (h _ (List.mem_of_getElem? hj)).2.2

theorem EnvCode.movImm3 {P : Nat → Prop} (imm : BC) (hi : immB imm = true) (hl : ∀ id, imm ≠ .lambda id) :
    EnvCode P [.op .movImm, imm, .acc] := by
  refine ⟨?_, ?_, ?_⟩
  · intro k id h
    rcases k with _|_|_|k <;> simp at h
    exact absurd h (hl id)
  · intro j h
    rcases j with _|_|_|j <;> simp at h
    · exact ⟨imm, rfl, hi⟩
    · subst h; simp [immB] at hi
  · intro j h
    rcases j with _|_|_|j <;> simp at h
    subst h; simp [immB] at hi

theorem EnvCode.pushArgc {P : Nat → Prop} (n : Nat) : EnvCode P [.op .pushImm, .argc n] := by
  refine ⟨?_, ?_, ?_⟩
  · intro k id h; rcases k with _|_|k <;> simp at h
  · intro j h; rcases j with _|_|j <;> simp at h
  · intro j h; rcases j with _|_|j <;> simp at h
    exact ⟨_, rfl, rfl⟩

theorem EnvCode.pushDatum {P : Nat → Prop} (d : Datum) : EnvCode P [.op .pushImm, .datum d] := by
  refine ⟨?_, ?_, ?_⟩
  · intro k id h; rcases k with _|_|k <;> simp at h
  · intro j h; rcases j with _|_|j <;> simp at h
  · intro j h; rcases j with _|_|j <;> simp at h
    exact ⟨_, rfl, rfl⟩

theorem EnvCode.site {P : Nat → Prop} (id : Nat) (hp : P id) :
    EnvCode P [.op .movImm, .lambda id, .acc, .op .closureAcc] := by
  refine ⟨?_, ?_, ?_⟩
  · intro k id' h
    rcases k with _|_|_|_|k <;> simp at h
    subst h
    exact ⟨hp, 0, rfl, rfl, rfl, rfl⟩
  · intro j h
    rcases j with _|_|_|_|j <;> simp at h
    exact ⟨_, rfl, rfl⟩
  · intro j h
    rcases j with _|_|_|_|j <;> simp at h

theorem emitLoc_plain (c : Ctx) (s : Text) :
    (∀ id, emitLoc c s ≠ .lambda id) ∧ emitLoc c s ≠ .op .movImm ∧ emitLoc c s ≠ .op .pushImm := by
  unfold emitLoc
  split <;> simp

theorem EnvCode.mov3 {P : Nat → Prop} (a b : BC)
    (ha : (∀ id, a ≠ .lambda id) ∧ a ≠ .op .movImm ∧ a ≠ .op .pushImm)
    (hb : (∀ id, b ≠ .lambda id) ∧ b ≠ .op .movImm ∧ b ≠ .op .pushImm) : EnvCode P [.op .mov, a, b] := by
  apply EnvCode.of_plain
  intro x hx
  simp only [List.mem_cons, List.not_mem_nil, or_false] at hx
  rcases hx with rfl | rfl | rfl
  · simp
  · exact ha
  · exact hb

theorem acc_plain : (∀ id, BC.acc ≠ .lambda id) ∧ BC.acc ≠ .op .movImm ∧ BC.acc ≠ .op .pushImm := by simp

theorem EnvCode.store {P : Nat → Prop} (c : Ctx) (s : Text) : EnvCode P (storeCode c s) := by
  show EnvCode P ([.op .mov, .acc, emitLoc c s] ++ [.op .movImm, .void, .acc])
  exact (EnvCode.mov3 _ _ acc_plain (emitLoc_plain c s)).append (EnvCode.movImm3 _ rfl (by simp))

theorem EnvCode.consChain {P : Nat → Prop} (n : Nat) : EnvCode P (consChain n) := by
  apply EnvCode.of_plain
  intro x hx
  unfold Marwood.Vm.consChain at hx
  rw [List.mem_flatMap] at hx
  obtain ⟨i, _, hx⟩ := hx
  split at hx <;> simp at hx <;> rcases hx with rfl | rfl <;> simp

theorem EnvCode.jump {P : Nat → Prop} (o : Op) (ho : o ≠ .movImm ∧ o ≠ .pushImm) (a : Nat) :
    EnvCode P [.op o, .target a] := by
  apply EnvCode.of_plain
  intro x hx
  simp only [List.mem_cons, List.not_mem_nil, or_false] at hx
  rcases hx with rfl | rfl
  · simp [ho.1, ho.2]
  · simp

theorem EnvCode.op1 {P : Nat → Prop} (o : Op) (ho : o ≠ .movImm ∧ o ≠ .pushImm) : EnvCode P [.op o] := by
  apply EnvCode.of_plain
  intro x hx
  simp only [List.mem_cons, List.not_mem_nil, or_false] at hx
  subst hx
  simp [ho.1, ho.2]

/-! ## the table -/

theorem SiteP.mono {tbl ext : List LambdaM} {c : Ctx} {id : Nat} (h : SiteP tbl c id) : SiteP (tbl ++ ext) c id := by
  obtain ⟨m, hm, hc⟩ := h
  exact ⟨m, getElem?_app_l hm, hc⟩

theorem EnvCode.lift {tbl tbl' : List LambdaM} {c : Ctx} {code : List BC} (hx : ∃ ext, tbl' = tbl ++ ext)
    (h : EnvCode (SiteP tbl c) code) : EnvCode (SiteP tbl' c) code := by
  obtain ⟨ext, rfl⟩ := hx
  exact h.mono fun _ => SiteP.mono

theorem ext_trans {α} {a b c : List α} (h1 : ∃ ext, b = a ++ ext) (h2 : ∃ ext, c = b ++ ext) :
    ∃ ext, c = a ++ ext := by
  obtain ⟨e1, rfl⟩ := h1
  obtain ⟨e2, rfl⟩ := h2
  exact ⟨e1 ++ e2, List.append_assoc _ _ _⟩

theorem TblOK.nil : TblOK [] := by intro m hm; cases hm

theorem TblOK.snoc {tbl : List LambdaM} {m : LambdaM} (h : TblOK tbl)
    (hm : EnvCode (SiteP (tbl ++ [m]) ⟨m.args, m.envmap⟩) m.bc) : TblOK (tbl ++ [m]) := by
  intro m' hm'
  rw [List.mem_append, List.mem_singleton] at hm'
  rcases hm' with hm' | rfl
  · exact (h m' hm').mono fun _ => SiteP.mono
  · exact hm

/-! ## environment maps of new code objects -/

theorem newEnvmap_childOf (formals internal free : List Text) (c : Ctx) :
    ∀ x ∈ newEnvmap formals internal free ⟨c.args, false, c.envmap, [], false⟩,
      (x.2 = Source.iofEnvironment → c.envmap.any (·.1 == x.1) = true) ∧
      (∀ n, x.2 = Source.iofArgument n → n < c.args.length) := by
  intro x hx
  unfold newEnvmap at hx
  simp only [List.mem_append, List.mem_map, List.mem_filterMap] at hx
  rcases hx with (⟨a, _, rfl⟩ | ⟨a, _, rfl⟩) | ⟨s, _, hs⟩
  · exact ⟨fun h => (by cases h), fun n h => (by cases h)⟩
  · exact ⟨fun h => (by cases h), fun n h => (by cases h)⟩
  · by_cases h : c.envmap.any (·.1 == s) = true
    · simp only [h, if_true] at hs; cases hs
      exact ⟨fun _ => h, fun n hn => (by cases hn)⟩
    · simp only [h] at hs
      cases hf : c.args.findIdx? (· == s) with
      | none => simp [hf] at hs
      | some k =>
        simp only [hf, Bool.false_eq_true, if_false, Option.some.injEq] at hs
        cases hs
        rw [List.findIdx?_eq_some_iff_getElem] at hf
        obtain ⟨hk, _, _⟩ := hf
        refine ⟨fun h => (by cases h), fun n hn => ?_⟩
        cases hn; exact hk

theorem newEnvmap_childOf' (formals internal free : List Text) (c : Ctx) (b : Bool) (bc : List BC) (tl : Bool) :
    ChildOf c ⟨formals, b, newEnvmap formals internal free ⟨c.args, false, c.envmap, [], false⟩, bc, tl⟩ :=
  newEnvmap_childOf formals internal free c

theorem lambdaParts_child {fuel : Nat} {c : Ctx} {e : Datum} {isDefine : Bool} {p : LambdaParts}
    (h : lambdaParts fuel c e isDefine = .ok p) :
    p.ctx.args = p.formals ∧
    (∀ x ∈ p.ctx.envmap, (x.2 = Source.iofEnvironment → c.envmap.any (·.1 == x.1) = true) ∧
      ∀ n, x.2 = Source.iofArgument n → n < c.args.length) ∧
    p.prologue = (if p.isVararg then [BC.op .varArg] else []) ++ [BC.op .enter] := by
  unfold lambdaParts at h
  repeat' (split at h <;> try (cases h; done))
  all_goals (simp only [] at h; repeat' (split at h <;> try (cases h; done)))
  all_goals (cases h; exact ⟨rfl, newEnvmap_childOf _ _ _ c, by simp [*]⟩)

end Marwood.Vm
