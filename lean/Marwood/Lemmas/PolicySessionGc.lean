import Marwood.Lemmas.MachineGarbage
import Marwood.Lemmas.PolicyAllocBound
import Marwood.Lemmas.PolicyCount
import Marwood.Lemmas.PolicyGc
import Marwood.Lemmas.GoodGc
/-!
# A collection of the concrete machine is a `gcPoint` of the policy specification (C12, session level)

`cgc force s` (`Vm/ConcreteHeap.lean`: `Heap.runGc` of the C03 model through the erasure, result copied back by
`liftGc`) acts on `(chunk, capacity, used)` as `HeapPolicy.gcPoint force live` with
`live = liveCount s` = the number of cells reachable from the machine roots `rootsOf s` through semantic references.
In the vocabulary of `Lemmas/PolicyRun.HRun`: one step `.gcPoint force (liveCount s)` from `toHeap s.heap` to
`toHeap (cgc force s).heap`.

Hypotheses on the state the collection sees (`GcOk`): the invariant `GoodI` (well-formed heap, allocated roots, kind
discipline), the decoding discipline of code objects `CodePlain`, and the physical size bound on the heap the
collection returns (`Small`, needed to tell addresses from the `usize::MAX` sentinel).
-/
namespace Marwood.Lemmas.PolicySessionGc
open Marwood Marwood.Vm Marwood.Vm.Concrete Marwood.Lemmas.Sim Marwood.Lemmas.Good
open Marwood.Heap (GcState Heap WFHeap RootsOk Roots)
open Marwood.Spec Marwood.Spec.HeapPolicy
open Marwood.Lemmas.GcSafety Marwood.Lemmas.HeapOps Marwood.Lemmas.HeapWF Marwood.Lemmas.PolicyGc
open Marwood.Lemmas.PolicyPlain Marwood.Lemmas.PolicyRefine Marwood.Lemmas.PolicyRun Marwood.Lemmas.PolicyCount
open Marwood.Lemmas.PolicyAlloc Marwood.Lemmas.MachineGarbage
open Classical

/-- **live data of a machine state**: the number of heap cells reachable from the roots `run_gc` enumerates
    (global bindings, stack up to `sp`, `acc`, running code, current environment) through semantic references -/
noncomputable def liveCount (s : St CHeap) : Nat :=
  ((List.range s.heap.cells.size).filter fun x => decide (Live (toHeap s.heap) (rootsOf s) x)).length

theorem liveCount_le_size (s : St CHeap) : liveCount s ≤ s.heap.cells.size := by
  unfold liveCount
  have := List.length_filter_le (fun x => decide (Live (toHeap s.heap) (rootsOf s) x)) (List.range s.heap.cells.size)
  simpa using this

/-- what is asked of a state in which a collection runs -/
structure GcOk (force : Bool) (s : St CHeap) : Prop where
  good : GoodI s
  code : CodePlain s.heap
  small : Small (cgc force s).heap

theorem live_lt {h : Heap} {r : Roots} {x : Nat} (hl : Live h r x) : x < h.cells.size := by
  cases hl with
  | root _ h2 => exact h2
  | step _ _ h3 => exact h3

theorem filter_range_extend (p : Nat → Bool) (n n' : Nat) (hle : n ≤ n') (hp : ∀ x, p x = true → x < n) :
    ((List.range n').filter p).length = ((List.range n).filter p).length := by
  obtain ⟨d, rfl⟩ := Nat.exists_eq_add_of_le hle
  rw [List.range_add, List.filter_append, List.length_append]
  have : (List.map (fun x => n + x) (List.range d)).filter p = [] := by
    rw [List.filter_eq_nil_iff]
    intro a ha
    obtain ⟨b, _, rfl⟩ := List.mem_map.mp ha
    intro hpa
    have := hp _ hpa
    omega
  rw [this]; rfl

/-- on a well-formed heap with allocated roots `run_gc` neither panics nor runs out of fuel -/
theorem runGc_total (force : Bool) (h : Heap) (r : Roots) (wf : WFHeap true h) (hr : RootsOk h (r.refs true)) :
    Heap.runGc true force h r = .ok (.skipped h) ∨ ∃ h', Heap.runGc true force h r = .ok (.collected h') := by
  obtain ⟨h1, h2, hm, hsw, cs⟩ := collect_spec true h (r.refs true) wf.sizes wf.no_used
  have wf2 := collect_wf true h (r.refs true) h2 wf hr cs
  obtain ⟨h3, hg, _, _⟩ := grow_spec h2 wf2.sizes wf2.shape
  unfold Heap.runGc
  simp only [usedSize_ok wf.toWFCore, bind, Except.bind, hm, hsw, usedSize_ok wf2.toWFCore, hg]
  split
  · exact .inl rfl
  · split
    · exact .inr ⟨_, rfl⟩
    · exact .inr ⟨_, rfl⟩

/-- the facts about a collecting `cgc`: the erasure of the returned heap is the model's result, the invariant
    holds of it, and its `used` counter is the live count of the state the collection saw -/
theorem cgc_collected {force : Bool} {s : St CHeap} (ok : GcOk force s) {h' : Heap}
    (hrun : Heap.runGc true force (toHeap s.heap) (rootsOf s) = .ok (.collected h')) :
    toHeap (cgc force s).heap = h' ∧ WFHeap true h' ∧ (proj h').used = liveCount s := by
  have g := ok.good
  have wf := g.hg.wf
  have hph := plainHeap_toHeap g.hg.plain ok.code
  have hpr := plainRoots_rootsOf (s := s) g.hg.plain
  have e : cgc force s = { s with heap := liftGc s.heap h' } := by simp only [cgc, hrun]
  have hb' : h'.cells.size ≤ 2 ^ 63 := by
    have sm := ok.small
    rw [e] at sm
    have : 2 * h'.cells.size ≤ 2 ^ 63 := by simpa [Small, liftGc] using sm
    omega
  have wf' := runGc_wf true force _ _ h' wf g.roots hb' hrun
  have gs := runGc_spec true force _ _ h' wf.sizes wf.no_used wf.shape hrun
  have L := lifted wf wf' gs
  have eh : toHeap (cgc force s).heap = h' := by rw [e]; exact L.erase
  refine ⟨eh, wf', ?_⟩
  show h'.cells.size - h'.free.length = _
  rw [used_eq_count_nonFree true h' wf'.toWFCore]
  have hiff : ∀ x, h'.NonFree x ↔ Live (toHeap s.heap) (rootsOf s) x := by
    intro x
    rw [gcSpec_nonFree_iff true _ _ h' gs x]
    exact reachable_iff_live _ _ wf.sizes hph hpr x
  have hsz : (toHeap s.heap).cells.size = s.heap.cells.size := by simp [toHeap]
  unfold liveCount
  have hcongr : ((List.range h'.cells.size).filter fun x => decide (h'.NonFree x)) =
      ((List.range h'.cells.size).filter fun x => decide (Live (toHeap s.heap) (rootsOf s) x)) := by
    apply List.filter_congr
    intro x _
    simp only [decide_eq_decide]
    exact hiff x
  rw [hcongr]
  apply filter_range_extend
  · rw [← hsz]; exact gs.size_le
  · intro x hx
    rw [← hsz]
    exact live_lt (of_decide_eq_true hx)

/-- **a collection of the concrete machine is the policy's `gcPoint`**, with `live` = the number of cells
    reachable from the roots of the state it ran in; the allocator invariant holds afterwards -/
theorem cgc_is_gcPoint {force : Bool} {s : St CHeap} (ok : GcOk force s) :
    proj (toHeap (cgc force s).heap) = gcPoint force (liveCount s) (proj (toHeap s.heap)) ∧
    HInv (cgc force s).heap ∧
    ∀ (ops : List HeapPolicy.Op) (hf : Heap), HRun true (toHeap (cgc force s).heap) ops hf →
      HRun true (toHeap s.heap) (.gcPoint force (liveCount s) :: ops) hf := by
  have g := ok.good
  have wf := g.hg.wf
  have pre : Pre (toHeap s.heap) := pre_of_inv (HInv.of_wf wf)
  rcases runGc_total force _ (rootsOf s) wf g.roots with hrun | ⟨h', hrun⟩
  · have e : cgc force s = s := by simp only [cgc, hrun]
    have hr := runGc_refines true force _ _ _ wf.sizes wf.no_used wf.shape hrun
    simp only at hr
    rw [e]
    refine ⟨?_, HInv.of_wf wf, fun ops hf h => .skipped pre hrun h⟩
    unfold gcPoint
    rw [hr.2]; rfl
  · obtain ⟨eh, wf', hu⟩ := cgc_collected ok hrun
    have hr := runGc_refines true force _ _ _ wf.sizes wf.no_used wf.shape hrun
    simp only at hr
    rw [eh]
    refine ⟨by rw [← hu]; exact hr.2, HInv.of_wf (by rw [eh]; exact wf'), ?_⟩
    intro ops hf h
    rw [← hu]
    exact .collected pre hrun h

/-- the collector never grows the heap by more than one growth step, whatever is live -/
theorem gcPoint_capacity_le (force : Bool) (live : Nat) (p : PState) (hle : p.capacity ≤ Heap.grownSize p.chunk p.capacity) :
    (gcPoint force live p).capacity ≤ Heap.grownSize p.chunk p.capacity := by
  unfold gcPoint
  split
  · split
    · exact Nat.le_refl _
    · exact hle
  · exact hle

end Marwood.Lemmas.PolicySessionGc
