import Marwood.Lemmas.EnvTaintStepB
import Marwood.Lemmas.EnvTaintStepC
import Marwood.Lemmas.EnvTaintStepD
import Marwood.Lemmas.EnvTaintGc
/-!
# "No value leads to a capturing lambda" is an invariant of the real machine

The shape of `Lemmas/ProcInvMain.lean` for `capAt` ("heap cell `p` is a lambda with a non-empty environment map",
`Vm/EnvInvCheck.lean`).

* `TInv s` (`Lemmas/EnvTaintDefs.lean`): the heap clauses `HP`, the live stack cells, and `acc` -- unless `acc` is the
  immediate the `MOVIMM _ %acc` before the CLOSURE under `ip` just loaded (`atSiteB`) -- never hold `Ptr(p)` with `p` a
  capturing lambda. `PInv s`: the same with `acc` constrained unconditionally.
* In a state at such a site the instruction under `ip` is CLOSURE (`TInv.pinv_of_not_closure`): every other opcode
  starts from `PInv` and ends in `PInv` (MOVIMM: in `TInv`, `pv_movImm`); CLOSURE starts from `TInv` and overwrites
  `acc` (`pv_closure`).
* `tinv_step` -- one successful instruction of `run_one` over `concreteOps ext`; `tinv_gc` -- a collection at any
  boundary; `onError_tinv`, `onDone_tinv`, `prepare_tinv` -- the epilogues and `prepare_eval`;
  `stateTB_sound` -- the executable check (`Vm/EnvInvCheck.lean: stateTB`) implies `TInv`.
-/
namespace Marwood.Lemmas.Taint
open Marwood.Lemmas.Good Marwood Marwood.Vm Marwood.Vm.Verify Marwood.Vm.Concrete Marwood.Lemmas.Sim
open Marwood.Heap (GcState)
open StepC

/-- in a state at a `MOVIMM _ %acc; CLOSURE` site the instruction under `ip` is CLOSURE: elsewhere `acc` is clean -/
theorem TInv.pinv_of_not_closure {s : St CHeap} (p : TInv s)
    (hn : ∀ l, lambdaAt s.heap s.ipL = some l → l.bc[s.ipO]? ≠ some (.opcode .closureAcc)) : PInv s := by
  refine ⟨p.hp, ?_, p.stk⟩
  rcases p.acc with h | h
  · exact h
  · obtain ⟨l, j, k1, k2, _, _, _, k6⟩ := atSiteB_inv h
    exact absurd (by rw [k2]; exact k6) (hn l k1)

section
variable {ext : ExtOps} {s0 : St CHeap}

theorem pv_tcall {s' : St CHeap} {b : Bool} (ep : ExtTaint ext) (ecl : ExtCodeLawsV ext) (g : GoodI s0)
    (ci : CInvG IsValue s0.heap) (sd : StackDisc s0) (p : PInv s0) (hop : opAt s0 .tcallAcc)
    (hx : exec (concreteOps ext) .tcallAcc (nx s0) = .ok (s', b)) : PInv s' := by
  unfold exec at hx
  obtain ⟨s1, h1, hx⟩ := bind_ok hx
  cases hx
  have hblk : ArgBlock (nx s0).stack (nx s0).stack.sp := sd.call (.inr hop)
  have hfl : (nx s0).bp + 4 ≤ (nx s0).stack.sp := by
    obtain ⟨l, hl, hop'⟩ := hop
    exact sd.frameLive l hl (.inr hop')
  unfold stepTCall at h1
  cases hc : (concreteOps ext).callee (nx s0).heap (nx s0).acc with
  | builtin id => rw [hc] at h1; exact runBuiltin_pv ep ecl g.nx ci hblk p.nx h1
  | continuation c => rw [hc] at h1; exact invokeCont_pv g.nx p.nx hc h1
  | other => rw [hc] at h1; cases h1
  | closure lam env =>
    rw [hc] at h1
    obtain ⟨lam', _, h1⟩ := bind_ok h1
    exact tcall_rest_pv p.nx hfl h1
  | lambda =>
    rw [hc] at h1
    obtain ⟨lam', _, h1⟩ := bind_ok h1
    exact tcall_rest_pv p.nx hfl h1

/-- the 15 opcodes other than CLOSURE, from a state whose `acc` is clean -/
theorem pv_exec (ep : ExtTaint ext) (ecl : ExtCodeLawsV ext) {s' : St CHeap} {b : Bool} (g : GoodI s0)
    (ci : CInvG IsValue s0.heap) (sd : StackDisc s0) (p : PInv s0) {op : Op} (hop : opAt s0 op)
    (hx : exec (concreteOps ext) op (nx s0) = .ok (s', b)) : TInv s' := by
  have lf : LF s0.heap := .of_cinv ci
  cases op with
  | cons => exact (pv_cons lf sd p hop hx).tinv
  | jmp => exact (pv_jmp p hx).tinv
  | jnt => exact (pv_jnt p hx).tinv
  | mov => exact (pv_mov g lf sd p hop hx).tinv
  | movImm => exact pv_movImm g lf p hop hx
  | push => exact (pv_push sd p hx).tinv
  | pushAcc => exact (pv_pushAcc p hx).tinv
  | pushImm => exact (pv_pushImm p hop hx).tinv
  | halt => exact (pv_halt p hx).tinv
  | vpushAcc => exact (pv_vpush ep g lf p hx).tinv
  | callAcc => exact (pv_call ep ecl g ci sd p hop hx).tinv
  | closureAcc => exact (pv_closure g lf p.tinv hx).tinv
  | enter => exact (pv_enter lf p hx).tinv
  | ret => exact (pv_ret sd p hop hx).tinv
  | tcallAcc => exact (pv_tcall ep ecl g ci sd p hop hx).tinv
  | varArg => exact (pv_varArg lf sd p hop hx).tinv

/-- **`TInv` is preserved by `run_one`** (real concrete machine, no guard) -/
theorem tinv_step (et : ExtTaint ext) (ecl : ExtCodeLawsV ext) {s s' : St CHeap} {b : Bool} (g : GoodI s)
    (ci : CInvG IsValue s.heap) (sd : StackDisc s) (p : TInv s) (hs : step (concreteOps ext) s = .ok (s', b)) :
    TInv s' := by
  rw [step_eq] at hs
  obtain ⟨⟨op, s1⟩, hro, hx⟩ := bind_ok hs
  obtain ⟨rfl, hop⟩ := readOpcode_inv hro
  by_cases hcl : op = .closureAcc
  · subst hcl
    exact (pv_closure g (.of_cinv ci) p hx).tinv
  · refine pv_exec et ecl g ci sd (p.pinv_of_not_closure ?_) hop hx
    intro l hl hc
    obtain ⟨l', hl', hop'⟩ := hop
    rw [hl] at hl'
    cases hl'
    rw [hc] at hop'
    cases hop'
    exact hcl rfl

end

/-! ## `prepare_eval`, the epilogues -/

/-- the law of the compiler inside `prepare_eval`: the heap it returns -- with the fresh code objects in it; the
    capturing ones are only referred to by `MOVIMM _ %acc; CLOSURE` sites -- satisfies `HP` (a parameter, like
    `CompGood`) -/
structure CompTaint (comp : CHeap → VCell → Outcome (CHeap × VCell)) : Prop where
  hp : ∀ (h : CHeap) (d : VCell) (h' : CHeap) (v : VCell), HP h → addrFree d = true → comp h d = .ok (h', v) → HP h'

/-- the state `prepare_eval` produces from an idle machine (`acc` and the stack wiped) satisfying `TInv` satisfies it -/
theorem prepare_tinv {comp : CHeap → VCell → Outcome (CHeap × VCell)} (cp : CompTaint comp) {s s' : St CHeap}
    {d : VCell} (p : TInv s) (hacc : s.acc = .undefined) (hst : ∀ c ∈ s.stack.cells, c = VCell.undefined)
    (hd : addrFree d = true) (hp : prepareEval comp s d = .ok s') : TInv s' := by
  obtain ⟨h', e, hc, rfl⟩ := prepareEval_inv hp
  refine PInv.tinv ⟨cp.hp _ _ _ _ p.hp hd hc, ?_, ?_⟩
  · show neE h' s.acc = true
    rw [hacc]; rfl
  · intro i v _ hv
    have : v = .undefined := hst v (List.mem_of_getElem? hv)
    subst this; rfl

/-- the error epilogue's reset (registers idle, stack wiped) keeps the clauses -/
theorem onError_tinv {s : St CHeap} (p : TInv s) : TInv (onError s) := by
  refine ⟨p.hp, .inl rfl, ?_⟩
  intro i v _ hv
  have hm : v ∈ List.replicate s.stack.cells.length VCell.undefined := List.mem_of_getElem? hv
  have : v = .undefined := (List.mem_replicate.mp hm).2
  subst this; rfl

/-- the success epilogue (stack wiped, everything else unchanged: `atSiteB` does not look at the stack) -/
theorem onDone_tinv {s : St CHeap} (p : TInv s) : TInv (onDone s) := by
  refine ⟨p.hp, p.acc, ?_⟩
  intro i v _ hv
  have hm : v ∈ List.replicate s.stack.cells.length VCell.undefined := List.mem_of_getElem? hv
  have : v = .undefined := (List.mem_replicate.mp hm).2
  subst this; rfl

/-! ## non-vacuity: the demo state of `Lemmas/VmOkDemo.lean`, and a state at a site -/

namespace Demo
open Marwood.Lemmas.Good.Demo

theorem sHalt_stateTB (o : Nat) : stateTB (sHalt o) = true := by
  show stateTB (sHalt 0) = true
  decide +kernel

/-- the demo states satisfy the clauses (through the executable check) -/
theorem sHalt_tinv (o : Nat) : TInv (sHalt o) := stateTB_sound (sHalt_stateTB o)

/-- a capturing lambda in cell 1, and in cell 2 a code object with the site `MOVIMM <Ptr(1)> %acc; CLOSURE` -/
def hCap : CHeap :=
  { hHalt with
    cells := #[.lambda { bc := [.opcode .halt], args := [], envmap := [] },
      .lambda { bc := [.opcode .halt], args := [], envmap := [(.undefined, .global)] },
      .lambda { bc := [.opcode .movImm, .ptr 1, .acc, .opcode .closureAcc, .opcode .halt], args := [], envmap := [] },
      .val .undefined]
    gc := #[.allocated, .allocated, .allocated, .free], free := [3] }

def sCap (l o : Nat) (a : VCell) : St CHeap := { sHalt o with heap := hCap, ipL := l, acc := a }

/-- the heap with the site passes; the state between the MOVIMM and the CLOSURE passes `stateTB` (hence `TInv`) but
    not the unconditional form -/
example : heapTB hCap = true := by decide +kernel

example : stateTB (sCap 2 3 (.ptr 1)) = true := by decide +kernel

example : TInv (sCap 2 3 (.ptr 1)) := stateTB_sound (by decide +kernel)

example : stateT0B (sCap 2 3 (.ptr 1)) = false := by decide +kernel

/-- the clauses are not trivially true: a state whose `acc` points to the capturing lambda anywhere else, or whose
    heap holds a pair / a global slot / a PUSHIMM immediate pointing to it, is rejected by the executable check -/
example : stateTB (sCap 2 0 (.ptr 1)) = false := by decide +kernel

example : stateTB (sCap 0 0 (.ptr 1)) = false := by decide +kernel

example : heapTB { hCap with cells := hCap.cells.setIfInBounds 3 (.val (.pair 0 1)) } = false := by decide +kernel

example : heapTB { hCap with
    cells := hCap.cells.setIfInBounds 3 (.lambda { bc := [.opcode .pushImm, .ptr 1], args := [], envmap := [] }) } =
    false := by decide +kernel

end Demo

end Marwood.Lemmas.Taint
