import Marwood.Lemmas.TransformEllDefs
/-!
# The per-variable cursors of `PatternEnvironment`

`get_expanded_binding` walks, for each ellipsis variable, through that variable's bindings in the flat
binding list: a cursor "at stage `j`" yields the `j`-th item bound to the variable and moves to stage
`j + 1`; at the end it answers `None`.
-/
namespace Marwood.Transform
open Marwood Marwood.Spec.Match

/-- `findKey` against `proj` -/
theorem findKey_spec (k : Datum) : ∀ (L : Bindings) (i0 : Nat),
    (findKey k L i0 = none ∧ proj k L = []) ∨
    (∃ i v, findKey k L i0 = some (i0 + i, v) ∧ i < L.length ∧ proj k L = v :: proj k (L.drop (i + 1))) := by
  intro L
  induction L with
  | nil => intro i0; left; exact ⟨rfl, rfl⟩
  | cons b L ih =>
    intro i0
    obtain ⟨k', v'⟩ := b
    by_cases hk : cellEq k' k = true
    · right
      exact ⟨0, v', by simp [findKey, hk], by simp, by simp [proj, hk]⟩
    · have hk' : cellEq k' k = false := by simpa using hk
      rcases ih (i0 + 1) with ⟨h1, h2⟩ | ⟨i, v, h1, h2, h3⟩
      · left; exact ⟨by simp [findKey, hk', h1], by simp [proj, hk', h2]⟩
      · right
        refine ⟨i + 1, v, ?_, by simp; omega, ?_⟩
        · simp only [findKey, hk', Bool.false_eq_true, if_false, h1]
          congr 2; omega
        · simp [proj, hk', h3]

def startOf : Option Nat → Nat
  | some pos => pos
  | none => 0

/-- cursor `c` of variable `x` is at stage `j` -/
def CurAt (B : Bindings) (x : Text) (c : Option Nat) (j : Nat) : Prop :=
  startOf c ≤ B.length ∧ proj (.sym x) (B.drop (startOf c)) = (proj (.sym x) B).drop j

theorem CurAt_none (B : Bindings) (x : Text) : CurAt B x none 0 := by
  simp [CurAt, startOf]

/-! ### `findIter` / `setIter` -/

theorem findIter_setIter_same (k : Datum) (v : Option Nat) : ∀ (it : List (Datum × Option Nat)) (c : Option Nat),
    findIter k it = some c → findIter k (setIter k v it) = some v := by
  intro it
  induction it with
  | nil => intro c h; simp [findIter] at h
  | cons e it ih =>
    intro c h
    obtain ⟨k', c'⟩ := e
    by_cases hk : cellEq k' k = true
    · simp [setIter, findIter, hk]
    · have hk' : cellEq k' k = false := by simpa using hk
      simp only [findIter, hk', Bool.false_eq_true, if_false] at h
      simp [setIter, findIter, hk', ih c h]

theorem findIter_setIter_other (x y : Text) (hxy : x ≠ y) (v : Option Nat) :
    ∀ (it : List (Datum × Option Nat)),
      findIter (.sym y) (setIter (.sym x) v it) = findIter (.sym y) it := by
  intro it
  induction it with
  | nil => rfl
  | cons e it ih =>
    obtain ⟨k', c'⟩ := e
    by_cases hk : cellEq k' (.sym x) = true
    · have hkx : k' = .sym x := by simpa using hk
      subst hkx
      simp [setIter, findIter, hxy]
    · have hk' : cellEq k' (.sym x) = false := by simpa using hk
      simp only [setIter, hk', Bool.false_eq_true, if_false, findIter, ih]

theorem setIter_keys (k : Datum) (v : Option Nat) : ∀ (it : List (Datum × Option Nat)),
    (setIter k v it).map Prod.fst = it.map Prod.fst := by
  intro it
  induction it with
  | nil => rfl
  | cons e it ih =>
    obtain ⟨k', c'⟩ := e
    by_cases hk : cellEq k' k = true
    · simp [setIter, hk]
    · have hk' : cellEq k' k = false := by simpa using hk
      simp [setIter, hk', ih]

/-! ### `get_expanded_binding` at a stage -/

theorem getExpandedBinding_eq (env : PEnv) (sym : Datum) (c : Option Nat)
    (hc : findIter sym env.iters = some c) :
    env.getExpandedBinding sym =
      if startOf c > env.bindings.length then .panic "get_expanded_binding: slice"
      else
        match findKey sym (env.bindings.drop (startOf c)) 0 with
        | some (i, v) => .ok (some v, { env with iters := setIter sym (some (startOf c + i + 1)) env.iters })
        | none => .ok (none, { env with iters := setIter sym none env.iters }) := by
  unfold PEnv.getExpandedBinding
  simp only [hc]
  cases c <;> rfl

theorem getExpandedBinding_absent (env : PEnv) (sym : Datum)
    (hc : findIter sym env.iters = none) : env.getExpandedBinding sym = .ok (none, env) := by
  unfold PEnv.getExpandedBinding
  simp only [hc]

theorem getExpandedBinding_hit (B : Bindings) (iters : List (Datum × Option Nat)) (x : Text)
    (c : Option Nat) (j : Nat) (d : Datum)
    (hc : findIter (.sym x) iters = some c) (hat : CurAt B x c j)
    (hd : (proj (.sym x) B)[j]? = some d) :
    ∃ c', PEnv.getExpandedBinding ⟨B, iters⟩ (.sym x) = .ok (some d, ⟨B, setIter (.sym x) (some c') iters⟩) ∧
      CurAt B x (some c') (j + 1) := by
  obtain ⟨hle, hpr⟩ := hat
  have hdrop : (proj (.sym x) B).drop j = d :: (proj (.sym x) B).drop (j + 1) := by
    have hj : j < (proj (.sym x) B).length := by
      rcases Nat.lt_or_ge j (proj (.sym x) B).length with h | h
      · exact h
      · rw [List.getElem?_eq_none h] at hd; cases hd
    rw [List.drop_eq_getElem_cons hj]
    rw [List.getElem?_eq_getElem hj] at hd
    cases hd; rfl
  rw [getExpandedBinding_eq _ _ c hc]
  have : ¬ (startOf c > B.length) := by omega
  simp only [this, if_false]
  rcases findKey_spec (.sym x) (B.drop (startOf c)) 0 with ⟨_, h2⟩ | ⟨i, v, h1, h2, h3⟩
  · rw [hpr, hdrop] at h2; cases h2
  · rw [hpr, hdrop] at h3
    injection h3 with hv htl
    subst hv
    simp only [Nat.zero_add] at h1
    rw [h1]
    refine ⟨startOf c + i + 1, rfl, ?_⟩
    simp only [List.length_drop] at h2
    refine ⟨?_, ?_⟩
    · show startOf c + i + 1 ≤ B.length
      omega
    · show proj (.sym x) (B.drop (startOf c + i + 1)) = _
      rw [htl, List.drop_drop]
      congr 2

theorem getExpandedBinding_miss (B : Bindings) (iters : List (Datum × Option Nat)) (x : Text)
    (c : Option Nat) (j : Nat)
    (hc : findIter (.sym x) iters = some c) (hat : CurAt B x c j)
    (hd : (proj (.sym x) B).length ≤ j) :
    PEnv.getExpandedBinding ⟨B, iters⟩ (.sym x) = .ok (none, ⟨B, setIter (.sym x) none iters⟩) := by
  obtain ⟨hle, hpr⟩ := hat
  have hdrop : (proj (.sym x) B).drop j = [] := List.drop_eq_nil_of_le hd
  rw [getExpandedBinding_eq _ _ c hc]
  have : ¬ (startOf c > B.length) := by omega
  simp only [this, if_false]
  rcases findKey_spec (.sym x) (B.drop (startOf c)) 0 with ⟨h1, _⟩ | ⟨i, v, _, _, h3⟩
  · rw [h1]
  · rw [hpr, hdrop] at h3; cases h3

/-! ### what `expand` never touches: the bindings and the keys of the cursors -/

structure SameKeys (env env' : PEnv) : Prop where
  b : env'.bindings = env.bindings
  k : env'.iters.map Prod.fst = env.iters.map Prod.fst

theorem SameKeys.refl (env : PEnv) : SameKeys env env := ⟨rfl, rfl⟩
theorem SameKeys.trans {a b c : PEnv} (h1 : SameKeys a b) (h2 : SameKeys b c) : SameKeys a c :=
  ⟨h2.b.trans h1.b, h2.k.trans h1.k⟩

theorem getExpandedBinding_sameKeys (env env' : PEnv) (sym : Datum) (o : Option Datum)
    (h : env.getExpandedBinding sym = .ok (o, env')) : SameKeys env env' := by
  cases hfi : findIter sym env.iters with
  | none => rw [getExpandedBinding_absent _ _ hfi] at h; cases h; exact SameKeys.refl _
  | some c =>
    rw [getExpandedBinding_eq _ _ c hfi] at h
    split at h
    · cases h
    · split at h <;> cases h <;> exact ⟨rfl, setIter_keys _ _ _⟩

theorem getBinding_sameKeys (p : Pattern) (env env' : PEnv) (sym : Datum) (o : Option Datum)
    (h : env.getBinding p sym = .ok (o, env')) : SameKeys env env' := by
  unfold PEnv.getBinding at h
  split at h
  · cases h; exact SameKeys.refl _
  · split at h
    · exact getExpandedBinding_sameKeys _ _ _ _ h
    · cases h; exact SameKeys.refl _

theorem resetIters_sameKeys (env : PEnv) : SameKeys env env.resetIters :=
  ⟨rfl, by simp [PEnv.resetIters, Function.comp_def]⟩

theorem expand_sameKeys (ell : Datum) (p : Pattern) : ∀ f : Nat,
    (∀ T env o env', expand ell p f T env = .ok (o, env') → SameKeys env env') ∧
    (∀ cur rest v env o env', expandLoop ell p f cur rest v env = .ok (o, env') → SameKeys env env') := by
  intro f
  induction f with
  | zero =>
    exact ⟨fun T env o env' h => by simp [expand] at h,
           fun cur rest v env o env' h => by simp [expandLoop] at h⟩
  | succ f ih =>
    obtain ⟨ih1, ih2⟩ := ih
    constructor
    · intro T env o env' h
      cases T with
      | sym x =>
        unfold expand at h
        split at h
        · exact getBinding_sameKeys _ _ _ _ _ h
        · cases h; exact SameKeys.refl _
      | pair a d => unfold expand at h; exact ih2 _ _ _ _ _ _ h
      | _ => unfold expand at h; cases h; exact SameKeys.refl _
    · intro cur rest v env o env' h
      unfold expandLoop at h
      simp only at h
      cases hc : expand ell p f cur env with
      | ok r =>
        obtain ⟨oc, envc⟩ := r
        have h1 := ih1 _ _ _ _ hc
        rw [hc] at h
        cases oc with
        | some cell =>
          simp only at h
          split at h
          · exact h1.trans (ih2 _ _ _ _ _ _ h)
          · split at h
            · exact h1.trans (ih2 _ _ _ _ _ _ h)
            · cases h; exact h1
        | none =>
          simp only at h
          split at h
          · cases h; exact h1
          · split at h
            · exact (h1.trans (resetIters_sameKeys _)).trans (ih2 _ _ _ _ _ _ h)
            · cases h; exact h1.trans (resetIters_sameKeys _)
      | err x => rw [hc] at h; cases h
      | panic m => rw [hc] at h; cases h
      | fuel => rw [hc] at h; cases h

end Marwood.Transform
