import Marwood.Lemmas.GoodMain
import Marwood.Vm.InlineCheck
/-!
# VPUSH leaves the reference to the vector in `%acc` (fix 43d0413)

* `vpush_acc_popped` — whatever the unmodelled push does, the accumulator after a successful VPUSH **is** the cell
  that was on top of the live stack (a cell the invariants already speak about: a root).
* `vpush_acc_ptr` — on a `GoodI` state that passes the executable discipline `noInlineVecB`, and for a push
  that succeeds only on a vector (`VecPushLaw`), that cell is a pointer to an allocated cell of the heap which
  holds a vector; in particular `%acc` is not a dereferenced vector afterwards.
* `vpush_pinned_inline` — the old arm (`stepVpushPinned`) on a three-cell heap: `%acc` becomes the inline vector,
  `noInlineVecB` fails on the successor, and the new arm keeps the pointer on the same state.
-/
namespace Marwood.Lemmas.Good
open Marwood Marwood.Vm Marwood.Vm.Concrete Marwood.Lemmas.Sim
open Marwood.Heap (GcState WFHeap RootsOk vrefs vrefsList crefs)

/-- the unmodelled `vector.push` succeeds only on (the representative of) a vector: Rust's `as_vector()?` -/
def VecPushLaw (ext : ExtOps) : Prop :=
  ∀ (h : CHeap) (vec a : VCell) (h' : CHeap), ext.vectorPush h vec a = .ok h' → vec = .opaque "v"

section
variable {ext : ExtOps}

/-- after VPUSH `%acc` is the popped cell, the stack lost exactly that cell -/
theorem vpush_acc_popped {s s' : St CHeap} {b : Bool} (hop : opAt s .vpushAcc)
    (hs : step (concreteOps ext) s = .ok (s', b)) :
    0 < s.stack.sp ∧ s.stack.cells[s.stack.sp]? = some s'.acc ∧
      s'.stack = { s.stack with sp := s.stack.sp - 1 } ∧
      ext.vectorPush s.heap (deref s.heap s'.acc) s.acc = .ok s'.heap := by
  rw [step_eq] at hs
  obtain ⟨⟨op, s1⟩, hro, hx⟩ := bind_ok hs
  obtain ⟨rfl, hop'⟩ := readOpcode_inv hro
  obtain ⟨l, hl, hc⟩ := hop
  obtain ⟨l', hl', hc'⟩ := hop'
  rw [hl] at hl'; cases hl'
  rw [hc] at hc'; cases hc'
  unfold exec at hx
  obtain ⟨⟨v, st1⟩, hp1, hx⟩ := bind_ok hx
  obtain ⟨h', h2, hx⟩ := bind_ok hx
  cases hx
  obtain ⟨hpos, hcell, rfl⟩ := StepB.pop_inv hp1
  exact ⟨hpos, hcell, rfl, h2⟩

theorem getAt_inlineVec {h : CHeap} {p : Nat} (hc : h.cells.toList.all cellNoInlineVec = true)
    (hg : getAt h p = .opaque "v") : ∃ es, h.cells[p]? = some (.vector es) := by
  unfold getAt at hg
  cases hp : h.cells[p]? with
  | none => rw [hp] at hg; cases hg
  | some c =>
    rw [hp] at hg
    cases c with
    | vector es => exact ⟨es, rfl⟩
    | val v =>
      have hv : v = .opaque "v" := hg
      have hm : (CCell.val v) ∈ h.cells.toList := List.mem_of_getElem? (by rw [Array.getElem?_toList]; exact hp)
      have := (List.all_eq_true.mp hc) _ hm
      rw [hv] at this
      exact absurd this (by decide)
    | lexEnv ss => exact absurd (show VCell.opaque "e" = VCell.opaque "v" from hg) (by decide)
    | lambda l => exact absurd (show VCell.lambda 0 = VCell.opaque "v" from hg) (by decide)
    | cont c => exact absurd (show VCell.continuation 0 = VCell.opaque "v" from hg) (by decide)

/-- **`%acc` after VPUSH is a pointer to an allocated vector cell** -/
theorem vpush_acc_ptr (vl : VecPushLaw ext) {s s' : St CHeap} {b : Bool} (g : GoodI s)
    (ni : noInlineVecB s = true) (hop : opAt s .vpushAcc) (hs : step (concreteOps ext) s = .ok (s', b)) :
    ∃ p es, s'.acc = .ptr p ∧ s.stack.cells[s.stack.sp]? = some (.ptr p) ∧
      s.heap.cells[p]? = some (.vector es) ∧ NF s.heap p ∧ isInlineVec s'.acc = false := by
  obtain ⟨_, hcell, _, hvp⟩ := vpush_acc_popped hop hs
  have hd := vl _ _ _ _ hvp
  simp only [noInlineVecB, Bool.and_eq_true] at ni
  obtain ⟨⟨⟨_, nstk⟩, _⟩, ncells⟩ := ni
  have hmem : s'.acc ∈ s.stack.cells := List.mem_of_getElem? hcell
  have hni : (!isInlineVec s'.acc) = true := (List.all_eq_true.mp nstk) _ hmem
  have hv : VRefsOk s.heap s'.acc := roots_stack g.roots (Nat.le_refl _) hcell
  cases ha : s'.acc with
  | ptr p =>
    rw [ha] at hd hv hcell
    obtain ⟨es, he⟩ := getAt_inlineVec ncells hd
    exact ⟨p, es, rfl, hcell, he, VRefsOk.ptr.mp hv, rfl⟩
  | _ =>
    rw [ha] at hd hni
    first
      | (cases hd; exact absurd hni (by decide))
      | cases hd

end

/-! ## the pinned counter-witness -/

namespace VpushWitness

/-- a push that succeeds exactly on a vector (the heap effect, an element appended through the `Rc`, is not part of
    what the witness is about) -/
def extPush : ExtOps :=
  { builtinKind := fun _ _ => .generic
    builtinEval := fun _ _ _ => .err .expectedType
    compileEval := fun _ _ => .err .expectedType
    vectorPush := fun h vec _ => if isInlineVec vec then .ok h else .err .expectedType }

theorem extPush_law : VecPushLaw extPush := by
  intro h vec a h' he
  have he' : (if isInlineVec vec then Outcome.ok h else .err .expectedType) = .ok h' := he
  split at he'
  · rename_i hv
    cases vec <;> simp only [isInlineVec, Bool.false_eq_true] at hv
    rename_i t
    have : t = "v" := by simpa using hv
    rw [this]
  · cases he'

/-- code `VPUSH; HALT` at cell 0, an empty vector at cell 1 -/
def h0 : CHeap :=
  { chunk := 4
    cells := #[.lambda { bc := [.opcode .vpushAcc, .opcode .halt], args := [], envmap := [] }, .vector [],
      .val .undefined, .val .undefined]
    gc := #[.allocated, .allocated, .free, .free], free := [2, 3], symtab := [], globSyms := [], globals := #[] }

/-- `%ip` at the VPUSH, the pointer to the vector on top of the stack, the element `#t` in `%acc` -/
def s0 : St CHeap :=
  { heap := h0, stack := { cells := [.undefined, .ptr 1], sp := 1 }, acc := .bool true, ep := usizeMax, ipL := 0,
    ipO := 0, bp := 0 }

/-- `%acc` of a successful step -/
def accAfter (r : Outcome (St CHeap × Bool)) : Option VCell :=
  match r with
  | .ok p => some p.1.acc
  | _ => none

/-- the discipline on the successor of a successful step -/
def checkAfter (r : Outcome (St CHeap × Bool)) : Option Bool :=
  match r with
  | .ok p => some (noInlineVecB p.1)
  | _ => none

end VpushWitness

open VpushWitness in
/-- **the old VPUSH put a dereferenced vector in `%acc`**: on a state that satisfies the discipline, the pinned arm
    succeeds, `%acc` is the inline vector (not the popped pointer `Ptr 1`) and the discipline fails on the
    successor; the arm of the model (= the repaired code) keeps the pointer and the discipline on the same state -/
theorem vpush_pinned_inline :
    noInlineVecB s0 = true ∧
    accAfter (stepVpushPinned (concreteOps extPush) { s0 with ipO := 1 }) = some (.opaque "v") ∧
    checkAfter (stepVpushPinned (concreteOps extPush) { s0 with ipO := 1 }) = some false ∧
    accAfter (step (concreteOps extPush) s0) = some (.ptr 1) ∧
    checkAfter (step (concreteOps extPush) s0) = some true := by
  refine ⟨by decide, by decide, by decide, by decide, by decide⟩

end Marwood.Lemmas.Good
