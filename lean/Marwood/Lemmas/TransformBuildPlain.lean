import Marwood.Lemmas.TransformExpandPlain
/-!
# `Pattern::build` on plain patterns, and what plain matches bind
-/
namespace Marwood.Transform
open Marwood Marwood.Spec.Match

theorem isVariableCandidate_sym (s : Setup) (p : Pattern) (x : Text)
    (he : p.ellipsis = s.ell) (hl : p.literals = s.lits) (hx : x ≠ s.es) :
    p.isVariableCandidate (.sym x) = s.ctx.isVar x := by
  unfold Pattern.isVariableCandidate Pattern.isLiteral Pattern.isEllipsis
  rw [he, hl, s.lits_any]
  simp only [isSymbol, Setup.ell, underscore, Ctx.isVar, s.isEll_iff, cellEq_sym_right, beq_text]
  by_cases h : x = ['_'] <;> simp [h, hx]

theorem patVars_ofList_cons (c : Ctx) (it : Datum) (rest : List Datum) :
    patVars c (Datum.ofList (it :: rest)) = patVars c it ++ patVars c (Datum.ofList rest) := by
  simp [Datum.ofList, patVars]

structure SameBut (p0 p : Pattern) (vars : List Datum) : Prop where
  vars : p.variables = p0.variables ++ vars
  exp : p.expanded = p0.expanded
  ell : p.ellipsis = p0.ellipsis
  lits : p.literals = p0.literals
  expr : p.expr = p0.expr

theorem buildLoop_plain (s : Setup) : ∀ (f : Nat) (imp : Bool) (len idx : Nat) (items : List Datum)
    (ct : Nat) (p0 p : Pattern), p0.ellipsis = s.ell → p0.literals = s.lits →
    (∀ it ∈ items, plain s.es it = true) →
    buildLoop f imp len idx items ct p0 = .ok p →
    SameBut p0 p ((patVars s.ctx (Datum.ofList items)).map Datum.sym) := by
  intro f
  induction f with
  | zero => intro imp len idx items ct p0 p _ _ _ h; simp [buildLoop] at h
  | succ f ih =>
    intro imp len idx items ct p0 p he hl hit h
    cases items with
    | nil =>
      simp only [buildLoop] at h
      cases h
      exact ⟨by simp [Datum.ofList, patVars], rfl, rfl, rfl, rfl⟩
    | cons it rest =>
      have hrest : ∀ x ∈ rest, plain s.es x = true := fun x hx => hit x (List.mem_cons_of_mem _ hx)
      have hpit : plain s.es it = true := hit it (by simp)
      have hpk : peekIs p0.ellipsis rest = false := by rw [he]; exact peekIs_plain s rest hrest
      unfold buildLoop at h
      simp only [hpk] at h
      rw [patVars_ofList_cons]
      cases hiteq : it with
      | sym x =>
        rw [hiteq] at h hpit
        have hx : x ≠ s.es := by simpa [plain] using hpit
        have hne : p0.isEllipsis (.sym x) = false := by
          simp [Pattern.isEllipsis, he, Setup.ell, hx]
        simp only [hne, Bool.false_eq_true, if_false, isVariableCandidate_sym s p0 x he hl hx] at h
        by_cases hv : s.ctx.isVar x = true
        · simp only [hv, if_true] at h
          by_cases hdup : p0.isVariable (.sym x) = true
          · simp [hdup] at h
          · simp only [hdup, Bool.false_eq_true, if_false] at h
            have := ih imp len (idx + 1) rest ct _ p (by exact he) (by exact hl) hrest h
            exact ⟨by rw [this.vars]; simp [patVars, hv], this.exp, this.ell, this.lits, this.expr⟩
        · simp only [hv, Bool.false_eq_true, if_false] at h
          have := ih imp len (idx + 1) rest ct _ p he hl hrest h
          exact ⟨by rw [this.vars]; simp [patVars, hv], this.exp, this.ell, this.lits, this.expr⟩
      | pair a d =>
        rw [hiteq] at h hpit
        simp only [Bool.false_eq_true, if_false] at h
        have hT : plain.plainTail s.es (.pair a d) = true := by simpa [plain, plain.plainTail] using hpit
        obtain ⟨hdeq, hdel, _⟩ := plainTail_spec hT
        cases hn : buildLoop f (isImproperList (.pair a d)) (Marwood.Transform.len (.pair a d)) 0
            (iterList (.pair a d)) 0 p0 with
        | ok p1 =>
          rw [hn] at h
          simp only at h
          have h1 := ih _ _ _ _ _ _ p1 he hl hdel hn
          rw [← hdeq] at h1
          have h2 := ih imp len (idx + 1) rest ct p1 p (by rw [h1.ell, he]) (by rw [h1.lits, hl]) hrest h
          exact ⟨by rw [h2.vars, h1.vars]; simp, by rw [h2.exp, h1.exp], by rw [h2.ell, h1.ell],
            by rw [h2.lits, h1.lits], by rw [h2.expr, h1.expr]⟩
        | err e => rw [hn] at h; cases h
        | panic m => rw [hn] at h; cases h
        | fuel => rw [hn] at h; cases h
      | vec v => rw [hiteq] at hpit; simp [plain] at hpit
      | _ =>
        rw [hiteq] at h
        simp only at h
        have := ih imp len (idx + 1) rest ct p0 p he hl hrest h
        exact ⟨by rw [this.vars]; simp [patVars], this.exp, this.ell, this.lits, this.expr⟩

end Marwood.Transform
