import Marwood.Lemmas.TransformSpec
/-!
# The matcher on plain patterns (class "no ellipsis"): the state machine computes `specMatch`

For a pattern in which the ellipsis does not occur (proper lists, no vectors; literals, `_` and any
custom ellipsis name allowed) `pattern_match` answers `true` exactly when R7RS matches, and then the
bindings it pushed are the spec's bindings, in the same order.
-/
namespace Marwood.Transform
open Marwood Marwood.Spec.Match

/-- the flat bindings the matcher pushes for ellipsis-free bindings of the spec -/
def flat1 : Binds → Bindings
  | [] => []
  | (s, .one d) :: bs => (.sym s, d) :: flat1 bs
  | (_, .many _) :: bs => flat1 bs

theorem flat1_append (a b : Binds) : flat1 (a ++ b) = flat1 a ++ flat1 b := by
  induction a with
  | nil => rfl
  | cons x xs ih =>
    obtain ⟨s, t⟩ := x
    cases t <;> simp [flat1, ih]

theorem plain_ne_ell {es : Text} {q : Datum} (h : plain es q = true) : cellEq q (.sym es) = false := by
  cases q <;> simp_all [plain]

theorem plainTail_spec {es : Text} : ∀ {P : Datum}, plain.plainTail es P = true →
    P = Datum.ofList (iterList P) ∧ (∀ p ∈ iterList P, plain es p = true) ∧ endsInNil P = true := by
  intro P
  induction P with
  | pair a d _ ihd =>
    intro h
    simp only [plain.plainTail, Bool.and_eq_true] at h
    obtain ⟨h1, h2, h3⟩ := ihd h.2
    refine ⟨?_, ?_, ?_⟩
    · simp only [iterList, Datum.ofList]; rw [← h1]
    · intro p hp
      simp only [iterList, List.mem_cons] at hp
      rcases hp with rfl | hp
      · exact h.1
      · exact h2 p hp
    · simpa [endsInNil] using h3
  | nil => intro _; simp [iterList, Datum.ofList, endsInNil]
  | _ => intro h; simp [plain.plainTail] at h

theorem endsInNil_ofList : ∀ {E : Datum}, endsInNil E = true → E = Datum.ofList (iterList E) := by
  intro E
  induction E with
  | pair a d _ ihd => intro h; simp only [endsInNil] at h; simp only [iterList, Datum.ofList]; rw [← ihd h]
  | nil => intro _; rfl
  | _ => intro h; simp [endsInNil] at h

theorem iterList_ofList (xs : List Datum) : iterList (Datum.ofList xs) = xs := by
  induction xs with
  | nil => rfl
  | cons x xs ih => simp [Datum.ofList, iterList, ih]

theorem endsInNil_ofList' (xs : List Datum) : endsInNil (Datum.ofList xs) = true := by
  induction xs with
  | nil => rfl
  | cons x xs ih => simpa [Datum.ofList, endsInNil] using ih

/-- a plain proper-list pattern only matches proper lists -/
theorem specMatch_plain_proper (s : Setup) : ∀ (ps : List Datum), (∀ p ∈ ps, plain s.es p = true) →
    ∀ (E : Datum) (bs : Binds), specMatch s.ctx (Datum.ofList ps) E = some bs → endsInNil E = true := by
  intro ps
  induction ps with
  | nil =>
    intro _ E bs h
    simp only [Datum.ofList, specMatch_nil] at h
    split at h
    · subst_vars; rfl
    · cases h
  | cons p ps ih =>
    intro hp E bs h
    have hh : headNotEll s.ctx (Datum.ofList ps) = true := by
      cases ps with
      | nil => rfl
      | cons q qs =>
        simp only [Datum.ofList, headNotEll, s.isEllD_eq, Setup.ell]
        rw [plain_ne_ell (hp q (by simp))]; rfl
    simp only [Datum.ofList] at h
    rw [specMatch_pair _ _ _ _ hh] at h
    cases E with
    | pair e1 er =>
      simp only [consMatch] at h
      cases h1 : specMatch s.ctx p e1 with
      | none => simp [h1] at h
      | some b1 =>
        simp only [h1] at h
        cases h2 : specMatch s.ctx (Datum.ofList ps) er with
        | none => simp [h2] at h
        | some b2 =>
          simp only [endsInNil]
          exact ih (fun q hq => hp q (List.mem_cons_of_mem _ hq)) er b2 h2
    | _ => simp [consMatch] at h

end Marwood.Transform

namespace Marwood.Transform
open Marwood Marwood.Spec.Match

/-- what a verdict of the matcher must mean in terms of the spec -/
def MatchRel (s : Setup) (P E : Datum) (env : Bindings) (r : Bool × Bindings) : Prop :=
  (r.1 = true → ∃ bs, specMatch s.ctx P E = some bs ∧ r.2 = env ++ flat1 bs) ∧
  (r.1 = false → specMatch s.ctx P E = none)

theorem headNotEll_plain (s : Setup) (ps : List Datum) (hp : ∀ p ∈ ps, plain s.es p = true) :
    headNotEll s.ctx (Datum.ofList ps) = true := by
  cases ps with
  | nil => rfl
  | cons q qs =>
    simp only [Datum.ofList, headNotEll, s.isEllD_eq, Setup.ell]
    rw [plain_ne_ell (hp q (by simp))]; rfl

theorem peekIs_plain (s : Setup) (ps : List Datum) (hp : ∀ p ∈ ps, plain s.es p = true) :
    peekIs s.ell ps = false := by
  cases ps with
  | nil => rfl
  | cons q qs => simp only [peekIs, Setup.ell]; exact plain_ne_ell (hp q (by simp))

theorem endsInNil_pairOrNil {E : Datum} (h : endsInNil E = true) : (E.isPair || E.isNil) = true := by
  cases E <;> simp_all [endsInNil, Datum.isPair, Datum.isNil]

theorem isList_of_endsInNil {E : Datum} (h : endsInNil E = true) : isList E = E.isPair := by
  cases E <;> simp_all [endsInNil, isList, Datum.isPair]

/-- a plain list pattern does not match an atom or an improper list -/
theorem specMatch_plain_improper (s : Setup) {P E : Datum} (hP : plain.plainTail s.es P = true)
    (hE : endsInNil E = false) : specMatch s.ctx P E = none := by
  obtain ⟨hPeq, hPel, _⟩ := plainTail_spec hP
  cases hs : specMatch s.ctx P E with
  | none => rfl
  | some bs =>
    rw [hPeq] at hs
    have := specMatch_plain_proper s _ hPel E bs hs
    simp [this] at hE

theorem patternMatch_improper (ell : Datum) (lits : List Datum) (f : Nat) {P E : Datum} (env : Bindings)
    (hP : endsInNil P = true) (hE : endsInNil E = false) :
    patternMatch ell lits (f + 2) P E env = .ok (false, env) := by
  have hPp := endsInNil_pairOrNil hP
  unfold patternMatch
  by_cases h1 : (E.isPair || E.isNil) = true
  · -- an improper list
    have hEp : E.isPair = true := by cases E <;> simp_all [Datum.isPair, Datum.isNil, endsInNil]
    have hEl : isList E = false := by
      cases E <;> simp [Datum.isPair] at hEp
      simpa [isList, endsInNil] using hE
    by_cases hPpair : P.isPair = true
    · have hPl : isList P = true := by rw [isList_of_endsInNil hP]; exact hPpair
      simp [hPp, h1, hEp, hPpair, hEl, hPl]
    · have hPn : P = .nil := by cases P <;> simp_all [Datum.isPair, Datum.isNil, endsInNil]
      subst hPn
      cases E with
      | pair e1 er => simp [Datum.isPair, Datum.isNil, iterList, matchLoop]
      | _ => simp [Datum.isPair] at hEp
  · simp [hPp, h1]

/-- a pattern datum that is neither a symbol, a pair nor a vector matches by equality -/
def isDatumPat : Datum → Bool
  | .sym _ => false
  | .pair _ _ => false
  | .vec _ => false
  | _ => true

theorem specMatch_datum (c : Ctx) {p : Datum} (e : Datum) (h : isDatumPat p = true) :
    specMatch c p e = if cellEq p e = true then some [] else none := by
  cases p <;> simp [isDatumPat] at h <;> unfold specMatch <;> rfl

theorem specMatch_sym (s : Setup) (x : Text) (e : Datum) (hx : x ≠ s.es) :
    specMatch s.ctx (.sym x) e =
      if s.ctx.isLit x = true then (if e = .sym x then some [] else none)
      else if x = ['_'] then some [] else some [(x, .one e)] := by
  unfold specMatch
  simp [s.isEll_iff, hx, beq_text]

theorem rel_cons (s : Setup) {p e : Datum} {ps exprs : List Datum} {env : Bindings} {b1 : Binds}
    {r : Bool × Bindings} (hh : headNotEll s.ctx (Datum.ofList ps) = true)
    (h1 : specMatch s.ctx p e = some b1)
    (h2 : MatchRel s (Datum.ofList ps) (Datum.ofList exprs) (env ++ flat1 b1) r) :
    MatchRel s (Datum.ofList (p :: ps)) (Datum.ofList (e :: exprs)) env r := by
  simp only [MatchRel, Datum.ofList]
  rw [specMatch_pair _ _ _ _ hh]
  simp only [consMatch, h1]
  constructor
  · intro hr
    obtain ⟨bs, hbs, hr2⟩ := h2.1 hr
    exact ⟨b1 ++ bs, by simp [hbs], by rw [hr2, flat1_append, List.append_assoc]⟩
  · intro hr
    simp [h2.2 hr]

theorem rel_cons_none (s : Setup) {p e : Datum} {ps exprs : List Datum} {env env' : Bindings}
    (hh : headNotEll s.ctx (Datum.ofList ps) = true) (h1 : specMatch s.ctx p e = none) :
    MatchRel s (Datum.ofList (p :: ps)) (Datum.ofList (e :: exprs)) env (false, env') := by
  simp only [MatchRel, Datum.ofList]
  rw [specMatch_pair _ _ _ _ hh]
  simp [consMatch, h1]

theorem match_plain_aux (s : Setup) : ∀ f : Nat,
    (∀ P E env r, plain.plainTail s.es P = true →
        patternMatch s.ell s.lits f P E env = .ok r → MatchRel s P E env r) ∧
    (∀ exprs ps cur env r, (∀ p ∈ ps, plain s.es p = true) →
        matchLoop s.ell s.lits f exprs ps cur false env = .ok r →
        MatchRel s (Datum.ofList ps) (Datum.ofList exprs) env r) := by
  intro f
  induction f with
  | zero =>
    constructor
    · intro P E env r _ h; simp [patternMatch] at h
    · intro exprs ps cur env r _ h; simp [matchLoop] at h
  | succ f ih =>
    obtain ⟨ih1, ih2⟩ := ih
    constructor
    · -- patternMatch
      intro P E env r hP h
      obtain ⟨hPeq, hPel, hPnil⟩ := plainTail_spec hP
      by_cases hE : endsInNil E = true
      · have hEeq := endsInNil_ofList hE
        have hEp := endsInNil_pairOrNil hE
        unfold patternMatch at h
        simp only [hEp, Bool.not_true, Bool.and_false, Bool.false_eq_true, if_false,
          isList_of_endsInNil hE, isList_of_endsInNil hPnil] at h
        have hloop : matchLoop s.ell s.lits f (iterList E) (iterList P) .nil false env = .ok r := by
          cases hb : E.isPair <;> cases hb' : P.isPair <;> simp only [hb, hb'] at h <;> simpa using h
        have := ih2 (iterList E) (iterList P) .nil env r hPel hloop
        rw [← hPeq, ← hEeq] at this
        exact this
      · have hE' : endsInNil E = false := by simpa using hE
        cases f with
        | zero =>
          -- one unit of fuel: either a check answers, or the loop is out of fuel
          unfold patternMatch at h
          split at h
          · cases h; exact ⟨by simp, fun _ => specMatch_plain_improper s hP hE'⟩
          · split at h
            · cases h; exact ⟨by simp, fun _ => specMatch_plain_improper s hP hE'⟩
            · simp [matchLoop] at h
        | succ f =>
          rw [patternMatch_improper _ _ _ _ hPnil hE'] at h
          cases h
          exact ⟨by simp, fun _ => specMatch_plain_improper s hP hE'⟩
    · -- the loop
      intro exprs ps cur env r hps h
      cases exprs with
      | nil =>
        unfold matchLoop at h
        simp only [Bool.false_eq_true, if_false] at h
        cases ps with
        | nil =>
          cases h
          simp [MatchRel, Datum.ofList, specMatch_nil, flat1]
        | cons p ps' =>
          have hps' : ∀ q ∈ ps', plain s.es q = true := fun q hq => hps q (List.mem_cons_of_mem _ hq)
          simp only [peekIs_plain s ps' hps', Bool.false_eq_true, if_false] at h
          cases h
          refine ⟨by simp, fun _ => ?_⟩
          simp only [Datum.ofList]
          rw [specMatch_pair _ _ _ _ (headNotEll_plain s ps' hps')]
          rfl
      | cons e exprs' =>
        unfold matchLoop at h
        simp only [Bool.false_eq_true, if_false] at h
        cases ps with
        | nil =>
          simp only at h
          cases h
          refine ⟨by simp, fun _ => ?_⟩
          simp [Datum.ofList, specMatch_nil]
        | cons p ps' =>
          have hps' : ∀ q ∈ ps', plain s.es q = true := fun q hq => hps q (List.mem_cons_of_mem _ hq)
          have hh := headNotEll_plain s ps' hps'
          have hp : plain s.es p = true := hps p (by simp)
          simp only [peekIs_plain s ps' hps'] at h
          cases hpeq : p with
          | sym x =>
            rw [hpeq] at hp h
            have hx : x ≠ s.es := by simpa [plain] using hp
            have hsp := specMatch_sym s x e hx
            simp only [s.lits_any] at h
            by_cases hl : s.ctx.isLit x = true
            · simp only [hl, if_true] at h hsp
              by_cases he : e = .sym x
              · simp only [cellEq_sym_left, he, decide_true, Bool.not_true, Bool.false_eq_true, if_false] at h hsp
                have := ih2 _ _ _ _ _ hps' h
                exact rel_cons s hh (by rw [he]; exact hsp) (by simpa [flat1] using this)
              · simp only [cellEq_sym_left, he, decide_false, Bool.not_false, if_true] at h
                simp only [he, if_false] at hsp
                cases h
                exact rel_cons_none s hh hsp
            · simp only [hl, Bool.false_eq_true, if_false] at h hsp
              by_cases hu : x = ['_']
              · simp only [hu, underscore, cellEq_sym_left, decide_true, Bool.not_true, Bool.false_eq_true,
                  if_false, if_true] at h hsp
                have := ih2 _ _ _ _ _ hps' h
                exact rel_cons s hh (by rw [hu]; exact hsp) (by simpa [flat1] using this)
              · have hu' : (Datum.sym ['_'] = Datum.sym x) = False := by
                  simp; exact fun e => hu e.symm
                simp only [underscore, cellEq_sym_left, hu', decide_false, Bool.not_false, if_true] at h
                simp only [hu, if_false] at hsp
                have := ih2 _ _ _ _ _ hps' h
                exact rel_cons s hh hsp (by simpa [flat1] using this)
          | pair a d =>
            rw [hpeq] at hp h
            simp only at h
            cases hn : patternMatch s.ell s.lits f (.pair a d) e env with
            | ok r1 =>
              obtain ⟨b, env1⟩ := r1
              have hrel := ih1 (.pair a d) e env (b, env1) (by simpa [plain, plain.plainTail] using hp) hn
              rw [hn] at h
              cases b with
              | true =>
                simp only at h
                obtain ⟨bs, hbs, henv⟩ := hrel.1 rfl
                have := ih2 _ _ _ _ _ hps' h
                simp only at henv
                rw [henv] at this
                exact rel_cons s hh hbs this
              | false =>
                simp only at h
                cases h
                exact rel_cons_none s hh (hrel.2 rfl)
            | err x => rw [hn] at h; cases h
            | panic m => rw [hn] at h; cases h
            | fuel => rw [hn] at h; cases h
          | vec v => rw [hpeq] at hp; simp [plain] at hp
          | _ =>
            have hsp := specMatch_datum s.ctx (p := p) e (by rw [hpeq]; rfl)
            rw [hpeq] at hsp h
            simp only at h
            split at h
            · rename_i hc
              cases h
              simp only [Bool.not_eq_true', ] at hc
              simp only [hc, Bool.false_eq_true, if_false] at hsp
              exact rel_cons_none s hh hsp
            · rename_i hc
              simp only [Bool.not_eq_true', Bool.not_eq_false] at hc
              simp only [hc, if_true] at hsp
              have := ih2 _ _ _ _ _ hps' h
              exact rel_cons s hh hsp (by simpa [flat1] using this)
