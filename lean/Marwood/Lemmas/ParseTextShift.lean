import Marwood.Lemmas.Parse
import Marwood.Lemmas.ParseTextScan
/-!
# The parser on a suffix of the text (used by C11, T11.4)

The parser looks at the text only through `Token::span`. If a relabelling `sh` of the tokens keeps
their types and `tokSpan text' (sh t) = tokSpan text t` for every token, then parsing the
relabelled tokens over `text'` is parsing the original tokens over `text`, with the remaining
tokens relabelled (`parseF_relabel`). The instance used: `text' = p ++ text` and
`sh = Token.shift (byteLen p)` (`parseTokens_suffix`).
-/
namespace Marwood
namespace ParseText

/-! ## slicing a suffix -/

theorem dropBytes_prefix (p sfx : Text) (n : Nat) :
    dropBytes (n + byteLen p) (p ++ sfx) = dropBytes n sfx := by
  induction p generalizing n with
  | nil => simp
  | cons c cs ih =>
    have hp := utf8Size_pos c
    simp only [byteLen_cons, List.cons_append]
    obtain ⟨m, hm⟩ : ∃ m, n + (c.utf8Size + byteLen cs) = m + 1 :=
      ⟨n + (c.utf8Size + byteLen cs) - 1, by omega⟩
    rw [hm, dropBytes]
    have h1 : c.utf8Size ≤ m + 1 := by omega
    simp only [h1, if_true]
    have h2 : m + 1 - c.utf8Size = n + byteLen cs := by omega
    rw [h2, ih]

theorem sliceBytes_prefix (p sfx : Text) (lo hi : Nat) :
    sliceBytes (lo + byteLen p) (hi + byteLen p) (p ++ sfx) = sliceBytes lo hi sfx := by
  unfold sliceBytes
  by_cases h : lo ≤ hi
  · have h' : lo + byteLen p ≤ hi + byteLen p := by omega
    have e : hi + byteLen p - (lo + byteLen p) = hi - lo := by omega
    simp only [h, h', if_true, dropBytes_prefix, e]
  · have h' : ¬ lo + byteLen p ≤ hi + byteLen p := by omega
    simp only [h, h', if_false]

theorem tokSpan_prefix (p sfx : Text) (t : Token) :
    tokSpan (p ++ sfx) (t.shift (byteLen p)) = tokSpan sfx t := by
  unfold tokSpan
  simp only [Token.shift_lo, Token.shift_hi, sliceBytes_prefix]

/-! ## relabelling the tokens -/

def mapP (sh : Token → Token) : PRes (Datum × List Token) → PRes (Datum × List Token)
  | .ok (d, rest) => .ok (d, rest.map sh)
  | .err e => .err e
  | .panic m => .panic m

def mapO (sh : Token → Token) :
    Option (PRes (Datum × List Token)) → Option (PRes (Datum × List Token))
  | none => none
  | some r => some (mapP sh r)

/-- `text'` with tokens relabelled by `sh` shows the parser what `text` shows it -/
structure Relabel (text' text : Text) (sh : Token → Token) : Prop where
  ty : ∀ t, (sh t).ty = t.ty
  span : ∀ t, tokSpan text' (sh t) = tokSpan text t

section
variable {text' text : Text} {sh : Token → Token}

theorem firstChar_relabel (R : Relabel text' text sh) (t : Token) :
    firstChar text' (sh t) = firstChar text t := by
  unfold firstChar; rw [R.span]

theorem closeList_relabel (R : Relabel text' text sh) (start t : Token) (acc : List Datum)
    (ts : List Token) :
    closeList text' (sh start) (sh t) acc (ts.map sh) = mapP sh (closeList text start t acc ts) := by
  unfold closeList
  rw [firstChar_relabel R, firstChar_relabel R]
  cases firstChar text start with
  | err e => rfl
  | panic m => rfl
  | ok o =>
    cases firstChar text t with
    | err e => rfl
    | panic m => rfl
    | ok c =>
      simp only
      split <;> rfl

theorem closeVector_relabel (R : Relabel text' text sh) (t : Token) (acc : List Datum)
    (ts : List Token) :
    closeVector text' (sh t) acc (ts.map sh) = mapP sh (closeVector text t acc ts) := by
  unfold closeVector
  rw [firstChar_relabel R]
  cases firstChar text t with
  | err e => rfl
  | panic m => rfl
  | ok c =>
    simp only
    split <;> rfl

theorem numberFinal_relabel (fo : FloatOps) (R : Relabel text' text sh) (ex : Exactness)
    (radix : Nat) (t : Token) (ts : List Token) :
    numberFinal fo text' ex radix (sh t) (ts.map sh) =
      mapP sh (numberFinal fo text ex radix t ts) := by
  unfold numberFinal
  rw [R.span, R.ty]
  cases tokSpan text t with
  | err e => rfl
  | panic m => rfl
  | ok sp =>
    simp only
    split
    · cases parseWithExactness fo sp ex radix with
      | ok n => rfl
      | err u => cases u; rfl
      | panic m => rfl
    · rfl

theorem parseNumberTok_relabel (fo : FloatOps) (R : Relabel text' text sh) :
    ∀ (ts : List Token) (ex : Exactness) (radix : Nat) (t : Token),
      parseNumberTok fo text' ex radix (sh t) (ts.map sh) =
        mapP sh (parseNumberTok fo text ex radix t ts) := by
  intro ts
  induction ts with
  | nil =>
    intro ex radix t
    rw [parseNumberTok, parseNumberTok, R.ty, R.span]
    by_cases hty : t.ty = .numberPrefix
    · simp only [hty, if_true]
      cases tokSpan text t with
      | err e => rfl
      | panic m => rfl
      | ok sp =>
        simp only
        cases prefixStep sp ex radix with
        | none => rfl
        | some er => rfl
    · simp only [hty, if_false]
      exact numberFinal_relabel fo R ex radix t []
  | cons t' ts ih =>
    intro ex radix t
    rw [parseNumberTok, parseNumberTok, R.ty, R.span]
    by_cases hty : t.ty = .numberPrefix
    · simp only [hty, if_true]
      cases tokSpan text t with
      | err e => rfl
      | panic m => rfl
      | ok sp =>
        simp only
        cases prefixStep sp ex radix with
        | none => rfl
        | some er =>
          obtain ⟨ex', radix'⟩ := er
          simp only [List.map_cons]
          exact ih ex' radix' t'
    · simp only [hty, if_false]
      exact numberFinal_relabel fo R ex radix t (t' :: ts)

theorem parseAtom_relabel (fo : FloatOps) (R : Relabel text' text sh) (t : Token)
    (ts : List Token) :
    parseAtom fo text' (sh t) (ts.map sh) = mapP sh (parseAtom fo text t ts) := by
  unfold parseAtom
  rw [R.ty, R.span]
  by_cases hnum : t.ty = .number ∨ t.ty = .numberPrefix
  · rcases hnum with h | h <;> simp only [h] <;> exact parseNumberTok_relabel fo R ts _ _ t
  · cases hsp : tokSpan text t with
    | err e => cases hty : t.ty <;> simp_all [mapP]
    | panic m => cases hty : t.ty <;> simp_all [mapP]
    | ok sp =>
      cases hty : t.ty
      all_goals first
        | (exfalso; apply hnum; simp [hty]; done)
        | skip
      all_goals simp only [mapP]
      · -- char
        cases parseCharSpan sp <;> rfl
      · -- string
        cases stringInner sp with
        | err e => rfl
        | panic m => rfl
        | ok inner => simp only; cases parseString inner <;> rfl

theorem wrapRes_relabel (name : String) (r : Option (PRes (Datum × List Token))) :
    wrapRes name (mapO sh r) = mapO sh (wrapRes name r) := by
  cases r with
  | none => rfl
  | some x =>
    cases x with
    | ok v => obtain ⟨d, rest⟩ := v; rfl
    | err e => rfl
    | panic m => rfl

theorem tokKind_relabel (R : Relabel text' text sh) (t : Token) :
    tokKind (sh t).ty = tokKind t.ty := by rw [R.ty]

theorem parse_relabel (fo : FloatOps) (R : Relabel text' text sh) : ∀ f : Nat,
    (∀ ts, parseF fo text' f (ts.map sh) = mapO sh (parseF fo text f ts)) ∧
    (∀ start acc ts, listF fo text' f (sh start) acc (ts.map sh) =
        mapO sh (listF fo text f start acc ts)) ∧
    (∀ acc ts, tailF fo text' f acc (ts.map sh) = mapO sh (tailF fo text f acc ts)) ∧
    (∀ acc ts, vectorF fo text' f acc (ts.map sh) = mapO sh (vectorF fo text f acc ts)) := by
  intro f
  induction f with
  | zero =>
    refine ⟨?_, ?_, ?_, ?_⟩ <;> intros <;> simp [parseF, listF, tailF, vectorF, mapO]
  | succ f ih =>
    obtain ⟨ihP, ihL, ihT, ihV⟩ := ih
    refine ⟨?_, ?_, ?_, ?_⟩
    · intro ts
      cases ts with
      | nil => simp [parseF, mapO, mapP]
      | cons t ts =>
        rw [List.map_cons, parseF, parseF, R.ty]
        cases hk : tokKind t.ty with
        | wrap name => simp only; rw [ihP, wrapRes_relabel]
        | list => simp only; exact ihL _ _ _
        | vector => simp only; exact ihV _ _
        | atom => simp only [mapO]; rw [parseAtom_relabel fo R]
    · intro start acc ts
      cases ts with
      | nil => simp [listF, mapO, mapP]
      | cons t ts =>
        rw [List.map_cons, listF, listF, R.ty]
        by_cases hr : t.ty = .rightParen
        · simp only [hr, if_true, mapO]; rw [closeList_relabel R]
        · by_cases hd : t.ty = .dot
          · simp only [hd, if_true, reduceCtorEq, if_false]; exact ihT _ _
          · simp only [hr, hd, if_false]
            have := ihP (t :: ts)
            rw [List.map_cons] at this
            rw [this]
            cases parseF fo text f (t :: ts) with
            | none => rfl
            | some r1 =>
              cases r1 with
              | err e => rfl
              | panic m => rfl
              | ok v => obtain ⟨d1, rest1⟩ := v; simp only [mapO, mapP]; exact ihL _ _ _
    · intro acc ts
      by_cases he : acc.isEmpty = true
      · cases ts <;> simp [tailF, he, mapO, mapP]
      · cases ts with
        | nil => simp [tailF, he, mapO, mapP]
        | cons t ts =>
          rw [List.map_cons, tailF, tailF]
          simp only [he, Bool.false_eq_true, if_false, R.ty]
          by_cases hdr : t.ty = .dot ∨ t.ty = .rightParen
          · simp [hdr, mapO, mapP]
          · simp only [hdr, if_false]
            have := ihP (t :: ts)
            rw [List.map_cons] at this
            rw [this]
            cases parseF fo text f (t :: ts) with
            | none => rfl
            | some r1 =>
              cases r1 with
              | err e => rfl
              | panic m => rfl
              | ok v =>
                obtain ⟨d1, rest1⟩ := v
                simp only [mapO, mapP]
                cases rest1 with
                | nil => rfl
                | cons c rest' =>
                  simp only [List.map_cons, R.ty]
                  split <;> rfl
    · intro acc ts
      cases ts with
      | nil => simp [vectorF, mapO, mapP]
      | cons t ts =>
        rw [List.map_cons, vectorF, vectorF, R.ty]
        by_cases hr : t.ty = .rightParen
        · simp only [hr, if_true, mapO]; rw [closeVector_relabel R]
        · by_cases hd : t.ty = .dot
          · simp [hd, mapO, mapP]
          · simp only [hr, hd, if_false]
            have := ihP (t :: ts)
            rw [List.map_cons] at this
            rw [this]
            cases parseF fo text f (t :: ts) with
            | none => rfl
            | some r1 =>
              cases r1 with
              | err e => rfl
              | panic m => rfl
              | ok v => obtain ⟨d1, rest1⟩ := v; simp only [mapO, mapP]; exact ihV _ _
end

theorem parseTokens_relabel (fo : FloatOps) {text' text : Text} {sh : Token → Token}
    (R : Relabel text' text sh) (ts : List Token) :
    parseTokens fo text' (ts.map sh) = mapP sh (parseTokens fo text ts) := by
  have h := (parse_relabel fo R (parseFuel ts)).1 ts
  rw [parseTokens_fuel fo text ts] at h
  exact parseTokens_of_fuel fo text' h

theorem relabel_shift (p sfx : Text) : Relabel (p ++ sfx) sfx (Token.shift (byteLen p)) :=
  ⟨fun _ => rfl, tokSpan_prefix p sfx⟩

/-- parsing the tokens of a suffix over the suffix is parsing the shifted tokens over the
    whole text -/
theorem parseTokens_suffix (fo : FloatOps) (p sfx : Text) (ts0 : List Token) :
    parseTokens fo (p ++ sfx) (ts0.map (Token.shift (byteLen p))) =
      mapP (Token.shift (byteLen p)) (parseTokens fo sfx ts0) :=
  parseTokens_relabel fo (relabel_shift p sfx) ts0

end ParseText
end Marwood
