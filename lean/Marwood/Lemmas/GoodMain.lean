import Marwood.Lemmas.GoodStepB
import Marwood.Lemmas.GoodStepC
import Marwood.Lemmas.GoodGc
/-!
# `Safe` as an invariant: `run_one` and `run_gc` preserve `GoodI`; `Safe` from the initial state

* `good_step` — `GoodI s`, one instruction ⇒ `GoodI s'`. Heap part: one lemma per opcode
  (`Lemmas/GoodStep{A,B,C}.lean`, assembled in `hg_exec`). Roots part: the simulation lemma `step_sim`
  applied to the state and itself (`sim_refl`) yields a self-simulation of the successor, whose roots are
  therefore allocated (`roots_of_sim`).
* `good_gc` (Lemmas/GoodGc.lean) — a collection at any boundary.
* `safe_of_good` — the hypothesis `Safe m s0` of T03.5 / T13.3 follows from `GoodI s0` of the **initial** state
  and the two named hypotheses along the run: `SizeBounded` (every reachable heap has at most `2^62`
  cells — a physical fact: that many cells do not fit into memory) and `StackDiscAlong` (the frame
  discipline of the current instruction, a consequence of WF-stack for verified code once the verifier types
  bp-relative sources and temporaries; C04/C05).
* `prepare_goodI` — the state `prepare_eval` produces from an idle `GoodI` machine is `GoodI` (under the
  law `CompGood` of the unmodelled compiler), so the hypothesis is one about the VM *between* evaluations.
-/
namespace Marwood.Lemmas.Good
open Marwood Marwood.Vm Marwood.Vm.Concrete Marwood.Lemmas.Sim
open Marwood.Heap (GcState WFHeap RootsOk vrefs vrefsList crefs)

section
variable {ext : ExtOps}

theorem readOpcode_inv {s s1 : St CHeap} {op : Op} (h : readOpcode (concreteOps ext) s = .ok (op, s1)) :
    s1 = nx s ∧ opAt s op := by
  rw [readOpcode_eq] at h
  simp only [concreteOps] at h
  cases hl : lambdaAt s.heap s.ipL with
  | none => simp [hl] at h
  | some l =>
    simp only [hl, Option.isSome_some, Bool.not_true, Bool.false_eq_true, if_false] at h
    cases hf : l.bc[s.ipO]? with
    | none => simp [hf] at h
    | some c =>
      simp only [hf] at h
      cases ho : opOf c with
      | none => simp [ho] at h
      | some op' =>
        simp only [ho] at h
        cases h
        refine ⟨rfl, l, hl, ?_⟩
        rw [hf]
        cases c <;> simp [opOf] at ho
        rw [ho]

/-- the heap part of `run_one`, all 16 opcodes -/
theorem hg_exec (eg : ExtGood ext) {s0 s' : St CHeap} {b : Bool} (g : GoodI s0) (sd : StackDisc s0) {op : Op}
    (hop : opAt s0 op) (hx : exec (concreteOps ext) op (nx s0) = .ok (s', b)) (sm : Small s'.heap) :
    HG s'.heap ∧ plainGlob s'.acc = true := by
  cases op with
  | cons => exact hg_cons g sd hop hx sm
  | jmp => exact hg_jmp g hx
  | jnt => exact hg_jnt g hx
  | mov => exact hg_mov g sd hop hx
  | movImm => exact hg_movImm g hop hx
  | push => exact hg_push g hx
  | pushAcc => exact hg_pushAcc g hx
  | pushImm => exact hg_pushImm g hx
  | halt => exact hg_halt g hx
  | vpushAcc => exact hg_vpush eg g hx sm
  | callAcc => exact hg_call eg g sd hop hx sm
  | closureAcc => exact hg_closure g hx sm
  | enter => exact hg_enter g sd hop hx sm
  | ret => exact hg_ret g hx
  | tcallAcc => exact hg_tcall eg g sd hop hx sm
  | varArg => exact hg_varArg g sd hop hx sm

/-- **`GoodI` is preserved by `run_one`** -/
theorem good_step (el : ExtLaws ext) (eg : ExtGood ext) {s s' : St CHeap} {b : Bool} (g : GoodI s)
    (sm : Small s.heap) (sd : StackDisc s) (hs : step (concreteOps ext) s = .ok (s', b)) (sm' : Small s'.heap) :
    GoodI s' := by
  have gd : Good s := g.good sm sd
  -- heap part
  have hh : HG s'.heap ∧ plainGlob s'.acc = true := by
    have hs' := hs
    rw [step_eq] at hs'
    obtain ⟨⟨op, s1⟩, hro, hx⟩ := bind_ok hs'
    obtain ⟨rfl, hop⟩ := readOpcode_inv hro
    exact hg_exec eg g sd hop hx sm'
  -- roots part: the successor simulates itself
  obtain ⟨φ, hsim⟩ := sim_refl gd
  have hrel := step_sim ext (execSim_all ext el) hsim gd gd
  rw [hs] at hrel
  cases hrel with
  | ok r =>
    obtain ⟨_, ψ, _, hs2⟩ := r
    exact ⟨hh.1, roots_of_sim hs2, hh.2⟩

end

/-! ## along a run -/

/-- every reachable heap has at most `2^62` cells -/
def SizeBounded (m : Machine (St CHeap) Fault) (s0 : St CHeap) : Prop := ∀ s', Reaches m s0 s' → Small s'.heap

/-- the frame discipline of the current instruction holds in every reachable state -/
def StackDiscAlong (m : Machine (St CHeap) Fault) (s0 : St CHeap) : Prop := ∀ s', Reaches m s0 s' → StackDisc s'

theorem goodI_reaches {ext : ExtOps} (force : Bool) (el : ExtLaws ext) (eg : ExtGood ext) {s0 : St CHeap}
    (g0 : GoodI s0) (sb : SizeBounded (machine ext force) s0) (sdl : StackDiscAlong (machine ext force) s0) :
    ∀ s', Reaches (machine ext force) s0 s' → GoodI s' := by
  intro s' hr
  induction hr with
  | refl => exact g0
  | @next s1 s2 hr1 e ih =>
    have e' : vmStep (concreteOps ext) s1 = .next s2 := e
    unfold vmStep at e'
    cases hst : step (concreteOps ext) s1 with
    | ok r =>
      obtain ⟨s3, b⟩ := r
      rw [hst] at e'
      cases b <;> simp only at e'
      · cases e'
        exact good_step el eg ih (sb _ hr1) (sdl _ hr1) hst (sb _ (.next hr1 e))
      · cases e'
    | err x => rw [hst] at e'; cases e'
    | panic x => rw [hst] at e'; cases e'
  | @halt s1 s2 hr1 e ih =>
    have e' : vmStep (concreteOps ext) s1 = .halt s2 := e
    unfold vmStep at e'
    cases hst : step (concreteOps ext) s1 with
    | ok r =>
      obtain ⟨s3, b⟩ := r
      rw [hst] at e'
      cases b <;> simp only at e'
      · cases e'
      · cases e'
        exact good_step el eg ih (sb _ hr1) (sdl _ hr1) hst (sb _ (.halt hr1 e))
    | err x => rw [hst] at e'; cases e'
    | panic x => rw [hst] at e'; cases e'
  | @gc s1 hr1 ih =>
    exact good_gc force ih (sb _ (.gc hr1))

/-- **`Safe` from the initial state** -/
theorem safe_of_good {ext : ExtOps} (force : Bool) (el : ExtLaws ext) (eg : ExtGood ext) {s0 : St CHeap}
    (g0 : GoodI s0) (sb : SizeBounded (machine ext force) s0) (sdl : StackDiscAlong (machine ext force) s0) :
    Safe (machine ext force) s0 :=
  fun s' hr => (goodI_reaches force el eg g0 sb sdl s' hr).good (sb s' hr) (sdl s' hr)

/-! ## `prepare_eval` -/

/-- the roots the global environment contributes are allocated -/
def GlobRoots (h : CHeap) : Prop := (∀ y ∈ h.globSyms, NF h y) ∧ ∀ v ∈ h.globals.toList, VRefsOk h v

theorem GoodI.globRoots {s : St CHeap} (g : GoodI s) : GlobRoots s.heap :=
  ⟨fun y hy => g.roots y (mem_refs_syms (by simpa [rootsOf] using hy)),
   fun _ hv => (roots_glob g.roots g.hg.plain hv).2⟩

/-- `prepare_eval`: the (unmodelled) compiler puts the entry lambda of the form `d` on the heap; `ip` is
    pointed at it -/
def prepareEval (comp : CHeap → VCell → Outcome (CHeap × VCell)) (s : St CHeap) (d : VCell) : Outcome (St CHeap) :=
  match comp s.heap d with
  | .ok (h', .ptr e) => .ok { s with heap := h', ipL := e, ipO := 0 }
  | .ok _ => .err .expectedType
  | .err e => .err e
  | .panic m => .panic m

/-- the law of the compiler for the invariant: heap invariant and allocated global roots are kept, cells
    stay allocated, the entry lambda is allocated -/
structure CompGood (comp : CHeap → VCell → Outcome (CHeap × VCell)) : Prop where
  good : ∀ (h : CHeap) (d : VCell) (h' : CHeap) (v : VCell), HG h → GlobRoots h → addrFree d = true →
    comp h d = .ok (h', v) → Small h' → HG h' ∧ Mono h h' ∧ GlobRoots h' ∧ VRefsOk h' v

theorem prepareEval_inv {comp : CHeap → VCell → Outcome (CHeap × VCell)} {s s' : St CHeap} {d : VCell}
    (hp : prepareEval comp s d = .ok s') :
    ∃ h' e, comp s.heap d = .ok (h', .ptr e) ∧ s' = { s with heap := h', ipL := e, ipO := 0 } := by
  unfold prepareEval at hp
  split at hp
  · rename_i h' e hc; cases hp; exact ⟨h', e, hc, rfl⟩
  · cases hp
  · cases hp
  · cases hp

/-- the state `prepare_eval` produces from an idle good machine is good -/
theorem prepare_goodI {comp : CHeap → VCell → Outcome (CHeap × VCell)} (cg : CompGood comp) {s s' : St CHeap}
    {d : VCell} (g : GoodI s) (hacc : s.acc = .undefined) (hep : Heap.Sentinel s.ep)
    (hst : ∀ c ∈ s.stack.cells, c = VCell.undefined) (hd : addrFree d = true)
    (hp : prepareEval comp s d = .ok s') (sm : Small s'.heap) : GoodI s' := by
  obtain ⟨h', e, hc, rfl⟩ := prepareEval_inv hp
  obtain ⟨hg', _, ⟨gr1, gr2⟩, hv⟩ := cg.good _ _ _ _ g.hg g.globRoots hd hc sm
  refine ⟨hg', ?_, g.accv⟩
  intro y hy
  show NF h' y
  simp only [Heap.Roots.refs, rootsOf, List.mem_append, List.mem_cons, List.not_mem_nil, or_false] at hy
  rcases hy with (((hy | hy) | hy) | hy) | hy
  · exact gr1 y hy
  · obtain ⟨c, hc', he⟩ := List.mem_filterMap.mp hy
    obtain ⟨v, hv', rfl⟩ := List.mem_map.mp hc'
    have := eraseV_asPtr he
    subst this
    exact VRefsOk.ptr.mp (gr2 _ hv')
  · obtain ⟨c, hc', hx⟩ := vrefsList_mem_iff.mp hy
    have : c = .undefined := hst c (List.mem_of_mem_take hc')
    subst this
    simp [eraseV, vrefs] at hx
  · rw [hacc] at hy; simp [eraseV, vrefs] at hy
  · rcases hy with rfl | rfl
    · exact VRefsOk.ptr.mp hv
    · exact .inr hep

end Marwood.Lemmas.Good
