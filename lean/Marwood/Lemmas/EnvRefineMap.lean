import Marwood.Lemmas.EnvRefineRel
/-!
# T02.4, part 3a: shape of the compiler model's environment maps, frames over consecutive locations
-/
namespace Marwood.Vm.EnvRefine
open Marwood Marwood.Scope Marwood.Vm.Env Marwood.Spec.Scope

/-! ## `slotOf` is "first occurrence among the names of the map" -/

theorem slotOf_eq_argIndex (em : Envmap) (x : Name) : slotOf em x = argIndex (em.map Prod.fst) x := by
  induction em with
  | nil => rfl
  | cons p em ih =>
    obtain ⟨y, src⟩ := p
    simp only [slotOf, List.map_cons, argIndex, ih]

theorem argIndex_append (a b : List Name) (x : Name) :
    argIndex (a ++ b) x = match argIndex a x with
      | some i => some i
      | none => (argIndex b x).map (· + a.length) := by
  induction a with
  | nil => simp [argIndex]
  | cons y ys ih =>
    simp only [List.cons_append, argIndex]
    split
    · rfl
    · rw [ih]
      cases argIndex ys x with
      | some i => rfl
      | none =>
        cases argIndex b x with
        | none => rfl
        | some j => simp [Nat.add_assoc]

theorem argIndex_some_getElem (as : List Name) (x : Name) (n : Nat) (h : argIndex as x = some n) :
    as[n]? = some x := by
  induction as generalizing n with
  | nil => simp [argIndex] at h
  | cons y ys ih =>
    simp only [argIndex] at h
    split at h
    · next hy => cases h; simp [hy]
    · cases h' : argIndex ys x with
      | none => simp [h'] at h
      | some j =>
        simp [h'] at h
        subst h
        simpa using ih j h'

theorem argIndex_isSome (as : List Name) (x : Name) (h : x ∈ as) : ∃ n, argIndex as x = some n := by
  cases hn : argIndex as x with
  | none => exact absurd h ((argIndex_none_iff as x).mp hn)
  | some n => exact ⟨n, rfl⟩

theorem slotOf_getElem (em : Envmap) (x : Name) (s : Nat) (h : slotOf em x = some s) :
    ∃ src, em[s]? = some (x, src) := by
  rw [slotOf_eq_entryOf] at h
  cases he : entryOf em x with
  | none => simp [he] at h
  | some p =>
    obtain ⟨i, src⟩ := p
    simp [he] at h
    subst h
    exact ⟨src, entryOf_getElem em x i src he⟩

/-! ## entries of `newEnvmap` -/

theorem argEntries_getElem (as : List Name) (i0 s : Nat) (p : Name × Source)
    (h : (argEntries as i0)[s]? = some p) : as[s]? = some p.1 ∧ p.2 = .argument (i0 + s) := by
  induction as generalizing i0 s with
  | nil => simp [argEntries] at h
  | cons a as ih =>
    cases s with
    | zero => simp [argEntries] at h; subst h; simp
    | succ s =>
      simp only [argEntries, List.getElem?_cons_succ] at h
      obtain ⟨h1, h2⟩ := ih (i0 + 1) s h
      exact ⟨by simpa using h1, by rw [h2]; congr 1; omega⟩

theorem argEntries_length (as : List Name) (i0 : Nat) : (argEntries as i0).length = as.length := by
  induction as generalizing i0 with
  | nil => rfl
  | cons a as ih => simp [argEntries, ih]

theorem argEntries_names (as : List Name) (i0 : Nat) : (argEntries as i0).map Prod.fst = as := by
  induction as generalizing i0 with
  | nil => rfl
  | cons a as ih => simp [argEntries, ih]

/-- every entry of a new map: an `Argument` entry at the parameter's position, an
    `InternalDefinition` entry right behind the parameters, or what `freeEntry` made of a free
    symbol -/
theorem newEnvmap_getElem (args internal free : List Name) (iof : LamCtx) (s : Nat) (x : Name) (src : Source)
    (h : (newEnvmap args internal free iof)[s]? = some (x, src)) :
    (s < args.length ∧ args[s]? = some x ∧ src = .argument s) ∨
    (args.length ≤ s ∧ s < args.length + internal.length ∧ internal[s - args.length]? = some x ∧ src = .internal) ∨
    (args.length + internal.length ≤ s ∧ ∃ y ∈ free, freeEntry iof y = some (x, src)) := by
  unfold newEnvmap at h
  rw [List.append_assoc, List.getElem?_append] at h
  split at h
  · next hlt =>
    rw [argEntries_length] at hlt
    obtain ⟨h1, h2⟩ := argEntries_getElem args 0 s _ h
    exact Or.inl ⟨hlt, h1, by simpa using h2⟩
  · next hge =>
    rw [argEntries_length] at hge h
    rw [List.getElem?_append] at h
    split at h
    · next hlt =>
      simp only [List.length_map] at hlt
      right; left
      simp only [List.getElem?_map, Option.map_eq_some_iff, Prod.mk.injEq] at h
      obtain ⟨y, hy, rfl, rfl⟩ := h
      exact ⟨by omega, by omega, hy, rfl⟩
    · next hge2 =>
      simp only [List.length_map] at hge2 h
      right; right
      refine ⟨by omega, ?_⟩
      have hm := List.mem_of_getElem? h
      rw [List.mem_filterMap] at hm
      exact hm

theorem newEnvmap_length_ge (args internal free : List Name) (iof : LamCtx) :
    args.length + internal.length ≤ (newEnvmap args internal free iof).length := by
  simp [newEnvmap, argEntries_length]

theorem newEnvmap_arg_entry (args internal free : List Name) (iof : LamCtx) (s : Nat) (hs : s < args.length) :
    ∃ x, (newEnvmap args internal free iof)[s]? = some (x, .argument s) := by
  have hl := newEnvmap_length_ge args internal free iof
  have hlt : s < (newEnvmap args internal free iof).length := by omega
  have hg : (newEnvmap args internal free iof)[s]? = some (newEnvmap args internal free iof)[s] := by
    simp [hlt]
  rcases h : (newEnvmap args internal free iof)[s] with ⟨y, src'⟩
  rw [h] at hg
  rcases newEnvmap_getElem _ _ _ _ _ _ _ hg with ⟨_, _, rfl⟩ | ⟨h1, _⟩ | ⟨h1, _⟩
  · exact ⟨y, hg⟩
  · omega
  · omega

theorem newEnvmap_internal_entry (args internal free : List Name) (iof : LamCtx) (s : Nat)
    (h1 : args.length ≤ s) (h2 : s < args.length + internal.length) :
    ∃ x, (newEnvmap args internal free iof)[s]? = some (x, .internal) := by
  have hl := newEnvmap_length_ge args internal free iof
  have hlt : s < (newEnvmap args internal free iof).length := by omega
  have hg : (newEnvmap args internal free iof)[s]? = some (newEnvmap args internal free iof)[s] := by
    simp [hlt]
  rcases h : (newEnvmap args internal free iof)[s] with ⟨y, src'⟩
  rw [h] at hg
  rcases newEnvmap_getElem _ _ _ _ _ _ _ hg with ⟨h3, _⟩ | ⟨_, _, _, rfl⟩ | ⟨h3, _⟩
  · omega
  · exact ⟨y, hg⟩
  · omega

/-- `freeEntry` in a context where every parameter has a map entry: never `IofArgument` -/
theorem freeEntry_cases (iof : LamCtx) (hna : ∀ x, slotOf iof.envmap x = none → argIndex iof.args x = none)
    (y x : Name) (src : Source) (h : freeEntry iof y = some (x, src)) :
    x = y ∧ ∃ k, src = .iofEnv k ∧ slotOf iof.envmap y = some k := by
  unfold freeEntry at h
  split at h
  · next k hk => cases h; exact ⟨rfl, k, rfl, hk⟩
  · next hk =>
    rw [hna y hk] at h
    cases h

theorem freeEntry_none (iof : LamCtx) (hna : ∀ x, slotOf iof.envmap x = none → argIndex iof.args x = none)
    (x : Name) (h : slotOf iof.envmap x = none) : freeEntry iof x = none := by
  simp [freeEntry, h, hna x h]

theorem freeEntry_some (iof : LamCtx) (x : Name) (k : Nat) (h : slotOf iof.envmap x = some k) :
    freeEntry iof x = some (x, .iofEnv k) := by
  simp [freeEntry, h]

/-- the names bound by the level come first in its map, in binding order -/
theorem slotOf_newEnvmap_bound (args internal free : List Name) (iof : LamCtx) (x : Name) (n : Nat)
    (h : argIndex (args ++ internal) x = some n) : slotOf (newEnvmap args internal free iof) x = some n := by
  rw [slotOf_eq_argIndex]
  have : (newEnvmap args internal free iof).map Prod.fst =
      (args ++ internal) ++ (free.filterMap (freeEntry iof)).map Prod.fst := by
    simp only [newEnvmap, List.map_append, List.map_map]
    congr 2
    · exact argEntries_names args 0
    · simp [Function.comp_def]
  rw [this, argIndex_append, h]

theorem argIndex_lt (as : List Name) (x : Name) (n : Nat) (h : argIndex as x = some n) : n < as.length := by
  have := argIndex_some_getElem as x n h
  rcases Nat.lt_or_ge n as.length with h1 | h1
  · exact h1
  · simp [List.getElem?_eq_none h1] at this

/-! ## frames over consecutive locations -/

theorem frameAt_getElem (xs : List Name) (n i : Nat) (p : Name × Loc) :
    (frameAt xs n)[i]? = some p ↔ xs[i]? = some p.1 ∧ p.2 = n + i := by
  induction xs generalizing n i with
  | nil => simp [frameAt]
  | cons x xs ih =>
    cases i with
    | zero =>
      simp only [frameAt, List.getElem?_cons_zero, Option.some.injEq, Nat.add_zero]
      constructor
      · rintro rfl; exact ⟨rfl, rfl⟩
      · rintro ⟨h1, h2⟩; exact Prod.ext h1 h2.symm
    | succ i =>
      simp only [frameAt, List.getElem?_cons_succ, ih]
      constructor
      · rintro ⟨h1, h2⟩; exact ⟨h1, h2.trans (by omega : n + 1 + i = n + (i + 1))⟩
      · rintro ⟨h1, h2⟩; exact ⟨h1, h2.trans (by omega : n + (i + 1) = n + 1 + i)⟩

theorem frameAt_append (xs ys : List Name) (n : Nat) :
    frameAt (xs ++ ys) n = frameAt xs n ++ frameAt ys (n + xs.length) := by
  induction xs generalizing n with
  | nil => simp [frameAt]
  | cons x xs ih =>
    simp only [List.cons_append, frameAt, ih, List.length_cons]
    congr 3
    omega

theorem frameAt_find? (xs : List Name) (n : Nat) (x : Name) :
    Frame.find? x (frameAt xs n) = (argIndex xs x).map (n + ·) := by
  induction xs generalizing n with
  | nil => rfl
  | cons y ys ih =>
    simp only [frameAt, Frame.find?, argIndex]
    split
    · simp
    · rw [ih]
      cases argIndex ys x with
      | none => rfl
      | some j => simp; omega

end Marwood.Vm.EnvRefine
