import Marwood.Lemmas.NumRndBits
import Marwood.Spec.Rat
/-!
# The three facts about `Fl.rnd` (DESIGN §3.2), proved about the pure implementation

* `rnd_exact`  — exact on representable values: the value of a finite double rounds to itself;
* `rnd_mono`   — monotone: `q ≤ q'` implies `rnd q ≤ rnd q'` in ℚ ∪ {−∞, +∞};
* `rnd_relerr` — in the normal range (`2^-1022 ≤ |q| < 2^1023`) the result is finite and
  `|rnd q − q| ≤ 2^-53 · |q|`.
-/
namespace Marwood.Fl
open Marwood Marwood.NumSpec

/-! ## `rnd` by sign -/

theorem rnd_zero : rnd 0 = ⟨0⟩ := by
  simp [rnd, rndSigned]

theorem rnd_pos {q : ℚ} (h : 0 < q) : rnd q = ⟨rndMag q.num.toNat q.den⟩ := by
  have hn : 0 < q.num := Rat.num_pos.mpr h
  unfold rnd rndSigned
  rw [if_neg (by omega)]
  simp only [Bool.false_eq_true, if_false]
  rw [if_neg (by omega)]

theorem rnd_neg {q : ℚ} (h : q < 0) : rnd q = ⟨twoP63 + rndMag (-q).num.toNat (-q).den⟩ := by
  have hn : q.num < 0 := Rat.num_neg.mpr h
  have hn' : 0 < (-q).num := Rat.num_pos.mpr (by linarith)
  unfold rnd rndSigned
  rw [if_pos hn]
  simp only [if_true]
  rw [if_neg (by omega)]

theorem num_den_pos {q : ℚ} (h : 0 < q) :
    0 < q.num.toNat ∧ 0 < q.den ∧ ((q.num.toNat : ℕ) : ℚ) / (q.den : ℚ) = q := by
  have hn : 0 < q.num := Rat.num_pos.mpr h
  refine ⟨by omega, q.den_pos, ?_⟩
  have : ((q.num.toNat : ℕ) : ℚ) = (q.num : ℚ) := by
    have : ((q.num.toNat : ℕ) : ℤ) = q.num := Int.toNat_of_nonneg hn.le
    exact_mod_cast congrArg (fun z : ℤ => (z : ℚ)) this
  rw [this, Rat.num_div_den]

/-! ## decoding the result -/

theorem toRat_of_fields {f : F64} (h1 : expField f ≠ 2047) :
    toRat? f = some (if signBit f then - magRat f else magRat f) := by
  unfold toRat? isFinite
  rw [if_pos]
  simpa using h1

/-- value of the rounded magnitude `n/d` when the pattern does not overflow -/
theorem toRat_rndMag (n d : ℕ) (hn : 0 < n) (hd : 0 < d) (hb : patOf n d < infBits) :
    toRat? ⟨rndMag n d⟩ = some ((mOf n d : ℚ) * 2 ^ (eOf n d)) ∧
    toRat? ⟨twoP63 + rndMag n d⟩ = some (-((mOf n d : ℚ) * 2 ^ (eOf n d))) := by
  obtain ⟨h1, h2, h3⟩ := pat_val n d hn hd hb
  have hr : rndMag n d = patOf n d := by rw [rndMag_eq, if_neg (by omega)]
  rw [hr]
  have hlt : patOf n d < twoP63 := lt_trans hb infBits_lt
  obtain ⟨s1, s2, s3⟩ := sign_fields (patOf n d) hlt
  constructor
  · rw [toRat_of_fields h1, h2, h3]; rfl
  · rw [toRat_of_fields (by rw [s1]; exact h1), s3, magRat_sign _ hlt, h3]; rfl

/-! ## relative error in the normal range -/

theorem mag_relerr (n d : ℕ) (hn : 0 < n) (hd : 0 < d)
    (hlo : (2 : ℚ) ^ (-1022 : ℤ) ≤ (n : ℚ) / d) (hhi : (n : ℚ) / d < 2 ^ (1023 : ℤ)) :
    patOf n d < infBits ∧
    |(mOf n d : ℚ) * 2 ^ (eOf n d) - (n : ℚ) / d| ≤ 2 ^ (-53 : ℤ) * ((n : ℚ) / d) := by
  obtain ⟨lo, up⟩ := floorLog2_spec n d hn hd
  have f1 : -1022 ≤ floorLog2 n d := by
    have := two_zpow_lt_iff.mp (lt_of_le_of_lt hlo up); omega
  have f2 : floorLog2 n d ≤ 1022 := by
    have := two_zpow_lt_iff.mp (lt_of_le_of_lt lo hhi); omega
  have he : eOf n d = floorLog2 n d - 52 := by unfold eOf; omega
  have hE : EOf n d ≤ 2044 := by have := EOf_cast n d; omega
  have hm := mOf_le n d hn hd
  refine ⟨?_, ?_⟩
  · unfold patOf infBits twoP52
    unfold twoP53 at hm
    omega
  · set x : ℚ := (n : ℚ) / d with hx
    set e := eOf n d with hee
    have pe := two_zpow_pos e
    have hy : x = x / 2 ^ e * 2 ^ e := by field_simp
    have hmq : ((mOf n d : ℕ) : ℚ) = ((RN (x / 2 ^ e) : ℤ) : ℚ) := by
      have := mOf_eq n d hd
      rw [← this]; simp
    have near := RN_near (x / 2 ^ e)
    have e1 : (mOf n d : ℚ) * 2 ^ e - x = ((RN (x / 2 ^ e) : ℚ) - x / 2 ^ e) * 2 ^ e := by
      rw [hmq]; field_simp
    rw [e1, abs_mul, abs_of_pos pe]
    have b1 : |(RN (x / 2 ^ e) : ℚ) - x / 2 ^ e| * 2 ^ e ≤ 1 / 2 * 2 ^ e :=
      mul_le_mul_of_nonneg_right near pe.le
    have b2 : (1 : ℚ) / 2 * 2 ^ e = 2 ^ (-53 : ℤ) * 2 ^ (floorLog2 n d) := by
      rw [← two_zpow_add, show (-53 : ℤ) + floorLog2 n d = -1 + e by omega, two_zpow_add]
      norm_num
    have b3 : (2 : ℚ) ^ (-53 : ℤ) * 2 ^ (floorLog2 n d) ≤ 2 ^ (-53 : ℤ) * x :=
      mul_le_mul_of_nonneg_left lo (two_zpow_pos _).le
    linarith

/-- T-rnd-3: within the normal range `rnd` is finite and correct to 2⁻⁵³ relative -/
theorem rnd_relerr (q : ℚ) (hlo : (2 : ℚ) ^ (-1022 : ℤ) ≤ |q|) (hhi : |q| < 2 ^ (1023 : ℤ)) :
    ∃ v, toRat? (rnd q) = some v ∧ |v - q| ≤ 2 ^ (-53 : ℤ) * |q| := by
  have hq0 : q ≠ 0 := by
    intro h; rw [h, abs_zero] at hlo
    exact absurd hlo (not_le.mpr (two_zpow_pos _))
  rcases lt_or_gt_of_ne hq0 with hneg | hpos
  · have hp : 0 < -q := by linarith
    obtain ⟨hn, hd, hv⟩ := num_den_pos hp
    rw [abs_of_neg hneg] at hlo hhi ⊢
    obtain ⟨hb, herr⟩ := mag_relerr _ _ hn hd (by rw [hv]; exact hlo) (by rw [hv]; exact hhi)
    refine ⟨_, by rw [rnd_neg hneg]; exact (toRat_rndMag _ _ hn hd hb).2, ?_⟩
    rw [hv] at herr
    rw [show ∀ a : ℚ, -a - q = -(a - -q) by intro a; ring, abs_neg]
    exact herr
  · obtain ⟨hn, hd, hv⟩ := num_den_pos hpos
    rw [abs_of_pos hpos] at hlo hhi ⊢
    obtain ⟨hb, herr⟩ := mag_relerr _ _ hn hd (by rw [hv]; exact hlo) (by rw [hv]; exact hhi)
    refine ⟨_, by rw [rnd_pos hpos]; exact (toRat_rndMag _ _ hn hd hb).1, ?_⟩
    rw [hv] at herr
    exact herr

/-! ## exactness on representable values -/

theorem mag_exact (n d : ℕ) (hn : 0 < n) (hd : 0 < d) (s k : ℕ) (hs : s < twoP53) (hk : k ≤ 2045)
    (hx : (n : ℚ) / d = (s : ℚ) * 2 ^ ((k : ℤ) - 1074)) :
    patOf n d < infBits ∧ (mOf n d : ℚ) * 2 ^ (eOf n d) = (n : ℚ) / d := by
  obtain ⟨lo, up⟩ := floorLog2_spec n d hn hd
  have hsq : (s : ℚ) < 2 ^ (53 : ℤ) := by rw [p53]; exact_mod_cast hs
  -- the exponent chosen by `rnd` is at most the exponent of the double
  have hfl : floorLog2 n d < (k : ℤ) - 1021 := by
    have : (2 : ℚ) ^ (floorLog2 n d) < 2 ^ ((k : ℤ) - 1021) := by
      calc (2 : ℚ) ^ (floorLog2 n d) ≤ (n : ℚ) / d := lo
        _ = (s : ℚ) * 2 ^ ((k : ℤ) - 1074) := hx
        _ < 2 ^ (53 : ℤ) * 2 ^ ((k : ℤ) - 1074) :=
          mul_lt_mul_of_pos_right hsq (two_zpow_pos _)
        _ = 2 ^ ((k : ℤ) - 1021) := by rw [← two_zpow_add]; congr 1; ring
    exact two_zpow_lt_iff.mp this
  have hele : eOf n d ≤ (k : ℤ) - 1074 := by unfold eOf; omega
  have hege := eOf_ge n d
  set e := eOf n d with hee
  have pe := two_zpow_pos e
  -- the quotient is a natural number
  obtain ⟨j, hj⟩ : ∃ j : ℕ, (j : ℤ) = (k : ℤ) - 1074 - e := ⟨((k : ℤ) - 1074 - e).toNat, by omega⟩
  have hquot : (n : ℚ) / d / 2 ^ e = ((s * 2 ^ j : ℕ) : ℚ) := by
    rw [hx, show (k : ℤ) - 1074 = (j : ℤ) + e by omega, two_zpow_add, zpow_natCast]
    push_cast
    field_simp
  have hm : (mOf n d : ℤ) = ((s * 2 ^ j : ℕ) : ℤ) := by
    rw [mOf_eq n d hd, ← hee, hquot, RN_natCast]
  have hmn : mOf n d = s * 2 ^ j := by exact_mod_cast hm
  have hval : (mOf n d : ℚ) * 2 ^ e = (n : ℚ) / d := by
    rw [hmn, ← hquot]; field_simp
  refine ⟨?_, hval⟩
  -- no overflow: the significand is below 2^53 and the exponent field below 2046
  have hmlt : mOf n d < twoP53 := by
    have := quot_lt n d hn hd
    rw [← hee, hquot, p53, ← hmn] at this
    exact_mod_cast this
  have hE : EOf n d ≤ 2045 := by have := EOf_cast n d; omega
  unfold patOf infBits twoP52
  unfold twoP53 at hmlt
  omega

theorem sig_lt (f : F64) : sig f < twoP53 := by
  unfold sig mantField twoP53 twoP52
  split <;> omega

theorem ex_le {f : F64} (h : expField f ≠ 2047) : ex f ≤ 2045 := by
  have : expField f < 2048 := by unfold expField; omega
  unfold ex; split <;> omega

theorem toRat_zero : toRat? ⟨0⟩ = some 0 := by
  have h1 : expField ⟨0⟩ ≠ 2047 := by decide
  rw [toRat_of_fields h1, magRat_eq]
  have : sig ⟨0⟩ = 0 := by decide
  simp [this]

/-- T-rnd-2: `rnd` is the identity on the values of finite doubles -/
theorem rnd_exact (f : F64) (q : ℚ) (h : toRat? f = some q) : toRat? (rnd q) = some q := by
  have hfin : expField f ≠ 2047 := by
    unfold toRat? isFinite at h
    split at h
    · rename_i hh; simpa using hh
    · cases h
  rw [toRat_of_fields hfin] at h
  simp only [Option.some.injEq] at h
  have hmag : magRat f = (sig f : ℚ) * 2 ^ ((ex f : ℤ) - 1074) := by
    have h1074 : (2 : ℚ) ^ (1074 : ℕ) = (2 : ℚ) ^ (1074 : ℤ) := by
      rw [← zpow_natCast]; simp only [Nat.cast_ofNat]
    rw [magRat_eq, two_zpow_sub, ← h1074, zpow_natCast]
    push_cast
    rw [mul_div_assoc]
  have hmag0 : 0 ≤ magRat f := by
    rw [hmag]; exact mul_nonneg (Nat.cast_nonneg _) (two_zpow_pos _).le
  rcases eq_or_lt_of_le hmag0 with hz | hpos
  · -- value zero (either sign)
    have : q = 0 := by rw [← h, ← hz]; simp
    rw [this, rnd_zero, toRat_zero]
  · obtain ⟨hn, hd, hv⟩ := num_den_pos hpos
    obtain ⟨hb, hval⟩ := mag_exact _ _ hn hd (sig f) (ex f) (sig_lt f) (ex_le hfin)
      (by rw [hv]; exact hmag)
    obtain ⟨r1, r2⟩ := toRat_rndMag _ _ hn hd hb
    rw [hval, hv] at r1 r2
    cases hs : signBit f with
    | false =>
      rw [hs] at h; simp only [Bool.false_eq_true, if_false] at h
      rw [← h, rnd_pos hpos]; exact r1
    | true =>
      rw [hs] at h; simp only [if_true] at h
      have hneg : q < 0 := by rw [← h]; linarith
      have hq : -q = magRat f := by rw [← h]; ring
      rw [rnd_neg hneg, hq, ← h]; exact r2

/-! ## monotonicity -/

theorem Ext.le_fin {a b : ℚ} (h : a ≤ b) : Ext.le (.fin a) (.fin b) = true := by
  unfold Ext.le Ext.lt
  rcases eq_or_lt_of_le h with rfl | hlt
  · simp
  · simp [hlt]

theorem Ext.le_pinf (a : Ext) : Ext.le a .pinf = true := by
  cases a <;> simp [Ext.le, Ext.lt]

theorem Ext.ninf_le (a : Ext) : Ext.le .ninf a = true := by
  cases a <;> simp [Ext.le, Ext.lt]

/-- extended value of the rounded magnitude `n/d` -/
def magExt (n d : ℕ) : Ext :=
  if patOf n d < infBits then .fin ((mOf n d : ℚ) * 2 ^ (eOf n d)) else .pinf

def negExt : Ext → Ext
  | .ninf => .pinf
  | .fin q => .fin (-q)
  | .pinf => .ninf

theorem ext_inf : ext (.flo ⟨infBits⟩) = some .pinf := by
  have a : isNaN ⟨infBits⟩ = false := by decide
  have b : isInf ⟨infBits⟩ = true := by decide
  have c : signBit ⟨infBits⟩ = false := by decide
  simp [ext, a, b, c]

theorem ext_ninf : ext (.flo ⟨twoP63 + infBits⟩) = some .ninf := by
  have a : isNaN ⟨twoP63 + infBits⟩ = false := by decide
  have b : isInf ⟨twoP63 + infBits⟩ = true := by decide
  have c : signBit ⟨twoP63 + infBits⟩ = true := by decide
  simp [ext, a, b, c]

theorem ext_of_toRat {f : F64} {v : ℚ} (h : toRat? f = some v) : ext (.flo f) = some (.fin v) := by
  have hfin : isFinite f = true := by
    unfold toRat? at h; split at h
    · assumption
    · cases h
  have he : expField f ≠ 2047 := by unfold isFinite at hfin; simpa using hfin
  have a : isNaN f = false := by unfold isNaN; simp [he]
  have b : isInf f = false := by unfold isInf; simp [he]
  simp [ext, a, b, h]

theorem ext_rndMag (n d : ℕ) (hn : 0 < n) (hd : 0 < d) :
    ext (.flo ⟨rndMag n d⟩) = some (magExt n d) ∧
    ext (.flo ⟨twoP63 + rndMag n d⟩) = some (negExt (magExt n d)) := by
  unfold magExt
  by_cases hb : patOf n d < infBits
  · obtain ⟨r1, r2⟩ := toRat_rndMag n d hn hd hb
    rw [if_pos hb]
    exact ⟨ext_of_toRat r1, ext_of_toRat r2⟩
  · have : rndMag n d = infBits := by rw [rndMag_eq, if_pos (by omega)]
    rw [if_neg hb, this]
    exact ⟨ext_inf, ext_ninf⟩

theorem magExt_mono {n d n' d' : ℕ} (hn : 0 < n) (hd : 0 < d) (hn' : 0 < n') (hd' : 0 < d')
    (h : (n : ℚ) / d ≤ (n' : ℚ) / d') : Ext.le (magExt n d) (magExt n' d') = true := by
  have hp := patOf_mono hn hd hn' hd' h
  unfold magExt
  by_cases hb' : patOf n' d' < infBits
  · rw [if_pos hb', if_pos (by omega)]
    exact Ext.le_fin (val_mono hn hd hn' hd' h)
  · rw [if_neg hb']; exact Ext.le_pinf _

theorem magExt_nonneg (n d : ℕ) : Ext.le (.fin 0) (magExt n d) = true := by
  unfold magExt
  split
  · exact Ext.le_fin (mul_nonneg (Nat.cast_nonneg _) (two_zpow_pos _).le)
  · exact Ext.le_pinf _

theorem negExt_anti {a b : Ext} (h : Ext.le a b = true) : Ext.le (negExt b) (negExt a) = true := by
  cases a <;> cases b <;> simp_all [Ext.le, Ext.lt, negExt]
  rename_i x y
  rcases h with h | h
  · left; rw [h]
  · right; linarith

theorem negExt_nonpos {a : Ext} (h : Ext.le (.fin 0) a = true) : Ext.le (negExt a) (.fin 0) = true := by
  have := negExt_anti h
  simpa [negExt] using this

theorem Ext.le_trans' {a b c : Ext} (h1 : Ext.le a b = true) (h2 : Ext.le b c = true) :
    Ext.le a c = true := by
  cases a <;> cases b <;> cases c <;> simp_all [Ext.le, Ext.lt]
  rename_i x y z
  rcases h1 with h1 | h1 <;> rcases h2 with h2 | h2
  · left; rw [h1, h2]
  · right; rw [h1]; exact h2
  · right; rw [← h2]; exact h1
  · right; linarith

/-- the extended value of `rnd q` -/
def rndExt (q : ℚ) : Ext :=
  if 0 < q then magExt q.num.toNat q.den
  else if q < 0 then negExt (magExt (-q).num.toNat (-q).den)
  else .fin 0

theorem ext_rnd (q : ℚ) : ext (.flo (rnd q)) = some (rndExt q) := by
  unfold rndExt
  by_cases hp : 0 < q
  · obtain ⟨hn, hd, _⟩ := num_den_pos hp
    rw [if_pos hp, rnd_pos hp]; exact (ext_rndMag _ _ hn hd).1
  · rw [if_neg hp]
    by_cases hneg : q < 0
    · obtain ⟨hn, hd, _⟩ := num_den_pos (by linarith : 0 < -q)
      rw [if_pos hneg, rnd_neg hneg]; exact (ext_rndMag _ _ hn hd).2
    · have : q = 0 := le_antisymm (not_lt.mp hp) (not_lt.mp hneg)
      rw [if_neg hneg, this, rnd_zero]; exact ext_of_toRat toRat_zero

theorem rndExt_mono {q q' : ℚ} (h : q ≤ q') : Ext.le (rndExt q) (rndExt q') = true := by
  unfold rndExt
  by_cases hp : 0 < q
  · have hp' : 0 < q' := lt_of_lt_of_le hp h
    obtain ⟨hn, hd, hv⟩ := num_den_pos hp
    obtain ⟨hn', hd', hv'⟩ := num_den_pos hp'
    rw [if_pos hp, if_pos hp']
    exact magExt_mono hn hd hn' hd' (by rw [hv, hv']; exact h)
  · rw [if_neg hp]
    by_cases hneg : q < 0
    · rw [if_pos hneg]
      by_cases hp' : 0 < q'
      · rw [if_pos hp']
        exact Ext.le_trans' (negExt_nonpos (magExt_nonneg _ _)) (magExt_nonneg _ _)
      · rw [if_neg hp']
        by_cases hneg' : q' < 0
        · rw [if_pos hneg']
          obtain ⟨hn, hd, hv⟩ := num_den_pos (by linarith : 0 < -q)
          obtain ⟨hn', hd', hv'⟩ := num_den_pos (by linarith : 0 < -q')
          exact negExt_anti (magExt_mono hn' hd' hn hd (by rw [hv, hv']; linarith))
        · rw [if_neg hneg']
          exact negExt_nonpos (magExt_nonneg _ _)
    · have hq0 : q = 0 := le_antisymm (not_lt.mp hp) (not_lt.mp hneg)
      rw [if_neg hneg]
      by_cases hp' : 0 < q'
      · rw [if_pos hp']; exact magExt_nonneg _ _
      · have : q' = 0 := le_antisymm (not_lt.mp hp') (by rw [← hq0]; exact h)
        rw [if_neg hp', if_neg (by rw [this]; exact lt_irrefl _)]
        exact Ext.le_fin (le_refl _)

/-- T-rnd-1: `rnd` is monotone; its results are never NaN, so they are ordered in ℚ ∪ {−∞, +∞} -/
theorem rnd_mono {q q' : ℚ} (h : q ≤ q') :
    ∃ a b, ext (.flo (rnd q)) = some a ∧ ext (.flo (rnd q')) = some b ∧ Ext.le a b = true :=
  ⟨rndExt q, rndExt q', ext_rnd q, ext_rnd q', rndExt_mono h⟩

/-! ## `abs` of a rounded value -/

theorem rndMag_le (n d : ℕ) : rndMag n d ≤ infBits := by
  rw [rndMag_eq]; split <;> omega

theorem isNaN_signed (b : ℕ) (hb : b ≤ infBits) : isNaN ⟨twoP63 + b⟩ = false := by
  unfold isNaN
  have h1 : expField ⟨twoP63 + b⟩ = (twoP63 + b) / twoP52 % 2048 := rfl
  have h2 : mantField ⟨twoP63 + b⟩ = (twoP63 + b) % twoP52 := rfl
  rw [h1, h2]
  unfold infBits at hb
  unfold twoP63 twoP52
  by_cases hc : b = 9218868437227405312
  · subst hc; decide
  · have : (9223372036854775808 + b) / 4503599627370496 % 2048 ≠ 2047 := by omega
    simp [this]

/-- `abs` of a rounded negative number is the rounded absolute value -/
theorem abs_rnd_neg {q : ℚ} (h : q < 0) : Fl.abs (rnd q) = rnd (-q) := by
  have hp : 0 < -q := by linarith
  rw [rnd_neg h, rnd_pos hp]
  have hb := rndMag_le (-q).num.toNat (-q).den
  have hlt : rndMag (-q).num.toNat (-q).den < twoP63 := lt_of_le_of_lt hb infBits_lt
  unfold Fl.abs
  rw [isNaN_signed _ hb, (sign_fields _ hlt).2.2]
  simp

end Marwood.Fl
