import Marwood.Lemmas.EnvFitDefs
/-!
# The slot clause of T06.6 as an invariant (2): the heap operations of `run_one` as `FStep`s

`cput` (allocate and store), an environment slot write, `put` / `maybe_put`, a global slot write, CLOSURE's and ENTER's
environment construction, `call/cc`'s continuation object. The lengths of the environments CLOSURE and ENTER build.
-/
namespace Marwood.Lemmas.Good
open Marwood Marwood.Vm Marwood.Vm.Verify Marwood.Vm.Concrete Marwood.Lemmas.Sim
open Marwood.Heap (GcState)

/-- what `cput` does to the cells -/
theorem cput_cells {h : CHeap} (c : CCell) :
    (∀ i x, (cput h c).1.cells[i]? = some x →
      (i = (cput h c).2 ∧ x = c) ∨ (i ≠ (cput h c).2 ∧ h.cells[i]? = some x) ∨ x = CCell.val .undefined) ∧
    (∀ i x, h.cells[i]? = some x → i ≠ (cput h c).2 → (cput h c).1.cells[i]? = some x) ∧
    ((cput h c).2 ∈ h.free ∨ h.cells.size ≤ (cput h c).2) ∧
    (∀ q, q ∈ (cput h c).1.free → q ∈ h.free ∨ h.cells.size ≤ q) := by
  obtain ⟨f1, f2, f3, f4, _, _⟩ := calloc_facts h
  have hsz : h.cells.size ≤ (calloc h).1.cells.size := calloc_size h
  refine ⟨?_, ?_, f3, ?_⟩
  · intro i x hx
    simp only [cput] at hx ⊢
    rw [cwrite_cells] at hx
    split at hx
    · rename_i hh; cases hx; exact .inl ⟨hh.1.symm, rfl⟩
    · rename_i hne
      by_cases hlt : i < h.cells.size
      · rw [f1 i hlt] at hx
        by_cases hip : i = (calloc h).2
        · exfalso
          apply hne
          exact ⟨hip.symm, by have := lt_of_get_some hx; omega⟩
        · exact .inr (.inl ⟨hip, hx⟩)
      · exact .inr (.inr (f2 i x (by omega) hx))
  · intro i x hx hne
    simp only [cput] at hne ⊢
    rw [cwrite_cells]
    split
    · rename_i hh; exact absurd hh.1.symm hne
    · rw [f1 i (lt_of_get_some hx)]; exact hx
  · intro q hq
    have hq' : q ∈ (calloc h).1.free := by simpa [cput, cwrite] using hq
    exact f4 q hq'

/-- **allocate a cell and store a non-code cell in it** -/
theorem cput_fstep {h : CHeap} (lf : LF h) {c : CCell} (hc : ∀ lam, c ≠ CCell.lambda lam) :
    FStep (fun x => x = c) h (cput h c).1 := by
  obtain ⟨k1, k2, k3, k4⟩ := cput_cells (h := h) c
  have hnl : ∀ lam, h.cells[(cput h c).2]? ≠ some (CCell.lambda lam) := by
    intro lam hl
    rcases k3 with h1 | h1
    · exact lf _ lam hl h1
    · have := lt_of_get_some hl; omega
  have ls : LamSame h (cput h c).1 := by
    intro l
    cases hl : lambdaAt h l with
    | some lam =>
      refine lambdaAt_iff.mpr (k2 l _ (lambdaAt_iff.mp hl) ?_)
      intro e; rw [e] at hl; exact hnl lam (lambdaAt_iff.mp hl)
    | none =>
      cases hl' : lambdaAt (cput h c).1 l with
      | none => rfl
      | some lam =>
        exfalso
        rcases k1 l _ (lambdaAt_iff.mp hl') with ⟨_, e⟩ | ⟨_, e⟩ | e
        · exact hc lam e.symm
        · have := lambdaAt_iff.mpr e; rw [hl] at this; cases this
        · cases e
  refine ⟨ls, ?_, ?_, ?_, k4, cput_size h c⟩
  · intro l lam hl hm
    have hold : h.cells[l]? = some (CCell.lambda lam) := by
      have := ls l
      rw [lambdaAt_iff.mpr hl] at this
      exact lambdaAt_iff.mp this.symm
    rcases k4 l hm with h1 | h1
    · exact lf l lam hold h1
    · have := lt_of_get_some hold; omega
  · intro i x hx
    rcases k1 i x hx with ⟨e1, e2⟩ | ⟨_, e⟩ | e
    · subst e1; exact .inr (.inr (.inl ⟨k3, e2⟩))
    · exact .inl e
    · exact .inr (.inr (.inr e))
  · intro i x hx hnf _
    refine k2 i x hx ?_
    intro e
    rcases k3 with h1 | h1
    · rw [← e] at h1; exact hnf h1
    · rw [← e] at h1; have := lt_of_get_some hx; omega

/-- the cell `cput` wrote, when it is there -/
theorem cput_at {h : CHeap} {c x : CCell} (hx : (cput h c).1.cells[(cput h c).2]? = some x) : x = c := by
  simp only [cput] at hx
  rw [cwrite_cells] at hx
  split at hx
  · cases hx; rfl
  · rename_i hne
    exfalso; apply hne
    exact ⟨rfl, by have := lt_of_get_some hx; simpa [cwrite] using this⟩

/-- an environment slot write -/
theorem envPut_fstep {N : CCell → Prop} {h h' : CHeap} (lf : LF h) {e k : Nat} {v : VCell}
    (hp : envPut h e k v = some h') : FStep N h h' := by
  unfold envPut at hp
  cases he : envAt h e with
  | none => rw [he] at hp; cases hp
  | some ss =>
    rw [he] at hp
    simp only at hp
    split at hp
    · cases hp
      have hcell := envAt_cell he
      have hlt : e < h.cells.size := lt_of_get_some hcell
      have ls : LamSame h (cwrite h e (.lexEnv (ss.set k v))) := by
        intro l
        unfold lambdaAt
        rw [cwrite_cells]
        by_cases hh : e = l ∧ e < h.cells.size
        · rw [if_pos hh]; obtain ⟨rfl, _⟩ := hh; rw [hcell]
        · rw [if_neg hh]
      refine ⟨ls, ?_, ?_, ?_, fun _ x => .inl x, by simp [cwrite]⟩
      · intro l lam hl hm
        have hold : h.cells[l]? = some (CCell.lambda lam) := by
          have := ls l
          rw [lambdaAt_iff.mpr hl] at this
          exact lambdaAt_iff.mp this.symm
        exact lf l lam hold hm
      · intro i c hc
        rw [cwrite_cells] at hc
        split at hc
        · rename_i hh; obtain ⟨rfl, _⟩ := hh
          cases hc
          exact .inr (.inl ⟨ss, _, rfl, hcell, by simp⟩)
        · exact .inl hc
      · intro i c hc _ hne
        rw [cwrite_cells]
        split
        · rename_i hh; obtain ⟨rfl, _⟩ := hh
          rw [hcell] at hc; cases hc; exact absurd rfl (hne ss)
        · exact hc
    · cases hp

theorem putNew_fstep {h : CHeap} (lf : LF h) (v : VCell) : FStep (fun x => x = .val v) h (putNew h v).1 := by
  have hc : ∀ lam, CCell.val v ≠ CCell.lambda lam := fun lam hh => by cases hh
  unfold putNew
  split
  · split
    · exact .refl lf
    · have x := cput_fstep lf (c := .val v) hc
      exact ⟨x.ls.trans (.of_cells rfl), fun l lam hl hm => x.lf l lam hl hm, x.cells, x.keep, x.free, x.size⟩
  · exact cput_fstep lf hc

theorem putV_fstep {h : CHeap} (lf : LF h) (v : VCell) : FStep (fun x => x = .val v) h (putV h v).1 := by
  unfold putV
  split
  · exact .refl lf
  · exact putNew_fstep lf v

theorem maybePutV_fstep {h : CHeap} (lf : LF h) (v : VCell) : FStep (fun x => x = .val v) h (maybePutV h v).1 := by
  unfold maybePutV
  split
  · exact .refl lf
  · exact putNew_fstep lf v

theorem globPut_fstep {N : CCell → Prop} {h : CHeap} (lf : LF h) (n : Nat) (v : VCell) :
    FStep N h { h with globals := h.globals.setIfInBounds n v } := .of_eq lf rfl rfl

/-! ## the environments CLOSURE and ENTER build -/

theorem closureSlots_len {h : CHeap} {ep bp : Nat} {st : Stack} :
    ∀ (em : List (VCell × Source)) (slots : List VCell), closureSlots h ep bp st em = .ok slots →
      slots.length = em.length := by
  intro em
  induction em with
  | nil => intro slots hc; simp only [closureSlots] at hc; cases hc; rfl
  | cons x rest ih =>
    intro slots hc
    obtain ⟨sym, src⟩ := x
    simp only [closureSlots] at hc
    obtain ⟨w, _, hc⟩ := bind_ok hc
    obtain ⟨ws, h2, hc⟩ := bind_ok hc
    cases hc
    simp [ih ws h2]

theorem activationSlots_len {env bp argc : Nat} {st : Stack} :
    ∀ (em : List (VCell × Source)) (slot : Nat) (olds slots : List VCell),
      activationSlots env bp argc st slot olds em = .ok slots → slots.length = olds.length := by
  intro em
  induction em with
  | nil =>
    intro slot olds slots hc
    cases olds <;> (simp only [activationSlots] at hc; cases hc; rfl)
  | cons x rest ih =>
    intro slot olds slots hc
    obtain ⟨sym, src⟩ := x
    cases olds with
    | nil => simp only [activationSlots] at hc; cases hc
    | cons old olds =>
      simp only [activationSlots] at hc
      obtain ⟨w, _, hc⟩ := bind_ok hc
      obtain ⟨ws, h2, hc⟩ := bind_ok hc
      cases hc
      simp [ih _ _ _ h2]

/-- the new cells of CLOSURE: an environment, and a closure cell over `lam` whose environment has a slot for every
    entry of `lam`'s map -/
def ClosNew (h' : CHeap) (lam : Nat) (c : CCell) : Prop :=
  (∃ ss, c = .lexEnv ss) ∨ ∃ e, c = .val (.closure lam e) ∧ Fit h' e lam

/-- **CLOSURE** -/
theorem makeClosure_fstep {h h' : CHeap} (lf : LF h) {lam ep bp : Nat} {st : Stack} {c : VCell}
    (hm : makeClosure h lam ep bp st = .ok (h', c)) : FStep (ClosNew h' lam) h h' := by
  unfold makeClosure at hm
  cases hl : lambdaAt h lam with
  | none => rw [hl] at hm; cases hm
  | some l =>
    rw [hl] at hm
    simp only at hm
    obtain ⟨slots, hsl, hm⟩ := bind_ok hm
    cases hm
    have hlen := closureSlots_len l.envmap slots hsl
    have x1 := cput_fstep lf (c := .lexEnv slots) (fun lam hh => by cases hh)
    have x2 := cput_fstep x1.lf (c := .val (.closure lam (cput h (.lexEnv slots)).2)) (fun lam hh => by cases hh)
    -- the closure cell fits in the final heap
    have hfit : Fit (cput (cput h (.lexEnv slots)).1 (.val (.closure lam (cput h (.lexEnv slots)).2))).1
        (cput h (.lexEnv slots)).2 lam := by
      intro lam' ss' hl' he'
      rw [(x1.ls.trans x2.ls) lam, hl] at hl'
      cases hl'
      rcases x2.cells _ _ (envAt_cell he') with k | ⟨s0, s1, e1, k, kl⟩ | ⟨_, k⟩ | k
      · have := cput_at k; cases this; omega
      · cases e1; have := cput_at k; cases this; omega
      · cases k
      · cases k
    generalize hH : (cput (cput h (.lexEnv slots)).1 (.val (.closure lam (cput h (.lexEnv slots)).2))).1 = H at hfit x2 ⊢
    have y1 : FStep (ClosNew H lam) h (cput h (.lexEnv slots)).1 :=
      x1.weaken (fun c hc => by subst hc; exact Or.inl ⟨slots, rfl⟩)
    have y2 : FStep (ClosNew H lam) (cput h (.lexEnv slots)).1 H :=
      x2.weaken (fun c hc => by subst hc; exact Or.inr ⟨_, rfl, hfit⟩)
    exact y1.trans (fun ss => Or.inl ⟨ss, rfl⟩) y2

/-- **ENTER**: the activation environment is as long as the closure's -/
theorem makeActivation_fstep {h h' : CHeap} (lf : LF h) {lam env bp : Nat} {st : Stack} {e : Nat}
    (hm : makeActivation h lam env bp st = .ok (h', e)) :
    FStep NoClaim h h' ∧ ∀ ss', envAt h' e = some ss' → ∃ olds, envAt h env = some olds ∧ ss'.length = olds.length := by
  unfold makeActivation at hm
  cases hl : lambdaAt h lam with
  | none => rw [hl] at hm; cases hm
  | some l =>
    rw [hl] at hm
    simp only at hm
    cases he : envAt h env with
    | none => rw [he] at hm; cases hm
    | some olds =>
      rw [he] at hm
      simp only at hm
      obtain ⟨slots, hsl, hm⟩ := bind_ok hm
      cases hm
      have hlen := activationSlots_len l.envmap 0 olds slots hsl
      have x1 := cput_fstep lf (c := .lexEnv slots) (fun lam hh => by cases hh)
      refine ⟨x1.weaken (fun c hc => by subst hc; exact NoClaim.lexEnv slots), ?_⟩
      intro ss' he'
      have := cput_at (envAt_cell he')
      cases this
      exact ⟨olds, rfl, hlen⟩

/-- **`call/cc`** -/
theorem newCont_fstep {h : CHeap} (lf : LF h) (k : Cont) : FStep (fun x => x = .cont k) h (cput h (.cont k)).1 :=
  cput_fstep lf (fun lam hh => by cases hh)

end Marwood.Lemmas.Good
