import Marwood.Lemmas.PolicyRefine
import Marwood.Lemmas.HeapWF
/-!
# Consequences of `WFHeap` used by the C12 statements: the free list is no longer than the heap
-/
namespace Marwood.Lemmas.PolicyWF
open Marwood Marwood.Heap Marwood.Lemmas.HeapWF

theorem nodup_bounded_length : ∀ (n : Nat) (l : List Nat), l.Nodup → (∀ x ∈ l, x < n) → l.length ≤ n := by
  intro n
  induction n with
  | zero =>
    intro l _ hb
    cases l with
    | nil => simp
    | cons a t => exact absurd (hb a (by simp)) (by omega)
  | succ n ih =>
    intro l hd hb
    by_cases hm : n ∈ l
    · have h1 := ih (l.erase n) (hd.erase n) (by
        intro x hx
        have := (hd.mem_erase_iff).mp hx
        have := hb x this.2
        omega)
      have := List.length_erase_of_mem hm
      omega
    · have := ih l hd (by
        intro x hx
        have := hb x hx
        have : x ≠ n := fun e => hm (e ▸ hx)
        omega)
      omega

theorem wf_free_length_le (fixed : Bool) (h : Heap) (wf : WFCore fixed h) : h.free.length ≤ h.cells.size := by
  apply nodup_bounded_length _ _ wf.nodup
  intro x hx
  have := (wf.free_iff x).mp hx
  rw [← wf.sizes]
  exact lt_of_getElem?_eq_some this

end Marwood.Lemmas.PolicyWF
