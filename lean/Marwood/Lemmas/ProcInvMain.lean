import Marwood.Lemmas.ProcInvStepB
import Marwood.Lemmas.ProcInvStepC
import Marwood.Lemmas.ProcInvStepD
import Marwood.Lemmas.ProcInvGc
import Marwood.Lemmas.VmOkDemo
/-!
# `CalleeOkAlong` is a theorem: "no value leads to entry code" is an invariant of the real machine

* `pinv_step` — `PInv s`, one successful instruction of `run_one` over `concreteOps ext` ⇒ `PInv s'` (one lemma per
  opcode, `Lemmas/ProcInvStep{A,B,C,D}.lean`); `pinv_gc` — a collection at any boundary (`Lemmas/ProcInvGc.lean`).
* `VmOkP = VmOk ∧ PInv` is an invariant of the real concrete machine (`vmOkP_reaches`): at every reachable state the
  callee guard passes (`calleeOk_of_pinv`), so `vmOk_step` applies without `CalleeOkAlong`.
* `calleeOkAlong_of_vmOk` — the hypothesis `CalleeOkAlong` of the machine-level theorems follows from `VmOk s0`,
  `PInv s0`, the laws of the unmodelled parts (`ExtLaws`, `ExtGood`, `ExtCodeLawsV`, `ExtProc`) and `SizeBounded`.
-/
namespace Marwood.Lemmas.Good
open Marwood Marwood.Vm Marwood.Vm.Verify Marwood.Vm.Concrete Marwood.Lemmas.Sim
open Marwood.Heap (GcState)
open StepC

section
variable {ext : ExtOps} {s0 : St CHeap}

theorem pv_tcall {s' : St CHeap} {b : Bool} (ep : ExtProc ext) (ecl : ExtCodeLawsV ext) (g : GoodI s0)
    (ci : CInvG IsValue s0.heap) (sd : StackDisc s0) (p : PInv s0) (hop : opAt s0 .tcallAcc)
    (hx : exec (concreteOps ext) .tcallAcc (nx s0) = .ok (s', b)) : PInv s' := by
  unfold exec at hx
  obtain ⟨s1, h1, hx⟩ := bind_ok hx
  cases hx
  have hblk : ArgBlock (nx s0).stack (nx s0).stack.sp := sd.call (.inr hop)
  have hfl : (nx s0).bp + 4 ≤ (nx s0).stack.sp := by
    obtain ⟨l, hl, hop'⟩ := hop
    exact sd.frameLive l hl (.inr hop')
  unfold stepTCall at h1
  cases hc : (concreteOps ext).callee (nx s0).heap (nx s0).acc with
  | builtin id => rw [hc] at h1; exact runBuiltin_pv ep ecl g.nx ci hblk p.nx h1
  | continuation c => rw [hc] at h1; exact invokeCont_pv g.nx p.nx hc h1
  | other => rw [hc] at h1; cases h1
  | closure lam env =>
    rw [hc] at h1
    obtain ⟨lam', _, h1⟩ := bind_ok h1
    exact tcall_rest_pv p.nx hfl h1
  | lambda =>
    rw [hc] at h1
    obtain ⟨lam', _, h1⟩ := bind_ok h1
    exact tcall_rest_pv p.nx hfl h1

/-- all 16 opcodes -/
theorem pv_exec (ep : ExtProc ext) (ecl : ExtCodeLawsV ext) {s' : St CHeap} {b : Bool} (g : GoodI s0)
    (ci : CInvG IsValue s0.heap) (sd : StackDisc s0) (p : PInv s0) {op : Op} (hop : opAt s0 op)
    (hx : exec (concreteOps ext) op (nx s0) = .ok (s', b)) : PInv s' := by
  have lf : LF s0.heap := .of_cinv ci
  cases op with
  | cons => exact pv_cons lf sd p hop hx
  | jmp => exact pv_jmp p hx
  | jnt => exact pv_jnt p hx
  | mov => exact pv_mov g lf sd p hop hx
  | movImm => exact pv_movImm g lf p hop hx
  | push => exact pv_push sd p hx
  | pushAcc => exact pv_pushAcc p hx
  | pushImm => exact pv_pushImm p hop hx
  | halt => exact pv_halt p hx
  | vpushAcc => exact pv_vpush ep g lf p hx
  | callAcc => exact pv_call ep ecl g ci sd p hop hx
  | closureAcc => exact pv_closure g lf p hx
  | enter => exact pv_enter lf p hx
  | ret => exact pv_ret sd p hop hx
  | tcallAcc => exact pv_tcall ep ecl g ci sd p hop hx
  | varArg => exact pv_varArg lf sd p hop hx

/-- **`PInv` is preserved by `run_one`** (real concrete machine, no guard) -/
theorem pinv_step (ep : ExtProc ext) (ecl : ExtCodeLawsV ext) {s s' : St CHeap} {b : Bool} (g : GoodI s)
    (ci : CInvG IsValue s.heap) (sd : StackDisc s) (p : PInv s) (hs : step (concreteOps ext) s = .ok (s', b)) :
    PInv s' := by
  rw [step_eq] at hs
  obtain ⟨⟨op, s1⟩, hro, hx⟩ := bind_ok hs
  obtain ⟨rfl, hop⟩ := readOpcode_inv hro
  exact pv_exec ep ecl g ci sd p hop hx

end

/-! ## the bundled invariant -/

variable {ext : ExtOps} {ecl : ExtCodeLawsV ext}

/-- `VmOk` (heap-simulation invariant and WF-stack over the value-typed verifier) **and** the two clauses -/
def VmOkP (ext : ExtOps) (ecl : ExtCodeLawsV ext) (s : St CHeap) : Prop := VmOk ext ecl s ∧ PInv s

theorem VmOk.cinv {s : St CHeap} (h : VmOk ext ecl s) : CInvG IsValue s.heap := by
  rcases h.2 with ⟨K, hw⟩ | hh
  · exact hw.inv
  · exact hh.1

/-- the callee guard passes in every state satisfying the bundled invariant -/
theorem VmOkP.calleeOk {s : St CHeap} (h : VmOkP ext ecl s) : CalleeOk s := calleeOk_of_pinv h.1.1 h.2

theorem vmOkP_step (el : ExtLaws ext) (eg : ExtGood ext) (ep : ExtProc ext) {s s' : St CHeap} {b : Bool}
    (h : VmOkP ext ecl s) (sm : Small s.heap) (hs : step (concreteOps ext) s = .ok (s', b)) (sm' : Small s'.heap) :
    VmOkP ext ecl s' :=
  ⟨vmOk_step el eg h.1 (fun _ => h.calleeOk) sm hs sm', pinv_step ep ecl h.1.1 h.1.cinv h.1.stackDisc h.2 hs⟩

theorem vmOkP_gc (force : Bool) {s : St CHeap} (h : VmOkP ext ecl s) (sm' : Small (cgc force s).heap) :
    VmOkP ext ecl (cgc force s) :=
  ⟨vmOk_gc force h.1 sm', pinv_gc force h.1.cinv h.2⟩

/-- **`VmOk ∧ PInv` is an invariant of the REAL concrete machine** — no hypothesis along the run besides the
    physical size bound -/
theorem vmOkP_reaches (force : Bool) (el : ExtLaws ext) (eg : ExtGood ext) (ep : ExtProc ext) {s0 : St CHeap}
    (h0 : VmOkP ext ecl s0) (sb : SizeBounded (machine ext force) s0) :
    ∀ s', Reaches (machine ext force) s0 s' → VmOkP ext ecl s' := by
  intro s' hr
  induction hr with
  | refl => exact h0
  | @next s1 s2 hr1 e ih =>
    have e' : vmStep (concreteOps ext) s1 = .next s2 := e
    unfold vmStep at e'
    cases hst : step (concreteOps ext) s1 with
    | ok r =>
      obtain ⟨s3, b⟩ := r
      rw [hst] at e'
      cases b <;> simp only at e'
      · cases e'
        exact vmOkP_step el eg ep ih (sb _ hr1) hst (sb _ (.next hr1 e))
      · cases e'
    | err x => rw [hst] at e'; cases e'
    | panic x => rw [hst] at e'; cases e'
  | @halt s1 s2 hr1 e ih =>
    have e' : vmStep (concreteOps ext) s1 = .halt s2 := e
    unfold vmStep at e'
    cases hst : step (concreteOps ext) s1 with
    | ok r =>
      obtain ⟨s3, b⟩ := r
      rw [hst] at e'
      cases b <;> simp only at e'
      · cases e'
      · cases e'
        exact vmOkP_step el eg ep ih (sb _ hr1) hst (sb _ (.halt hr1 e))
    | err x => rw [hst] at e'; cases e'
    | panic x => rw [hst] at e'; cases e'
  | @gc s1 hr1 ih =>
    exact vmOkP_gc force ih (sb _ (.gc hr1))

/-- **`CalleeOkAlong` discharged**: the callee guard passes at every reachable CALL / TCALL / ENTER site (at every
    reachable state, in fact), from the bundled invariant of the INITIAL state -/
theorem calleeOkAlong_of_vmOk (force : Bool) (el : ExtLaws ext) (eg : ExtGood ext) (ep : ExtProc ext) {s0 : St CHeap}
    (h0 : VmOk ext ecl s0) (p0 : PInv s0) (sb : SizeBounded (machine ext force) s0) :
    CalleeOkAlong (machine ext force) s0 :=
  fun s' hr _ => (vmOkP_reaches force el eg ep ⟨h0, p0⟩ sb s' hr).calleeOk

/-! ## `prepare_eval` -/

/-- the law of the compiler inside `prepare_eval` for the two clauses: the heap it returns — with the fresh entry
    lambda in it, which nothing but `ip.0` refers to — satisfies `HP` (a parameter, like `CompGood`) -/
structure CompProc (comp : CHeap → VCell → Outcome (CHeap × VCell)) : Prop where
  hp : ∀ (h : CHeap) (d : VCell) (h' : CHeap) (v : VCell), HP h → addrFree d = true → comp h d = .ok (h', v) → HP h'

/-- the state `prepare_eval` produces from an idle machine (`acc` and the stack wiped) satisfying `PInv` satisfies it -/
theorem prepare_pinv {comp : CHeap → VCell → Outcome (CHeap × VCell)} (cp : CompProc comp) {s s' : St CHeap}
    {d : VCell} (p : PInv s) (hacc : s.acc = .undefined) (hst : ∀ c ∈ s.stack.cells, c = VCell.undefined)
    (hd : addrFree d = true) (hp : prepareEval comp s d = .ok s') : PInv s' := by
  obtain ⟨h', e, hc, rfl⟩ := prepareEval_inv hp
  refine ⟨cp.hp _ _ _ _ p.hp hd hc, ?_, ?_⟩
  · show neB h' s.acc = true
    rw [hacc]; rfl
  · intro i v _ hv
    have : v = .undefined := hst v (List.mem_of_getElem? hv)
    subst this; rfl

/-- the error epilogue's reset (registers idle, stack wiped) keeps the two clauses -/
theorem onError_pinv {s : St CHeap} (p : PInv s) : PInv (onError s) := by
  refine ⟨p.hp, rfl, ?_⟩
  intro i v _ hv
  have hm : v ∈ List.replicate s.stack.cells.length VCell.undefined := List.mem_of_getElem? hv
  have : v = .undefined := (List.mem_replicate.mp hm).2
  subst this; rfl

/-! ## non-vacuity: the demo state of `Lemmas/VmOkDemo.lean` -/

namespace Demo

theorem sHalt_statePB (o : Nat) : statePB (sHalt o) = true := by
  show statePB (sHalt 0) = true
  decide +kernel

/-- the demo states satisfy the two clauses (through the executable check) -/
theorem sHalt_pinv (o : Nat) : PInv (sHalt o) := statePB_sound (sHalt_statePB o)

theorem sHalt_vmOkP (ext : ExtOps) (ecl : ExtCodeLawsV ext) : VmOkP ext ecl (sHalt 0) :=
  ⟨sHalt_vmOk ext ecl, sHalt_pinv 0⟩

theorem sHalt1_vmOkP (ext : ExtOps) (ecl : ExtCodeLawsV ext) : VmOkP ext ecl (sHalt 1) :=
  ⟨sHalt1_vmOk ext ecl, sHalt_pinv 1⟩

/-- the clauses are not trivially true: the demo heap's cell 0 is an entry lambda (`[HALT]`), and a state whose `acc`
    points to it, or whose heap holds a closure over it, is rejected by the executable check -/
example : statePB { sHalt 0 with acc := .ptr 0 } = false := by decide +kernel

example : heapPB { hHalt with cells := hHalt.cells.setIfInBounds 1 (.val (.closure 0 2)) } = false := by decide +kernel

end Demo

end Marwood.Lemmas.Good
