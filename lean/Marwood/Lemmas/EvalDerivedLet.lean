import Marwood.Lemmas.EvalDerivedSimple
/-!
# T01.2, second half (part 3): `let`, `let*`, named `let`, `letrec`

The uses are the well-formed ones: binding names are symbols that are not reserved words
(`symBindings bs` for `bs : List (Text × Datum)`), the body has at least one form.
-/
namespace Marwood.Spec.Eval.Derived
open Marwood Marwood.Spec.Eval Marwood.Spec.Eval.Prelude

/-- `((x e) …)` with symbol names -/
def symBindings (bs : List (Text × Datum)) : List (Datum × Datum) := bs.map fun p => (s p.1, p.2)

theorem symBindings_fst (bs : List (Text × Datum)) : (symBindings bs).map (·.1) = (bs.map (·.1)).map s := by
  simp [symBindings, List.map_map, Function.comp_def]

theorem symBindings_snd (bs : List (Text × Datum)) : (symBindings bs).map (·.2) = bs.map (·.2) := by
  simp [symBindings, List.map_map, Function.comp_def]

theorem parseBindings_bindingList : ∀ (bs : List (Text × Datum)), (∀ p ∈ bs, reserved p.1 = false) →
    parseBindings (bindingList (symBindings bs)) = some bs
  | [], _ => rfl
  | (x, e) :: bs, h => by
    have hx := h (x, e) (by simp)
    have ih := parseBindings_bindingList bs (fun p hp => h p (by simp [hp]))
    have e1 : bindingList (symBindings ((x, e) :: bs)) =
        .pair (.pair (.sym x) (.pair e .nil)) (bindingList (symBindings bs)) := rfl
    have hx' : reserved x = false := hx
    rw [e1]
    simp [parseBindings, hx', ih]

theorem parseFormals_syms : ∀ (xs : List Text), (∀ x ∈ xs, reserved x = false) →
    parseFormals (L (xs.map s)) = some (xs, none)
  | [], _ => rfl
  | x :: xs, h => by
    have hx := h x (by simp)
    have ih := parseFormals_syms xs (fun y hy => h y (by simp [hy]))
    have e1 : L ((x :: xs).map s) = .pair (.sym x) (L (xs.map s)) := rfl
    rw [e1]
    simp [parseFormals, hx, ih]

theorem bindingList_not_sym (bs : List (Datum × Datum)) (x : Text) : bindingList bs ≠ .sym x := by
  cases bs <;> simp [bindingList, L, Datum.ofList]

variable (r : Rec) (ρ : Env)

theorem evalArgs_length : ∀ (es : List Datum) (st : St) (vs : List Val) (st' : St),
    evalArgs r ρ es st = .ok vs st' → vs.length = es.length
  | [], st, vs, st', h => by
    have : vs = [] := by
      simp only [evalArgs] at h
      cases h; rfl
    simp [this]
  | e :: es, st, vs, st', h => by
    simp only [evalArgs] at h
    change M.bind' (r.eval e ρ) (fun v => M.bind' (evalArgs r ρ es) (fun vs => M.pure' (v :: vs))) st = _ at h
    unfold M.bind' at h
    cases h1 : r.eval e ρ st with
    | ok v s1 =>
      simp only [h1] at h
      cases h2 : evalArgs r ρ es s1 with
      | ok ws s2 =>
        simp only [h2, M.pure'] at h
        cases h
        simp [evalArgs_length es s1 ws _ h2]
      | err _ _ => simp [h2] at h
      | timeout => simp [h2] at h
    | err _ _ => simp [h1] at h
    | timeout => simp [h1] at h

theorem bindArgs_eq_allocVars : ∀ (xs : List Text) (vs : List Val) (ρ : Env), vs.length = xs.length →
    bindArgs xs none vs ρ = allocVars (xs.zip vs) ρ
  | [], [], ρ, _ => rfl
  | x :: xs, v :: vs, ρ, h => by
    simp only [bindArgs, List.zip_cons_cons, allocVars]
    have ih := fun ρ' => bindArgs_eq_allocVars xs vs ρ' (by simpa using h)
    simp only [ih]
  | [], _ :: _, _, h => by simp at h
  | _ :: _, [], _, h => by simp at h

/-! ## let -/

theorem native_let (bs : List (Text × Datum)) (b : Datum) (body : List Datum)
    (hb : ∀ p ∈ bs, reserved p.1 = false) :
    evalStep r (letUse (symBindings bs) b body) ρ = (do
      let vs ← evalArgs r ρ (bs.map (·.2))
      let ρ' ← allocVars ((bs.map (·.1)).zip vs) ρ
      evalBody r ρ' (b :: body)) := by
  have hp := parseBindings_bindingList bs hb
  have hl : properList (Datum.pair b (Datum.ofList body)) = some (b :: body) := properList_ofList (b :: body)
  simp only [letUse, L, s, Datum.ofList, evalStep, kwOf_let]
  cases hbl : bindingList (symBindings bs) with
  | sym x => exact absurd hbl (bindingList_not_sym _ x)
  | _ => simp only [evalKw, ← hbl, hp, hl]

/-- the operator of the expansion of `let` evaluates to the closure over the current environment -/
theorem lambda_closure (xs : List Text) (b : Datum) (body : List Datum) (hx : ∀ x ∈ xs, reserved x = false) :
    makeClosure (L (xs.map s)) (L (b :: body)) ρ = pure (.closure xs none (b :: body) ρ) := by
  have hl : properList (L (b :: body)) = some (b :: body) := properList_ofList (b :: body)
  unfold makeClosure
  rw [parseFormals_syms xs hx, hl]

theorem native_letExp (bs : List (Text × Datum)) (b : Datum) (body : List Datum) :
    evalStep r (letExp (symBindings bs) b body) ρ = (do
      let vs ← evalArgs r ρ (bs.map (·.2))
      let fv ← r.eval (L (s k_lambda :: L ((bs.map (·.1)).map s) :: b :: body)) ρ
      r.apply fv vs) := by
  rw [letExp, native_app r ρ _ _ (by intro x hx; simp [L, Datum.ofList] at hx), symBindings_fst, symBindings_snd]

theorem names_ok {bs : List (Text × Datum)} (hb : ∀ p ∈ bs, reserved p.1 = false) :
    ∀ x ∈ bs.map (·.1), reserved x = false := by
  intro x hx
  simp only [List.mem_map] at hx
  obtain ⟨p, hp, rfl⟩ := hx
  exact hb p hp

/-- **let**: `(let ((x e) …) b body …)` and `((lambda (x …) b body …) e …)` -/
theorem let_same (bs : List (Text × Datum)) (b : Datum) (body : List Datum)
    (hb : ∀ p ∈ bs, reserved p.1 = false) :
    Same 1 (letUse (symBindings bs) b body) (letExp (symBindings bs) b body) ρ := by
  have hx := names_ok hb
  intro n
  cases n with
  | zero => exact ⟨Le.timeout _, Le.timeout _⟩
  | succ n =>
    constructor
    · rw [evalN_succ_eval, evalN_succ_eval, native_let _ _ _ _ _ hb, native_letExp, evalN_succ_eval,
        native_lambda, lambda_closure ρ _ b body hx]
      simp only [pure_bind, evalN_succ_apply]
      refine Le.bindP (fun vs => vs.length = (bs.map (·.2)).length)
        (le_evalArgs (recLe_evalN_succ n) ρ _) (fun st vs st' h => evalArgs_length _ ρ _ st vs st' h) (fun vs hvs => ?_)
      refine Le.of_eq ?_
      show _ = (bindArgs _ none vs ρ >>= fun ρ' => evalBody (evalN n) ρ' (b :: body))
      rw [bindArgs_eq_allocVars _ vs ρ (by simpa using hvs)]
    · refine Le.trans ?_ (eval_le_add (n+1) 1 _ ρ)
      rw [evalN_succ_eval, evalN_succ_eval, native_let _ _ _ _ _ hb, native_letExp]
      refine Le.bindP (fun vs => vs.length = (bs.map (·.2)).length)
        (Le.refl _) (fun st vs st' h => evalArgs_length _ ρ _ st vs st' h) (fun vs hvs => ?_)
      have h1 : Le ((evalN n).eval (L (s k_lambda :: L ((bs.map (·.1)).map s) :: b :: body)) ρ)
          (pure (.closure (bs.map (·.1)) none (b :: body) ρ)) := by
        have := eval_le_step n (L (s k_lambda :: L ((bs.map (·.1)).map s) :: b :: body)) ρ
        rwa [native_lambda, lambda_closure ρ _ b body hx] at this
      refine (Le.bind h1 (fun fv => apply_le_step n fv vs)).trans (Le.of_eq ?_)
      rw [pure_bind]
      show (bindArgs _ none vs ρ >>= fun ρ' => evalBody (evalN n) ρ' (b :: body)) = _
      rw [bindArgs_eq_allocVars _ vs ρ (by simpa using hvs)]

/-! ## a single binding around one expression: `(let ((x e)) inner)` -/

theorem allocVars_one (x : Text) (v : Val) :
    allocVars [(x, v)] ρ = (allocCell (.var v) >>= fun l => pure ((x, l) :: ρ)) := rfl

/-- `(let ((x e)) inner)`: evaluate `e`, bind `x` to a fresh variable holding its value, evaluate `inner` -/
theorem let1_eval (x : Text) (e inner : Datum) (hx : reserved x = false) (hi : isDefine inner = false) :
    evalStep r (L [s k_let_, L [L [s x, e]], inner]) ρ = (do
      let v ← r.eval e ρ
      let l ← allocCell (.var v)
      r.eval inner ((x, l) :: ρ)) := by
  have h := native_let r ρ [(x, e)] inner [] (by intro p hp; simp at hp; subst hp; exact hx)
  have e1 : letUse (symBindings [(x, e)]) inner [] = L [s k_let_, L [L [s x, e]], inner] := rfl
  rw [e1] at h
  rw [h]
  simp only [List.map, evalArgs_one, bind_assoc, pure_bind, List.zip_cons_cons, List.zip_nil_right,
    allocVars_one]
  congr 1; funext v; congr 1; funext l
  rw [evalBody_noDefs r _ [inner] (by intro d hd; simp at hd; subst hd; exact hi)]
  rfl

/-! ## let* -/

theorem native_letStar (bs : List (Text × Datum)) (b : Datum) (body : List Datum)
    (hb : ∀ p ∈ bs, reserved p.1 = false) :
    evalStep r (letStarUse (symBindings bs) b body) ρ = evalLetStar r (b :: body) bs ρ := by
  have hp := parseBindings_bindingList bs hb
  have hl : properList (Datum.pair b (Datum.ofList body)) = some (b :: body) := properList_ofList (b :: body)
  simp only [letStarUse, L, s, Datum.ofList, evalStep, kwOf_letStar, evalKw, hp, hl]

theorem isDefine_letStarUse (bs : List (Datum × Datum)) (b : Datum) (body : List Datum) :
    isDefine (letStarUse bs b body) = false := by
  have : (k_letStar == k_define) = false := by decide
  simp [letStarUse, L, s, Datum.ofList, isDefine, this]

/-- **let\***: `(let* () b body …)` is `(let () b body …)`;
    `(let* ((x e) rest …) b body …)` is `(let ((x e)) (let* (rest …) b body …))` -/
theorem letStar_same (bs : List (Text × Datum)) (b : Datum) (body : List Datum)
    (hb : ∀ p ∈ bs, reserved p.1 = false) :
    Same 1 (letStarUse (symBindings bs) b body) (letStarExp (symBindings bs) b body) ρ := by
  intro n
  cases n with
  | zero => exact ⟨Le.timeout _, Le.timeout _⟩
  | succ n =>
    match bs, hb with
    | [], _ =>
      have e : evalStep (evalN n) (letStarExp (symBindings []) b body) ρ =
          evalStep (evalN n) (letStarUse (symBindings []) b body) ρ := by
        rw [native_letStar _ _ [] b body (by simp)]
        show evalStep (evalN n) (letUse (symBindings []) b body) ρ = _
        rw [native_let _ _ [] b body (by simp)]
        rfl
      exact ⟨(Le.of_eq (by rw [evalN_succ_eval, evalN_succ_eval, e])).trans (eval_le_add (n+1) 1 _ ρ),
             (Le.of_eq (by rw [evalN_succ_eval, evalN_succ_eval, e])).trans (eval_le_add (n+1) 1 _ ρ)⟩
    | (x, e) :: bs, hb =>
      have hx : reserved x = false := hb (x, e) (by simp)
      have hb' : ∀ p ∈ bs, reserved p.1 = false := fun p hp => hb p (by simp [hp])
      have e1 : letStarExp (symBindings ((x, e) :: bs)) b body =
          L [s k_let_, L [L [s x, e]], letStarUse (symBindings bs) b body] := rfl
      constructor
      · rw [evalN_succ_eval, evalN_succ_eval, native_letStar _ _ _ b body hb, e1,
          let1_eval _ _ x e _ hx (isDefine_letStarUse _ _ _)]
        simp only [evalLetStar]
        refine Le.bind ((recLe_evalN_succ n).eval e ρ) (fun v => Le.bind (Le.refl _) (fun l => ?_))
        rw [evalN_succ_eval, native_letStar _ _ _ b body hb']
        exact Le.refl _
      · refine Le.trans ?_ (eval_le_add (n+1) 1 _ ρ)
        rw [evalN_succ_eval, evalN_succ_eval, native_letStar _ _ _ b body hb, e1,
          let1_eval _ _ x e _ hx (isDefine_letStarUse _ _ _)]
        simp only [evalLetStar]
        refine Le.bind (Le.refl _) (fun v => Le.bind (Le.refl _) (fun l => ?_))
        have := eval_le_step n (letStarUse (symBindings bs) b body) ((x, l) :: ρ)
        rwa [native_letStar _ _ _ b body hb'] at this

end Marwood.Spec.Eval.Derived
