import Marwood.Lemmas.EnvRefineClosure
/-!
# T02.4, part 5: the model evaluator simulates the specification interpreter

`Post β t Q out out'`: the specification's outcome `out` and the model's outcome `out'` of the same
step, started in `β`-related states, agree — unless the specification stopped with `unbound` or
`fuel`, about which nothing is claimed (see `Proofs/C02.lean`): same kind of error or `Q`-related
results, and final states related by a later `β'`.

`Sims f`: for specification fuel `f` and every model fuel `g ≥ 2 f` (a `begin` costs the model two
levels: the call of the parameterless lambda), all seven mutually recursive functions of the two
evaluators are related by `Post`. `sims` proves it for every `f`, by induction.
-/
namespace Marwood.Vm.EnvRefine
open Marwood Marwood.Scope Marwood.Vm.Env Marwood.Spec.Scope

def errMap : SErr → MErr
  | .unbound => .unbound | .arity => .arity | .notProcedure => .notProcedure
  | .type => .type | .fuel => .fuel

def Post {α α' : Type} (β : LocMap) (t : MSt) (Q : LocMap → Envs MVal → α → α' → Prop)
    (out : Except SErr α × SSt) (out' : Except MErr α' × MSt) : Prop :=
  match out.1 with
  | .error .unbound => True
  | .error .fuel => True
  | .error e => ∃ β', out'.1 = .error (errMap e) ∧ Ext β t.envs β' out'.2.envs ∧ StRel β' out.2 out'.2
  | .ok a => ∃ β' a', out'.1 = .ok a' ∧ Ext β t.envs β' out'.2.envs ∧ StRel β' out.2 out'.2 ∧
      Q β' out'.2.envs a a'

section post
variable {α α' γ γ' : Type} {β : LocMap} {t : MSt}

theorem Post.unbound {Q : LocMap → Envs MVal → α → α' → Prop} {s' : SSt} {out'} :
    Post β t Q (.error .unbound, s') out' := trivial

theorem Post.fuel {Q : LocMap → Envs MVal → α → α' → Prop} {s' : SSt} {out'} :
    Post β t Q (.error .fuel, s') out' := trivial

theorem Post.ok {Q : LocMap → Envs MVal → α → α' → Prop} {a : α} {a' : α'} {s' : SSt} {t' : MSt} (β' : LocMap)
    (e : Ext β t.envs β' t'.envs) (r : StRel β' s' t') (q : Q β' t'.envs a a') :
    Post β t Q (.ok a, s') (.ok a', t') := ⟨β', a', rfl, e, r, q⟩

theorem Post.err {Q : LocMap → Envs MVal → α → α' → Prop} {er : SErr} {s' : SSt} {t' : MSt} (β' : LocMap)
    (e : Ext β t.envs β' t'.envs) (r : StRel β' s' t') :
    Post β t Q (.error er, s') (.error (errMap er), t') := by
  cases er <;> first | trivial | exact ⟨β', rfl, e, r⟩

theorem Post.weaken {Q : LocMap → Envs MVal → α → α' → Prop} {β0 : LocMap} {t0 : MSt} {out out'}
    (e0 : Ext β0 t0.envs β t.envs) (p : Post β t Q out out') : Post β0 t0 Q out out' := by
  obtain ⟨r, s'⟩ := out
  cases r with
  | error er =>
    cases er <;> first | trivial | (obtain ⟨β', h1, h2, h3⟩ := p; exact ⟨β', h1, e0.trans h2, h3⟩)
  | ok a =>
    obtain ⟨β', a', h1, h2, h3, h4⟩ := p
    exact ⟨β', a', h1, e0.trans h2, h3, h4⟩

theorem Post.mono {Q Q' : LocMap → Envs MVal → α → α' → Prop} {out out'}
    (p : Post β t Q out out') (hq : ∀ β' h' a a', Q β' h' a a' → Q' β' h' a a') : Post β t Q' out out' := by
  obtain ⟨r, s'⟩ := out
  cases r with
  | error er => cases er <;> exact p
  | ok a =>
    obtain ⟨β', a', h1, h2, h3, h4⟩ := p
    exact ⟨β', a', h1, h2, h3, hq _ _ _ _ h4⟩

/-- sequencing: the continuation is entered in a later world -/
theorem Post.bind {Q1 : LocMap → Envs MVal → α → α' → Prop} {Q2 : LocMap → Envs MVal → γ → γ' → Prop}
    {s : SSt} (m : X SErr SSt α) (k : α → X SErr SSt γ) (m' : X MErr MSt α') (k' : α' → X MErr MSt γ')
    (h1 : Post β t Q1 (exec m s) (exec m' t))
    (h2 : ∀ β1 s1 t1 a a', Ext β t.envs β1 t1.envs → StRel β1 s1 t1 → Q1 β1 t1.envs a a' →
      Post β1 t1 Q2 (exec (k a) s1) (exec (k' a') t1)) :
    Post β t Q2 (exec (m >>= k) s) (exec (m' >>= k') t) := by
  rw [exec_bind, exec_bind]
  rcases hm : exec m s with ⟨r, s1⟩
  rcases hm' : exec m' t with ⟨r', t1⟩
  rw [hm, hm'] at h1
  cases r with
  | error er =>
    cases er with
    | unbound => trivial
    | fuel => trivial
    | arity | notProcedure | type =>
      obtain ⟨β', e1, e2, e3⟩ := h1
      simp only at e1
      subst e1
      exact ⟨β', rfl, e2, e3⟩
  | ok a =>
    obtain ⟨β1, a', e1, e2, e3, e4⟩ := h1
    simp only at e1
    subst e1
    exact (h2 β1 s1 t1 a a' e2 e3 e4).weaken e2

end post

abbrev QV : LocMap → Envs MVal → SVal → MVal → Prop := fun β h v v' => VRel β h v v'
abbrev QL : LocMap → Envs MVal → List SVal → List MVal → Prop := fun β h vs vs' => Forall2 (VRel β h) vs vs'
abbrev QU : LocMap → Envs MVal → Unit → Unit → Prop := fun _ _ _ _ => True

theorem Forall2.mono' {β β' : LocMap} {h h' : Envs MVal} (e : Ext β h β' h') {vs : List SVal} {vs' : List MVal}
    (r : Forall2 (VRel β h) vs vs') : Forall2 (VRel β' h') vs vs' := by
  induction r with
  | nil => exact .nil
  | cons hv _ ih => exact .cons (hv.mono e) ih

/-- the seven simulation statements at specification fuel `f` -/
structure Sims (f : Nat) : Prop where
  eval : ∀ g, 2 * f ≤ g → ∀ (β : LocMap) (s : SSt) (t : MSt) (N : Name → Prop) (ctx : LamCtx) (ep : Option Nat)
    (ρ : Chain) (acts : List Nat) (e : Expr), StRel β s t → ActRel β t.envs N ctx ep ρ acts → (∀ x ∈ fv e, N x) →
    Post β t QV (exec (Spec.Scope.eval f ρ e) s) (exec (Vm.EnvRun.eval g ctx ep e) t)
  evalList : ∀ g, 2 * f ≤ g → ∀ (β : LocMap) (s : SSt) (t : MSt) (N : Name → Prop) (ctx : LamCtx) (ep : Option Nat)
    (ρ : Chain) (acts : List Nat) (es : Exprs), StRel β s t → ActRel β t.envs N ctx ep ρ acts →
    (∀ x ∈ fvList es, N x) →
    Post β t QL (exec (Spec.Scope.evalList f ρ es) s) (exec (Vm.EnvRun.evalList g ctx ep es) t)
  evalBody : ∀ g, 2 * f ≤ g → ∀ (β : LocMap) (s : SSt) (t : MSt) (N : Name → Prop) (ctx : LamCtx) (ep : Option Nat)
    (ρ : Chain) (acts : List Nat) (es : Exprs), StRel β s t → ActRel β t.envs N ctx ep ρ acts →
    (∀ x ∈ fvList es, N x) →
    Post β t QV (exec (Spec.Scope.evalBody f ρ es) s) (exec (Vm.EnvRun.evalBody g ctx ep es) t)
  evalDefs : ∀ g, 2 * f ≤ g → ∀ (β : LocMap) (s : SSt) (t : MSt) (N : Name → Prop) (ctx : LamCtx) (ep : Option Nat)
    (ρ : Chain) (acts : List Nat) (ds : Defs), StRel β s t → ActRel β t.envs N ctx ep ρ acts →
    (∀ x ∈ fvDefs ds, N x) → (∀ x ∈ ds.names, N x) →
    Post β t QU (exec (Spec.Scope.evalDefs f ρ ds) s) (exec (Vm.EnvRun.evalDefs g ctx ep ds) t)
  apply : ∀ g, 2 * f ≤ g → ∀ (β : LocMap) (s : SSt) (t : MSt) (fv : SVal) (fv' : MVal) (vs : List SVal)
    (vs' : List MVal), StRel β s t → VRel β t.envs fv fv' → Forall2 (VRel β t.envs) vs vs' →
    Post β t QV (exec (Spec.Scope.apply f fv vs) s) (exec (Vm.EnvRun.apply g fv' vs') t)
  loopGo : ∀ g, 2 * f ≤ g → ∀ (β : LocMap) (s : SSt) (t : MSt) (fv : SVal) (fv' : MVal) (n : Nat),
    StRel β s t → VRel β t.envs fv fv' →
    Post β t QV (exec (Spec.Scope.loopGo f fv n) s) (exec (Vm.EnvRun.loopGo g fv' n) t)
  eachGo : ∀ g, 2 * f ≤ g → ∀ (β : LocMap) (s : SSt) (t : MSt) (lv : SVal) (lv' : MVal) (vs : List SVal)
    (vs' : List MVal), StRel β s t → VRel β t.envs lv lv' → Forall2 (VRel β t.envs) vs vs' →
    Post β t QV (exec (Spec.Scope.eachGo f lv vs) s) (exec (Vm.EnvRun.eachGo g lv' vs') t)

theorem sims_zero : Sims 0 := by
  refine ⟨?_, ?_, ?_, ?_, ?_, ?_, ?_⟩ <;> intros
  · rw [Spec.Scope.eval]; exact Post.fuel
  · rw [Spec.Scope.evalList]; exact Post.fuel
  · rw [Spec.Scope.evalBody]; exact Post.fuel
  · rw [Spec.Scope.evalDefs]; exact Post.fuel
  · rw [Spec.Scope.apply]; exact Post.fuel
  · rw [Spec.Scope.loopGo]; exact Post.fuel
  · rw [Spec.Scope.eachGo]; exact Post.fuel

end Marwood.Vm.EnvRefine
