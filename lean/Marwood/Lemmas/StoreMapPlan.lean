import Marwood.Lemmas.StoreMapMain
/-!
# Plans of the walk from the lengths of the lists, and the callee laws of `car` and `cons`

`m` is the length of the shortest list.  `plan_ok`: when a list of length `m` is proper (ends in `()`)
the walk makes `m` calls on the columns `columnsN m` and stops; `plan_err`: when every list of length
`m` ends in a non-pair other than `()`, it makes the same `m` calls and then runs into that tail.
-/
namespace Marwood.Store
open Outcome

theorem columnsN_succ {m : Nat} {ass : List (List Nat)} (h : ass.any List.isEmpty = false) :
    columnsN (m + 1) ass = ass.map (·.headD 0) :: columnsN m (ass.map List.tail) := by
  simp only [columnsN, h, Bool.false_eq_true, if_false]

theorem any_isEmpty_false {m : Nat} {ass : List (List Nat)} (h : ∀ as ∈ ass, m + 1 ≤ as.length) :
    ass.any List.isEmpty = false := by
  induction ass with
  | nil => rfl
  | cons a rest ih =>
    rw [List.any_cons, Bool.or_eq_false_iff]
    refine ⟨?_, ih fun as ha => h as (List.mem_cons_of_mem _ ha)⟩
    have := h a (List.mem_cons_self ..)
    cases a with
    | nil => simp at this
    | cons _ _ => rfl

theorem tail_bound {m : Nat} {ass : List (List Nat)} (h : ∀ as ∈ ass, m + 1 ≤ as.length) :
    ∀ as ∈ ass.map List.tail, m ≤ as.length := by
  intro as ha
  obtain ⟨b, hb, rfl⟩ := List.mem_map.mp ha
  have := h b hb
  simp only [List.length_tail]; omega

/-- `m` calls when every list has at least `m` elements -/
theorem columnsN_length : ∀ {m : Nat} {ass : List (List Nat)}, (∀ as ∈ ass, m ≤ as.length) →
    (columnsN m ass).length = m
  | 0, _, _ => rfl
  | m+1, ass, h => by
    rw [columnsN_succ (any_isEmpty_false h), List.length_cons, columnsN_length (tail_bound h)]

/-- the j-th tuple holds the j-th element reference of every list, in the order of the lists -/
theorem columnsN_get : ∀ {m : Nat} {ass : List (List Nat)} {j : Nat}, (∀ as ∈ ass, m ≤ as.length) →
    j < m → (columnsN m ass)[j]? = some (ass.map fun as => as[j]?.getD 0)
  | 0, _, _, _, hj => by omega
  | m+1, ass, j, h, hj => by
    rw [columnsN_succ (any_isEmpty_false h)]
    cases j with
    | zero =>
      rw [List.getElem?_cons_zero]
      congr 1
      apply List.map_congr_left
      intro as _
      cases as <;> rfl
    | succ j =>
      rw [List.getElem?_cons_succ, columnsN_get (tail_bound h) (by omega), List.map_map]
      congr 1
      apply List.map_congr_left
      intro as _
      cases as with
      | nil => rfl
      | cons a t => simp

/-! ## plans -/

def firsts (views : List (List Nat × VCell)) : List (List Nat) := views.map (·.1)

theorem firsts_tl (views : List (List Nat × VCell)) :
    firsts (views.map tl) = (firsts views).map List.tail := by
  simp [firsts, tl, List.map_map, Function.comp_def]

theorem map_hd (views : List (List Nat × VCell)) :
    views.map hd = (firsts views).map (·.headD 0) := by
  simp [firsts, hd, List.map_map, Function.comp_def]

theorem any_noPair (views : List (List Nat × VCell)) :
    views.any noPair = (firsts views).any List.isEmpty := by
  simp only [firsts, List.any_map, Function.comp_def]
  rfl

theorem mem_firsts {views : List (List Nat × VCell)} {v : List Nat × VCell} (h : v ∈ views) :
    v.1 ∈ firsts views := List.mem_map.mpr ⟨v, h, rfl⟩

/-- a shortest list is proper: `m` calls, then the end of that list stops the walk -/
theorem plan_ok : ∀ {m : Nat} {views : List (List Nat × VCell)},
    (∀ v ∈ views, m ≤ v.1.length) → (∃ v ∈ views, v.1.length = m ∧ v.2 = .nil) →
    Plan views (columnsN m (firsts views)) true
  | 0, views, _, hex => by
    obtain ⟨v, hv, hlen, hnil⟩ := hex
    refine .stop (List.any_eq_true.mpr ⟨v, hv, ?_⟩)
    obtain ⟨as, c⟩ := v
    simp only at hlen hnil
    cases as with
    | nil => subst hnil; rfl
    | cons _ _ => simp at hlen
  | m+1, views, hmin, hex => by
    have hb : ∀ as ∈ firsts views, m + 1 ≤ as.length := by
      intro as ha
      obtain ⟨v, hv, rfl⟩ := List.mem_map.mp ha
      exact hmin v hv
    rw [columnsN_succ (any_isEmpty_false hb), ← map_hd, ← firsts_tl]
    refine .step (by rw [any_noPair]; exact any_isEmpty_false hb) (plan_ok ?_ ?_)
    · intro v hv
      obtain ⟨w, hw, rfl⟩ := List.mem_map.mp hv
      have := hmin w hw
      simp only [tl, List.length_tail]; omega
    · obtain ⟨v, hv, hlen, hnil⟩ := hex
      exact ⟨tl v, List.mem_map.mpr ⟨v, hv, rfl⟩, by simp only [tl, List.length_tail]; omega, hnil⟩

/-- every shortest list is improper: `m` calls, then `car` of the non-pair tail -/
theorem plan_err : ∀ {m : Nat} {views : List (List Nat × VCell)},
    (∀ v ∈ views, m < v.1.length ∨ (v.1.length = m ∧ v.2.isNil = false)) →
    (∃ v ∈ views, v.1.length = m) → Plan views (columnsN m (firsts views)) false
  | 0, views, hall, hex => by
    refine .stuck ?_ ?_
    · rw [Bool.eq_false_iff]
      intro h
      obtain ⟨v, hv, he⟩ := List.any_eq_true.mp h
      unfold ended at he
      rw [Bool.and_eq_true] at he
      rcases hall v hv with h1 | ⟨_, h2⟩
      · have : v.1 ≠ [] := by intro h0; rw [h0] at h1; simp at h1
        cases hh : v.1 with
        | nil => exact this hh
        | cons _ _ => rw [hh] at he; simp at he
      · rw [h2] at he; exact Bool.false_ne_true he.2
    · obtain ⟨v, hv, hlen⟩ := hex
      refine List.any_eq_true.mpr ⟨v, hv, ?_⟩
      unfold noPair
      cases hh : v.1 with
      | nil => rfl
      | cons _ _ => rw [hh] at hlen; simp at hlen
  | m+1, views, hall, hex => by
    have hb : ∀ as ∈ firsts views, m + 1 ≤ as.length := by
      intro as ha
      obtain ⟨v, hv, rfl⟩ := List.mem_map.mp ha
      rcases hall v hv with h | ⟨h, _⟩ <;> omega
    rw [columnsN_succ (any_isEmpty_false hb), ← map_hd, ← firsts_tl]
    refine .step (by rw [any_noPair]; exact any_isEmpty_false hb) (plan_err ?_ ?_)
    · intro v hv
      obtain ⟨w, hw, rfl⟩ := List.mem_map.mp hv
      simp only [tl, List.length_tail]
      rcases hall w hw with h | ⟨h, h2⟩
      · left; omega
      · right; exact ⟨by omega, h2⟩
    · obtain ⟨v, hv, hlen⟩ := hex
      exact ⟨tl v, List.mem_map.mpr ⟨v, hv, rfl⟩, by simp only [tl, List.length_tail]; omega⟩

theorem firsts_proper (ass : List (List Nat)) :
    firsts (ass.map fun as => (as, VCell.nil)) = ass := by
  simp [firsts, List.map_map, Function.comp_def]

/-! ## the laws of two concrete callees -/

/-- `car` on tuples of references to pairs of `s0`: it writes nothing (`M` empty) -/
theorem mapCallee_car {s0 : Store} {tuples : List (List VCell)}
    (h : ∀ args ∈ tuples, ∃ w a d, args = [.ptr w] ∧ s0.cells[w]? = some (.pair a d)) :
    MapCallee car (fun _ => False) (Extends s0) tuples := by
  refine ⟨fun t t' h1 h2 => h1.trans h2, fun t args hI hm => ?_⟩
  obtain ⟨w, a, d, rfl, hc⟩ := h args hm
  exact ⟨t, .ptr a, car_ok (get_of_cell (hI.cell hc)), Keeps.refl _ t, hI⟩

theorem cons_extends (t : Store) (args : List VCell) (u : Store) (y : VCell)
    (h : cons t args = .ok (u, y)) : Extends t u := by
  match args, h with
  | [a, d], h =>
    obtain ⟨s', p, pa, pd, h1, _, _, _, h5, _⟩ := cons_boxed t a d
    rw [h1] at h; cases h; exact h5
  | [], h => simp [cons, consRaw, finish] at h
  | [_], h => simp [cons, consRaw, finish] at h
  | _ :: _ :: _ :: _, h => simp [cons, consRaw, finish] at h

theorem car_extends (t : Store) (args : List VCell) (u : Store) (y : VCell)
    (h : car t args = .ok (u, y)) : Extends t u := by
  unfold car at h
  split at h
  · cases hg : t.get _ with
    | ok c =>
      rw [hg] at h
      cases c <;> simp at h
      rw [← h.1]; exact Extends.refl t
    | err e => rw [hg] at h; simp at h
    | panic m => rw [hg] at h; simp at h
    | diverge => rw [hg] at h; simp at h
  · cases h

/-- `cons` on tuples of two values: no invariant needed, it writes nothing that existed -/
theorem mapCallee_cons {tuples : List (List VCell)} (h : ∀ args ∈ tuples, args.length = 2) :
    MapCallee cons (fun _ => False) (fun _ => True) tuples := by
  refine ⟨fun _ _ _ _ => trivial, fun t args _ hm => ?_⟩
  have hl := h args hm
  match args, hl with
  | [a, d], _ =>
    obtain ⟨s', p, pa, pd, h1, _, _, _, h5, _⟩ := cons_boxed t a d
    exact ⟨s', .ptr p, h1, h5.keeps _, trivial⟩

end Marwood.Store

namespace Marwood.Store
open Outcome

/-! ## a failing call: the calls happen in list order, so the first failure is the answer -/

/-- the part of a round before the call -/
theorem mapAll_pre {g : Callee} {M : Nat → Prop} {s : Store} {xss : VCell}
    {ws : List Nat} {views : List (List Nat × VCell)} {f : Nat}
    (hx : SpineOff M s xss ws .nil) (hh : HeadsOff M s ws views)
    (hne : views.any noPair = false) (hf : ws.length < f) :
    ∃ s1, Extends s s1 ∧
      mapAll g (f+1) s xss = (do
        let (s, y) ← g s1 ((views.map hd).map VCell.ptr)
        let (s, cdrs) ← map1 cdr f s xss
        let (s, r) ← mapAll g f s cdrs
        cons s [y, r]) ∧
      forEachAll g (f+1) s xss = (do
        let (s, _) ← g s1 ((views.map hd).map VCell.ptr)
        let (s, cdrs) ← map1 cdr f s xss
        let (s, _) ← forEachAll g f s cdrs
        .ok (s, .void)) := by
  have hany := anyNull_spec hx hh hf
  rw [any_ended_false hne] at hany
  obtain ⟨pc, _⟩ := heads_step hh hne
  obtain ⟨s1, cars, e1, x1, fr1⟩ := map1_proj hx pc hf
  have hle : listElems f s1 cars = .ok ((views.map hd).map VCell.ptr) :=
    listElems_spec fr1.isList (by rw [length_map_hd, ← hh.length]; exact hf)
  refine ⟨s1, x1, ?_, ?_⟩
  · simp only [mapAll, hany, bind_ok, Bool.false_eq_true, if_false, e1, hle]
  · simp only [forEachAll, hany, bind_ok, Bool.false_eq_true, if_false, e1, hle]

/-- the failure of a computation as the outcome of a computation that contains it (same error class,
    panic site, or divergence) -/
def SameFailure {α β : Type} (o : Outcome α) (o' : Outcome β) : Prop :=
  (∀ x, o' ≠ .ok x) ∧ (∀ e, o = .err e → o' = .err e) ∧ (∀ m, o = .panic m → o' = .panic m) ∧
    (o = .diverge → o' = .diverge)

theorem sameFailure_bind {α β : Type} {o : Outcome α} (h : ∀ a, o ≠ .ok a) (k : α → Outcome β) :
    SameFailure o (o >>= k) := by
  cases o with
  | ok a => exact absurd rfl (h a)
  | err e =>
    exact ⟨fun _ h => (by cases h), fun _ h => (by cases h; rfl), fun _ h => (by cases h),
      fun h => (by cases h)⟩
  | panic m =>
    exact ⟨fun _ h => (by cases h), fun _ h => (by cases h), fun _ h => (by cases h; rfl),
      fun h => (by cases h)⟩
  | diverge =>
    exact ⟨fun _ h => (by cases h), fun _ h => (by cases h), fun _ h => (by cases h), fun _ => rfl⟩

theorem SameFailure.bind {α β γ : Type} {o : Outcome α} {o' : Outcome β} (h : SameFailure o o')
    (k : β → Outcome γ) : SameFailure o (o' >>= k) := by
  have h2 := sameFailure_bind h.1 k
  exact ⟨h2.1, fun e he => h2.2.1 e (h.2.1 e he), fun m he => h2.2.2.1 m (h.2.2.1 m he),
    fun he => h2.2.2.2 (h.2.2.2 he)⟩

/-- if the callee obeys its law on the tuples `pre` and fails on the next tuple `t` (in every store
    satisfying the invariant), `map-all` and `for-each-all` fail the same way: the calls before
    happen first, nothing after is attempted, and the end of the lists is not looked at before -/
theorem mapAll_callee_fails {g : Callee} {M : Nat → Prop} {I : Store → Prop}
    {views : List (List Nat × VCell)} {tuples : List (List Nat)} {b : Bool}
    (hp : Plan views tuples b) : ∀ {pre : List (List Nat)} {t : List Nat} {post : List (List Nat)}
    {s : Store} {xss : VCell} {ws : List Nat} {fuel : Nat}, tuples = pre ++ t :: post →
    SpineOff M s xss ws .nil → HeadsOff M s ws views → (∀ i, M i → i < s.cells.length) → I s →
    MapCallee g M I (argsOf pre) →
    (∀ st, I st → ∀ x, g st (t.map VCell.ptr) ≠ .ok x) →
    tuples.length + views.length + 2 ≤ fuel →
    ∃ st, I st ∧ SameFailure (g st (t.map VCell.ptr)) (mapAll g fuel s xss) ∧
      SameFailure (g st (t.map VCell.ptr)) (forEachAll g fuel s xss) := by
  induction hp with
  | stop _ => intro pre t post s xss ws fuel hs; cases pre <;> cases hs
  | stuck _ _ => intro pre t post s xss ws fuel hs; cases pre <;> cases hs
  | @step views tuples b hne _ ih =>
    intro pre t post s xss ws fuel hs hx hh hM hI hg hfail hfuel
    obtain ⟨f, rfl⟩ : ∃ f, fuel = f + 1 := ⟨fuel - 1, by omega⟩
    simp only [List.length_cons] at hfuel
    have hf : ws.length < f := by rw [hh.length]; omega
    cases pre with
    | nil =>
      simp only [List.nil_append, List.cons.injEq] at hs
      obtain ⟨rfl, rfl⟩ := hs
      obtain ⟨s1, x1, emap, efor⟩ := mapAll_pre (g := g) hx hh hne hf
      have hI1 := hg.grow s s1 hI x1
      refine ⟨s1, hI1, ?_, ?_⟩
      · rw [emap]; exact sameFailure_bind (hfail s1 hI1) _
      · rw [efor]; exact sameFailure_bind (hfail s1 hI1) _
    | cons p0 pre' =>
      simp only [List.cons_append, List.cons.injEq] at hs
      obtain ⟨rfl, hs'⟩ := hs
      obtain ⟨s1, u, y, s3, cdrs, ds, x1, hgu, hk, x3, hI3, hx3, hh3, emap, efor⟩ :=
        mapAll_step (g := g) (I := I) hx hh hM hne hf hI hg.grow
          (fun t ht => hg.call t _ ht (by rw [argsOf_cons]; exact List.mem_cons_self ..))
      have hlen3 : s.cells.length ≤ s3.cells.length :=
        Nat.le_trans x1.len (Nat.le_trans hk.len x3.len)
      obtain ⟨st, hIst, hm, hfe⟩ := ih (fuel := f) hs' hx3 hh3
        (fun i hi => Nat.lt_of_lt_of_le (hM i hi) hlen3) hI3 hg.tail hfail
        (by simp only [List.length_map]; omega)
      refine ⟨st, hIst, ?_, ?_⟩
      · rw [emap]; exact hm.bind _
      · rw [efor]; exact hfe.bind _

end Marwood.Store

namespace Marwood.Store
open Outcome

/-- `map` / `for-each` with a callee that fails on the tuple after `pre` -/
theorem map_callee_fails {g : Callee} {M : Nat → Prop} {I : Store → Prop} {s : Store} {xs : VCell}
    {rest : List VCell} {views : List (List Nat × VCell)} {tuples : List (List Nat)} {b : Bool}
    {fuel : Nat} {pre : List (List Nat)} {t : List Nat} {post : List (List Nat)}
    (hl : AllSpinesOff M s (xs :: rest) views) (hM : ∀ i, M i → i < s.cells.length)
    (hI : I s) (hp : Plan views tuples b) (hs : tuples = pre ++ t :: post)
    (hg : MapCallee g M I (argsOf pre))
    (hfail : ∀ st, I st → ∀ x, g st (t.map VCell.ptr) ≠ .ok x)
    (hfuel : tuples.length + (xs :: rest).length + 2 ≤ fuel) :
    ∃ st, I st ∧ SameFailure (g st (t.map VCell.ptr)) (map g fuel s (xs :: rest)) ∧
      SameFailure (g st (t.map VCell.ptr)) (forEach g fuel s (xs :: rest)) := by
  obtain ⟨s1, r0, s2, xss, ws, e1, e2, x2, hx, hh⟩ := map_prologue hl hM
  have hunf : map g fuel s (xs :: rest) = mapAll g fuel s2 xss := by
    simp only [map, e1, bind_ok, e2]
  have hunf2 : forEach g fuel s (xs :: rest) = forEachAll g fuel s2 xss := by
    simp only [forEach, e1, bind_ok, e2]
  rw [hunf, hunf2]
  exact mapAll_callee_fails (g := g) (I := I) hp hs hx hh
    (fun i hi => Nat.lt_of_lt_of_le (hM i hi) x2.len) (hg.grow s s2 hI x2) hg hfail
    (by rw [← hl.length]; exact hfuel)

/-- one list: the tuples are the elements, one by one -/
theorem columnsN_single : ∀ (as : List Nat), columnsN as.length [as] = as.map fun a => [a]
  | [] => rfl
  | a :: as => by
    have : columnsN (as.length + 1) [a :: as] = [a] :: columnsN as.length [as] := rfl
    rw [List.length_cons, this, columnsN_single as]; rfl

end Marwood.Store
