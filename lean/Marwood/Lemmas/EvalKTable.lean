import Marwood.Spec.EvalK
/-!
# The table of captured continuations is append-only (property C05)

Every helper of `Spec.EvalK.step` passes the table `ks` along unchanged; the only change is the
`ks.push κ` of `call/cc` in `appGo true`.
-/
namespace Marwood.Lemmas.EvalK
open Marwood Marwood.Spec.Eval Marwood.Spec.EvalK

/-- the table of the result is `ks` -/
def KsOk (ks : Array Kont) : Next → Prop
  | .run s => s.ks = ks
  | .halt _ _ ks' => ks' = ks
  | .stuck => True

@[simp] theorem ksOk_evalIn (e ρ κ σ) (ks : Array Kont) : KsOk ks (evalIn e ρ κ σ ks) := rfl
@[simp] theorem ksOk_retTo (v κ σ) (ks : Array Kont) : KsOk ks (retTo v κ σ ks) := rfl
@[simp] theorem ksOk_appTo (f a κ σ) (ks : Array Kont) : KsOk ks (appTo f a κ σ ks) := rfl
@[simp] theorem ksOk_failWith (e σ) (ks : Array Kont) : KsOk ks (failWith e σ ks) := rfl

theorem ksOk_withM {α : Type} (x : M α) (σ : St) (ks : Array Kont) (k : α → St → Next)
    (h : ∀ a σ', KsOk ks (k a σ')) : KsOk ks (withM x σ ks k) := by
  unfold withM
  split
  · exact h _ _
  · rfl
  · trivial

theorem ks_exprsGo (ρ es κ σ ks) : KsOk ks (exprsGo ρ es κ σ ks) := by
  unfold exprsGo; split <;> simp

theorem ks_defineGo (ρ d mk κ σ ks) : KsOk ks (defineGo ρ d mk κ σ ks) := by
  unfold defineGo
  split
  · split <;> simp
  · split
    · simp
    · apply ksOk_withM; intro a σ'; simp
  · simp

theorem ks_bodyFormsGo (ρ defs forms κ σ ks) : KsOk ks (bodyFormsGo ρ defs forms κ σ ks) := by
  unfold bodyFormsGo
  split
  · simp
  · split
    · exact ks_defineGo ..
    · simp
  · split
    · exact ks_defineGo ..
    · simp

theorem ks_bodyGo (ρ body κ σ ks) : KsOk ks (bodyGo ρ body κ σ ks) := by
  unfold bodyGo
  apply ksOk_withM; intro a σ'; exact ks_bodyFormsGo ..

theorem ks_argsDone (ρ vs th κ σ ks) : KsOk ks (argsDone ρ vs th κ σ ks) := by
  unfold argsDone
  split
  · simp
  · apply ksOk_withM; intro a σ'; exact ks_bodyGo ..
  · apply ksOk_withM; intro a σ'; simp

theorem ks_argsGo (ρ done todo th κ σ ks) : KsOk ks (argsGo ρ done todo th κ σ ks) := by
  unfold argsGo
  split
  · simp
  · exact ks_argsDone ..

theorem ks_letStarGo (body bs ρ κ σ ks) : KsOk ks (letStarGo body bs ρ κ σ ks) := by
  unfold letStarGo
  split
  · exact ks_bodyGo ..
  · simp

theorem ks_letrecGo (ρ bs body κ σ ks) : KsOk ks (letrecGo ρ bs body κ σ ks) := by
  unfold letrecGo
  split
  · exact ks_bodyGo ..
  · simp

theorem ks_condGo (ρ cs κ σ ks) : KsOk ks (condGo ρ cs κ σ ks) := by
  unfold condGo
  split
  · simp
  · split
    · split
      · split
        · exact ks_exprsGo ..
        · simp
      · simp
    · simp

theorem ks_clauseBodyGo (ρ v body κ σ ks) : KsOk ks (clauseBodyGo ρ v body κ σ ks) := by
  unfold clauseBodyGo
  split
  · split
    · simp
    · exact ks_exprsGo ..
  · exact ks_exprsGo ..

theorem ks_caseGo (ρ key cs κ σ ks) : KsOk ks (caseGo ρ key cs κ σ ks) := by
  induction cs with
  | nil => unfold caseGo; simp
  | cons c cs ih =>
    unfold caseGo
    split
    · split
      · extract_lets hit
        clear_value hit
        match hit with
        | none => simp
        | some false => exact ih
        | some true => exact ks_clauseBodyGo ..
      · simp
    · simp

theorem ks_andGo (ρ es κ σ ks) : KsOk ks (andGo ρ es κ σ ks) := by
  unfold andGo; split <;> simp

theorem ks_orGo (ρ es κ σ ks) : KsOk ks (orGo ρ es κ σ ks) := by
  unfold orGo; split <;> simp

theorem ks_qqGo (ρ d depth κ σ ks) : KsOk ks (qqGo ρ d depth κ σ ks) := by
  fun_induction qqGo ρ d depth κ σ ks <;>
    first | assumption | simp | (apply ksOk_withM; intro a σ'; simp)

theorem ks_topFormGo (d κ σ ks) : KsOk ks (topFormGo d κ σ ks) := by
  unfold topFormGo
  split
  · exact ks_defineGo ..
  · simp

theorem ks_topFormsGo (ds κ σ ks) : KsOk ks (topFormsGo ds κ σ ks) := by
  unfold topFormsGo
  split
  · simp
  · exact ks_topFormGo ..
  · exact ks_topFormGo ..

theorem ks_topGo (d κ σ ks) : KsOk ks (topGo d κ σ ks) := by
  unfold topGo
  split
  · split
    · split
      · exact ks_topFormsGo ..
      · simp
    · exact ks_topFormGo ..
  · exact ks_topFormGo ..

/-- closes a leaf goal of the big case analyses -/
local macro "ks_leaf" : tactic =>
  `(tactic| first
    | exact ksOk_evalIn ..
    | exact ksOk_retTo ..
    | exact ksOk_appTo ..
    | exact ksOk_failWith ..
    | exact ks_exprsGo ..
    | exact ks_bodyFormsGo ..
    | exact ks_bodyGo ..
    | exact ks_argsGo ..
    | exact ks_letStarGo ..
    | exact ks_letrecGo ..
    | exact ks_condGo ..
    | exact ks_clauseBodyGo ..
    | exact ks_caseGo ..
    | exact ks_andGo ..
    | exact ks_orGo ..
    | exact ks_qqGo ..
    | exact ks_topFormsGo ..
    | exact ks_topGo ..)

theorem ks_kwGo (ρ k rest κ σ ks) : KsOk ks (kwGo ρ k rest κ σ ks) := by
  unfold kwGo
  repeat' split
  all_goals first | ks_leaf | (apply ksOk_withM; intro a σ'; ks_leaf)

theorem ks_evGo (e ρ κ σ ks) : KsOk ks (evGo e ρ κ σ ks) := by
  unfold evGo
  split
  · apply ksOk_withM; intro a σ'; ks_leaf
  · extract_lets special
    clear_value special
    split
    · exact ks_kwGo ..
    · split <;> ks_leaf
  all_goals first | ks_leaf | (apply ksOk_withM; intro a σ'; ks_leaf)

theorem ks_mapGo (isMap f done todo κ σ ks) : KsOk ks (mapGo isMap f done todo κ σ ks) := by
  unfold mapGo
  repeat' split
  all_goals first | ks_leaf | (apply ksOk_withM; intro a σ'; ks_leaf)

theorem ks_applyGo (f args κ σ ks) : KsOk ks (applyGo f args κ σ ks) := by
  unfold applyGo
  repeat' split
  all_goals first
    | ks_leaf
    | (apply ksOk_withM; intro a σ'; first | ks_leaf | exact ks_mapGo .. | (split <;> ks_leaf))

theorem ks_appGo_false (f args κ σ ks) : KsOk ks (appGo false f args κ σ ks) := by
  unfold appGo
  exact ks_applyGo ..

theorem ks_retGo (fr v κ σ ks) : KsOk ks (retGo fr v κ σ ks) := by
  unfold retGo
  repeat' split
  all_goals first
    | ks_leaf
    | exact ks_mapGo ..
    | (apply ksOk_withM; intro a σ'
       first
         | ks_leaf
         | (split <;> first | ks_leaf | (apply ksOk_withM; intro a σ''; ks_leaf)))

/-- the table of the result is `ks`, or `ks` with `κ` pushed -/
def KsOkPush (ks : Array Kont) (κ : Kont) : Next → Prop
  | .run s => s.ks = ks ∨ s.ks = ks.push κ
  | .halt _ _ ks' => ks' = ks
  | .stuck => True

theorem KsOk.toPush {ks : Array Kont} {n : Next} (κ : Kont) (h : KsOk ks n) : KsOkPush ks κ n := by
  cases n with
  | run s => exact Or.inl h
  | halt _ _ _ => exact h
  | stuck => trivial

/-- `appGo true`: unchanged, or the current continuation is pushed (`call/cc`) -/
theorem ks_appGo_true (f args κ σ ks) : KsOkPush ks κ (appGo true f args κ σ ks) := by
  unfold appGo
  split
  · split
    · split
      · exact Or.inr rfl
      · exact (ksOk_failWith ..).toPush κ
    · exact (ksOk_failWith ..).toPush κ
  · split
    · exact (ksOk_failWith ..).toPush κ
    · split
      · exact (ksOk_retTo ..).toPush κ
      · exact (ksOk_failWith ..).toPush κ
  · exact (ks_applyGo ..).toPush κ

theorem ks_step_true' (s : State) : KsOkPush s.ks s.κ (step true s) := by
  unfold step
  split
  · exact (ks_evGo ..).toPush _
  · exact ks_appGo_true ..
  · split
    · exact KsOk.toPush (n := .halt _ _ _) _ rfl
    · exact (ks_retGo ..).toPush _

theorem ks_step_false (s : State) : KsOk s.ks (step false s) := by
  unfold step
  split
  · exact ks_evGo ..
  · exact ks_appGo_false ..
  · split
    · rfl
    · exact ks_retGo ..

theorem ks_step_true (s : State) :
    match step true s with
    | .run s' => s'.ks = s.ks ∨ s'.ks = s.ks.push s.κ
    | .halt _ _ ks' => ks' = s.ks
    | .stuck => True := by
  have h := ks_step_true' s
  revert h
  cases step true s <;> exact id

/-- the table is append-only: an entry, once there, stays -/
theorem step_ks_mono (kOn : Bool) (s s' : State) (h : step kOn s = .run s') (i : Nat) (κ : Kont)
    (hi : s.ks[i]? = some κ) : s'.ks[i]? = some κ := by
  cases kOn with
  | false =>
    have := ks_step_false s
    rw [h] at this
    have e : s'.ks = s.ks := this
    rw [e]; exact hi
  | true =>
    have := ks_step_true s
    rw [h] at this
    have e : s'.ks = s.ks ∨ s'.ks = s.ks.push s.κ := this
    rcases e with e | e
    · rw [e]; exact hi
    · rw [e]
      have hlt : i < s.ks.size := (Array.getElem?_eq_some_iff.mp hi).1
      rw [Array.getElem?_push]
      have : i ≠ s.ks.size := Nat.ne_of_lt hlt
      simp [this, hi]

end Marwood.Lemmas.EvalK
