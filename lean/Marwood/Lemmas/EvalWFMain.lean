import Marwood.Lemmas.EvalWFPrims
/-!
# Well-formedness: application, evaluation, the fuel induction

From a well-formed state (`WFSt`: every location mentioned by a cell of the store or by a global is
inside the store) and an environment whose locations are inside the store, the evaluator at any fuel
ends — with a value or an error — in a well-formed state whose store is at least as large, and the
value mentions only locations of the final store.
-/
namespace Marwood.Spec.Eval
open Marwood

variable {n0 : Nat} {r : Rec}

theorem pres_evalTopForm (hr : RecWF r) (d : Datum) : PresFrom n0 (evalTopForm r d) ValOK := by
  unfold evalTopForm
  split
  · refine PresFrom.bind (pres_defineValue hr [] d (by simp)) (fun p n1 _ hp => ?_)
    refine PresFrom.bind (pres_putGlobal p.1 p.2 hp) (fun _ n2 _ _ => ?_)
    exact PresFrom.pureV _ (by simp)
  · exact hr.eval n0 d [] (by simp)

theorem pres_evalTopForms (hr : RecWF r) : ∀ (ds : List Datum) (n0 : Nat),
    PresFrom n0 (evalTopForms r ds) ValOK
  | [], _ => PresFrom.throw _
  | [d], _ => by simpa [evalTopForms] using pres_evalTopForm hr d
  | d :: d' :: ds, n0 => by
    simp only [evalTopForms]
    refine PresFrom.bind (pres_evalTopForm hr d) (fun _ n1 _ _ => ?_)
    exact pres_evalTopForms hr (d' :: ds) n1

theorem pres_evalTop (hr : RecWF r) (d : Datum) : PresFrom n0 (evalTop r d) ValOK := by
  unfold evalTop
  split
  · split
    · split
      · exact pres_evalTopForms hr _ n0
      · exact PresFrom.throw _
    · exact pres_evalTopForm hr _
  · exact pres_evalTopForm hr _

theorem pres_application (hr : RecWF r) (f rest : Datum) (ρ : Env) (hρ : EnvOK n0 ρ) :
    PresFrom n0 (match properList rest with
      | some es => do
        let vs ← evalArgs r ρ es
        let fv ← r.eval f ρ
        r.apply fv vs
      | none => throw .syntax) ValOK := by
  split
  · rename_i es hp
    refine PresFrom.bind (pres_evalArgs hr ρ es n0 hρ) (fun vs n1 h1 hvs => ?_)
    refine PresFrom.bind (hr.eval n1 f ρ (hρ.mono h1)) (fun fv n2 h2 hfv => ?_)
    exact hr.apply n2 fv vs hfv (hvs.mono h2)
  · exact PresFrom.throw _

theorem pres_evalStep (hr : RecWF r) (e : Datum) (ρ : Env) (hρ : EnvOK n0 ρ) :
    PresFrom n0 (evalStep r e ρ) ValOK := by
  cases e with
  | sym s => simpa [evalStep] using pres_evalVar (n0 := n0) s ρ
  | pair f rest =>
    cases f with
    | sym s =>
      simp only [evalStep]
      cases hk : kwOf s with
      | some k => exact pres_evalKw hr ρ k rest hρ
      | none => exact pres_application hr _ rest ρ hρ
    | _ =>
      simp only [evalStep]
      exact pres_application hr _ rest ρ hρ
  | nil => exact PresFrom.throw _
  | procedure _ => exact PresFrom.throw _
  | macro_ => exact PresFrom.throw _
  | continuation => exact PresFrom.throw _
  | void => exact PresFrom.throw _
  | undefined => exact PresFrom.throw _
  | bool b => simpa [evalStep] using pres_quoteVal (n0 := n0) (.bool b)
  | char c => simpa [evalStep] using pres_quoteVal (n0 := n0) (.char c)
  | num n => simpa [evalStep] using pres_quoteVal (n0 := n0) (.num n)
  | str t => simpa [evalStep] using pres_quoteVal (n0 := n0) (.str t)
  | vec v => simpa [evalStep] using pres_quoteVal (n0 := n0) (.vec v)

theorem pres_applyStep (hr : RecWF r) (f : Val) (args : List Val) (hf : ValOK n0 f)
    (ha : ValsOK n0 args) : PresFrom n0 (applyStep r f args) ValOK := by
  unfold applyStep
  split
  · rename_i ps rest body ρ
    refine PresFrom.bind (pres_bindArgs ps rest args ρ n0 ha hf) (fun ρ' n1 _ hρ' => ?_)
    exact pres_evalBody hr ρ' body hρ'
  · split
    · rename_i g a as
      simp only [valsOK_cons] at ha
      refine PresFrom.bind (pres_getList _) (fun xs n1 h1 hxs => ?_)
      refine hr.apply n1 g _ (ha.1.mono h1) (valsOK_append.2 ⟨valsOK_dropLast ?_, hxs⟩)
      simp only [valsOK_cons]
      exact ⟨ha.2.1.mono h1, ha.2.2.mono h1⟩
    · exact PresFrom.throw _
  · split
    · rename_i v
      refine PresFrom.bind (pres_externalise v) (fun d n1 _ _ => ?_)
      exact pres_evalTop hr d
    · exact PresFrom.throw _
  · split
    · rename_i l
      refine PresFrom.bind (pres_readCell l) (fun c n1 _ hc => ?_)
      split
      · exact PresFrom.pureV _ hc
      · rename_i thunk
        refine PresFrom.bind (hr.apply n1 thunk [] hc (by simp)) (fun v n2 _ hv => ?_)
        refine PresFrom.bind (pres_readCell l) (fun c' n3 h3 hc' => ?_)
        split
        · exact PresFrom.pureV _ hc'
        · refine PresFrom.bind (pres_writeCell l _ (hv.mono h3)) (fun _ n4 h4 _ => ?_)
          exact PresFrom.pureV _ (hv.mono (Nat.le_trans h3 h4))
      · exact PresFrom.throw _
    · exact PresFrom.throw _
    · exact PresFrom.throw _
  · split
    · rename_i g l ls
      simp only [valsOK_cons] at ha
      refine PresFrom.bind (pres_getLists _ n0) (fun lists n1 h1 hl => ?_)
      refine PresFrom.bind pres_getStore (fun st n2 h2 _ => ?_)
      refine PresFrom.bind (pres_mapApply hr g _ n2 (ha.1.mono (Nat.le_trans h1 h2))
        (valsOK_zipArgs _ lists (fun l' hl' => (hl l' hl').mono h2))) (fun vs n3 _ hvs => ?_)
      exact pres_allocList vs n3 hvs
    · exact PresFrom.throw _
  · split
    · rename_i g l ls
      simp only [valsOK_cons] at ha
      refine PresFrom.bind (pres_getLists _ n0) (fun lists n1 h1 hl => ?_)
      refine PresFrom.bind pres_getStore (fun st n2 h2 _ => ?_)
      refine PresFrom.bind (pres_mapApply hr g _ n2 (ha.1.mono (Nat.le_trans h1 h2))
        (valsOK_zipArgs _ lists (fun l' hl' => (hl l' hl').mono h2))) (fun vs n3 _ hvs => ?_)
      exact PresFrom.pureV _ (by simp)
    · exact PresFrom.throw _
  · exact pres_applyPrim1 _ args ha
  · exact PresFrom.throw _

/-- the evaluator with any amount of fuel preserves well-formedness -/
theorem recWF_evalN : ∀ (n : Nat), RecWF (evalN n)
  | 0 => ⟨fun _ _ _ _ => PresFrom.timeout, fun _ _ _ _ _ => PresFrom.timeout⟩
  | n+1 => ⟨fun _ e ρ hρ => pres_evalStep (recWF_evalN n) e ρ hρ,
            fun _ f args hf ha => pres_applyStep (recWF_evalN n) f args hf ha⟩

/-! ## the statements -/

theorem wf_evalN (n : Nat) (e : Datum) (ρ : Env) (st : St) (hst : WFSt st)
    (hρ : EnvOK st.store.size ρ) :
    match (evalN n).eval e ρ st with
    | .ok v s => WFSt s ∧ st.store.size ≤ s.store.size ∧ ValOK s.store.size v
    | .err _ s => WFSt s ∧ st.store.size ≤ s.store.size
    | .timeout => True := by
  have h := (recWF_evalN n).eval st.store.size e ρ hρ st hst (Nat.le_refl _)
  cases h1 : (evalN n).eval e ρ st with
  | ok v s => simp only [h1, Post] at h; exact h
  | err e s => simp only [h1, Post] at h; exact h
  | timeout => trivial

theorem wf_applyN (n : Nat) (f : Val) (args : List Val) (st : St) (hst : WFSt st)
    (hf : ValOK st.store.size f) (ha : ∀ a ∈ args, ValOK st.store.size a) :
    match (evalN n).apply f args st with
    | .ok v s => WFSt s ∧ st.store.size ≤ s.store.size ∧ ValOK s.store.size v
    | .err _ s => WFSt s ∧ st.store.size ≤ s.store.size
    | .timeout => True := by
  have h := (recWF_evalN n).apply st.store.size f args hf ha st hst (Nat.le_refl _)
  cases h1 : (evalN n).apply f args st with
  | ok v s => simp only [h1, Post] at h; exact h
  | err e s => simp only [h1, Post] at h; exact h
  | timeout => trivial

theorem wf_evalTop (n : Nat) (d : Datum) (st : St) (hst : WFSt st) :
    match evalTop (evalN n) d st with
    | .ok v s => WFSt s ∧ st.store.size ≤ s.store.size ∧ ValOK s.store.size v
    | .err _ s => WFSt s ∧ st.store.size ≤ s.store.size
    | .timeout => True := by
  have h := pres_evalTop (n0 := 0) (recWF_evalN n) d st hst (Nat.zero_le _)
  cases h1 : evalTop (evalN n) d st with
  | ok v s => simp only [h1, Post] at h; exact h
  | err e s => simp only [h1, Post] at h; exact h
  | timeout => trivial

/-! The same facts without a `match` (a `match` written elsewhere elaborates to a different matcher
constant, so these are the forms to rewrite with): `Post`, and one implication per outcome. -/

theorem post_evalN (n : Nat) (e : Datum) (ρ : Env) (st : St) (hst : WFSt st)
    (hρ : EnvOK st.store.size ρ) : Post st.store.size ValOK ((evalN n).eval e ρ st) :=
  (recWF_evalN n).eval st.store.size e ρ hρ st hst (Nat.le_refl _)

theorem post_applyN (n : Nat) (f : Val) (args : List Val) (st : St) (hst : WFSt st)
    (hf : ValOK st.store.size f) (ha : ∀ a ∈ args, ValOK st.store.size a) :
    Post st.store.size ValOK ((evalN n).apply f args st) :=
  (recWF_evalN n).apply st.store.size f args hf ha st hst (Nat.le_refl _)

theorem post_evalTop (n : Nat) (d : Datum) (st : St) (hst : WFSt st) :
    Post st.store.size ValOK (evalTop (evalN n) d st) :=
  pres_evalTop (n0 := 0) (recWF_evalN n) d st hst (Nat.zero_le _)

theorem Post.ok {α : Type} {k : Nat} {P : Nat → α → Prop} {res : Res α} {a : α} {s : St}
    (h : Post k P res) (hr : res = .ok a s) : WFSt s ∧ k ≤ s.store.size ∧ P s.store.size a := by
  subst hr; exact h

theorem Post.err {α : Type} {k : Nat} {P : Nat → α → Prop} {res : Res α} {e : ErrClass} {s : St}
    (h : Post k P res) (hr : res = .err e s) : WFSt s ∧ k ≤ s.store.size := by
  subst hr; exact h

theorem wf_evalN_ok {n : Nat} {e : Datum} {ρ : Env} {st s : St} {v : Val} (hst : WFSt st)
    (hρ : EnvOK st.store.size ρ) (h : (evalN n).eval e ρ st = .ok v s) :
    WFSt s ∧ st.store.size ≤ s.store.size ∧ ValOK s.store.size v :=
  (post_evalN n e ρ st hst hρ).ok h

theorem wf_evalN_err {n : Nat} {e : Datum} {ρ : Env} {st s : St} {c : ErrClass} (hst : WFSt st)
    (hρ : EnvOK st.store.size ρ) (h : (evalN n).eval e ρ st = .err c s) :
    WFSt s ∧ st.store.size ≤ s.store.size :=
  (post_evalN n e ρ st hst hρ).err h

theorem wf_applyN_ok {n : Nat} {f : Val} {args : List Val} {st s : St} {v : Val} (hst : WFSt st)
    (hf : ValOK st.store.size f) (ha : ∀ a ∈ args, ValOK st.store.size a)
    (h : (evalN n).apply f args st = .ok v s) :
    WFSt s ∧ st.store.size ≤ s.store.size ∧ ValOK s.store.size v :=
  (post_applyN n f args st hst hf ha).ok h

theorem wf_applyN_err {n : Nat} {f : Val} {args : List Val} {st s : St} {c : ErrClass} (hst : WFSt st)
    (hf : ValOK st.store.size f) (ha : ∀ a ∈ args, ValOK st.store.size a)
    (h : (evalN n).apply f args st = .err c s) : WFSt s ∧ st.store.size ≤ s.store.size :=
  (post_applyN n f args st hst hf ha).err h

theorem wf_evalTop_ok {n : Nat} {d : Datum} {st s : St} {v : Val} (hst : WFSt st)
    (h : evalTop (evalN n) d st = .ok v s) :
    WFSt s ∧ st.store.size ≤ s.store.size ∧ ValOK s.store.size v :=
  (post_evalTop n d st hst).ok h

theorem wf_evalTop_err {n : Nat} {d : Datum} {st s : St} {c : ErrClass} (hst : WFSt st)
    (h : evalTop (evalN n) d st = .err c s) : WFSt s ∧ st.store.size ≤ s.store.size :=
  (post_evalTop n d st hst).err h

/-- the unlevelled forms -/
theorem pres_evalN (n : Nat) (e : Datum) : Pres ((evalN n).eval e []) ValOK :=
  ((recWF_evalN n).eval 0 e [] (by simp)).pres

theorem pres_evalTopN (n : Nat) (d : Datum) : Pres (evalTop (evalN n) d) ValOK :=
  (pres_evalTop (n0 := 0) (recWF_evalN n) d).pres

theorem lookup_initGlobals_prim (y : Text) (v : Val) (h : initGlobals.lookup y = some v) :
    ∃ p, v = .prim p := by
  unfold initGlobals at h
  generalize primTable = t at h
  induction t with
  | nil => simp at h
  | cons kv t ih =>
    obtain ⟨k, p⟩ := kv
    simp only [List.map_cons, List.lookup_cons] at h
    split at h
    · exact ⟨p, by cases h; rfl⟩
    · exact ih h

theorem wf_initSt : WFSt initSt := by
  refine ⟨?_, ?_⟩
  · intro l c h; simp [initSt] at h
  · intro y v h
    obtain ⟨p, rfl⟩ := lookup_initGlobals_prim y v h
    trivial

/-- a session keeps the state well formed: every state `runForm` returns is well formed, and its
    store is at least as large -/
theorem wf_runForm (n : Nat) (d : Datum) (st : St) (hst : WFSt st) :
    match (runForm n d st).2 with
    | some s => WFSt s ∧ st.store.size ≤ s.store.size
    | none => True := by
  have h := wf_evalTop n d st hst
  unfold runForm
  cases h1 : evalTop (evalN n) d st with
  | ok v s => simp only [h1] at h; exact ⟨h.1, h.2.1⟩
  | err e s => simp only [h1] at h; exact h
  | timeout => trivial

theorem wf_runSession (n : Nat) : ∀ (ds : List Datum) (st : St), WFSt st →
    match (runSession n ds st).2 with
    | some s => WFSt s ∧ st.store.size ≤ s.store.size
    | none => True
  | [], st, hst => by simp [runSession, hst]
  | d :: ds, st, hst => by
    have h1 := wf_runForm n d st hst
    simp only [runSession]
    cases ha : runForm n d st with
    | mk ra sa =>
      cases sa with
      | none => simp
      | some s =>
        simp only [ha] at h1
        have h2 := wf_runSession n ds s h1.1
        simp only
        cases hb : (runSession n ds s).2 with
        | none => trivial
        | some s' =>
          simp only [hb] at h2
          exact ⟨h2.1, Nat.le_trans h1.2 h2.2⟩

end Marwood.Spec.Eval
