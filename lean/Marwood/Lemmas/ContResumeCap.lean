import Marwood.Lemmas.ContResume
/-!
# The model's stack never shrinks

`step_len_mono`: no instruction decreases the capacity `stack.cells.length` (`push` grows it,
`restore` keeps it, everything else writes in place) — for every state, no invariant needed. Hence
(`runN_len_mono`) along any run, and a continuation captured at `s0` fits the stack of every later
state of the same run (`fits_later`): the capacity hypothesis `hfit` of
`invoke_continues_as_if_returned` is a theorem for re-entry within one evaluation. Across evaluations
the model's epilogues (`Vm/Eval.lean`: `clear`, the error arm) keep `cells.length` by definition.
-/
namespace Marwood.Vm
open Stack

variable {H : Type} {ops : HeapOps H}

theorem set_len {st st' : Stack} {i : Nat} {v : VCell} (h : st.set i v = .ok st') :
    st'.cells.length = st.cells.length := by
  unfold Stack.set at h
  split at h
  · cases h; simp
  · cases h

theorem setOffset_len {st st' : Stack} {off : Int} {v : VCell} (h : st.setOffset off v = .ok st') :
    st'.cells.length = st.cells.length := by
  unfold Stack.setOffset at h
  simp only at h
  split at h
  · exact set_len h
  · cases h

theorem pushList_len {s : St H} : ∀ (fuel : Nat) (rest : VCell) (n : Nat) (st : Stack) (n' : Nat) (st' : Stack),
    builtinApply.pushList ops s fuel rest n st = .ok (n', st') → st.cells.length ≤ st'.cells.length := by
  intro fuel
  induction fuel with
  | zero => intro rest n st n' st' h; simp only [builtinApply.pushList] at h; cases h
  | succ fuel ih =>
    intro rest n st n' st' h
    simp only [builtinApply.pushList] at h
    split at h
    · exact Nat.le_trans (push_len _ _) (ih _ _ _ _ _ h)
    · cases h; exact Nat.le_refl _
    · cases h

theorem tcallCopySame_len : ∀ (k it bp : Nat) (st st' : Stack), tcallCopySame k it bp st = .ok st' →
    st'.cells.length = st.cells.length := by
  intro k
  induction k with
  | zero => intro it bp st st' h; simp only [tcallCopySame] at h; cases h; rfl
  | succ k ih =>
    intro it bp st st' h
    simp only [tcallCopySame] at h
    obtain ⟨v, _, h⟩ := bind_inv h
    obtain ⟨i, _, h⟩ := bind_inv h
    obtain ⟨st1, hset, h⟩ := bind_inv h
    rw [ih _ _ _ _ h, set_len hset]

theorem tcallCopyDiff_len : ∀ (it sv : Nat) (st st' : Stack), tcallCopyDiff it sv st = .ok st' →
    st.cells.length ≤ st'.cells.length := by
  intro it
  induction it with
  | zero => intro sv st st' h; simp only [tcallCopyDiff] at h; cases h; exact Nat.le_refl _
  | succ it ih =>
    intro sv st st' h
    simp only [tcallCopyDiff] at h
    obtain ⟨i, _, h⟩ := bind_inv h
    obtain ⟨v, _, h⟩ := bind_inv h
    exact Nat.le_trans (push_len _ _) (ih _ _ _ h)

theorem storeOperand_len {s s1 : St H} {v : VCell} (h : storeOperand ops s v = .ok s1) :
    s1.stack.cells.length = s.stack.cells.length := by
  unfold storeOperand at h
  obtain ⟨⟨opnd, s2⟩, hro, h⟩ := bind_inv h
  have e2 := (readOperand_ok hro).2
  subst e2
  dsimp only at h
  cases opnd with
  | acc => cases h; rfl
  | ptr p => cases h; rfl
  | bpOffset off =>
    dsimp only at h
    obtain ⟨st, hset, h⟩ := bind_inv h
    cases h
    exact setOffset_len hset
  | globSlot n => cases h; rfl
  | lexEnvSlot n =>
    dsimp only at h
    cases he : ops.envGet s.heap s.ep n with
    | none => simp only [he] at h; cases h
    | some w =>
      simp only [he] at h
      cases w with
      | lexEnvPtr e k =>
        dsimp only at h
        cases he2 : ops.envPut s.heap e k v with
        | none => simp only [he2] at h; cases h
        | some h' => simp only [he2] at h; cases h; rfl
      | _ =>
        dsimp only at h
        cases he2 : ops.envPut s.heap s.ep n v with
        | none => simp only [he2] at h; cases h
        | some h' => simp only [he2] at h; cases h; rfl
  | _ => cases h

theorem invokeCont_len {s s' : St H} {c : Cont} (h : invokeCont s c = .ok s') :
    s'.stack.cells.length = s.stack.cells.length := by
  unfold invokeCont at h
  obtain ⟨⟨a, st1⟩, hp1, h⟩ := bind_inv h
  dsimp only at h
  obtain ⟨n, _, h⟩ := bind_inv h
  split at h
  · cases h
  · obtain ⟨⟨r, st2⟩, hp2, h⟩ := bind_inv h
    dsimp only at h
    obtain ⟨s3, hrc, h⟩ := bind_inv h
    cases h
    unfold restoreCont at hrc
    obtain ⟨st3, hre, hrc⟩ := bind_inv hrc
    cases hrc
    unfold Stack.restore at hre
    split at hre
    · rename_i hl
      cases hre
      have e : st2.cells = s.stack.cells := by rw [(pop_ok hp2).2.1, (pop_ok hp1).2.1]
      show (c.stack.cells ++ st2.cells.drop c.stack.cells.length).length = _
      rw [e] at hl ⊢
      simp only [List.length_append, List.length_drop]
      omega
    · cases hre

theorem runBuiltin_len {s s' : St H} {id : Nat} (h : runBuiltin ops id s = .ok s') :
    s.stack.cells.length ≤ s'.stack.cells.length := by
  rw [runBuiltin_eq] at h
  obtain ⟨⟨s2, v⟩, hb, ht⟩ := bind_inv h
  dsimp only at ht hb
  rw [(accTail_ok ht).1]
  cases hk : ops.builtinKind s.heap id <;> rw [hk] at hb <;> dsimp only at hb
  · -- apply
    unfold builtinApply at hb
    obtain ⟨⟨a, st1⟩, hp1, hb⟩ := bind_inv hb
    dsimp only at hb
    obtain ⟨argc, _, hb⟩ := bind_inv hb
    split at hb
    · cases hb
    · obtain ⟨⟨top, st2⟩, hp2, hb⟩ := bind_inv hb
      dsimp only at hb
      replace hb := ite_err_inv hb
      obtain ⟨proc, _, hb⟩ := bind_inv hb
      obtain ⟨st3, hsh, hb⟩ := bind_inv hb
      obtain ⟨⟨x, st4⟩, hp4, hb⟩ := bind_inv hb
      dsimp only at hb
      obtain ⟨⟨n, st5⟩, hpl, hb⟩ := bind_inv hb
      dsimp only at hb
      obtain ⟨ipO, _, hb⟩ := bind_inv hb
      cases hb
      have l1 := (pop_ok hp1).2.1
      have l2 := (pop_ok hp2).2.1
      have l3 := (shift_ok _ _ _ hsh).2.1
      have l4 := (pop_ok hp4).2.1
      have l5 := pushList_len _ _ _ _ _ _ hpl
      have l6 := push_len st5 (.argc n)
      show s.stack.cells.length ≤ (st5.push (.argc n)).cells.length
      rw [l4, l3, l2, l1] at l5
      omega
  · -- eval
    unfold builtinEvalProc at hb
    obtain ⟨⟨a, st1⟩, hp1, hb⟩ := bind_inv hb
    dsimp only at hb
    obtain ⟨argc, _, hb⟩ := bind_inv hb
    split at hb
    · cases hb
    · obtain ⟨⟨e, st2⟩, hp2, hb⟩ := bind_inv hb
      dsimp only at hb
      obtain ⟨⟨h', lam⟩, _, hb⟩ := bind_inv hb
      dsimp only at hb
      obtain ⟨ipO, _, hb⟩ := bind_inv hb
      cases hb
      have l1 := (pop_ok hp1).2.1
      have l2 := (pop_ok hp2).2.1
      have l3 := push_len st2 (.argc 0)
      show s.stack.cells.length ≤ (st2.push (.argc 0)).cells.length
      rw [l2, l1] at l3
      exact l3
  · -- call/cc
    unfold builtinCallcc at hb
    obtain ⟨⟨a, st1⟩, hp1, hb⟩ := bind_inv hb
    dsimp only at hb
    obtain ⟨argc, _, hb⟩ := bind_inv hb
    split at hb
    · cases hb
    · obtain ⟨⟨pr, st2⟩, hp2, hb⟩ := bind_inv hb
      dsimp only at hb
      split at hb
      · cases hb
      · obtain ⟨cst, _, hb⟩ := bind_inv hb
        obtain ⟨ipO, _, hb⟩ := bind_inv hb
        cases hb
        have l1 := (pop_ok hp1).2.1
        have l2 := (pop_ok hp2).2.1
        show s.stack.cells.length ≤ ((st2.push _).push (.argc 1)).cells.length
        refine Nat.le_trans ?_ (push_len _ _)
        refine Nat.le_trans ?_ (push_len _ _)
        rw [l2, l1]
        exact Nat.le_refl _
  · -- generic
    unfold builtinGeneric at hb
    obtain ⟨⟨a, st1⟩, hp1, hb⟩ := bind_inv hb
    dsimp only at hb
    obtain ⟨argc, _, hb⟩ := bind_inv hb
    obtain ⟨⟨args, st2⟩, hpn, hb⟩ := bind_inv hb
    dsimp only at hb
    obtain ⟨⟨h', r⟩, _, hb⟩ := bind_inv hb
    cases hb
    show s.stack.cells.length ≤ st2.cells.length
    rw [(popN_ok hpn).2, (pop_ok hp1).2.1]
    exact Nat.le_refl _

theorem tcallTail_len {s s' : St H} {lam : Nat} (h : tcallTail s lam = .ok s') :
    s.stack.cells.length ≤ s'.stack.cells.length := by
  unfold tcallTail at h
  obtain ⟨argc, _, h⟩ := bind_inv h
  obtain ⟨fargc, _, h⟩ := bind_inv h
  split at h
  · obtain ⟨sb, _, h⟩ := bind_inv h
    obtain ⟨st, hcp, h⟩ := bind_inv h
    obtain ⟨bp', _, h⟩ := bind_inv h
    cases h
    show _ ≤ st.cells.length
    rw [tcallCopySame_len _ _ _ _ _ hcp]
    exact Nat.le_refl _
  · obtain ⟨se, _, h⟩ := bind_inv h
    obtain ⟨si, _, h⟩ := bind_inv h
    obtain ⟨sb, _, h⟩ := bind_inv h
    obtain ⟨sp0, _, h⟩ := bind_inv h
    obtain ⟨st, hcp, h⟩ := bind_inv h
    obtain ⟨bp', _, h⟩ := bind_inv h
    cases h
    show _ ≤ (((st.push _).push _).push _).cells.length
    refine Nat.le_trans ?_ (push_len _ _)
    refine Nat.le_trans ?_ (push_len _ _)
    refine Nat.le_trans ?_ (push_len _ _)
    have l := tcallCopyDiff_len _ _ _ _ hcp
    exact l

theorem enterTail_len {s s' : St H} {lam : Nat} {cenv : Option Nat} (h : enterTail ops s lam cenv = .ok s') :
    s.stack.cells.length ≤ s'.stack.cells.length := by
  unfold enterTail at h
  dsimp only at h
  split at h
  · cases h
  · obtain ⟨a, _, h⟩ := bind_inv h
    obtain ⟨n, _, h⟩ := bind_inv h
    split at h
    · cases h
    · obtain ⟨bp, _, h⟩ := bind_inv h
      cases cenv with
      | none => dsimp only at h; cases h; exact push_len _ _
      | some env =>
        dsimp only at h
        obtain ⟨⟨h', e⟩, _, h⟩ := bind_inv h
        cases h
        exact push_len _ _

theorem stepVarArg_len {s s' : St H} (h : stepVarArg ops s = .ok s') :
    s.stack.cells.length ≤ s'.stack.cells.length := by
  unfold stepVarArg at h
  dsimp only at h
  split at h
  · cases h
  · obtain ⟨req, _, h⟩ := bind_inv h
    obtain ⟨argc, _, h⟩ := bind_inv h
    split at h
    · cases h
    · split at h
      · obtain ⟨v3, _, h⟩ := bind_inv h
        obtain ⟨pa, _, h⟩ := bind_inv h
        obtain ⟨pn, _, h⟩ := bind_inv h
        obtain ⟨st1, hset, h⟩ := bind_inv h
        cases h
        show _ ≤ st1.cells.length
        rw [setOffset_len hset]
        exact Nat.le_refl _
      · obtain ⟨⟨c1, st1⟩, hp1, h⟩ := bind_inv h
        dsimp only at h
        obtain ⟨⟨c2, st2⟩, hp2, h⟩ := bind_inv h
        dsimp only at h
        obtain ⟨⟨c3, st3⟩, hp3, h⟩ := bind_inv h
        dsimp only at h
        obtain ⟨pn, _, h⟩ := bind_inv h
        obtain ⟨⟨h2, lst, st4⟩, hcol, h⟩ := bind_inv h
        dsimp only at h
        cases h
        have e : st4.cells = s.stack.cells := by
          have : ∀ (k : Nat) (h : H) (acc : Nat) (a a' : Stack) (h' : H) (l : Nat),
              varargCollect ops k h acc a = .ok (h', l, a') → a'.cells = a.cells := by
            intro k
            induction k with
            | zero => intro h acc a a' h' l hc; simp only [varargCollect] at hc; cases hc; rfl
            | succ k ih =>
              intro h acc a a' h' l hc
              simp only [varargCollect] at hc
              obtain ⟨⟨v, a1⟩, hp, hc⟩ := bind_inv hc
              dsimp only at hc
              obtain ⟨pa, _, hc⟩ := bind_inv hc
              obtain ⟨pp, _, hc⟩ := bind_inv hc
              rw [ih _ _ _ _ _ _ hc, (pop_ok hp).2.1]
          rw [this _ _ _ _ _ _ _ hcol, (pop_ok hp3).2.1, (pop_ok hp2).2.1, (pop_ok hp1).2.1]
        show _ ≤ ((((st4.push _).push _).push _).push _).cells.length
        refine Nat.le_trans ?_ (push_len _ _)
        refine Nat.le_trans ?_ (push_len _ _)
        refine Nat.le_trans ?_ (push_len _ _)
        refine Nat.le_trans ?_ (push_len _ _)
        rw [e]
        exact Nat.le_refl _

/-- **the stack never shrinks**: no instruction decreases the capacity -/
theorem step_len_mono {s r : St H} {bl : Bool} (hs : step ops s = .ok (r, bl)) :
    s.stack.cells.length ≤ r.stack.cells.length := by
  unfold step at hs
  obtain ⟨⟨op, s1⟩, hr, hs⟩ := bind_inv hs
  have e1 := (readOpcode_ok hr).2
  subst e1
  cases op <;> dsimp only at hs
  · -- cons
    obtain ⟨⟨d, st1⟩, hp1, hs⟩ := bind_inv hs
    dsimp only at hs
    obtain ⟨⟨a, st2⟩, hp2, hs⟩ := bind_inv hs
    dsimp only at hs
    obtain ⟨pa, _, hs⟩ := bind_inv hs
    obtain ⟨pd, _, hs⟩ := bind_inv hs
    cases hs
    show _ ≤ st2.cells.length
    rw [(pop_ok hp2).2.1, (pop_ok hp1).2.1]
    exact Nat.le_refl _
  · -- jmp
    obtain ⟨⟨v, s2⟩, hro, hs⟩ := bind_inv hs
    obtain ⟨o, _, hs⟩ := bind_inv hs
    cases hs
    have e2 := (readOperand_ok hro).2
    subst e2
    exact Nat.le_refl _
  · -- jnt
    obtain ⟨⟨v, s2⟩, hro, hs⟩ := bind_inv hs
    obtain ⟨o, _, hs⟩ := bind_inv hs
    have e2 := (readOperand_ok hro).2
    subst e2
    dsimp only at hs
    split at hs <;> (cases hs; exact Nat.le_refl _)
  · -- mov
    obtain ⟨⟨v, s2⟩, hlo, hs⟩ := bind_inv hs
    obtain ⟨s3, hso, hs⟩ := bind_inv hs
    cases hs
    have e2 := loadOperand_ok hlo
    subst e2
    rw [storeOperand_len hso]
    exact Nat.le_refl _
  · -- movImm
    obtain ⟨⟨v, s2⟩, hro, hs⟩ := bind_inv hs
    obtain ⟨s3, hso, hs⟩ := bind_inv hs
    cases hs
    have e2 := (readOperand_ok hro).2
    subst e2
    rw [storeOperand_len hso]
    exact Nat.le_refl _
  · -- push
    obtain ⟨⟨v, s2⟩, hlo, hs⟩ := bind_inv hs
    cases hs
    have e2 := loadOperand_ok hlo
    subst e2
    exact push_len _ _
  · -- pushAcc
    cases hs
    exact push_len _ _
  · -- pushImm
    obtain ⟨⟨v, s2⟩, hro, hs⟩ := bind_inv hs
    cases hs
    have e2 := (readOperand_ok hro).2
    subst e2
    exact push_len _ _
  · -- halt
    cases hs
    exact Nat.le_refl _
  · -- vpush
    obtain ⟨⟨d, st1⟩, hp1, hs⟩ := bind_inv hs
    dsimp only at hs
    obtain ⟨h', _, hs⟩ := bind_inv hs
    cases hs
    show _ ≤ st1.cells.length
    rw [(pop_ok hp1).2.1]
    exact Nat.le_refl _
  · -- call
    obtain ⟨s2, he, hs⟩ := bind_inv hs
    cases hs
    unfold stepCall at he
    dsimp only at he
    cases hc : ops.callee s.heap s.acc <;> simp only [hc] at he
    · cases he
      exact Nat.le_trans (push_len _ _) (push_len _ _)
    · obtain ⟨lam, _, he⟩ := bind_inv he
      cases he
      exact Nat.le_trans (push_len _ _) (push_len _ _)
    · have l := runBuiltin_len he
      exact l
    · have l := invokeCont_len he
      exact Nat.le_of_eq l.symm
    · cases he
  · -- closure
    obtain ⟨lam, _, hs⟩ := bind_inv hs
    obtain ⟨⟨h', c⟩, _, hs⟩ := bind_inv hs
    cases hs
    exact Nat.le_refl _
  · -- enter
    obtain ⟨s2, he, hs⟩ := bind_inv hs
    cases hs
    rw [stepEnter_eq] at he
    dsimp only at he
    cases hc : ops.callee s.heap s.acc <;> simp only [hc] at he <;> try (cases he; done)
    · have l := enterTail_len he
      exact l
    · obtain ⟨p, _, he⟩ := bind_inv he
      have l := enterTail_len he
      exact l
  · -- ret
    obtain ⟨s2, he, hs⟩ := bind_inv hs
    cases hs
    obtain ⟨_, _, _, _, _, _, _, _, _, _, r⟩ := stepRet_ok he
    subst r
    exact Nat.le_refl _
  · -- tcall
    obtain ⟨s2, he, hs⟩ := bind_inv hs
    cases hs
    cases hc : ops.callee s.heap s.acc with
    | builtin id =>
      unfold stepTCall at he
      dsimp only at he
      simp only [hc] at he
      have l := runBuiltin_len he
      exact l
    | continuation c =>
      unfold stepTCall at he
      dsimp only at he
      simp only [hc] at he
      have l := invokeCont_len he
      exact Nat.le_of_eq l.symm
    | other =>
      unfold stepTCall at he
      dsimp only at he
      simp only [hc] at he
      cases he
    | closure lam env =>
      rw [stepTCall_closure (s := { s with ipO := s.ipO + 1 }) hc] at he
      have l := tcallTail_len he
      exact l
    | lambda =>
      rw [stepTCall_lambda (s := { s with ipO := s.ipO + 1 }) hc] at he
      obtain ⟨lam, _, he⟩ := bind_inv he
      have l := tcallTail_len he
      exact l
  · -- vararg
    obtain ⟨s2, he, hs⟩ := bind_inv hs
    cases hs
    have l := stepVarArg_len he
    exact l

theorem runN_len_mono : ∀ (n : Nat) {s r : St H} {bl : Bool}, runN ops n s = .ok (r, bl) →
    s.stack.cells.length ≤ r.stack.cells.length := by
  intro n
  induction n with
  | zero => intro s r bl h; simp only [runN] at h; cases h; exact Nat.le_refl _
  | succ n ih =>
    intro s r bl h
    simp only [runN] at h
    cases hst : step ops s with
    | err e => rw [hst] at h; cases h
    | panic m => rw [hst] at h; cases h
    | ok p =>
      obtain ⟨m1, b1⟩ := p
      rw [hst] at h
      have l1 := step_len_mono hst
      cases b1 with
      | true => simp only at h; cases h; exact l1
      | false => simp only at h; exact Nat.le_trans l1 (ih h)

/-- a continuation captured at `s0` fits the stack of every later state of the same run: the
    capacity hypothesis `hfit` of `invoke_continues_as_if_returned`, as a theorem -/
theorem fits_later {n : Nat} {s0 t : St H} {bl : Bool} (h0cap : s0.stack.sp < s0.stack.cells.length)
    (h0sp : 2 ≤ s0.stack.sp) (hrun : runN ops n s0 = .ok (t, bl)) :
    s0.stack.sp - 2 + 1 ≤ t.stack.cells.length := by
  have := runN_len_mono n hrun
  omega

end Marwood.Vm
