import Marwood.Lemmas.EvalFrame
/-!
# T01.1 — every level of the evaluator respects the frame
-/
namespace Marwood.Spec.Eval
open Marwood

variable {x : Text}

/-! ## clean data -/

@[simp] theorem clean_pair (a d : Datum) : Clean x (.pair a d) ↔ Clean x a ∧ Clean x d := by
  simp [Clean, mentions]

@[simp] theorem clean_vec (e : Datum) : Clean x (.vec e) ↔ Clean x e := by
  simp [Clean, mentions]

@[simp] theorem clean_sym (s : Text) : Clean x (.sym s) ↔ s ≠ x := by
  simp [Clean, mentions]

theorem clean_properList : ∀ (d : Datum) (es : List Datum), properList d = some es → Clean x d →
    ∀ e ∈ es, Clean x e
  | .nil, es, h, _ => by simp [properList] at h; subst h; simp
  | .pair a d, es, h, hc => by
    simp only [properList, Option.map_eq_some_iff] at h
    obtain ⟨es', h', rfl⟩ := h
    have hc' := (clean_pair a d).1 hc
    intro e he
    simp only [List.mem_cons] at he
    rcases he with rfl | he
    · exact hc'.1
    · exact clean_properList d es' h' hc'.2 e he
  | .bool _, _, h, _ | .char _, _, h, _ | .num _, _, h, _ | .str _, _, h, _ | .sym _, _, h, _
  | .vec _, _, h, _ | .continuation, _, h, _ | .macro_, _, h, _ | .procedure _, _, h, _
  | .undefined, _, h, _ | .void, _, h, _ => by simp [properList] at h

theorem clean_parseBindings : ∀ (d : Datum) (bs : List (Text × Datum)), parseBindings d = some bs →
    Clean x d → ∀ b ∈ bs, b.1 ≠ x ∧ Clean x b.2
  | .nil, bs, h, _ => by simp [parseBindings] at h; subst h; simp
  | .pair (.pair (.sym y) (.pair e .nil)) rest, bs, h, hc => by
    simp only [parseBindings] at h
    split at h
    · cases h
    · simp only [Option.map_eq_some_iff] at h
      obtain ⟨bs', h', rfl⟩ := h
      simp only [clean_pair] at hc
      intro b hb
      simp only [List.mem_cons] at hb
      rcases hb with rfl | hb
      · exact ⟨(clean_sym y).1 hc.1.1, hc.1.2.1⟩
      · exact clean_parseBindings rest bs' h' hc.2 b hb
  | .pair (.pair (.sym _) (.pair _ (.pair _ _))) _, _, h, _ => by simp [parseBindings] at h
  | .pair (.pair (.sym _) (.pair _ (.bool _))) _, _, h, _ => by simp [parseBindings] at h
  | .pair (.pair (.sym _) (.pair _ (.char _))) _, _, h, _ => by simp [parseBindings] at h
  | .pair (.pair (.sym _) (.pair _ (.num _))) _, _, h, _ => by simp [parseBindings] at h
  | .pair (.pair (.sym _) (.pair _ (.str _))) _, _, h, _ => by simp [parseBindings] at h
  | .pair (.pair (.sym _) (.pair _ (.sym _))) _, _, h, _ => by simp [parseBindings] at h
  | .pair (.pair (.sym _) (.pair _ (.vec _))) _, _, h, _ => by simp [parseBindings] at h
  | .pair (.pair (.sym _) (.pair _ .continuation)) _, _, h, _ => by simp [parseBindings] at h
  | .pair (.pair (.sym _) (.pair _ .macro_)) _, _, h, _ => by simp [parseBindings] at h
  | .pair (.pair (.sym _) (.pair _ (.procedure _))) _, _, h, _ => by simp [parseBindings] at h
  | .pair (.pair (.sym _) (.pair _ .undefined)) _, _, h, _ => by simp [parseBindings] at h
  | .pair (.pair (.sym _) (.pair _ .void)) _, _, h, _ => by simp [parseBindings] at h
  | .pair (.pair (.sym _) .nil) _, _, h, _ => by simp [parseBindings] at h
  | .pair (.pair (.sym _) (.bool _)) _, _, h, _ | .pair (.pair (.sym _) (.char _)) _, _, h, _
  | .pair (.pair (.sym _) (.num _)) _, _, h, _ | .pair (.pair (.sym _) (.str _)) _, _, h, _
  | .pair (.pair (.sym _) (.sym _)) _, _, h, _ | .pair (.pair (.sym _) (.vec _)) _, _, h, _
  | .pair (.pair (.sym _) .continuation) _, _, h, _ | .pair (.pair (.sym _) .macro_) _, _, h, _
  | .pair (.pair (.sym _) (.procedure _)) _, _, h, _ | .pair (.pair (.sym _) .undefined) _, _, h, _
  | .pair (.pair (.sym _) .void) _, _, h, _ => by simp [parseBindings] at h
  | .pair (.pair (.bool _) _) _, _, h, _ | .pair (.pair (.char _) _) _, _, h, _
  | .pair (.pair .nil _) _, _, h, _ | .pair (.pair (.num _) _) _, _, h, _
  | .pair (.pair (.pair _ _) _) _, _, h, _ | .pair (.pair (.str _) _) _, _, h, _
  | .pair (.pair (.vec _) _) _, _, h, _ | .pair (.pair .continuation _) _, _, h, _
  | .pair (.pair .macro_ _) _, _, h, _ | .pair (.pair (.procedure _) _) _, _, h, _
  | .pair (.pair .undefined _) _, _, h, _ | .pair (.pair .void _) _, _, h, _ => by simp [parseBindings] at h
  | .pair (.bool _) _, _, h, _ | .pair (.char _) _, _, h, _ | .pair .nil _, _, h, _
  | .pair (.num _) _, _, h, _ | .pair (.str _) _, _, h, _ | .pair (.sym _) _, _, h, _
  | .pair (.vec _) _, _, h, _ | .pair .continuation _, _, h, _ | .pair .macro_ _, _, h, _
  | .pair (.procedure _) _, _, h, _ | .pair .undefined _, _, h, _ | .pair .void _, _, h, _ => by
    simp [parseBindings] at h
  | .bool _, _, h, _ | .char _, _, h, _ | .num _, _, h, _ | .str _, _, h, _ | .sym _, _, h, _
  | .vec _, _, h, _ | .continuation, _, h, _ | .macro_, _, h, _ | .procedure _, _, h, _
  | .undefined, _, h, _ | .void, _, h, _ => by simp [parseBindings] at h

/-- what one level of evaluation may assume about the levels below -/
structure RecOK (x : Text) (r : Rec) : Prop where
  eval : ∀ e ρ, Clean x e → Resp x (r.eval e ρ) (CleanVal x)
  apply : ∀ f args, CleanVal x f → (∀ a ∈ args, CleanVal x a) → Resp x (r.apply f args) (CleanVal x)

def CleanVals (x : Text) (vs : List Val) : Prop := ∀ v ∈ vs, CleanVal x v
def CleanData (x : Text) (ds : List Datum) : Prop := ∀ d ∈ ds, Clean x d

@[simp] theorem cleanVals_nil : CleanVals x [] := by simp [CleanVals]
@[simp] theorem cleanVals_cons (v : Val) (vs : List Val) :
    CleanVals x (v :: vs) ↔ CleanVal x v ∧ CleanVals x vs := by simp [CleanVals]
@[simp] theorem cleanData_nil : CleanData x [] := by simp [CleanData]
@[simp] theorem cleanData_cons (d : Datum) (ds : List Datum) :
    CleanData x (d :: ds) ↔ Clean x d ∧ CleanData x ds := by simp [CleanData]

variable {r : Rec}

theorem resp_evalArgs (hr : RecOK x r) (ρ : Env) : ∀ es, CleanData x es →
    Resp x (evalArgs r ρ es) (CleanVals x)
  | [], _ => Resp.pure _ (by simp)
  | e :: es, h => by
    simp only [cleanData_cons] at h
    simp only [evalArgs]
    refine Resp.bind (hr.eval e ρ h.1) (fun v hv => ?_)
    refine Resp.bind (resp_evalArgs hr ρ es h.2) (fun vs hvs => ?_)
    exact Resp.pure _ (by simp [hv, hvs])

theorem resp_evalExprs (hr : RecOK x r) (ρ : Env) : ∀ es, CleanData x es →
    Resp x (evalExprs r ρ es) (CleanVal x)
  | [], _ => Resp.throw _
  | [e], h => by simp only [cleanData_cons] at h; simpa [evalExprs] using hr.eval e ρ h.1
  | e :: e' :: es, h => by
    simp only [cleanData_cons] at h
    simp only [evalExprs]
    refine Resp.bind (hr.eval e ρ h.1) (fun _ _ => ?_)
    exact resp_evalExprs hr ρ (e' :: es) (by simp [h.2])

theorem resp_evalAnd (hr : RecOK x r) (ρ : Env) : ∀ es, CleanData x es →
    Resp x (evalAnd r ρ es) (CleanVal x)
  | [], _ => Resp.pure _ (by simp [CleanVal])
  | [e], h => by simp only [cleanData_cons] at h; simpa [evalAnd] using hr.eval e ρ h.1
  | e :: e' :: es, h => by
    simp only [cleanData_cons] at h
    simp only [evalAnd]
    refine Resp.bind (hr.eval e ρ h.1) (fun v hv => ?_)
    split
    · exact resp_evalAnd hr ρ (e' :: es) (by simp [h.2])
    · exact Resp.pure _ hv

theorem resp_evalOr (hr : RecOK x r) (ρ : Env) : ∀ es, CleanData x es →
    Resp x (evalOr r ρ es) (CleanVal x)
  | [], _ => Resp.pure _ (by simp [CleanVal])
  | [e], h => by simp only [cleanData_cons] at h; simpa [evalOr] using hr.eval e ρ h.1
  | e :: e' :: es, h => by
    simp only [cleanData_cons] at h
    simp only [evalOr]
    refine Resp.bind (hr.eval e ρ h.1) (fun v hv => ?_)
    split
    · exact Resp.pure _ hv
    · exact resp_evalOr hr ρ (e' :: es) (by simp [h.2])


/-! ## store-level helpers -/

theorem resp_readVar (l : Loc) : Resp x (readVar l) (CleanVal x) := by
  unfold readVar
  refine Resp.bind (resp_readCell l) (fun c hc => ?_)
  cases c with
  | var v => exact Resp.pure _ hc
  | _ => exact Resp.throw _

theorem resp_readPair (v : Val) : Resp x (readPair v) (fun p => CleanVal x p.1 ∧ CleanVal x p.2) := by
  unfold readPair
  cases v with
  | pair l =>
    refine Resp.bind (resp_readCell l) (fun c hc => ?_)
    cases c with
    | pair a d => exact Resp.pure _ hc
    | _ => exact Resp.throw _
  | _ => exact Resp.throw _

theorem resp_readVec (v : Val) : Resp x (readVec v) (fun p => CleanVals x p.2) := by
  unfold readVec
  cases v with
  | vec l =>
    refine Resp.bind (resp_readCell l) (fun c hc => ?_)
    cases c with
    | vec xs => exact Resp.pure _ hc
    | _ => exact Resp.throw _
  | _ => exact Resp.throw _

theorem resp_cons (a d : Val) (ha : CleanVal x a) (hd : CleanVal x d) : Resp x (cons a d) (CleanVal x) := by
  unfold cons
  refine Resp.bind (resp_allocCell _ ⟨ha, hd⟩) (fun l _ => ?_)
  exact Resp.pure _ (by simp [CleanVal])

theorem resp_allocVec (xs : List Val) (h : CleanVals x xs) : Resp x (allocVec xs) (CleanVal x) := by
  unfold allocVec
  refine Resp.bind (resp_allocCell _ h) (fun l _ => ?_)
  exact Resp.pure _ (by simp [CleanVal])

theorem resp_allocListTail : ∀ (vs : List Val) (t : Val), CleanVals x vs → CleanVal x t →
    Resp x (allocListTail vs t) (CleanVal x)
  | [], t, _, ht => Resp.pure _ ht
  | v :: vs, t, h, ht => by
    simp only [cleanVals_cons] at h
    simp only [allocListTail]
    refine Resp.bind (resp_allocListTail vs t h.2 ht) (fun r hr => ?_)
    exact resp_cons v r h.1 hr

theorem resp_allocList : ∀ (vs : List Val), CleanVals x vs → Resp x (allocList vs) (CleanVal x)
  | [], _ => Resp.pure _ (by simp [CleanVal])
  | v :: vs, h => by
    simp only [cleanVals_cons] at h
    simp only [allocList]
    refine Resp.bind (resp_allocList vs h.2) (fun r hr => ?_)
    exact resp_cons v r h.1 hr

theorem clean_listOfVal (s : Array Cell) (hs : CleanStore x s) : ∀ (fuel : Nat) (v : Val) (xs : List Val),
    listOfVal fuel s v = some xs → CleanVals x xs := by
  intro fuel
  induction fuel with
  | zero =>
    intro v xs h
    cases v <;> simp [listOfVal] at h
    subst h; simp
  | succ fuel ih =>
    intro v xs h
    cases v with
    | nil => simp [listOfVal] at h; subst h; simp
    | pair l =>
      simp only [listOfVal] at h
      cases hl : s[l]? with
      | none => simp [hl] at h
      | some c =>
        cases c with
        | pair a d =>
          simp only [hl, Option.map_eq_some_iff] at h
          obtain ⟨ys, hy, rfl⟩ := h
          have := hs l _ hl
          simp only [cleanVals_cons]
          exact ⟨this.1, ih d ys hy⟩
        | _ => simp [hl] at h
    | _ => simp [listOfVal] at h

theorem resp_getList (v : Val) : Resp x (getList v) (CleanVals x) := by
  unfold getList
  refine Resp.bind resp_getStore (fun s hs => ?_)
  cases h : listOfVal (s.size + 1) s v with
  | none => exact Resp.throw _
  | some xs => exact Resp.pure _ (clean_listOfVal s hs _ _ _ h)

theorem resp_getLists : ∀ (vs : List Val), Resp x (getLists vs) (fun ls => ∀ l ∈ ls, CleanVals x l)
  | [] => Resp.pure _ (by simp)
  | v :: vs => by
    simp only [getLists]
    refine Resp.bind (resp_getList v) (fun l hl => ?_)
    refine Resp.bind (resp_getLists vs) (fun ls hls => ?_)
    exact Resp.pure _ (by simp [hl]; exact hls)

/-! ## data in and out -/

theorem clean_quote : ∀ (d : Datum), Clean x d →
    Resp x (quoteVal d) (CleanVal x) ∧ Resp x (quoteElems d) (CleanVals x) := by
  intro d
  induction d with
  | bool b => intro _; exact ⟨Resp.pure _ (by simp [CleanVal]), Resp.pure _ (by simp)⟩
  | char c => intro _; exact ⟨Resp.pure _ (by simp [CleanVal]), Resp.pure _ (by simp)⟩
  | nil => intro _; exact ⟨Resp.pure _ (by simp [CleanVal]), Resp.pure _ (by simp)⟩
  | num n =>
    intro _
    refine ⟨?_, Resp.pure _ (by simp)⟩
    simp only [quoteVal]
    cases intOfNum n with
    | none => exact Resp.throw _
    | some i => exact Resp.pure _ (by simp [CleanVal])
  | str s => intro _; exact ⟨Resp.pure _ (by simp [CleanVal]), Resp.pure _ (by simp)⟩
  | sym s => intro h; exact ⟨Resp.pure _ (by simpa [CleanVal] using h), Resp.pure _ (by simp)⟩
  | pair a d iha ihd =>
    intro h
    simp only [clean_pair] at h
    refine ⟨?_, ?_⟩
    · simp only [quoteVal]
      refine Resp.bind (iha h.1).1 (fun a' ha' => ?_)
      refine Resp.bind (ihd h.2).1 (fun d' hd' => ?_)
      exact resp_cons a' d' ha' hd'
    · simp only [quoteElems]
      refine Resp.bind (iha h.1).1 (fun a' ha' => ?_)
      refine Resp.bind (ihd h.2).2 (fun d' hd' => ?_)
      exact Resp.pure _ (by simp [ha', hd'])
  | vec e ih =>
    intro h
    simp only [clean_vec] at h
    refine ⟨?_, Resp.pure _ (by simp)⟩
    simp only [quoteVal]
    refine Resp.bind (ih h).2 (fun xs hxs => ?_)
    exact resp_allocVec xs hxs
  | continuation => intro _; exact ⟨Resp.throw _, Resp.pure _ (by simp)⟩
  | macro_ => intro _; exact ⟨Resp.throw _, Resp.pure _ (by simp)⟩
  | procedure d => intro _; exact ⟨Resp.throw _, Resp.pure _ (by simp)⟩
  | undefined => intro _; exact ⟨Resp.pure _ (by simp [CleanVal]), Resp.pure _ (by simp)⟩
  | void => intro _; exact ⟨Resp.pure _ (by simp [CleanVal]), Resp.pure _ (by simp)⟩

theorem resp_quoteVal (d : Datum) (h : Clean x d) : Resp x (quoteVal d) (CleanVal x) := (clean_quote d h).1

theorem clean_ofList : ∀ (ds : List Datum), (∀ d ∈ ds, Clean x d) → Clean x (Datum.ofList ds)
  | [], _ => by simp [Datum.ofList, Clean, mentions]
  | d :: ds, h => by
    simp only [Datum.ofList, clean_pair]
    exact ⟨h d (by simp), clean_ofList ds (fun d' hd' => h d' (by simp [hd']))⟩

theorem clean_valToDatum (s : Array Cell) (hs : CleanStore x s) : ∀ (fuel : Nat) (v : Val),
    CleanVal x v → Clean x (valToDatum fuel s v) := by
  intro fuel
  induction fuel with
  | zero =>
    intro v hv
    cases v <;> simp_all [valToDatum, Clean, mentions, CleanVal]
  | succ fuel ih =>
    intro v hv
    cases v with
    | pair l =>
      simp only [valToDatum]
      cases hl : s[l]? with
      | none => simp [Clean, mentions]
      | some c =>
        have hc := hs l _ hl
        cases c with
        | pair a d => simp only [clean_pair]; exact ⟨ih a hc.1, ih d hc.2⟩
        | _ => simp [Clean, mentions]
    | vec l =>
      simp only [valToDatum]
      cases hl : s[l]? with
      | none => simp [Clean, mentions]
      | some c =>
        have hc := hs l _ hl
        cases c with
        | vec xs =>
          simp only [clean_vec]
          apply clean_ofList
          intro d hd
          simp only [List.mem_map] at hd
          obtain ⟨v, hv, rfl⟩ := hd
          exact ih v (hc v hv)
        | _ => simp [Clean, mentions]
    | promise l =>
      simp only [valToDatum]
      cases hl : s[l]? with
      | none => simp [Clean, mentions]
      | some c =>
        have hc := hs l _ hl
        cases c with
        | promise dn w =>
          simp only [clean_pair]
          exact ⟨⟨by simp [Clean, mentions], ih w hc⟩, by simp [Clean, mentions]⟩
        | _ => simp [Clean, mentions]
    | _ => simp_all [valToDatum, Clean, mentions, CleanVal]

theorem resp_externalise (v : Val) (hv : CleanVal x v) : Resp x (externalise v) (Clean x) := by
  unfold externalise
  refine Resp.bind resp_getStore (fun s hs => ?_)
  exact Resp.pure _ (clean_valToDatum s hs _ v hv)

end Marwood.Spec.Eval
