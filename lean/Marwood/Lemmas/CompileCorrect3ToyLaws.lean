import Marwood.Lemmas.CompileCorrect3Toy
/-!
# T01.3 stage 3 — the laws are satisfiable (continued): every field of `Laws3` on the heap of `CompileCorrect3Toy.lean`
-/
namespace Marwood.Lemmas.CompileCorrect3.Toy
open Marwood Marwood.Vm Marwood.Lemmas.CompileCorrect Marwood.Lemmas.CompileCorrect2
  Marwood.Lemmas.CompileCorrect3
open Marwood.Spec.Eval (Val Cell)

/-! ## the laws -/

theorem laws3g (g : Array VCell) (final : List LambdaM) : Laws3 (tD3g g final) where
  slot_inj := by intro a b h; cases h
  truth := by
    intro h S v w hv
    show tDeref h v = .bool false ↔ _
    cases hv with
    | base hb =>
      have hb' : tVR (tDeref h v) w := hb
      cases w <;> simp only [tVR] at hb' <;> first
        | (rw [hb']; simp)
        | cases hb'
    | pair hs hd _ _ =>
      have : tDeref h v = .pair _ _ := hd
      rw [this]
      exact ⟨(fun e => by cases e), (fun e => by cases e)⟩
    | vec hs hv' _ => cases hv'
  ne_undefined := by
    intro h S v w hv e0; subst e0
    cases hv with
    | base hb => exact tVR_undefined hb
    | pair hs hd _ _ => cases hd
    | vec hs hv' _ => cases hv'
  not_envptr := by
    intro h S v w hv
    cases v <;> first
      | rfl
      | (exfalso
         cases hv with
         | base hb => exact tVR_envptr hb
         | pair hs hd _ _ => cases hd
         | vec hs hv' _ => cases hv')
  void := fun _ _ => .base rfl
  nil := fun _ _ => .base rfl
  vr_no_closure := by
    intro h S v a b c e hv
    cases hv with
    | base hb => exact hb
  vr_no_redisp := by
    intro h S v p hv
    cases hv with
    | base hb => exact absurd hb (fun x => x)
  clos_true := by
    intro h v l e hc
    show tDeref h v ≠ _
    rw [callee_deref hc]
    intro e0; cases e0
  clos_ne_undefined := by
    intro h v l e hc e0; subst e0
    cases callee_deref hc
  clos_not_envptr := by
    intro h v l e hc
    cases v <;> first | rfl | cases callee_deref hc
  pair_ne_undefined := by
    intro h v a d hp e0; subst e0
    cases hp
  pair_not_envptr := by
    intro h v a d hp
    cases v <;> first | rfl | cases hp
  vr_pair := fun _ _ _ _ _ _ _ _ hs hd h1 h2 => .pair hs hd h1 h2
  vr_vec := fun _ _ _ _ _ _ hs hv hall => .vec hs hv hall
  vr_store := fun _ _ _ _ _ hx x => tVRc3_move hx.keep x
  srx_store := fun _ _ _ _ x => x
  glob_get_put := by intro h S x v m _ hn; cases hn
  globPut_ext := by
    intro h S n u hs
    by_cases hb : isBuiltinCell (h.globals[n]?.getD .undefined) = true
    · have e : tops.globPut h n u = h := if_pos hb
      rw [e]
      exact ⟨Ext3.refl h S, hs, fun _ _ => rfl⟩
    · have e : tops.globPut h n u = { h with globals := h.globals.setIfInBounds n u } := if_neg hb
      rw [e]
      refine ⟨ext_frame g final h _ S rfl (CellsExt.refl _) (fun _ _ _ x => x) (fun _ x => x) (fun _ x => .inl x),
        ⟨?_, hs.2⟩, fun _ _ => rfl⟩
      intro m id hm
      have hk := hs.1 m id hm
      show (h.globals.setIfInBounds n u)[m]? = _
      have hne : n ≠ m := by
        intro e; subst e
        rw [hk] at hb
        exact hb rfl
      rw [Array.getElem?_setIfInBounds_ne hne]
      exact hk
  envPut_ok := by
    intro h S e k old u hs hno hget hold hu hu2
    have hget' : tEnvGet h e k = some old := hget
    unfold tEnvGet at hget'
    cases hes : h.envs[e]? with
    | none => rw [hes] at hget'; cases hget'
    | some ss =>
      rw [hes] at hget'
      have hss : ss[k]? = some old := hget'
      have hk : k < ss.length := by
        rcases Nat.lt_or_ge k ss.length with h1 | h1
        · exact h1
        · rw [List.getElem?_eq_none h1] at hss; cases hss
      have helt : e < h.envs.size := by
        rcases Nat.lt_or_ge e h.envs.size with h1 | h1
        · exact h1
        · simp [Array.getElem?_eq_none h1] at hes
      let h' : THeap := { h with envs := h.envs.setIfInBounds e (ss.set k u) }
      have hgetAll : ∀ e' k', tEnvGet h' e' k' = if e' = e ∧ k' = k then some u else tEnvGet h e' k' := by
        intro e' k'
        unfold tEnvGet
        show ((h.envs.setIfInBounds e (ss.set k u))[e']?).bind _ = _
        by_cases he : e' = e
        · subst he
          simp only [Array.getElem?_setIfInBounds, helt, if_true, Option.bind, hes, true_and]
          by_cases hk' : k' = k
          · subst hk'; simp [hk]
          · have : ¬ k = k' := fun x => hk' x.symm
            simp [hk', this]
        · have : ¬ e = e' := fun x => he x.symm
          simp [he, this]
      have hs' : (tD3g g final).SRx h' S := by
        refine ⟨hs.1, fun e' he' => ?_⟩
        show e' < (h.envs.setIfInBounds e (ss.set k u)).size
        rw [Array.size_setIfInBounds]; exact hs.2 e' he'
      refine ⟨h', ?_, ?_, hs', hgetAll, fun _ => rfl⟩
      · show (match h.envs[e]? with | some ss => _ | none => none) = _
        rw [hes]; simp only [hk, if_true]; rfl
      · refine ext_gen g final h h' S rfl (fun _ _ x => x) ?_ ?_ ?_ (fun _ x => x) (fun _ x => .inl x) ?_
        · intro e' k' a b hx
          rw [hgetAll]
          by_cases hsame : e' = e ∧ k' = k
          · obtain ⟨rfl, rfl⟩ := hsame
            have hget2 : tEnvGet h e' k' = some old := hget
            rw [hget2] at hx; cases hx; cases hold
          · simp [hsame, hx]
        · intro e' k' v hx hv
          rw [hgetAll]
          by_cases hsame : e' = e ∧ k' = k
          · exact ⟨u, by simp [hsame], hu⟩
          · exact ⟨v, by simp [hsame, hx], hv⟩
        · intro e' k' ⟨v, hx, hv1, hv2⟩
          have hx' : tEnvGet h e' k' = some v := hx
          show ∃ v, tEnvGet h' e' k' = some v ∧ _
          rw [hgetAll]
          by_cases hsame : e' = e ∧ k' = k
          · exact ⟨u, by simp [hsame], hu, hu2⟩
          · exact ⟨v, by simp [hsame, hx'], hv1, hv2⟩
        · intro e' k' he' hx
          rw [hgetAll]
          have hsame : ¬ (e' = e ∧ k' = k) := fun x => hno (x.1 ▸ he')
          simp [hsame, hx]
  closure_ok := by
    intro h S lam ep bp st srcs hs _ hsrc _ _
    have hsrc' : (h.lams[lam]?).map (·.srcs) = some srcs := hsrc
    cases hl : h.lams[lam]? with
    | none => rw [hl] at hsrc'; cases hsrc'
    | some t =>
      rw [hl] at hsrc'
      have ht : t.srcs = srcs := by simpa using hsrc'
      let h' : THeap := { h with envs := h.envs.push (t.srcs.map (tCloSlot h ep)),
                                 cells := h.cells.push (.closure lam h.envs.size),
                                 cenvs := h.envs.size :: h.cenvs }
      have hs' : (tD3g g final).SRx h' S := by
        refine ⟨hs.1, fun e he => ?_⟩
        show e < (h.envs.push _).size
        rw [Array.size_push]
        rcases List.mem_cons.mp he with rfl | h1
        · exact Nat.lt_succ_self _
        · exact Nat.lt_succ_of_lt (hs.2 e h1)
      have hcb : ∀ e, e ∈ h'.cenvs → e ∈ h.cenvs ∨ h.envs.size ≤ e := by
        intro e he
        rcases List.mem_cons.mp he with rfl | h1
        · exact .inr (Nat.le_refl _)
        · exact .inl h1
      refine ⟨h', h.cells.size, h.envs.size, ?_, ?_, tEnvGet_fresh h, ?_, ?_, fun _ => rfl, ?_, hs',
        List.mem_cons_self⟩
      · show (match h.lams[lam]? with | none => _ | some t => _) = _
        rw [hl]
      · show tCalleeCell ((h.cells.push (VCell.closure lam h.envs.size))[h.cells.size]?.getD .undefined) = _
        simp [tCalleeCell]
      · intro j src hj
        show tEnvGet h' h.envs.size j = _
        unfold tEnvGet
        show ((h.envs.push _)[h.envs.size]?).bind _ = _
        simp only [Array.getElem?_push_size, Option.bind, List.getElem?_map, ht, hj, Option.map]
        rw [tCloSlot_eq]
      · intro e k he
        exact tEnvGet_push_ne h _ _ _ e k he
      · refine ext_frame g final h h' S rfl (fun p v x => push_old _ _ _ _ x) ?_ (fun _ x => List.mem_cons_of_mem _ x) hcb
        intro e k v hx
        rw [show tEnvGet h' e k = tEnvGet h e k from tEnvGet_push_ne h _ _ _ e k (tEnvGet_some_lt hx)]; exact hx
  activation_ok := by
    intro h S lam cenv bp st srcs nargs hs _ hsrc hinfo _ _ _ _
    have hsrc' : (h.lams[lam]?).map (·.srcs) = some srcs := hsrc
    have hinfo' : (h.lams[lam]?).map (fun t => (⟨t.nargs⟩ : LambdaInfo)) = some ⟨nargs⟩ := hinfo
    cases hl : h.lams[lam]? with
    | none => rw [hl] at hsrc'; cases hsrc'
    | some t =>
      rw [hl] at hsrc' hinfo'
      have ht : t.srcs = srcs := by simpa using hsrc'
      have hn : t.nargs = nargs := by
        have : (⟨t.nargs⟩ : LambdaInfo) = ⟨nargs⟩ := by simpa using hinfo'
        injection this
      let olds := (h.envs[cenv]?).getD []
      let slots := t.srcs.zipIdx.map fun (src, j) => tActSlot cenv bp t.nargs st olds j src
      let h' : THeap := { h with envs := h.envs.push slots }
      have hslot : ∀ j src, srcs[j]? = some src →
          tEnvGet h' h.envs.size j = some (tActSlot cenv bp nargs st olds j src) := by
        intro j src hj
        unfold tEnvGet
        show ((h.envs.push slots)[h.envs.size]?).bind _ = _
        simp only [Array.getElem?_push_size, Option.bind]
        show slots[j]? = _
        simp only [slots, List.getElem?_map, List.getElem?_zipIdx, ht, hj, Option.map, hn, Nat.zero_add]
      have hold : ∀ j, tEnvGet h cenv j = olds[j]? := by
        intro j; unfold tEnvGet
        show (h.envs[cenv]?).bind _ = ((h.envs[cenv]?).getD [])[j]?
        cases h.envs[cenv]? <;> simp
      have hs' : (tD3g g final).SRx h' S := by
        refine ⟨hs.1, fun e he => ?_⟩
        show e < (h.envs.push _).size
        rw [Array.size_push]
        exact Nat.lt_succ_of_lt (hs.2 e he)
      refine ⟨h', h.envs.size, ?_, tEnvGet_fresh h, ?_, ?_, ?_, ?_, fun _ => rfl, ?_, hs',
        fun x => Nat.lt_irrefl _ (hs.2 _ x)⟩
      · show (match h.lams[lam]? with | some t => _ | none => _) = _
        rw [hl]
      · intro j i v hj hv
        rw [show tops.envGet h' h.envs.size j = tEnvGet h' h.envs.size j from rfl, hslot j _ hj]
        simp [tActSlot, hv]
      · intro j hj
        rw [show tops.envGet h' h.envs.size j = tEnvGet h' h.envs.size j from rfl, hslot j _ hj]
        rfl
      · intro j k hj
        rw [show tops.envGet h' h.envs.size j = tEnvGet h' h.envs.size j from rfl, hslot j _ hj]
        show some (actCaptured cenv j olds[j]?) = some (actCaptured cenv j (tEnvGet h cenv j))
        rw [hold]
      · intro e k he
        exact tEnvGet_push_ne h _ h.cells h.cenvs e k he
      · refine ext_frame g final h h' S rfl (fun _ _ x => x) ?_ (fun _ x => x) (fun _ x => .inl x)
        intro e k v hx
        rw [show tEnvGet h' e k = tEnvGet h e k from tEnvGet_push_ne h _ h.cells h.cenvs e k (tEnvGet_some_lt hx)]
        exact hx
  put_val := by
    intro h S v _ _ hs _
    rcases tPut_cases h v with ⟨p, rfl, hp⟩ | ⟨hd, hnp, hp⟩
    · exact ⟨h, p, hp, step_refl g final h S hs, fun _ x => x, fun _ _ x => x, fun _ _ x => x⟩
    · have hda : tDeref (tAlloc h v) (.ptr h.cells.size) = tDeref h v := by rw [tDeref_alloc, hd]
      refine ⟨tAlloc h v, h.cells.size, hp, step_alloc g final h S v hs, ?_, ?_, ?_⟩
      · intro w r
        cases r with
        | base hb =>
          refine .base ?_
          show tVR (tDeref (tAlloc h v) (.ptr h.cells.size)) w
          rw [hda]; exact hb
        | pair hs hd' h1 h2 =>
          refine .pair hs ?_ (tVRc3_heap (cellsExt_alloc h v) h1) (tVRc3_heap (cellsExt_alloc h v) h2)
          show tDeref (tAlloc h v) (.ptr h.cells.size) = _
          rw [hda]; exact hd'
        | vec hs hv' _ => cases hv'
      · intro l e hc
        obtain ⟨p, rfl⟩ := tCallee_ptr hc
        exact absurd rfl (hnp p)
      · intro x y hxy
        show tDeref (tAlloc h v) (.ptr h.cells.size) = _
        rw [hda]; exact hxy
  put_pair := by
    intro h S a d hs
    exact ⟨tAlloc h (.pair a d), h.cells.size, rfl, step_alloc g final h S _ hs, tDeref_alloc h _⟩
  call := by
    intro n W h σ vf p vs ws w σ' _ hvf
    cases hvf with
    | base hb => cases hb

/-- the laws for the heap without builtin slots -/
theorem laws3 (final : List LambdaM) : Laws3 (tD3 final) := laws3g #[] final

end Marwood.Lemmas.CompileCorrect3.Toy
