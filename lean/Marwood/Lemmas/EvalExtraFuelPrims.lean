import Marwood.Lemmas.EvalExtraFuel
/-!
# Extra-cell invariance: the first-order primitives that use store-size fuel, from a state in which
the guard (`helperCut`) does not fire
-/
namespace Marwood.Spec.Eval.Extra
open Marwood Marwood.Spec.Eval

variable {f : LMap} {st st' : St}

theorem listOfVal_fuel_rel (r : StRel f st st') {v v' : Val} (hv : VRel f v v')
    (hc : listCut (st.store.size + 1) st.store v = false) :
    OVsRel f (listOfVal (st.store.size + 1) st.store v) (listOfVal (st'.store.size + 1) st'.store v') := by
  have h1 := listOfVal_rel r (st'.store.size + 1) hv
  rw [r.fuel_eq, listOfVal_stable _ _ _ _ hc] at h1
  rw [← r.fuel_eq] at h1
  exact h1

theorem simAt_length (r : StRel f st st') {v v' : Val} (hv : VRel f v v')
    (hc : listCut (st.store.size + 1) st.store v = false) :
    ResRel f (VRel f) (primPair .length [v] st) (primPair .length [v'] st') := by
  simp only [primPair]
  refine ResRel.bind (simAt_getList r hv hc) (fun xs xs' s s' _ hx rs => ?_)
  rw [hx.length_eq]
  exact Sim.pure _ _ (.int _) s s' rs

theorem simAt_reverse (r : StRel f st st') {v v' : Val} (hv : VRel f v v')
    (hc : listCut (st.store.size + 1) st.store v = false) :
    ResRel f (VRel f) (primPair .reverse [v] st) (primPair .reverse [v'] st') := by
  simp only [primPair]
  refine ResRel.bind (simAt_getList r hv hc) (fun xs xs' s s' _ hx rs => ?_)
  exact sim_allocList hx.reverse s s' rs

theorem simAt_listToVector (r : StRel f st st') {v v' : Val} (hv : VRel f v v')
    (hc : listCut (st.store.size + 1) st.store v = false) :
    ResRel f (VRel f) (primVec .listToVector [v] st) (primVec .listToVector [v'] st') := by
  simp only [primVec]
  refine ResRel.bind (simAt_getList r hv hc) (fun xs xs' s s' _ hx rs => ?_)
  exact sim_allocVec hx s s' rs

theorem simAt_append2 (r : StRel f st st') {a a' b b' : Val} (ha : VRel f a a') (hb : VRel f b b')
    (hc : listCut (st.store.size + 1) st.store a = false) :
    ResRel f (VRel f) (primPair .append [a, b] st) (primPair .append [a', b'] st') := by
  simp only [primPair]
  refine ResRel.bind (simAt_getList r ha hc) (fun xs xs' s s' _ hx rs => ?_)
  exact sim_allocListTail hx hb s s' rs

theorem simAt_append3 (r : StRel f st st') {a a' b b' c c' : Val} (ha : VRel f a a') (hb : VRel f b b') (hcc : VRel f c c')
    (hc : listCut (st.store.size + 1) st.store a = false) (hc2 : listCut (st.store.size + 1) st.store b = false) :
    ResRel f (VRel f) (primPair .append [a, b, c] st) (primPair .append [a', b', c'] st') := by
  simp only [primPair]
  refine ResRel.bind (simAt_getList r ha hc) (fun xs xs' s s' hm hx rs => ?_)
  obtain ⟨rfl, _⟩ := getList_ok_state hm
  refine ResRel.bind (simAt_getList rs hb hc2) (fun ys ys' s2 s2' _ hy rs2 => ?_)
  exact sim_allocListTail (hx.append hy) hcc s2 s2' rs2

theorem simAt_listP (r : StRel f st st') {v v' : Val} (hv : VRel f v v')
    (hc : listCut (st.store.size + 1) st.store v = false) :
    ResRel f (VRel f) (primPair .listP [v] st) (primPair .listP [v'] st') := by
  show ResRel f (VRel f) (Res.ok (Val.bool (listOfVal (st.store.size + 1) st.store v).isSome) st)
    (Res.ok (Val.bool (listOfVal (st'.store.size + 1) st'.store v').isSome) st')
  have h := listOfVal_fuel_rel r hv hc
  revert h
  generalize listOfVal (st.store.size + 1) st.store v = o
  generalize listOfVal (st'.store.size + 1) st'.store v' = o'
  intro h
  cases h with
  | none => exact ⟨.bool _, r⟩
  | some _ => exact ⟨.bool _, r⟩

theorem simAt_mem (hf : Inj f) (r : StRel f st st') (p : Prim) (assoc : Bool)
    (hp : ∀ (x l : Val) (s : St), primPair p [x, l] s = memWalk assoc x (s.store.size + 1) l s)
    {x x' l l' : Val} (hx : VRel f x x') (hl : VRel f l l')
    (hc : spineCut (st.store.size + 1) st.store l = false) :
    ResRel f (VRel f) (primPair p [x, l] st) (primPair p [x', l'] st') := by
  rw [hp, hp]
  exact simAt_memWalk hf assoc r hx hl hc

theorem primPair_memv (x l : Val) (s : St) : primPair .memv [x, l] s = memWalk false x (s.store.size + 1) l s := rfl
theorem primPair_memq (x l : Val) (s : St) : primPair .memq [x, l] s = memWalk false x (s.store.size + 1) l s := rfl
theorem primPair_assv (x l : Val) (s : St) : primPair .assv [x, l] s = memWalk true x (s.store.size + 1) l s := rfl
theorem primPair_assq (x l : Val) (s : St) : primPair .assq [x, l] s = memWalk true x (s.store.size + 1) l s := rfl

theorem simAt_output (w : Bool) (r : StRel f st st') {v v' : Val} (hv : VRel f v v')
    (hc : valCut (st.store.size + 1) st.store v = false) :
    ResRel f (VRel f) ((do let d ← externalise v; emit w d; pure Val.void : M Val) st)
      ((do let d ← externalise v'; emit w d; pure Val.void : M Val) st') := by
  refine ResRel.bind (simAt_externalise r hv hc) (fun d d' s s' _ hd rs => ?_)
  subst hd
  exact Sim.bind (sim_emit w _) (fun _ _ _ => Sim.pure _ _ VRel.void) s s' rs

theorem simAt_display (r : StRel f st st') {v v' : Val} (hv : VRel f v v')
    (hc : valCut (st.store.size + 1) st.store v = false) :
    ResRel f (VRel f) (primMisc .display [v] st) (primMisc .display [v'] st') := simAt_output false r hv hc

theorem simAt_write (r : StRel f st st') {v v' : Val} (hv : VRel f v v')
    (hc : valCut (st.store.size + 1) st.store v = false) :
    ResRel f (VRel f) (primMisc .write [v] st) (primMisc .write [v'] st') := simAt_output true r hv hc

end Marwood.Spec.Eval.Extra
