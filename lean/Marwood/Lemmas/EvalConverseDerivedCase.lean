import Marwood.Lemmas.EvalConverseDerived
import Marwood.Lemmas.EvalDerived2Case2
/-!
# T01.2, second half, CONVERSE direction for the `case` clauses with a datum list (rules 4–7)

`(if (memv k '(d …)) (begin r1 r2 …) [(case k clause …)])` (and the `=>` variants) definite in the
slack-guarded tower ⇒ `(case k ((d …) r1 r2 …) clause …)` has, with the same fuel, the related outcome.
The expansion appends the quoted list to the store — as many cells as there are data: the slack is
`atoms.length`. NB the expansion's own `memv` walks that list (`atoms.length + 1` steps) under the bound
`store.size + 1` of the store BEFORE the list was appended: the slack-guarded run of the expansion is
definite only from states whose store has at least `atoms.length` cells (see the examples at the end).
-/
namespace Marwood.Spec.Eval.Derived
open Marwood Marwood.Spec.Eval Marwood.Spec.Eval.Prelude Marwood.Spec.Eval.Extra Marwood.Spec.Eval.Conv

/-- the common part of rules 4–7, converse of `case_datum_agrees`: the key `k` is atomic; `A` is what the
    expansion runs on a hit (natively `KA`), the remaining clauses `cs` run on a miss -/
theorem case_datum_agrees_conv (ρ : Env) (k : Datum) (atoms : List Datum) (cs : List Datum) (C1 A : Datum)
    (KA : Rec → Val → M Val)
    (hC1 : ∀ (r : Rec) (key : Val), evalCase r ρ key (C1 :: cs) =
      if atoms.any (eqvDatum key) then KA r key else evalCase r ρ key cs)
    (hKA : ∀ (f : LMap), Inj f → ∀ (r r' : Rec), RecSimR f r r' → EnvRel f [] ρ ρ → ∀ key key', VRel f key key' →
      SimR f (VRel f) (KA r key) (KA r' key'))
    (hKAle : ∀ (r r' : Rec), RecLe r r' → ∀ (key : Val), Le (KA r key) (KA r' key))
    (hA : ∀ (p : Nat) (key' : Val) (s2 : St), (sguardN atoms.length (p+1)).eval k ρ s2 = .ok key' s2 →
      (sguardN atoms.length (p+2)).eval A ρ s2 = KA (sguardN atoms.length (p+1)) key' s2)
    (exp : Datum)
    (hexp : ∀ (r : Rec), evalStep r exp ρ = (do
      let v ← r.eval (memvTest k atoms) ρ
      if truthy v then r.eval A ρ else missBranch r ρ k cs))
    (hat : ∀ d ∈ atoms, simpleAtom d = true) (hkey : atomKey k = true)
    (st : St) (hst : WFSt st) (hρ : EnvOK st.store.size ρ) (hρm : ρ.lookup k_memv = none)
    (hg : st.globals.lookup k_memv = some (.prim .memv)) :
    AgreesConv atoms.length (caseUse k (C1 :: cs)) exp ρ st := by
  intro m hd
  refine ⟨sguardN_eval_evalN _ _ _ _ _ hd, ?_⟩
  rw [sguardN_eval_evalN _ _ _ _ _ hd]
  have hmv : ∀ x, s k_memv = Datum.sym x → kwOf x = none := by intro x hx; cases hx; exact kwOf_memv
  match m, hd with
  | 0, hd => exact absurd rfl hd
  | 1, hd =>
    refine absurd ?_ hd
    show evalStep (sguardN _ 0) exp ρ st = .timeout
    rw [hexp]; rfl
  | 2, hd =>
    refine absurd ?_ hd
    show evalStep (sguardN _ 1) exp ρ st = .timeout
    rw [hexp]
    show M.bind' (evalStep (sguardN _ 0) (memvTest k atoms) ρ) _ st = .timeout
    rw [memvTest, native_app _ _ (s k_memv) _ hmv]
    rfl
  | p+3, hd =>
    rw [sguardN_succ_eval, hexp] at hd ⊢
    rw [evalN_succ_eval, native_case]
    have hd' : M.bind' ((sguardN atoms.length (p+2)).eval (memvTest k atoms) ρ)
        (fun v => if truthy v then (sguardN atoms.length (p+2)).eval A ρ
          else missBranch (sguardN atoms.length (p+2)) ρ k cs) st ≠ .timeout := hd
    show ∃ f, Inj f ∧ _ ∧ ResRelR f (VRel f) (M.bind' ((evalN (p+2)).eval k ρ) _ st) (M.bind' _ _ st)
    unfold M.bind' at hd' ⊢
    have hTd : (sguardN atoms.length (p+2)).eval (memvTest k atoms) ρ st ≠ .timeout := by
      intro h; rw [h] at hd'; exact hd' rfl
    have hTe := sguardN_eval_evalN _ _ _ _ _ hTd
    cases hk : (evalN (p+1)).eval k ρ st with
    | timeout =>
      have hT : (evalN (p+2)).eval (memvTest k atoms) ρ st = .timeout := by
        rw [evalN_succ_eval, memvTest, native_app _ _ (s k_memv) _ hmv]
        simp only [evalArgs]
        show M.bind' (M.bind' ((evalN (p+1)).eval k ρ) _) _ st = _
        simp [M.bind', hk]
      rw [hT] at hTe
      exact absurd hTe.symm hTd
    | err e s1 =>
      have hT : (evalN (p+2)).eval (memvTest k atoms) ρ st = .err e s1 := by
        rw [evalN_succ_eval, memvTest, native_app _ _ (s k_memv) _ hmv]
        simp only [evalArgs]
        show M.bind' (M.bind' ((evalN (p+1)).eval k ρ) _) _ st = _
        simp [M.bind', hk]
      have hk2 : (evalN (p+2)).eval k ρ st = .err e s1 := by
        rw [evalN_mono (Nat.le_succ (p+1)) k ρ st (by rw [hk]; simp), hk]
      refine ⟨fun l => l, inj_id, fun _ _ => rfl, ?_⟩
      rw [← hTe, hT]
      simp only [hk2]
      exact ⟨rfl, stRel_id s1⟩
    | ok key s1 =>
      have hs1 : s1 = st := atomKey_state (evalN p) k hkey ρ st s1 key hk
      subst hs1
      obtain ⟨res, σ', hT, hsz, hpre, htr⟩ := memvTest_eval p ρ k atoms hat hρm s1 s1 key hk hg
      have hk2 : (evalN (p+2)).eval k ρ s1 = .ok key s1 := by
        rw [evalN_mono (Nat.le_succ (p+1)) k ρ s1 (by rw [hk]; simp), hk]
      rw [← hTe, hT] at hd'
      rw [← hTe, hT]
      simp only [hk2]
      simp only at hd'
      have hf := inj_shiftAt s1.store.size atoms.length
      have hfk : ∀ l, shiftAt s1.store.size atoms.length l ≤ l + atoms.length := shiftAt_le _ _
      have hrel : StRel (shiftAt s1.store.size atoms.length) s1 { s1 with store := σ' } :=
        stRel_extend hst _ σ' hsz hpre
      have henv : EnvRel (shiftAt s1.store.size atoms.length) [] ρ ρ := envRel_shift_self hρ
      refine ⟨_, hf, fun l hl => shiftAt_lt hl, ?_⟩
      -- the key, evaluated once more in the larger store: an atomic key does not consult the sub-evaluator,
      -- so the FORWARD simulation applies
      have hkk : ResRel (shiftAt s1.store.size atoms.length) (VRel (shiftAt s1.store.size atoms.length))
          ((evalN (p+1)).eval k ρ s1) ((sguardN atoms.length (p+1)).eval k ρ { s1 with store := σ' }) := by
        have e1 : (evalN (p+1)).eval k ρ = evalStep (guardN p) k ρ := atomKey_rec (evalN p) (guardN p) k hkey ρ
        have e2 : (sguardN atoms.length (p+1)).eval k ρ = evalStep (evalN p) k ρ :=
          atomKey_rec (sguardN atoms.length p) (evalN p) k hkey ρ
        rw [e1, e2]
        exact sim_evalStep hf (recSim hf p) henv k (cleanB_nil k) s1 _ hrel
      rw [hk] at hkk
      obtain ⟨key', s2', hk2', hkey', _⟩ := hkk.ok_inv
      have hs2 : s2' = { s1 with store := σ' } := atomKey_state (sguardN atoms.length p) k hkey ρ _ s2' key' hk2'
      subst hs2
      rw [hC1]
      rw [htr] at hd' ⊢
      by_cases hit : atoms.any (eqvDatum key) = true
      · rw [if_pos hit] at hd' ⊢
        rw [if_pos hit]
        rw [hA p key' _ hk2'] at hd' ⊢
        have hsim := hKA _ hf (evalN (p+1)) (sguardN atoms.length (p+1)) (recSimR hf hfk (p+1)) henv key key' hkey'
          s1 _ hrel
        have hdef := hsim.definite hd'
        rw [hKAle (evalN (p+1)) (evalN (p+2)) (recLe_evalN_succ (p+1)) key s1 hdef]
        exact hsim
      · rw [if_neg hit] at hd' ⊢
        rw [if_neg hit]
        cases cs with
        | nil => exact ⟨.void, hrel⟩
        | cons c cs' =>
          have em : missBranch (sguardN atoms.length (p+2)) ρ k (c :: cs') { s1 with store := σ' } =
              evalCase (sguardN atoms.length (p+1)) ρ key' (c :: cs') { s1 with store := σ' } := by
            show evalStep (sguardN atoms.length (p+1)) (caseUse k (c :: cs')) ρ _ = _
            rw [native_case]
            show M.bind' ((sguardN atoms.length (p+1)).eval k ρ) _ _ = _
            unfold M.bind'
            rw [hk2']
          rw [em] at hd' ⊢
          have hsim := simR_evalCase (recSimR hf hfk (p+1)) henv hkey' _ (cleanBs_empty (c :: cs')) s1 _ hrel
          have hdef := hsim.definite hd'
          rw [le_evalCase (recLe_evalN_succ (p+1)) ρ key _ s1 hdef]
          exact hsim

/-- **case**, rules 5 and 7, converse -/
theorem case_body_agrees_conv (ρ : Env) (k : Datum) (atoms : List Datum) (r1 : Datum) (rs cs : List Datum)
    (hr : ¬ (r1 = s k_arrow ∧ rs.length = 1)) (hat : ∀ d ∈ atoms, simpleAtom d = true) (hkey : atomKey k = true)
    (st : St) (hst : WFSt st) (hρ : EnvOK st.store.size ρ) (hρm : ρ.lookup k_memv = none)
    (hg : st.globals.lookup k_memv = some (.prim .memv)) :
    AgreesConv atoms.length (caseUse k (L (L atoms :: r1 :: rs) :: cs)) (caseBodyExp k atoms r1 rs cs) ρ st := by
  refine case_datum_agrees_conv ρ k atoms cs _ (L (s k_begin_ :: r1 :: rs)) (fun r _ => evalExprs r ρ (r1 :: rs))
    (fun r key => evalCase_body r ρ key atoms r1 rs cs hr) ?_ ?_ ?_ _ ?_ hat hkey st hst hρ hρm hg
  · intro f hf r r' hr' he key key' _
    exact simR_evalExprs hr' he _ (cleanBs_empty _)
  · intro r r' hr' key
    exact le_evalExprs hr' ρ _
  · intro p key' s2 _
    rw [sguardN_succ_eval, native_begin]
  · intro r
    cases cs with
    | nil => exact native_if2 r ρ _ _
    | cons c cs' => exact native_if3 r ρ _ _ _

/-- **case**, rules 4 and 6, converse -/
theorem case_arrow_agrees_conv (ρ : Env) (k : Datum) (atoms : List Datum) (f : Datum) (cs : List Datum)
    (hf : ∀ x, f = .sym x → kwOf x = none) (hat : ∀ d ∈ atoms, simpleAtom d = true) (hkey : atomKey k = true)
    (st : St) (hst : WFSt st) (hρ : EnvOK st.store.size ρ) (hρm : ρ.lookup k_memv = none)
    (hg : st.globals.lookup k_memv = some (.prim .memv)) :
    AgreesConv atoms.length (caseUse k (L [L atoms, s k_arrow, f] :: cs)) (caseArrowExp k atoms f cs) ρ st := by
  refine case_datum_agrees_conv ρ k atoms cs _ (L [f, k]) (fun r key => do let fv ← r.eval f ρ; r.apply fv [key])
    (fun r key => evalCase_arrow r ρ key atoms f cs) ?_ ?_ ?_ _ ?_ hat hkey st hst hρ hρm hg
  · intro g hg' r r' hr' he key key' hk
    refine SimR.bind (hr'.eval f ρ ρ [] he (cleanB_nil f)) (fun fv fv' hfv => ?_)
    exact hr'.apply _ _ _ _ hfv (.cons hk .nil)
  · intro r r' hr' key
    exact Le.bind (hr'.eval f ρ) (fun fv => hr'.apply fv [key])
  · intro p key' s2 hk2
    rw [sguardN_succ_eval, native_app _ _ f [k] hf, evalArgs_one]
    show M.bind' (M.bind' ((sguardN atoms.length (p+1)).eval k ρ) _) _ s2 = _
    unfold M.bind'
    rw [hk2]
    rfl
  · intro r
    cases cs with
    | nil => exact native_if2 r ρ _ _
    | cons c cs' => exact native_if3 r ρ _ _ _

/-! ## non-vacuity -/

/-- a state with two cells in the store (the initial state has none: there the slack-guarded run of these
    expansions is a time-out, the expansion's own `memv` being within the slack of its bound) -/
def twoCells : St := { initSt with store := #[.var (.int 0), .var (.int 0)] }

/-- the slack-guarded runs of `(if (memv 3 '(1 2)) (begin 'a) (case 3 ((3 x) 'b)))` (slack 2) and of
    `(if (memv 3 '(3)) (list 3) (case 3 (else 0)))` (slack 1) from `twoCells` are definite; from the initial
    state the first is a time-out -/
example :
    (sguardN 2 5).eval (caseBodyExp (.num (.fix 3)) [.num (.fix 1), .num (.fix 2)] (L [s k_quote, s ['a']]) []
        [L [L [.num (.fix 3), s ['x']], L [s k_quote, s ['b']]]]) [] twoCells ≠ .timeout ∧
    (sguardN 1 5).eval (caseArrowExp (.num (.fix 3)) [.num (.fix 3)] (s ['l','i','s','t'])
        [L [s k_else_, .num (.fix 0)]]) [] twoCells ≠ .timeout ∧
    (sguardN 2 5).eval (caseBodyExp (.num (.fix 3)) [.num (.fix 1), .num (.fix 2)] (L [s k_quote, s ['a']]) []
        [L [L [.num (.fix 3), s ['x']], L [s k_quote, s ['b']]]]) [] initSt = .timeout ∧
    ([] : Env).lookup k_memv = none ∧ twoCells.globals.lookup k_memv = some (.prim .memv) :=
  ⟨definiteB_ne (by decide +kernel), definiteB_ne (by decide +kernel), by
    have h : definiteB ((sguardN 2 5).eval (caseBodyExp (.num (.fix 3)) [.num (.fix 1), .num (.fix 2)]
        (L [s k_quote, s ['a']]) [] [L [L [.num (.fix 3), s ['x']], L [s k_quote, s ['b']]]]) [] initSt) = false := by
      decide +kernel
    revert h
    cases (sguardN 2 5).eval (caseBodyExp (.num (.fix 3)) [.num (.fix 1), .num (.fix 2)]
        (L [s k_quote, s ['a']]) [] [L [L [.num (.fix 3), s ['x']], L [s k_quote, s ['b']]]]) [] initSt <;> simp [definiteB],
   rfl, by decide +kernel⟩

end Marwood.Spec.Eval.Derived
