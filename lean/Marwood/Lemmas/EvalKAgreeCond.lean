import Marwood.Lemmas.EvalKAgreeForms
/-! # `Spec.EvalK` without `call/cc` is `Spec.Eval` — `cond`, `case`, `and`, `or` -/
namespace Marwood.Lemmas.EvalKAgree
open Marwood Marwood.Spec.Eval Marwood.Spec.EvalK
variable {r : Rec}

/-- the body of a selected `cond` / `case` clause, as `Spec.Eval` spells it inline -/
def clauseBody (r : Rec) (ρ : Env) (v : Val) (body : List Datum) : M Val :=
  match body with
  | [arrow, f] =>
    if arrow == .sym k_arrow then (do
      let fv ← r.eval f ρ
      r.apply fv [v])
    else evalExprs r ρ body
  | _ => evalExprs r ρ body

/-- `evalCond`'s three-way match on a non-empty body is `clauseBody` -/
theorem clauseBody_cons (ρ : Env) (v : Val) (b : Datum) (bs : List Datum) :
    clauseBody r ρ v (b :: bs) =
      (match b :: bs with
       | [] => pure v
       | [arrow, f] =>
         if arrow == .sym k_arrow then (do
           let fv ← r.eval f ρ
           r.apply fv [v])
         else evalExprs r ρ (b :: bs)
       | _ => evalExprs r ρ (b :: bs)) := by
  cases bs with
  | nil => rfl
  | cons b2 bs =>
    cases bs with
    | nil => rfl
    | cons b3 bs => rfl

theorem sim_clauseBody (hr : SimRec r) (ρ : Env) (v : Val) (body : List Datum) (σ : St) (κ : Kont)
    (ks : Array Kont) : Sim (clauseBodyGo ρ v body κ σ ks) (clauseBody r ρ v body σ) κ ks := by
  unfold clauseBodyGo clauseBody
  split
  · dsimp only
    split
    · apply Sim.evalBind hr
      intro fv σ' _
      exact hr.apply fv [v] σ' κ ks
    · exact sim_exprs hr ρ _ σ κ ks
  · rename_i h1
    split
    · exact absurd rfl (h1 _ _)
    · exact sim_exprs hr ρ _ σ κ ks

theorem sim_cond (hr : SimRec r) (ρ : Env) : ∀ (cs : List Datum) (σ : St) (κ : Kont) (ks : Array Kont),
    Sim (condGo ρ cs κ σ ks) (evalCond r ρ cs σ) κ ks := by
  intro cs
  induction cs with
  | nil => intro σ κ ks; exact Sim.pure _ _ _ _
  | cons c cs ih =>
    intro σ κ ks
    simp only [condGo, evalCond]
    cases hp : properList c with
    | none => exact Sim.throw _ _ _ _
    | some l =>
      cases l with
      | nil => exact Sim.throw _ _ _ _
      | cons t body =>
        dsimp only
        split
        · split
          · exact sim_exprs hr ρ _ σ κ ks
          · exact Sim.throw _ _ _ _
        · apply Sim.evalBind hr
          intro v σ' _
          unfold retGo
          dsimp only
          split
          · cases body with
            | nil => exact Sim.pure _ _ _ _
            | cons b bs =>
              have h := sim_clauseBody hr ρ v (b :: bs) σ' κ ks
              rw [clauseBody_cons] at h
              exact h
          · exact ih σ' κ ks

theorem sim_case (hr : SimRec r) (ρ : Env) (key : Val) : ∀ (cs : List Datum) (σ : St) (κ : Kont) (ks : Array Kont),
    Sim (caseGo ρ key cs κ σ ks) (evalCase r ρ key cs σ) κ ks := by
  intro cs
  induction cs with
  | nil => intro σ κ ks; exact Sim.pure _ _ _ _
  | cons c cs ih =>
    intro σ κ ks
    simp only [caseGo, evalCase]
    cases c with
    | pair sel bodyD =>
      dsimp only
      cases hp : properList bodyD with
      | none => exact Sim.throw _ _ _ _
      | some body =>
        dsimp only
        generalize (if sel == .sym k_else_ then (if cs.isEmpty then some true else none)
          else (properList sel).map fun ds => ds.any (eqvDatum key)) = hit
        match hit with
        | none => exact Sim.throw _ _ _ _
        | some false => exact ih σ κ ks
        | some true => exact sim_clauseBody hr ρ key _ σ κ ks
    | _ => exact Sim.throw _ _ _ _

theorem sim_and (hr : SimRec r) (ρ : Env) : ∀ (es : List Datum) (σ : St) (κ : Kont) (ks : Array Kont),
    Sim (andGo ρ es κ σ ks) (evalAnd r ρ es σ) κ ks := by
  intro es
  induction es with
  | nil => intro σ κ ks; exact Sim.pure _ _ _ _
  | cons e es ih =>
    intro σ κ ks
    cases es with
    | nil => exact hr.eval e ρ σ κ ks
    | cons e2 es =>
      show Sim (evalIn e ρ (.andK ρ (e2 :: es) :: κ) σ ks)
        ((r.eval e ρ >>= fun v => if truthy v then evalAnd r ρ (e2 :: es) else pure v) σ) κ ks
      apply Sim.evalBind hr
      intro v σ' _
      unfold retGo
      dsimp only
      split
      · exact ih σ' κ ks
      · exact Sim.pure _ _ _ _

theorem sim_or (hr : SimRec r) (ρ : Env) : ∀ (es : List Datum) (σ : St) (κ : Kont) (ks : Array Kont),
    Sim (orGo ρ es κ σ ks) (evalOr r ρ es σ) κ ks := by
  intro es
  induction es with
  | nil => intro σ κ ks; exact Sim.pure _ _ _ _
  | cons e es ih =>
    intro σ κ ks
    cases es with
    | nil => exact hr.eval e ρ σ κ ks
    | cons e2 es =>
      show Sim (evalIn e ρ (.orK ρ (e2 :: es) :: κ) σ ks)
        ((r.eval e ρ >>= fun v => if truthy v then pure v else evalOr r ρ (e2 :: es)) σ) κ ks
      apply Sim.evalBind hr
      intro v σ' _
      unfold retGo
      dsimp only
      split
      · exact Sim.pure _ _ _ _
      · exact ih σ' κ ks

end Marwood.Lemmas.EvalKAgree
