import Marwood.Lemmas.EvalDerivedExpand
import Marwood.Gen.PreludeProcs
/-!
# T01.2 for `delay` / `delay-force` / `force`: shapes, the prelude's promise library, the representation

`Spec.Eval` has NATIVE promises: `(delay e)` allocates one cell `Cell.promise false thunk` and yields
`Val.promise l`; the primitive `force` runs the thunk once and overwrites the cell with
`Cell.promise true v`. The prelude has no promise objects: `(delay e)` expands (two rules) to
`(make-promise #f (lambda () (make-promise #t e)))` and `make-promise`, `force`, `promise-done?`,
`promise-value`, `promise-update!` are LIBRARY PROCEDURES (`prelude.scm`, regenerated as
`Gen.PreludeProcs.proc14 … proc18`) that represent a promise as the list `((done? . value-or-thunk))`:
a root pair whose car is a BOX pair `(done? . value-or-thunk)` and whose cdr is `()`.

Here: the closures those five definitions evaluate to (`cMakePromise` …, `load_*`: evaluating the
regenerated `define` forms in `Spec.Eval` binds exactly these values — a change to `prelude.scm` breaks
these proofs), the states (`withForce`), the fully expanded `delay` (`delayFull`, `expand_delay_full`),
and the representation relation `PromRep` between a native promise cell and the prelude's structure.
-/
namespace Marwood.Spec.Eval.Derived
open Marwood Marwood.Spec.Eval Marwood.Spec.Eval.Prelude

def k_force : Text := ['f', 'o', 'r', 'c', 'e']
def k_promiseDone : Text := ['p', 'r', 'o', 'm', 'i', 's', 'e', '-', 'd', 'o', 'n', 'e', '?']
def k_promiseValue : Text := ['p', 'r', 'o', 'm', 'i', 's', 'e', '-', 'v', 'a', 'l', 'u', 'e']
def k_promiseUpdate : Text := ['p', 'r', 'o', 'm', 'i', 's', 'e', '-', 'u', 'p', 'd', 'a', 't', 'e', '!']
def k_promise : Text := ['p', 'r', 'o', 'm', 'i', 's', 'e']
def k_promiseStar : Text := ['p', 'r', 'o', 'm', 'i', 's', 'e', '*']
def k_doneP : Text := ['d', 'o', 'n', 'e', '?']
def k_proc : Text := ['p', 'r', 'o', 'c']
def k_x : Text := ['x']
def k_new : Text := ['n', 'e', 'w']
def k_old : Text := ['o', 'l', 'd']
def k_car : Text := ['c', 'a', 'r']
def k_cdr : Text := ['c', 'd', 'r']
def k_cons : Text := ['c', 'o', 'n', 's']
def k_list : Text := ['l', 'i', 's', 't']
def k_setCar : Text := ['s', 'e', 't', '-', 'c', 'a', 'r', '!']
def k_setCdr : Text := ['s', 'e', 't', '-', 'c', 'd', 'r', '!']

/-! ## uses and expansions -/

/-- `(force d)` -/
def forceUse (d : Datum) : Datum := L [s k_force, d]

/-- `(make-promise #t e)`: what the `delay` rule wraps the delayed expression in -/
def mkDone (e : Datum) : Datum := L [s k_makePromise, .bool true, e]

/-- `(delay e)` fully expanded (rule of `delay`, then rule of `delay-force`):
    `(make-promise #f (lambda () (make-promise #t e)))` -/
def delayFull (e : Datum) : Datum := delayForceExp (mkDone e)

/-- first half for `delay`: two macro steps, both by the regenerated rules -/
theorem expand_delay_full (e : Datum) :
    ∃ mid, expand k_delay (delayUse e) = some mid ∧ expand k_delayForce mid = some (delayFull e) :=
  ⟨delayExp e, expand_delay e, expand_delayForce (mkDone e)⟩

/-! ## the library procedures as values -/

def bodyMakePromise : Datum := L [s k_list, L [s k_cons, s k_doneP, s k_proc]]
def bodyDone : Datum := L [s k_car, L [s k_car, s k_x]]
def bodyValue : Datum := L [s k_cdr, L [s k_car, s k_x]]
def bodyUpdate : List Datum :=
  [L [s k_setCar, L [s k_car, s k_old], L [s k_promiseDone, s k_new]],
   L [s k_setCdr, L [s k_car, s k_old], L [s k_promiseValue, s k_new]],
   L [s k_setCar, s k_new, L [s k_car, s k_old]]]
/-- `(let ((promise* ((promise-value promise)))) (unless (promise-done? promise) (promise-update! promise* promise)) (force promise))` -/
def forceLet : Datum :=
  L [s k_let_, L [L [s k_promiseStar, L [L [s k_promiseValue, s k_promise]]]],
     L [s k_unless_, L [s k_promiseDone, s k_promise], L [s k_promiseUpdate, s k_promiseStar, s k_promise]],
     L [s k_force, s k_promise]]
def bodyForce : Datum :=
  L [s k_if_, L [s k_promiseDone, s k_promise], L [s k_promiseValue, s k_promise], forceLet]

def cMakePromise : Val := .closure [k_doneP, k_proc] none [bodyMakePromise] []
def cForce : Val := .closure [k_promise] none [bodyForce] []
def cDone : Val := .closure [k_x] none [bodyDone] []
def cValue : Val := .closure [k_x] none [bodyValue] []
def cUpdate : Val := .closure [k_new, k_old] none bodyUpdate []

/-- evaluating the regenerated definitions binds exactly these closures -/
theorem load_makePromise (n : Nat) (st : St) :
    evalTop (evalN (n+2)) Gen.PreludeProcs.proc14 st =
      .ok .void { st with globals := insertG k_makePromise cMakePromise st.globals } := rfl
theorem load_force (n : Nat) (st : St) :
    evalTop (evalN (n+2)) Gen.PreludeProcs.proc15 st =
      .ok .void { st with globals := insertG k_force cForce st.globals } := rfl
theorem load_done (n : Nat) (st : St) :
    evalTop (evalN (n+2)) Gen.PreludeProcs.proc16 st =
      .ok .void { st with globals := insertG k_promiseDone cDone st.globals } := rfl
theorem load_value (n : Nat) (st : St) :
    evalTop (evalN (n+2)) Gen.PreludeProcs.proc17 st =
      .ok .void { st with globals := insertG k_promiseValue cValue st.globals } := rfl
theorem load_update (n : Nat) (st : St) :
    evalTop (evalN (n+2)) Gen.PreludeProcs.proc18 st =
      .ok .void { st with globals := insertG k_promiseUpdate cUpdate st.globals } := rfl

/-! ## states -/

/-- what the library needs of the global environment: its four internal procedures and the pair
    primitives it calls (`list` is the primitive of `Spec.Eval`; the prelude's `(define (list . l) l)`
    is C14's) -/
structure LibOK (g : List (Text × Val)) : Prop where
  makePromise : g.lookup k_makePromise = some cMakePromise
  done : g.lookup k_promiseDone = some cDone
  value : g.lookup k_promiseValue = some cValue
  update : g.lookup k_promiseUpdate = some cUpdate
  car : g.lookup k_car = some (.prim .car)
  cdr : g.lookup k_cdr = some (.prim .cdr)
  cons : g.lookup k_cons = some (.prim .cons)
  list : g.lookup k_list = some (.prim .list)
  setCar : g.lookup k_setCar = some (.prim .setCar)
  setCdr : g.lookup k_setCdr = some (.prim .setCdr)

/-- the expansion's side: `force` is the prelude's procedure -/
def withForce (st : St) : St := { st with globals := insertG k_force cForce st.globals }

/-! ## the representation relation -/

/-- the prelude's structure for a promise, rooted at the pair `p` of store `σ'`:
    `p ↦ (box . ())`, `box ↦ (done . payload)` -/
def PromStruct (σ' : Array Cell) (p : Loc) (done : Bool) (payload : Val) : Prop :=
  ∃ b, σ'[p]? = some (.pair (.pair b) .nil) ∧ σ'[b]? = some (.pair (.bool done) payload)

/-- how the payloads correspond: values of a forced promise by `R`; thunks of an unforced one by code:
    native `(lambda () e)` against the prelude's `(lambda () (make-promise #t e))`, same environment -/
inductive PayloadRel (R : Val → Val → Prop) : Bool → Val → Val → Prop
  | done {v v' : Val} : R v v' → PayloadRel R true v v'
  | thunk (e : Datum) (ρ : Env) : PayloadRel R false (.closure [] none [e] ρ) (.closure [] none [mkDone e] ρ)

/-- **representation**: the native promise cell `l` of store `σ` is represented by the prelude's
    structure rooted at `p` in store `σ'`: same done flag, corresponding payload -/
def PromRep (R : Val → Val → Prop) (σ σ' : Array Cell) (l p : Loc) : Prop :=
  ∃ done v v', σ[l]? = some (.promise done v) ∧ PromStruct σ' p done v' ∧ PayloadRel R done v v'

end Marwood.Spec.Eval.Derived
