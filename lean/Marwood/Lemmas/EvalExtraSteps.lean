import Marwood.Lemmas.EvalExtra
/-!
# Extra-cell invariance: sequences, store-level helpers, data in and out (same fuel on both sides)
-/
namespace Marwood.Spec.Eval.Extra
open Marwood Marwood.Spec.Eval

variable {f : LMap}

/-! ## clean data -/

theorem cleanB_pair {B : List Text} {a d : Datum} : CleanB B (.pair a d) ↔ CleanB B a ∧ CleanB B d := by
  constructor
  · intro h; exact ⟨fun b hb => ((clean_pair a d).1 (h b hb)).1, fun b hb => ((clean_pair a d).1 (h b hb)).2⟩
  · intro h b hb; exact (clean_pair a d).2 ⟨h.1 b hb, h.2 b hb⟩

theorem cleanB_vec {B : List Text} {e : Datum} : CleanB B (.vec e) ↔ CleanB B e := by
  constructor
  · intro h b hb; exact (clean_vec e).1 (h b hb)
  · intro h b hb; exact (clean_vec e).2 (h b hb)

theorem cleanB_sym {B : List Text} {s : Text} : CleanB B (.sym s) ↔ s ∉ B := by
  constructor
  · intro h hs; exact (clean_sym s).1 (h s hs) rfl
  · intro h b hb; exact (clean_sym s).2 (fun e => h (e ▸ hb))

theorem cleanB_nil (d : Datum) : CleanB [] d := fun _ h => by cases h

theorem cleanBs_nil {B : List Text} : CleanBs B [] := fun _ h => by cases h

theorem cleanBs_cons {B : List Text} {d : Datum} {ds : List Datum} :
    CleanBs B (d :: ds) ↔ CleanB B d ∧ CleanBs B ds := by
  constructor
  · intro h; exact ⟨h d (by simp), fun d' hd' => h d' (by simp [hd'])⟩
  · intro h d' hd'
    simp only [List.mem_cons] at hd'
    rcases hd' with rfl | hd'
    · exact h.1
    · exact h.2 d' hd'

theorem cleanBs_properList {B : List Text} {d : Datum} {es : List Datum} (h : properList d = some es)
    (hc : CleanB B d) : CleanBs B es :=
  fun e he b hb => clean_properList d es h (hc b hb) e he

theorem cleanB_parseBindings {B : List Text} {d : Datum} {bs : List (Text × Datum)} (h : parseBindings d = some bs)
    (hc : CleanB B d) : ∀ p ∈ bs, p.1 ∉ B ∧ CleanB B p.2 := by
  intro p hp
  refine ⟨fun hb => (clean_parseBindings d bs h (hc _ hb) p hp).1 rfl, fun b hb => (clean_parseBindings d bs h (hc b hb) p hp).2⟩

/-! ## lists of related values -/

theorem VsRel.length_eq {xs xs' : List Val} (h : VsRel f xs xs') : xs'.length = xs.length := by
  induction h with
  | nil => rfl
  | cons _ _ ih => simp [ih]

theorem VsRel.append {xs xs' ys ys' : List Val} (h1 : VsRel f xs xs') (h2 : VsRel f ys ys') :
    VsRel f (xs ++ ys) (xs' ++ ys') := by
  induction h1 with
  | nil => exact h2
  | cons hv _ ih => exact .cons hv ih

theorem VsRel.reverse {xs xs' : List Val} (h : VsRel f xs xs') : VsRel f xs.reverse xs'.reverse := by
  induction h with
  | nil => exact .nil
  | cons hv _ ih => simp only [List.reverse_cons]; exact ih.append (.cons hv .nil)

theorem VsRel.replicate (n : Nat) {v v' : Val} (h : VRel f v v') : VsRel f (List.replicate n v) (List.replicate n v') := by
  induction n with
  | zero => exact .nil
  | succ n ih => exact .cons h ih

theorem VsRel.set {xs xs' : List Val} (h : VsRel f xs xs') (i : Nat) {v v' : Val} (hv : VRel f v v') :
    VsRel f (xs.set i v) (xs'.set i v') := by
  induction h generalizing i with
  | nil => exact .nil
  | cons hw ht ih =>
    cases i with
    | zero => exact .cons hv ht
    | succ i => exact .cons hw (ih i)

theorem VsRel.getElem? {xs xs' : List Val} (h : VsRel f xs xs') (i : Nat) :
    match xs[i]?, xs'[i]? with
    | some v, some v' => VRel f v v'
    | none, none => True
    | _, _ => False := by
  induction h generalizing i with
  | nil => simp
  | cons hw _ ih =>
    cases i with
    | zero => simpa using hw
    | succ i => simpa using ih i

theorem VsRel.dropLast {xs xs' : List Val} (h : VsRel f xs xs') : VsRel f xs.dropLast xs'.dropLast := by
  induction h with
  | nil => exact .nil
  | cons hv ht ih =>
    cases ht with
    | nil => exact .nil
    | cons hw ht' => simp only [List.dropLast_cons_cons]; exact .cons hv ih

theorem VsRel.getLastD {xs xs' : List Val} (h : VsRel f xs xs') :
    VRel f (xs.getLast?.getD .nil) (xs'.getLast?.getD .nil) := by
  induction h with
  | nil => exact .nil
  | cons hv ht ih =>
    cases ht with
    | nil => simpa using hv
    | cons hw ht' => simpa [List.getLast?_cons_cons] using ih

theorem VsRel.tail {xs xs' : List Val} (h : VsRel f xs xs') : VsRel f xs.tail xs'.tail := by
  cases h with
  | nil => exact .nil
  | cons _ ht => exact ht

theorem VsRel.headD {xs xs' : List Val} (h : VsRel f xs xs') : VRel f (xs.headD .void) (xs'.headD .void) := by
  cases h with
  | nil => exact .void
  | cons hv _ => exact hv

theorem VsRel.isEmpty {xs xs' : List Val} (h : VsRel f xs xs') : xs'.isEmpty = xs.isEmpty := by
  cases h <;> rfl

/-- what one level of evaluation may assume about the levels below -/
structure RecSim (f : LMap) (r r' : Rec) : Prop where
  eval : ∀ e ρ ρ' B, EnvRel f B ρ ρ' → CleanB B e → Sim f (VRel f) (r.eval e ρ) (r'.eval e ρ')
  apply : ∀ g g' args args', VRel f g g' → VsRel f args args' → Sim f (VRel f) (r.apply g args) (r'.apply g' args')

variable {r r' : Rec} {B : List Text} {ρ ρ' : Env}

theorem sim_evalArgs (hr : RecSim f r r') (he : EnvRel f B ρ ρ') : ∀ es, CleanBs B es →
    Sim f (VsRel f) (evalArgs r ρ es) (evalArgs r' ρ' es)
  | [], _ => Sim.pure _ _ .nil
  | e :: es, h => by
    rw [cleanBs_cons] at h
    simp only [evalArgs]
    refine Sim.bind (hr.eval e ρ ρ' B he h.1) (fun v v' hv => ?_)
    refine Sim.bind (sim_evalArgs hr he es h.2) (fun vs vs' hvs => ?_)
    exact Sim.pure _ _ (.cons hv hvs)

theorem sim_evalExprs (hr : RecSim f r r') (he : EnvRel f B ρ ρ') : ∀ es, CleanBs B es →
    Sim f (VRel f) (evalExprs r ρ es) (evalExprs r' ρ' es)
  | [], _ => Sim.throw _
  | [e], h => by rw [cleanBs_cons] at h; simpa [evalExprs] using hr.eval e ρ ρ' B he h.1
  | e :: e' :: es, h => by
    rw [cleanBs_cons] at h
    simp only [evalExprs]
    refine Sim.bind (hr.eval e ρ ρ' B he h.1) (fun _ _ _ => ?_)
    exact sim_evalExprs hr he (e' :: es) h.2

theorem sim_evalAnd (hr : RecSim f r r') (he : EnvRel f B ρ ρ') : ∀ es, CleanBs B es →
    Sim f (VRel f) (evalAnd r ρ es) (evalAnd r' ρ' es)
  | [], _ => Sim.pure _ _ (.bool true)
  | [e], h => by rw [cleanBs_cons] at h; simpa [evalAnd] using hr.eval e ρ ρ' B he h.1
  | e :: e' :: es, h => by
    rw [cleanBs_cons] at h
    simp only [evalAnd]
    refine Sim.bind (hr.eval e ρ ρ' B he h.1) (fun v v' hv => ?_)
    rw [hv.truthy]
    split
    · exact sim_evalAnd hr he (e' :: es) h.2
    · exact Sim.pure _ _ hv

theorem sim_evalOr (hr : RecSim f r r') (he : EnvRel f B ρ ρ') : ∀ es, CleanBs B es →
    Sim f (VRel f) (evalOr r ρ es) (evalOr r' ρ' es)
  | [], _ => Sim.pure _ _ (.bool false)
  | [e], h => by rw [cleanBs_cons] at h; simpa [evalOr] using hr.eval e ρ ρ' B he h.1
  | e :: e' :: es, h => by
    rw [cleanBs_cons] at h
    simp only [evalOr]
    refine Sim.bind (hr.eval e ρ ρ' B he h.1) (fun v v' hv => ?_)
    rw [hv.truthy]
    split
    · exact Sim.pure _ _ hv
    · exact sim_evalOr hr he (e' :: es) h.2

/-! ## store-level helpers -/

theorem sim_readVar {l l' : Loc} (hl : f l = l') : Sim f (VRel f) (readVar l) (readVar l') := by
  unfold readVar
  refine Sim.bind (sim_readCell hl) (fun c c' hc => ?_)
  cases hc with
  | var hv => exact Sim.pure _ _ hv
  | _ => exact Sim.throw _

theorem sim_readPair {v v' : Val} (hv : VRel f v v') :
    Sim f (fun p p' => VRel f p.1 p'.1 ∧ VRel f p.2 p'.2) (readPair v) (readPair v') := by
  cases hv with
  | pair l =>
    unfold readPair
    refine Sim.bind (sim_readCell rfl) (fun c c' hc => ?_)
    cases hc with
    | pair ha hd => exact Sim.pure _ _ ⟨ha, hd⟩
    | _ => exact Sim.throw _
  | _ => exact Sim.throw _

theorem sim_readVec {v v' : Val} (hv : VRel f v v') :
    Sim f (fun p p' => f p.1 = p'.1 ∧ VsRel f p.2 p'.2) (readVec v) (readVec v') := by
  cases hv with
  | vec l =>
    unfold readVec
    refine Sim.bind (sim_readCell rfl) (fun c c' hc => ?_)
    cases hc with
    | vec hx => exact Sim.pure _ _ ⟨rfl, hx⟩
    | _ => exact Sim.throw _
  | _ => exact Sim.throw _

theorem sim_cons {a a' d d' : Val} (ha : VRel f a a') (hd : VRel f d d') : Sim f (VRel f) (cons a d) (cons a' d') := by
  unfold cons
  refine Sim.bind (sim_allocCell (.pair ha hd)) (fun l l' hl => ?_)
  subst hl
  exact Sim.pure _ _ (.pair l)

theorem sim_allocVec {xs xs' : List Val} (h : VsRel f xs xs') : Sim f (VRel f) (allocVec xs) (allocVec xs') := by
  unfold allocVec
  refine Sim.bind (sim_allocCell (.vec h)) (fun l l' hl => ?_)
  subst hl
  exact Sim.pure _ _ (.vec l)

theorem sim_allocListTail {vs vs' : List Val} (h : VsRel f vs vs') {t t' : Val} (ht : VRel f t t') :
    Sim f (VRel f) (allocListTail vs t) (allocListTail vs' t') := by
  induction h with
  | nil => exact Sim.pure _ _ ht
  | cons hv _ ih =>
    simp only [allocListTail]
    exact Sim.bind ih (fun r r' hr => sim_cons hv hr)

theorem sim_allocList {vs vs' : List Val} (h : VsRel f vs vs') : Sim f (VRel f) (allocList vs) (allocList vs') := by
  induction h with
  | nil => exact Sim.pure _ _ .nil
  | cons hv _ ih =>
    simp only [allocList]
    exact Sim.bind ih (fun r r' hr => sim_cons hv hr)

/-! ## reading the store: cells correspond -/

theorem StRel.cell_none {st st' : St} (r : StRel f st st') {l : Loc} (h : st.store[l]? = none) :
    st'.store[f l]? = none := by
  have hge : st.store.size ≤ l := by
    rcases Nat.lt_or_ge l st.store.size with h' | h'
    · rw [Array.getElem?_eq_getElem h'] at h; cases h
    · exact h'
  obtain ⟨i, rfl⟩ := Nat.exists_eq_add_of_le hge
  rw [r.front i]
  exact Array.getElem?_eq_none (Nat.le_add_right _ _)

/-- the cell at `f l` is the image of the cell at `l` -/
inductive OCellRel (f : LMap) : Option Cell → Option Cell → Prop
  | none : OCellRel f none none
  | some {c c' : Cell} : CellRel f c c' → OCellRel f (some c) (some c')

theorem StRel.cell {st st' : St} (r : StRel f st st') (l : Loc) : OCellRel f st.store[l]? st'.store[f l]? := by
  cases h : st.store[l]? with
  | none => rw [r.cell_none h]; exact .none
  | some c =>
    obtain ⟨c', h1, h2⟩ := r.cells l c h
    rw [h1]; exact .some h2

/-! ## data in and out -/

theorem sim_quote : ∀ (d : Datum), Sim f (VRel f) (quoteVal d) (quoteVal d) ∧ Sim f (VsRel f) (quoteElems d) (quoteElems d) := by
  intro d
  induction d with
  | bool b => exact ⟨Sim.pure _ _ (.bool b), Sim.pure _ _ .nil⟩
  | char c => exact ⟨Sim.pure _ _ (.char c), Sim.pure _ _ .nil⟩
  | nil => exact ⟨Sim.pure _ _ .nil, Sim.pure _ _ .nil⟩
  | num n =>
    refine ⟨?_, Sim.pure _ _ .nil⟩
    simp only [quoteVal]
    cases intOfNum n with
    | none => exact Sim.throw _
    | some i => exact Sim.pure _ _ (.int i)
  | str s => exact ⟨Sim.pure _ _ (.str s), Sim.pure _ _ .nil⟩
  | sym s => exact ⟨Sim.pure _ _ (.sym s), Sim.pure _ _ .nil⟩
  | pair a d iha ihd =>
    refine ⟨?_, ?_⟩
    · simp only [quoteVal]
      refine Sim.bind iha.1 (fun a' a'' ha => ?_)
      refine Sim.bind ihd.1 (fun d' d'' hd => ?_)
      exact sim_cons ha hd
    · simp only [quoteElems]
      refine Sim.bind iha.1 (fun a' a'' ha => ?_)
      refine Sim.bind ihd.2 (fun d' d'' hd => ?_)
      exact Sim.pure _ _ (.cons ha hd)
  | vec e ih =>
    refine ⟨?_, Sim.pure _ _ .nil⟩
    simp only [quoteVal]
    exact Sim.bind ih.2 (fun xs xs' hx => sim_allocVec hx)
  | continuation => exact ⟨Sim.throw _, Sim.pure _ _ .nil⟩
  | macro_ => exact ⟨Sim.throw _, Sim.pure _ _ .nil⟩
  | procedure d => exact ⟨Sim.throw _, Sim.pure _ _ .nil⟩
  | undefined => exact ⟨Sim.pure _ _ .undef, Sim.pure _ _ .nil⟩
  | void => exact ⟨Sim.pure _ _ .void, Sim.pure _ _ .nil⟩

theorem sim_quoteVal (d : Datum) : Sim f (VRel f) (quoteVal d) (quoteVal d) := (sim_quote d).1

/-- `listOfVal` with the same fuel on both sides -/
inductive OVsRel (f : LMap) : Option (List Val) → Option (List Val) → Prop
  | none : OVsRel f none none
  | some {xs xs' : List Val} : VsRel f xs xs' → OVsRel f (some xs) (some xs')

theorem listOfVal_rel {st st' : St} (r : StRel f st st') : ∀ (m : Nat) {v v' : Val}, VRel f v v' →
    OVsRel f (listOfVal m st.store v) (listOfVal m st'.store v') := by
  intro m
  induction m with
  | zero =>
    intro v v' hv
    cases hv <;> simp only [listOfVal] <;> first | exact .none | exact .some .nil
  | succ m ih =>
    intro v v' hv
    cases hv with
    | nil => simp only [listOfVal]; exact .some .nil
    | pair l =>
      simp only [listOfVal]
      have hc := r.cell l
      revert hc
      generalize st.store[l]? = o
      generalize st'.store[f l]? = o'
      intro hc
      cases hc with
      | none => exact .none
      | some hc =>
        cases hc with
        | pair ha hd =>
          simp only
          have := ih hd
          revert this
          generalize listOfVal m st.store _ = q
          generalize listOfVal m st'.store _ = q'
          intro hq
          cases hq with
          | none => exact .none
          | some hx => exact .some (.cons ha hx)
        | _ => exact .none
    | _ => simp only [listOfVal]; exact .none

theorem ofList_map_congr {xs xs' : List Val} {g g' : Val → Datum} (h : VsRel f xs xs')
    (hg : ∀ v v', VRel f v v' → g' v' = g v) : xs'.map g' = xs.map g := by
  induction h with
  | nil => rfl
  | cons hv _ ih => simp [hg _ _ hv, ih]

/-- `valToDatum` with the same fuel on both sides: the same datum -/
theorem valToDatum_rel {st st' : St} (r : StRel f st st') : ∀ (m : Nat) {v v' : Val}, VRel f v v' →
    valToDatum m st'.store v' = valToDatum m st.store v := by
  intro m
  induction m with
  | zero => intro v v' hv; cases hv <;> rfl
  | succ m ih =>
    intro v v' hv
    cases hv with
    | pair l =>
      simp only [valToDatum]
      have hc := r.cell l
      revert hc
      generalize st.store[l]? = o
      generalize st'.store[f l]? = o'
      intro hc
      cases hc with
      | none => rfl
      | some hc => cases hc with
        | pair ha hd => simp only [ih ha, ih hd]
        | _ => rfl
    | vec l =>
      simp only [valToDatum]
      have hc := r.cell l
      revert hc
      generalize st.store[l]? = o
      generalize st'.store[f l]? = o'
      intro hc
      cases hc with
      | none => rfl
      | some hc => cases hc with
        | vec hx => simp only [ofList_map_congr hx (fun v v' hv => ih hv)]
        | _ => rfl
    | promise l =>
      simp only [valToDatum]
      have hc := r.cell l
      revert hc
      generalize st.store[l]? = o
      generalize st'.store[f l]? = o'
      intro hc
      cases hc with
      | none => rfl
      | some hc => cases hc with
        | promise b hw => simp only [ih hw]
        | _ => rfl
    | _ => rfl

theorem all_zip_congr {xs xs' ys ys' : List Val} {g g' : Val × Val → Bool} (hx : VsRel f xs xs') (hy : VsRel f ys ys')
    (hg : ∀ a a' b b', VRel f a a' → VRel f b b' → g' (a', b') = g (a, b)) :
    (xs'.zip ys').all g' = (xs.zip ys).all g := by
  induction hx generalizing ys ys' with
  | nil => simp
  | cons hv _ ih =>
    cases hy with
    | nil => simp
    | cons hw hy' => simp [hg _ _ _ _ hv hw, ih hy']

/-- `equalVal` with the same fuel on both sides -/
theorem equalVal_rel (hf : Inj f) {st st' : St} (r : StRel f st st') : ∀ (m : Nat) {a a' b b' : Val},
    VRel f a a' → VRel f b b' → equalVal m st'.store a' b' = equalVal m st.store a b := by
  intro m
  induction m with
  | zero => intro a a' b b' ha hb; simp only [equalVal]; exact VRel.eqv hf ha hb
  | succ m ih =>
    intro a a' b b' ha hb
    cases ha with
    | pair l1 =>
      cases hb with
      | pair l2 =>
        simp only [equalVal]
        have hc1 := r.cell l1
        have hc2 := r.cell l2
        revert hc1 hc2
        generalize st.store[l1]? = o1
        generalize st'.store[f l1]? = o1'
        generalize st.store[l2]? = o2
        generalize st'.store[f l2]? = o2'
        intro hc1 hc2
        cases hc1 with
        | none => cases hc2 <;> rfl
        | some hc1 =>
          cases hc2 with
          | none => cases hc1 <;> rfl
          | some hc2 =>
            cases hc1 <;> cases hc2 <;> try rfl
            rename_i ha1 hd1 _ _ _ _ ha2 hd2
            simp only [ih ha1 ha2, ih hd1 hd2]
      | _ => simp only [equalVal, Spec.Eval.eqv]
    | vec l1 =>
      cases hb with
      | vec l2 =>
        simp only [equalVal]
        have hc1 := r.cell l1
        have hc2 := r.cell l2
        revert hc1 hc2
        generalize st.store[l1]? = o1
        generalize st'.store[f l1]? = o1'
        generalize st.store[l2]? = o2
        generalize st'.store[f l2]? = o2'
        intro hc1 hc2
        cases hc1 with
        | none => cases hc2 <;> rfl
        | some hc1 =>
          cases hc2 with
          | none => cases hc1 <;> rfl
          | some hc2 =>
            cases hc1 <;> cases hc2 <;> try rfl
            rename_i hx _ _ hy
            simp only [hx.length_eq, hy.length_eq]
            congr 1
            exact all_zip_congr hx hy (fun a a' b b' ha hb => ih ha hb)
      | _ => simp only [equalVal, Spec.Eval.eqv]
    | str s =>
      cases hb <;> simp only [equalVal, Spec.Eval.eqv]
    | _ =>
      cases hb <;> simp only [equalVal, Spec.Eval.eqv, hf.beq]

end Marwood.Spec.Eval.Extra
