import Marwood.Utf8
/-!
# UTF-8 preserves order (C15)

Rust compares `str` values bytewise; the models and the property compare by scalar value. The two
orders coincide: `utf8_order`. Also: the encoding is injective and prefix-free, its length is
`Char.utf8Size` (so `byteLen` is the number of bytes and the models' byte offsets are offsets into
the encoding), slicing at byte offsets is slicing of the bytes, and the offsets at which the models
do not panic are exactly the offsets `str::is_char_boundary` accepts.
Core Lean only.
-/
namespace Marwood.Utf8

/-! ## scalar values as natural numbers -/

theorem val_lt_iff (a b : Char) : a.val < b.val ↔ a.val.toNat < b.val.toNat := UInt32.lt_iff_toNat_lt

theorem eq_of_toNat_eq {a b : Char} (h : a.val.toNat = b.val.toNat) : a = b :=
  Char.ext (UInt32.toNat_inj.mp h)

theorem toNat_lt (c : Char) : c.val.toNat < 0x110000 := by
  have := c.valid
  simp only [UInt32.isValidChar, Nat.isValidChar] at this
  omega

/-! ## shape of an encoding -/

theorem encodeNat_ne_nil (v : Nat) : encodeNat v ≠ [] := by
  unfold encodeNat
  repeat' split
  all_goals simp

theorem encode_ne_nil (c : Char) : encode c ≠ [] := encodeNat_ne_nil _

/-- (d) the number of bytes is `Char.utf8Size` -/
theorem encode_length (c : Char) : (encode c).length = c.utf8Size := by
  unfold encode encodeNat Char.utf8Size
  simp only [UInt32.le_iff_toNat_le]
  repeat' split
  all_goals first | rfl | (exfalso; simp at *; omega)

/-- `byteLen` is the length of the UTF-8 encoding -/
theorem encodeText_length (s : Text) : (encodeText s).length = byteLen s := by
  induction s with
  | nil => rfl
  | cons c cs ih => simp [encode_length, ih]

theorem encodeText_append (s t : Text) : encodeText (s ++ t) = encodeText s ++ encodeText t := by
  simp [encodeText]

/-- every byte is a byte -/
theorem encode_byte_lt (c : Char) : ∀ b ∈ encode c, b < 256 := by
  have hc := toNat_lt c
  unfold encode encodeNat
  repeat' split
  all_goals
    intro b hb
    simp only [List.mem_cons, List.not_mem_nil, or_false] at hb
    omega

theorem encodeText_byte_lt (s : Text) : ∀ b ∈ encodeText s, b < 256 := by
  intro b hb
  simp only [encodeText, List.mem_flatMap] at hb
  obtain ⟨c, _, h⟩ := hb
  exact encode_byte_lt c b h

theorem u8_toNat_ofNat {n : Nat} (h : n < 256) : (UInt8.ofNat n).toNat = n := by
  simp [UInt8.toNat_ofNat']; omega
/-- the definition is, byte for byte, Lean's own reference encoder `String.utf8EncodeChar` -/
theorem encode_eq_core (c : Char) : encode c = (String.utf8EncodeChar c).map UInt8.toNat := by
  have hc := toNat_lt c
  unfold encode encodeNat String.utf8EncodeChar
  simp only []
  repeat' split
  all_goals
    simp only [List.map_cons, List.map_nil]
    repeat rw [u8_toNat_ofNat (by omega)]
    try simp only [Nat.add_comm]

/-! ## the byte order -/

theorem cmpBytes_self (u : List Nat) : cmpBytes u u = .eq := by
  induction u with
  | nil => rfl
  | cons x xs ih => simp [cmpBytes, ih]

theorem cmpBytes_swap (u v : List Nat) : cmpBytes v u = (cmpBytes u v).swap := by
  induction u generalizing v with
  | nil => cases v <;> rfl
  | cons x xs ih =>
    cases v with
    | nil => rfl
    | cons y ys =>
      simp only [cmpBytes]
      by_cases h1 : x < y
      · have : ¬ y < x := by omega
        simp [h1, this]
      · by_cases h2 : y < x
        · simp [h1, h2]
        · simp [h1, h2, ih]

theorem cmpBytes_eq_iff (u v : List Nat) : cmpBytes u v = .eq ↔ u = v := by
  induction u generalizing v with
  | nil => cases v <;> simp [cmpBytes]
  | cons x xs ih =>
    cases v with
    | nil => simp [cmpBytes]
    | cons y ys =>
      simp only [cmpBytes]
      by_cases h1 : x < y
      · simp [h1]; omega
      · by_cases h2 : y < x
        · simp [h1, h2]; omega
        · have : x = y := by omega
          simp [ih, this]

theorem cmpBytes_lt_iff (u v : List Nat) : cmpBytes u v = .lt ↔ u < v := by
  induction u generalizing v with
  | nil => cases v <;> simp [cmpBytes]
  | cons x xs ih =>
    cases v with
    | nil => simp [cmpBytes]
    | cons y ys =>
      simp only [cmpBytes, List.cons_lt_cons_iff]
      by_cases h1 : x < y
      · simp [h1]
      · by_cases h2 : y < x
        · simp [h1, h2]; omega
        · have : x = y := by omega
          simp [ih, this]

theorem cmpBytes_gt_iff (u v : List Nat) : cmpBytes u v = .gt ↔ v < u := by
  rw [← cmpBytes_lt_iff, cmpBytes_swap u v]
  cases cmpBytes u v <;> simp [Ordering.swap]

theorem cmpBytes_append_left (e u v : List Nat) : cmpBytes (e ++ u) (e ++ v) = cmpBytes u v := by
  induction e with
  | nil => rfl
  | cons x xs ih => simp [cmpBytes, ih]

/-- `u` and `v` first differ at a position inside both, and there `u` has the smaller byte -/
inductive Diverge : List Nat → List Nat → Prop
  | head {x y : Nat} {u v : List Nat} : x < y → Diverge (x :: u) (y :: v)
  | tail {x : Nat} {u v : List Nat} : Diverge u v → Diverge (x :: u) (x :: v)

theorem Diverge.cmp_append {u v : List Nat} (h : Diverge u v) (a b : List Nat) :
    cmpBytes (u ++ a) (v ++ b) = .lt := by
  induction h with
  | head hxy => simp [cmpBytes, hxy]
  | tail _ ih => simp [cmpBytes, ih]

theorem Diverge.not_prefix {u v : List Nat} (h : Diverge u v) : ¬ u <+: v ∧ ¬ v <+: u := by
  induction h with
  | head hxy =>
    constructor <;> intro hp <;> have := List.cons_prefix_cons.mp hp <;> omega
  | tail _ ih =>
    constructor <;> intro hp
    · exact ih.1 (List.cons_prefix_cons.mp hp).2
    · exact ih.2 (List.cons_prefix_cons.mp hp).2

theorem Diverge.of1 {x y : Nat} (h : x < y) : Diverge [x] [y] := .head h
theorem Diverge.of2 {x1 x2 y1 y2 : Nat} (h : x1 < y1 ∨ x1 = y1 ∧ x2 < y2) :
    Diverge [x1, x2] [y1, y2] := by
  rcases h with h | ⟨rfl, h⟩
  · exact .head h
  · exact .tail (.head h)
theorem Diverge.of3 {x1 x2 x3 y1 y2 y3 : Nat}
    (h : x1 < y1 ∨ x1 = y1 ∧ (x2 < y2 ∨ x2 = y2 ∧ x3 < y3)) :
    Diverge [x1, x2, x3] [y1, y2, y3] := by
  rcases h with h | ⟨rfl, h⟩
  · exact .head h
  · exact .tail (.of2 h)
theorem Diverge.of4 {x1 x2 x3 x4 y1 y2 y3 y4 : Nat}
    (h : x1 < y1 ∨ x1 = y1 ∧ (x2 < y2 ∨ x2 = y2 ∧ (x3 < y3 ∨ x3 = y3 ∧ x4 < y4))) :
    Diverge [x1, x2, x3, x4] [y1, y2, y3, y4] := by
  rcases h with h | ⟨rfl, h⟩
  · exact .head h
  · exact .tail (.of3 h)

/-- the encodings of two scalar values diverge in the direction of the values: a longer encoding has
    a larger lead byte, and within one length the payload bits are laid out most significant first -/
theorem encodeNat_diverge {a b : Nat} (hab : a < b) (hb : b < 0x110000) :
    Diverge (encodeNat a) (encodeNat b) := by
  have e1 : ∀ v : Nat, v / 4096 = v / 64 / 64 := fun v => by rw [Nat.div_div_eq_div_mul]
  have e2 : ∀ v : Nat, v / 262144 = v / 64 / 64 / 64 := fun v => by
    rw [Nat.div_div_eq_div_mul, Nat.div_div_eq_div_mul]
  unfold encodeNat
  simp only [e1, e2]
  repeat' split
  all_goals first
    | (exfalso; omega)
    | exact .of1 (by omega)
    | exact .of2 (by omega)
    | exact .of3 (by omega)
    | exact .of4 (by omega)
    | exact .head (by omega)

theorem encode_diverge {a b : Char} (h : a.val < b.val) : Diverge (encode a) (encode b) :=
  encodeNat_diverge ((val_lt_iff a b).mp h) (toNat_lt b)

/-! ## (a) injective and prefix-free, (b) order of single characters -/

/-- no encoding is a prefix of another (in particular not a proper prefix) -/
theorem encode_prefix_free {a b : Char} (h : encode a <+: encode b) : a = b := by
  by_cases h1 : a.val < b.val
  · exact absurd h (encode_diverge h1).not_prefix.1
  · by_cases h2 : b.val < a.val
    · exact absurd h (encode_diverge h2).not_prefix.2
    · rw [val_lt_iff] at h1 h2
      exact eq_of_toNat_eq (by omega)

theorem encode_injective {a b : Char} (h : encode a = encode b) : a = b :=
  encode_prefix_free (h ▸ List.prefix_refl _)

theorem encode_cmp (a b : Char) :
    cmpBytes (encode a) (encode b) =
      if a.val < b.val then .lt else if b.val < a.val then .gt else .eq := by
  by_cases h1 : a.val < b.val
  · have := (encode_diverge h1).cmp_append [] []
    simp only [List.append_nil] at this
    simp [h1, this]
  · by_cases h2 : b.val < a.val
    · have := (encode_diverge h2).cmp_append [] []
      simp only [List.append_nil] at this
      rw [cmpBytes_swap, this]
      simp [h1, h2]
    · have : a = b := by
        rw [val_lt_iff] at h1 h2
        exact eq_of_toNat_eq (by omega)
      subst this
      simp [h1, cmpBytes_self]

/-- (b) scalar values are ordered as their encodings are, bytewise -/
theorem encode_lt_iff (a b : Char) : a.val < b.val ↔ encode a < encode b := by
  rw [← cmpBytes_lt_iff, encode_cmp]
  by_cases h1 : a.val < b.val
  · simp [h1]
  · by_cases h2 : b.val < a.val <;> simp [h1, h2]

/-! ## (c) the theorem -/

/-- bytewise comparison of the UTF-8 encodings is comparison by scalar value -/
theorem utf8_order (s t : Text) : cmpBytes (encodeText s) (encodeText t) = cmpPoints s t := by
  induction s generalizing t with
  | nil =>
    cases t with
    | nil => rfl
    | cons b bs =>
      obtain ⟨x, xs, hx⟩ := List.exists_cons_of_ne_nil (encode_ne_nil b)
      simp [cmpPoints, cmpBytes, hx]
  | cons a as ih =>
    cases t with
    | nil =>
      obtain ⟨x, xs, hx⟩ := List.exists_cons_of_ne_nil (encode_ne_nil a)
      simp [cmpPoints, cmpBytes, hx]
    | cons b bs =>
      simp only [encodeText_cons, cmpPoints]
      by_cases h1 : a.val < b.val
      · simp only [h1, if_true]
        exact (encode_diverge h1).cmp_append _ _
      · by_cases h2 : b.val < a.val
        · simp only [h1, h2, if_true, if_false]
          rw [cmpBytes_swap, (encode_diverge h2).cmp_append]
          rfl
        · have : a = b := by
            rw [val_lt_iff] at h1 h2
            exact eq_of_toNat_eq (by omega)
          subst this
          simp only [h1, if_false]
          rw [cmpBytes_append_left, ih]

theorem cmpPoints_lt_iff (s t : Text) : cmpPoints s t = .lt ↔ s < t := by
  induction s generalizing t with
  | nil => cases t <;> simp [cmpPoints]
  | cons a as ih =>
    cases t with
    | nil => simp [cmpPoints]
    | cons b bs =>
      simp only [cmpPoints, List.cons_lt_cons_iff, Char.lt_def]
      by_cases h1 : a.val < b.val
      · simp [h1]
      · by_cases h2 : b.val < a.val
        · have : a ≠ b := by rintro rfl; exact h1 h2
          simp [h1, h2, this]
        · have : a = b := by
            rw [val_lt_iff] at h1 h2
            exact eq_of_toNat_eq (by omega)
          subst this
          simp [h1, ih]

theorem cmpPoints_eq_iff (s t : Text) : cmpPoints s t = .eq ↔ s = t := by
  induction s generalizing t with
  | nil => cases t <;> simp [cmpPoints]
  | cons a as ih =>
    cases t with
    | nil => simp [cmpPoints]
    | cons b bs =>
      simp only [cmpPoints]
      by_cases h1 : a.val < b.val
      · have : a ≠ b := by rintro rfl; exact UInt32.lt_irrefl _ h1
        simp [h1, this]
      · by_cases h2 : b.val < a.val
        · have : a ≠ b := by rintro rfl; exact h1 h2
          simp [h1, h2, this]
        · have : a = b := by
            rw [val_lt_iff] at h1 h2
            exact eq_of_toNat_eq (by omega)
          subst this
          simp [h1, ih]

theorem cmpPoints_swap (s t : Text) : cmpPoints t s = (cmpPoints s t).swap := by
  rw [← utf8_order, ← utf8_order, cmpBytes_swap]

theorem cmpPoints_gt_iff (s t : Text) : cmpPoints s t = .gt ↔ t < s := by
  rw [← cmpPoints_lt_iff, cmpPoints_swap s t]
  cases cmpPoints s t <;> simp [Ordering.swap]

/-- `string<?`: bytewise `<` on the encodings is `<` by scalar values -/
theorem utf8_lt (s t : Text) : encodeText s < encodeText t ↔ s < t := by
  rw [← cmpBytes_lt_iff, utf8_order, cmpPoints_lt_iff]

/-- `string=?`: the encoding of texts is injective -/
theorem utf8_eq (s t : Text) : encodeText s = encodeText t ↔ s = t := by
  rw [← cmpBytes_eq_iff, utf8_order, cmpPoints_eq_iff]

/-- `string>?` -/
theorem utf8_gt (s t : Text) : encodeText t < encodeText s ↔ t < s := utf8_lt t s

/-- `string<=?` (`a ≤ b` on lists is `¬ b < a`) -/
theorem utf8_le (s t : Text) : encodeText s ≤ encodeText t ↔ s ≤ t := by
  rw [← List.not_lt, ← List.not_lt, utf8_lt]

/-- `string>=?` -/
theorem utf8_ge (s t : Text) : encodeText t ≤ encodeText s ↔ t ≤ s := utf8_le t s

/-! ## byte offsets and byte slices -/

/-- the first byte of an encoding is a lead byte, the others are continuation bytes -/
theorem encode_lead (c : Char) :
    ∃ x xs, encode c = x :: xs ∧ isLeadByte x = true ∧ ∀ y ∈ xs, isLeadByte y = false := by
  have hc := toNat_lt c
  unfold encode encodeNat
  repeat' split
  all_goals
    refine ⟨_, _, rfl, ?_, ?_⟩
    · simp only [isLeadByte, Bool.or_eq_true, decide_eq_true_eq] <;> omega
    · intro y hy
      simp only [List.mem_cons, List.not_mem_nil, or_false] at hy <;>
        (simp only [isLeadByte, Bool.or_eq_false_iff, decide_eq_false_iff_not]; omega)

/-- empty, or beginning with a lead byte -/
def StartsAtBoundary : List Nat → Prop
  | [] => True
  | b :: _ => isLeadByte b = true

theorem encodeText_startsAtBoundary (s : Text) : StartsAtBoundary (encodeText s) := by
  cases s with
  | nil => trivial
  | cons c cs =>
    obtain ⟨x, xs, hx, hl, _⟩ := encode_lead c
    simp only [encodeText_cons, hx, List.cons_append, StartsAtBoundary, hl]

theorem isCharBoundary_zero (bs : List Nat) : isCharBoundary bs 0 = true := rfl

/-- behind one encoded character the boundaries are those of the rest, shifted; inside it there are
    none -/
theorem isCharBoundary_encode_append (c : Char) (bs : List Nat) (hbs : StartsAtBoundary bs) (i : Nat)
    (hi : 0 < i) :
    isCharBoundary (encode c ++ bs) i =
      if c.utf8Size ≤ i then isCharBoundary bs (i - c.utf8Size) else false := by
  obtain ⟨x, xs, hx, _, hcont⟩ := encode_lead c
  have hlen : (encode c).length = c.utf8Size := encode_length c
  have hi0 : (i == 0) = false := by simp; omega
  unfold isCharBoundary
  simp only [hi0, Bool.false_or]
  by_cases hle : c.utf8Size ≤ i
  · simp only [hle, if_true]
    rw [List.getElem?_append_right (by omega), hlen, List.length_append, hlen]
    cases hg : bs[i - c.utf8Size]? with
    | some b =>
      by_cases h0 : i - c.utf8Size = 0
      · rw [h0] at hg
        cases bs with
        | nil => simp at hg
        | cons b' bs' =>
          simp only [List.getElem?_cons_zero, Option.some.injEq] at hg
          subst hg
          simpa [h0, StartsAtBoundary] using hbs
      · simp [h0]
    | none =>
      have : bs.length ≤ i - c.utf8Size := List.getElem?_eq_none_iff.mp hg
      simp only
      rw [Bool.eq_iff_iff]
      simp only [Bool.or_eq_true, beq_iff_eq]
      omega
  · simp only [hle, if_false]
    have hlt : i < (encode c).length := by omega
    rw [List.getElem?_append_left hlt, List.getElem?_eq_getElem hlt]
    simp only
    have hmem : (encode c)[i] ∈ xs := by
      have : (encode c)[i] ∈ (encode c).drop 1 := by
        rw [List.mem_drop_iff_getElem]
        exact ⟨i - 1, by omega, by congr 1; omega⟩
      simpa [hx] using this
    exact hcont _ hmem

/-- `&s[n..]` does not panic exactly when `s.is_char_boundary(n)` -/
theorem dropBytes_isSome (n : Nat) (cs : Text) :
    (dropBytes n cs).isSome = isCharBoundary (encodeText cs) n := by
  induction cs generalizing n with
  | nil => cases n <;> simp [dropBytes, isCharBoundary]
  | cons c cs ih =>
    cases n with
    | zero => simp [dropBytes, isCharBoundary]
    | succ n =>
      rw [encodeText_cons, isCharBoundary_encode_append c _ (encodeText_startsAtBoundary cs) _ (by omega)]
      simp only [dropBytes]
      split
      · exact ih _
      · rfl

/-- `&s[..n]` likewise -/
theorem takeBytes_isSome (n : Nat) (cs : Text) :
    (takeBytes n cs).isSome = isCharBoundary (encodeText cs) n := by
  induction cs generalizing n with
  | nil => cases n <;> simp [takeBytes, isCharBoundary]
  | cons c cs ih =>
    cases n with
    | zero => simp [takeBytes, isCharBoundary]
    | succ n =>
      rw [encodeText_cons, isCharBoundary_encode_append c _ (encodeText_startsAtBoundary cs) _ (by omega)]
      simp only [takeBytes]
      split
      · rw [Option.isSome_map]; exact ih _
      · rfl

/-- and what it returns is the text whose bytes are the bytes from `n` on -/
theorem dropBytes_encode {n : Nat} {cs r : Text} (h : dropBytes n cs = some r) :
    encodeText r = (encodeText cs).drop n := by
  induction cs generalizing n with
  | nil =>
    cases n with
    | zero => simp [dropBytes] at h; subst h; rfl
    | succ n => simp [dropBytes] at h
  | cons c cs ih =>
    cases n with
    | zero => simp [dropBytes] at h; subst h; rfl
    | succ n =>
      simp only [dropBytes] at h
      split at h
      · rename_i hle
        rw [ih h, encodeText_cons, List.drop_append,
          List.drop_eq_nil_of_le (as := encode c) (by rw [encode_length]; exact hle), encode_length,
          List.nil_append]
      · cases h

theorem takeBytes_encode {n : Nat} {cs r : Text} (h : takeBytes n cs = some r) :
    encodeText r = (encodeText cs).take n := by
  induction cs generalizing n r with
  | nil =>
    cases n with
    | zero => simp [takeBytes] at h; subst h; rfl
    | succ n => simp [takeBytes] at h
  | cons c cs ih =>
    cases n with
    | zero => simp [takeBytes] at h; subst h; rfl
    | succ n =>
      simp only [takeBytes] at h
      split at h
      · rename_i hle
        cases hr : takeBytes (n + 1 - c.utf8Size) cs with
        | none => simp [hr] at h
        | some r' =>
          simp only [hr, Option.map_some, Option.some.injEq] at h
          subst h
          rw [encodeText_cons, ih hr, encodeText_cons, List.take_append,
            List.take_of_length_le (l := encode c) (by rw [encode_length]; exact hle), encode_length]
      · cases h

/-- `&s[lo..hi]` is the text whose bytes are bytes `lo..hi` of `s` -/
theorem sliceBytes_encode {lo hi : Nat} {cs r : Text} (h : sliceBytes lo hi cs = some r) :
    encodeText r = ((encodeText cs).drop lo).take (hi - lo) := by
  unfold sliceBytes at h
  split at h
  · cases hd : dropBytes lo cs with
    | none => simp [hd] at h
    | some m =>
      simp only [hd, Option.bind_some] at h
      rw [takeBytes_encode h, dropBytes_encode hd]
  · cases h

/-- the byte offset of character `k` (a prefix sum of `utf8Size` in the models) is the number of
    bytes the first `k` characters occupy -/
theorem byteLen_take_eq (cs : Text) (k : Nat) :
    byteLen (cs.take k) = (encodeText (cs.take k)).length := (encodeText_length _).symm

theorem isCharBoundary_le_length {bs : List Nat} {i : Nat} (h : isCharBoundary bs i = true) :
    i ≤ bs.length := by
  unfold isCharBoundary at h
  by_cases h0 : i = 0
  · omega
  · cases hg : bs[i]? with
    | some b =>
      have := (List.getElem?_eq_some_iff.mp hg).1
      omega
    | none =>
      simp [hg, h0] at h
      omega

/-- boundaries behind a boundary `a`, seen from `a` -/
theorem isCharBoundary_drop (bs : List Nat) {a b : Nat} (ha : isCharBoundary bs a = true)
    (hab : a ≤ b) : isCharBoundary (bs.drop a) (b - a) = isCharBoundary bs b := by
  have hal := isCharBoundary_le_length ha
  by_cases hba : b = a
  · subst hba
    simp [isCharBoundary_zero, ha]
  · have h1 : (b - a == 0) = false := by simp; omega
    have h2 : (b == 0) = false := by simp; omega
    unfold isCharBoundary
    simp only [h1, h2, Bool.false_or, List.getElem?_drop, List.length_drop]
    have e : a + (b - a) = b := by omega
    rw [e]
    cases bs[b]? with
    | some x => rfl
    | none =>
      simp only
      rw [Bool.eq_iff_iff]
      simp only [beq_iff_eq]
      omega

/-- `&s[lo..hi]` does not panic exactly when `lo ≤ hi` and both are character boundaries
    (`hi ≤ len` is part of being a boundary) -/
theorem sliceBytes_isSome (lo hi : Nat) (cs : Text) :
    (sliceBytes lo hi cs).isSome =
      (decide (lo ≤ hi) && isCharBoundary (encodeText cs) lo && isCharBoundary (encodeText cs) hi) := by
  unfold sliceBytes
  by_cases hle : lo ≤ hi
  · simp only [hle, if_true, decide_true, Bool.true_and]
    cases hd : dropBytes lo cs with
    | none =>
      have := dropBytes_isSome lo cs
      rw [hd] at this
      simp [← this]
    | some m =>
      have h1 := dropBytes_isSome lo cs
      rw [hd] at h1
      simp only [Option.isSome_some] at h1
      simp only [Option.bind_some, ← h1, Bool.true_and]
      rw [takeBytes_isSome, dropBytes_encode hd, isCharBoundary_drop _ h1.symm hle]
  · simp [hle]

/-! ## the same theorem about Lean's own encoder, on `List UInt8` -/

theorem map_toNat_lt_iff (u v : List UInt8) : u.map UInt8.toNat < v.map UInt8.toNat ↔ u < v := by
  induction u generalizing v with
  | nil => cases v <;> simp
  | cons x xs ih =>
    cases v with
    | nil => simp
    | cons y ys =>
      simp only [List.map_cons, List.cons_lt_cons_iff, ih, UInt8.lt_iff_toNat_lt, UInt8.toNat_inj]

theorem encodeText_eq_core (s : Text) :
    encodeText s = (s.flatMap String.utf8EncodeChar).map UInt8.toNat := by
  induction s with
  | nil => rfl
  | cons c cs ih => simp [ih, encode_eq_core]

/-- UTF-8 order preservation stated with core Lean's definitions only: for Lean's reference encoder
    `String.utf8EncodeChar`, the lexicographic order of the encoded `UInt8` lists is the lexicographic
    order of the character lists (`Char` ordered by scalar value) -/
theorem utf8_order_core (s t : List Char) :
    (s.flatMap String.utf8EncodeChar < t.flatMap String.utf8EncodeChar ↔ s < t) ∧
    (s.flatMap String.utf8EncodeChar = t.flatMap String.utf8EncodeChar ↔ s = t) := by
  constructor
  · rw [← map_toNat_lt_iff, ← encodeText_eq_core, ← encodeText_eq_core, utf8_lt]
  · rw [← utf8_eq, encodeText_eq_core, encodeText_eq_core]
    exact (List.map_inj_right (fun a b hab => UInt8.toNat_inj.mp hab)).symm

end Marwood.Utf8
