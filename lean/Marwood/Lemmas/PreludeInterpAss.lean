import Marwood.Lemmas.PreludeInterp
/-!
# `assq`, `assv`, `assoc` are the images of the regenerated definitions
-/
namespace Marwood.Store.Prelude
open Marwood Marwood.Store Marwood.Store.Outcome

open Expr in
/-- the shape the three `ass…` definitions share (`(caar alist)` read as `(car (car alist))`) -/
def assDef (name test : String) : Def := ⟨name, ["obj", "alist"], none,
  ite (call1 "null?" (var "alist")) (const (.bool false))
    (ite (and2 (call1 "pair?" (call1 "car" (var "alist")))
               (call2 test (call1 "car" (call1 "car" (var "alist"))) (var "obj")))
      (call1 "car" (var "alist"))
      (call2 name (var "obj") (call1 "cdr" (var "alist"))))⟩

theorem find_assq : defs.find? (·.name == "assq") = some (assDef "assq" "eq?") := by decide +kernel
theorem find_assv : defs.find? (·.name == "assv") = some (assDef "assv" "eqv?") := by decide +kernel
theorem find_assoc : defs.find? (·.name == "assoc") = some (assDef "assoc" "equal?") := by decide +kernel

section
variable {efuel : Nat} {user : String → Option Callee}

set_option hygiene false in
local macro "ass_proof" find:ident name:str tname:str ih:ident tst:term : tactic => `(tactic| (
    rw [interp_succ $find]
    have hg1 := global_prim (P := prims efuel user) f (n := "null?") (by simp)
    have hg2 := global_prim (P := prims efuel user) f (n := "cdr") (by simp)
    have hg3 := global_prim (P := prims efuel user) f (n := "car") (by simp)
    have hg4 := global_prim (P := prims efuel user) f (n := $tname) (by simp)
    have hg5 := global_prim (P := prims efuel user) f (n := "pair?") (by simp)
    have hgl : (handlers (prims efuel user) defs f).global $name = some (interp (prims efuel user) defs f $name) := by
      rw [global_eq, $find:ident]; rfl
    simp only [assDef, bindArgs, List.length_cons, List.length_nil, List.zip_cons_cons, List.zip_nil_right,
      if_true, bind_ok, evalE, callNamed, List.lookup, List.find?, hg1, hg2, hg3, hg4, hg5, hgl, prims]
    simp
    rw [ass, liftV]
    cases hg : s.get al with
    | ok c =>
      cases c <;> simp [isNullB, isPairB, nullP, pairP, hg, cdr, cdrV, car, carV, VCell.isNil, liftV, $ih:ident f,
        eqvB, equalB, eqTest, equalTest]
      rename_i a d
      cases hga : s.get (.ptr a) with
      | ok c2 =>
        cases c2
        case pair a2 d2 =>
          simp [VCell.isPair, hg, hga]
          first
            | (cases eqv s obj (.ptr a2) <;> simp
               rename_i b
               cases b <;> simp [hg])
            | (cases equal efuel s obj (.ptr a2) <;> simp
               rename_i b
               cases b <;> simp [hg])
        all_goals (simp [VCell.isPair, hg, hga])
        all_goals (cases ass $tst f s obj (.ptr d) <;> (try simp))
      | err e => simp [hga]
      | panic m => simp [hga]
      | diverge => simp [hga]
    | err e => simp [isNullB, nullP, hg]
    | panic m => simp [isNullB, nullP, hg]
    | diverge => simp [isNullB, nullP, hg]))

theorem interp_assq : ∀ (f : Nat) (s : Store) (obj al : VCell),
    interp (prims efuel user) defs f "assq" s [obj, al] = liftV s (ass eqTest f s obj al)
  | 0, s, obj, al => by rw [interp_zero find_assq]; rfl
  | f+1, s, obj, al => by ass_proof find_assq "assq" "eq?" interp_assq eqTest

theorem interp_assv : ∀ (f : Nat) (s : Store) (obj al : VCell),
    interp (prims efuel user) defs f "assv" s [obj, al] = liftV s (ass eqTest f s obj al)
  | 0, s, obj, al => by rw [interp_zero find_assv]; rfl
  | f+1, s, obj, al => by ass_proof find_assv "assv" "eqv?" interp_assv eqTest

theorem interp_assoc : ∀ (f : Nat) (s : Store) (obj al : VCell),
    interp (prims efuel user) defs f "assoc" s [obj, al] = liftV s (ass (equalTest efuel) f s obj al)
  | 0, s, obj, al => by rw [interp_zero find_assoc]; rfl
  | f+1, s, obj, al => by ass_proof find_assoc "assoc" "equal?" interp_assoc (equalTest efuel)

end

end Marwood.Store.Prelude
