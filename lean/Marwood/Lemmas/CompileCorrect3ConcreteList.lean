import Marwood.Lemmas.CompileCorrect3Apply
import Marwood.Lemmas.CompileCorrect3ConcreteAll
/-!
# T01.3 stage 3 — `ListLaws` for the concrete heap model

What `apply_redispatch3` (`CompileCorrect3Apply.lean`) assumes about the stage-1 representations of `()` and of a
pair is a theorem for `concreteOps ext` with the representation `cD3`: `()` is the immediate `Nil` or a pointer
to a cell that holds it; a stage-1 pair is a heap pair (`ClosedVR.pair`).
-/
namespace Marwood.Lemmas.CompileCorrect3.Conc
open Marwood Marwood.Vm Marwood.Vm.Concrete Marwood.Lemmas.CompileCorrect Marwood.Lemmas.CompileCorrect2

variable {ext : ExtOps} {E : AtomEnc} {named : Text → Prop} {slot : Text → Nat} {LM : Nat → Nat}
  {final : List LambdaM} {setG : Text → Prop}

theorem concrete_listLaws3 : ListLaws (cD3 ext E named slot LM final setG) where
  vr_nil_inv := c3_vr_nil_inv
  vr_pair_inv := c3_vr_pair_inv

end Marwood.Lemmas.CompileCorrect3.Conc
