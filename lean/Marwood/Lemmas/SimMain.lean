import Marwood.Lemmas.SimBuiltin
import Marwood.Lemmas.SimGc
import Marwood.Vm.RunLoop
/-!
# Heap simulation: from the per-opcode lemmas to `run_one`, and the side conditions

`Good s` collects what the lemmas assume of a *single* state besides `Sim`:
* `size`   the heap is smaller than the sentinel addresses (memory is not exhausted);
* `plain`  kind discipline: no heap cell holds a bare `LexicalEnvPtr` / `InstructionPointer`, global slots
           are pointers or address-free (the marker does not look there — Heap/Check.lean checks the
           counterpart on every snapshot);
* `wf`, `roots`  the erased heap is well-formed and its roots allocated (`WFHeap`, `RootsOk` of
           Heap/Invariant.lean — T03.3 proves every allocator / collector operation preserves them; the
           lifting to `run_one` is not done and is what this hypothesis stands for);
* `noIofArg`  no lambda has an `IofArgument` entry in its environment map (DESIGN §1: reachable only from the
           argument-less top-level lambda, i.e. dead; CLOSURE would read the frame through `load_arg`);
* `bpLive`, `frameLive`  the stack slots the *current* instruction reads through `bp` — a `BasePointerOffset`
           first operand, the frame header of RET / TCALL — are at or below `sp` (frame well-formedness,
           C04/C05's `WF-stack`; slots above `sp` hold stale values that are not roots).

`Safe m s`: every state the machine can reach from `s` — by instructions and by collections at any
boundary — is `Good`. It is the explicit hypothesis of T03.5 / T13.3 below.
-/
namespace Marwood.Lemmas.Sim
open Marwood Marwood.Vm Marwood.Vm.Concrete
open Marwood.Heap (GcState WFHeap RootsOk)
open Marwood.Lemmas.Sim

structure Good (s : St CHeap) : Prop where
  size : SizeOk s.heap
  plain : Plain s.heap
  wf : WFHeap true (toHeap s.heap)
  roots : RootsOk (toHeap s.heap) ((rootsOf s).refs true)
  noIofArg : NoIofArg s.heap
  bpLive : BpLive { s with ipO := s.ipO + 1 }
  frameLive : ∀ l, lambdaAt s.heap s.ipL = some l →
    (l.bc[s.ipO]? = some (.opcode .ret) ∨ l.bc[s.ipO]? = some (.opcode .tcallAcc)) → FrameLive s

/-- C18's `Interned` of the erased heap is `SymOk` of the concrete heap -/
theorem SymOk.of_wf {h : CHeap} (wf : WFHeap true (toHeap h)) : SymOk h := by
  intro name p
  have hi := wf.interned name p
  have e1 : (toHeap h).symLookup name = symLookup h name := rfl
  rw [e1] at hi
  rw [hi]
  unfold Heap.Heap.AllocSym
  have hsz : h.gc.size = h.cells.size := by have := wf.sizes; simpa [toHeap] using this
  constructor
  · rintro ⟨hc, hn⟩
    have hc' : (h.cells[p]?).map eraseC = some (.symbol name) := by simpa [toHeap] using hc
    cases hcell : h.cells[p]? with
    | none => rw [hcell] at hc'; cases hc'
    | some c =>
      rw [hcell] at hc'
      simp only [Option.map_some, Option.some.injEq] at hc'
      refine ⟨c, rfl, ?_, ?_⟩
      · cases c with
        | val v =>
          cases v <;> simp [eraseC, eraseV] at hc'
          rename_i tag
          split at hc'
          · rename_i n hn'
            cases hc'
            exact ⟨tag, rfl, hn'⟩
          · cases hc'
        | lexEnv _ => simp [eraseC] at hc'
        | vector _ => simp [eraseC] at hc'
        | lambda _ => simp [eraseC] at hc'
        | cont _ => simp [eraseC] at hc'
      · intro hm
        have := (wf.free_iff p).mp hm
        rcases hn with h1 | h1 <;> rw [this] at h1 <;> cases h1
  · rintro ⟨c, hc, ⟨tag, rfl, ht⟩, hf⟩
    refine ⟨by simp [toHeap, hc, eraseC, eraseV, ht], ?_⟩
    have hlt : p < (toHeap h).gc.size := by
      show p < h.gc.size
      rw [hsz]; exact lt_of_get_some hc
    have hne : (toHeap h).gc[p]? ≠ some GcState.free := fun e => hf ((wf.free_iff p).mpr e)
    unfold Heap.Heap.NonFree
    rw [Array.getElem?_eq_getElem hlt] at hne ⊢
    cases hg : (toHeap h).gc[p] with
    | free => rw [hg] at hne; exact absurd rfl hne
    | allocated => left; rfl
    | used => right; rfl

/-- the side conditions the per-opcode lemmas draw on (all consequences of `Good s`, `Good t`) -/
structure Side (s t : St CHeap) : Prop where
  ok : SizeOk s.heap
  ok' : SizeOk t.heap
  live : BpLive s
  live' : BpLive t
  sym : SymOk s.heap
  sym' : SymOk t.heap
  noIof : NoIofArg s.heap

/-- the simulation statement of one opcode (`s`, `t`: states after the opcode has been read) -/
def ExecSim (ext : ExtOps) (op : Op) : Prop :=
  ∀ (φ : Inj) (s t : St CHeap), Sim φ s t → Side s t → CodeAt s (.opcode op) → CodeAt t (.opcode op) →
    ((op = .ret ∨ op = .tcallAcc) → FrameLive s ∧ FrameLive t) →
    ORel (PostB φ) (exec (concreteOps ext) op s) (exec (concreteOps ext) op t)

/-- the opcodes whose simulation lemma is proved in `Lemmas/SimStep*.lean` -/
theorem execSim_jmp (ext : ExtOps) : ExecSim ext .jmp := fun _ _ _ h sd hc _ _ => exec_jmp ext h sd.ok sd.ok' hc
theorem execSim_jnt (ext : ExtOps) : ExecSim ext .jnt := fun _ _ _ h sd hc _ _ => exec_jnt ext h sd.ok sd.ok' hc
theorem execSim_mov (ext : ExtOps) : ExecSim ext .mov :=
  fun _ _ _ h sd hc _ _ => exec_mov ext h sd.ok sd.ok' hc sd.live
theorem execSim_movImm (ext : ExtOps) : ExecSim ext .movImm :=
  fun _ _ _ h sd hc _ _ => exec_movImm ext h sd.ok sd.ok' hc
theorem execSim_push (ext : ExtOps) : ExecSim ext .push :=
  fun _ _ _ h sd hc _ _ => exec_push ext h sd.ok sd.ok' hc sd.live
theorem execSim_pushImm (ext : ExtOps) : ExecSim ext .pushImm :=
  fun _ _ _ h sd hc _ _ => exec_pushImm ext h sd.ok sd.ok' hc
theorem execSim_pushAcc (ext : ExtOps) : ExecSim ext .pushAcc := fun _ _ _ h _ _ _ _ => exec_pushAcc ext h
theorem execSim_halt (ext : ExtOps) : ExecSim ext .halt := fun _ _ _ h _ _ _ _ => exec_halt ext h
theorem execSim_ret (ext : ExtOps) : ExecSim ext .ret := fun _ _ _ h _ _ _ fl => exec_ret ext h (fl (.inl rfl)).1
theorem execSim_cons (ext : ExtOps) : ExecSim ext .cons := fun _ _ _ h sd _ _ _ => exec_cons ext h sd.sym sd.sym'
theorem execSim_call (ext : ExtOps) (el : ExtLaws ext) : ExecSim ext .callAcc :=
  fun _ _ _ h sd _ _ _ => exec_call ext (builtinLaw_of_ext ext el) h sd.ok sd.ok' sd.sym sd.sym'
theorem execSim_vpush (ext : ExtOps) (el : ExtLaws ext) : ExecSim ext .vpushAcc :=
  fun _ _ _ h sd _ _ _ => exec_vpush ext el h sd.ok sd.ok'
theorem execSim_enter (ext : ExtOps) : ExecSim ext .enter :=
  fun _ _ _ h sd _ _ _ => exec_enter ext activationLaw h sd.ok sd.ok'
theorem execSim_tcall (ext : ExtOps) (el : ExtLaws ext) : ExecSim ext .tcallAcc :=
  fun _ _ _ h sd _ _ fl => exec_tcall ext (builtinLaw_of_ext ext el) h sd.ok sd.ok' sd.sym sd.sym' (fl (.inr rfl)).1

theorem execSim_varArg (ext : ExtOps) : ExecSim ext .varArg :=
  fun _ _ _ h sd _ _ _ => exec_varArg ext h sd.ok sd.ok' sd.sym sd.sym'
theorem execSim_closure (ext : ExtOps) : ExecSim ext .closureAcc :=
  fun _ _ _ h sd _ _ _ => exec_closure ext h sd.ok sd.ok' sd.noIof

/-- every opcode, given the law of the non-modelled parameters -/
theorem execSim_all (ext : ExtOps) (el : ExtLaws ext) : ∀ op, ExecSim ext op := by
  intro op
  cases op with
  | cons => exact execSim_cons ext
  | jmp => exact execSim_jmp ext
  | jnt => exact execSim_jnt ext
  | mov => exact execSim_mov ext
  | movImm => exact execSim_movImm ext
  | push => exact execSim_push ext
  | pushAcc => exact execSim_pushAcc ext
  | pushImm => exact execSim_pushImm ext
  | halt => exact execSim_halt ext
  | vpushAcc => exact execSim_vpush ext el
  | callAcc => exact execSim_call ext el
  | closureAcc => exact execSim_closure ext
  | enter => exact execSim_enter ext
  | ret => exact execSim_ret ext
  | tcallAcc => exact execSim_tcall ext el
  | varArg => exact execSim_varArg ext
/-- **lemma (b), assembled**: `run_one` on related states, given the lemma of every opcode -/
theorem step_sim (ext : ExtOps) (hex : ∀ op, ExecSim ext op) {φ : Inj} {s t : St CHeap} (h : Sim φ s t)
    (g : Good s) (g' : Good t) :
    ORel (PostB φ) (step (concreteOps ext) s) (step (concreteOps ext) t) := by
  rw [step_eq, step_eq]
  refine (readOpcode_rel ext h g.size g'.size).bind ?_
  rintro ⟨op, s1⟩ ⟨op', t1⟩ ⟨e0, e1, e2, hc⟩
  simp only at e0 e1 e2 hc ⊢
  subst e0 e1 e2
  have hc' : CodeAt { t with ipO := t.ipO + 1 } (.opcode op) := by
    -- the same opcode was read on the right
    have := readOpcode_rel ext h g.size g'.size
    obtain ⟨l0, j, hl0, hj, hcj⟩ := hc
    rcases lambdaAt_rel h.heap g.size g'.size h.ipL with ⟨e1, _⟩ | ⟨l, l', e1, e2, hbc, _, _⟩
    · simp only at hl0; rw [hl0] at e1; cases e1
    · simp only at hl0 hj hcj
      rw [hl0] at e1; cases e1
      have hjs : j = s.ipO := by omega
      subst hjs
      rcases hbc.at' s.ipO with ⟨f1, _⟩ | ⟨c, c', f1, f2, r⟩
      · rw [hcj] at f1; cases f1
      · rw [hcj] at f1; cases f1
        have ho := opOf_rel r
        refine ⟨l', t.ipO, e2, rfl, ?_⟩
        rw [← h.ipO, f2]
        cases c' <;> simp [opOf] at ho
        rw [ho]
  refine hex op φ _ _ h.next ⟨g.size, g'.size, g.bpLive, g'.bpLive, SymOk.of_wf g.wf, SymOk.of_wf g'.wf, g.noIofArg⟩ hc hc' ?_
  intro hop
  obtain ⟨l0, j, hl0, hj, hcj⟩ := hc
  obtain ⟨l0', j', hl0', hj', hcj'⟩ := hc'
  simp only at hl0 hj hcj hl0' hj' hcj'
  have hjs : j = s.ipO := by omega
  have hjs' : j' = t.ipO := by omega
  subst hjs hjs'
  constructor
  · refine g.frameLive l0 hl0 ?_
    rcases hop with e | e <;> subst e
    · exact .inl hcj
    · exact .inr hcj
  · refine g'.frameLive l0' hl0' ?_
    rcases hop with e | e <;> subst e
    · exact .inl hcj'
    · exact .inr hcj'

/-! ## reachable states and the invariant assumed along runs -/

inductive Reaches {S E : Type} (m : Machine S E) : S → S → Prop
  | refl (s) : Reaches m s s
  | next {s s' s''} : Reaches m s s' → m.step s' = .next s'' → Reaches m s s''
  | halt {s s' s''} : Reaches m s s' → m.step s' = .halt s'' → Reaches m s s''
  | gc {s s'} : Reaches m s s' → Reaches m s (m.gc s')

theorem Reaches.trans {S E : Type} {m : Machine S E} {a b c : S} (h1 : Reaches m a b) (h2 : Reaches m b c) :
    Reaches m a c := by
  induction h2 with
  | refl => exact h1
  | next _ e ih => exact .next ih e
  | halt _ e ih => exact .halt ih e
  | gc _ ih => exact .gc ih

/-- every state reachable from `s`, under every placement of collections, is `Good` -/
def Safe (m : Machine (St CHeap) Fault) (s : St CHeap) : Prop := ∀ s', Reaches m s s' → Good s'

theorem Safe.good {m : Machine (St CHeap) Fault} {s} (h : Safe m s) : Good s := h s (.refl s)

theorem Safe.of_reaches {m : Machine (St CHeap) Fault} {s s'} (h : Safe m s) (hr : Reaches m s s') : Safe m s' :=
  fun s'' hr' => h s'' (hr.trans hr')

/-- the relation that is transparent to collections -/
def R (m : Machine (St CHeap) Fault) (s t : St CHeap) : Prop := (∃ φ, Sim φ s t) ∧ Safe m s ∧ Safe m t

end Marwood.Lemmas.Sim
