import Marwood.Lemmas.TransformMatchPlain
/-!
# `expand` on plain templates (class "no ellipsis"): every expansion is the spec's instantiation
-/
namespace Marwood.Transform
open Marwood Marwood.Spec.Match

/-- instantiating a plain list template goes element by element -/
theorem inst_plain_cons (s : Setup) (t : Datum) (ts : List Datum) (bs : Binds)
    (ht : plain s.es t = true) (hts : ∀ x ∈ ts, plain s.es x = true) :
    inst s.ctx false false (Datum.ofList (t :: ts)) bs =
      (match inst s.ctx false false t bs with
       | .ok h =>
         match inst s.ctx false false (Datum.ofList ts) bs with
         | .ok r => .ok (.pair h r)
         | .mismatch => .mismatch
         | .malformed => .malformed
       | .mismatch => .mismatch
       | .malformed => .malformed) := by
  have h1 : s.ctx.isEllD t = false := by rw [s.isEllD_eq]; exact plain_ne_ell ht
  have h2 : leadEll s.ctx (Datum.ofList ts) = 0 := by
    cases ts with
    | nil => rfl
    | cons q qs =>
      simp only [Datum.ofList, leadEll, s.isEllD_eq, Setup.ell]
      rw [plain_ne_ell (hts q (by simp))]; rfl
  simp only [Datum.ofList]
  rw [inst.eq_def]
  simp [h1, h2]
  rfl

theorem inst_nil (c : Ctx) (esc skip : Bool) (bs : Binds) : inst c esc skip .nil bs = .ok .nil := by
  unfold inst; rfl

/-- the facts about the environment the expansion lemma needs -/
structure EnvOK (s : Setup) (pat : Pattern) (B : Bindings) (bs : Binds) : Prop where
  noExp : pat.expanded = []
  found : ∀ x i d, findKey (.sym x) B 0 = some (i, d) → bs.lookup x = some (.one d)
  notVar : ∀ x, pat.isVariable (.sym x) = false → bs.lookup x = none

theorem expand_plain_aux (s : Setup) (pat : Pattern) (B : Bindings) (bs : Binds)
    (hok : EnvOK s pat B bs) (iters : List (Datum × Option Nat)) : ∀ f : Nat,
    (∀ T o env', plain s.es T = true →
        expand s.ell pat f T ⟨B, iters⟩ = .ok (o, env') →
        env' = ⟨B, iters⟩ ∧ ∀ d, o = some d → inst s.ctx false false T bs = .ok d) ∧
    (∀ cur rest v o env', plain s.es cur = true → (∀ t ∈ rest, plain s.es t = true) →
        expandLoop s.ell pat f cur rest v ⟨B, iters⟩ = .ok (o, env') →
        env' = ⟨B, iters⟩ ∧ ∀ d, o = some d →
          ∃ ds, d = Datum.ofList (v ++ ds) ∧
            inst s.ctx false false (Datum.ofList (cur :: rest)) bs = .ok (Datum.ofList ds)) := by
  intro f
  induction f with
  | zero =>
    constructor
    · intro T o env' _ h; simp [expand] at h
    · intro cur rest v o env' _ _ h; simp [expandLoop] at h
  | succ f ih =>
    obtain ⟨ih1, ih2⟩ := ih
    constructor
    · intro T o env' hT h
      cases hTeq : T with
      | sym x =>
        rw [hTeq] at h hT
        have hx : x ≠ s.es := by simpa [plain] using hT
        unfold expand at h
        by_cases hv : pat.isVariable (.sym x) = true
        · simp only [hv, if_true, PEnv.getBinding, Bool.not_true, Bool.false_eq_true, if_false,
            Pattern.isExpandedVariable, hok.noExp, List.any_nil] at h
          cases h
          refine ⟨rfl, fun d hd => ?_⟩
          cases hk : findKey (.sym x) B 0 with
          | none => simp [hk] at hd
          | some kv =>
            obtain ⟨i, d'⟩ := kv
            simp only [hk, Option.map_some, Option.some.injEq] at hd
            subst hd
            unfold inst
            simp [hok.found x i d' hk]
        · simp only [hv, Bool.false_eq_true, if_false] at h
          cases h
          refine ⟨rfl, fun d hd => ?_⟩
          cases hd
          unfold inst
          simp [hok.notVar x (by simpa using hv), s.isEll_iff, beq_text, hx]
      | pair a d =>
        rw [hTeq] at h hT
        simp only [plain, Bool.and_eq_true] at hT
        obtain ⟨_, hel, _⟩ := plainTail_spec hT.2
        unfold expand at h
        obtain ⟨he, hd⟩ := ih2 a (iterList d) [] o env' hT.1 hel h
        refine ⟨he, fun dd hdd => ?_⟩
        obtain ⟨ds, hds, hi⟩ := hd dd hdd
        have hdeq := (plainTail_spec hT.2).1
        rw [hdeq]
        simp only [List.nil_append] at hds
        rw [hds]
        exact hi
      | vec v => rw [hTeq] at hT; simp [plain] at hT
      | _ =>
        rw [hTeq] at h
        unfold expand at h
        cases h
        refine ⟨rfl, fun d hd => ?_⟩
        cases hd
        unfold inst; rfl
    · intro cur rest v o env' hcur hrest h
      unfold expandLoop at h
      simp only [peekIs_plain s rest hrest, Bool.false_eq_true, if_false, Bool.not_false, if_true] at h
      cases hc : expand s.ell pat f cur ⟨B, iters⟩ with
      | ok r =>
        obtain ⟨oc, envc⟩ := r
        obtain ⟨henv, hcd⟩ := ih1 cur oc envc hcur hc
        rw [hc] at h
        subst henv
        cases oc with
        | none =>
          simp only at h
          cases h
          exact ⟨rfl, fun d hd => by cases hd⟩
        | some cell =>
          simp only at h
          have hcell := hcd cell rfl
          cases rest with
          | nil =>
            simp only at h
            cases h
            refine ⟨rfl, fun d hd => ?_⟩
            cases hd
            refine ⟨[cell], rfl, ?_⟩
            rw [inst_plain_cons s cur [] bs hcur (by simp)]
            simp [hcell, Datum.ofList, inst_nil]
          | cons t rest' =>
            simp only at h
            have hrest' : ∀ x ∈ rest', plain s.es x = true := fun x hx => hrest x (List.mem_cons_of_mem _ hx)
            obtain ⟨he, hd⟩ := ih2 t rest' (v ++ [cell]) o env' (hrest t (by simp)) hrest' h
            refine ⟨he, fun d hdd => ?_⟩
            obtain ⟨ds, hds, hi⟩ := hd d hdd
            refine ⟨cell :: ds, by simp [hds], ?_⟩
            rw [inst_plain_cons s cur (t :: rest') bs hcur hrest]
            simp [hcell, hi]
            rfl
      | err x => rw [hc] at h; cases h
      | panic m => rw [hc] at h; cases h
      | fuel => rw [hc] at h; cases h

end Marwood.Transform
