import Marwood.Lemmas.NumRndCore
/-!
# `Fl.rndMag`: exponent, significand, bit pattern and its value

For a positive magnitude `x = n/d`: `e = eOf n d = max (⌊log₂ x⌋ - 52) (-1074)`,
`m = mOf n d = RN (x / 2^e)`, pattern `(e + 1074) * 2^52 + m` (clamped to the pattern of ∞).
* `m ≤ 2^53`, and `2^52 ≤ m` unless `e = -1074` was forced (subnormal range);
* a pattern below `infBits` decodes to the magnitude `m * 2^e`;
* `x ≤ x'` implies `(e, m) ≤ (e', m')` lexicographically, hence patterns and values are monotone.
-/
namespace Marwood.Fl

def eOf (n d : ℕ) : ℤ := max (floorLog2 n d - 52) (-1074)

def mOf (n d : ℕ) : ℕ :=
  if eOf n d ≥ 0 then roundHalfEven n (d * 2 ^ (eOf n d).toNat)
  else roundHalfEven (n * 2 ^ (-(eOf n d)).toNat) d

def EOf (n d : ℕ) : ℕ := (eOf n d + 1074).toNat

def patOf (n d : ℕ) : ℕ := EOf n d * twoP52 + mOf n d

theorem rndMag_eq (n d : ℕ) : rndMag n d = if patOf n d ≥ infBits then infBits else patOf n d := rfl

theorem eOf_ge (n d : ℕ) : -1074 ≤ eOf n d := le_max_right _ _

theorem EOf_cast (n d : ℕ) : (EOf n d : ℤ) = eOf n d + 1074 := by
  unfold EOf; have := eOf_ge n d; omega

/-- the significand is the rounded quotient `x / 2^e` -/
theorem mOf_eq (n d : ℕ) (hd : 0 < d) : (mOf n d : ℤ) = RN ((n : ℚ) / d / 2 ^ (eOf n d)) := by
  have hdq : (0 : ℚ) < d := by exact_mod_cast hd
  unfold mOf
  by_cases he : eOf n d ≥ 0
  · rw [if_pos he, roundHalfEven_eq _ _ (by positivity)]
    congr 1
    rw [Nat.cast_mul, two_zpow_toNat he, div_div]
  · rw [if_neg he, roundHalfEven_eq _ _ hd]
    congr 1
    have h0 : 0 ≤ -(eOf n d) := by omega
    rw [Nat.cast_mul, two_zpow_toNat h0, zpow_neg]
    field_simp

theorem p53 : (2 : ℚ) ^ (53 : ℤ) = ((twoP53 : ℕ) : ℚ) := by norm_num [twoP53]
theorem p52 : (2 : ℚ) ^ (52 : ℤ) = ((twoP52 : ℕ) : ℚ) := by norm_num [twoP52]

/-- `x / 2^e < 2^53` -/
theorem quot_lt (n d : ℕ) (hn : 0 < n) (hd : 0 < d) : (n : ℚ) / d / 2 ^ (eOf n d) < 2 ^ (53 : ℤ) := by
  obtain ⟨_, hup⟩ := floorLog2_spec n d hn hd
  have hle : floorLog2 n d + 1 ≤ eOf n d + 53 := by
    have : floorLog2 n d - 52 ≤ eOf n d := le_max_left _ _
    omega
  rw [div_lt_iff₀ (two_zpow_pos _), ← two_zpow_add]
  calc (n : ℚ) / d < 2 ^ (floorLog2 n d + 1) := hup
    _ ≤ 2 ^ (53 + eOf n d) := two_zpow_mono (by omega)

/-- unless the exponent was clamped, `2^52 ≤ x / 2^e` -/
theorem quot_ge (n d : ℕ) (hn : 0 < n) (hd : 0 < d) (he : eOf n d = floorLog2 n d - 52) :
    (2 : ℚ) ^ (52 : ℤ) ≤ (n : ℚ) / d / 2 ^ (eOf n d) := by
  obtain ⟨hlo, _⟩ := floorLog2_spec n d hn hd
  rw [le_div_iff₀ (two_zpow_pos _), ← two_zpow_add]
  calc (2 : ℚ) ^ (52 + eOf n d) = 2 ^ (floorLog2 n d) := by congr 1; omega
    _ ≤ (n : ℚ) / d := hlo

theorem mOf_le (n d : ℕ) (hn : 0 < n) (hd : 0 < d) : mOf n d ≤ twoP53 := by
  have h := RN_mono (quot_lt n d hn hd).le
  rw [← mOf_eq n d hd, p53, RN_natCast] at h
  exact_mod_cast h

theorem mOf_ge (n d : ℕ) (hn : 0 < n) (hd : 0 < d) (he : eOf n d = floorLog2 n d - 52) :
    twoP52 ≤ mOf n d := by
  have h := RN_mono (quot_ge n d hn hd he)
  rw [← mOf_eq n d hd, p52, RN_natCast] at h
  exact_mod_cast h

theorem mOf_ge_of_E (n d : ℕ) (hn : 0 < n) (hd : 0 < d) (hE : 0 < EOf n d) : twoP52 ≤ mOf n d := by
  apply mOf_ge n d hn hd
  have h1 := EOf_cast n d
  have : eOf n d = max (floorLog2 n d - 52) (-1074) := rfl
  omega

/-! ## decoding a pattern -/

theorem sig_ex_of (f : F64) : sig f * 2 ^ ex f =
    (if expField f = 0 then mantField f else twoP52 + mantField f) *
      2 ^ (if expField f = 0 then 0 else expField f - 1) := by
  unfold sig ex
  simp only [beq_iff_eq]

theorem decode_fields (E m : ℕ) (hm : m ≤ twoP53) (hE : 0 < E → twoP52 ≤ m)
    (hb : E * twoP52 + m < infBits) :
    expField ⟨E * twoP52 + m⟩ ≠ 2047 ∧ signBit ⟨E * twoP52 + m⟩ = false ∧
    sig ⟨E * twoP52 + m⟩ * 2 ^ ex ⟨E * twoP52 + m⟩ = m * 2 ^ E := by
  unfold twoP53 at hm
  unfold twoP52 at hE
  unfold infBits twoP52 at hb
  have hs : signBit ⟨E * twoP52 + m⟩ = false := by
    show ((E * twoP52 + m) / twoP63 % 2 == 1) = false
    unfold twoP52 twoP63
    rw [beq_eq_false_iff_ne]; omega
  rw [sig_ex_of]
  rcases Nat.lt_or_ge m 4503599627370496 with h1 | h1
  · have hE0 : E = 0 := by
      rcases Nat.eq_zero_or_pos E with h | h
      · exact h
      · have := hE h; omega
    have a1 : expField ⟨E * twoP52 + m⟩ = 0 := by
      show (E * twoP52 + m) / twoP52 % 2048 = 0
      unfold twoP52; omega
    have a2 : mantField ⟨E * twoP52 + m⟩ = m := by
      show (E * twoP52 + m) % twoP52 = m
      unfold twoP52; omega
    rw [a1, a2]
    refine ⟨by omega, hs, ?_⟩
    simp [hE0]
  · rcases Nat.lt_or_ge m 9007199254740992 with h2 | h2
    · have a1 : expField ⟨E * twoP52 + m⟩ = E + 1 := by
        show (E * twoP52 + m) / twoP52 % 2048 = E + 1
        unfold twoP52; omega
      have a2 : mantField ⟨E * twoP52 + m⟩ = m - 4503599627370496 := by
        show (E * twoP52 + m) % twoP52 = _
        unfold twoP52; omega
      rw [a1, a2]
      refine ⟨by omega, hs, ?_⟩
      rw [if_neg (by omega), if_neg (by omega), Nat.add_sub_cancel]
      have : twoP52 + (m - 4503599627370496) = m := by unfold twoP52; omega
      rw [this]
    · have hm' : m = 2 * 4503599627370496 := by omega
      have a1 : expField ⟨E * twoP52 + m⟩ = E + 2 := by
        show (E * twoP52 + m) / twoP52 % 2048 = E + 2
        unfold twoP52; omega
      have a2 : mantField ⟨E * twoP52 + m⟩ = 0 := by
        show (E * twoP52 + m) % twoP52 = 0
        unfold twoP52; omega
      rw [a1, a2]
      refine ⟨by omega, hs, ?_⟩
      rw [if_neg (by omega), if_neg (by omega)]
      have h21 : E + 2 - 1 = E + 1 := by omega
      rw [h21, hm', Nat.pow_succ]
      unfold twoP52
      generalize 2 ^ E = P
      omega

/-- setting the sign bit changes only the sign -/
theorem sign_fields (b : ℕ) (hb : b < twoP63) :
    expField ⟨twoP63 + b⟩ = expField ⟨b⟩ ∧ mantField ⟨twoP63 + b⟩ = mantField ⟨b⟩ ∧
    signBit ⟨twoP63 + b⟩ = true := by
  unfold twoP63 at hb
  simp only [expField, mantField, signBit, twoP52, twoP63]
  refine ⟨by omega, by omega, ?_⟩
  rw [beq_iff_eq]; omega

theorem magRat_sign (b : ℕ) (hb : b < twoP63) : magRat ⟨twoP63 + b⟩ = magRat ⟨b⟩ := by
  obtain ⟨h1, h2, _⟩ := sign_fields b hb
  unfold magRat sig ex
  rw [h1, h2]

theorem magRat_eq (f : F64) : magRat f = ((sig f * 2 ^ ex f : ℕ) : ℚ) / 2 ^ (1074 : ℕ) := by
  unfold magRat
  rw [Rat.mkRat_eq_div]
  simp only [Int.ofNat_eq_natCast, Int.cast_natCast, Nat.cast_pow, Nat.cast_ofNat]

/-- the magnitude of the pattern of `n/d` when there is no overflow -/
theorem pat_val (n d : ℕ) (hn : 0 < n) (hd : 0 < d) (hb : patOf n d < infBits) :
    expField ⟨patOf n d⟩ ≠ 2047 ∧ signBit ⟨patOf n d⟩ = false ∧
    magRat ⟨patOf n d⟩ = (mOf n d : ℚ) * 2 ^ (eOf n d) := by
  obtain ⟨h1, h2, h3⟩ := decode_fields (EOf n d) (mOf n d) (mOf_le n d hn hd)
    (mOf_ge_of_E n d hn hd) hb
  refine ⟨h1, h2, ?_⟩
  rw [magRat_eq]
  unfold patOf
  rw [h3]
  have hE : (2 : ℚ) ^ (eOf n d) = ((2 ^ EOf n d : ℕ) : ℚ) / 2 ^ (1074 : ℕ) := by
    have : eOf n d = (EOf n d : ℤ) - 1074 := by have := EOf_cast n d; omega
    rw [this, two_zpow_sub, zpow_natCast]
    push_cast
    rfl
  rw [hE]
  push_cast
  ring

theorem infBits_lt : infBits < twoP63 := by decide

/-! ## monotonicity of exponent and significand -/

theorem floorLog2_mono {n d n' d' : ℕ} (hn : 0 < n) (hd : 0 < d) (hn' : 0 < n') (hd' : 0 < d')
    (h : (n : ℚ) / d ≤ (n' : ℚ) / d') : floorLog2 n d ≤ floorLog2 n' d' := by
  obtain ⟨lo, _⟩ := floorLog2_spec n d hn hd
  obtain ⟨_, up'⟩ := floorLog2_spec n' d' hn' hd'
  have : (2 : ℚ) ^ (floorLog2 n d) < 2 ^ (floorLog2 n' d' + 1) :=
    lt_of_le_of_lt (le_trans lo h) up'
  have := two_zpow_lt_iff.mp this
  omega

/-- `x ≤ x'` implies `(e, m) ≤ (e', m')` lexicographically, with a normal `m'` when `e < e'` -/
theorem lex_mono {n d n' d' : ℕ} (hn : 0 < n) (hd : 0 < d) (hn' : 0 < n') (hd' : 0 < d')
    (h : (n : ℚ) / d ≤ (n' : ℚ) / d') :
    (eOf n d < eOf n' d' ∧ twoP52 ≤ mOf n' d') ∨ (eOf n d = eOf n' d' ∧ mOf n d ≤ mOf n' d') := by
  have hfl := floorLog2_mono hn hd hn' hd' h
  have he : eOf n d ≤ eOf n' d' := by unfold eOf; omega
  rcases lt_or_eq_of_le he with hlt | heq
  · left
    refine ⟨hlt, mOf_ge n' d' hn' hd' ?_⟩
    have := eOf_ge n d
    unfold eOf at hlt ⊢
    omega
  · right
    refine ⟨heq, ?_⟩
    have h1 := mOf_eq n d hd
    have h2 := mOf_eq n' d' hd'
    have : RN ((n : ℚ) / d / 2 ^ (eOf n d)) ≤ RN ((n' : ℚ) / d' / 2 ^ (eOf n' d')) := by
      apply RN_mono
      rw [heq]
      exact div_le_div_of_nonneg_right h (two_zpow_pos _).le
    rw [← h1, ← h2] at this
    exact_mod_cast this

/-- patterns are monotone -/
theorem patOf_mono {n d n' d' : ℕ} (hn : 0 < n) (hd : 0 < d) (hn' : 0 < n') (hd' : 0 < d')
    (h : (n : ℚ) / d ≤ (n' : ℚ) / d') : patOf n d ≤ patOf n' d' := by
  have hm := mOf_le n d hn hd
  unfold patOf twoP52
  unfold twoP53 at hm
  rcases lex_mono hn hd hn' hd' h with ⟨h1, h2⟩ | ⟨h1, h2⟩
  · have : EOf n d + 1 ≤ EOf n' d' := by
      have a := EOf_cast n d; have b := EOf_cast n' d'; omega
    unfold twoP52 at h2
    have : (EOf n d + 1) * 4503599627370496 ≤ EOf n' d' * 4503599627370496 :=
      Nat.mul_le_mul_right _ this
    omega
  · have : EOf n d = EOf n' d' := by unfold EOf; rw [h1]
    rw [this]; omega

theorem rndMag_mono {n d n' d' : ℕ} (hn : 0 < n) (hd : 0 < d) (hn' : 0 < n') (hd' : 0 < d')
    (h : (n : ℚ) / d ≤ (n' : ℚ) / d') : rndMag n d ≤ rndMag n' d' := by
  have := patOf_mono hn hd hn' hd' h
  rw [rndMag_eq, rndMag_eq]
  split_ifs <;> omega

/-- the decoded magnitudes are monotone -/
theorem val_mono {n d n' d' : ℕ} (hn : 0 < n) (hd : 0 < d) (hn' : 0 < n') (hd' : 0 < d')
    (h : (n : ℚ) / d ≤ (n' : ℚ) / d') :
    (mOf n d : ℚ) * 2 ^ (eOf n d) ≤ (mOf n' d' : ℚ) * 2 ^ (eOf n' d') := by
  rcases lex_mono hn hd hn' hd' h with ⟨h1, h2⟩ | ⟨h1, h2⟩
  · have hm : (mOf n d : ℚ) ≤ 2 ^ (53 : ℤ) := by rw [p53]; exact_mod_cast mOf_le n d hn hd
    have hm' : (2 : ℚ) ^ (52 : ℤ) ≤ (mOf n' d' : ℚ) := by rw [p52]; exact_mod_cast h2
    calc (mOf n d : ℚ) * 2 ^ (eOf n d) ≤ 2 ^ (53 : ℤ) * 2 ^ (eOf n d) :=
          mul_le_mul_of_nonneg_right hm (two_zpow_pos _).le
      _ = 2 ^ (52 : ℤ) * 2 ^ (eOf n d + 1) := by
          rw [← two_zpow_add, ← two_zpow_add]; congr 1; ring
      _ ≤ 2 ^ (52 : ℤ) * 2 ^ (eOf n' d') :=
          mul_le_mul_of_nonneg_left (two_zpow_mono (by omega)) (two_zpow_pos _).le
      _ ≤ (mOf n' d' : ℚ) * 2 ^ (eOf n' d') :=
          mul_le_mul_of_nonneg_right hm' (two_zpow_pos _).le
  · rw [h1]
    exact mul_le_mul_of_nonneg_right (by exact_mod_cast h2) (two_zpow_pos _).le

end Marwood.Fl
