import Marwood.Lemmas.EvalMono
/-!
# Fuel monotonicity of `Spec.Eval`: one level of evaluation, the fuel induction, sessions

`evalN_mono`: if `evalN n` gives a definite outcome (value or error) on an expression / application
from a state, every `evalN m` with `m ≥ n` gives the same outcome: same value or error class, same
globals, store and output log. Consequences for top-level forms (`runForm_mono`) and whole sessions
(`results_mono`, `output_mono`).
-/
namespace Marwood.Spec.Eval
open Marwood

variable {r r' : Rec}

theorem le_evalTopForm (hr : RecLe r r') (d : Datum) : Le (evalTopForm r d) (evalTopForm r' d) := by
  unfold evalTopForm
  split
  · exact Le.bind (le_defineValue hr [] d) (fun _ => Le.refl _)
  · exact hr.eval d []

theorem le_evalTopForms (hr : RecLe r r') : ∀ (ds : List Datum), Le (evalTopForms r ds) (evalTopForms r' ds)
  | [] => Le.refl _
  | [d] => by simpa [evalTopForms] using le_evalTopForm hr d
  | d :: d' :: ds => by
    simp only [evalTopForms]
    exact Le.bind (le_evalTopForm hr d) (fun _ => le_evalTopForms hr (d' :: ds))

theorem le_evalTop (hr : RecLe r r') (d : Datum) : Le (evalTop r d) (evalTop r' d) := by
  unfold evalTop
  split
  · split
    · split
      · exact le_evalTopForms hr _
      · exact Le.refl _
    · exact le_evalTopForm hr _
  · exact le_evalTopForm hr _

theorem le_application (hr : RecLe r r') (f rest : Datum) (ρ : Env) :
    Le (match properList rest with
      | some es => do
        let vs ← evalArgs r ρ es
        let fv ← r.eval f ρ
        r.apply fv vs
      | none => throw .syntax)
      (match properList rest with
      | some es => do
        let vs ← evalArgs r' ρ es
        let fv ← r'.eval f ρ
        r'.apply fv vs
      | none => throw .syntax) := by
  split
  · refine Le.bind (le_evalArgs hr ρ _) (fun vs => ?_)
    exact Le.bind (hr.eval f ρ) (fun fv => hr.apply fv vs)
  · exact Le.refl _

theorem le_evalStep (hr : RecLe r r') (e : Datum) (ρ : Env) : Le (evalStep r e ρ) (evalStep r' e ρ) := by
  cases e with
  | pair f rest =>
    cases f with
    | sym s =>
      simp only [evalStep]
      cases hk : kwOf s with
      | some k => exact le_evalKw hr ρ k rest
      | none => exact le_application hr _ rest ρ
    | _ =>
      simp only [evalStep]
      exact le_application hr _ rest ρ
  | _ => exact Le.refl _

theorem le_applyStep (hr : RecLe r r') (f : Val) (args : List Val) :
    Le (applyStep r f args) (applyStep r' f args) := by
  unfold applyStep
  split
  · exact Le.bind (Le.refl _) (fun ρ' => le_evalBody hr ρ' _)
  · split
    · exact Le.bind (Le.refl _) (fun xs => hr.apply _ _)
    · exact Le.refl _
  · split
    · exact Le.bind (Le.refl _) (fun d => le_evalTop hr d)
    · exact Le.refl _
  · split
    · refine Le.bind (Le.refl _) (fun c => ?_)
      split
      · exact Le.refl _
      · exact Le.bind (hr.apply _ []) (fun v => Le.refl _)
      · exact Le.refl _
    · exact Le.refl _
    · exact Le.refl _
  · split
    · refine Le.bind (Le.refl _) (fun lists => ?_)
      refine Le.bind (Le.refl _) (fun st => ?_)
      exact Le.bind (le_mapApply hr _ _) (fun vs => Le.refl _)
    · exact Le.refl _
  · split
    · refine Le.bind (Le.refl _) (fun lists => ?_)
      refine Le.bind (Le.refl _) (fun st => ?_)
      exact Le.bind (le_mapApply hr _ _) (fun vs => Le.refl _)
    · exact Le.refl _
  · exact Le.refl _
  · exact Le.refl _

/-- one more level of fuel refines -/
theorem recLe_evalN_succ : ∀ (n : Nat), RecLe (evalN n) (evalN (n + 1))
  | 0 => ⟨fun _ _ => Le.timeout _, fun _ _ => Le.timeout _⟩
  | n+1 => ⟨fun e ρ => le_evalStep (recLe_evalN_succ n) e ρ,
            fun f args => le_applyStep (recLe_evalN_succ n) f args⟩

/-- **Fuel monotonicity**: more fuel refines. -/
theorem recLe_evalN {n m : Nat} (h : n ≤ m) : RecLe (evalN n) (evalN m) := by
  induction h with
  | refl => exact RecLe.refl _
  | step _ ih => exact ih.trans (recLe_evalN_succ _)

/-- **Fuel monotonicity**, spelled out for expressions: a definite outcome (value or error, with its
    state: globals, store, output log) reached with fuel `n` is reached with every fuel `m ≥ n`. -/
theorem evalN_mono {n m : Nat} (h : n ≤ m) (e : Datum) (ρ : Env) (st : St)
    (hd : (evalN n).eval e ρ st ≠ .timeout) : (evalN m).eval e ρ st = (evalN n).eval e ρ st :=
  (recLe_evalN h).eval e ρ st hd

/-- … and for applications of procedure values -/
theorem applyN_mono {n m : Nat} (h : n ≤ m) (f : Val) (args : List Val) (st : St)
    (hd : (evalN n).apply f args st ≠ .timeout) : (evalN m).apply f args st = (evalN n).apply f args st :=
  (recLe_evalN h).apply f args st hd

/-- … and for top-level forms -/
theorem evalTop_mono {n m : Nat} (h : n ≤ m) (d : Datum) (st : St)
    (hd : evalTop (evalN n) d st ≠ .timeout) : evalTop (evalN m) d st = evalTop (evalN n) d st :=
  le_evalTop (recLe_evalN h) d st hd

/-- **Determinacy up to fuel**: two definite outcomes of the same evaluation, reached with whatever
    fuels, are equal — the fuel only decides *whether* an outcome is reached, never *which*. -/
theorem definite_unique {n m : Nat} (e : Datum) (ρ : Env) (st : St)
    (hn : (evalN n).eval e ρ st ≠ .timeout) (hm : (evalN m).eval e ρ st ≠ .timeout) :
    (evalN n).eval e ρ st = (evalN m).eval e ρ st := by
  rcases Nat.le_total n m with h | h
  · exact (evalN_mono h e ρ st hn).symm
  · exact evalN_mono h e ρ st hm

/-! ## sessions -/

theorem runForm_mono {n m : Nat} (h : n ≤ m) (d : Datum) (st : St)
    (hd : (runForm n d st).1 ≠ .timeout) : runForm m d st = runForm n d st := by
  have hd' : evalTop (evalN n) d st ≠ .timeout := by
    intro h0
    apply hd
    simp [runForm, h0]
  simp only [runForm, evalTop_mono h d st hd']

/-- a session none of whose forms runs out of fuel gives the same results, and ends in the same
    state, with any larger fuel -/
theorem runSession_mono {n m : Nat} (h : n ≤ m) : ∀ (ds : List Datum) (st : St),
    (∀ r ∈ (runSession n ds st).1, r ≠ FormRes.timeout) → runSession m ds st = runSession n ds st
  | [], _, _ => rfl
  | d :: ds, st, hd => by
    have h1 : (runForm n d st).1 ≠ .timeout := by
      apply hd
      simp only [runSession]
      cases hf : runForm n d st with
      | mk r s => cases s <;> simp
    have e1 := runForm_mono h d st h1
    simp only [runSession, e1]
    cases hf : runForm n d st with
    | mk r s =>
      cases s with
      | none => rfl
      | some st' =>
        simp only
        have := runSession_mono h ds st' (by
          intro r' hr'
          apply hd
          simp only [runSession, hf]
          simp [hr'])
        rw [this]

theorem results_mono {n m : Nat} (h : n ≤ m) (session : List Datum)
    (hd : ∀ r ∈ results n session, r ≠ FormRes.timeout) : results m session = results n session := by
  unfold results at *
  rw [runSession_mono h session initSt hd]

theorem output_mono {n m : Nat} (h : n ≤ m) (session : List Datum)
    (hd : ∀ r ∈ results n session, r ≠ FormRes.timeout) : output m session = output n session := by
  unfold output results at *
  rw [runSession_mono h session initSt hd]

end Marwood.Spec.Eval
