import Marwood.Lemmas.EnvStatic
/-!
# T02.1 on nests: the chain of `IofEnvironment` links ends at the innermost binder,
and the free-symbol analysis threads every referenced name through the levels in between
-/
namespace Marwood.Vm.Env
open Marwood.Scope Marwood.Spec.Scope

/-- the entry a chain ends at belongs to a binder of `x` at that level: its own `Argument` entry
    (fixed or rest parameter), or an `InternalDefinition` entry -/
def BinderEntry (l : Level) (x : Name) (src : Source) : Prop :=
  (∃ n, src = .argument n ∧ argIndex l.args x = some n) ∨ (src = .internal ∧ x ∉ l.args ∧ x ∈ l.internal)

theorem bindingLocation_of_entry (c : LamCtx) (x : Name) (s : Nat) (src : Source)
    (h : entryOf c.envmap x = some (s, src)) : bindingLocation c x = .env s := by
  simp [bindingLocation, slotOf_eq_entryOf, h]

/-- a name no level binds is global, whatever the free-symbol sets are -/
theorem unbound_global (nest : List Level) (x : Name) (h : ∀ l ∈ nest, x ∉ l.binders) :
    entryOf (ctxOf nest).envmap x = none ∧ argIndex (ctxOf nest).args x = none := by
  induction nest with
  | nil => exact ⟨rfl, rfl⟩
  | cons l outer ih =>
    have hl := h l (List.mem_cons_self ..)
    simp only [Level.binders, List.mem_append, not_or] at hl
    have ⟨ho1, ho2⟩ := ih (fun m hm => h m (List.mem_cons_of_mem _ hm))
    refine ⟨?_, (argIndex_none_iff _ _).mpr hl.1⟩
    apply (entryOf_newEnvmap_free l.args l.internal l.free (ctxOf outer) x hl.1 hl.2).1
    right
    simp [freeEntry, slotOf_eq_entryOf, ho1, ho2]

/-- the level that binds `x`: the first entry for `x` is the binder's own -/
theorem binder_entry (l : Level) (outer : List Level) (x : Name) (h : x ∈ l.binders) :
    ∃ t src, entryOf (ctxOf (l :: outer)).envmap x = some (t, src) ∧ BinderEntry l x src := by
  simp only [Level.binders, List.mem_append] at h
  by_cases ha : x ∈ l.args
  · cases hn : argIndex l.args x with
    | none => exact absurd ha ((argIndex_none_iff _ _).mp hn)
    | some n =>
      exact ⟨n, .argument n, entryOf_newEnvmap_arg _ _ _ _ _ _ hn, Or.inl ⟨n, rfl, hn⟩⟩
  · have hi : x ∈ l.internal := h.resolve_left ha
    obtain ⟨i, hi'⟩ := entryOf_newEnvmap_internal l.args l.internal l.free (ctxOf outer) x ha hi
    exact ⟨i, .internal, hi', Or.inr ⟨rfl, ha, hi⟩⟩

theorem chain_aux (inner : List Level) (l : Level) (outer : List Level) (x : Name)
    (hinner : ∀ m ∈ inner, x ∉ m.binders ∧ x ∈ m.free) (hl : x ∈ l.binders) :
    ∃ s e t src, entryOf (ctxOf (inner ++ l :: outer)).envmap x = some (s, e) ∧
      follow (inner ++ l :: outer) s = some (inner.length, t, src) ∧
      entryOf (ctxOf (l :: outer)).envmap x = some (t, src) ∧ BinderEntry l x src := by
  induction inner with
  | nil =>
    obtain ⟨t, src, he, hb⟩ := binder_entry l outer x hl
    refine ⟨t, src, t, src, he, ?_, he, hb⟩
    have hget := entryOf_getElem _ _ _ _ he
    simp only [List.nil_append, follow, hget, List.length_nil]
    rcases hb with ⟨n, rfl, _⟩ | ⟨rfl, _⟩ <;> rfl
  | cons m inner ih =>
    obtain ⟨hmb, hmf⟩ := hinner m (List.mem_cons_self ..)
    obtain ⟨k, e, t, src, hek, hfol, het, hb⟩ := ih (fun m' hm' => hinner m' (List.mem_cons_of_mem _ hm'))
    simp only [Level.binders, List.mem_append, not_or] at hmb
    have hfe : freeEntry (ctxOf (inner ++ l :: outer)) x = some (x, .iofEnv k) := by
      simp [freeEntry, slotOf_eq_entryOf, hek]
    obtain ⟨s, hs⟩ := (entryOf_newEnvmap_free m.args m.internal m.free (ctxOf (inner ++ l :: outer)) x
      hmb.1 hmb.2).2 _ hmf hfe
    have hs' : entryOf (ctxOf (m :: (inner ++ l :: outer))).envmap x = some (s, .iofEnv k) := hs
    refine ⟨s, .iofEnv k, t, src, hs', ?_, het, hb⟩
    have hget := entryOf_getElem _ _ _ _ hs'
    simp only [List.cons_append, follow, hget, hfol, List.length_cons]
    rfl

/-- **T02.1, abstract form.** `inner` are the levels between the reference and the binder `l`:
    they do not bind `x` and hand it down (`x` is in their free-symbol sets). Then the reference
    compiles to an environment slot, and following the `IofEnvironment` links from it through
    exactly `inner.length` levels ends at the binder's own entry for `x` in level `l`. -/
theorem chain_to_binder (inner : List Level) (l : Level) (outer : List Level) (x : Name)
    (hinner : ∀ m ∈ inner, x ∉ m.binders ∧ x ∈ m.free) (hl : x ∈ l.binders) :
    ∃ s t src, bindingLocation (ctxOf (inner ++ l :: outer)) x = .env s ∧
      follow (inner ++ l :: outer) s = some (inner.length, t, src) ∧
      entryOf (ctxOf (l :: outer)).envmap x = some (t, src) ∧ BinderEntry l x src := by
  obtain ⟨s, e, t, src, he, hf, ht, hb⟩ := chain_aux inner l outer x hinner hl
  exact ⟨s, t, src, bindingLocation_of_entry _ _ _ _ he, hf, ht, hb⟩

/-- the spec's `resolve` on the binder sets of such a nest stops at the same level -/
theorem resolveIdx_nest (inner : List Level) (l : Level) (outer : List Level) (x : Name)
    (hinner : ∀ m ∈ inner, x ∉ m.binders) (hl : x ∈ l.binders) :
    resolveIdx x ((inner ++ l :: outer).map Level.binders) = some inner.length := by
  induction inner with
  | nil => simp [resolveIdx, hl]
  | cons m inner ih =>
    have := hinner m (List.mem_cons_self ..)
    have ih' := ih (fun m' hm' => hinner m' (List.mem_cons_of_mem _ hm'))
    simp only [List.cons_append, List.map_cons, resolveIdx, if_neg this, ih', List.length_cons]
    rfl

theorem resolveIdx_none (nest : List Level) (x : Name) (h : ∀ l ∈ nest, x ∉ l.binders) :
    resolveIdx x (nest.map Level.binders) = none := by
  induction nest with
  | nil => rfl
  | cons m nest ih =>
    have := h m (List.mem_cons_self ..)
    simp [resolveIdx, this, ih (fun m' hm' => h m' (List.mem_cons_of_mem _ hm'))]

/-! ## the key lemma: free symbols are handed down -/

theorem mem_remove (b l : List Name) (x : Name) : x ∈ remove b l ↔ x ∈ l ∧ x ∉ b := by
  simp [remove]

theorem mem_dedup (l : List Name) (x : Name) : x ∈ dedup l ↔ x ∈ l := by
  induction l with
  | nil => simp [dedup]
  | cons y ys ih =>
    simp only [dedup]
    split
    · next h =>
      rw [ih]
      constructor
      · exact fun hx => List.mem_cons_of_mem _ hx
      · intro hx
        cases hx with
        | head => simpa using h
        | tail _ hx => exact hx
    · simp [ih]

/-- the symbols `free_symbols` reports for a lambda form before the `HashSet` collapses them -/
def Node.rawFree (c : Node) : List Name :=
  remove (if c.sugar then c.ps ++ c.rest.toList else c.ps) (fvDefs c.ds ++ fvList c.body)

theorem Node.mem_free (c : Node) (x : Name) : x ∈ c.level.free ↔ x ∈ c.rawFree := by
  simp [Node.level, fvLam, Node.rawFree, mem_dedup]

mutual
theorem subs_fv (e : Expr) (c : Node) (hc : c ∈ subs e) (x : Name) (hx : x ∈ c.rawFree) : x ∈ fv e := by
  cases e with
  | fresh => simp [subs] at hc
  | ref s y => simp [subs] at hc
  | set s y e =>
    simp only [subs] at hc
    simp only [fv, List.mem_cons]
    exact Or.inr (Or.inr (subs_fv e c hc x hx))
  | lam ps r ds body =>
    simp only [subs, List.mem_singleton] at hc
    subst hc
    simpa [Node.rawFree, fv] using hx
  | call f args =>
    simp only [subs, List.mem_append] at hc
    simp only [fv, List.mem_append]
    cases hc with
    | inl h => exact Or.inl (subs_fv f c h x hx)
    | inr h => exact Or.inr (subsList_fv args c h x hx)
  | seq es =>
    simp only [subs, List.mem_singleton] at hc
    subst hc
    simp only [Node.rawFree, mem_remove, fvDefs, List.nil_append] at hx
    simpa [fv] using hx.1
  | loop n f =>
    simp only [subs] at hc
    simp only [fv, List.mem_cons]
    exact Or.inr (subs_fv f c hc x hx)
  | each l args =>
    simp only [subs, List.mem_append] at hc
    simp only [fv]
    cases hc with
    | inl h => exact List.mem_cons_of_mem _ (List.mem_append_left _ (subs_fv l c h x hx))
    | inr h => exact List.mem_cons_of_mem _ (List.mem_append_right _ (List.mem_cons_of_mem _ (subsList_fv args c h x hx)))

theorem subsList_fv (es : Exprs) (c : Node) (hc : c ∈ subsList es) (x : Name) (hx : x ∈ c.rawFree) :
    x ∈ fvList es := by
  cases es with
  | nil => simp [subsList] at hc
  | cons e es =>
    simp only [subsList, List.mem_append] at hc
    simp only [fvList, List.mem_append]
    cases hc with
    | inl h => exact Or.inl (subs_fv e c h x hx)
    | inr h => exact Or.inr (subsList_fv es c h x hx)

theorem subsDefs_fv (ds : Defs) (c : Node) (hc : c ∈ subsDefs ds) (x : Name) (hx : x ∈ c.rawFree) :
    x ∈ fvDefs ds := by
  cases ds with
  | nil => simp [subsDefs] at hc
  | cons y sugar e ds =>
    have hrec := fun h => subsDefs_fv ds c h x hx
    have hsub := fun h => subs_fv e c h x hx
    cases sugar with
    | false =>
      simp only [subsDefs, List.mem_append] at hc
      simp only [fvDefs, List.mem_append]
      exact hc.elim (fun h => Or.inl (hsub h)) (fun h => Or.inr (hrec h))
    | true =>
      cases e
      case lam ps r ds' body =>
        simp only [subsDefs, List.mem_append, List.mem_singleton] at hc
        simp only [fvDefs, List.mem_append]
        cases hc with
        | inl h => subst h; exact Or.inl (by simpa [Node.rawFree] using hx)
        | inr h => exact Or.inr (hrec h)
      all_goals
        simp only [subsDefs, List.mem_append] at hc
        simp only [fvDefs, List.mem_append]
        exact hc.elim (fun h => Or.inl (hsub h)) (fun h => Or.inr (hrec h))
end

/-- **Key lemma.** The free symbols of a lambda form directly inside another one are free symbols
    of the outer form, except for the outer form's parameters: every intermediate level hands a
    name it does not bind down to the levels that use it. -/
theorem free_handed_down (n m : Node) (h : n ∈ m.children) (x : Name) (hx : x ∈ n.level.free) :
    x ∈ m.level.free ∨ x ∈ m.level.args := by
  rw [Node.mem_free] at hx
  have hraw : x ∈ fvDefs m.ds ++ fvList m.body := by
    simp only [Node.children, List.mem_append] at h
    rw [List.mem_append]
    cases h with
    | inl h => exact Or.inl (subsDefs_fv m.ds n h x hx)
    | inr h => exact Or.inr (subsList_fv m.body n h x hx)
  by_cases hb : x ∈ m.level.args
  · exact Or.inr hb
  · left
    rw [Node.mem_free, Node.rawFree, mem_remove]
    refine ⟨hraw, ?_⟩
    simp only [Node.level, List.mem_append, not_or] at hb
    split
    · simpa [List.mem_append] using hb
    · exact hb.1

mutual
theorem refs_fv (e : Expr) (x : Name) (hx : x ∈ refs e) : x ∈ fv e := by
  cases e with
  | fresh => simp [refs] at hx
  | ref s y => simp only [refs, List.mem_singleton] at hx; subst hx; simp [fv]
  | set s y e =>
    simp only [refs, List.mem_cons] at hx
    simp only [fv, List.mem_cons]
    cases hx with
    | inl h => exact Or.inl h
    | inr h => exact Or.inr (Or.inr (refs_fv e x h))
  | lam ps r ds body => simp [refs] at hx
  | call f args =>
    simp only [refs, List.mem_append] at hx
    simp only [fv, List.mem_append]
    cases hx with
    | inl h => exact Or.inl (refs_fv f x h)
    | inr h => exact Or.inr (refsList_fv args x h)
  | seq es => simp [refs] at hx
  | loop n f =>
    simp only [refs] at hx
    simp only [fv, List.mem_cons]
    exact Or.inr (refs_fv f x hx)
  | each l args =>
    simp only [refs, List.mem_append] at hx
    simp only [fv]
    cases hx with
    | inl h => exact List.mem_cons_of_mem _ (List.mem_append_left _ (refs_fv l x h))
    | inr h => exact List.mem_cons_of_mem _ (List.mem_append_right _ (List.mem_cons_of_mem _ (refsList_fv args x h)))

theorem refsList_fv (es : Exprs) (x : Name) (hx : x ∈ refsList es) : x ∈ fvList es := by
  cases es with
  | nil => simp [refsList] at hx
  | cons e es =>
    simp only [refsList, List.mem_append] at hx
    simp only [fvList, List.mem_append]
    cases hx with
    | inl h => exact Or.inl (refs_fv e x h)
    | inr h => exact Or.inr (refsList_fv es x h)

theorem refsDefs_fv (ds : Defs) (x : Name) (hx : x ∈ refsDefs ds) : x ∈ fvDefs ds ∨ x ∈ ds.names := by
  cases ds with
  | nil => simp [refsDefs] at hx
  | cons y sugar e ds =>
    have hrec := fun h => refsDefs_fv ds x h
    have hsub := fun h => refs_fv e x h
    have tail : x ∈ refsDefs ds → (x ∈ fvDefs (.cons y sugar e ds) ∨ x ∈ (Defs.cons y sugar e ds).names) := by
      intro h
      rcases hrec h with h' | h'
      · left
        cases sugar <;> cases e <;> simp only [fvDefs, List.mem_append] <;> exact Or.inr h'
      · right; simp only [Defs.names, List.mem_cons]; exact Or.inr h'
    have head : x = y → (x ∈ fvDefs (.cons y sugar e ds) ∨ x ∈ (Defs.cons y sugar e ds).names) := by
      intro h; right; simp only [Defs.names, List.mem_cons]; exact Or.inl h
    cases sugar <;> cases e
    case true.lam ps r ds' body =>
      simp only [refsDefs, List.mem_cons, List.mem_append] at hx
      rcases hx with (h | h) | h
      · exact head h
      · cases h
      · exact tail h
    all_goals
      simp only [refsDefs, List.mem_cons, List.mem_append] at hx
      rcases hx with (h | h) | h
      · exact head h
      · left
        simp only [fvDefs, List.mem_append]
        exact Or.inl (hsub h)
      · exact tail h
end

/-- a name referenced, assigned or defined in a lambda's own body is bound by it or free in it -/
theorem refs_free_or_bound (n : Node) (x : Name) (hx : x ∈ n.refs) :
    x ∈ n.level.free ∨ x ∈ n.level.binders := by
  by_cases hb : x ∈ n.level.binders
  · exact Or.inr hb
  · left
    simp only [Level.binders, Node.level, List.mem_append, not_or] at hb
    have hraw : x ∈ fvDefs n.ds ++ fvList n.body := by
      simp only [Node.refs, List.mem_append] at hx
      rw [List.mem_append]
      cases hx with
      | inl h =>
        rcases refsDefs_fv n.ds x h with h' | h'
        · exact Or.inl h'
        · exact absurd h' hb.2
      | inr h => exact Or.inr (refsList_fv n.body x h)
    rw [Node.mem_free, Node.rawFree, mem_remove]
    refine ⟨hraw, ?_⟩
    split
    · simpa [List.mem_append] using hb.1
    · exact hb.1.1

theorem IsNest.tail {n : Node} {ns : List Node} (h : IsNest (n :: ns)) : IsNest ns := by
  cases ns with
  | nil => trivial
  | cons m rest => exact h.2

/-- in a syntactic nest, a name free in the innermost form that the enclosing forms do not bind
    is free in each of them -/
theorem free_through_nest (nodes : List Node) (hn : IsNest nodes) (x : Name)
    (hnb : ∀ m ∈ nodes, x ∉ m.level.binders)
    (hhead : ∀ n ∈ nodes.head?, x ∈ n.level.free) : ∀ m ∈ nodes, x ∈ m.level.free := by
  induction nodes with
  | nil => intro m hm; cases hm
  | cons n rest ih =>
    have hnf : x ∈ n.level.free := hhead n (by simp)
    intro m hm
    cases hm with
    | head => exact hnf
    | tail _ hm =>
      cases rest with
      | nil => cases hm
      | cons r rest' =>
        apply ih hn.tail (fun m' hm' => hnb m' (List.mem_cons_of_mem _ hm')) _ m hm
        intro m' hm'
        simp only [List.head?_cons, Option.mem_def, Option.some.injEq] at hm'
        subst hm'
        rcases free_handed_down n r hn.1 x hnf with h | h
        · exact h
        · exact absurd (by simp [Level.binders, h]) (hnb r (by simp))

end Marwood.Vm.Env
