import Marwood.Lemmas.EnvTaintOps
/-!
# "No value leads to a capturing lambda" across `run_one`, opcode by opcode (1)

JMP JNT MOV MOVIMM PUSH PUSHIMM PUSHACC HALT RET, the shape of `Lemmas/ProcInvStepA.lean`. Each lemma: `PInv s0`, the
instruction at `s0` succeeds ⇒ `PInv` of the successor -- except MOVIMM, which concludes `TInv`: at a
`MOVIMM <Ptr(p)> %acc; CLOSURE` site the immediate may point to a capturing lambda, only `acc` changes and the
successor state is at the site (`atSiteB`).
-/
namespace Marwood.Lemmas.Taint
open Marwood.Lemmas.Good Marwood Marwood.Vm Marwood.Vm.Verify Marwood.Vm.Concrete Marwood.Lemmas.Sim
open Marwood.Heap (GcState)

theorem PInv.nx {s : St CHeap} (p : PInv s) : PInv (nx s) := ⟨p.hp, p.acc, p.stk⟩

theorem PInv.sm {s : St CHeap} (p : PInv s) : SM s.heap s.stack s.stack.sp := SM.of_stk p.stk

theorem TInv.sm {s : St CHeap} (p : TInv s) : SM s.heap s.stack s.stack.sp := SM.of_stk p.stk

/-- a state with the same heap: `acc` and the stack have to be re-established -/
theorem PInv.mk' {s s' : St CHeap} (p : PInv s) (hh : s'.heap = s.heap) (ha : neE s.heap s'.acc = true)
    {B : Nat} (hs : SM s.heap s'.stack B) : PInv s' :=
  ⟨by rw [hh]; exact p.hp, by rw [hh]; exact ha, by rw [hh]; exact hs.stk⟩

/-- a state with a later heap (`OpRes`) -/
theorem PInv.mkRes {s s' : St CHeap} (r : OpRes s.heap s'.heap) (ha : neE s'.heap s'.acc = true)
    {B : Nat} (hs : SM s.heap s'.stack B) : PInv s' :=
  ⟨r.hp, ha, (hs.heap r.eshr).stk⟩

section
variable {ext : ExtOps} {s : St CHeap}

/-- an immediate of PUSHIMM in the current code object -/
theorem imm_push_ne (p : PInv s) {l : CLambda} (hl : lambdaAt s.heap s.ipL = some l) {j : Nat} {v : VCell}
    (hop : l.bc[j]? = some (.opcode .pushImm)) (hv : l.bc[j + 1]? = some v) : neE s.heap v = true := by
  have := p.hp.cells s.ipL _ (lambdaAt_cell hl)
  exact immTF_push (E := capAt s.heap) this hop hv

/-- an immediate of MOVIMM in the current code object -/
theorem imm_mov_ne (p : PInv s) {l : CLambda} (hl : lambdaAt s.heap s.ipL = some l) {j : Nat} {v : VCell}
    (hop : l.bc[j]? = some (.opcode .movImm)) (hv : l.bc[j + 1]? = some v) :
    neE s.heap v = true ∨ siteB l.bc j = true := by
  have := p.hp.cells s.ipL _ (lambdaAt_cell hl)
  exact immTF_mov (E := capAt s.heap) this hop hv

/-- `load_operand`: what MOV / PUSH load does not point to a capturing lambda -/
theorem loadOperand_pv (p : PInv s) (live : BpLive s) {v : VCell} {s1 : St CHeap}
    (hr : loadOperand (concreteOps ext) s = .ok (v, s1)) : neE s.heap v = true ∧ s1 = { s with ipO := s.ipO + 1 } := by
  unfold loadOperand at hr
  obtain ⟨⟨c0, s2⟩, hro, hr⟩ := bind_ok hr
  obtain ⟨rfl, l, hl, hc0⟩ := readOperand_inv hro
  simp only at hr
  cases c0 with
  | acc => simp only at hr; cases hr; exact ⟨p.acc, rfl⟩
  | ptr q =>
    simp only [concreteOps] at hr
    cases hr
    refine ⟨?_, rfl⟩
    unfold getAt
    cases hc : s.heap.cells[q]? with
    | none => rfl
    | some c =>
      cases c with
      | val w => exact neE_of_valEB (p.hp.cells q _ hc)
      | _ => rfl
  | bpOffset off =>
    simp only at hr
    split at hr
    · rename_i hnn
      obtain ⟨w, hw, hr⟩ := bind_ok hr
      cases hr
      have hlive := live l off hl hc0
      exact ⟨p.sm.get hw (.inr (by omega)), rfl⟩
    · cases hr
  | globSlot n =>
    simp only [concreteOps] at hr
    cases hg : s.heap.globals[n]? with
    | none => rw [hg] at hr; simp at hr
    | some w =>
      rw [hg] at hr
      simp only [Option.getD_some] at hr
      have := p.hp.globals n w hg
      split at hr
      · cases hr
      · cases hr; exact ⟨this, rfl⟩
  | lexEnvSlot n =>
    simp only [concreteOps] at hr
    cases h1 : envGet s.heap s.ep n with
    | none => rw [h1] at hr; cases hr
    | some w =>
      rw [h1] at hr
      have k1 := envGet_ne p.hp h1
      by_cases hp : ∃ e k, w = .lexEnvPtr e k
      · obtain ⟨e, k, rfl⟩ := hp
        simp only at hr
        cases h2 : envGet s.heap e k with
        | none => rw [h2] at hr; cases hr
        | some w' =>
          rw [h2] at hr
          cases hr
          exact ⟨envGet_ne p.hp h2, rfl⟩
      · have : v = w ∧ s1 = { s with ipO := s.ipO + 1 } := by
          cases w <;> simp only at hr <;> first | (cases hr; exact ⟨rfl, rfl⟩) | (exact absurd ⟨_, _, rfl⟩ hp)
        obtain ⟨rfl, rfl⟩ := this
        exact ⟨k1, rfl⟩
  | _ => cases hr

/-- `store_operand` of a value through a destination that is not a `Ptr` -/
theorem storeOperand_pv (p : PInv s) (lf : LF s.heap)
    (hdst : ∀ l, lambdaAt s.heap s.ipL = some l → opndAll notPtr l.bc[s.ipO]? = true)
    {v : VCell} (hv : neE s.heap v = true) {s' : St CHeap} (hr : storeOperand (concreteOps ext) s v = .ok s') :
    PInv s' := by
  unfold storeOperand at hr
  obtain ⟨⟨c0, s2⟩, hro, hr⟩ := bind_ok hr
  obtain ⟨rfl, l, hl, hc0⟩ := readOperand_inv hro
  simp only at hr
  have hs := hdst l hl
  rw [hc0] at hs
  cases c0 with
  | acc => simp only at hr; cases hr; exact ⟨p.hp, hv, p.stk⟩
  | ptr q => simp [opndAll, notPtr] at hs
  | bpOffset off =>
    simp only at hr
    obtain ⟨st, hst, hr⟩ := bind_ok hr
    cases hr
    have hsm : SM s.heap st s.stack.sp := p.sm.setOffset hv hst
    exact p.mk' rfl p.acc hsm
  | globSlot n =>
    simp only [concreteOps] at hr
    cases hr
    exact PInv.mkRes (s := s) (globPut_res lf p.hp n hv) ((globPut_res lf p.hp n hv).neE p.acc) p.sm
  | lexEnvSlot n =>
    simp only [concreteOps] at hr
    cases h1 : envGet s.heap s.ep n with
    | none => rw [h1] at hr; cases hr
    | some w =>
      rw [h1] at hr
      by_cases hp : ∃ e k, w = .lexEnvPtr e k
      · obtain ⟨e, k, rfl⟩ := hp
        simp only at hr
        cases h2 : envPut s.heap e k v with
        | none => rw [h2] at hr; cases hr
        | some h' =>
          rw [h2] at hr
          cases hr
          have r := envPut_res lf p.hp hv h2
          exact PInv.mkRes (s := s) r (r.neE p.acc) p.sm
      · have : ∃ h', envPut s.heap s.ep n v = some h' ∧ s' = { s with ipO := s.ipO + 1, heap := h' } := by
          cases w <;> simp only at hr <;>
            first
            | (exact absurd ⟨_, _, rfl⟩ hp)
            | (cases h2 : envPut s.heap s.ep n v with
               | none => rw [h2] at hr; cases hr
               | some h' => rw [h2] at hr; cases hr; exact ⟨h', rfl, rfl⟩)
        obtain ⟨h', h2, rfl⟩ := this
        have r := envPut_res lf p.hp hv h2
        exact PInv.mkRes (s := s) r (r.neE p.acc) p.sm
  | _ => cases hr

/-- `store_operand` through `%acc` -/
theorem storeOperand_acc {l : CLambda} (hl : lambdaAt s.heap s.ipL = some l) (hd : l.bc[s.ipO]? = some .acc)
    {v : VCell} {s' : St CHeap} (hr : storeOperand (concreteOps ext) s v = .ok s') :
    s' = { s with ipO := s.ipO + 1, acc := v } := by
  unfold storeOperand at hr
  obtain ⟨⟨c0, s2⟩, hro, hr⟩ := bind_ok hr
  obtain ⟨rfl, l', hl', hc0⟩ := readOperand_inv hro
  rw [hl] at hl'
  cases hl'
  rw [hd] at hc0
  cases hc0
  simp only at hr
  cases hr
  rfl

end

/-! ## the instructions -/

section
variable {ext : ExtOps} {s0 : St CHeap}

theorem pv_jmp {s' : St CHeap} {b : Bool} (p : PInv s0) (hx : exec (concreteOps ext) .jmp (nx s0) = .ok (s', b)) :
    PInv s' := by
  unfold exec at hx
  obtain ⟨⟨v, s1⟩, h1, hx⟩ := bind_ok hx
  obtain ⟨rfl, _⟩ := readOperand_inv h1
  obtain ⟨o, _, hx⟩ := bind_ok hx
  cases hx
  exact ⟨p.hp, p.acc, p.stk⟩

theorem pv_jnt {s' : St CHeap} {b : Bool} (p : PInv s0) (hx : exec (concreteOps ext) .jnt (nx s0) = .ok (s', b)) :
    PInv s' := by
  unfold exec at hx
  obtain ⟨⟨v, s1⟩, h1, hx⟩ := bind_ok hx
  obtain ⟨rfl, _⟩ := readOperand_inv h1
  obtain ⟨o, _, hx⟩ := bind_ok hx
  simp only at hx
  split at hx <;> (cases hx; exact ⟨p.hp, p.acc, p.stk⟩)

theorem pv_mov {s' : St CHeap} {b : Bool} (g : GoodI s0) (lf : LF s0.heap) (sd : StackDisc s0) (p : PInv s0)
    (hop : opAt s0 .mov) (hx : exec (concreteOps ext) .mov (nx s0) = .ok (s', b)) : PInv s' := by
  unfold exec at hx
  obtain ⟨l, hl, hop⟩ := hop
  have lo := (g.hg.lam _ l (lambdaAt_cell hl)).mov s0.ipO hop
  obtain ⟨⟨v, s1⟩, h1, hx⟩ := bind_ok hx
  obtain ⟨hv, rfl⟩ := loadOperand_pv (ext := ext) p.nx sd.bpLive h1
  obtain ⟨s2, h2, hx⟩ := bind_ok hx
  cases hx
  have p1 : PInv (nx (nx s0)) := p.nx.nx
  exact storeOperand_pv (ext := ext) p1 lf
    (fun l' hl' => by have : l' = l := by rw [hl] at hl'; exact (Option.some.inj hl').symm
                      subst this; exact lo.2) hv h2

theorem pv_movImm {s' : St CHeap} {b : Bool} (g : GoodI s0) (lf : LF s0.heap) (p : PInv s0)
    (hop : opAt s0 .movImm) (hx : exec (concreteOps ext) .movImm (nx s0) = .ok (s', b)) : TInv s' := by
  unfold exec at hx
  obtain ⟨l, hl, hop⟩ := hop
  have lo := (g.hg.lam _ l (lambdaAt_cell hl)).movImm s0.ipO hop
  obtain ⟨⟨v, s1⟩, h1, hx⟩ := bind_ok hx
  obtain ⟨rfl, l', hl', hv⟩ := readOperand_inv h1
  have : l' = l := by rw [show lambdaAt (nx s0).heap (nx s0).ipL = lambdaAt s0.heap s0.ipL from rfl, hl] at hl'
                      exact (Option.some.inj hl').symm
  subst this
  have hv' : l'.bc[s0.ipO + 1]? = some v := hv
  obtain ⟨s2, h2, hx⟩ := bind_ok hx
  cases hx
  rcases imm_mov_ne p hl hop hv' with hne | hsite
  · have p1 : PInv (nx (nx s0)) := p.nx.nx
    exact (storeOperand_pv (ext := ext) p1 lf
      (fun l2 hl2 => by have : l2 = l' := by rw [hl] at hl2; exact (Option.some.inj hl2).symm
                        subst this; exact lo.2) hne h2).tinv
  · obtain ⟨_, k2, _⟩ := siteB_inv hsite
    have e := storeOperand_acc (ext := ext) (s := nx (nx s0)) (l := l') hl k2 h2
    subst e
    refine ⟨p.hp, .inr ?_, p.stk⟩
    exact atSiteB_intro (s := { nx (nx s0) with ipO := (nx (nx s0)).ipO + 1, acc := v }) (l := l') (j := s0.ipO) hl rfl
      hsite hv'

theorem pv_push {s' : St CHeap} {b : Bool} (sd : StackDisc s0) (p : PInv s0)
    (hx : exec (concreteOps ext) .push (nx s0) = .ok (s', b)) : PInv s' := by
  unfold exec at hx
  obtain ⟨⟨v, s1⟩, h1, hx⟩ := bind_ok hx
  cases hx
  obtain ⟨hv, rfl⟩ := loadOperand_pv (ext := ext) p.nx sd.bpLive h1
  exact p.mk' rfl p.acc (p.sm.push hv)

theorem pv_pushImm {s' : St CHeap} {b : Bool} (p : PInv s0) (hop : opAt s0 .pushImm)
    (hx : exec (concreteOps ext) .pushImm (nx s0) = .ok (s', b)) : PInv s' := by
  unfold exec at hx
  obtain ⟨l, hl, hop⟩ := hop
  obtain ⟨⟨v, s1⟩, h1, hx⟩ := bind_ok hx
  obtain ⟨rfl, l', hl', hv⟩ := readOperand_inv h1
  have : l' = l := by rw [show lambdaAt (nx s0).heap (nx s0).ipL = lambdaAt s0.heap s0.ipL from rfl, hl] at hl'
                      exact (Option.some.inj hl').symm
  subst this
  have hv' : l'.bc[s0.ipO + 1]? = some v := hv
  have hne : neE s0.heap v = true := imm_push_ne p hl hop hv'
  cases hx
  exact p.mk' rfl p.acc (p.sm.push hne)

theorem pv_pushAcc {s' : St CHeap} {b : Bool} (p : PInv s0)
    (hx : exec (concreteOps ext) .pushAcc (nx s0) = .ok (s', b)) : PInv s' := by
  unfold exec at hx
  cases hx
  exact p.mk' rfl p.acc (p.sm.push p.acc)

theorem pv_halt {s' : St CHeap} {b : Bool} (p : PInv s0)
    (hx : exec (concreteOps ext) .halt (nx s0) = .ok (s', b)) : PInv s' := by
  unfold exec at hx
  cases hx
  exact ⟨p.hp, p.acc, p.stk⟩

theorem pv_ret {s' : St CHeap} {b : Bool} (sd : StackDisc s0) (p : PInv s0) (hop : opAt s0 .ret)
    (hx : exec (concreteOps ext) .ret (nx s0) = .ok (s', b)) : PInv s' := by
  unfold exec at hx
  obtain ⟨s1, h1, hx⟩ := bind_ok hx
  cases hx
  obtain ⟨l, hl, hop⟩ := hop
  have hfl : s0.bp + 4 ≤ s0.stack.sp := sd.frameLive l hl (.inl hop)
  unfold stepRet at h1
  obtain ⟨n, _, h1⟩ := bind_ok h1
  obtain ⟨sp, hsp, h1⟩ := bind_ok h1
  obtain ⟨ep, _, h1⟩ := bind_ok h1
  obtain ⟨⟨l, o⟩, _, h1⟩ := bind_ok h1
  obtain ⟨bp, _, h1⟩ := bind_ok h1
  cases h1
  obtain ⟨_, e⟩ := usub_inv hsp
  have e' : sp = s0.bp - n := e
  refine p.mk' rfl p.acc (B := s0.stack.sp) (p.sm.resp rfl (.inl ?_))
  show sp ≤ s0.stack.sp
  omega

end

end Marwood.Lemmas.Taint
