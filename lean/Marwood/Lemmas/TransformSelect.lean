import Marwood.Lemmas.TransformMatchEll
import Marwood.Lemmas.TransformTryNew
/-!
# Rule selection: `transform` expands with the first rule R7RS matches (all pattern classes)
-/
namespace Marwood.Transform
open Marwood Marwood.Spec.Match

/-- the shape of pattern `try_new` lets through: `(keyword . body)` where every list of `body` is
    proper, vector-free, does not start with the ellipsis and contains it at most once -/
def wfPattern (es : Text) : Datum → Bool
  | .pair _ body => okS es true body && (match body with | .pair q _ => decide (q ≠ .sym es) | _ => true)
  | _ => false

/-- rule `i` is the one R7RS selects, up to the excluded class: it matches, and every earlier rule
    either does not match or meets `zeroRepTail` -/
def Selects (c : Ctx) (rules : List Rule) (u : Datum) : Prop :=
  ∃ i r, rules[i]? = some r ∧ (matchRule c r u).isSome = true ∧
    ∀ j : Nat, j < i → ∀ r', rules[j]? = some r' →
      matchRule c r' u = none ∨ zeroRepTailRule c r' u = true

theorem Selects.shift {c : Ctx} {r0 : Rule} {rules : List Rule} {u : Datum}
    (h0 : matchRule c r0 u = none ∨ zeroRepTailRule c r0 u = true) (h : Selects c rules u) :
    Selects c (r0 :: rules) u := by
  obtain ⟨i, r, hi, hm, hprev⟩ := h
  refine ⟨i + 1, r, by simpa using hi, hm, ?_⟩
  intro j hj r' hr'
  cases j with
  | zero => simp at hr'; subst hr'; exact h0
  | succ j => exact hprev j (by omega) r' (by simpa using hr')

theorem transformRules_selects (s : Setup) (f : Nat) (t : Transform) (u : Datum)
    (hte : t.ellipsis = s.ell) (htl : t.literals = s.lits) :
    ∀ (rules : List (Pattern × Datum)) (e : Datum),
      (∀ r ∈ rules, wfPattern s.es r.1.expr = true) →
      transformRules f t u rules = .ok e →
      Selects s.ctx (rules.map fun r => ⟨r.1.expr, r.2⟩) u := by
  intro rules
  induction rules with
  | nil => intro e _ h; simp [transformRules] at h
  | cons r rules ih =>
    intro e hr h
    obtain ⟨pat, tmpl⟩ := r
    have hwf := hr (pat, tmpl) (by simp)
    simp only at hwf
    cases hpe : pat.expr with
    | pair kw body =>
      rw [hpe] at hwf
      simp only [wfPattern, Bool.and_eq_true] at hwf
      obtain ⟨hbody, hhead⟩ := hwf
      have hhd : headNotEll s.ctx body = true := by
        cases body with
        | pair q R => simp only [decide_eq_true_eq] at hhead; simp [headNotEll, s.isEllD_eq, Setup.ell, hhead]
        | _ => rfl
      unfold transformRules at h
      simp only [hpe, cdrE] at h
      cases u with
      | pair ukw urest =>
        simp only [cdrE] at h
        rw [hte, htl] at h
        have hmr : matchRule s.ctx ⟨pat.expr, tmpl⟩ (.pair ukw urest) = specMatch s.ctx body urest := by
          simp [matchRule, hpe]
        have hgr : zeroRepTailRule s.ctx ⟨pat.expr, tmpl⟩ (.pair ukw urest) = zeroRepTail s.ctx body urest := by
          simp [zeroRepTailRule, hpe]
        cases hm : patternMatch s.ell s.lits f body urest [] with
        | ok r1 =>
          obtain ⟨b, B⟩ := r1
          have hv := (match_verdict_aux s f).1 body urest [] (b, B) hbody hhd hm
          rw [hm] at h
          cases b with
          | true =>
            refine ⟨0, ⟨pat.expr, tmpl⟩, by simp, ?_, by intro j hj; omega⟩
            rw [hmr]; exact hv.1 rfl
          | false =>
            simp only at h
            have := ih e (fun r hr' => hr r (List.mem_cons_of_mem _ hr')) h
            simp only [List.map_cons]
            refine Selects.shift ?_ this
            rw [hmr, hgr]
            rcases hv.2 rfl with h2 | h2
            · left; simpa [sm] using h2
            · right; exact h2
        | err x => rw [hm] at h; cases h
        | panic m => rw [hm] at h; cases h
        | fuel => rw [hm] at h; cases h
      | _ => simp [cdrE] at h
    | _ => rw [hpe] at hwf; simp [wfPattern] at hwf

end Marwood.Transform
