import Marwood.Lemmas.ConcreteLawsVal
import Marwood.Lemmas.ConcreteLawsBpLive
import Marwood.Lemmas.GoodMain
/-!
# The stack discipline of the heap-simulation theorems from WF-stack

`StackDisc s` (Lemmas/GoodDefs.lean) is what `good_step` / `safe_of_good` assume of every state along a run:
bp-relative reads at or below `sp`, a complete frame at RET / TCALL, and the four **value-read** clauses (the
cells MOV `bp[off]`, CONS, CALL / TCALL and ENTER / VARARG consume as values hold values, not frame-header
cells). `stackDisc_of_wfs`: all six clauses follow from WF-stack over the value-typed verifier
(`WFS (concreteLawsV ext ecl) s K`).

Then the run-level bridge: on a state satisfying the heap-simulation invariant `GoodI` and `CalleeOk`, a
successful instruction of the real concrete machine (`concreteOps ext`) is the same instruction of the
guarded machine `vops ext` (`step_vops`); hence `GoodI ∧ WFS` is an invariant of the REAL machine
(`vmOk_reaches`) as long as the reached states are `CalleeOk`, and `StackDiscAlong` is discharged
(`stackDiscAlong_of_wfs`).
-/
namespace Marwood.Lemmas.Good
open Marwood Marwood.Vm Marwood.Vm.Verify Marwood.Vm.Concrete Marwood.Lemmas.Sim

variable {ext : ExtOps} {ecl : ExtCodeLawsV ext}

/-- the code object `ip.0` points to, its typing, and the verifier's local check at `ip.1` -/
theorem atInstr_of_wfs {s : St CHeap} {K : List FDesc} (hw : WFS (concreteLawsV ext ecl) s K) {l : CLambda}
    (hl : lambdaAt s.heap s.ipL = some l) {op : Op} (hop : l.bc[s.ipO]? = some (.opcode op)) :
    ∃ t st, AtInstr (concreteLawsV ext ecl) s K t st op ∧ t.bc = l.bc := by
  obtain ⟨t, st, ht, hst⟩ := hw.wf.frames.has_ty
  obtain ⟨hcode, hchk⟩ := tyOf_spec ht
  have hfetch := (concreteLawsV ext ecl).fetch_code hw.inv hcode
  obtain ⟨lam, hcell, hbc⟩ := codeC_some hcode
  have : lam = l := by
    have := lambdaAt_iff.mpr hcell
    rw [hl] at this
    exact (Option.some.inj this).symm
  subst this
  have hf : t.bc[s.ipO]? = some (.opcode op) := by rw [← hbc]; exact hop
  exact ⟨t, st, ⟨hw, ht, hst, check_of_fetch hchk hf hst, hfetch, src_of_fetch hchk hf hst⟩, hbc.symm⟩

theorem cellAt_of_get {st : Stack} {i : Nat} {v : VCell} (h : st.cells[i]? = some v) : st.cellAt i = v := by
  unfold Stack.cellAt; rw [h]; rfl

/-- **`StackDisc` from WF-stack** (all six clauses) -/
theorem stackDisc_of_wfs {s : St CHeap} {K : List FDesc} (hw : WFS (concreteLawsV ext ecl) s K) : StackDisc s where
  bpLive := by
    intro l off hl hb
    simp only at hl hb
    have hf : (vops ext).fetch s.heap s.ipL (s.ipO + 1) = some (.bpOffset off) := by
      show (match lambdaAt s.heap s.ipL with | some lam => lam.bc[s.ipO + 1]? | none => none) = _
      rw [hl]; exact hb
    obtain ⟨_, h2, h3⟩ := bpLive_operand_of_wfs hw hf
    show (s.bp : Int) + off ≤ s.stack.sp
    omega
  frameLive := by
    intro l hl hor
    show s.bp + 4 ≤ s.stack.sp
    rcases hor with hop | hop
    · obtain ⟨t, st, ai, _⟩ := atInstr_of_wfs hw hl hop
      have chk := ai.chk
      cases st <;> simp only [checkOp] at chk <;> try (exact absurd chk Bool.false_ne_true)
      have hent : t.entry = false := by simpa using chk
      obtain ⟨n, ep', l', o', bp', K', hm, _⟩ := hw.wf.frames.inv_frame ai.ht hent ai.hst (by simp)
      exact hm.lo_le
    · obtain ⟨t, st, ai, _⟩ := atInstr_of_wfs hw hl hop
      have chk := ai.chk
      cases st <;> simp only [checkOp, Bool.and_eq_true] at chk <;> try (exact absurd chk Bool.false_ne_true)
      have hent : t.entry = false := by simpa using chk.1
      obtain ⟨n, ep', l', o', bp', K', hm, _⟩ := hw.wf.frames.inv_frame ai.ht hent ai.hst (by simp)
      exact hm.lo_le
  src := by
    intro l off v hl hop hb h0 hv
    obtain ⟨t, st, ai, hbc⟩ := atInstr_of_wfs hw hl hop
    have chk := ai.chk
    cases st <;> simp only [checkOp] at chk <;> try (exact absurd chk Bool.false_ne_true)
    have := ai.bp_val (off := off) (by rw [hbc]; exact hb) h0
    rw [cellAt_of_get hv] at this
    exact this
  cons := by
    rintro ⟨l, hl, hop⟩ i v hi1 hi2 hv
    obtain ⟨t, st, ai, hbc⟩ := atInstr_of_wfs hw hl hop
    have chk := ai.chk
    cases st <;> simp only [checkOp] at chk <;> try (exact absurd chk Bool.false_ne_true)
    rename_i x
    rcases x with _ | ⟨c1, _ | ⟨c2, x⟩⟩ <;> simp only [Bool.and_eq_true] at chk <;>
      try (exact absurd chk Bool.false_ne_true)
    obtain ⟨⟨k1, k2⟩, _⟩ := chk
    obtain ⟨lo, hm, _, _, _⟩ := hw.wf.frames.inv_body ai.ht ai.hst (by simp)
    obtain ⟨m1, m2, m3, m4, _⟩ := hm
    rw [← cellAt_of_get hv]
    by_cases hi : i = s.stack.sp
    · rw [hi]; exact m2.val_of_isV k1
    · have : i = s.stack.sp - 1 := by omega
      rw [this]; exact m4.val_of_isV k2
  call := by
    intro hor n hA i v hi1 hi2 hv
    have key : ∀ (t : LamTy) (st : AState) (op : Op), AtInstr (concreteLawsV ext ecl) s K t st op →
        (∃ a, st = .call a) → plainGlob v = true := by
      intro t st op ai ⟨a, ha⟩
      subst ha
      have := ai.call_vals (cellAt_of_get hA) i (by
        obtain ⟨m, b1, b2, _⟩ := ai.call_block
        rw [cellAt_of_get hA] at b1; cases b1
        omega) hi1
      rw [cellAt_of_get hv] at this
      exact this
    rcases hor with ⟨l, hl, hop⟩ | ⟨l, hl, hop⟩
    · obtain ⟨t, st, ai, _⟩ := atInstr_of_wfs hw hl hop
      have chk := ai.chk
      cases st <;> simp only [checkOp] at chk <;> try (exact absurd chk Bool.false_ne_true)
      exact key _ _ _ ai ⟨_, rfl⟩
    · obtain ⟨t, st, ai, _⟩ := atInstr_of_wfs hw hl hop
      have chk := ai.chk
      cases st <;> simp only [checkOp] at chk <;> try (exact absurd chk Bool.false_ne_true)
      exact key _ _ _ ai ⟨_, rfl⟩
  enter := by
    intro hor n hA i v hi1 hi2 hv
    have key : ∀ (t : LamTy) (st : AState) (op : Op), AtInstr (concreteLawsV ext ecl) s K t st op →
        st = .pre → plainGlob v = true := by
      intro t st op ai ha
      subst ha
      obtain ⟨n2, l2, o2, hA2, _, hn, hav, _⟩ := hw.wf.frames.inv_pre_args ai.ht ai.hst
      rw [cellAt_of_get hA] at hA2; cases hA2
      have := hav i (by omega) (by omega)
      rw [cellAt_of_get hv] at this
      exact this
    rcases hor with ⟨l, hl, hop⟩ | ⟨l, hl, hop⟩
    · obtain ⟨t, st, ai, _⟩ := atInstr_of_wfs hw hl hop
      have chk := ai.chk
      cases st <;> simp only [checkOp] at chk <;> try (exact absurd chk Bool.false_ne_true)
      exact key _ _ _ ai rfl
    · obtain ⟨t, st, ai, _⟩ := atInstr_of_wfs hw hl hop
      have chk := ai.chk
      cases st <;> simp only [checkOp] at chk <;> try (exact absurd chk Bool.false_ne_true)
      exact key _ _ _ ai rfl

/-! ## the guards of `vops` are invisible on the states of a real run -/

/-- `step` consults `callee` only when the instruction is CALL / TCALL / ENTER -/
theorem step_wc_site (ops : HeapOps CHeap) (c : CHeap → VCell → Callee) (s : St CHeap)
    (h : ∀ op s1, readOpcode ops s = .ok (op, s1) → (op = .callAcc ∨ op = .tcallAcc ∨ op = .enter) →
      c s.heap s.acc = ops.callee s.heap s.acc) : step (ops.withCallee c) s = step ops s := by
  unfold step
  have hr : readOpcode (ops.withCallee c) s = readOpcode ops s := rfl
  rw [hr]
  cases hro : readOpcode ops s with
  | err e => rfl
  | panic m => rfl
  | ok r =>
    obtain ⟨op, s1⟩ := r
    have e1 := (readOpcode_ok hro).2
    have h1 : (op = .callAcc ∨ op = .tcallAcc ∨ op = .enter) → c s1.heap s1.acc = ops.callee s1.heap s1.acc := by
      intro hop; subst e1; exact h op _ hro hop
    cases op <;> dsimp only [Bind.bind]
    all_goals first
      | rfl
      | (rw [stepCall_wc ops c s1 (h1 (by simp))])
      | (rw [stepTCall_wc ops c s1 (h1 (by simp))])
      | (rw [stepEnter_wc ops c s1 (h1 (by simp))])
      | (rw [stepVarArg_wc ops c s1])

/-- the current instruction is one that dispatches on the callee in `acc` -/
def CalleeSite (s : St CHeap) : Prop := opAt s .callAcc ∨ opAt s .tcallAcc ∨ opAt s .enter

/-- the callee guard is invisible when it passes at the call sites -/
theorem step_gops_site (ext : ExtOps) {s : St CHeap} (h : CalleeSite s → CalleeOk s) :
    step (gops ext) s = step (concreteOps ext) s := by
  rw [gops_eq]
  refine step_wc_site _ _ s ?_
  intro op s1 hro hop
  obtain ⟨_, hat⟩ := readOpcode_inv hro
  refine h ?_
  rcases hop with rfl | rfl | rfl
  · exact .inl hat
  · exact .inr (.inl hat)
  · exact .inr (.inr hat)

theorem vglobGet_eq {h : CHeap} (pl : Plain h) (n : Nat) : vglobGet h n = h.globals[n]?.getD .undefined := by
  unfold vglobGet
  have : plainGlob (h.globals[n]?.getD .undefined) = true := by
    cases hg : h.globals[n]? with
    | none => rfl
    | some w =>
      simp only [Option.getD_some]
      exact pl.globals w (by simpa using List.mem_of_getElem? (l := h.globals.toList) (by simpa using hg))
  rw [this]; rfl

theorem venvGet_eq {h : CHeap} (eo : EnvOk h) (e k : Nat) : venvGet h e k = envGet h e k := by
  unfold venvGet
  cases hg : envGet h e k with
  | none => rfl
  | some v =>
    have hs : slotOkB h v = true := by
      unfold envGet at hg
      cases he : envAt h e with
      | none => rw [he] at hg; cases hg
      | some ss =>
        rw [he] at hg
        have hso := eo e ss (envAt_cell he) v (List.mem_of_getElem? hg)
        unfold slotOkB
        rcases hso with hp | ⟨e', k', ss', w, rfl, hc, hk, hw⟩
        · rw [hp]; rfl
        · have : envGet h e' k' = some w := by
            unfold envGet envAt; rw [hc]; exact hk
          simp [this, hw]
    simp [hs]

/-- **The guards are invisible**: on a state satisfying the heap-simulation invariant whose callee passes the
    callee guard, a successful instruction of the real concrete machine is the same instruction of `vops ext`.
    (`sm`: the physical size bound of the successor heap, needed by `ExtGood.vpush`.) -/
theorem step_vops (eg : ExtGood ext) {s : St CHeap} (g : GoodI s) (hc : CalleeSite s → CalleeOk s)
    {r : St CHeap × Bool}
    (hs : step (concreteOps ext) s = .ok r) (sm : Small r.1.heap) : step (vops ext) s = .ok r := by
  have hs' : step (gops ext) s = .ok r := by rw [step_gops_site ext hc]; exact hs
  refine step_wr (gops ext) vglobGet venvGet (vvectorPush ext) s ?_ ?_ ?_ hs'
  · intro n; exact vglobGet_eq g.hg.plain n
  · intro a k; exact venvGet_eq g.hg.env a k
  · intro s1 d st1 h' hro hp hvp
    have hvp' : ext.vectorPush s.heap (deref s.heap d) s.acc = .ok h' := hvp
    -- the successor state is `r`
    have hr : r.1.heap = h' := by
      have e1 := (readOpcode_ok hro).2
      unfold step at hs'
      rw [hro] at hs'
      subst e1
      simp only [outcome_bind_ok] at hs'
      have hp' : (Stack.pop s.stack) = .ok (d, st1) := hp
      simp only [hp', outcome_bind_ok] at hs'
      have hvp2 : (gops ext).vectorPush s.heap ((gops ext).deref s.heap d) s.acc = .ok h' := hvp
      simp only [hvp2, outcome_bind_ok] at hs'
      cases hs'
      rfl
    have p1 := pop_ok hp
    have hcell : s.stack.cells[s.stack.sp]? = some d := by
      unfold Stack.pop at hp
      split at hp
      · split at hp
        · rename_i v hv; cases hp; exact hv
        · cases hp
      · cases hp
    have hv : VRefsOk s.heap d := roots_stack g.roots (Nat.le_refl _) hcell
    have key := eg.vpush s.heap (deref s.heap d) s.acc h' g.hg (StepB.deref_refs g.hg hv) g.accOk hvp' (by rw [← hr]; exact sm)
    show vvectorPush ext s.heap (deref s.heap d) s.acc = .ok h'
    unfold vvectorPush
    rw [key.2.2]
    exact hvp'

/-! ## `GoodI ∧ WFS` along the runs of the real machine -/

/-- **the one hypothesis along the run that remains**: the callee guard passes at every reachable CALL / TCALL /
    ENTER site — what the instruction finds in `acc`, when it is a closure or a bare lambda, designates a lambda
    cell holding *procedure* code (`[VARARG] ENTER … RET`), not the entry lambda of an evaluation. Checked at
    every executed call site by the oracle `callee-ok` of the `bytecode-verifier` stream. It is a reachability
    fact — CLOSURE only ever builds closures over `compile_lambda` output, and no first-class value refers to an
    entry lambda — not a consequence of WF-stack or of "every lambda cell verifies" (an entry lambda is a
    verified lambda cell too): making it an invariant needs "every closure cell's lambda is procedure code" and
    "no value points to entry code" as clauses of the heap invariant, preserved by the unmodelled builtins
    (a further clause of `ExtGood`) and by the compiler (`CompGood`). -/
def CalleeOkAlong (m : Machine (St CHeap) Fault) (s0 : St CHeap) : Prop :=
  ∀ s', Reaches m s0 s' → CalleeSite s' → CalleeOk s'

/-- a state HALT left: `ip.1` is past the last cell of the code object (the verifier demands HALT last) -/
def HaltedAt (s : St CHeap) : Prop :=
  CInvG IsValue s.heap ∧ ∃ bc, codeC s.heap s.ipL = some bc ∧ bc.length ≤ s.ipO

/-- **the bundled invariant of the real concrete machine**: the heap-simulation invariant `GoodI`, and
    WF-stack over the value-typed verifier (or: the machine has halted) -/
def VmOk (ext : ExtOps) (ecl : ExtCodeLawsV ext) (s : St CHeap) : Prop :=
  GoodI s ∧ ((∃ K, WFS (concreteLawsV ext ecl) s K) ∨ HaltedAt s)

theorem haltedAt_no_step {s : St CHeap} (h : HaltedAt s) (r : St CHeap × Bool) : step (concreteOps ext) s ≠ .ok r := by
  intro hs
  obtain ⟨_, bc, hc, hl⟩ := h
  obtain ⟨lam, hcell, hbc⟩ := codeC_some hc
  unfold step at hs
  obtain ⟨⟨op, s1⟩, hr, _⟩ := bind_inv hs
  obtain ⟨hf, _⟩ := readOpcode_ok hr
  have : (concreteOps ext).fetch s.heap s.ipL s.ipO = lam.bc[s.ipO]? := by
    show (match lambdaAt s.heap s.ipL with | some lam => lam.bc[s.ipO]? | none => none) = _
    rw [lambdaAt_iff.mpr hcell]
  rw [this, hbc, List.getElem?_eq_none hl] at hf
  cases hf

theorem stackDisc_of_halted {s : St CHeap} (h : HaltedAt s) : StackDisc s := by
  obtain ⟨_, bc, hc, hl⟩ := h
  obtain ⟨lam, hcell, hbc⟩ := codeC_some hc
  have hnone : ∀ l k, lambdaAt s.heap s.ipL = some l → s.ipO ≤ k → l.bc[k]? = none := by
    intro l k hl' hk
    have := lambdaAt_iff.mpr hcell
    rw [hl'] at this
    cases this
    rw [hbc]
    exact List.getElem?_eq_none (by omega)
  refine ⟨?_, ?_, ?_, ?_, ?_, ?_⟩
  · intro l off hl' hb
    simp only at hl' hb
    rw [hnone l _ hl' (by omega)] at hb; cases hb
  · intro l hl' hor
    rw [hnone l _ hl' (Nat.le_refl _)] at hor
    rcases hor with h | h <;> cases h
  · intro l off v hl' hop
    rw [hnone l _ hl' (Nat.le_refl _)] at hop; cases hop
  · rintro ⟨l, hl', hop⟩
    rw [hnone l _ hl' (Nat.le_refl _)] at hop; cases hop
  · rintro (⟨l, hl', hop⟩ | ⟨l, hl', hop⟩) <;> (rw [hnone l _ hl' (Nat.le_refl _)] at hop; cases hop)
  · rintro (⟨l, hl', hop⟩ | ⟨l, hl', hop⟩) <;> (rw [hnone l _ hl' (Nat.le_refl _)] at hop; cases hop)

theorem VmOk.stackDisc {s : St CHeap} (h : VmOk ext ecl s) : StackDisc s := by
  rcases h.2 with ⟨K, hw⟩ | hh
  · exact stackDisc_of_wfs hw
  · exact stackDisc_of_halted hh

/-- one successful instruction of the real machine preserves the bundled invariant -/
theorem vmOk_step (el : ExtLaws ext) (eg : ExtGood ext) {s s' : St CHeap} {b : Bool} (h : VmOk ext ecl s)
    (hc : CalleeSite s → CalleeOk s) (sm : Small s.heap) (hs : step (concreteOps ext) s = .ok (s', b)) (sm' : Small s'.heap) :
    VmOk ext ecl s' := by
  have g' : GoodI s' := good_step el eg h.1 sm h.stackDisc hs sm'
  rcases h.2 with ⟨K, hw⟩ | hh
  · have hv := step_vops (ext := ext) eg h.1 hc hs sm'
    cases b with
    | false =>
      obtain ⟨K', hw', _⟩ := step_preserves hw hv
      exact ⟨g', .inl ⟨K', hw'⟩⟩
    | true =>
      refine ⟨g', .inr ?_⟩
      obtain ⟨s1, hr⟩ := step_true_is_halt hv
      obtain ⟨t, st, ai, e1⟩ := hw.instr hr
      have hlast := halt_last ai
      have e2 : s' = { s with ipO := s.ipO + 1 } := by
        unfold step at hv
        rw [hr] at hv
        simp only [outcome_bind_ok] at hv
        cases hv
        exact e1
      subst e2
      exact ⟨hw.inv, t.bc, (tyOf_spec ai.ht).1, by show t.bc.length ≤ s.ipO + 1; omega⟩
  · exact absurd hs (haltedAt_no_step hh _)

theorem vmOk_gc (force : Bool) {s : St CHeap} (h : VmOk ext ecl s) (sm' : Small (cgc force s).heap) :
    VmOk ext ecl (cgc force s) := by
  refine ⟨good_gc force h.1 sm', ?_⟩
  rcases h.2 with ⟨K, hw⟩ | ⟨hi, bc, hc, hl⟩
  · exact .inl ⟨K, hw.gc (cgc_gcLawsV ext ecl force)⟩
  · right
    obtain ⟨_, _, _, _, g5, g6⟩ := cgc_regs force s
    refine ⟨cgc_inv force s hi, bc, ?_, by rw [g6]; exact hl⟩
    rw [g5]
    exact cgc_roots force s s.ipL bc hi hc (.inl rfl)

/-- **`GoodI ∧ WFS` is an invariant of the REAL concrete machine** (`machine ext force`: `run_one` over
    `concreteOps ext`, `run_gc` = `cgc force`) -/
theorem vmOk_reaches (force : Bool) (el : ExtLaws ext) (eg : ExtGood ext) {s0 : St CHeap}
    (h0 : VmOk ext ecl s0) (sb : SizeBounded (machine ext force) s0)
    (ca : CalleeOkAlong (machine ext force) s0) :
    ∀ s', Reaches (machine ext force) s0 s' → VmOk ext ecl s' := by
  intro s' hr
  induction hr with
  | refl => exact h0
  | @next s1 s2 hr1 e ih =>
    have e' : vmStep (concreteOps ext) s1 = .next s2 := e
    unfold vmStep at e'
    cases hst : step (concreteOps ext) s1 with
    | ok r =>
      obtain ⟨s3, b⟩ := r
      rw [hst] at e'
      cases b <;> simp only at e'
      · cases e'
        exact vmOk_step el eg ih (ca _ hr1) (sb _ hr1) hst (sb _ (.next hr1 e))
      · cases e'
    | err x => rw [hst] at e'; cases e'
    | panic x => rw [hst] at e'; cases e'
  | @halt s1 s2 hr1 e ih =>
    have e' : vmStep (concreteOps ext) s1 = .halt s2 := e
    unfold vmStep at e'
    cases hst : step (concreteOps ext) s1 with
    | ok r =>
      obtain ⟨s3, b⟩ := r
      rw [hst] at e'
      cases b <;> simp only at e'
      · cases e'
      · cases e'
        exact vmOk_step el eg ih (ca _ hr1) (sb _ hr1) hst (sb _ (.halt hr1 e))
    | err x => rw [hst] at e'; cases e'
    | panic x => rw [hst] at e'; cases e'
  | @gc s1 hr1 ih =>
    exact vmOk_gc force ih (sb _ (.gc hr1))

/-- WF-stack is an invariant of the real machine (until HALT) -/
theorem wfs_reaches (force : Bool) (el : ExtLaws ext) (eg : ExtGood ext) {s0 : St CHeap}
    (h0 : VmOk ext ecl s0) (sb : SizeBounded (machine ext force) s0)
    (ca : CalleeOkAlong (machine ext force) s0) {s : St CHeap} (hr : Reaches (machine ext force) s0 s) :
    (∃ K, WFS (concreteLawsV ext ecl) s K) ∨ HaltedAt s :=
  (vmOk_reaches force el eg h0 sb ca s hr).2

/-- **`StackDiscAlong` discharged**: from the bundled invariant of the INITIAL state -/
theorem stackDiscAlong_of_wfs (force : Bool) (el : ExtLaws ext) (eg : ExtGood ext) {s0 : St CHeap}
    (h0 : VmOk ext ecl s0) (sb : SizeBounded (machine ext force) s0)
    (ca : CalleeOkAlong (machine ext force) s0) : StackDiscAlong (machine ext force) s0 :=
  fun s' hr => (vmOk_reaches force el eg h0 sb ca s' hr).stackDisc

/-- **`Safe` from the bundled invariant of the initial state** (no `StackDiscAlong`) -/
theorem safe_of_vmOk (force : Bool) (el : ExtLaws ext) (eg : ExtGood ext) {s0 : St CHeap}
    (h0 : VmOk ext ecl s0) (sb : SizeBounded (machine ext force) s0)
    (ca : CalleeOkAlong (machine ext force) s0) : Safe (machine ext force) s0 :=
  safe_of_good force el eg h0.1 sb (stackDiscAlong_of_wfs force el eg h0 sb ca)

end Marwood.Lemmas.Good
