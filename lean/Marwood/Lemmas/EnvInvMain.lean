import Marwood.Lemmas.EnvInvStep
/-!
# The slot clause of T06.6 is an invariant: `EnvInv`, `envSlots_of_envInv`, T06.6 without `EnvSlots`

`EnvInv s = TInv s ∧ FInv s` ("no value leads to a capturing lambda"; "environments fit the code they belong to":
`Lemmas/EnvTaint*.lean`, `Lemmas/EnvFit*.lean`; executable form `Vm/EnvInvCheck.lean: stateEnvB`).

* `envInv_step`, `envInv_gc`, `envInv_onDone`, `envInv_onError`, `envInv_prepare` — it is preserved by all 16 opcodes of
  `run_one` over `concreteOps ext`, by the collector, by the epilogues and by `prepare_eval`, under one more law for the
  unmodelled operations (`ExtEnvInv ext`; `CompEnvInv` for the compiler inside `prepare_eval`).
* `envSlots_of_envInv` — in a state satisfying the bundled invariant, `EnvInv s` implies the slot clause `EnvSlots s`
  of the instruction under `ip`: at ENTER the closure cell in `acc` fits; at CLOSURE `acc` either points to a lambda
  that captures nothing, or it is the immediate the preceding `MOVIMM … %acc` loaded, a child of the running code
  object, whose `IofEnvironment` indices are below the length of the running code's map, which the current environment
  covers.
* `envInv_reaches`, `envSlotsAlong_of_envInv`, and the `…_closed` forms of the T06.6 theorems: no hypothesis along the
  run is left.
-/
namespace Marwood.Lemmas.Good
open Marwood Marwood.Vm Marwood.Vm.Verify Marwood.Vm.Concrete Marwood.Lemmas.Sim
open Marwood.Heap (GcState)

/-- **the slot clause as an invariant** -/
structure EnvInv (s : St CHeap) : Prop where
  taint : Taint.TInv s
  fit : FInv s

/-- what `EnvInv` needs from the unmodelled operations (builtins, `eval`'s compiler, VPUSH): a parameter, not an axiom -/
structure ExtEnvInv (ext : ExtOps) : Prop where
  taint : Taint.ExtTaint ext
  fit : ExtFit ext

/-- the same for the compiler inside `prepare_eval` -/
structure CompEnvInv (comp : CHeap → VCell → Outcome (CHeap × VCell)) : Prop where
  taint : Taint.CompTaint comp
  fit : CompFit comp

/-- the executable check implies the invariant -/
theorem stateEnvB_sound {s : St CHeap} (hb : stateEnvB s = true) : EnvInv s := by
  unfold stateEnvB at hb
  simp only [Bool.and_eq_true] at hb
  exact ⟨Taint.stateTB_sound hb.1, stateFB_sound hb.2⟩

/-- a prologue offset holds ENTER or VARARG -/
theorem inPre_instr {h : CHeap} {l o : Nat} (hp : InPre h l o) {lam : CLambda} (hl : lambdaAt h l = some lam) {op : Op}
    (hop : lam.bc[o]? = some (.opcode op)) : op = .enter ∨ op = .varArg := by
  obtain ⟨lam', t, h1, h2, _, h4⟩ := hp
  rw [hl] at h1; cases h1
  obtain ⟨hbc, hchk⟩ := verifyLam_spec h2
  rw [← hbc] at hop
  have := check_of_fetch hchk hop h4
  cases op <;> simp [checkOp] at this <;> simp

section
variable {ext : ExtOps} {ecl : ExtCodeLawsV ext}

/-! ## preservation -/

theorem envInv_step (eg : ExtGood ext) (ee : ExtEnvInv ext) {s s' : St CHeap} {b : Bool} (h : VmOkP ext ecl s)
    (e : EnvInv s) (hs : step (concreteOps ext) s = .ok (s', b)) (sm' : Small s'.heap) : EnvInv s' :=
  ⟨Taint.tinv_step ee.taint ecl h.1.1 h.1.cinv h.1.stackDisc e.taint hs, finv_step eg ee.fit h e.taint e.fit hs sm'⟩

theorem envInv_gc (force : Bool) {s : St CHeap} (h : VmOkP ext ecl s) (e : EnvInv s) : EnvInv (cgc force s) :=
  ⟨Taint.tinv_gc force h.1.1 h.1.cinv e.taint, finv_gc force h.1.1 h.1.cinv e.fit⟩

theorem envInv_onDone {s : St CHeap} (e : EnvInv s) : EnvInv (onDone s) :=
  ⟨Taint.onDone_tinv e.taint, finv_onDone e.fit⟩

theorem envInv_onError {s : St CHeap} (g : HG s.heap) (e : EnvInv s) : EnvInv (onError s) :=
  ⟨Taint.onError_tinv e.taint, finv_onError g e.fit⟩

theorem envInv_prepare {comp : CHeap → VCell → Outcome (CHeap × VCell)} (ce : CompEnvInv comp) {s s' : St CHeap}
    {d : VCell} (g : HG s.heap) (g' : HG s'.heap) (e : EnvInv s) (hacc : s.acc = .undefined)
    (hst : ∀ c ∈ s.stack.cells, c = VCell.undefined) (hd : addrFree d = true)
    (hp : prepareEval comp s d = .ok s') : EnvInv s' :=
  ⟨Taint.prepare_tinv ce.taint e.taint hacc hst hd hp, finv_prepare ce.fit g g' e.fit hst hd hp⟩

/-! ## the slot clause -/

/-- **`EnvSlots` from the invariant** -/
theorem envSlots_of_envInv {s : St CHeap} (h : VmOkP ext ecl s) (e : EnvInv s) : EnvSlots s := by
  have g : GoodI s := h.1.1
  refine ⟨?_, ?_⟩
  · intro l p lam' ss hl hop hacc hlam hss x hx k hk
    rcases e.taint.acc_cases with hne | hsite
    · -- `acc` points to a lambda that captures nothing
      rw [hacc] at hne
      simp only [Taint.neE_ptr, Bool.not_eq_true'] at hne
      have := Taint.capAt_false_iff.mp hne lam' hlam
      rw [this] at hx; cases hx
    · -- `acc` is the child the preceding MOVIMM loaded
      obtain ⟨l0, j, h1, h2, h3, h4, h5, h6⟩ := Taint.atSiteB_inv hsite
      rw [hl] at h1; cases h1
      have hsite' : siteB l.bc j = true := by
        unfold siteB
        simp only [Bool.and_eq_true, beq_iff_eq]
        exact ⟨⟨h3, h5⟩, h6⟩
      have hcf := (e.fit.hf s.ipL _ (lambdaAt_iff.mp hl)).1 j s.acc hsite' h4
      have hk' : k < l.envmap.length := hcf p lam' hacc hlam x hx k hk
      have hnp : ¬ InPre s.heap s.ipL s.ipO := by
        intro hp
        rcases inPre_instr hp hl hop with h' | h' <;> cases h'
      have := e.fit.fit hnp l ss hl hss
      omega
  · intro l lam env l' ss hl hop hc hlam hss
    -- the closure cell in `acc` fits
    have hcell : ∃ a, s.acc = .ptr a ∧ s.heap.cells[a]? = some (.val (.closure lam env)) := by
      unfold callee at hc
      cases hacc : s.acc with
      | ptr a =>
        rw [hacc] at hc
        simp only at hc
        cases hcc : s.heap.cells[a]? with
        | none => rw [hcc] at hc; cases hc
        | some c =>
          rw [hcc] at hc
          cases c with
          | val w =>
            cases w <;> simp only [calleeOfCell] at hc <;> cases hc
            exact ⟨a, rfl, hcc⟩
          | lambda _ => simp [calleeOfCell] at hc
          | cont _ => simp [calleeOfCell] at hc
          | lexEnv _ => simp [calleeOfCell] at hc
          | vector _ => simp [calleeOfCell] at hc
      | closure l2 e2 =>
        have := g.accv
        rw [hacc] at this
        simp [plainGlob, isPtr, addrFree] at this
      | builtin _ => rw [hacc] at hc; cases hc
      | _ => rw [hacc] at hc; cases hc
    obtain ⟨a, _, hca⟩ := hcell
    exact e.fit.hf a _ hca lam env rfl l' ss hlam hss

/-! ## along runs -/

theorem envInv_reaches (force : Bool) (el : ExtLaws ext) (eg : ExtGood ext) (ep : ExtProc ext) (en : ExtNoPanic ext)
    (ee : ExtEnvInv ext) {s0 : St CHeap} (h0 : VmOkNP ext ecl s0) (e0 : EnvInv s0)
    (sb : SizeBounded (machine ext force) s0) : ∀ s', Reaches (machine ext force) s0 s' → EnvInv s' := by
  intro s' hr
  induction hr with
  | refl => exact e0
  | @next s1 s2 hr1 e ih =>
    have hv := (vmOkNP_reaches force el eg ep en h0 sb s1 hr1).1
    have e' : vmStep (concreteOps ext) s1 = .next s2 := e
    unfold vmStep at e'
    cases hst : step (concreteOps ext) s1 with
    | ok r =>
      obtain ⟨s3, b⟩ := r
      rw [hst] at e'
      cases b <;> simp only at e'
      · cases e'; exact envInv_step eg ee hv ih hst (sb _ (.next hr1 e))
      · cases e'
    | err x => rw [hst] at e'; cases e'
    | panic x => rw [hst] at e'; cases e'
  | @halt s1 s2 hr1 e ih =>
    have hv := (vmOkNP_reaches force el eg ep en h0 sb s1 hr1).1
    have e' : vmStep (concreteOps ext) s1 = .halt s2 := e
    unfold vmStep at e'
    cases hst : step (concreteOps ext) s1 with
    | ok r =>
      obtain ⟨s3, b⟩ := r
      rw [hst] at e'
      cases b <;> simp only at e'
      · cases e'
      · cases e'; exact envInv_step eg ee hv ih hst (sb _ (.halt hr1 e))
    | err x => rw [hst] at e'; cases e'
    | panic x => rw [hst] at e'; cases e'
  | @gc s1 hr1 ih =>
    exact envInv_gc force (vmOkNP_reaches force el eg ep en h0 sb s1 hr1).1 ih

/-- **`EnvSlotsAlong` discharged** -/
theorem envSlotsAlong_of_envInv (force : Bool) (el : ExtLaws ext) (eg : ExtGood ext) (ep : ExtProc ext)
    (en : ExtNoPanic ext) (ee : ExtEnvInv ext) {s0 : St CHeap} (h0 : VmOkNP ext ecl s0) (e0 : EnvInv s0)
    (sb : SizeBounded (machine ext force) s0) : EnvSlotsAlong (machine ext force) s0 :=
  fun s' hr => envSlots_of_envInv (vmOkNP_reaches force el eg ep en h0 sb s' hr).1
    (envInv_reaches force el eg ep en ee h0 e0 sb s' hr)

/-- **T06.6: `step` never panics on a reachable state** (except at the model's fuel guard in `apply`) — no hypothesis
    about the state examined -/
theorem step_never_panics_reachable_closed (force : Bool) (el : ExtLaws ext) (eg : ExtGood ext) (ep : ExtProc ext)
    (en : ExtNoPanic ext) (ee : ExtEnvInv ext) {s0 : St CHeap} (h0 : VmOkNP ext ecl s0) (e0 : EnvInv s0)
    (sb : SizeBounded (machine ext force) s0) {s' : St CHeap} (hr : Reaches (machine ext force) s0 s') (m : String)
    (hp : step (concreteOps ext) s' = .panic m) : m = applyGuard :=
  step_never_panics_reachable force el eg ep en h0 sb hr
    (envSlotsAlong_of_envInv force el eg ep en ee h0 e0 sb s' hr) m hp

theorem runLoop_never_panics_machine_closed (force : Bool) (el : ExtLaws ext) (eg : ExtGood ext) (ep : ExtProc ext)
    (en : ExtNoPanic ext) (ee : ExtEnvInv ext) {s0 : St CHeap} (h0 : VmOkNP ext ecl s0) (e0 : EnvInv s0)
    (sb : SizeBounded (machine ext force) s0) (count : Option Nat) (fuel c : Nat) {m : String} {sf : St CHeap}
    (hr : runLoop (machine ext force) count fuel c s0 = .error (.panic m) sf) : m = applyGuard :=
  runLoop_never_panics_machine force el eg ep en h0 sb (envSlotsAlong_of_envInv force el eg ep en ee h0 e0 sb)
    count fuel c hr

theorem runEval_never_panics_machine_closed (force : Bool) (el : ExtLaws ext) (eg : ExtGood ext) (ep : ExtProc ext)
    (en : ExtNoPanic ext) (ee : ExtEnvInv ext) {s0 : St CHeap} (h0 : VmOkNP ext ecl s0) (e0 : EnvInv s0)
    (sb : SizeBounded (machine ext force) s0) (count : Option Nat) (fuel : Nat) {m : String} {s1 : St CHeap}
    (hr : runEval (concreteOps ext) (cgc force) count fuel s0 = .failed (.panic m) s1) : m = applyGuard :=
  runEval_never_panics_machine force el eg ep en h0 sb (envSlotsAlong_of_envInv force el eg ep en ee h0 e0 sb)
    count fuel hr

end

/-! ## non-vacuity: the demo state of `Lemmas/VmOkDemo.lean` -/

namespace Demo

/-- the demo states satisfy the invariant (through the executable check) -/
theorem sHalt_envInv (o : Nat) (ho : o = 0 ∨ o = 1) : EnvInv (sHalt o) := by
  rcases ho with rfl | rfl <;> exact stateEnvB_sound (by decide +kernel)

/-- the clauses are not trivially true: an environment shorter than the lambda's map does not fit; a closure cell over
    them, and a live stack holding that saved `EnvironmentPointer` / `InstructionPointer` pair, are rejected by the
    executable check -/
def hBad : CHeap :=
  { hHalt with cells := #[.lambda { bc := [.opcode .halt], args := [], envmap := [] }, .lexEnv [],
      .lambda { bc := [.opcode .enter, .opcode .ret], args := [.opaque "yx"], envmap := [(.opaque "yx", .arg 0)] },
      .val (.closure 2 1)] }

example : fitB hBad 1 2 = false := by decide +kernel
example : heapFB hBad = false := by decide +kernel
example : pairsEB hBad [.undefined, .envPtr 1, .instrPtr 2 1] 2 = false := by decide +kernel
example : stateFB { sHalt 0 with heap := hBad, ep := 1, ipL := 2, ipO := 1 } = false := by decide +kernel

end Demo

end Marwood.Lemmas.Good
