import Mathlib.Tactic.Ring
import Mathlib.Tactic.Linarith
import Mathlib.Tactic.NormNum
import Mathlib.Data.Rat.Defs
import Mathlib.Algebra.Order.Field.Rat
import Marwood.Num.Arith
import Marwood.Spec.Rat
/-!
# Value lemmas for the `Ratio<i32>` routines of the model

A ratio `(n, d)` with `d > 0` denotes `n / d`.  Each checked routine, when it answers `some q`,
answers a ratio with positive denominator whose value is the exact result — stated as integer
cross-multiplications (`Crs`) so that no division appears until the final cast to ℚ.
-/
namespace Marwood.Arith
open Marwood

/-- `q` denotes the same rational as `n / d` (for positive denominators) -/
def Crs (q : Ratio) (n d : Int) : Prop := 0 < q.2 ∧ q.1 * d = n * q.2

theorem inI32_iff (n : Int) : inI32 n = true ↔ (-2147483648 ≤ n ∧ n ≤ 2147483647) := by
  unfold inI32 i32Min i32Max
  rw [Bool.and_eq_true, decide_eq_true_iff, decide_eq_true_iff]

theorem inI64_iff (n : Int) :
    inI64 n = true ↔ (-9223372036854775808 ≤ n ∧ n ≤ 9223372036854775807) := by
  unfold inI64 i64Min i64Max
  rw [Bool.and_eq_true, decide_eq_true_iff, decide_eq_true_iff]

theorem chk32_some {n r : Int} (h : chk32 n = some r) : r = n ∧ inI32 n = true := by
  unfold chk32 at h
  split at h
  · cases h; exact ⟨rfl, by assumption⟩
  · cases h

theorem chk64_some {n r : Int} (h : chk64 n = some r) : r = n ∧ inI64 n = true := by
  unfold chk64 at h
  split at h
  · cases h; exact ⟨rfl, by assumption⟩
  · cases h

theorem gcdI_pos_right (a : Int) {b : Int} (hb : 0 < b) : 0 < gcdI a b := by
  unfold gcdI
  have : 0 < Int.gcd a b := Int.gcd_pos_of_ne_zero_right a hb.ne'
  exact_mod_cast this

theorem gcdI_pos_left {a : Int} (b : Int) (ha : 0 < a) : 0 < gcdI a b := by
  unfold gcdI
  have : 0 < Int.gcd a b := Int.gcd_pos_of_ne_zero_left b ha.ne'
  exact_mod_cast this

theorem gcdI_dvd_left (a b : Int) : ∃ k, a = gcdI a b * k := Int.gcd_dvd_left a b
theorem gcdI_dvd_right (a b : Int) : ∃ k, b = gcdI a b * k := Int.gcd_dvd_right a b

/-- `reduce` keeps the value and a positive denominator -/
theorem reduce_crs (n d : Int) (hd : 0 < d) : Crs (reduce n d) n d := by
  unfold reduce Crs
  by_cases h0 : n = 0
  · simp [h0]
  · by_cases h1 : n = d
    · subst h1; simp [h0]
    · simp only [beq_iff_eq, h0, h1, if_false]
      have hg : 0 < gcdI n d := gcdI_pos_right n hd
      obtain ⟨n', hn⟩ := gcdI_dvd_left n d
      obtain ⟨d', hd'⟩ := gcdI_dvd_right n d
      unfold gcdI at hg hn hd'
      generalize (Int.gcd n d : Int) = g at hg hn hd' ⊢
      have e1 : n.tdiv g = n' := by
        rw [hn]; exact Int.mul_tdiv_cancel_left _ hg.ne'
      have e2 : d.tdiv g = d' := by
        rw [hd']; exact Int.mul_tdiv_cancel_left _ hg.ne'
      rw [e1, e2]
      constructor
      · by_contra hneg
        have h1 : d' ≤ 0 := by omega
        have : g * d' ≤ 0 := Int.mul_nonpos_of_nonneg_of_nonpos hg.le h1
        omega
      · rw [hd', hn]
        ring

/-- from a cross-multiplication to the value in ℚ -/
theorem crs_val {q : Ratio} {n d : Int} (hd : d ≠ 0) (h : Crs q n d) :
    (q.1 : Rat) / (q.2 : Rat) = (n : Rat) / (d : Rat) := by
  obtain ⟨hq, hc⟩ := h
  have h1 : (d : Rat) ≠ 0 := by exact_mod_cast hd
  have h2 : (q.2 : Rat) ≠ 0 := by exact_mod_cast hq.ne'
  rw [div_eq_div_iff h2 h1]
  exact_mod_cast hc

/-- transport `Crs` along an equal fraction -/
theorem Crs.trans {q : Ratio} {n d n' d' : Int} (hd : d ≠ 0) (h : Crs q n d)
    (he : n * d' = n' * d) : Crs q n' d' := by
  obtain ⟨hq, hc⟩ := h
  refine ⟨hq, ?_⟩
  have : (q.1 * d') * d = (n' * q.2) * d := by
    calc (q.1 * d') * d = (q.1 * d) * d' := by ring
      _ = (n * q.2) * d' := by rw [hc]
      _ = (n * d') * q.2 := by ring
      _ = (n' * d) * q.2 := by rw [he]
      _ = (n' * q.2) * d := by ring
  exact Int.eq_of_mul_eq_mul_right hd this

theorem tdiv_of_eq_mul {a g k : Int} (hg : g ≠ 0) (h : a = g * k) : a.tdiv g = k := by
  rw [h]; exact Int.mul_tdiv_cancel_left _ hg

theorem pos_of_mul_pos_left {g k : Int} (hg : 0 < g) (h : 0 < g * k) : 0 < k := by
  by_contra hneg
  have h1 : k ≤ 0 := by omega
  have : g * k ≤ 0 := Int.mul_nonpos_of_nonneg_of_nonpos hg.le h1
  omega

/-- shared body of `checked_add` / `checked_sub` -/
theorem checkedAddSub_crs (sgn : Int) (x y : Ratio) (hx : 0 < x.2) (hy : 0 < y.2) {q : Ratio}
    {lcm ln rn s : Int}
    (h1 : lcm = x.2.tdiv (gcdI x.2 y.2) * y.2)
    (h2 : ln = lcm.tdiv x.2 * x.1) (h3 : rn = lcm.tdiv y.2 * y.1)
    (h4 : s = ln + sgn * rn) (h5 : q = reduce s lcm) :
    Crs q (x.1 * y.2 + sgn * (y.1 * x.2)) (x.2 * y.2) := by
  obtain ⟨a, b⟩ := x
  obtain ⟨c, d⟩ := y
  simp only at *
  have hg : 0 < gcdI b d := gcdI_pos_right b hy
  obtain ⟨b', hb⟩ := gcdI_dvd_left b d
  obtain ⟨d', hd⟩ := gcdI_dvd_right b d
  generalize gcdI b d = g at *
  have hb' : 0 < b' := pos_of_mul_pos_left hg (hb ▸ hx)
  have hd' : 0 < d' := pos_of_mul_pos_left hg (hd ▸ hy)
  have e1 : b.tdiv g = b' := tdiv_of_eq_mul hg.ne' hb
  rw [e1] at h1
  have hbne : b ≠ 0 := hx.ne'
  have hdne : d ≠ 0 := hy.ne'
  have e2 : lcm.tdiv b = d' := by
    apply tdiv_of_eq_mul hbne
    rw [h1, hd, hb]; ring
  have e3 : lcm.tdiv d = b' := by
    apply tdiv_of_eq_mul hdne
    rw [h1]; ring
  rw [e2] at h2
  rw [e3] at h3
  have hl : 0 < lcm := by rw [h1]; exact Int.mul_pos hb' hy
  have hr := reduce_crs s lcm hl
  rw [← h5] at hr
  refine hr.trans hl.ne' ?_
  rw [h4, h2, h3, h1]
  conv_lhs => rw [hb, hd]
  conv_rhs => rw [hb, hd]
  ring

theorem checkedAdd_crs (x y : Ratio) (hx : 0 < x.2) (hy : 0 < y.2) {q : Ratio}
    (h : checkedAdd x y = some q) : Crs q (x.1 * y.2 + y.1 * x.2) (x.2 * y.2) := by
  unfold checkedAdd at h
  simp only [Option.bind_eq_bind, Option.bind_eq_some_iff, Option.pure_def, Option.some.injEq] at h
  obtain ⟨lcm, h1, ln, h2, rn, h3, s, h4, h5⟩ := h
  have := checkedAddSub_crs 1 x y hx hy (chk32_some h1).1 (chk32_some h2).1 (chk32_some h3).1
    (by rw [(chk32_some h4).1]; ring) h5.symm
  simpa using this

theorem checkedSub_crs (x y : Ratio) (hx : 0 < x.2) (hy : 0 < y.2) {q : Ratio}
    (h : checkedSub x y = some q) : Crs q (x.1 * y.2 - y.1 * x.2) (x.2 * y.2) := by
  unfold checkedSub at h
  simp only [Option.bind_eq_bind, Option.bind_eq_some_iff, Option.pure_def, Option.some.injEq] at h
  obtain ⟨lcm, h1, ln, h2, rn, h3, s, h4, h5⟩ := h
  have := checkedAddSub_crs (-1) x y hx hy (chk32_some h1).1 (chk32_some h2).1 (chk32_some h3).1
    (by rw [(chk32_some h4).1]; ring) h5.symm
  have e : x.1 * y.2 - y.1 * x.2 = x.1 * y.2 + -1 * (y.1 * x.2) := by ring
  rw [e]; exact this

theorem checkedMul_crs (x y : Ratio) (hx : 0 < x.2) (hy : 0 < y.2) {q : Ratio}
    (h : checkedMul x y = some q) : Crs q (x.1 * y.1) (x.2 * y.2) := by
  unfold checkedMul at h
  simp only [Option.bind_eq_bind, Option.bind_eq_some_iff, Option.pure_def, Option.some.injEq] at h
  obtain ⟨n, h1, dd, h2, h5⟩ := h
  obtain ⟨a, b⟩ := x
  obtain ⟨c, d⟩ := y
  simp only at *
  have h1 := (chk32_some h1).1
  have h2 := (chk32_some h2).1
  have hg1 : 0 < gcdI a d := gcdI_pos_right a hy
  have hg2 : 0 < gcdI b c := gcdI_pos_left c hx
  obtain ⟨a', ha⟩ := gcdI_dvd_left a d
  obtain ⟨d', hd⟩ := gcdI_dvd_right a d
  obtain ⟨b', hb⟩ := gcdI_dvd_left b c
  obtain ⟨c', hc⟩ := gcdI_dvd_right b c
  generalize gcdI a d = g1 at *
  generalize gcdI b c = g2 at *
  have hb' : 0 < b' := pos_of_mul_pos_left hg2 (hb ▸ hx)
  have hd' : 0 < d' := pos_of_mul_pos_left hg1 (hd ▸ hy)
  rw [tdiv_of_eq_mul hg1.ne' ha, tdiv_of_eq_mul hg2.ne' hc] at h1
  rw [tdiv_of_eq_mul hg2.ne' hb, tdiv_of_eq_mul hg1.ne' hd] at h2
  have hl : 0 < dd := by rw [h2]; exact Int.mul_pos hb' hd'
  have hr := reduce_crs n dd hl
  rw [h5] at hr
  refine hr.trans hl.ne' ?_
  rw [h1, h2]
  conv_lhs => rw [hb, hd]
  conv_rhs => rw [ha, hc]
  ring

theorem divFinish_crs {numer denom : Int} {q : Ratio} (h : divFinish numer denom = some q) :
    denom ≠ 0 ∧ Crs q numer denom := by
  unfold divFinish at h
  by_cases h0 : denom = 0
  · simp [h0] at h
  · refine ⟨h0, ?_⟩
    simp only [beq_iff_eq, h0, if_false] at h
    by_cases h1 : numer = 0
    · simp only [h1, if_true, Option.some.injEq] at h
      subst h; subst h1; exact ⟨by decide, by simp⟩
    · simp only [h1, if_false] at h
      by_cases h2 : numer = denom
      · simp only [h2, if_true, Option.some.injEq] at h
        subst h; subst h2; exact ⟨by decide, by simp⟩
      · simp only [h2, if_false] at h
        have hg : 0 < gcdI numer denom := by
          unfold gcdI
          have : 0 < Int.gcd numer denom := Int.gcd_pos_of_ne_zero_right numer h0
          exact_mod_cast this
        obtain ⟨n', hn⟩ := gcdI_dvd_left numer denom
        obtain ⟨d', hd⟩ := gcdI_dvd_right numer denom
        generalize gcdI numer denom = g at *
        rw [tdiv_of_eq_mul hg.ne' hn, tdiv_of_eq_mul hg.ne' hd] at h
        have hd0 : d' ≠ 0 := by
          intro hz; apply h0; rw [hd, hz]; ring
        by_cases hneg : d' < 0
        · simp only [hneg, if_true, Option.bind_eq_bind, Option.bind_eq_some_iff, Option.pure_def,
            Option.some.injEq] at h
          obtain ⟨n'', e1, d'', e2, e3⟩ := h
          have e1 := (chk32_some e1).1
          have e2 := (chk32_some e2).1
          subst e3
          refine ⟨by simp only; omega, ?_⟩
          simp only
          rw [e1, e2]
          conv_lhs => rw [hd]
          conv_rhs => rw [hn]
          ring
        · simp only [hneg, if_false, Option.some.injEq] at h
          subst h
          refine ⟨by simp only; omega, ?_⟩
          simp only
          conv_lhs => rw [hd]
          conv_rhs => rw [hn]
          ring

theorem libCheckedDiv_crs (x y : Ratio) (hx : 0 < x.2) (hy : 0 < y.2) {q : Ratio}
    (h : libCheckedDiv x y = some q) : y.1 ≠ 0 ∧ Crs q (x.1 * y.2) (x.2 * y.1) := by
  unfold libCheckedDiv at h
  obtain ⟨a, b⟩ := x
  obtain ⟨c, d⟩ := y
  simp only at *
  by_cases hc : c = 0
  · simp [hc] at h
  · refine ⟨hc, ?_⟩
    simp only [beq_iff_eq, hc, if_false] at h
    by_cases hbd : b = d
    · simp only [hbd, if_true] at h
      obtain ⟨_, hq, hcr⟩ := divFinish_crs h
      subst hbd
      exact ⟨hq, by rw [show q.1 * (b * c) = (q.1 * c) * b by ring, hcr]; ring⟩
    · simp only [hbd, if_false] at h
      by_cases hac : a = c
      · simp only [hac, if_true] at h
        obtain ⟨_, hq, hcr⟩ := divFinish_crs h
        subst hac
        exact ⟨hq, by rw [show q.1 * (b * a) = (q.1 * b) * a by ring, hcr]; ring⟩
      · simp only [hac, if_false, Option.bind_eq_bind, Option.bind_eq_some_iff] at h
        obtain ⟨n, h1, dd, h2, h3⟩ := h
        have h1 := (chk32_some h1).1
        have h2 := (chk32_some h2).1
        obtain ⟨_, hq, hcr⟩ := divFinish_crs h3
        have hg1 : 0 < gcdI a c := by
          unfold gcdI
          have : 0 < Int.gcd a c := Int.gcd_pos_of_ne_zero_right a hc
          exact_mod_cast this
        have hg2 : 0 < gcdI b d := gcdI_pos_right b hy
        obtain ⟨a', ha⟩ := gcdI_dvd_left a c
        obtain ⟨c', hc'⟩ := gcdI_dvd_right a c
        obtain ⟨b', hb⟩ := gcdI_dvd_left b d
        obtain ⟨d', hd⟩ := gcdI_dvd_right b d
        generalize gcdI a c = g1 at *
        generalize gcdI b d = g2 at *
        rw [tdiv_of_eq_mul hg1.ne' ha, tdiv_of_eq_mul hg2.ne' hd] at h1
        rw [tdiv_of_eq_mul hg2.ne' hb, tdiv_of_eq_mul hg1.ne' hc'] at h2
        refine ⟨hq, ?_⟩
        have e : q.1 * (b * c) = (q.1 * dd) * (g1 * g2) := by
          rw [h2]; conv_lhs => rw [hb, hc']
          ring
        rw [e, hcr, h1]
        conv_rhs => rw [ha, hd]
        ring

theorem checkedDiv_crs (x y : Ratio) (hx : 0 < x.2) (hy : 0 < y.2) {q : Ratio}
    (h : checkedDiv x y = some q) : y.1 ≠ 0 ∧ Crs q (x.1 * y.2) (x.2 * y.1) := by
  unfold checkedDiv at h
  by_cases h0 : x.1 = 0 ∧ y.1 ≠ 0
  · have : (x.1 == 0 && y.1 != 0) = true := by simp [h0.1, h0.2]
    rw [this] at h
    simp only [if_true, Option.some.injEq] at h
    subst h
    exact ⟨h0.2, by decide, by simp [h0.1]⟩
  · have : (x.1 == 0 && y.1 != 0) = false := by
      by_cases hx0 : x.1 = 0
      · by_cases hy0 : y.1 = 0
        · simp [hy0]
        · exact absurd ⟨hx0, hy0⟩ h0
      · simp [hx0]
    rw [this] at h
    exact libCheckedDiv_crs x y hx hy h

end Marwood.Arith
