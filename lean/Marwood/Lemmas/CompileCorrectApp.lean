import Marwood.Lemmas.CompileCorrectForms
/-!
# T01.3 stage 1 — stage 5: operand lists and the application of a builtin procedure
-/
namespace Marwood.Lemmas.CompileCorrect
open Marwood Marwood.Vm
open Marwood.Spec.Eval (Val Prim Cell evalN evalStep applyStep evalArgs properList quoteVal kwOf insertG
  k_quote k_if_ k_setBang k_define)

variable {H : Type} {ops : HeapOps H} {D : RepData ops}

theorem ArgsRun.codeAfter {s s' : MSt H} {len : Nat} {σ σ' : SSt} {ws : List Val} {vs : List VCell}
    (r : ArgsRun D s len σ σ' ws vs s')
    {base : Nat} {code : List BC} (hc : CodeAt D s.heap σ.store s.ipL base code) :
    CodeAt D s'.heap σ'.store s'.ipL base code := by
  rw [r.ipL]; exact hc.evolve r.ev

/-- operand lists: each operand's code, then `PUSH` -/
theorem argsOK_succ {fuel : Nat} (ihE : ExprOK D fuel) (ihA : ArgsOK D fuel) : ArgsOK D (fuel + 1) := by
  intro cst base rest cst' code k hfr hcomp n σ es ws σ' hpl hev s hc hip hsr hw
  cases hfr with
  | nil =>
    obtain ⟨rfl, rfl⟩ := compileArgs_nil_inv hcomp
    have : es = [] := by
      simp only [properList] at hpl
      injection hpl with hpl; exact hpl.symm
    subst this
    obtain ⟨rfl, rfl⟩ := evalArgs_nil_inv hev
    exact ⟨s, [], ⟨.refl _, rfl, rfl, rfl, rfl, LiveEq.refl _, hw, .nil, hsr, Evolves.refl _ _ _⟩, rfl⟩
  | cons a d hfa hfd =>
    obtain ⟨cst1, code1, code2, k2, hca, hcd, rfl, rfl⟩ := compileArgs_pair_inv hcomp
    obtain ⟨es', hpl', rfl⟩ := properList_pair_inv hpl
    obtain ⟨v, σ1, ws', hea, hed, rfl⟩ := evalArgs_cons_inv hev
    subst hip
    obtain ⟨s1, r1⟩ := ihE _ _ _ _ _ _ hfa hca n σ v σ1 hea s hc.left.left rfl hsr hw
    have hcP1 : CodeAt D s1.heap σ1.store s1.ipL s1.ipO [BC.op .pushAcc] :=
      (r1.codeAfter hc.left.right).cast r1.ipO.symm
    have hp := step_pushAcc hcP1.1 (hcP1.op 0 rfl)
    have hcD : CodeAt D s1.heap σ1.store s1.ipL (s.ipO + code1.length + 1) code2 :=
      (r1.codeAfter hc.right).cast (by simp only [List.length_append, List.length_cons, List.length_nil]; omega)
    obtain ⟨s3, vs', r3, hk⟩ := ihA _ _ _ _ _ _ hfd hcd n σ1 es' ws' σ' hpl' hed
      { s1 with stack := s1.stack.push s1.acc, ipO := s1.ipO + 1 } hcD
      (by show s1.ipO + 1 = _; rw [r1.ipO]) r1.sr (push_swf _ _)
    have e3 : Evolves D s.ipL s1.heap σ1.store s3.heap σ'.store := by
      have := r3.ev; rw [show _ = s.ipL from r1.ipL] at this; exact this
    refine ⟨s3, s1.acc :: vs', ⟨r1.steps.trans (.cons hp r3.steps), r3.ipL.trans r1.ipL, ?_,
      r3.bp.trans r1.bp, r3.ep.trans r1.ep, ?_, r3.swf, .cons (r3.ev.vr _ _ r1.acc) r3.vals, r3.sr,
      r1.ev.trans e3⟩, by simp [hk]⟩
    · have h3 := r3.ipO
      have h1 := r1.ipO
      have h2 : s3.ipO = s1.ipO + 1 + code2.length := h3
      simp only [List.length_append, List.length_cons, List.length_nil]
      omega
    · rw [pushAll_cons]
      exact ((r1.stack.push hw r1.swf s1.acc).pushAll (push_swf _ _) (push_swf _ _) vs').trans r3.stack

/-- application whose operator evaluates to a representable callee -/
theorem case_app (L : RepLaws D) {fuel : Nat} (ihE : ExprOK D fuel) (ihA : ArgsOK D fuel)
    {cst cst' : CState} {base : Nat} {tail : Bool} {f rest : Datum} {code : List BC}
    (hh : AppHead f) (hff : Frag f) (hfr : FragList rest)
    (hcomp : compileExpr (fuel + 1) cst c0 base tail (.pair f rest) = .ok (cst', code))
    {n : Nat} {σ σ' : SSt} {w : Val}
    (hev : evalStep (evalN n) (.pair f rest) [] σ = .ok w σ')
    {s : MSt H} (hc : CodeAt D s.heap σ.store s.ipL base code) (hip : s.ipO = base)
    (hsr : SR D s.heap σ) (hw : SWF s.stack) :
    ∃ s', ExprRun D s code.length σ σ' w s' := by
  obtain ⟨cst1, code1, k, pcode, hca, hcf, rfl⟩ := compile_app_inv hh hcomp
  obtain ⟨es, ws, σ1, fv, σ2, hpl, hea, hef, hap⟩ := evalStep_app_inv hh hev
  subst hip
  have hcA := hc.left.left.left
  have hcP := hc.left.left.right
  have hcF := hc.left.right
  have hcC := hc.right
  -- the operands
  obtain ⟨s1, vs, r1, hk⟩ := ihA _ _ _ _ _ _ hfr hca n σ es ws σ1 hpl hea s hcA rfl hsr hw
  subst hk
  -- the argument count
  have hcP1 : CodeAt D s1.heap σ1.store s1.ipL s1.ipO [BC.op .pushImm, BC.argc vs.length] :=
    (r1.codeAfter hcP).cast r1.ipO.symm
  have hp := step_pushImm hcP1.1 (hcP1.op 0 rfl) (hcP1.argcCell 1 rfl) (by intro o h; cases h)
  -- the operator
  have hcF2 : CodeAt D s1.heap σ1.store s1.ipL (s.ipO + code1.length + 2) pcode :=
    (r1.codeAfter hcF).cast (by simp only [List.length_append, List.length_cons, List.length_nil]; omega)
  obtain ⟨s3, r3⟩ := ihE _ _ _ _ _ _ hff hcf n σ1 fv σ2 hef
    { s1 with stack := s1.stack.push (.argc vs.length), ipO := s1.ipO + 2 } hcF2
    (by show s1.ipO + 2 = _; rw [r1.ipO]) r1.sr (push_swf _ _)
  have e3 : Evolves D s.ipL s1.heap σ1.store s3.heap σ2.store := by
    have := r3.ev; rw [show _ = s.ipL from r1.ipL] at this; exact this
  have e13 := r1.ev.trans e3
  have hvals : All2 (D.VR s3.heap σ2.store) vs ws := All2.mono (fun a b x => e3.vr a b x) r1.vals
  -- the call
  obtain ⟨id, h', r, hcal, hkind, hres, hvr, hsr', hev'⟩ :=
    L.call n s3.heap σ2 s3.acc fv vs ws w σ' s.ipL r3.sr r3.acc hvals hap
  have hst : LiveEq ((pushAll s.stack vs).push (.argc vs.length)) s3.stack :=
    (r1.stack.push (pushAll_swf _ _ hw) r1.swf (.argc vs.length)).trans r3.stack
  have hipL : s3.ipL = s.ipL := r3.ipL.trans r1.ipL
  have hipO : s3.ipO = s.ipO + code1.length + 2 + pcode.length := by
    have h3 : s3.ipO = s1.ipO + 2 + pcode.length := r3.ipO
    rw [h3, r1.ipO]
  have hcC3 : CodeAt D s3.heap σ2.store s3.ipL s3.ipO [BC.op (if tail = true then .tcallAcc else .callAcc)] := by
    rw [hipL]
    exact (hcC.evolve e13).cast (by
      rw [hipO]; simp only [List.length_append, List.length_cons, List.length_nil]; omega)
  have hlen : (code1 ++ [BC.op .pushImm, BC.argc vs.length] ++ pcode
      ++ [BC.op (if tail = true then .tcallAcc else .callAcc)]).length = code1.length + 2 + pcode.length + 1 := by
    simp only [List.length_append, List.length_cons, List.length_nil]
  rw [hlen]
  have hbp : s3.bp = s.bp := r3.bp.trans r1.bp
  have hep : s3.ep = s.ep := r3.ep.trans r1.ep
  have hsteps : Steps ops s s3 := r1.steps.trans (.cons hp r3.steps)
  cases tail with
  | false =>
    obtain ⟨st', hstep, hl', hw'⟩ := step_call_builtin hcC3.1 (hcC3.op 0 rfl) hcal hkind hst hw r3.swf hres
    exact ⟨_, ⟨hsteps.trans (Steps.one hstep), hipL, by show s3.ipO + 1 = _; omega, hbp, hep, hl', hw', hvr,
      hsr', e13.trans hev'⟩⟩
  | true =>
    obtain ⟨st', hstep, hl', hw'⟩ := step_tcall_builtin hcC3.1 (hcC3.op 0 rfl) hcal hkind hst hw r3.swf hres
    exact ⟨_, ⟨hsteps.trans (Steps.one hstep), hipL, by show s3.ipO + 1 = _; omega, hbp, hep, hl', hw', hvr,
      hsr', e13.trans hev'⟩⟩

end Marwood.Lemmas.CompileCorrect
