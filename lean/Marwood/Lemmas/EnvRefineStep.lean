import Marwood.Lemmas.EnvRefineSim
import Marwood.Lemmas.EnvNest
/-!
# T02.4, part 6: the induction step of the simulation, function by function
-/
namespace Marwood.Vm.EnvRefine
open Marwood Marwood.Scope Marwood.Vm.Env Marwood.Spec.Scope

theorem ActRel.dropEmpty {β : LocMap} {h : Envs MVal} {N ctx ep ρ a acts}
    (r : ActRel β h N ctx ep ([] :: ρ) (a :: acts)) : ActRel β h N ctx ep ρ acts := by
  have hres : ∀ x, resolve x ([] :: ρ) = resolve x ρ := fun x => by simp [resolve, Frame.find?]
  refine ⟨?_, ?_, r.noarg, ?_, r.chain.2⟩
  · intro x s hs
    obtain ⟨a', l, e, i, h1, h2, h3, h4⟩ := r.res x s hs
    exact ⟨a', l, e, i, h1, (hres x) ▸ h2, h3, h4⟩
  · intro x hx; exact r.unb x ((hres x).symm ▸ hx)
  · intro x hx hr; exact r.need x hx ((hres x).symm ▸ hr)

/-- everything the body of a lambda form mentions is needed by its activation -/
theorem needOf_of_raw (sugar : Bool) (ps : List Name) (rst : Option Name) (ds : Defs) (body : Exprs) (x : Name)
    (hx : x ∈ fvDefs ds ++ fvList body) : needOf sugar ps rst ds body x := by
  by_cases hb : x ∈ (if sugar then ps ++ rst.toList else ps)
  · right; left
    cases sugar
    · simp at hb; exact List.mem_append_left _ hb
    · simpa using hb
  · left
    simp only [fvLam, mem_dedup, mem_remove]
    exact ⟨hx, hb⟩

theorem post_tick {β : LocMap} {s : SSt} {t : MSt} (r : StRel β s t) :
    Post β t QV (exec Spec.Scope.tick s) (exec Vm.EnvRun.tick t) := by
  rw [exec_tick, exec_mtick]
  exact Post.ok β (Ext.refl _ _) r.tick (by rw [r.counter]; exact .int _)

/-- related argument lists are accepted or rejected alike, and bound alike -/
theorem frameArgs_rel {β : LocMap} {h : Envs MVal} (ps : List Name) (rst : Option Name) {vs : List SVal}
    {vs' : List MVal} (hv : Forall2 (VRel β h) vs vs') :
    match paramVals ps rst vs with
    | some vals => ∃ margs, Vm.EnvRun.frameArgs ps rst vs' = .ok margs ∧ Forall2 (VRel β h) vals margs
    | none => Vm.EnvRun.frameArgs ps rst vs' = .error .arity := by
  induction ps generalizing vs vs' with
  | nil =>
    cases rst with
    | none =>
      cases hv with
      | nil => exact ⟨[], rfl, .nil⟩
      | cons _ _ => rfl
    | some r => exact ⟨[_], rfl, .cons (VRel.ofList hv) .nil⟩
  | cons p ps ih =>
    cases hv with
    | nil => rfl
    | cons h1 hrest =>
      have := ih hrest
      simp only [paramVals, Vm.EnvRun.frameArgs]
      split at this
      · next vals hp =>
        obtain ⟨margs, hm, hr⟩ := this
        rw [hp, hm]
        exact ⟨_, rfl, .cons h1 hr⟩
      · next hp =>
        rw [hp, this]
        rfl

section step
variable {f : Nat} (ih : Sims f)
include ih

theorem step_evalList : ∀ g, 2 * (f + 1) ≤ g → ∀ (β : LocMap) (s : SSt) (t : MSt) (N : Name → Prop) (ctx : LamCtx)
    (ep : Option Nat) (ρ : Chain) (acts : List Nat) (es : Exprs), StRel β s t → ActRel β t.envs N ctx ep ρ acts →
    (∀ x ∈ fvList es, N x) →
    Post β t QL (exec (Spec.Scope.evalList (f + 1) ρ es) s) (exec (Vm.EnvRun.evalList g ctx ep es) t) := by
  intro g hg β s t N ctx ep ρ acts es r a hfv
  obtain ⟨g', rfl⟩ : ∃ g', g = g' + 1 := ⟨g - 1, by omega⟩
  cases es with
  | nil =>
    simp only [Spec.Scope.evalList, Vm.EnvRun.evalList, exec_pure]
    exact Post.ok β (Ext.refl _ _) r .nil
  | cons e es =>
    simp only [Spec.Scope.evalList, Vm.EnvRun.evalList]
    apply Post.bind _ _ _ _ (ih.eval g' (by omega) β s t N ctx ep ρ acts e r a
      (fun x hx => hfv x (by simp [fvList, hx])))
    intro β1 s1 t1 v v' e1 r1 hv
    apply Post.bind _ _ _ _ (ih.evalList g' (by omega) β1 s1 t1 N ctx ep ρ acts es r1 (a.mono e1)
      (fun x hx => hfv x (by simp [fvList, hx])))
    intro β2 s2 t2 vs vs' e2 r2 hvs
    simp only [exec_pure]
    exact Post.ok β2 (Ext.refl _ _) r2 (.cons (hv.mono e2) hvs)

theorem step_evalBody : ∀ g, 2 * (f + 1) ≤ g → ∀ (β : LocMap) (s : SSt) (t : MSt) (N : Name → Prop) (ctx : LamCtx)
    (ep : Option Nat) (ρ : Chain) (acts : List Nat) (es : Exprs), StRel β s t → ActRel β t.envs N ctx ep ρ acts →
    (∀ x ∈ fvList es, N x) →
    Post β t QV (exec (Spec.Scope.evalBody (f + 1) ρ es) s) (exec (Vm.EnvRun.evalBody g ctx ep es) t) := by
  intro g hg β s t N ctx ep ρ acts es r a hfv
  obtain ⟨g', rfl⟩ : ∃ g', g = g' + 1 := ⟨g - 1, by omega⟩
  cases es with
  | nil =>
    simp only [Spec.Scope.evalBody, Vm.EnvRun.evalBody, exec_pure]
    exact Post.ok β (Ext.refl _ _) r .void
  | cons e es =>
    have he : ∀ x ∈ fv e, N x := fun x hx => hfv x (by simp [fvList, hx])
    cases es with
    | nil =>
      simp only [Spec.Scope.evalBody, Vm.EnvRun.evalBody]
      exact ih.eval g' (by omega) β s t N ctx ep ρ acts e r a he
    | cons e' es' =>
      simp only [Spec.Scope.evalBody, Vm.EnvRun.evalBody]
      apply Post.bind _ _ _ _ (ih.eval g' (by omega) β s t N ctx ep ρ acts e r a he)
      intro β1 s1 t1 v v' e1 r1 _
      exact ih.evalBody g' (by omega) β1 s1 t1 N ctx ep ρ acts _ r1 (a.mono e1)
        (fun x hx => hfv x (by simp only [fvList, List.mem_append] at hx ⊢; exact Or.inr hx))

/-- the rest of a definition once its value is there: write it, go on with the next ones -/
theorem defs_cont (g' : Nat) (hg : 2 * f ≤ g') (β1 : LocMap) (s1 : SSt) (t1 : MSt) (N : Name → Prop) (ctx : LamCtx)
    (ep : Option Nat) (ρ : Chain) (acts : List Nat) (x : Name) (ds : Defs) (v : SVal) (v' : MVal)
    (r1 : StRel β1 s1 t1) (a1 : ActRel β1 t1.envs N ctx ep ρ acts) (hv : VRel β1 t1.envs v v')
    (hNx : N x) (hfv : ∀ y ∈ fvDefs ds, N y) (hnames : ∀ y ∈ ds.names, N y) :
    Post β1 t1 QU
      (exec (do let l ← locOf x ρ; writeLoc l v; Spec.Scope.evalDefs f ρ ds) s1)
      (exec (do Vm.EnvRun.writeVar ctx ep x v'; Vm.EnvRun.evalDefs g' ctx ep ds) t1) := by
  rcases exec_locOf_cases x ρ s1 with ⟨l, hl, hloc⟩ | hl
  · rw [exec_bind_ok _ _ _ _ _ hl]
    obtain ⟨t2, hw, e2, r2⟩ := sim_write r1 a1 x hNx l v v' hloc hv
    rw [exec_bind_ok _ _ _ _ _ (exec_writeLoc l v s1), exec_bind_ok _ _ _ _ _ hw]
    exact (ih.evalDefs g' hg β1 _ t2 N ctx ep ρ acts ds r2 (a1.mono e2) hfv hnames).weaken e2
  · rw [exec_bind_err _ _ _ _ _ hl]
    exact Post.unbound

theorem step_evalDefs : ∀ g, 2 * (f + 1) ≤ g → ∀ (β : LocMap) (s : SSt) (t : MSt) (N : Name → Prop) (ctx : LamCtx)
    (ep : Option Nat) (ρ : Chain) (acts : List Nat) (ds : Defs), StRel β s t → ActRel β t.envs N ctx ep ρ acts →
    (∀ x ∈ fvDefs ds, N x) → (∀ x ∈ ds.names, N x) →
    Post β t QU (exec (Spec.Scope.evalDefs (f + 1) ρ ds) s) (exec (Vm.EnvRun.evalDefs g ctx ep ds) t) := by
  intro g hg β s t N ctx ep ρ acts ds r a hfv hnames
  obtain ⟨g', rfl⟩ : ∃ g', g = g' + 1 := ⟨g - 1, by omega⟩
  cases ds with
  | nil =>
    simp only [Spec.Scope.evalDefs, Vm.EnvRun.evalDefs, exec_pure]
    exact Post.ok β (Ext.refl _ _) r trivial
  | cons x sugar e ds =>
    have hNx : N x := hnames x (by simp [Defs.names])
    have hnames' : ∀ y ∈ ds.names, N y := fun y hy => hnames y (by simp [Defs.names, hy])
    have hfv' : ∀ y ∈ fvDefs ds, N y := fun y hy => hfv y (by
      cases sugar <;> cases e <;> simp only [fvDefs, List.mem_append] <;> exact Or.inr hy)
    -- the ordinary case: the value is an expression
    have generic : (∀ y ∈ fv e, N y) →
        exec (Vm.EnvRun.evalDefs (g' + 1) ctx ep (.cons x sugar e ds)) t =
          exec (do let v ← Vm.EnvRun.eval g' ctx ep e; Vm.EnvRun.writeVar ctx ep x v;
                   Vm.EnvRun.evalDefs g' ctx ep ds) t →
        Post β t QU (exec (Spec.Scope.evalDefs (f + 1) ρ (.cons x sugar e ds)) s)
          (exec (Vm.EnvRun.evalDefs (g' + 1) ctx ep (.cons x sugar e ds)) t) := by
      intro he hm
      rw [hm]
      simp only [Spec.Scope.evalDefs]
      apply Post.bind _ _ _ _ (ih.eval g' (by omega) β s t N ctx ep ρ acts e r a he)
      intro β1 s1 t1 v v' e1 r1 hv
      exact defs_cont ih g' (by omega) β1 s1 t1 N ctx ep ρ acts x ds v v' r1 (a.mono e1) hv hNx hfv' hnames'
    cases sugar with
    | false =>
      exact generic (fun y hy => hfv y (by cases e <;> simp only [fvDefs, List.mem_append] <;> exact Or.inl hy))
        (by simp only [Vm.EnvRun.evalDefs])
    | true =>
      cases e with
      | lam ps rst ds' body =>
        simp only [Spec.Scope.evalDefs, Vm.EnvRun.evalDefs]
        cases f with
        | zero =>
          rw [Spec.Scope.eval, exec_bind_err _ _ _ _ _ (exec_throw _ _)]
          exact Post.fuel
        | succ f' =>
          rw [Spec.Scope.eval, exec_bind_ok _ _ _ _ _ (exec_pure _ _)]
          obtain ⟨cenv, t1, carr, hmk, e1, r1, hc⟩ := sim_mkClosure r a true ps rst ds' body (by
            intro y hy
            apply hfv y
            simp only [fvLam, if_true, mem_dedup] at hy
            simp only [fvDefs, List.mem_append]
            exact Or.inl hy)
          rw [exec_bind_ok _ _ _ _ _ hmk]
          exact (defs_cont ih g' (by omega) β s t1 N ctx ep ρ acts x ds _ _ r1 (a.mono e1)
            (.clo ⟨ctx, true, acts, carr, rfl, hc⟩) hNx hfv' hnames').weaken e1
      | fresh | ref _ _ | set _ _ _ | call _ _ | seq _ | loop _ _ | each _ _ =>
        exact generic (fun y hy => hfv y (by simp only [fvDefs, List.mem_append]; exact Or.inl hy))
          (by simp only [Vm.EnvRun.evalDefs])

end step

end Marwood.Vm.EnvRefine
