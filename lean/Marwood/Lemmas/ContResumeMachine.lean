import Marwood.Lemmas.ProcInvMain
import Marwood.Lemmas.ContResume
import Marwood.Lemmas.StackWFBpLive
/-!
# C05 on the REAL concrete machine: live congruence of runs over `concreteOps ext`, no guards

`Lemmas/ContResumeRun.lean` proves `step_live_congruence` / `runN_live_congruence` for a machine with `CodeLaws`; for the
concrete heap those exist for the guarded interfaces only (`gops`, `vops`). Here the two are joined along a run:

* `concreteLiveLawsV` — `LiveLaws` for the value-typed laws `concreteLawsV` (same proof as `concreteLiveLaws`);
* `step_vops_conv` — the converse of `step_vops`: on a state satisfying `GoodI` whose callee passes the guard, a
  successful instruction of the guarded machine `vops ext` is the same instruction of the real machine;
* `GoodI.of_liveEq`, `PInv.of_liveEq`, `CalleeOk` — the invariants are properties of the live part of a state;
* `runN_live_congruence_machine` — from a reachable state satisfying the bundled invariant `VmOkP` and a live-equal
  state (possibly NOT reachable: the constructed reference state `Resume s0 v h`), any number of instructions of the
  real machine end in live-equal states with the same flag.
-/
namespace Marwood.Lemmas.Good
open Marwood Marwood.Vm Marwood.Vm.Verify Marwood.Vm.Concrete Marwood.Lemmas.Sim
open Marwood.Heap (GcState)

variable {ext : ExtOps} {ecl : ExtCodeLawsV ext}

/-- **`LiveLaws` for the concrete heap over the value-typed laws** -/
theorem concreteLiveLawsV (ext : ExtOps) (ecl : ExtCodeLawsV ext) : LiveLaws (concreteLawsV ext ecl) where
  makeClosure := by
    intro h lam ep bp a b hi _
    have inv : CInvG IsValue h := hi
    show makeClosure h lam ep bp a = makeClosure h lam ep bp b
    unfold makeClosure
    cases hl : lambdaAt h lam with
    | none => rfl
    | some l =>
      simp only
      rw [closureSlots_stack h ep bp a b l.envmap (inv.noIofArg lam l (lambdaAt_iff.mp hl))]
  makeActivation := by
    intro h lam env bp a b _ hbp hag
    show makeActivation h lam env bp a = makeActivation h lam env bp b
    unfold makeActivation
    cases hl : lambdaAt h lam with
    | none => rfl
    | some l =>
      simp only
      cases he : envAt h env with
      | none => rfl
      | some olds =>
        simp only
        rw [activationSlots_stack hbp hag]

/-- the reads of `gops` put back into `vops` give `gops` -/
theorem vops_withReads (ext : ExtOps) :
    (vops ext).withReads (gops ext).globGet (gops ext).envGet (gops ext).vectorPush = gops ext := rfl

/-- **the converse of `step_vops`**: on a `GoodI` state whose callee passes the guard, a successful instruction of the
    guarded machine is the same instruction of the real concrete machine -/
theorem step_vops_conv {s : St CHeap} (g : GoodI s) (hc : CalleeSite s → CalleeOk s) {r : St CHeap × Bool}
    (hs : step (vops ext) s = .ok r) : step (concreteOps ext) s = .ok r := by
  have h1 : step (gops ext) s = .ok r := by
    rw [← vops_withReads ext]
    refine step_wr (vops ext) (gops ext).globGet (gops ext).envGet (gops ext).vectorPush s ?_ ?_ ?_ hs
    · intro n; exact (vglobGet_eq g.hg.plain n).symm
    · intro a k; exact (venvGet_eq g.hg.env a k).symm
    · intro s1 d st1 h' _ _ hvp
      have hvp' : vvectorPush ext s.heap (deref s.heap d) s.acc = .ok h' := hvp
      unfold vvectorPush at hvp'
      split at hvp'
      · exact hvp'
      · cases hvp'
  rw [← step_gops_site ext hc]; exact h1

theorem rootsOf_liveEq {a b : St CHeap} (h : LiveEq a b) : rootsOf b = rootsOf a := by
  unfold rootsOf
  rw [← h.heap, ← h.cells, ← h.acc, ← h.ipL, ← h.ep]

/-- the heap-simulation invariant is a property of the live part of a state -/
theorem GoodI.of_liveEq {a b : St CHeap} (g : GoodI a) (h : LiveEq a b) : GoodI b :=
  ⟨by rw [← h.heap]; exact g.hg, by rw [rootsOf_liveEq h, ← h.heap]; exact g.roots, by rw [← h.acc]; exact g.accv⟩

theorem PInv.of_liveEq {a b : St CHeap} (p : PInv a) (h : LiveEq a b) : PInv b := by
  refine ⟨by rw [← h.heap]; exact p.hp, by rw [← h.heap, ← h.acc]; exact p.acc, ?_⟩
  intro i v hi hv
  rw [← h.heap]
  have hi' : i < b.stack.sp + 1 := by omega
  have e1 : (b.stack.cells.take (b.stack.sp + 1))[i]? = some v := by
    rw [List.getElem?_take]; simp [hi', hv]
  rw [← h.cells, List.getElem?_take] at e1
  have hi2 : i < a.stack.sp + 1 := by rw [h.sp]; exact hi'
  simp only [hi2, if_true] at e1
  exact p.stk i v (by omega) e1

theorem calleeOk_of_liveEq {a b : St CHeap} (hc : CalleeOk a) (h : LiveEq a b) : CalleeOk b := by
  unfold CalleeOk at hc ⊢
  rw [← h.heap, ← h.acc]; exact hc

/-- a state on which `run_one` succeeds has not halted: the bundled invariant gives WF-stack -/
theorem VmOk.wfs_of_step {s : St CHeap} (h : VmOk ext ecl s) {r : St CHeap × Bool}
    (hs : step (concreteOps ext) s = .ok r) : ∃ K, WFS (concreteLawsV ext ecl) s K := by
  rcases h.2 with hw | hh
  · exact hw
  · exact absurd hs (haltedAt_no_step hh r)

/-- **live congruence of runs of the REAL machine**: `a` reachable and satisfying the bundled invariant, `b` live-equal
    to it (any capacity, any stale cells; not necessarily reachable) — `m` instructions of `run_one` over
    `concreteOps ext` from both end in live-equal states with the same flag (HALT reached together). `FitOK`: an
    invoked continuation's stack copy fits the capacity of the second machine's stack. -/
theorem runN_live_congruence_machine (force : Bool) (el : ExtLaws ext) (eg : ExtGood ext) (ep : ExtProc ext)
    {t0 : St CHeap} (sb : SizeBounded (machine ext force) t0) :
    ∀ (m : Nat) {a b r1 : St CHeap} {bl : Bool}, Reaches (machine ext force) t0 a → VmOkP ext ecl a → LiveEq a b →
      b.stack.sp < b.stack.cells.length → FitOK (concreteOps ext) m a b →
      runN (concreteOps ext) m a = .ok (r1, bl) →
      ∃ r2, runN (concreteOps ext) m b = .ok (r2, bl) ∧ LiveEq r1 r2 := by
  intro m
  induction m with
  | zero =>
    intro a b r1 bl _ _ heq _ _ hr
    simp only [runN] at hr ⊢
    cases hr
    exact ⟨b, rfl, heq⟩
  | succ m ih =>
    intro a b r1 bl hreach hv heq hcap2 hfo hr
    obtain ⟨hfit, hnext⟩ := hfo
    simp only [runN] at hr ⊢
    cases hst : step (concreteOps ext) a with
    | err e => rw [hst] at hr; cases hr
    | panic x => rw [hst] at hr; cases hr
    | ok q =>
      obtain ⟨a', b1⟩ := q
      obtain ⟨K, hw⟩ := hv.1.wfs_of_step hst
      have hco : CalleeOk a := hv.calleeOk
      have hsm' : Small a'.heap := by
        cases b1 with
        | false =>
          refine sb a' (.next hreach ?_)
          show vmStep (concreteOps ext) a = .next a'
          unfold vmStep; rw [hst]
        | true =>
          refine sb a' (.halt hreach ?_)
          show vmStep (concreteOps ext) a = .halt a'
          unfold vmStep; rw [hst]
      have hvs : step (vops ext) a = .ok (a', b1) := step_vops eg hv.1.1 (fun _ => hco) hst hsm'
      have hfit' : ∀ c, (vops ext).callee a.heap a.acc = .continuation c →
          c.stack.cells.length ≤ b.stack.cells.length := by
        intro c hc
        exact hfit c (gcallee_cont hc)
      obtain ⟨b', hsb, hle, hcb⟩ := step_live_congruence_wf (concreteLiveLawsV ext ecl) hw heq hcap2 hfit' hvs
      have hsb' : step (concreteOps ext) b = .ok (b', b1) :=
        step_vops_conv (hv.1.1.of_liveEq heq) (fun _ => calleeOk_of_liveEq hco heq) hsb
      rw [hst] at hr
      rw [hsb']
      cases b1 with
      | true =>
        simp only at hr ⊢
        cases hr
        exact ⟨b', rfl, hle⟩
      | false =>
        simp only at hr ⊢
        have hreach' : Reaches (machine ext force) t0 a' := by
          refine .next hreach ?_
          show vmStep (concreteOps ext) a = .next a'
          unfold vmStep; rw [hst]
        exact ih hreach' (vmOkP_step el eg ep hv (sb a hreach) hst hsm') hle hcb (hnext a' b' hst hsb') hr

end Marwood.Lemmas.Good
