import Marwood.Lemmas.EvalFrameMain
import Marwood.Lemmas.EvalExtraCut
/-!
# The frame property (T01.1) for the GUARDED evaluator

`recOK_evalN` (`EvalFrameMain.lean`): code that does not mention the name `x`, run in a state no value
of which mentions `x`, does not depend on the global binding of `x`. The guard of `guardN` looks at
the store only, which similar states share, so the same holds for `guardN`. Used with `x = force`:
the native side binds `force` to the primitive, the expansion's side to the prelude's procedure.
-/
namespace Marwood.Spec.Eval
open Marwood

variable {x : Text}

theorem resp_guardApply {r : Rec} (hr : RecOK x r) (f : Val) (args : List Val) (hf : CleanVal x f)
    (ha : CleanVals x args) : Resp x (guardApply r f args) (CleanVal x) := by
  intro st st' rel
  have hs : st'.store = st.store := rel.2.store
  unfold guardApply
  rw [hs]
  split
  · trivial
  · exact resp_applyStep hr f args hf ha st st' rel

/-- the guarded evaluator with any amount of fuel respects the frame -/
theorem recOK_guardN : ∀ (n : Nat), RecOK x (guardN n)
  | 0 => ⟨fun _ _ _ => Resp.timeout, fun _ _ _ _ => Resp.timeout⟩
  | n+1 => ⟨fun e ρ he => resp_evalStep (recOK_guardN n) e ρ he,
            fun f args hf ha => resp_guardApply (recOK_guardN n) f args hf ha⟩

/-- rebinding the global `x` in a state that is clean of `x` gives a similar state -/
theorem rel_rebind {st : St} (hi : Inv x st) (w : Val) :
    Rel x st { st with globals := insertG x w st.globals } := by
  refine ⟨hi, rfl, rfl, fun y hy => ?_⟩
  simp only [lookup_insertG]
  rw [if_neg (by simpa using hy)]

/-- **frame, guarded**: evaluating `e` (no occurrence of `x`) from a state clean of `x` and from the
    same state with `x` rebound gives the same kind of outcome, the same value, the same store and
    output log, globals that agree off `x` -/
theorem frame_guardN (n : Nat) (e : Datum) (ρ : Env) (he : Clean x e) {st : St} (hi : Inv x st) (w : Val) :
    RRes x (CleanVal x) ((guardN n).eval e ρ st) ((guardN n).eval e ρ { st with globals := insertG x w st.globals }) :=
  (recOK_guardN n).eval e ρ he st _ (rel_rebind hi w)

end Marwood.Spec.Eval
