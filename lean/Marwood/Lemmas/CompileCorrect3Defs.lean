import Marwood.Lemmas.CompileCorrect2Main
/-!
# T01.3 STAGE 3 — rest parameters, internal definitions: definitions

Stage 2 (`CompileCorrect2*.lean`, untouched) covers `(lambda (x …) body …)` with fixed arity and bodies without
definitions. Stage 3 is a second, more general development over the same machine, compiler model, representation
data (`RepData2`), world (`World`), environment denotation (`Denotes`) and code layout (`CodeAt2`):

* `F3` ⊇ `F2` — adds `(lambda (x … . r) body …)` / `(lambda r body …)` (the compiler emits `VARARG; ENTER`) and
  bodies that begin with internal definitions `(define y e) …` followed by at least one expression. The
  additional index `us` is the set of lexically bound names that may not be READ yet: the internal names whose
  definition has not been evaluated. Marwood leaves such a slot `Undefined` and reads it without complaint,
  `Spec.Eval` reads `#<undefined>` — one of the documented divergences (DESIGN §7.5) — so the fragment demands
  (decidably, on the program) that a name is referenced, or captured by a `lambda`, only after its definition;
* `VR3` — values: stage-1 values (`D.VR`), closures (`ClosOK3`: any formals, any leading definitions), and heap
  pairs whose components are `VR3` values (the list VARARG builds may contain closures);
* `InitM` — a variable slot holds a value that is not the `Undefined` marker; `EnvRep3` = stage-2 `EnvRep` + the
  readable names are initialised; `Inv3` = `Inv2` with `VR3`, where a related location may still be uninitialised;
* `Ext3` = `Ext2` + heap pairs and initialised slots are kept; `Laws3` — the ASSUMED heap laws: those of stage 2
  (without its blanket builtin law), `put` (VARARG), the `Undefined` content of internal slots after ENTER, and
  the behaviour of the first-order builtins (`call`).

Later additions (same file, same signatures):
* CLOSURE ENVIRONMENTS ARE NEVER WRITTEN. On the real heap ENTER copies the slots of the internal definitions from
  the closure environment, where CLOSURE left `Undefined`; so `D.envOK h e` now MEANS "`e` is a closure environment",
  `Inv3.wact` says that a variable location is never a slot of one, `Ext3.undefOK`/`okBack` that its `Undefined` slots
  stay and that an existing environment does not become one, `ClosOK3` records the `Undefined` internal slots, and the
  laws `envPut_ok` / `activation_ok` / `put_val` are stated accordingly. With this the laws are THEOREMS for the
  concrete heap (`CompileCorrect3Concrete*.lean`).
* RECURSION THROUGH INTERNAL DEFINITIONS: `F3B.block` / `F3K` — a block of consecutive definitions whose initialisers
  are `lambda` expressions (`(define g (lambda …))`, `(define (g . formals) …)`); the lambda bodies may mention every
  name of the block. `ClosOK3g` / `EnvRep3g` are `ClosOK3` / `EnvRep3` with the demand on a captured / readable
  location as a parameter (inside a block a captured location of the block is not initialised yet):
  `CompileCorrect3Rec*.lean`.
-/
namespace Marwood.Lemmas.CompileCorrect3
open Marwood Marwood.Vm Marwood.Lemmas.CompileCorrect Marwood.Lemmas.CompileCorrect2
open Marwood.Spec.Eval (Val Prim Cell Env evalN evalStep applyStep evalArgs properList quoteVal kwOf insertG
  k_quote k_if_ k_setBang k_define k_lambda)

variable {H : Type}

/-- `(define x e)` -/
def defForm (x : Text) (e : Datum) : Datum := .pair (.sym k_define) (.pair (.sym x) (.pair e .nil))

/-- `(define (x . formals) body …)` -/
def curForm (x : Text) (formals body : Datum) : Datum := .pair (.sym k_define) (.pair (.pair (.sym x) formals) body)

/-- the map `new_from_iof` builds: formals, internal definitions, captured variables -/
def em3 (fs ints : List Text) (caps : List (Text × Source)) : List (Text × Source) :=
  argEntries fs ++ ints.map (fun s => (s, Source.internal)) ++ caps

/-! ## the fragment -/

mutual
/-- `F3 G fuel c ns us tail e`: as `F2`, with `us` = the bound names that may not be read yet -/
inductive F3 (G : Text → Prop) : Nat → Ctx → (Text → Prop) → (Text → Prop) → Bool → Datum → Prop
  | bool {f c ns us t} (b : Bool) : F3 G (f + 1) c ns us t (.bool b)
  | char {f c ns us t} (ch : Char) : F3 G (f + 1) c ns us t (.char ch)
  | num {f c ns us t} (n : Num) : F3 G (f + 1) c ns us t (.num n)
  | str {f c ns us t} (s : Text) : F3 G (f + 1) c ns us t (.str s)
  | quote {f c ns us t} (d rest : Datum) : F3 G (f + 1) c ns us t (.pair (.sym k_quote) (.pair d rest))
  | vecc {f c ns us t} (e : Datum) : F3 G (f + 1) c ns us t (.vec e)
  /-- a reference: the name is readable -/
  | sym {f c ns us t} (x : Text) : (inEnv c x = true ↔ ns x) → ¬ us x → F3 G (f + 1) c ns us t (.sym x)
  | setBang {f c ns us t} (x : Text) (e : Datum) : (inEnv c x = true ↔ ns x) → (¬ ns x → G x) →
      F3 G f c ns us false e →
      F3 G (f + 1) c ns us t (.pair (.sym k_setBang) (.pair (.sym x) (.pair e .nil)))
  | if2 {f c ns us t} (tst cn : Datum) : F3 G f c ns us false tst → F3 G f c ns us t cn →
      F3 G (f + 1) c ns us t (.pair (.sym k_if_) (.pair tst (.pair cn .nil)))
  | if3 {f c ns us t} (tst cn al : Datum) : F3 G f c ns us false tst → F3 G f c ns us t cn → F3 G f c ns us t al →
      F3 G (f + 1) c ns us t (.pair (.sym k_if_) (.pair tst (.pair cn (.pair al .nil))))
  | app {f c ns us t} (fn args : Datum) : AppHead fn → F3 G f c ns us false fn → F3L G f c ns us args →
      F3 G (f + 1) c ns us t (.pair fn args)
  /-- `(lambda formals body…)`: formals `(x …)`, `(x … . r)` or `r`, all parameters and internally defined
      names distinct; the map of the new lambda is formals, internal definitions, captured variables; every
      captured variable is readable where the closure is created -/
  | lambda {f c ns us t} (formals body : Datum) (p : LambdaParts) (ps : List Text) (rest : Option Text)
      (ints : List Text) (caps : List (Text × Source)) :
      lambdaParts f c (.pair (.sym k_lambda) (.pair formals body)) false = .ok p →
      Spec.Eval.parseFormals formals = some (ps, rest) → p.formals = ps ++ rest.toList →
      p.isVararg = rest.isSome → (ps ++ rest.toList ++ ints).Nodup →
      p.ctx.envmap = em3 (ps ++ rest.toList) ints caps →
      (∀ q ∈ caps, q.2 = .iofEnvironment ∧ inEnv c q.1 = true ∧ ¬ us q.1) →
      F3B G f p.ctx (fun x => x ∈ ps ++ rest.toList ++ ints ∨ ns x) (fun x => x ∈ ints) ints body →
      F3 G (f + 1) c ns us t (.pair (.sym k_lambda) (.pair formals body))
/-- operand lists -/
inductive F3L (G : Text → Prop) : Nat → Ctx → (Text → Prop) → (Text → Prop) → Datum → Prop
  | nil {f c ns us} : F3L G (f + 1) c ns us .nil
  | cons {f c ns us} (a d : Datum) : F3 G f c ns us false a → F3L G f c ns us d → F3L G (f + 1) c ns us (.pair a d)
/-- bodies: leading definitions (of exactly the names `ints`, in order), then expressions, the last one in tail
    position -/
inductive F3B (G : Text → Prop) : Nat → Ctx → (Text → Prop) → (Text → Prop) → List Text → Datum → Prop
  | last {f c ns us} (x : Datum) : Spec.Eval.isDefine x = false → F3 G f c ns us true x →
      F3B G (f + 1) c ns us [] (.pair x .nil)
  | cons {f c ns us} (x y rest : Datum) : Spec.Eval.isDefine x = false → F3 G f c ns us false x →
      F3B G f c ns us [] (.pair y rest) → F3B G (f + 1) c ns us [] (.pair x (.pair y rest))
  /-- `(define x e)`: `e` may not read `x` or a later name; afterwards `x` is readable -/
  | defv {f c ns us} (x : Text) (e y rest : Datum) (ints : List Text) : inEnv c x = true → ns x →
      Spec.Eval.reserved x = false → F3 G f c ns us false e →
      F3B G (f + 1) c ns (fun z => us z ∧ z ≠ x) ints (.pair y rest) →
      F3B G (f + 2) c ns us (x :: ints) (.pair (defForm x e) (.pair y rest))
  /-- a block of definitions whose initialisers are `lambda` expressions (self and mutual recursion): the lambda
      bodies may mention every name of the block; nothing is evaluated between the first and the last definition
      of the block but `lambda` expressions, so no name of the block is read before all of them are initialised -/
  | block {f c ns us} (Bs ints : List Text) (body : Datum) : Bs ≠ [] → F3K G f c ns us Bs Bs ints body →
      F3B G f c ns us ints body
/-- inside a block `Bs` of `lambda`-initialised definitions: `todo` = the names of the block still to be defined, in
    order; `us` = the unreadable names BEFORE the block. The `lambda` expression is typed as if the names of the whole
    block were readable (it only captures their locations); the rest of the body is typed with the block readable. -/
inductive F3K (G : Text → Prop) : Nat → Ctx → (Text → Prop) → (Text → Prop) → List Text → List Text → List Text →
    Datum → Prop
  | defl {f c ns us Bs todo} (x : Text) (formals lbody y rest : Datum) (ints : List Text) : inEnv c x = true → ns x →
      Spec.Eval.reserved x = false →
      F3 G f c ns (fun z => us z ∧ z ∉ Bs) false (.pair (.sym k_lambda) (.pair formals lbody)) →
      F3K G (f + 1) c ns us Bs todo ints (.pair y rest) →
      F3K G (f + 2) c ns us Bs (x :: todo) (x :: ints)
        (.pair (defForm x (.pair (.sym k_lambda) (.pair formals lbody))) (.pair y rest))
  /-- `(define (x . formals) lbody …)`: the same, the `lambda` being implicit (`compile_define` builds the code
      object from the definition form itself) -/
  | defc {f c ns us Bs todo} (x : Text) (formals lbody y rest : Datum) (ints : List Text) (p : LambdaParts)
      (ps : List Text) (rst : Option Text) (lints : List Text) (caps : List (Text × Source)) : inEnv c x = true → ns x →
      Spec.Eval.reserved x = false →
      lambdaParts f c (curForm x formals lbody) true = .ok p →
      Spec.Eval.parseFormals formals = some (ps, rst) → p.formals = ps ++ rst.toList →
      p.isVararg = rst.isSome → (ps ++ rst.toList ++ lints).Nodup →
      p.ctx.envmap = em3 (ps ++ rst.toList) lints caps →
      (∀ q ∈ caps, q.2 = .iofEnvironment ∧ inEnv c q.1 = true ∧ ¬ (us q.1 ∧ q.1 ∉ Bs)) →
      F3B G f p.ctx (fun z => z ∈ ps ++ rst.toList ++ lints ∨ ns z) (fun z => z ∈ lints) lints lbody →
      F3K G (f + 1) c ns us Bs todo ints (.pair y rest) →
      F3K G (f + 2) c ns us Bs (x :: todo) (x :: ints) (.pair (curForm x formals lbody) (.pair y rest))
  | done {f c ns us Bs} (ints : List Text) (body : Datum) : F3B G f c ns (fun z => us z ∧ z ∉ Bs) ints body →
      F3K G f c ns us Bs [] ints body
end

/-! ## representation -/

variable {ops : HeapOps H}

/-- the slot holds a value (not a pointer) that is not the marker of an uninitialised variable -/
def InitM (ops : HeapOps H) (h : H) (e n : Nat) : Prop :=
  ∃ v, ops.envGet h e n = some v ∧ isEnvPtr v = false ∧ v ≠ .undefined

/-- `ClosOK3` with the demand on a captured location as a parameter `P` (inside a block of mutually recursive
    definitions a captured location of the block is not initialised yet) -/
def ClosOK3g (D : RepData2 ops) (W : World) (h : H) (P : Nat → Nat → Prop) (lam cenv : Nat) (ps : List Text)
    (rest : Option Text) (body : List Datum) (ρc : Env) : Prop :=
  ∃ (f : Nat) (cst cst1 : CState) (co : Ctx) (p : LambdaParts) (bcode : List BC) (ints : List Text)
    (caps : List (Text × Source)),
    p.formals = ps ++ rest.toList ∧ p.isVararg = rest.isSome ∧ p.ctx.args = p.formals ∧
    p.prologue = (if p.isVararg then [BC.op .varArg] else []) ++ [BC.op .enter] ∧
    (ps ++ rest.toList ++ ints).Nodup ∧ properList p.body = some body ∧
    compileBody f cst p.ctx p.prologue.length p.body = .ok (cst1, bcode) ∧
    D.final[cst1.lambdas.length]? = some (lamOf p bcode) ∧ cst1.lambdas <+: D.final ∧
    lam = D.LM cst1.lambdas.length ∧ ops.isLambda h lam = true ∧
    F3B D.setG f p.ctx (fun x => x ∈ ps ++ rest.toList ++ ints ∨ bound ρc x) (fun x => x ∈ ints) ints p.body ∧
    D.lamSrcs h lam = some (p.ctx.envmap.map (rsrc co.envmap)) ∧
    p.ctx.envmap = em3 (ps ++ rest.toList) ints caps ∧ (∀ q ∈ caps, q.2 = .iofEnvironment) ∧
    (∀ j, j < p.ctx.envmap.length → ∃ g, ops.envGet h cenv j = some g) ∧
    (∀ j x, (ps ++ rest.toList ++ ints).length ≤ j → p.ctx.envmap[j]? = some (x, .iofEnvironment) →
      ∃ e n l, ops.envGet h cenv j = some (.lexEnvPtr e n) ∧ ρc.lookup x = some l ∧ W e n l ∧ P e n) ∧
    D.envOK h cenv ∧
    (∀ j x, p.ctx.envmap[j]? = some (x, .internal) → ops.envGet h cenv j = some .undefined)

/-- closure `(lam, cenv)` is the value of a `lambda` with parameters `ps`, rest parameter `rest` and body `body`
    closed over `ρc`: every captured location is initialised; the slots of the closure environment that stand for
    the internal definitions hold `Undefined` (ENTER copies them) -/
def ClosOK3 (D : RepData2 ops) (W : World) (h : H) (lam cenv : Nat) (ps : List Text) (rest : Option Text)
    (body : List Datum) (ρc : Env) : Prop :=
  ClosOK3g D W h (InitM ops h) lam cenv ps rest body ρc

/-- machine value `v` represents `w` -/
inductive VR3 (D : RepData2 ops) (W : World) (h : H) (S : Array Cell) : VCell → Val → Prop
  | base {v w} : D.VR h S v w → VR3 D W h S v w
  | clos {v lam cenv ps rest body ρc} : ops.callee h v = .closure lam cenv →
      ClosOK3 D W h lam cenv ps rest body ρc → VR3 D W h S v (.closure ps rest body ρc)
  | pair {v l a d pa pd} : S[l]? = some (.pair a d) → ops.deref h v = .pair pa pd →
      VR3 D W h S (.ptr pa) a → VR3 D W h S (.ptr pd) d → VR3 D W h S v (.pair l)

/-- what later heaps keep -/
structure Ext3 (D : RepData2 ops) (h : H) (S : Array Cell) (h' : H) (S' : Array Cell) : Prop
    extends Ext2 D h S h' S' where
  pairs : ∀ v a d, ops.deref h v = .pair a d → ops.deref h' v = .pair a d
  init : ∀ e k, InitM ops h e k → InitM ops h' e k
  /-- a closure environment is never written: its `Undefined` slots stay `Undefined` -/
  undefOK : ∀ e k, D.envOK h e → ops.envGet h e k = some .undefined → ops.envGet h' e k = some .undefined
  /-- an existing environment does not become a closure environment -/
  okBack : ∀ e k v, ops.envGet h e k = some v → D.envOK h' e → D.envOK h e

/-- `EnvRep3` with the demand on a readable name as a parameter -/
def EnvRep3g (ops : HeapOps H) (W : World) (h : H) (P : Nat → Nat → Prop) (c : Ctx) (ep : Nat) (ρ : Env)
    (us : Text → Prop) : Prop :=
  ∀ x j, slotIdx c.envmap x = some j →
    ∃ e n l, Denotes ops h ep j e n ∧ ρ.lookup x = some l ∧ W e n l ∧ (¬ us x → P e n)

/-- the current environment represents `ρ` through the binding context; the readable names are initialised -/
def EnvRep3 (ops : HeapOps H) (W : World) (h : H) (c : Ctx) (ep : Nat) (ρ : Env) (us : Text → Prop) : Prop :=
  EnvRep3g ops W h (InitM ops h) c ep ρ us

/-- heap represents the specification state; a related location is a value slot that represents the
    variable's content once it is initialised -/
structure Inv3 (D : RepData2 ops) (W : World) (h : H) (σ : SSt) : Prop where
  bound : ∀ x w, D.named x → σ.globals.lookup x = some w → VR3 D W h σ.store (ops.globGet h (D.slot x)) w
  unbound : ∀ x, D.named x → σ.globals.lookup x = none → ops.globGet h (D.slot x) = .undefined
  extra : D.SRx h σ.store
  gset : ∀ x, D.setG x → σ.globals.lookup x ≠ none
  loaded : AllLoaded D h σ.store
  wfun : ∀ e n l l', W e n l → W e n l' → l = l'
  winj : ∀ e n e' n' l, W e n l → W e' n' l → e = e' ∧ n = n'
  vars : ∀ e n l, W e n l → ∃ v w, ops.envGet h e n = some v ∧ isEnvPtr v = false ∧
    σ.store[l]? = some (.var w) ∧ (v ≠ .undefined → VR3 D W h σ.store v w)
  /-- a variable location is not a slot of a closure environment (`D.envOK`: what CLOSURE builds) -/
  wact : ∀ e n l, W e n l → ¬ D.envOK h e

/-- a heap step that keeps the store, every environment slot and every global -/
structure Step3 (D : RepData2 ops) (h : H) (S : Array Cell) (h' : H) : Prop where
  ext : Ext3 D h S h' S
  srx : D.SRx h' S
  env : ∀ e k, ops.envGet h' e k = ops.envGet h e k
  glob : ∀ m, ops.globGet h' m = ops.globGet h m

/-- the builtins that call back into the evaluator (re-dispatch): outside the fragment of the main theorem -/
def Redisp : Prim → Prop
  | .apply | .eval | .force | .map | .forEach => True
  | _ => False

/-- `v` is the list of `xs` in store `S` -/
inductive ListIn (S : Array Cell) : Val → List Val → Prop
  | nil : ListIn S .nil []
  | cons {l a d as} : S[l]? = some (.pair a d) → ListIn S d as → ListIn S (.pair l) (a :: as)

/-- the ASSUMED laws of stage 3 -/
structure Laws3 (D : RepData2 ops) : Prop where
  slot_inj : ∀ a b, D.named a → D.named b → D.slot a = D.slot b → a = b
  truth : ∀ h S v w, D.VR h S v w → (ops.deref h v = .bool false ↔ w = .bool false)
  ne_undefined : ∀ h S v w, D.VR h S v w → v ≠ .undefined
  not_envptr : ∀ h S v w, D.VR h S v w → isEnvPtr v = false
  void : ∀ h S, D.VR h S .void .void
  nil : ∀ h S, D.VR h S .nil .nil
  /-- stage-1 values are not closures, and not the re-dispatching builtins -/
  vr_no_closure : ∀ h S v a b c e, ¬ D.VR h S v (.closure a b c e)
  vr_no_redisp : ∀ h S v p, D.VR h S v (.prim p) → ¬ Redisp p
  clos_true : ∀ h v l e, ops.callee h v = .closure l e → ops.deref h v ≠ .bool false
  clos_ne_undefined : ∀ h v l e, ops.callee h v = .closure l e → v ≠ .undefined
  clos_not_envptr : ∀ h v l e, ops.callee h v = .closure l e → isEnvPtr v = false
  pair_ne_undefined : ∀ h v a d, ops.deref h v = .pair a d → v ≠ .undefined
  pair_not_envptr : ∀ h v a d, ops.deref h v = .pair a d → isEnvPtr v = false
  vr_pair : ∀ h S v (l : Nat) a d pa pd, S[l]? = some (.pair a d) → ops.deref h v = .pair pa pd →
    D.VR h S (.ptr pa) a → D.VR h S (.ptr pd) d → D.VR h S v (.pair l)
  vr_vec : ∀ h S v (l : Nat) xs ps, S[l]? = some (.vec xs) → D.vecElems h v = some ps → All2 (D.VR h S) ps xs →
    D.VR h S v (.vec l)
  vr_store : ∀ h S S' v w, StoreExt S S' → D.VR h S v w → D.VR h S' v w
  srx_store : ∀ h S S', StoreExt S S' → D.SRx h S → D.SRx h S'
  glob_get_put : ∀ h S x v m, D.SRx h S → D.named x →
    ops.globGet (ops.globPut h (D.slot x) v) m = if m = D.slot x then v else ops.globGet h m
  globPut_ext : ∀ h S n u, D.SRx h S → Ext3 D h S (ops.globPut h n u) S ∧ D.SRx (ops.globPut h n u) S ∧
    ∀ e k, ops.envGet (ops.globPut h n u) e k = ops.envGet h e k
  /-- assignment to a slot (not of a closure environment) that holds a value; the new content is a value and not
      the marker -/
  envPut_ok : ∀ h S e k old u, D.SRx h S → ¬ D.envOK h e → ops.envGet h e k = some old → isEnvPtr old = false →
    isEnvPtr u = false → u ≠ .undefined →
    ∃ h', ops.envPut h e k u = some h' ∧ Ext3 D h S h' S ∧ D.SRx h' S ∧
      (∀ e' k', ops.envGet h' e' k' = if e' = e ∧ k' = k then some u else ops.envGet h e' k') ∧
      ∀ m, ops.globGet h' m = ops.globGet h m
  closure_ok : ∀ h S lam ep bp st (srcs : List RSrc), D.SRx h S → ops.isLambda h lam = true → D.lamSrcs h lam = some srcs →
    (∀ (j : Nat) k, srcs[j]? = some (RSrc.iofEnv k) → ∃ g, ops.envGet h ep k = some g) →
    (∀ (j : Nat) n, srcs[j]? ≠ some (RSrc.iofArg n)) →
    ∃ h' p cenv, ops.makeClosure h lam ep bp st = .ok (h', .ptr p) ∧
      ops.callee h' (.ptr p) = .closure lam cenv ∧ (∀ k, ops.envGet h cenv k = none) ∧
      (∀ (j : Nat) src, srcs[j]? = some src → ops.envGet h' cenv j = some (cloSlot ops h ep src)) ∧
      (∀ e k, e ≠ cenv → ops.envGet h' e k = ops.envGet h e k) ∧
      (∀ m, ops.globGet h' m = ops.globGet h m) ∧ Ext3 D h S h' S ∧ D.SRx h' S ∧ D.envOK h' cenv
  /-- ENTER of a closure: arguments from the stack, the slots of the internal definitions copied from the closure
      environment (where CLOSURE left them `Undefined`), captured entries copied; the new environment is not a
      closure environment -/
  activation_ok : ∀ h S lam cenv bp (st : Stack) (srcs : List RSrc) nargs, D.SRx h S → ops.isLambda h lam = true →
    D.lamSrcs h lam = some srcs → ops.lambdaInfo h lam = some ⟨nargs⟩ →
    D.envOK h cenv →
    (∀ (j : Nat) src, srcs[j]? = some src → ∃ g, ops.envGet h cenv j = some g) →
    (∀ (j : Nat) i, srcs[j]? = some (RSrc.arg i) → i < nargs ∧ nargs - i ≤ bp ∧ bp - (nargs - i) + 1 < st.cells.length) →
    (∀ (j : Nat), srcs[j]? = some RSrc.internal → ops.envGet h cenv j = some .undefined) →
    ∃ h' a, ops.makeActivation h lam cenv bp st = .ok (h', a) ∧ (∀ k, ops.envGet h a k = none) ∧
      (∀ (j : Nat) i v, srcs[j]? = some (RSrc.arg i) → st.cells[bp - (nargs - i) + 1]? = some v →
        ops.envGet h' a j = some v) ∧
      (∀ (j : Nat), srcs[j]? = some RSrc.internal → ops.envGet h' a j = some .undefined) ∧
      (∀ (j : Nat) k, srcs[j]? = some (RSrc.iofEnv k) → ops.envGet h' a j = some (actCaptured cenv j (ops.envGet h cenv j))) ∧
      (∀ e k, e ≠ a → ops.envGet h' e k = ops.envGet h e k) ∧
      (∀ m, ops.globGet h' m = ops.globGet h m) ∧ Ext3 D h S h' S ∧ D.SRx h' S ∧ ¬ D.envOK h' a
  /-- `heap.put` of a represented value (VARARG): a pointer through which the machine observes the same value -/
  put_val : ∀ h S v W w, D.SRx h S → VR3 D W h S v w → ∃ h' a, ops.put h v = (h', .ptr a) ∧ Step3 D h S h' ∧
    (∀ w, D.VR h S v w → D.VR h' S (.ptr a) w) ∧
    (∀ l e, ops.callee h v = .closure l e → ops.callee h' (.ptr a) = .closure l e) ∧
    (∀ x y, ops.deref h v = .pair x y → ops.deref h' (.ptr a) = .pair x y)
  /-- `heap.put` of a fresh pair -/
  put_pair : ∀ h S a d, D.SRx h S → ∃ h' p, ops.put h (.pair a d) = (h', .ptr p) ∧ Step3 D h S h' ∧
    ops.deref h' (.ptr p) = .pair a d
  /-- `CALL`/`TCALL` with a first-order primitive procedure in `acc` -/
  call : ∀ n W h (σ : SSt) vf p vs ws w (σ' : SSt), Inv3 D W h σ → D.VR h σ.store vf (.prim p) →
    All2 (VR3 D W h σ.store) vs ws → (evalN n).apply (.prim p) ws σ = .ok w σ' →
    ∃ id h' r, ops.callee h vf = .builtin id ∧ ops.builtinKind h id = .generic ∧
      builtinResult ops h id vs.reverse = .ok (h', r) ∧
      VR3 D W h' σ'.store r w ∧ Inv3 D W h' σ' ∧ Ext3 D h σ.store h' σ'.store

/-! ## what a run establishes -/

structure Run3 (D : RepData2 ops) (W' : World) (s : MSt H) (len : Nat) (σ σ' : SSt) (w : Val) (s' : MSt H) :
    Prop where
  steps : Steps ops s s'
  ipL : s'.ipL = s.ipL
  ipO : s'.ipO = s.ipO + len
  bp : s'.bp = s.bp
  ep : s'.ep = s.ep
  stack : LiveEq s.stack s'.stack
  swf : SWF s'.stack
  acc : VR3 D W' s'.heap σ'.store s'.acc w
  inv : Inv3 D W' s'.heap σ'
  ext : Ext3 D s.heap σ.store s'.heap σ'.store

structure ArgsRun3 (D : RepData2 ops) (W' : World) (s : MSt H) (len : Nat) (σ σ' : SSt) (ws : List Val)
    (vs : List VCell) (s' : MSt H) : Prop where
  steps : Steps ops s s'
  ipL : s'.ipL = s.ipL
  ipO : s'.ipO = s.ipO + len
  bp : s'.bp = s.bp
  ep : s'.ep = s.ep
  stack : LiveEq (pushAll s.stack vs) s'.stack
  swf : SWF s'.stack
  vals : All2 (VR3 D W' s'.heap σ'.store) vs ws
  inv : Inv3 D W' s'.heap σ'
  ext : Ext3 D s.heap σ.store s'.heap σ'.store

end Marwood.Lemmas.CompileCorrect3
