import Marwood.Lemmas.ConcreteLawsGc
import Marwood.Lemmas.CalleeCongr
import Marwood.Lemmas.StackWFBpLive
import Marwood.Lemmas.SimStepA
/-!
# The concrete machine: the guard is invisible, `BpLive` and `LiveLaws` are theorems

* `step_gops` — in a `CalleeOk` state, one instruction of the callee-guarded machine `gops ext` is one
  instruction of the concrete machine `concreteOps ext` (`Lemmas/CalleeCongr.lean`).
* `simBpLive_of_wfs` — the side condition `BpLive` of `Lemmas/SimStepA.lean` / `SimMain.lean` (C03 side:
  concrete heap, `ip.1` at the operand) from WF-stack of the concrete instance.
* `concreteLiveLaws` — `LiveLaws` (`Lemmas/ContResumeStep.lean`): CLOSURE's environment construction does
  not read the stack at all (`CInv.noIofArg`), ENTER's reads argument cells of the frame it has just
  completed.
-/
namespace Marwood.Vm.Concrete
open Marwood Marwood.Vm Marwood.Vm.Verify

theorem gops_eq (ext : ExtOps) : gops ext = (concreteOps ext).withCallee gcallee := rfl

/-- the guard is invisible in a `CalleeOk` state -/
theorem step_gops (ext : ExtOps) {s : St CHeap} (h : CalleeOk s) :
    step (gops ext) s = step (concreteOps ext) s := by
  rw [gops_eq]; exact step_wc _ _ s h

/-- **`BpLive` of `Lemmas/SimStepA.lean`** (concrete heap, `ip.1` at the operand) **from WF-stack**: the
    `bpLive` field of `Lemmas/SimMain.Good` follows from `WFS (concreteLaws ext ecl) s K`. -/
theorem simBpLive_of_wfs {ext : ExtOps} {ecl : ExtCodeLaws ext} {s : St CHeap} {K : List FDesc}
    (hw : WFS (concreteLaws ext ecl) s K) : Marwood.Lemmas.Sim.BpLive { s with ipO := s.ipO + 1 } := by
  intro l off hl hb
  simp only at hl hb
  have hf : (gops ext).fetch s.heap s.ipL (s.ipO + 1) = some (.bpOffset off) := by
    show (match lambdaAt s.heap s.ipL with | some lam => lam.bc[s.ipO + 1]? | none => none) = _
    rw [hl]; exact hb
  obtain ⟨_, h2, h3⟩ := bpLive_operand_of_wfs hw hf
  show (s.bp : Int) + off ≤ s.stack.sp
  omega

/-! ## `LiveLaws` -/

theorem closureSlots_stack (h : CHeap) (ep bp : Nat) (a b : Stack) :
    ∀ (em : List (VCell × Source)), (∀ x ∈ em, ∀ n, x.2 ≠ Source.iofArg n) →
      closureSlots h ep bp a em = closureSlots h ep bp b em := by
  intro em
  induction em with
  | nil => intro _; rfl
  | cons x rest ih =>
    intro hno
    obtain ⟨sym, src⟩ := x
    unfold closureSlots
    have h1 : closureSlot h ep bp a src = closureSlot h ep bp b src := by
      cases src with
      | iofArg n => exact absurd rfl (hno (sym, .iofArg n) (by simp) n)
      | _ => rfl
    rw [h1, ih (fun y hy => hno y (List.mem_cons_of_mem _ hy))]

theorem activationSlot_stack {a b : Stack} {bp : Nat} (hbp : bp + 4 = a.sp) (hag : Agree a.sp a b)
    (env argc slot : Nat) (old : VCell) (src : Source) :
    activationSlot env bp argc a slot old src = activationSlot env bp argc b slot old src := by
  cases src with
  | arg n =>
    show (usub argc n "enter: argc - arg" >>= fun d => usub bp d "enter: bp - (argc - arg)" >>= fun base =>
        a.get (base + 1)) =
      (usub argc n "enter: argc - arg" >>= fun d => usub bp d "enter: bp - (argc - arg)" >>= fun base =>
        b.get (base + 1))
    cases hu1 : usub argc n "enter: argc - arg" with
    | err e => rfl
    | panic m => rfl
    | ok d =>
      simp only [outcome_bind_ok]
      cases hu2 : usub bp d "enter: bp - (argc - arg)" with
      | err e => rfl
      | panic m => rfl
      | ok base =>
        simp only [outcome_bind_ok]
        have := (usub_ok hu2).2
        exact hag.get_eq (by omega)
  | _ => rfl

theorem activationSlots_stack {a b : Stack} {bp : Nat} (hbp : bp + 4 = a.sp) (hag : Agree a.sp a b)
    (env argc : Nat) : ∀ (em : List (VCell × Source)) (slot : Nat) (olds : List VCell),
      activationSlots env bp argc a slot olds em = activationSlots env bp argc b slot olds em := by
  intro em
  induction em with
  | nil => intro slot olds; cases olds <;> rfl
  | cons x rest ih =>
    intro slot olds
    obtain ⟨sym, src⟩ := x
    cases olds with
    | nil => rfl
    | cons old olds =>
      unfold activationSlots
      rw [activationSlot_stack hbp hag, ih]

/-- **`LiveLaws` for the concrete heap, as a theorem** -/
theorem concreteLiveLaws (ext : ExtOps) (ecl : ExtCodeLaws ext) : LiveLaws (concreteLaws ext ecl) where
  makeClosure := by
    intro h lam ep bp a b hi _
    have inv : CInv h := hi
    show makeClosure h lam ep bp a = makeClosure h lam ep bp b
    unfold makeClosure
    cases hl : lambdaAt h lam with
    | none => rfl
    | some l =>
      simp only
      rw [closureSlots_stack h ep bp a b l.envmap (inv.noIofArg lam l (lambdaAt_iff.mp hl))]
  makeActivation := by
    intro h lam env bp a b _ hbp hag
    show makeActivation h lam env bp a = makeActivation h lam env bp b
    unfold makeActivation
    cases hl : lambdaAt h lam with
    | none => rfl
    | some l =>
      simp only
      cases he : envAt h env with
      | none => rfl
      | some olds =>
        simp only
        rw [activationSlots_stack hbp hag]

end Marwood.Vm.Concrete
