import Marwood.Lemmas.CompileCorrect3Cases
import Marwood.Lemmas.CompileCorrect3Spec
/-!
# T01.3 stage 3 — `lambda` (any formals, leading internal definitions): `MOV-IMMEDIATE <lambda> %acc; CLOSURE`
leaves a representation of the closure
-/
namespace Marwood.Lemmas.CompileCorrect3
open Marwood Marwood.Vm Marwood.Lemmas.CompileCorrect Marwood.Lemmas.CompileCorrect2
open Marwood.Spec.Eval (Val Prim Cell Env evalN evalStep applyStep evalArgs properList quoteVal kwOf insertG
  k_quote k_if_ k_setBang k_define k_lambda)

variable {H : Type} {ops : HeapOps H} {D : RepData2 ops}

mutual
theorem F3B_proper_aux {G : Text → Prop} : ∀ {f : Nat} {c : Ctx} {ns us : Text → Prop} {ints : List Text} {bodyD : Datum},
    F3B G f c ns us ints bodyD → ∃ body, properList bodyD = some body
  | _, _, _, _, _, _, .last x _ _ => ⟨[x], rfl⟩
  | _, _, _, _, _, _, .cons x y rest _ _ h => by
    obtain ⟨b, hb⟩ := F3B_proper_aux h
    exact ⟨x :: b, by
      rw [show properList (.pair x (.pair y rest)) = (properList (.pair y rest)).map (x :: ·) from rfl, hb]; rfl⟩
  | _, _, _, _, _, _, .defv x e y rest ints _ _ _ _ h => by
    obtain ⟨b, hb⟩ := F3B_proper_aux h
    exact ⟨defForm x e :: b, by
      rw [show properList (.pair (defForm x e) (.pair y rest)) = (properList (.pair y rest)).map (defForm x e :: ·)
        from rfl, hb]; rfl⟩
  | _, _, _, _, _, _, .block _ _ _ _ hK => F3K_proper_aux hK
theorem F3K_proper_aux {G : Text → Prop} : ∀ {f : Nat} {c : Ctx} {ns us : Text → Prop} {Bs todo ints : List Text}
    {bodyD : Datum}, F3K G f c ns us Bs todo ints bodyD → ∃ body, properList bodyD = some body
  | _, _, _, _, _, _, _, _, .defl x formals lbody y rest ints _ _ _ _ h => by
    obtain ⟨b, hb⟩ := F3K_proper_aux h
    exact ⟨defForm x (.pair (.sym k_lambda) (.pair formals lbody)) :: b, by
      rw [show properList (.pair (defForm x (.pair (.sym k_lambda) (.pair formals lbody))) (.pair y rest)) =
        (properList (.pair y rest)).map (defForm x (.pair (.sym k_lambda) (.pair formals lbody)) :: ·) from rfl, hb]; rfl⟩
  | _, _, _, _, _, _, _, _, .defc x formals lbody y rest ints _ _ _ _ _ _ _ _ _ _ _ _ _ _ _ _ h => by
    obtain ⟨b, hb⟩ := F3K_proper_aux h
    exact ⟨curForm x formals lbody :: b, by
      rw [show properList (.pair (curForm x formals lbody) (.pair y rest)) =
        (properList (.pair y rest)).map (curForm x formals lbody :: ·) from rfl, hb]; rfl⟩
  | _, _, _, _, _, _, _, _, .done _ _ h => F3B_proper_aux h
end

/-- a body of the fragment is a proper list -/
theorem F3B_proper {G : Text → Prop} {f : Nat} {c : Ctx} {ns us : Text → Prop} {ints : List Text} {bodyD : Datum}
    (h : F3B G f c ns us ints bodyD) : ∃ body, properList bodyD = some body := F3B_proper_aux h

/-- `MOV-IMMEDIATE <lambda> %acc; CLOSURE` for a registered code object, with the demand on the captured locations
    as a parameter: `P` is what the current environment guarantees of a readable name, `P'` what the closure records
    of a captured location -/
theorem closure_core0 (L : Laws3 D) {P : Nat → Nat → Prop} {P' : H → Nat → Nat → Prop}
    {f : Nat} {cst st1 : CState} {c : Ctx} {body : Datum} {bcode : List BC} {ρ : Env} {us : Text → Prop}
    {p : LambdaParts} {ps : List Text} {rest : Option Text} {ints : List Text} {caps : List (Text × Source)}
    {b0 : Datum} {bs0 : List Datum}
    (hpb : p.body = body) (hpa : p.ctx.args = p.formals)
    (hpro : p.prologue = (if p.isVararg then [.op .varArg] else []) ++ [.op .enter])
    (hps : p.formals = ps ++ rest.toList)
    (hva : p.isVararg = rest.isSome) (hnd : (ps ++ rest.toList ++ ints).Nodup)
    (hem : p.ctx.envmap = em3 (ps ++ rest.toList) ints caps)
    (hcaps : ∀ q ∈ caps, q.2 = .iofEnvironment ∧ inEnv c q.1 = true ∧ ¬ us q.1)
    (hfb : F3B D.setG f p.ctx (fun x => x ∈ ps ++ rest.toList ++ ints ∨ bound ρ x) (fun x => x ∈ ints) ints body)
    (hbl : properList body = some (b0 :: bs0))
    (hcb : compileBody f cst p.ctx p.prologue.length p.body = .ok (st1, bcode))
    (hfin : D.final[st1.lambdas.length]? = some (lamOf p bcode)) (hpre1 : st1.lambdas <+: D.final)
    {σ : SSt} {W : World} {s : MSt H}
    (hc : CodeAt2 D c.envmap s.heap σ.store s.ipL s.ipO
      [.op .movImm, .lambda st1.lambdas.length, .acc, .op .closureAcc])
    (hsrx : D.SRx s.heap σ.store) (her : EnvRep3g ops W s.heap P c s.ep ρ us)
    (hPP : ∀ h', Ext3 D s.heap σ.store h' σ.store → ∀ e n, P e n → P' h' e n) :
    ∃ (h' : H) (pp lam cenv : Nat),
      Steps ops s { s with heap := h', acc := .ptr pp, ipO := s.ipO + 4 } ∧
      ops.callee h' (.ptr pp) = .closure lam cenv ∧
      ClosOK3g D W h' (P' h') lam cenv ps rest (b0 :: bs0) ρ ∧ (∀ k, ops.envGet s.heap cenv k = none) ∧
      (∀ e k, e ≠ cenv → ops.envGet h' e k = ops.envGet s.heap e k) ∧
      (∀ m, ops.globGet h' m = ops.globGet s.heap m) ∧ Ext3 D s.heap σ.store h' σ.store ∧ D.SRx h' σ.store := by
  -- the two instructions
  obtain ⟨hf1, hlam⟩ := hc.lambdaCell 1 rfl
  obtain ⟨hisl, hsrcs⟩ := hlam _ hfin
  have hs1 := step_movImm_acc hc.1 (hc.op 0 rfl) hf1 (by intro o h; cases h) (hc.accCell 2 rfl)
  have hemL : (lamOf p bcode).envmap = em3 (ps ++ rest.toList) ints caps := hem
  rw [hemL] at hsrcs
  -- the captured entries are slots of the current environment, and initialised
  have capSlot : ∀ q ∈ caps, ∃ k e n l, slotIdx c.envmap q.1 = some k ∧ rsrc c.envmap q = .iofEnv k ∧
      Denotes ops s.heap s.ep k e n ∧ ρ.lookup q.1 = some l ∧ W e n l ∧ P e n := by
    intro q hq
    obtain ⟨hq2, hq1, hq3⟩ := hcaps q hq
    obtain ⟨k, hk⟩ := (slotIdx_some_iff_inEnv c q.1).mp hq1
    obtain ⟨e, n, l, hd, hl', hW, hin⟩ := her q.1 k hk
    refine ⟨k, e, n, l, hk, ?_, hd, hl', hW, hin hq3⟩
    obtain ⟨x, src⟩ := q
    simp only at hq2 hk
    subst hq2
    simp [rsrc, hk]
  obtain ⟨h', pp, cenv, hmk, hcallee, hfresh, hslots, hframe, hglob, hext, hsrx', henvok⟩ :=
    L.closure_ok s.heap σ.store (D.LM st1.lambdas.length) s.ep s.bp s.stack _ hsrx hisl hsrcs
      (by
        intro j k hj
        obtain ⟨q, hq, hr⟩ := map_get _ _ _ _ hj
        rcases em3_entry_cases hq with ⟨_, x, _, rfl⟩ | ⟨_, _, x, _, rfl⟩ | ⟨_, hqc⟩
        · simp [rsrc] at hr
        · simp [rsrc] at hr
        · obtain ⟨k', e, n, l, _, hr', hd, _, _, _⟩ := capSlot q hqc
          rw [hr'] at hr; cases hr
          exact denotes_some hd)
      (by
        intro j n hj
        obtain ⟨q, hq, hr⟩ := map_get _ _ _ _ hj
        rcases em3_entry_cases hq with ⟨_, x, _, rfl⟩ | ⟨_, _, x, _, rfl⟩ | ⟨_, hqc⟩
        · simp [rsrc] at hr
        · simp [rsrc] at hr
        · obtain ⟨k', e, n', l, _, hr', _, _, _, _⟩ := capSlot q hqc
          rw [hr'] at hr; cases hr)
  have hs2 := step_closure (s := { s with acc := .ptr (D.LM st1.lambdas.length), ipO := s.ipO + 3 })
    (by exact hc.1) (by
      have := hc.op 3 (o := .closureAcc) rfl
      exact this) rfl hmk
  refine ⟨h', pp, D.LM st1.lambdas.length, cenv, .cons hs1 (Steps.one hs2), hcallee, ?_, hfresh, hframe, hglob, hext,
    hsrx'⟩
  · -- the closure value
    refine ⟨f, cst, st1, c, p, bcode, ints, caps, hps, hva, hpa, hpro, hnd, by rw [hpb]; exact hbl, hcb, hfin, hpre1, rfl,
      (hext.code _ hisl).1, by rw [hpb]; exact hfb, ?_, hem, fun q hq => (hcaps q hq).1, ?_, ?_, henvok, ?_⟩
    · rw [(hext.code _ hisl).2.2.2, hsrcs, hem]
    · intro j hj
      rw [hem] at hj
      have : ((em3 (ps ++ rest.toList) ints caps).map (rsrc c.envmap))[j]? =
          some (rsrc c.envmap ((em3 (ps ++ rest.toList) ints caps)[j]'hj)) := by
        rw [List.getElem?_map, List.getElem?_eq_getElem hj]; rfl
      exact ⟨_, hslots j _ this⟩
    · intro j x hj hx
      rw [hem] at hx
      rcases em3_entry_cases hx with ⟨hlt, _⟩ | ⟨_, hlt, _⟩ | ⟨_, hqc⟩
      · simp only [List.length_append] at hj hlt; omega
      · simp only [List.length_append] at hj hlt; omega
      · obtain ⟨k, e, n, l, _, hr', hd, hl', hW, hin⟩ := capSlot _ hqc
        have : ((em3 (ps ++ rest.toList) ints caps).map (rsrc c.envmap))[j]? = some (.iofEnv k) := by
          rw [List.getElem?_map, hx]; simp [hr']
        refine ⟨e, n, l, ?_, hl', hW, hPP h' hext _ _ hin⟩
        rw [hslots j _ this, cloSlot_denotes hd]
    · intro j x hx
      rw [hem] at hx
      have : ((em3 (ps ++ rest.toList) ints caps).map (rsrc c.envmap))[j]? = some .internal := by
        rw [List.getElem?_map, hx]; rfl
      rw [hslots j _ this]; rfl

/-- … for a `lambda` expression -/
theorem closure_core (L : Laws3 D) {P : Nat → Nat → Prop} {P' : H → Nat → Nat → Prop}
    {f : Nat} {cst cst' : CState} {c : Ctx} {base : Nat} {tail : Bool}
    {formals body : Datum} {code : List BC} {ρ : Env} {us : Text → Prop} {p : LambdaParts} {ps : List Text}
    {rest : Option Text} {ints : List Text} {caps : List (Text × Source)}
    (hp : lambdaParts f c (.pair (.sym k_lambda) (.pair formals body)) false = .ok p)
    (hpf : Spec.Eval.parseFormals formals = some (ps, rest)) (hps : p.formals = ps ++ rest.toList)
    (hva : p.isVararg = rest.isSome) (hnd : (ps ++ rest.toList ++ ints).Nodup)
    (hem : p.ctx.envmap = em3 (ps ++ rest.toList) ints caps)
    (hcaps : ∀ q ∈ caps, q.2 = .iofEnvironment ∧ inEnv c q.1 = true ∧ ¬ us q.1)
    (hfb : F3B D.setG f p.ctx (fun x => x ∈ ps ++ rest.toList ++ ints ∨ bound ρ x) (fun x => x ∈ ints) ints body)
    (hcomp : compileExpr (f + 1) cst c base tail (.pair (.sym k_lambda) (.pair formals body)) = .ok (cst', code))
    (hpre : cst'.lambdas <+: D.final) {r : Spec.Eval.Rec} {σ σ' : SSt} {w : Val}
    (hev : evalStep r (.pair (.sym k_lambda) (.pair formals body)) ρ σ = .ok w σ')
    {W : World} {s : MSt H} (hc : CodeAt2 D c.envmap s.heap σ.store s.ipL base code) (hip : s.ipO = base)
    (hsrx : D.SRx s.heap σ.store) (her : EnvRep3g ops W s.heap P c s.ep ρ us)
    (hPP : ∀ h', Ext3 D s.heap σ.store h' σ.store → ∀ e n, P e n → P' h' e n) :
    ∃ (h' : H) (pp lam cenv : Nat) (bl : List Datum),
      Steps ops s { s with heap := h', acc := .ptr pp, ipO := s.ipO + code.length } ∧
      w = .closure ps rest bl ρ ∧ σ' = σ ∧ ops.callee h' (.ptr pp) = .closure lam cenv ∧
      ClosOK3g D W h' (P' h') lam cenv ps rest bl ρ ∧ (∀ k, ops.envGet s.heap cenv k = none) ∧
      (∀ e k, e ≠ cenv → ops.envGet h' e k = ops.envGet s.heap e k) ∧
      (∀ m, ops.globGet h' m = ops.globGet s.heap m) ∧ Ext3 D s.heap σ.store h' σ.store ∧ D.SRx h' σ.store := by
  obtain ⟨p', st1, bcode, hp', hcb, hl, rfl⟩ := compile_lambda_inv hcomp
  rw [hp] at hp'; cases hp'
  obtain ⟨hpb, hpa, hpro⟩ := lambdaParts_inv hp
  obtain ⟨bl, hbl⟩ := F3B_proper hfb
  have hne : bl ≠ [] := F3B_nonempty hfb hbl
  obtain ⟨b0, bs0, rfl⟩ : ∃ b0 bs0, bl = b0 :: bs0 := by
    cases bl with
    | nil => exact absurd rfl hne
    | cons b0 bs0 => exact ⟨b0, bs0, rfl⟩
  obtain ⟨rfl, hσ⟩ := evalStep_lambda_inv hpf hbl hev
  have hσ' := hσ.symm
  subst hσ'
  subst hip
  rw [hl] at hpre
  obtain ⟨hfin, hpre1⟩ := prefix_get hpre
  obtain ⟨h', pp, lam, cenv, hsteps, hcallee, hok, hfresh, hframe, hglob, hext, hsrx'⟩ :=
    closure_core0 (P' := P') L hpb hpa hpro hps hva hnd hem hcaps hfb hbl hcb hfin hpre1 hc hsrx her hPP
  exact ⟨h', pp, lam, cenv, b0 :: bs0, by simpa [finishLambda] using hsteps, rfl, rfl, hcallee, hok, hfresh, hframe,
    hglob, hext, hsrx'⟩

theorem case3_lambda (L : Laws3 D) {f : Nat} {cst cst' : CState} {c : Ctx} {base : Nat} {tail : Bool}
    {formals body : Datum} {code : List BC} {ρ : Env} {us : Text → Prop} {p : LambdaParts} {ps : List Text}
    {rest : Option Text} {ints : List Text} {caps : List (Text × Source)}
    (hp : lambdaParts f c (.pair (.sym k_lambda) (.pair formals body)) false = .ok p)
    (hpf : Spec.Eval.parseFormals formals = some (ps, rest)) (hps : p.formals = ps ++ rest.toList)
    (hva : p.isVararg = rest.isSome) (hnd : (ps ++ rest.toList ++ ints).Nodup)
    (hem : p.ctx.envmap = em3 (ps ++ rest.toList) ints caps)
    (hcaps : ∀ q ∈ caps, q.2 = .iofEnvironment ∧ inEnv c q.1 = true ∧ ¬ us q.1)
    (hfb : F3B D.setG f p.ctx (fun x => x ∈ ps ++ rest.toList ++ ints ∨ bound ρ x) (fun x => x ∈ ints) ints body)
    (hcomp : compileExpr (f + 1) cst c base tail (.pair (.sym k_lambda) (.pair formals body)) = .ok (cst', code))
    (hpre : cst'.lambdas <+: D.final) {r : Spec.Eval.Rec} {σ σ' : SSt} {w : Val}
    (hev : evalStep r (.pair (.sym k_lambda) (.pair formals body)) ρ σ = .ok w σ')
    {W : World} {s : MSt H} (hc : CodeAt2 D c.envmap s.heap σ.store s.ipL base code) (hip : s.ipO = base)
    (hi : Inv3 D W s.heap σ) (her : EnvRep3 ops W s.heap c s.ep ρ us) (hw : SWF s.stack) :
    ∃ W' s', W.le W' ∧ Run3 D W' s code.length σ σ' w s' := by
  obtain ⟨h', pp, lam, cenv, bl, hsteps, rfl, rfl, hcallee, hok, hfresh, hframe, hglob, hext, hsrx'⟩ :=
    closure_core (P := InitM ops s.heap) (P' := fun h' => InitM ops h') L hp hpf hps hva hnd hem hcaps hfb hcomp hpre hev hc
      hip hi.extra her (fun h' x e n y => x.init e n y)
  refine ⟨W, _, World.le_refl _, ⟨hsteps, rfl, rfl, rfl, rfl, LiveEq.refl _, hw, .clos hcallee hok, ?_, hext⟩⟩
  refine hi.frame hext hsrx' rfl hglob (fun e n l hW => ⟨?_, rfl⟩)
  obtain ⟨v, _, h1, _⟩ := hi.vars e n l hW
  have hne : e ≠ cenv := by
    intro e0; subst e0
    rw [hfresh n] at h1; cases h1
  exact hframe e n hne

end Marwood.Lemmas.CompileCorrect3
