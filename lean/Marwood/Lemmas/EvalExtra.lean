import Marwood.Lemmas.EvalFrameSteps
/-!
# Invariance of `Spec.Eval` under extra unreachable cells and an unused binding: framework

The expansions of `or`, `cond` (test-only and `=>` clauses) and `case` allocate cells the native
meaning does not have (the variable `var1` / `temp` / `atom-key`, the quoted datum list of `memv`) and
evaluate the remaining sub-forms under one more binding. From then on the two computations run the
SAME code in lock step, in stores that differ by those extra cells: every location the native run
uses corresponds to a location of the other run under a fixed injective map `f : Loc → Loc`
(`f (size + i) = size' + i`: allocations stay in step, `StRel.front`).

* `VRel f`, `CellRel f`, `StRel f`: values / cells / states correspond under `f`; closures carry the
  same code and environments that agree, under `f`, on every name outside a list `B` of names the
  code does not mention (`EnvRel f B`, `CleanB B`);
* `Sim f R m m'`: from related states, if `m` ends definitely (value or error) then `m'` ends with the
  same kind of outcome, related results and related states.
-/
namespace Marwood.Spec.Eval.Extra
open Marwood Marwood.Spec.Eval

abbrev LMap := Nat → Nat

def Inj (f : LMap) : Prop := ∀ a b, f a = f b → a = b

/-- none of the names in `B` occurs in the datum -/
def CleanB (B : List Text) (d : Datum) : Prop := ∀ b ∈ B, Clean b d
def CleanBs (B : List Text) (ds : List Datum) : Prop := ∀ d ∈ ds, CleanB B d

inductive LookRel (f : LMap) : Option Loc → Option Loc → Prop
  | none : LookRel f none none
  | some (l : Loc) : LookRel f (some l) (some (f l))

/-- the environments agree, under `f`, on every name outside `B` -/
def EnvRel (f : LMap) (B : List Text) (ρ ρ' : Env) : Prop := ∀ y, y ∉ B → LookRel f (ρ.lookup y) (ρ'.lookup y)

inductive VRel (f : LMap) : Val → Val → Prop
  | bool (b : Bool) : VRel f (.bool b) (.bool b)
  | char (c : Char) : VRel f (.char c) (.char c)
  | nil : VRel f .nil .nil
  | int (n : Int) : VRel f (.int n) (.int n)
  | str (s : Text) : VRel f (.str s) (.str s)
  | sym (s : Text) : VRel f (.sym s) (.sym s)
  | pair (l : Loc) : VRel f (.pair l) (.pair (f l))
  | vec (l : Loc) : VRel f (.vec l) (.vec (f l))
  | promise (l : Loc) : VRel f (.promise l) (.promise (f l))
  | prim (p : Prim) : VRel f (.prim p) (.prim p)
  | closure (ps : List Text) (rest : Option Text) (body : List Datum) (ρ ρ' : Env) (B : List Text)
      (hρ : EnvRel f B ρ ρ') (hb : CleanBs B body) : VRel f (.closure ps rest body ρ) (.closure ps rest body ρ')
  | void : VRel f .void .void
  | undef : VRel f .undef .undef

inductive VsRel (f : LMap) : List Val → List Val → Prop
  | nil : VsRel f [] []
  | cons {v v' : Val} {vs vs' : List Val} : VRel f v v' → VsRel f vs vs' → VsRel f (v :: vs) (v' :: vs')

inductive CellRel (f : LMap) : Cell → Cell → Prop
  | var {v v' : Val} : VRel f v v' → CellRel f (.var v) (.var v')
  | pair {a a' d d' : Val} : VRel f a a' → VRel f d d' → CellRel f (.pair a d) (.pair a' d')
  | vec {xs xs' : List Val} : VsRel f xs xs' → CellRel f (.vec xs) (.vec xs')
  | promise (b : Bool) {v v' : Val} : VRel f v v' → CellRel f (.promise b v) (.promise b v')

inductive GRel (f : LMap) : Option Val → Option Val → Prop
  | none : GRel f none none
  | some {v v' : Val} : VRel f v v' → GRel f (some v) (some v')

structure StRel (f : LMap) (st st' : St) : Prop where
  cells : ∀ l c, st.store[l]? = some c → ∃ c', st'.store[f l]? = some c' ∧ CellRel f c c'
  front : ∀ i, f (st.store.size + i) = st'.store.size + i
  size_le : st.store.size ≤ st'.store.size
  out : st'.out = st.out
  globals : ∀ y, GRel f (st.globals.lookup y) (st'.globals.lookup y)

/-- outcomes correspond; nothing is claimed when the first computation ran out of fuel -/
def ResRel {α α' : Type} (f : LMap) (R : α → α' → Prop) : Res α → Res α' → Prop
  | .ok a s, .ok a' s' => R a a' ∧ StRel f s s'
  | .err e s, .err e' s' => e = e' ∧ StRel f s s'
  | .timeout, _ => True
  | _, _ => False

def Sim {α α' : Type} (f : LMap) (R : α → α' → Prop) (m : M α) (m' : M α') : Prop :=
  ∀ st st', StRel f st st' → ResRel f R (m st) (m' st')

variable {f : LMap} {α α' β β' : Type}

theorem ResRel.ok_inv {R : α → α' → Prop} {a : α} {s : St} {res' : Res α'} (h : ResRel f R (.ok a s) res') :
    ∃ a' s', res' = .ok a' s' ∧ R a a' ∧ StRel f s s' := by
  cases res' with
  | ok a' s' => exact ⟨a', s', rfl, h.1, h.2⟩
  | err e s' => exact h.elim
  | timeout => exact h.elim

theorem ResRel.err_inv {R : α → α' → Prop} {e : ErrClass} {s : St} {res' : Res α'} (h : ResRel f R (.err e s) res') :
    ∃ s', res' = .err e s' ∧ StRel f s s' := by
  cases res' with
  | ok a' s' => exact h.elim
  | err e' s' => obtain ⟨rfl, h2⟩ := h; exact ⟨s', rfl, h2⟩
  | timeout => exact h.elim

theorem ResRel.mono {R Q : α → α' → Prop} {res : Res α} {res' : Res α'} (h : ResRel f R res res')
    (hq : ∀ a a', R a a' → Q a a') : ResRel f Q res res' := by
  cases res with
  | ok a s => obtain ⟨a', s', rfl, h1, h2⟩ := h.ok_inv; exact ⟨hq _ _ h1, h2⟩
  | err e s => obtain ⟨s', rfl, h2⟩ := h.err_inv; exact ⟨rfl, h2⟩
  | timeout => trivial

/-- sequencing, from one pair of states -/
theorem ResRel.bind {R : α → α' → Prop} {Q : β → β' → Prop} {m : M α} {m' : M α'} {k : α → M β} {k' : α' → M β'}
    {st st' : St} (hm : ResRel f R (m st) (m' st'))
    (hk : ∀ a a' s s', m st = .ok a s → R a a' → StRel f s s' → ResRel f Q (k a s) (k' a' s')) :
    ResRel f Q ((m >>= k) st) ((m' >>= k') st') := by
  show ResRel f Q (M.bind' m k st) (M.bind' m' k' st')
  unfold M.bind'
  cases h1 : m st with
  | ok a s =>
    rw [h1] at hm
    obtain ⟨a', s', h2, ra, rs⟩ := hm.ok_inv
    simp only [h2]
    exact hk a a' s s' h1 ra rs
  | err e s =>
    rw [h1] at hm
    obtain ⟨s', h2, rs⟩ := hm.err_inv
    simp only [h2]
    exact ⟨rfl, rs⟩
  | timeout => trivial

theorem Sim.bind {R : α → α' → Prop} {Q : β → β' → Prop} {m : M α} {m' : M α'} {k : α → M β} {k' : α' → M β'}
    (hm : Sim f R m m') (hk : ∀ a a', R a a' → Sim f Q (k a) (k' a')) : Sim f Q (m >>= k) (m' >>= k') := by
  intro st st' r
  exact ResRel.bind (hm st st' r) (fun a a' s s' _ ra rs => hk a a' ra s s' rs)

theorem Sim.pure {R : α → α' → Prop} (a : α) (a' : α') (h : R a a') : Sim f R (pure a : M α) (pure a' : M α') := by
  intro st st' r; exact ⟨h, r⟩

theorem Sim.throw {R : α → α' → Prop} (e : ErrClass) : Sim f R (throw e : M α) (throw e : M α') := by
  intro st st' r; exact ⟨rfl, r⟩

theorem Sim.timeout {R : α → α' → Prop} (m' : M α') : Sim f R (timeoutM : M α) m' := by
  intro st st' _; trivial

theorem Sim.mono {R Q : α → α' → Prop} {m : M α} {m' : M α'} (hm : Sim f R m m')
    (hq : ∀ a a', R a a' → Q a a') : Sim f Q m m' := fun st st' r => (hm st st' r).mono hq

/-! ## values -/

theorem VRel.truthy {v v' : Val} (h : VRel f v v') : truthy v' = truthy v := by
  cases h <;> rfl

theorem Inj.beq (hf : Inj f) (l1 l2 : Nat) : (f l1 == f l2) = (l1 == l2) := by
  by_cases h : l1 = l2
  · subst h; simp
  · have h1 : f l1 ≠ f l2 := fun e => h (hf _ _ e)
    have e1 : (f l1 == f l2) = false := by simpa using h1
    have e2 : (l1 == l2) = false := by simpa using h
    rw [e1, e2]

theorem VRel.eqv (hf : Inj f) {a a' b b' : Val} (ha : VRel f a a') (hb : VRel f b b') : eqv a' b' = eqv a b := by
  cases ha <;> cases hb <;> simp [Spec.Eval.eqv, hf.beq]

/-! ## the state operations -/

theorem sim_allocCell {c c' : Cell} (hc : CellRel f c c') :
    Sim f (fun l l' => f l = l') (allocCell c) (allocCell c') := by
  intro st st' r
  have h0 : f st.store.size = st'.store.size := by simpa using r.front 0
  refine ⟨h0, ?_, ?_, ?_, r.out, r.globals⟩
  · intro l d hl
    simp only [Array.getElem?_push] at hl
    split at hl
    · rename_i hsz
      cases hl
      subst hsz
      refine ⟨c', ?_, hc⟩
      rw [h0]; simp
    · obtain ⟨d', h1, h2⟩ := r.cells l d hl
      refine ⟨d', ?_, h2⟩
      have hlt : f l < st'.store.size := by
        rcases Nat.lt_or_ge (f l) st'.store.size with h | h
        · exact h
        · rw [Array.getElem?_eq_none h] at h1; cases h1
      have hne : ¬ f l = st'.store.size := by omega
      simp only [Array.getElem?_push, if_neg hne]
      exact h1
  · intro i
    simp only [Array.size_push]
    have := r.front (i + 1)
    rw [Nat.add_assoc, Nat.add_comm 1 i, this]
    omega
  · simp only [Array.size_push]; have := r.size_le; omega

theorem sim_readCell {l l' : Loc} (hl : f l = l') : Sim f (CellRel f) (readCell l) (readCell l') := by
  intro st st' r
  subst hl
  simp only [readCell]
  cases h : st.store[l]? with
  | some c =>
    obtain ⟨c', h1, h2⟩ := r.cells l c h
    simp only [h1]
    exact ⟨h2, r⟩
  | none =>
    have hge : st.store.size ≤ l := by
      rcases Nat.lt_or_ge l st.store.size with h' | h'
      · rw [Array.getElem?_eq_getElem h'] at h; cases h
      · exact h'
    obtain ⟨i, rfl⟩ := Nat.exists_eq_add_of_le hge
    rw [r.front i, Array.getElem?_eq_none (Nat.le_add_right _ _)]
    exact ⟨rfl, r⟩

theorem sim_writeCell (hf : Inj f) {l l' : Loc} {c c' : Cell} (hl : f l = l') (hc : CellRel f c c') :
    Sim f (fun _ _ => True) (writeCell l c) (writeCell l' c') := by
  intro st st' r
  subst hl
  simp only [writeCell]
  by_cases h : l < st.store.size
  · obtain ⟨d', h1, _⟩ := r.cells l _ (Array.getElem?_eq_getElem h)
    have hlt : f l < st'.store.size := by
      rcases Nat.lt_or_ge (f l) st'.store.size with h' | h'
      · exact h'
      · rw [Array.getElem?_eq_none h'] at h1; cases h1
    rw [if_pos h, if_pos hlt]
    refine ⟨trivial, ?_, ?_, ?_, r.out, r.globals⟩
    · intro l2 d hl2
      simp only [Array.getElem?_setIfInBounds] at hl2 ⊢
      by_cases e : l = l2
      · subst e
        simp only [if_true, h] at hl2
        cases hl2
        exact ⟨c', by simp [hlt], hc⟩
      · rw [if_neg e] at hl2
        obtain ⟨d2, h3, h4⟩ := r.cells l2 d hl2
        have : f l ≠ f l2 := fun e' => e (hf _ _ e')
        exact ⟨d2, by rw [if_neg this]; exact h3, h4⟩
    · intro i; simpa using r.front i
    · simpa using r.size_le
  · have hge : st.store.size ≤ l := Nat.le_of_not_lt h
    obtain ⟨i, rfl⟩ := Nat.exists_eq_add_of_le hge
    have h2 : ¬ st'.store.size + i < st'.store.size := by omega
    rw [if_neg h, r.front i, if_neg h2]
    exact ⟨rfl, r⟩

theorem sim_getGlobal (s : Text) : Sim f (VRel f) (getGlobal s) (getGlobal s) := by
  intro st st' r
  simp only [getGlobal]
  have := r.globals s
  revert this
  generalize st.globals.lookup s = o
  generalize st'.globals.lookup s = o'
  intro h
  cases h with
  | none => exact ⟨rfl, r⟩
  | some hv => exact ⟨hv, r⟩

theorem gRel_insertG {st st' : St} (r : StRel f st st') (s : Text) {v v' : Val} (hv : VRel f v v') (y : Text) :
    GRel f ((insertG s v st.globals).lookup y) ((insertG s v' st'.globals).lookup y) := by
  simp only [lookup_insertG]
  split
  · exact .some hv
  · exact r.globals y

theorem sim_putGlobal (s : Text) {v v' : Val} (hv : VRel f v v') :
    Sim f (fun _ _ => True) (putGlobal s v) (putGlobal s v') := by
  intro st st' r
  exact ⟨trivial, r.cells, r.front, r.size_le, r.out, gRel_insertG r s hv⟩

theorem sim_setGlobal (s : Text) {v v' : Val} (hv : VRel f v v') :
    Sim f (fun _ _ => True) (setGlobal s v) (setGlobal s v') := by
  intro st st' r
  simp only [setGlobal]
  have := r.globals s
  revert this
  generalize st.globals.lookup s = o
  generalize st'.globals.lookup s = o'
  intro h
  cases h with
  | none => exact ⟨rfl, r⟩
  | some _ => exact ⟨trivial, r.cells, r.front, r.size_le, r.out, gRel_insertG r s hv⟩

theorem sim_emit (w : Bool) (d : Datum) : Sim f (fun _ _ => True) (emit w d) (emit w d) := by
  intro st st' r
  exact ⟨trivial, r.cells, r.front, r.size_le, by simp [r.out], r.globals⟩

end Marwood.Spec.Eval.Extra
