import Marwood.Vm.ListExt
import Marwood.Lemmas.SimBuiltin
/-!
# `ExtLaws (listExtWith eqTag)`: the real builtins respect the heap simulation

One lemma per builtin of `Vm/ListExt.lean`: related heaps and related arguments give the same error or related
results under an extension of `φ` (`ExtPost`). The allocating ones (`cons`, `set-car!`, `set-cdr!`) go through
`putV_sim` exactly like the opcode CONS (`Lemmas/SimStepC.lean: exec_cons`); the mutation is `cwrite_sim`; `eq?`
needs that `φ` is injective and that a sentinel address is never a cell of a heap below `2^63` cells.
-/
namespace Marwood.Lemmas.Sim
open Marwood Marwood.Vm Marwood.Vm.Concrete Marwood.Vm.Concrete.ListExt

section
variable {φ : Inj} {h h' : CHeap} (eqTag : String → String → Bool)

/-! ## pointer identity -/

/-- related addresses are equal on one side iff they are on the other -/
theorem addrRel_eq_iff (hs : HeapSim φ h h') (ok : SizeOk h) (ok' : SizeOk h') {a a' b b' : Nat}
    (ha : AddrRel φ a a') (hb : AddrRel φ b b') : a = b ↔ a' = b' := by
  unfold SizeOk at ok ok'
  constructor
  · intro e
    subst e
    rcases ha with ha | ⟨rfl, ha⟩
    · rcases hb with hb | ⟨rfl, hb⟩
      · rw [ha] at hb; exact Option.some.inj hb
      · have := (hs.dom_lt ha).1; omega
    · rcases hb with hb | ⟨rfl, _⟩
      · have := (hs.dom_lt hb).1; omega
      · rfl
  · intro e
    subst e
    rcases ha with ha | ⟨rfl, ha⟩
    · rcases hb with hb | ⟨rfl, hb⟩
      · exact hs.inj _ _ _ ha hb
      · have := (hs.dom_lt ha).2.1; omega
    · rcases hb with hb | ⟨rfl, _⟩
      · have := (hs.dom_lt hb).2.1; omega
      · rfl

theorem beq_addr (hs : HeapSim φ h h') (ok : SizeOk h) (ok' : SizeOk h') {a a' b b' : Nat}
    (ha : AddrRel φ a a') (hb : AddrRel φ b b') : (a == b) = (a' == b') := by
  show decide (a = b) = decide (a' = b')
  exact decide_eq_decide.mpr (addrRel_eq_iff hs ok ok' ha hb)

theorem samePtr_rel (hs : HeapSim φ h h') (ok : SizeOk h) (ok' : SizeOk h') {l l' r r' : VCell}
    (hl : VRel φ l l') (hr : VRel φ r r') : samePtr l r = samePtr l' r' := by
  cases hl with
  | ptr ha =>
    cases hr with
    | ptr hb => exact beq_addr hs ok ok' ha hb
    | atom hf => cases r <;> first | rfl | simp [addrFree] at hf
    | _ => rfl
  | atom hf => cases l <;> first | rfl | simp [addrFree] at hf
  | _ => rfl

/-! ## `Vm::eqv` on dereferenced operands -/

theorem eqvVal_rel (hs : HeapSim φ h h') (ok : SizeOk h) (ok' : SizeOk h') {l l' r r' : VCell}
    (hl : VRel φ l l') (hr : VRel φ r r') : eqvVal eqTag l r = eqvVal eqTag l' r' := by
  cases hl with
  | pair ha hd =>
    cases hr with
    | pair hb he =>
      simp only [eqvVal]
      rw [beq_addr hs ok ok' ha hb, beq_addr hs ok ok' hd he]
    | atom hf => cases r <;> first | rfl | simp [addrFree] at hf
    | _ => rfl
  | atom hf =>
    cases hr with
    | atom hg => rfl
    | _ => cases l <;> first | rfl | simp [addrFree] at hf
  | _ => rfl

theorem eqvC_rel (hs : HeapSim φ h h') (ok : SizeOk h) (ok' : SizeOk h') {l l' r r' : VCell}
    (hl : VRel φ l l') (hr : VRel φ r r') : eqvC eqTag h l r = eqvC eqTag h' l' r' := by
  unfold eqvC
  rw [samePtr_rel hs ok ok' hl hr, eqvVal_rel eqTag hs ok ok' (deref_rel hs ok ok' hl) (deref_rel hs ok ok' hr)]

/-! ## the predicates -/

theorem Pred.test_rel (q : Pred) {v v' : VCell} (hv : VRel φ v v') : q.test v = q.test v' := by
  cases hv with
  | atom _ => rfl
  | _ => cases q <;> rfl

/-! ## `car` / `cdr` -/

theorem evalCar_rel (first : Bool) (hs : HeapSim φ h h') (ok : SizeOk h) (ok' : SizeOk h') (so : SymOk h)
    (so' : SymOk h') {x x' : VCell} (hx : VRel φ x x') :
    ORel (ExtPost φ) (evalCar first h x) (evalCar first h' x') := by
  unfold evalCar
  have hd := deref_rel hs ok ok' hx
  generalize deref h x = v at hd
  generalize deref h' x' = v' at hd
  cases hd with
  | pair ha hb =>
    refine .ok ⟨φ, φ.le_refl, hs, ?_, so, so'⟩
    cases first
    · exact .ptr hb
    · exact .ptr ha
  | atom hf => cases v <;> first | exact .err | simp [addrFree] at hf
  | _ => exact .err

/-! ## `cons` -/

theorem evalCons_rel (hs : HeapSim φ h h') (so : SymOk h) (so' : SymOk h') {d d' a a' : VCell}
    (hd : VRel φ d d') (ha : VRel φ a a') : ORel (ExtPost φ) (evalCons h d a) (evalCons h' d' a') := by
  simp only [evalCons]
  obtain ⟨ψ1, le1, hh1, hd1, so1, so1'⟩ := putV_sim hs so so' hd
  refine (asPtr_rel hd1).bind ?_
  intro dp dp' hdp
  obtain ⟨ψ2, le2, hh2, ha2, so2, so2'⟩ := putV_sim hh1 so1 so1' (ha.mono le1)
  refine (asPtr_rel ha2).bind ?_
  intro ap ap' hap
  exact .ok ⟨ψ2, Inj.le_trans le1 le2, hh2, .pair hap (hdp.mono le2), so2, so2'⟩

/-! ## `set-car!` / `set-cdr!` -/

/-- overwriting a cell never changes the symbol table, the free list or a symbol cell that is not overwritten;
    overwriting a pair cell with a pair keeps the interning invariant -/
theorem cwrite_symOk {h : CHeap} (so : SymOk h) {p : Nat} {a d a1 d1 : Nat}
    (hc : h.cells[p]? = some (CCell.val (.pair a d))) : SymOk (cwrite h p (.val (.pair a1 d1))) := by
  intro name q
  have e : symLookup (cwrite h p (.val (.pair a1 d1))) name = symLookup h name := rfl
  rw [e, so name q]
  have hf : (cwrite h p (.val (.pair a1 d1))).free = h.free := rfl
  rw [hf]
  by_cases hq : q = p
  · subst hq
    have hlt := lt_of_get_some hc
    have hn : (cwrite h q (.val (.pair a1 d1))).cells[q]? = some (CCell.val (.pair a1 d1)) := by
      simp [cwrite, hlt]
    rw [hc, hn]
    constructor
    · rintro ⟨c, e1, ⟨tag, e2, _⟩, _⟩; cases e1; cases e2
    · rintro ⟨c, e1, ⟨tag, e2, _⟩, _⟩; cases e1; cases e2
  · have hn : (cwrite h p (.val (.pair a1 d1))).cells[q]? = h.cells[q]? := by
      simp only [cwrite]; exact Array.getElem?_setIfInBounds_ne (Ne.symm hq)
    rw [hn]

/-- a cell that is not on the free list survives `heap.put` -/
theorem putNew_keeps {h : CHeap} (inv : HInv h) {p : Nat} {c : CCell} (e : h.cells[p]? = some c) (hf : p ∉ h.free)
    (v : VCell) : (putNew h v).1.cells[p]? = some c := by
  unfold putNew
  split
  · split
    · exact e
    · exact (cput_old inv _ e hf).1
  · exact (cput_old inv _ e hf).1

theorem putV_keeps {h : CHeap} (inv : HInv h) {p : Nat} {c : CCell} (e : h.cells[p]? = some c) (hf : p ∉ h.free)
    {v : VCell} : (putV h v).1.cells[p]? = some c := by
  unfold putV
  split
  · exact e
  · exact putNew_keeps inv e hf v

theorem evalSetPair_rel (first : Bool) (hs : HeapSim φ h h') (ok : SizeOk h) (ok' : SizeOk h') (so : SymOk h)
    (so' : SymOk h') {obj obj' pair pair' : VCell} (ho : VRel φ obj obj') (hp : VRel φ pair pair') :
    ORel (ExtPost φ) (evalSetPair first h obj pair) (evalSetPair first h' obj' pair') := by
  simp only [evalSetPair]
  obtain ⟨ψ1, le1, hh1, ho1, so1, so1'⟩ := putV_sim hs so so' ho
  cases hp with
  | ptr hab =>
    rename_i p p'
    show ORel (ExtPost φ)
      (match getAt h p with
        | .pair a d => (asPtr (putV h obj).2 >>= fun o => asPtr (VCell.ptr p) >>= fun q =>
            Outcome.ok (cwrite (putV h obj).1 q (.val (if first then .pair o d else .pair a o)), VCell.void))
        | _ => .err .invalidSyntax)
      (match getAt h' p' with
        | .pair a d => (asPtr (putV h' obj').2 >>= fun o => asPtr (VCell.ptr p') >>= fun q =>
            Outcome.ok (cwrite (putV h' obj').1 q (.val (if first then .pair o d else .pair a o)), VCell.void))
        | _ => .err .invalidSyntax)
    unfold getAt
    rcases hab.lookup hs ok ok' with ⟨e1, e2⟩ | ⟨hφ, c, c', e1, e2, r⟩
    · rw [e1, e2]; exact .err
    · rw [e1, e2]
      cases r with
      | val hv =>
        cases hv with
        | pair ha hd =>
          rename_i a d a' d'
          simp only [Concrete.repr]
          refine (asPtr_rel ho1).bind ?_
          intro o o' hoo
          simp only [asPtr]
          -- the pair cell survives the allocation on both sides (it is in the domain of `ψ1`)
          have hψ : ψ1 p = some p' := le1 _ _ hφ
          obtain ⟨c1, c1', g1, g2, _, _, _⟩ := hh1.cells p p' hψ
          have hw : HeapSim ψ1 (cwrite (putV h obj).1 p (.val (if first then .pair o d else .pair a o)))
              (cwrite (putV h' obj').1 p' (.val (if first then .pair o' d' else .pair a' o'))) := by
            refine cwrite_sim hh1 hψ (.val ?_)
            cases first
            · exact .pair (ha.mono le1) hoo
            · exact .pair hoo (hd.mono le1)
          -- what the cell holds after the allocation is still the pair (needed for `SymOk`)
          have k1 : (putV h obj).1.cells[p]? = some (CCell.val (.pair a d)) := putV_keeps hs.inv e1 (hs.dom_lt hφ).2.2.1
          have k2 : (putV h' obj').1.cells[p']? = some (CCell.val (.pair a' d')) :=
            putV_keeps hs.inv' e2 (hs.dom_lt hφ).2.2.2
          refine .ok ⟨ψ1, le1, hw, .atom rfl, ?_, ?_⟩
          · cases first
            · exact cwrite_symOk so1 k1
            · exact cwrite_symOk so1 k1
          · cases first
            · exact cwrite_symOk so1' k2
            · exact cwrite_symOk so1' k2
        | atom hf => rename_i v; cases v <;> first | exact .err | simp [addrFree] at hf
        | _ => exact .err
      | _ => exact .err
  | pair ha hd =>
    -- an inline `Pair` operand: the shape test passes, `pair.as_ptr()` fails
    simp only [deref]
    refine (asPtr_rel ho1).bind ?_
    intro o o' _
    exact .err
  | atom hf =>
    rw [deref_atom hf, deref_atom hf]
    cases pair <;> first | exact .err | simp [addrFree] at hf
  | _ => exact .err

/-! ## the table -/

theorem evalPrim_rel (p : Prim) (hs : HeapSim φ h h') (ok : SizeOk h) (ok' : SizeOk h') (so : SymOk h)
    (so' : SymOk h') {args args' : List VCell} (hargs : VsRel φ args args') :
    ORel (ExtPost φ) (evalPrim eqTag p h args) (evalPrim eqTag p h' args') := by
  cases hargs with
  | nil => cases p <;> exact .err
  | cons h1 t1 =>
    cases t1 with
    | nil =>
      cases p with
      | car => exact evalCar_rel true hs ok ok' so so' h1
      | cdr => exact evalCar_rel false hs ok ok' so so' h1
      | pred q =>
        simp only [evalPrim]
        rw [Pred.test_rel q (deref_rel hs ok ok' h1)]
        exact .ok ⟨φ, φ.le_refl, hs, .atom rfl, so, so'⟩
      | _ => exact .err
    | cons h2 t2 =>
      cases t2 with
      | nil =>
        cases p with
        | cons => exact evalCons_rel hs so so' h1 h2
        | setCar => exact evalSetPair_rel true hs ok ok' so so' h1 h2
        | setCdr => exact evalSetPair_rel false hs ok ok' so so' h1 h2
        | eq =>
          simp only [evalPrim]
          rw [eqvC_rel eqTag hs ok ok' h1 h2]
          exact .ok ⟨φ, φ.le_refl, hs, .atom rfl, so, so'⟩
        | _ => exact .err
      | cons _ _ => cases p <;> exact .err

/-- **`ExtLaws` for the table of real builtins** (any interpretation `eqTag` of payload equality) -/
theorem listExtWith_laws : ExtLaws (listExtWith eqTag) where
  kind := fun _ _ _ _ _ => rfl
  eval := by
    intro φ h h' id args args' hs ok ok' so so' hargs
    show ORel (ExtPost φ) (ListExt.builtinEval eqTag h id args) (ListExt.builtinEval eqTag h' id args')
    unfold ListExt.builtinEval
    cases primOf id with
    | none => exact .err
    | some p => exact evalPrim_rel eqTag p hs ok ok' so so' hargs
  compile := fun _ _ _ _ _ _ _ _ _ _ _ => .err
  vpush := fun _ _ _ _ _ _ _ _ _ _ _ _ => .err

theorem listExt_laws : ExtLaws listExt := listExtWith_laws _

end

end Marwood.Lemmas.Sim
