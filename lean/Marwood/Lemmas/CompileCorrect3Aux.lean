import Marwood.Lemmas.CompileCorrect3Pres
/-!
# T01.3 stage 3 — auxiliary facts: the code of an internal definition, the compiler's table only grows on `F3`,
slots of the map `formals ++ internal definitions ++ captured`
-/
namespace Marwood.Lemmas.CompileCorrect3
open Marwood Marwood.Vm Marwood.Lemmas.CompileCorrect Marwood.Lemmas.CompileCorrect2
open Marwood.Spec.Eval (Val Prim Cell Env quoteVal k_define)

variable {H : Type} {ops : HeapOps H} {D : RepData2 ops}

theorem define_tests :
    (Datum.sym k_define).isSymStr ['d','e','f','i','n','e'] = true := by decide

/-- `(define x e)`: the code of `e`, then the store into the location of `x` -/
theorem compile_define_inv {fuel : Nat} {st st' : CState} {c : Ctx} {base : Nat} {tail : Bool} {code : List BC}
    {x : Text} {e : Datum}
    (h : compileExpr (fuel + 1) st c base tail (defForm x e) = .ok (st', code)) :
    ∃ code1, compileExpr fuel st c base false e = .ok (st', code1) ∧
      code = code1 ++ [.op .mov, .acc, emitLoc c x, .op .movImm, .void, .acc] := by
  unfold defForm at h
  unfold compileExpr at h
  simp only [define_tests, if_true, Datum.isNil, Bool.false_eq_true, if_false, Bool.not_true] at h
  cases h1 : compileExpr fuel st c base false e with
  | error err => rw [h1] at h; cases h
  | ok r1 =>
    obtain ⟨st1, code1⟩ := r1
    rw [h1] at h
    simp only [storeCode] at h
    split at h
    · cases h
    · cases h
      exact ⟨code1, rfl, rfl⟩

/-- `(define (x . formals) body …)`: the parts `compile_define` computes from the definition form -/
theorem lambdaParts_cur_inv {fuel : Nat} {c : Ctx} {x : Text} {formals lbody : Datum} {p : LambdaParts}
    (h : lambdaParts fuel c (curForm x formals lbody) true = .ok p) :
    p.body = lbody ∧ p.ctx.args = p.formals ∧
      p.prologue = (if p.isVararg then [.op .varArg] else []) ++ [.op .enter] := by
  unfold curForm lambdaParts at h
  simp only [Datum.isNil, Bool.false_eq_true, if_false, if_true] at h
  split at h
  · cases h
  · rename_i fa hfa
    split at h
    · cases h
    · split at h
      · cases h
      · split at h
        · cases h
        · split at h
          · cases h
          · cases h
            exact ⟨rfl, rfl, rfl⟩

/-- `(define (x . formals) body …)`: the code object, `MOV-IMMEDIATE <lambda> %acc; CLOSURE`, the store -/
theorem compile_defcur_inv {fuel : Nat} {st st' : CState} {c : Ctx} {base : Nat} {tail : Bool} {code : List BC}
    {x : Text} {formals lbody : Datum}
    (h : compileExpr (fuel + 1) st c base tail (curForm x formals lbody) = .ok (st', code)) :
    ∃ p st1 bcode, lambdaParts fuel c (curForm x formals lbody) true = .ok p ∧
      compileBody fuel st p.ctx p.prologue.length p.body = .ok (st1, bcode) ∧
      st'.lambdas = st1.lambdas ++ [lamOf p bcode] ∧
      code = [.op .movImm, .lambda st1.lambdas.length, .acc, .op .closureAcc] ++
        [.op .mov, .acc, emitLoc c x, .op .movImm, .void, .acc] := by
  unfold curForm at h
  unfold compileExpr at h
  simp only [define_tests, if_true] at h
  cases lbody with
  | pair value rest3 =>
    simp only [Datum.isNil, Bool.false_eq_true, if_false] at h
    cases h1 : lambdaParts fuel c
        (.pair (.sym k_define) (.pair (.pair (.sym x) formals) (.pair value rest3))) true with
    | error e => rw [h1] at h; cases h
    | ok p =>
      rw [h1] at h
      simp only at h
      cases h2 : compileBody fuel st p.ctx p.prologue.length p.body with
      | error e => rw [h2] at h; cases h
      | ok r =>
        obtain ⟨st1, bcode⟩ := r
        rw [h2] at h
        simp only [finishLambda, storeCode] at h
        split at h
        · cases h
        · cases h
          exact ⟨p, st1, bcode, h1, h2, rfl, rfl⟩
  | _ => simp [Datum.isNil] at h

/-! ## the compiler's table only grows -/

def MonoOK3 (G : Text → Prop) (f : Nat) : Prop :=
  (∀ c ns us t e st base st' code, F3 G f c ns us t e → compileExpr f st c base t e = .ok (st', code) →
    st.lambdas <+: st'.lambdas) ∧
  (∀ c ns us e st base st' code k, F3L G f c ns us e → compileArgs f st c base e = .ok (st', code, k) →
    st.lambdas <+: st'.lambdas) ∧
  (∀ c ns us ints e st base st' code, F3B G f c ns us ints e → compileBody f st c base e = .ok (st', code) →
    st.lambdas <+: st'.lambdas)

/-- inside a block: the head is a definition whose initialiser is compiled with less fuel -/
theorem monoK {G : Text → Prop} : ∀ {g : Nat} {c : Ctx} {ns us : Text → Prop} {Bs todo ints : List Text} {e : Datum},
    F3K G g c ns us Bs todo ints e → ∀ (F : Nat), (∀ g', g' ≤ F → MonoOK3 G g') →
    (g ≤ F ∨ (todo ≠ [] ∧ g ≤ F + 1)) → ∀ st base st' code, compileBody g st c base e = .ok (st', code) →
    st.lambdas <+: st'.lambdas
  | _, _, _, _, _, _, _, _, @F3K.defl _ f0 _ _ _ _ _ x formals lbody y rest ints _ _ _ hf hk, F, ih, hg, st, base, st', code,
      hc => by
    obtain ⟨st1, code1, code2, c1, c2, _⟩ := compileBody_pair_inv hc
    obtain ⟨code0, c0', _⟩ := compile_define_inv c1
    have hle : f0 + 1 ≤ F := by rcases hg with h | ⟨_, h⟩ <;> omega
    exact ((ih f0 (by omega)).1 _ _ _ _ _ _ _ _ _ hf c0').trans (monoK hk F ih (.inl hle) _ _ _ _ c2)
  | _, _, _, _, _, _, _, _, @F3K.defc _ f0 _ _ _ _ _ x formals lbody y rest ints p ps rst lints caps _ _ _ hp _ _ _ _ _ _ hb
      hk, F, ih, hg, st, base, st', code, hc => by
    obtain ⟨st1, code1, code2, c1, c2, _⟩ := compileBody_pair_inv hc
    obtain ⟨p', st0, bcode, hp', cb, hl, _⟩ := compile_defcur_inv c1
    rw [hp] at hp'; cases hp'
    rw [(lambdaParts_cur_inv hp).1] at cb
    have hle : f0 + 1 ≤ F := by rcases hg with h | ⟨_, h⟩ <;> omega
    have h1 : st.lambdas <+: st1.lambdas := by
      rw [hl]
      exact ((ih f0 (by omega)).2.2 _ _ _ _ _ _ _ _ _ hb cb).trans (List.prefix_append _ _)
    exact h1.trans (monoK hk F ih (.inl hle) _ _ _ _ c2)
  | _, _, _, _, _, _, _, _, .done ints e hb, F, ih, hg, st, base, st', code, hc => by
    rcases hg with h | ⟨h, _⟩
    · exact (ih _ h).2.2 _ _ _ _ _ _ _ _ _ hb hc
    · exact absurd rfl h

theorem monoOK3_le (G : Text → Prop) : ∀ f g, g ≤ f → MonoOK3 G g
  | 0, g, hg => by
    have : g = 0 := by omega
    subst this
    exact ⟨(by intro c ns us t e st base st' code hf; cases hf), (by intro c ns us e st base st' code k hf; cases hf),
          (by
            intro c ns us ints e st base st' code hf
            cases hf with
            | block Bs ints e hne hK =>
              cases hK with
              | done ints e hb => exact absurd rfl hne)⟩
  | f + 1, g, hg => by
    have ihle := monoOK3_le G f
    by_cases hgf : g ≤ f
    · exact ihle g hgf
    have hge : g = f + 1 := by omega
    subst hge
    have ih := ihle f (Nat.le_refl _)
    refine ⟨?_, ?_, ?_⟩
    · intro c ns us t e st base st' code hf hc
      cases hf with
      | bool b => rw [(compile_const_inv2 (.inl ⟨b, rfl⟩) hc).2]; exact List.prefix_refl _
      | char ch => rw [(compile_const_inv2 (.inr (.inl ⟨ch, rfl⟩)) hc).2]; exact List.prefix_refl _
      | num n => rw [(compile_const_inv2 (.inr (.inr (.inl ⟨n, rfl⟩))) hc).2]; exact List.prefix_refl _
      | str s => rw [(compile_const_inv2 (.inr (.inr (.inr ⟨s, rfl⟩))) hc).2]; exact List.prefix_refl _
      | quote d rest => rw [(compile_quote_inv2 hc).2]; exact List.prefix_refl _
      | vecc e => rw [(compile_vec_inv2 hc).2]; exact List.prefix_refl _
      | sym x _ _ => rw [(compile_sym_inv2 hc).2]; exact List.prefix_refl _
      | setBang x e _ _ he =>
        obtain ⟨code1, h1, _⟩ := compile_setBang_inv2 hc
        exact ih.1 _ _ _ _ _ _ _ _ _ he h1
      | if2 tst cn h1 h2 =>
        obtain ⟨st1, tcode, ccode, c1, c2, _⟩ := compile_if2_inv2 hc
        exact (ih.1 _ _ _ _ _ _ _ _ _ h1 c1).trans (ih.1 _ _ _ _ _ _ _ _ _ h2 c2)
      | if3 tst cn al h1 h2 h3 =>
        obtain ⟨st1, st2, tcode, ccode, acode, c1, c2, c3, _⟩ := compile_if3_inv2 hc
        exact ((ih.1 _ _ _ _ _ _ _ _ _ h1 c1).trans (ih.1 _ _ _ _ _ _ _ _ _ h2 c2)).trans
          (ih.1 _ _ _ _ _ _ _ _ _ h3 c3)
      | app fn args hh h1 h2 =>
        obtain ⟨st1, code1, n, pcode, c1, c2, _⟩ := compile_app_inv2 hh hc
        exact (ih.2.1 _ _ _ _ _ _ _ _ _ h2 c1).trans (ih.1 _ _ _ _ _ _ _ _ _ h1 c2)
      | lambda formals body p ps rest ints caps hp _ _ _ _ _ _ hb =>
        obtain ⟨p', st1, bcode, hp', c1, hl, _⟩ := compile_lambda_inv hc
        rw [hp] at hp'; cases hp'
        rw [(lambdaParts_inv hp).1] at c1
        rw [hl]
        exact (ih.2.2 _ _ _ _ _ _ _ _ _ hb c1).trans (List.prefix_append _ _)
    · intro c ns us e st base st' code k hf hc
      cases hf with
      | nil => rw [(compileArgs_nil_inv2 hc).2.2]; exact List.prefix_refl _
      | cons a d h1 h2 =>
        obtain ⟨st1, code1, code2, n2, c1, c2, _, _⟩ := compileArgs_pair_inv2 hc
        exact (ih.1 _ _ _ _ _ _ _ _ _ h1 c1).trans (ih.2.1 _ _ _ _ _ _ _ _ _ h2 c2)
    · intro c ns us ints e st base st' code hf hc
      cases hf with
      | last x _ h1 =>
        obtain ⟨st1, code1, code2, c1, c2, _⟩ := compileBody_pair_inv hc
        have hnil : st' = st1 := by
          cases f with
          | zero => simp [compileBody] at c2
          | succ f => exact (compileBody_nil_inv c2).2
        rw [hnil]
        exact ih.1 _ _ _ _ _ _ _ _ _ h1 c1
      | cons x y rest _ h1 h2 =>
        obtain ⟨st1, code1, code2, c1, c2, _⟩ := compileBody_pair_inv hc
        exact (ih.1 _ _ _ _ _ _ _ _ _ h1 c1).trans (ih.2.2 _ _ _ _ _ _ _ _ _ h2 c2)
      | @defv f0 _ _ _ x e y rest ints _ _ _ h1 h2 =>
        obtain ⟨st1, code1, code2, c1, c2, _⟩ := compileBody_pair_inv hc
        obtain ⟨code0, c0', _⟩ := compile_define_inv c1
        have ih0 := ihle f0 (Nat.le_succ _)
        exact (ih0.1 _ _ _ _ _ _ _ _ _ h1 c0').trans (ih.2.2 _ _ _ _ _ _ _ _ _ h2 c2)
      | block Bs ints e hne hK => exact monoK hK f ihle (.inr ⟨hne, Nat.le_refl _⟩) _ _ _ _ hc

theorem monoOK3 (G : Text → Prop) (f : Nat) : MonoOK3 G f := monoOK3_le G f f (Nat.le_refl _)

/-! ## slots of the map `formals ++ internal definitions ++ captured` -/

theorem em3_length (fs ints : List Text) (caps : List (Text × Source)) :
    (em3 fs ints caps).length = fs.length + ints.length + caps.length := by
  simp [em3, argEntries]; omega

/-- the names `fs ++ ints` as one list of entries -/
theorem em3_get_arg (fs ints : List Text) (caps : List (Text × Source)) (j : Nat) (x : Text) (h : fs[j]? = some x) :
    (em3 fs ints caps)[j]? = some (x, .argument j) := by
  have hlt : j < fs.length := by
    rcases Nat.lt_or_ge j fs.length with h1 | h1
    · exact h1
    · rw [List.getElem?_eq_none h1] at h; cases h
  unfold em3
  rw [List.append_assoc, List.getElem?_append_left (by rw [argEntries_length]; exact hlt)]
  exact argEntries_get fs j x h

theorem em3_get_int (fs ints : List Text) (caps : List (Text × Source)) (i : Nat) (x : Text) (h : ints[i]? = some x) :
    (em3 fs ints caps)[fs.length + i]? = some (x, .internal) := by
  have hlt : i < ints.length := by
    rcases Nat.lt_or_ge i ints.length with h1 | h1
    · exact h1
    · rw [List.getElem?_eq_none h1] at h; cases h
  unfold em3
  rw [List.append_assoc, List.getElem?_append_right (by rw [argEntries_length]; omega), argEntries_length,
    show fs.length + i - fs.length = i by omega, List.getElem?_append_left (by simpa using hlt),
    List.getElem?_map, h]
  rfl

/-- entries of the map -/
theorem em3_entry_cases {fs ints : List Text} {caps : List (Text × Source)} {j : Nat} {q : Text × Source}
    (h : (em3 fs ints caps)[j]? = some q) :
    (j < fs.length ∧ ∃ x, fs[j]? = some x ∧ q = (x, .argument j)) ∨
    (fs.length ≤ j ∧ j < fs.length + ints.length ∧ ∃ x, ints[j - fs.length]? = some x ∧ q = (x, .internal)) ∨
    (fs.length + ints.length ≤ j ∧ q ∈ caps) := by
  by_cases hj : j < fs.length
  · left
    have hx : fs[j]? = some fs[j] := List.getElem?_eq_getElem hj
    rw [em3_get_arg fs ints caps j _ hx] at h
    cases h
    exact ⟨hj, _, hx, rfl⟩
  · by_cases hj2 : j < fs.length + ints.length
    · right; left
      have hi : j - fs.length < ints.length := by omega
      have hx : ints[j - fs.length]? = some ints[j - fs.length] := List.getElem?_eq_getElem hi
      have := em3_get_int fs ints caps (j - fs.length) _ hx
      rw [show fs.length + (j - fs.length) = j by omega, h] at this
      cases this
      exact ⟨by omega, hj2, _, hx, rfl⟩
    · right; right
      unfold em3 at h
      rw [List.getElem?_append_right (by simp [argEntries_length]; omega)] at h
      exact ⟨by omega, List.mem_of_getElem? h⟩

/-- slots of the map: the first entry for a name -/
theorem slot3_cases {fs ints : List Text} {caps : List (Text × Source)} {x : Text} {j : Nat}
    (hnd : (fs ++ ints).Nodup) (h : slotIdx (em3 fs ints caps) x = some j) :
    (j < fs.length ∧ fs[j]? = some x) ∨
    (fs.length ≤ j ∧ j < fs.length + ints.length ∧ ints[j - fs.length]? = some x) ∨
    (fs.length + ints.length ≤ j ∧ x ∉ fs ++ ints ∧ ∃ src, (em3 fs ints caps)[j]? = some (x, src) ∧ (x, src) ∈ caps) := by
  have _ := hnd
  obtain ⟨⟨src, hsrc⟩, hbefore⟩ := slotIdx_spec h
  rcases em3_entry_cases hsrc with ⟨hlt, y, hy, he⟩ | ⟨h1, h2, y, hy, he⟩ | ⟨h1, hmem⟩
  · cases he; exact .inl ⟨hlt, hy⟩
  · cases he; exact .inr (.inl ⟨h1, h2, hy⟩)
  · refine .inr (.inr ⟨h1, ?_, src, hsrc, hmem⟩)
    intro hm
    rcases List.mem_append.mp hm with hm | hm
    · obtain ⟨i, hi, hxi⟩ := List.getElem_of_mem hm
      have hgi : fs[i]? = some x := by rw [List.getElem?_eq_getElem hi, hxi]
      exact hbefore i (by omega) _ (em3_get_arg fs ints caps i x hgi) rfl
    · obtain ⟨i, hi, hxi⟩ := List.getElem_of_mem hm
      have hgi : ints[i]? = some x := by rw [List.getElem?_eq_getElem hi, hxi]
      exact hbefore (fs.length + i) (by omega) _ (em3_get_int fs ints caps i x hgi) rfl

end Marwood.Lemmas.CompileCorrect3
