import Marwood.Lemmas.EvalFrameSteps
/-!
# T01.1 — the special forms and the application step respect the frame
-/
namespace Marwood.Spec.Eval
open Marwood

variable {x : Text} {r : Rec}

theorem resp_allocVars : ∀ (xs : List (Text × Val)) (ρ : Env), (∀ p ∈ xs, CleanVal x p.2) →
    Resp x (allocVars xs ρ) (fun _ => True)
  | [], ρ, _ => Resp.pure _ trivial
  | (y, v) :: xs, ρ, h => by
    simp only [allocVars]
    refine Resp.bind (resp_allocCell _ (h (y, v) (by simp))) (fun l _ => ?_)
    exact resp_allocVars xs _ (fun p hp => h p (by simp [hp]))

theorem resp_makeClosure (formals body : Datum) (ρ : Env) (hb : Clean x body) :
    Resp x (makeClosure formals body ρ) (CleanVal x) := by
  unfold makeClosure
  split
  · rename_i ps rest b bs _ h2
    exact Resp.pure _ (by
      intro d hd
      exact clean_properList body _ h2 hb d hd)
  · exact Resp.throw _

theorem resp_defineValue (hr : RecOK x r) (ρ : Env) (d : Datum) (hd : Clean x d) :
    Resp x (defineValue r ρ d) (fun p => p.1 ≠ x ∧ CleanVal x p.2) := by
  unfold defineValue
  split
  · rename_i y e
    simp only [clean_pair, clean_sym] at hd
    split
    · exact Resp.throw _
    · refine Resp.bind (hr.eval e ρ hd.2.2.1) (fun v hv => ?_)
      exact Resp.pure _ ⟨hd.2.1, hv⟩
  · rename_i f formals body
    simp only [clean_pair, clean_sym] at hd
    split
    · exact Resp.throw _
    · refine Resp.bind (resp_makeClosure formals body ρ hd.2.2) (fun v hv => ?_)
      exact Resp.pure _ ⟨hd.2.1.1, hv⟩
  · exact Resp.throw _

theorem resp_assignVar (ρ : Env) (y : Text) (v : Val) (hy : y ≠ x) (hv : CleanVal x v) :
    Resp x (assignVar ρ y v) (fun _ => True) := by
  unfold assignVar
  split
  · exact resp_writeCell _ _ hv
  · exact resp_setGlobal y v hy hv

theorem resp_evalBodyForms (hr : RecOK x r) (ρ : Env) : ∀ (es : List Datum) (defs : Bool), CleanData x es →
    Resp x (evalBodyForms r ρ defs es) (CleanVal x)
  | [], _, _ => by simp only [evalBodyForms]; exact Resp.throw _
  | [e], defs, h => by
    simp only [cleanData_cons] at h
    simp only [evalBodyForms]
    split
    · refine Resp.bind (resp_defineValue hr ρ e h.1) (fun p hp => ?_)
      refine Resp.bind (resp_assignVar ρ p.1 p.2 hp.1 hp.2) (fun _ _ => ?_)
      exact Resp.pure _ (by simp [CleanVal])
    · exact hr.eval e ρ h.1
  | e :: e' :: es, defs, h => by
    simp only [cleanData_cons] at h
    simp only [evalBodyForms]
    split
    · refine Resp.bind (resp_defineValue hr ρ e h.1) (fun p hp => ?_)
      refine Resp.bind (resp_assignVar ρ p.1 p.2 hp.1 hp.2) (fun _ _ => ?_)
      exact resp_evalBodyForms hr ρ (e' :: es) true (by simp [h.2])
    · refine Resp.bind (hr.eval e ρ h.1) (fun _ _ => ?_)
      exact resp_evalBodyForms hr ρ (e' :: es) false (by simp [h.2])

theorem resp_evalBody (hr : RecOK x r) (ρ : Env) (body : List Datum) (h : CleanData x body) :
    Resp x (evalBody r ρ body) (CleanVal x) := by
  unfold evalBody
  refine Resp.bind (resp_allocVars _ ρ ?_) (fun ρ' _ => ?_)
  · intro p hp
    simp only [List.mem_map] at hp
    obtain ⟨_, _, rfl⟩ := hp
    simp [CleanVal]
  · exact resp_evalBodyForms hr ρ' body true h

theorem resp_bindArgs : ∀ (ps : List Text) (rest : Option Text) (args : List Val) (ρ : Env),
    CleanVals x args → Resp x (bindArgs ps rest args ρ) (fun _ => True)
  | [], none, [], ρ, _ => by simp only [bindArgs]; exact Resp.pure _ trivial
  | [], none, _ :: _, _, _ => by simp only [bindArgs]; exact Resp.throw _
  | [], some rr, args, ρ, h => by
    simp only [bindArgs]
    refine Resp.bind (resp_allocList args h) (fun lst hl => ?_)
    refine Resp.bind (resp_allocCell _ hl) (fun l _ => ?_)
    exact Resp.pure _ trivial
  | _ :: _, _, [], _, _ => by simp only [bindArgs]; exact Resp.throw _
  | p :: ps, rest, a :: args, ρ, h => by
    simp only [cleanVals_cons] at h
    simp only [bindArgs]
    refine Resp.bind (resp_allocCell _ h.1) (fun l _ => ?_)
    exact resp_bindArgs ps rest args _ h.2

/-- size of a datum (for the quasiquote walk, which descends two levels at once) -/
def dsz : Datum → Nat
  | .pair a d => dsz a + dsz d + 1
  | .vec e => dsz e + 1
  | _ => 1

theorem resp_qq (hr : RecOK x r) (ρ : Env) : ∀ (n : Nat) (d : Datum) (depth : Nat), dsz d ≤ n → Clean x d →
    Resp x (qq r ρ d depth) (CleanVal x) ∧ Resp x (qqElems r ρ d depth) (CleanVals x) := by
  intro n
  induction n with
  | zero => intro d depth hn; cases d <;> simp [dsz] at hn
  | succ n ih =>
    intro d depth hn hc
    refine ⟨?_, ?_⟩
    · unfold qq
      split
      · rename_i s y
        simp only [clean_pair, clean_sym, dsz] at hc hn
        have hy : ∀ k, Resp x (qq r ρ y k) (CleanVal x) := fun k => (ih y k (by omega) hc.2.1).1
        have hs : CleanVal x (.sym s) := by simpa [CleanVal] using hc.1
        split
        · split
          · exact hr.eval y ρ hc.2.1
          · refine Resp.bind (hy _) (fun y' hy' => ?_)
            exact resp_allocList _ (by simp [hs, hy'])
        · split
          · refine Resp.bind (hy _) (fun y' hy' => ?_)
            exact resp_allocList _ (by simp [hs, hy'])
          · refine Resp.bind (hy _) (fun y' hy' => ?_)
            exact resp_allocList _ (by simp [hs, hy'])
      · rename_i a d' _
        simp only [clean_pair, dsz] at hc hn
        refine Resp.bind (ih a _ (by omega) hc.1).1 (fun a' ha' => ?_)
        refine Resp.bind (ih d' _ (by omega) hc.2).1 (fun d'' hd'' => ?_)
        exact resp_cons a' d'' ha' hd''
      · rename_i e
        simp only [clean_vec, dsz] at hc hn
        refine Resp.bind (ih e _ (by omega) hc).2 (fun xs hxs => ?_)
        exact resp_allocVec xs hxs
      · exact resp_quoteVal _ hc
    · unfold qqElems
      split
      · rename_i a d'
        simp only [clean_pair, dsz] at hc hn
        refine Resp.bind (ih a _ (by omega) hc.1).1 (fun a' ha' => ?_)
        refine Resp.bind (ih d' _ (by omega) hc.2).2 (fun d'' hd'' => ?_)
        exact Resp.pure _ (by simp [ha', hd''])
      · exact Resp.pure _ (by simp)


theorem resp_evalCond (hr : RecOK x r) (ρ : Env) : ∀ (cs : List Datum), CleanData x cs →
    Resp x (evalCond r ρ cs) (CleanVal x)
  | [], _ => Resp.pure _ (by simp [CleanVal])
  | c :: cs, h => by
    simp only [cleanData_cons] at h
    simp only [evalCond]
    split
    · rename_i t body hp
      have hcl := clean_properList c _ hp h.1
      have ht : Clean x t := hcl t (by simp)
      have hb : CleanData x body := fun d hd => hcl d (by simp [hd])
      split
      · split
        · exact resp_evalExprs hr ρ body hb
        · exact Resp.throw _
      · refine Resp.bind (hr.eval t ρ ht) (fun v hv => ?_)
        split
        · split
          · exact Resp.pure _ hv
          · rename_i arrow f
            simp only [cleanData_cons] at hb
            split
            · refine Resp.bind (hr.eval f ρ hb.2.1) (fun fv hfv => ?_)
              exact hr.apply fv [v] hfv (by simp [hv])
            · exact resp_evalExprs hr ρ _ (by simp [hb.1, hb.2.1])
          · exact resp_evalExprs hr ρ body hb
        · exact resp_evalCond hr ρ cs h.2
    · exact Resp.throw _

theorem resp_evalCase (hr : RecOK x r) (ρ : Env) (key : Val) (hk : CleanVal x key) : ∀ (cs : List Datum),
    CleanData x cs → Resp x (evalCase r ρ key cs) (CleanVal x)
  | [], _ => Resp.pure _ (by simp [CleanVal])
  | c :: cs, h => by
    simp only [cleanData_cons] at h
    simp only [evalCase]
    split
    · rename_i sel bodyD
      have hc := h.1
      simp only [clean_pair] at hc
      split
      · rename_i body hp
        have hb : CleanData x body := clean_properList bodyD _ hp hc.2
        split
        · exact Resp.throw _
        · exact resp_evalCase hr ρ key hk cs h.2
        · split
          · rename_i arrow f
            simp only [cleanData_cons] at hb
            split
            · refine Resp.bind (hr.eval f ρ hb.2.1) (fun fv hfv => ?_)
              exact hr.apply fv [key] hfv (by simp [hk])
            · exact resp_evalExprs hr ρ _ (by simp [hb.1, hb.2.1])
          · exact resp_evalExprs hr ρ body hb
      · exact Resp.throw _
    · exact Resp.throw _

theorem resp_evalLetStar (hr : RecOK x r) (body : List Datum) (hb : CleanData x body) :
    ∀ (bs : List (Text × Datum)) (ρ : Env), (∀ b ∈ bs, Clean x b.2) →
    Resp x (evalLetStar r body bs ρ) (CleanVal x)
  | [], ρ, _ => by simp only [evalLetStar]; exact resp_evalBody hr ρ body hb
  | (y, e) :: bs, ρ, h => by
    simp only [evalLetStar]
    refine Resp.bind (hr.eval e ρ (h (y, e) (by simp))) (fun v hv => ?_)
    refine Resp.bind (resp_allocCell _ hv) (fun l _ => ?_)
    exact resp_evalLetStar hr body hb bs _ (fun b hb' => h b (by simp [hb']))

theorem resp_evalVar (s : Text) (ρ : Env) (hs : s ≠ x) : Resp x (evalVar s ρ) (CleanVal x) := by
  unfold evalVar
  split
  · exact Resp.throw _
  · split
    · exact resp_readVar _
    · exact resp_getGlobal s hs


theorem resp_evalLetrecInits (hr : RecOK x r) (ρ : Env) : ∀ (bs : List (Text × Datum)),
    (∀ b ∈ bs, b.1 ≠ x ∧ Clean x b.2) → Resp x (evalLetrecInits r ρ bs) (fun _ => True)
  | [], _ => Resp.pure _ trivial
  | (y, e) :: bs, h => by
    simp only [evalLetrecInits]
    have h1 := h (y, e) (by simp)
    refine Resp.bind (hr.eval e ρ h1.2) (fun v hv => ?_)
    refine Resp.bind (resp_assignVar ρ y v h1.1 hv) (fun _ _ => ?_)
    exact resp_evalLetrecInits hr ρ bs (fun b hb => h b (by simp [hb]))


/-- the elements of a clean proper list, as a `CleanData` fact -/
theorem cleanData_properList (d : Datum) (es : List Datum) (h : properList d = some es) (hc : Clean x d) :
    CleanData x es := clean_properList d es h hc

theorem resp_evalKw (hr : RecOK x r) (ρ : Env) (k : Kw) (rest : Datum) (hc : Clean x rest) :
    Resp x (evalKw r ρ k rest) (CleanVal x) := by
  cases k with
  | quote =>
    simp only [evalKw]
    split
    · simp only [clean_pair] at hc; exact resp_quoteVal _ hc.1
    · exact Resp.throw _
  | quasiquote =>
    simp only [evalKw]
    split
    · simp only [clean_pair] at hc; exact (resp_qq hr ρ _ _ _ (Nat.le_refl _) hc.1).1
    · exact Resp.throw _
  | unquote => exact Resp.throw _
  | define => exact Resp.throw _
  | lambda =>
    simp only [evalKw]
    split
    · simp only [clean_pair] at hc; exact resp_makeClosure _ _ ρ hc.2
    · exact Resp.throw _
  | setBang =>
    simp only [evalKw]
    split
    · rename_i y e hp
      have hd := cleanData_properList rest _ hp hc
      simp only [cleanData_cons, clean_sym] at hd
      split
      · exact Resp.throw _
      · refine Resp.bind (hr.eval e ρ hd.2.1) (fun v hv => ?_)
        refine Resp.bind (resp_assignVar ρ y v hd.1 hv) (fun _ _ => ?_)
        exact Resp.pure _ (by simp [CleanVal])
    · exact Resp.throw _
  | if_ =>
    simp only [evalKw]
    split
    · rename_i t c hp
      have hd := cleanData_properList rest _ hp hc
      simp only [cleanData_cons] at hd
      refine Resp.bind (hr.eval t ρ hd.1) (fun v hv => ?_)
      split
      · exact hr.eval c ρ hd.2.1
      · exact Resp.pure _ (by simp [CleanVal])
    · rename_i t c a hp
      have hd := cleanData_properList rest _ hp hc
      simp only [cleanData_cons] at hd
      refine Resp.bind (hr.eval t ρ hd.1) (fun v hv => ?_)
      split
      · exact hr.eval c ρ hd.2.1
      · exact hr.eval a ρ hd.2.2.1
    · exact Resp.throw _
  | let_ =>
    simp only [evalKw]
    split
    · rename_i name bindings bodyD
      simp only [clean_pair, clean_sym] at hc
      split
      · rename_i bs b body hb hp
        have hbs := clean_parseBindings bindings bs hb hc.2.1
        have hbody := cleanData_properList bodyD _ hp hc.2.2
        split
        · exact Resp.throw _
        · refine Resp.bind (resp_evalArgs hr ρ _ ?_) (fun vs hvs => ?_)
          · intro d hd
            simp only [List.mem_map] at hd
            obtain ⟨b', hb', rfl⟩ := hd
            exact (hbs b' hb').2
          · refine Resp.bind (resp_allocCell _ (by simp [CleanCell, CleanVal])) (fun l _ => ?_)
            have hf : CleanVal x (Val.closure (bs.map (·.1)) none (b :: body) ((name, l) :: ρ)) := hbody
            refine Resp.bind (resp_writeCell l _ hf) (fun _ _ => ?_)
            exact hr.apply _ vs hf hvs
      · exact Resp.throw _
    · rename_i bindings bodyD _
      simp only [clean_pair] at hc
      split
      · rename_i bs b body hb hp
        have hbs := clean_parseBindings bindings bs hb hc.1
        have hbody := cleanData_properList bodyD _ hp hc.2
        refine Resp.bind (resp_evalArgs hr ρ _ ?_) (fun vs hvs => ?_)
        · intro d hd
          simp only [List.mem_map] at hd
          obtain ⟨b', hb', rfl⟩ := hd
          exact (hbs b' hb').2
        · refine Resp.bind (resp_allocVars _ ρ ?_) (fun ρ' _ => ?_)
          · intro p hp'
            exact hvs p.2 (List.of_mem_zip hp').2
          · exact resp_evalBody hr ρ' _ hbody
      · exact Resp.throw _
    · exact Resp.throw _
  | letStar =>
    simp only [evalKw]
    split
    · rename_i bindings bodyD
      simp only [clean_pair] at hc
      split
      · rename_i bs b body hb hp
        have hbs := clean_parseBindings bindings bs hb hc.1
        have hbody := cleanData_properList bodyD _ hp hc.2
        exact resp_evalLetStar hr _ hbody bs ρ (fun b' hb' => (hbs b' hb').2)
      · exact Resp.throw _
    · exact Resp.throw _
  | letrec =>
    simp only [evalKw]
    split
    · rename_i bindings bodyD
      simp only [clean_pair] at hc
      split
      · rename_i bs b body hb hp
        have hbs := clean_parseBindings bindings bs hb hc.1
        have hbody := cleanData_properList bodyD _ hp hc.2
        refine Resp.bind (resp_allocVars _ ρ ?_) (fun ρ' _ => ?_)
        · intro p hp'
          simp only [List.mem_map] at hp'
          obtain ⟨_, _, rfl⟩ := hp'
          simp [CleanVal]
        · refine Resp.bind (resp_evalLetrecInits hr ρ' bs hbs) (fun _ _ => ?_)
          exact resp_evalBody hr ρ' _ hbody
      · exact Resp.throw _
    · exact Resp.throw _
  | begin_ =>
    simp only [evalKw]
    split
    · rename_i es hp
      exact resp_evalExprs hr ρ es (cleanData_properList rest _ hp hc)
    · exact Resp.throw _
  | cond =>
    simp only [evalKw]
    split
    · rename_i c cs hp
      exact resp_evalCond hr ρ _ (cleanData_properList rest _ hp hc)
    · exact Resp.throw _
  | case_ =>
    simp only [evalKw]
    split
    · rename_i keyE clauses
      simp only [clean_pair] at hc
      split
      · rename_i c cs hp
        refine Resp.bind (hr.eval keyE ρ hc.1) (fun key hk => ?_)
        exact resp_evalCase hr ρ key hk _ (cleanData_properList clauses _ hp hc.2)
      · exact Resp.throw _
    · exact Resp.throw _
  | and_ =>
    simp only [evalKw]
    split
    · rename_i es hp
      exact resp_evalAnd hr ρ es (cleanData_properList rest _ hp hc)
    · exact Resp.throw _
  | or_ =>
    simp only [evalKw]
    split
    · rename_i es hp
      exact resp_evalOr hr ρ es (cleanData_properList rest _ hp hc)
    · exact Resp.throw _
  | when_ =>
    simp only [evalKw]
    split
    · rename_i t b body hp
      have hd := cleanData_properList rest _ hp hc
      simp only [cleanData_cons] at hd
      refine Resp.bind (hr.eval t ρ hd.1) (fun v hv => ?_)
      split
      · exact resp_evalExprs hr ρ _ (by simp [hd.2.1, hd.2.2])
      · exact Resp.pure _ (by simp [CleanVal])
    · exact Resp.throw _
  | unless_ =>
    simp only [evalKw]
    split
    · rename_i t b body hp
      have hd := cleanData_properList rest _ hp hc
      simp only [cleanData_cons] at hd
      refine Resp.bind (hr.eval t ρ hd.1) (fun v hv => ?_)
      split
      · exact Resp.pure _ (by simp [CleanVal])
      · exact resp_evalExprs hr ρ _ (by simp [hd.2.1, hd.2.2])
    · exact Resp.throw _
  | delay =>
    simp only [evalKw]
    split
    · rename_i e hp
      have hd := cleanData_properList rest _ hp hc
      simp only [cleanData_cons] at hd
      refine Resp.bind (resp_allocCell _ ?_) (fun l _ => ?_)
      · show CleanVal x (Val.closure [] none [e] ρ)
        intro d hd'
        simp only [List.mem_singleton] at hd'
        subst hd'
        exact hd.1
      · exact Resp.pure _ (by simp [CleanVal])
    · exact Resp.throw _

end Marwood.Spec.Eval
