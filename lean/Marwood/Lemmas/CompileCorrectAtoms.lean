import Marwood.Lemmas.CompileCorrect
/-!
# T01.3 stage 1 — an explicit representation for store-free values, from elementary heap laws

`RepData` / `RepLaws` (`CompileCorrectDefs.lean`) are abstract. Here they are instantiated for the values
that need no store — booleans, `()`, the unspecified value, small integers, characters, strings, symbols,
and the supported primitive procedures:

* `AtomEnc` — the encoding: the opaque tags of `Machine.lean` for the four scalar kinds, and the builtin id
  of each supported primitive (`prim p = none`: not supported);
* `atomVR` — `v` represents `w` iff `v` is the flat cell of `w` or a pointer to a heap cell holding it;
* `AtomBase` — which names have a global slot, the slot of a name, and the heap invariant;
* `AtomLaws` — the assumptions, all about `HeapOps` fields: `heap.get` (`deref`) follows a pointer and is the
  identity on non-pointers; `CALL`'s dispatch (`callee`) sees a builtin value or a pointer to one as that
  builtin; the global slots are a store that shares nothing with heap cells and code; a supported
  primitive is first-order (its `Spec.Eval` meaning is `applyPrim1`), its builtin is `generic`, and on
  represented arguments `proc.eval` returns a representation of what `applyPrim1` returns, in a heap that
  keeps every representation, the code, the invariant and the global bindings;
* `atomLaws_repLaws` — these imply `RepLaws`; `compileExpr_correct_atoms` is the resulting instance of
  `compileExpr_correct`.
-/
namespace Marwood.Lemmas.CompileCorrect
open Marwood Marwood.Vm
open Marwood.Spec.Eval (Val Prim Cell evalN evalStep applyStep applyPrim1 evalArgs properList)

variable {H : Type}

structure AtomEnc where
  int : Int → String
  char : Char → String
  str : Text → String
  sym : Text → String
  prim : Prim → Option Nat

/-- the flat machine cell of a store-free value -/
def AtomEnc.cell (E : AtomEnc) : Val → Option VCell
  | .bool b => some (.bool b)
  | .nil => some .nil
  | .void => some .void
  | .int n => some (.opaque (E.int n))
  | .char c => some (.opaque (E.char c))
  | .str s => some (.opaque (E.str s))
  | .sym s => some (.opaque (E.sym s))
  | .prim p => (E.prim p).map VCell.builtin
  | _ => none

/-- `v` is the cell of `w`, or a pointer to a heap cell that holds it -/
def atomVR (ops : HeapOps H) (E : AtomEnc) (h : H) (_S : Array Cell) (v : VCell) (w : Val) : Prop :=
  ∃ c, E.cell w = some c ∧ (v = c ∨ ∃ p, v = .ptr p ∧ ops.getAt h p = c)

structure AtomBase (ops : HeapOps H) where
  named : Text → Prop
  slot : Text → Nat
  /-- heap invariant (e.g. the slots of the named globals exist) -/
  Inv : H → Prop

def atomData (ops : HeapOps H) (E : AtomEnc) (B : AtomBase ops) : RepData ops :=
  { named := B.named, slot := B.slot, VR := atomVR ops E, SRx := fun h _ => B.Inv h }

structure AtomLaws (ops : HeapOps H) (E : AtomEnc) (B : AtomBase ops) : Prop where
  slot_inj : ∀ a b, B.named a → B.named b → B.slot a = B.slot b → a = b
  /-- `heap.get` -/
  deref_ptr : ∀ h p, ops.deref h (.ptr p) = ops.getAt h p
  deref_imm : ∀ h v, (∀ p, v ≠ .ptr p) → ops.deref h v = v
  /-- the dispatch of `CALL` / `TCALL` -/
  callee_imm : ∀ h id, ops.callee h (.builtin id) = .builtin id
  callee_ptr : ∀ h p id, ops.getAt h p = .builtin id → ops.callee h (.ptr p) = .builtin id
  /-- the global environment -/
  glob_get_put : ∀ h x v m, B.Inv h → B.named x →
    ops.globGet (ops.globPut h (B.slot x) v) m = if m = B.slot x then v else ops.globGet h m
  globPut_inv : ∀ h n v, B.Inv h → B.Inv (ops.globPut h n v)
  globPut_getAt : ∀ h n v p, ops.getAt (ops.globPut h n v) p = ops.getAt h p
  globPut_isLambda : ∀ h n v l, ops.isLambda (ops.globPut h n v) l = ops.isLambda h l
  globPut_fetch : ∀ h n v l o, ops.fetch (ops.globPut h n v) l o = ops.fetch h l o
  /-- supported primitives do not call back into the evaluator -/
  prim_fo : ∀ p id, E.prim p = some id →
    p ≠ .apply ∧ p ≠ .eval ∧ p ≠ .force ∧ p ≠ .map ∧ p ≠ .forEach
  /-- the builtin of a supported primitive computes what `applyPrim1` computes -/
  builtin : ∀ h (σ : SSt) p id vs ws w (σ' : SSt) l, SR (atomData ops E B) h σ → E.prim p = some id →
    All2 (atomVR ops E h σ.store) vs ws → applyPrim1 p ws σ = .ok w σ' →
    ops.builtinKind h id = .generic ∧
    ∃ h' r, builtinResult ops h id vs.reverse = .ok (h', r) ∧ atomVR ops E h' σ'.store r w ∧
      SR (atomData ops E B) h' σ' ∧ Evolves (atomData ops E B) l h σ.store h' σ'.store

variable {ops : HeapOps H} {E : AtomEnc}

theorem cell_not_ptr {w : Val} {c : VCell} (h : E.cell w = some c) : ∀ p, c ≠ .ptr p := by
  intro p e; subst e
  cases w <;> simp [AtomEnc.cell] at h

theorem cell_ne_undefined {w : Val} {c : VCell} (h : E.cell w = some c) : c ≠ .undefined := by
  intro e; subst e
  cases w <;> simp [AtomEnc.cell] at h

theorem cell_false_iff {w : Val} {c : VCell} (h : E.cell w = some c) : c = .bool false ↔ w = .bool false := by
  cases w <;> simp [AtomEnc.cell] at h <;> first
    | (subst h; simp)
    | (obtain ⟨a, _, rfl⟩ := h; simp)

/-- a first-order primitive is applied by `applyPrim1` -/
theorem applyStep_prim_fo (r : Spec.Eval.Rec) (p : Prim) (args : List Val)
    (h : p ≠ .apply ∧ p ≠ .eval ∧ p ≠ .force ∧ p ≠ .map ∧ p ≠ .forEach) :
    applyStep r (.prim p) args = applyPrim1 p args := by
  obtain ⟨h1, h2, h3, h4, h5⟩ := h
  cases p <;>
    first
    | rfl
    | exact absurd rfl h1
    | exact absurd rfl h2
    | exact absurd rfl h3
    | exact absurd rfl h4
    | exact absurd rfl h5

theorem atomLaws_repLaws {B : AtomBase ops} (A : AtomLaws ops E B) : RepLaws (atomData ops E B) where
  slot_inj := A.slot_inj
  glob_get_put := fun h _ x v m hi hn => A.glob_get_put h x v m hi hn
  globPut_isLambda := A.globPut_isLambda
  globPut_fetch := A.globPut_fetch
  globPut_VR := by
    intro h n u S v w ⟨c, hc, hv⟩
    refine ⟨c, hc, ?_⟩
    rcases hv with hv | ⟨p, hp, hg⟩
    · exact .inl hv
    · exact .inr ⟨p, hp, by rw [A.globPut_getAt]; exact hg⟩
  globPut_SRx := fun h n u _ hi => A.globPut_inv h n u hi
  truth := by
    intro h S v w ⟨c, hc, hv⟩
    rcases hv with rfl | ⟨p, rfl, hg⟩
    · rw [A.deref_imm h v (cell_not_ptr hc)]; exact cell_false_iff hc
    · rw [A.deref_ptr, hg]; exact cell_false_iff hc
  ne_undefined := by
    intro h S v w ⟨c, hc, hv⟩
    rcases hv with rfl | ⟨p, rfl, _⟩
    · exact cell_ne_undefined hc
    · intro e; cases e
  void := fun h S => ⟨.void, rfl, .inl rfl⟩
  call := by
    intro n h σ vf f vs ws w σ' l hsr ⟨c, hc, hv⟩ hvs hap
    cases n with
    | zero => cases hap
    | succ n =>
      change applyStep (evalN n) f ws σ = _ at hap
      cases f with
      | prim p =>
        simp only [AtomEnc.cell, Option.map_eq_some_iff] at hc
        obtain ⟨id, hid, rfl⟩ := hc
        rw [applyStep_prim_fo _ _ _ (A.prim_fo p id hid)] at hap
        obtain ⟨hk, h', r, hres, hvr, hsr', hev⟩ := A.builtin h σ p id vs ws w σ' l hsr hid hvs hap
        refine ⟨id, h', r, ?_, hk, hres, hvr, hsr', hev⟩
        rcases hv with rfl | ⟨q, rfl, hg⟩
        · exact A.callee_imm h id
        · exact A.callee_ptr h q id hg
      | bool b => cases hap
      | char ch => cases hap
      | nil => cases hap
      | int i => cases hap
      | str t => cases hap
      | sym t => cases hap
      | void => cases hap
      | pair a => simp [AtomEnc.cell] at hc
      | vec a => simp [AtomEnc.cell] at hc
      | promise a => simp [AtomEnc.cell] at hc
      | closure a b c d => simp [AtomEnc.cell] at hc
      | undef => simp [AtomEnc.cell] at hc

/-- **Compiler correctness for the closure-free fragment over store-free values**: `compileExpr_correct`
    with the explicit representation `atomData`, under the elementary assumptions `AtomLaws`. -/
theorem compileExpr_correct_atoms {B : AtomBase ops} (A : AtomLaws ops E B)
    (fuel : Nat) (cst : CState) (base : Nat) (tail : Bool) (e : Datum)
    (cst' : CState) (code : List BC) (hf : Frag e)
    (hcomp : compileExpr fuel cst c0 base tail e = .ok (cst', code))
    (n : Nat) (σ : SSt) (w : Val) (σ' : SSt) (hev : (evalN n).eval e [] σ = .ok w σ')
    (s : MSt H) (hc : CodeAt (atomData ops E B) s.heap σ.store s.ipL base code) (hip : s.ipO = base)
    (hsr : SR (atomData ops E B) s.heap σ) (hw : SWF s.stack) :
    ∃ s', ExprRun (atomData ops E B) s code.length σ σ' w s' :=
  compileExpr_correct (atomLaws_repLaws A) fuel cst base tail e cst' code hf hcomp n σ w σ' hev s hc hip hsr hw

theorem compileDefine_correct_atoms {B : AtomBase ops} (A : AtomLaws ops E B)
    (fuel : Nat) (cst : CState) (base : Nat) (tail : Bool) (x : Text) (e : Datum)
    (cst' : CState) (code : List BC) (hfe : Frag e)
    (hcomp : compileExpr fuel cst c0 base tail
      (.pair (.sym Spec.Eval.k_define) (.pair (.sym x) (.pair e .nil))) = .ok (cst', code))
    (n : Nat) (σ : SSt) (w : Val) (σ' : SSt)
    (hev : Spec.Eval.evalTopForm (evalN n)
      (.pair (.sym Spec.Eval.k_define) (.pair (.sym x) (.pair e .nil))) σ = .ok w σ')
    (s : MSt H) (hc : CodeAt (atomData ops E B) s.heap σ.store s.ipL base code) (hip : s.ipO = base)
    (hsr : SR (atomData ops E B) s.heap σ) (hw : SWF s.stack) :
    ∃ s', ExprRun (atomData ops E B) s code.length σ σ' w s' :=
  compileDefine_correct (atomLaws_repLaws A) fuel cst base tail x e cst' code hfe hcomp n σ w σ' hev s hc hip
    hsr hw

end Marwood.Lemmas.CompileCorrect
