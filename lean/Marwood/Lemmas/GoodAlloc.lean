import Marwood.Lemmas.GoodDefs
/-!
# `Safe` as an invariant: allocation (`put`, `maybe_put`, fresh cells) preserves the heap invariant `HG`

The concrete allocator (`calloc` / `cput` / `putNew` of Vm/ConcreteHeap.lean) commutes with the erasure onto
the C03 heap model (`toHeap`), so T03.3 (`Lemmas/HeapWFOps.lean`: `putNew_wf`) carries `WFHeap` across; the
kind / code / environment disciplines are read off `calloc_spec`.
-/
namespace Marwood.Lemmas.Good
open Marwood Marwood.Vm Marwood.Vm.Concrete Marwood.Lemmas.Sim
open Marwood.Heap (GcState WFHeap RootsOk vrefs vrefsList crefs)
open Marwood.Lemmas.HeapWFOps (RefsOk VCell.isSymbol putNew_nonsym putNew_wf PutFacts)

/-! ## erasure commutes with the allocator -/

theorem grownSize_mod4 {chunk : Nat} (h4 : chunk % 4 = 0) (cur : Nat) : Heap.Heap.grownSize chunk cur % 4 = 0 := by
  unfold Heap.Heap.grownSize
  rw [Nat.mul_mod, h4]; simp

theorem toHeap_grow {h : CHeap} (inv : HInv h) : (toHeap h).grow = .ok (toHeap (cgrow h)) := by
  obtain ⟨hc, h4, k, hk, hsize⟩ := inv.shape
  have hgt := grownSize_gt' h.chunk k hc hk
  rw [← hsize] at hgt
  have hm := grownSize_mod4 h4 h.cells.size
  have hle : h.cells.size ≤ Heap.Heap.grownSize h.chunk h.cells.size := Nat.le_of_lt hgt
  unfold Heap.Heap.grow
  simp only [toHeap, Array.size_map, inv.sizes, Nat.ne_of_gt hc, hm, hle, if_true, if_false, ne_eq, not_true_eq_false, cgrow]
  simp [eraseC, eraseV]

theorem toHeap_takeFree {h : CHeap} (inv : HInv h) {p : Nat} {rest : List Nat} (hf : h.free = p :: rest) :
    Heap.Heap.setState { toHeap h with free := rest } p .allocated = .ok (toHeap (takeFree h p rest).1) := by
  have hp : h.gc[p]? = some GcState.free := (inv.free_iff p).mp (by rw [hf]; simp)
  have hplt : p < h.gc.size := lt_of_get_some hp
  simp [Heap.Heap.setState, toHeap, takeFree, hplt]

theorem toHeap_alloc {h : CHeap} (inv : HInv h) : (toHeap h).alloc = .ok (toHeap (calloc h).1, (calloc h).2) := by
  unfold Heap.Heap.alloc calloc
  cases hf : h.free with
  | cons p rest =>
    have : (toHeap h).free = p :: rest := hf
    simp only [this]
    rw [toHeap_takeFree inv hf]; rfl
  | nil =>
    have : (toHeap h).free = [] := hf
    simp only [this, toHeap_grow inv]
    have gs := cgrow_spec h inv
    cases hgf : (cgrow h).free with
    | nil =>
      exfalso
      have h1 := gs.free
      have hlt := gs.lt
      rw [hgf, hf] at h1
      have hl := congrArg List.length h1
      simp at hl
      omega
    | cons p rest =>
      have : (toHeap (cgrow h)).free = p :: rest := hgf
      simp only [bind, Except.bind, this]
      rw [toHeap_takeFree gs.inv hgf]; rfl

theorem toHeap_write {h : CHeap} {p : Nat} (hp : p < h.cells.size) (c : CCell) :
    (toHeap h).write p (eraseC c) = .ok (toHeap (cwrite h p c)) := by
  simp [Heap.Heap.write, toHeap, cwrite, hp, Array.map_setIfInBounds]

theorem toHeap_cput {h : CHeap} (inv : HInv h) (c : CCell) (hns : ¬ VCell.isSymbol (eraseC c)) :
    (toHeap h).putNew (eraseC c) = .ok (toHeap (cput h c).1, .ptr (cput h c).2) := by
  rw [putNew_nonsym _ _ hns, toHeap_alloc inv]
  simp only [bind, Except.bind]
  rw [toHeap_write (calloc_spec h inv).p_lt]; rfl

theorem eraseV_sym {v : VCell} {name : Text} (hs : symOf v = some name) : eraseV v = .symbol name := by
  obtain ⟨tag, rfl, ht⟩ := symOf_some hs
  simp [eraseV, ht]

theorem eraseV_nonsym {v : VCell} (hs : symOf v = none) : ¬ VCell.isSymbol (eraseV v) := by
  cases v with
  | «opaque» tag =>
    simp only [symOf] at hs
    simp [eraseV, hs, VCell.isSymbol]
  | _ => simp [eraseV, VCell.isSymbol]

theorem toHeap_putNew {h : CHeap} (inv : HInv h) (v : VCell) :
    (toHeap h).putNew (eraseV v) = .ok (toHeap (putNew h v).1, eraseV (putNew h v).2) := by
  cases hs : symOf v with
  | none =>
    have := toHeap_cput inv (.val v) (eraseV_nonsym hs)
    simp only [putNew, hs]
    exact this
  | some name =>
    have he := eraseV_sym hs
    have hl : (toHeap h).symLookup name = symLookup h name := rfl
    simp only [putNew, hs]
    rw [he]
    simp only [Heap.Heap.putNew, hl]
    cases hk : symLookup h name with
    | some p => rfl
    | none =>
      simp only [toHeap_alloc inv, bind, Except.bind]
      have hw := toHeap_write (calloc_spec h inv).p_lt (.val v)
      simp only [eraseC, he] at hw
      rw [hw]; rfl

/-! ## sizes never shrink (no hypothesis) -/

theorem calloc_size (h : CHeap) : h.cells.size ≤ (calloc h).1.cells.size := by
  unfold calloc
  split
  · simp [takeFree]
  · simp only; split <;> simp [takeFree, cgrow]

theorem cput_size (h : CHeap) (c : CCell) : h.cells.size ≤ (cput h c).1.cells.size := by
  simp only [cput, cwrite, Array.size_setIfInBounds]; exact calloc_size h
theorem putNew_size (h : CHeap) (v : VCell) : h.cells.size ≤ (putNew h v).1.cells.size := by
  unfold putNew
  split
  · split
    · exact Nat.le_refl _
    · exact cput_size h _
  · exact cput_size h _
theorem putV_size (h : CHeap) (v : VCell) : h.cells.size ≤ (putV h v).1.cells.size := by
  unfold putV; split
  · exact Nat.le_refl _
  · exact putNew_size h v
theorem maybePutV_size (h : CHeap) (v : VCell) : h.cells.size ≤ (maybePutV h v).1.cells.size := by
  unfold maybePutV; split
  · exact Nat.le_refl _
  · exact putNew_size h v

theorem Small.grown {h : CHeap} (sm : Small h) (inv : HInv h) :
    Heap.Heap.grownSize (toHeap h).chunk (toHeap h).cells.size ≤ 2 ^ 63 := by
  obtain ⟨hc, _, k, hk, hsize⟩ := inv.shape
  unfold Small at sm
  simp only [toHeap, Array.size_map]
  unfold Heap.Heap.grownSize
  rw [hsize, Nat.mul_div_cancel _ hc]
  have h1 : (3 * k + 1) / 2 ≤ 2 * k := by omega
  have h2 := Nat.mul_le_mul_right h.chunk h1
  rw [Nat.mul_assoc, ← hsize] at h2
  omega

/-- what a core instruction may store in a fresh cell -/
inductive NewCell (h : CHeap) : CCell → Prop
  | val {v : VCell} : plainVal v = true → symOf v = none → NewCell h (.val v)
  | lexEnv {ss : List VCell} : (∀ v ∈ ss, SlotOk h v) → NewCell h (.lexEnv ss)
  | cont {k : Cont} : k.stack.sp < k.stack.cells.length → NewCell h (.cont k)

/-- the result of storing `c` in a fresh cell `p` -/
structure PutRes (h h' : CHeap) (p : Nat) (c : CCell) : Prop where
  hg : HG h'
  mono : Mono h h'
  nf : (toHeap h').NonFree p
  cell : h'.cells[p]? = some c
  old : ∀ i c0, h.cells[i]? = some c0 → i ≠ p → h'.cells[i]? = some c0
  fresh : h.cells[p]? = some (CCell.val .undefined) ∨ h.cells.size ≤ p
  globals : h'.globals = h.globals
  globSyms : h'.globSyms = h.globSyms

/-- the kind / code / environment discipline of one cell content -/
def CellOk (h : CHeap) : CCell → Prop
  | .val v => plainVal v = true
  | .lexEnv ss => ∀ v ∈ ss, SlotOk h v
  | .vector _ => True
  | .lambda l => LamOk l
  | .cont k => k.stack.sp < k.stack.cells.length

theorem NewCell.ok {h : CHeap} {c : CCell} (hn : NewCell h c) : CellOk h c := by
  cases hn with
  | val h1 _ => exact h1
  | lexEnv h1 => exact h1
  | cont h1 => exact h1

theorem NewCell.nonsym {h : CHeap} {c : CCell} (hn : NewCell h c) : ¬ VCell.isSymbol (eraseC c) := by
  cases hn with
  | val _ h2 => exact eraseV_nonsym h2
  | lexEnv _ => simp [eraseC, VCell.isSymbol]
  | cont _ => simp [eraseC, VCell.isSymbol]

theorem eraseC_undef {c : CCell} (h : eraseC c = Heap.VCell.undefined) : c = .val .undefined := by
  cases c with
  | val v =>
    cases v with
    | «opaque» tag =>
      simp only [eraseC, eraseV] at h
      split at h
      · cases h
      · exfalso
        simp only [atomOfTag] at h
        split at h <;> cases h
    | undefined => rfl
    | _ => simp [eraseC, eraseV] at h
  | _ => simp [eraseC] at h

theorem slot_of_old {h h' : CHeap} {p : Nat}
    (old : ∀ i c0, h.cells[i]? = some c0 → i ≠ p → h'.cells[i]? = some c0)
    (fresh : h.cells[p]? = some (CCell.val .undefined) ∨ h.cells.size ≤ p) {v : VCell} (x : SlotOk h v) :
    SlotOk h' v := by
  rcases x with x | ⟨e, k, ss, w, rfl, hc, hk, hw⟩
  · exact .inl x
  · refine .inr ⟨e, k, ss, w, rfl, old e _ hc ?_, hk, hw⟩
    rintro rfl
    rcases fresh with f | f
    · rw [hc] at f; cases f
    · have := lt_of_get_some hc; omega

/-- the new heap satisfies the disciplines if every cell is the new one, an old one, or `Undefined` -/
theorem hg_of_cells {h h' : CHeap} (g : HG h) {c : CCell} {p : Nat} (ok : CellOk h c)
    (wf' : WFHeap true (toHeap h'))
    (cells : ∀ i c1, h'.cells[i]? = some c1 →
      (i = p ∧ c1 = c) ∨ (i ≠ p ∧ h.cells[i]? = some c1) ∨ c1 = CCell.val .undefined)
    (old : ∀ i c0, h.cells[i]? = some c0 → i ≠ p → h'.cells[i]? = some c0)
    (fresh : h.cells[p]? = some (CCell.val .undefined) ∨ h.cells.size ≤ p)
    (globals : h'.globals = h.globals) : HG h' := by
  refine ⟨wf', ⟨?_, ?_, ?_⟩, ?_, ?_⟩
  · intro i v hc
    rcases cells i _ hc with ⟨_, e⟩ | ⟨_, e⟩ | e
    · subst e; exact ok
    · exact g.plain.cells i v e
    · cases e; rfl
  · rw [globals]; exact g.plain.globals
  · intro i k hc
    rcases cells i _ hc with ⟨_, e⟩ | ⟨_, e⟩ | e
    · subst e; exact ok
    · exact g.plain.conts i k e
    · cases e
  · intro i l hc
    rcases cells i _ hc with ⟨_, e⟩ | ⟨_, e⟩ | e
    · subst e; exact ok
    · exact g.lam i l e
    · cases e
  · intro i ss hc v hv
    rcases cells i _ hc with ⟨_, e⟩ | ⟨_, e⟩ | e
    · subst e; exact slot_of_old old fresh (ok v hv)
    · exact slot_of_old old fresh (g.env i ss e v hv)
    · cases e

/-- storing `c` in a fresh cell, for any heap `h'` that agrees with `cput h c` on the cells -/
theorem put_core {h h' : CHeap} (g : HG h) {c : CCell} (ok : CellOk h c) (hr : CRefsOk h c) (sm : Small h')
    (hcells : h'.cells = (cput h c).1.cells) (hglob : h'.globals = h.globals) (hgs : h'.globSyms = h.globSyms)
    (hput : (toHeap h).putNew (eraseC c) = .ok (toHeap h', .ptr (cput h c).2)) :
    PutRes h h' (cput h c).2 c := by
  have inv := HInv.of_wf g.wf
  have a := calloc_spec h inv
  have hsz : h.cells.size ≤ h'.cells.size := by rw [hcells]; exact cput_size h c
  obtain ⟨wf', pf⟩ := putNew_wf true (toHeap h) _ (eraseC c) _ g.wf hr ((sm.of_le hsz).grown inv) hput
  obtain ⟨q, hq, hnf, _⟩ := pf.result
  cases hq
  have hcell : ∀ i, h'.cells[i]? = if i = (calloc h).2 then some c else (calloc h).1.cells[i]? := by
    intro i
    rw [hcells]
    simp only [cput, cwrite]
    by_cases hi : i = (calloc h).2
    · subst hi; simp [a.p_lt]
    · simp [hi, Array.getElem?_setIfInBounds_ne (Ne.symm hi)]
  have old : ∀ i c0, h.cells[i]? = some c0 → i ≠ (cput h c).2 → h'.cells[i]? = some c0 := by
    intro i c0 hc hi
    have hi' : i ≠ (calloc h).2 := hi
    rw [hcell i, if_neg hi', a.cells_old i (lt_of_get_some hc)]; exact hc
  have fresh : h.cells[(cput h c).2]? = some (CCell.val .undefined) ∨ h.cells.size ≤ (cput h c).2 := by
    rcases a.p_fresh with h1 | h1
    · left
      have h2 := g.wf.free_undef _ ((g.wf.free_iff _).mp h1)
      rw [toHeap_cells_get] at h2
      show h.cells[(calloc h).2]? = _
      cases hc : h.cells[(calloc h).2]? with
      | none => rw [hc] at h2; cases h2
      | some c0 =>
        rw [hc] at h2
        simp only [Option.map_some, Option.some.injEq] at h2
        rw [eraseC_undef h2]
    · exact .inr h1
  refine ⟨?_, ⟨hsz, fun y hy => (pf.keep y hy).1⟩, hnf, by rw [hcell]; simp [cput], old, fresh, hglob, hgs⟩
  refine hg_of_cells g ok wf' ?_ old fresh hglob
  intro i c1 hc
  rw [hcell i] at hc
  by_cases hi : i = (calloc h).2
  · rw [if_pos hi] at hc; cases hc; exact .inl ⟨hi, rfl⟩
  · rw [if_neg hi] at hc
    by_cases hlt : i < h.cells.size
    · rw [a.cells_old i hlt] at hc; exact .inr (.inl ⟨hi, hc⟩)
    · rw [a.cells_new i (by omega) (lt_of_get_some hc)] at hc
      cases hc; exact .inr (.inr rfl)

/-! ## a fresh cell -/

theorem cput_hg {h : CHeap} (g : HG h) {c : CCell} (hr : CRefsOk h c) (hn : NewCell h c)
    (sm : Small (cput h c).1) : PutRes h (cput h c).1 (cput h c).2 c :=
  put_core g hn.ok hr sm rfl (calloc_spec h (HInv.of_wf g.wf)).globals (calloc_spec h (HInv.of_wf g.wf)).globSyms
    (toHeap_cput (HInv.of_wf g.wf) c hn.nonsym)

/-- environment slots stay well-formed across an allocation -/
theorem PutRes.slot {h h' : CHeap} {p : Nat} {c : CCell} (r : PutRes h h' p c) {v : VCell} (x : SlotOk h v) :
    SlotOk h' v := slot_of_old r.old r.fresh x

/-! ## `put` / `maybe_put` of a machine value -/

structure PutVRes (h h' : CHeap) (r : VCell) : Prop where
  hg : HG h'
  mono : Mono h h'
  res : VOk h' r
  globals : h'.globals = h.globals
  globSyms : h'.globSyms = h.globSyms

theorem PutVRes.refl {h : CHeap} (g : HG h) {v : VCell} (x : VOk h v) : PutVRes h h v :=
  ⟨g, .refl h, x, rfl, rfl⟩

theorem PutRes.putV {h h' : CHeap} {p : Nat} {c : CCell} (r : PutRes h h' p c) : PutVRes h h' (.ptr p) :=
  ⟨r.hg, r.mono, .ptr (.inl r.nf), r.globals, r.globSyms⟩

theorem putNew_hg {h : CHeap} (g : HG h) {v : VCell} (hr : VRefsOk h v) (hp : plainVal v = true)
    (sm : Small (putNew h v).1) : PutVRes h (putNew h v).1 (putNew h v).2 ∧ ∃ a, (putNew h v).2 = .ptr a := by
  have inv := HInv.of_wf g.wf
  have a := calloc_spec h inv
  cases hs : symOf v with
  | none =>
    have e : putNew h v = ((cput h (.val v)).1, .ptr (cput h (.val v)).2) := by simp only [putNew, hs]
    rw [e] at sm ⊢
    exact ⟨(cput_hg g (.val hr) (.val hp hs) sm).putV, _, rfl⟩
  | some name =>
    cases hk : symLookup h name with
    | some p =>
      have e : putNew h v = (h, .ptr p) := by simp only [putNew, hs, hk]
      rw [e]
      have hl : (toHeap h).symLookup name = some p := hk
      exact ⟨.refl g (.ptr (.inl ((g.wf.interned name p).mp hl).2)), _, rfl⟩
    | none =>
      have hput := toHeap_putNew inv v
      have e : putNew h v = ({ (cput h (.val v)).1 with
          symtab := Heap.Heap.symInsert (cput h (.val v)).1.symtab name (cput h (.val v)).2 },
          .ptr (cput h (.val v)).2) := by simp only [putNew, hs, hk]
      rw [e] at sm hput ⊢
      exact ⟨(put_core (c := .val v) g hp (.val hr) sm rfl a.globals a.globSyms hput).putV, _, rfl⟩

theorem putV_hg {h : CHeap} (g : HG h) {v : VCell} (hr : VRefsOk h v) (hp : plainVal v = true)
    (sm : Small (putV h v).1) : PutVRes h (putV h v).1 (putV h v).2 ∧ ∃ a, (putV h v).2 = .ptr a := by
  unfold putV at sm ⊢
  split
  · rename_i hi
    cases v <;> simp [isPtr] at hi
    exact ⟨.refl g ⟨rfl, hr⟩, _, rfl⟩
  · rename_i hi
    rw [if_neg hi] at sm
    exact putNew_hg g hr hp sm

theorem immediate_addrFree {v : VCell} (hi : immediate v = true) : addrFree v = true := by
  cases v <;> first | rfl | simp [immediate] at hi

theorem maybePutV_hg {h : CHeap} (g : HG h) {v : VCell} (hr : VRefsOk h v) (hp : plainVal v = true)
    (sm : Small (maybePutV h v).1) : PutVRes h (maybePutV h v).1 (maybePutV h v).2 := by
  unfold maybePutV at sm ⊢
  split
  · rename_i hi
    rcases Bool.or_eq_true _ _ ▸ hi with h1 | h1
    · cases v <;> simp [isPtr] at h1
      exact .refl g ⟨rfl, hr⟩
    · exact .refl g (.of_addrFree h (immediate_addrFree h1))
  · rename_i hi
    rw [if_neg hi] at sm
    exact (putNew_hg g hr hp sm).1

end Marwood.Lemmas.Good
