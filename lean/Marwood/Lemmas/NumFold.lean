import Marwood.Lemmas.NumArith
/-!
# Variadic `+ * -`: folds of the binary operations; an exact answer is the exact sum / product
-/
namespace Marwood.Arith
open Marwood Marwood.NumSpec

theorem ratArm_denpos {q : Option Ratio} {f : Num} (hc : ∀ r, q = some r → 0 < r.2)
    (hf : DenPos f) : DenPos (ratArm q f) := by
  cases q with
  | none => exact hf
  | some r => exact hc r rfl

theorem denpos_flo2 (op : F64 → F64 → F64) (a b : Num) : DenPos (flo2 op a b) := trivial

theorem add_denpos (a b : Num) (ha : DenPos a) (hb : DenPos b) : DenPos (add a b) := by
  cases a <;> cases b <;> simp only [add] <;> (try trivial)
  case fix.fix l r => split <;> trivial
  case fix.rat l n d =>
    split
    · exact ratArm_denpos (fun r hr => (checkedAdd_crs (l, 1) (n, d) (by simp) (denpos_rat hb) hr).1) trivial
    · trivial
  case big.rat l n d => split <;> trivial
  case rat.fix n d r =>
    split
    · exact ratArm_denpos (fun q hr => (checkedAdd_crs (r, 1) (n, d) (by simp) (denpos_rat ha) hr).1) trivial
    · trivial
  case rat.big n d r => split <;> trivial
  case rat.rat n d n' d' =>
    exact ratArm_denpos (fun q hr => (checkedAdd_crs (n, d) (n', d') (denpos_rat ha) (denpos_rat hb) hr).1) trivial

theorem mul_denpos (a b : Num) (ha : DenPos a) (hb : DenPos b) : DenPos (mul a b) := by
  cases a <;> cases b <;> simp only [mul] <;> (try trivial)
  case fix.fix l r => split <;> trivial
  case fix.rat l n d =>
    split
    · exact ratArm_denpos (fun r hr => (checkedMul_crs (l, 1) (n, d) (by simp) (denpos_rat hb) hr).1) trivial
    · trivial
  case big.rat l n d => split <;> trivial
  case rat.fix n d r =>
    split
    · exact ratArm_denpos (fun q hr => (checkedMul_crs (r, 1) (n, d) (by simp) (denpos_rat ha) hr).1) trivial
    · trivial
  case rat.big n d r => split <;> trivial
  case rat.rat n d n' d' =>
    exact ratArm_denpos (fun q hr => (checkedMul_crs (n, d) (n', d') (denpos_rat ha) (denpos_rat hb) hr).1) trivial

/-- a double operand makes the answer a double ("inexactness is infectious") -/
theorem add_exact_operands {a b : Num} (h : isExact (add a b) = true) :
    isExact a = true ∧ isExact b = true := by
  cases a <;> cases b <;> first | exact ⟨rfl, rfl⟩ | (simp [add] at h)

theorem mul_exact_operands {a b : Num} (h : isExact (mul a b) = true) :
    isExact a = true ∧ isExact b = true := by
  cases a <;> cases b <;> first | exact ⟨rfl, rfl⟩ | (simp [mul] at h)

theorem sub_exact_operands {a b : Num} (h : isExact (sub a b) = true) :
    isExact a = true ∧ isExact b = true := by
  cases a <;> cases b <;> first | exact ⟨rfl, rfl⟩ | (simp [sub] at h)

theorem foldl_add_exact_acc (l : List Num) (acc : Num) (h : isExact (l.foldl add acc) = true) :
    isExact acc = true := by
  induction l generalizing acc with
  | nil => exact h
  | cons a rest ih => exact (add_exact_operands (ih (add acc a) h)).1

theorem foldl_mul_exact_acc (l : List Num) (acc : Num) (h : isExact (l.foldl mul acc) = true) :
    isExact acc = true := by
  induction l generalizing acc with
  | nil => exact h
  | cons a rest ih => exact (mul_exact_operands (ih (mul acc a) h)).1

/-- an exactly answered left fold of `+` is the sum in ℚ, and all operands were exact -/
theorem foldl_add_exact (l : List Num) (acc : Num) (hacc : DenPos acc) (hl : ∀ a ∈ l, DenPos a)
    (h : isExact (l.foldl add acc) = true) :
    ∃ (x : Rat) (xs : List Rat), val acc = some x ∧
      List.Forall₂ (fun a v => isExact a = true ∧ val a = some v) l xs ∧
      val (l.foldl add acc) = some (xs.foldl (· + ·) x) := by
  induction l generalizing acc with
  | nil =>
    have : ∃ x, val acc = some x := by
      cases acc with
      | fix n => exact ⟨_, rfl⟩
      | big n => exact ⟨_, rfl⟩
      | rat n d => exact ⟨_, rfl⟩
      | flo f => simp at h
    obtain ⟨x, hx⟩ := this
    exact ⟨x, [], hx, List.Forall₂.nil, hx⟩
  | cons a rest ih =>
    simp only [List.foldl_cons] at h ⊢
    have hda : DenPos a := hl a (by simp)
    have hex := foldl_add_exact_acc rest (add acc a) h
    obtain ⟨x, y, hx, hy, hxy⟩ := add_exact acc a hacc hda hex
    obtain ⟨x', xs, hx', hf, hv⟩ := ih (add acc a) (add_denpos acc a hacc hda)
      (fun c hc => hl c (List.mem_cons_of_mem _ hc)) h
    rw [hxy] at hx'; cases hx'
    exact ⟨x, y :: xs, hx, List.Forall₂.cons ⟨(add_exact_operands hex).2, hy⟩ hf, by simpa using hv⟩

theorem foldl_mul_exact (l : List Num) (acc : Num) (hacc : DenPos acc) (hl : ∀ a ∈ l, DenPos a)
    (h : isExact (l.foldl mul acc) = true) :
    ∃ (x : Rat) (xs : List Rat), val acc = some x ∧
      List.Forall₂ (fun a v => isExact a = true ∧ val a = some v) l xs ∧
      val (l.foldl mul acc) = some (xs.foldl (· * ·) x) := by
  induction l generalizing acc with
  | nil =>
    have : ∃ x, val acc = some x := by
      cases acc with
      | fix n => exact ⟨_, rfl⟩
      | big n => exact ⟨_, rfl⟩
      | rat n d => exact ⟨_, rfl⟩
      | flo f => simp at h
    obtain ⟨x, hx⟩ := this
    exact ⟨x, [], hx, List.Forall₂.nil, hx⟩
  | cons a rest ih =>
    simp only [List.foldl_cons] at h ⊢
    have hda : DenPos a := hl a (by simp)
    have hex := foldl_mul_exact_acc rest (mul acc a) h
    obtain ⟨x, y, hx, hy, hxy⟩ := mul_exact acc a hacc hda hex
    obtain ⟨x', xs, hx', hf, hv⟩ := ih (mul acc a) (mul_denpos acc a hacc hda)
      (fun c hc => hl c (List.mem_cons_of_mem _ hc)) h
    rw [hxy] at hx'; cases hx'
    exact ⟨x, y :: xs, hx, List.Forall₂.cons ⟨(mul_exact_operands hex).2, hy⟩ hf, by simpa using hv⟩

end Marwood.Arith
