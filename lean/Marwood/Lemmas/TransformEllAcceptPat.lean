import Marwood.Lemmas.TransformEllSound
import Marwood.Lemmas.TransformTermShape
/-!
# Every pattern `Transform::try_new` accepts has ellipsis depth ≤ 1 (`nn`)

`check_pattern_support` (`cpsLoop`) rejects an element followed by the ellipsis anywhere inside an
element that is itself followed by the ellipsis (`d1`, with `Term.ng` for the inside of a group);
`Pattern::build` + `check_pattern_support` give proper, vector-free lists that do not start with the
ellipsis and contain it at most once (`okS`, `ruleOK_wfPattern`). Together: what precedes an ellipsis
is `plain`, i.e. `nn`.
-/
namespace Marwood.Transform.EllAccept
open Marwood Marwood.Spec.Match Marwood.Transform.Term

/-- what `cpsLoop … inEll := false` lets through: an item followed by the ellipsis contains no item
    followed by the ellipsis (`Term.ng`) -/
def d1 (ell : Datum) : Datum → Bool
  | .pair a d => (if peekIs ell (iterList d) then ng ell a else d1 ell a) && d1 ell d
  | _ => true

def d1L (ell : Datum) : List Datum → Bool
  | [] => true
  | it :: rest => (if peekIs ell rest then ng ell it else d1 ell it) && d1L ell rest

theorem d1L_iterList (ell : Datum) (d : Datum) : d1L ell (iterList d) = d1 ell d := by
  induction d with
  | pair a d _ ihd => simp only [iterList, d1L, d1, ihd]
  | nil => rfl
  | _ => simp [iterList, d1L, d1, peekIs]

theorem cpsLoop_d1 (ell : Datum) : ∀ (f : Nat) (inEll : Bool) (items : List Datum),
    cpsLoop ell f inEll items = .ok () →
    (inEll = true → ngL ell items = true) ∧ (inEll = false → d1L ell items = true) := by
  intro f
  induction f with
  | zero => intro inEll items h; simp [cpsLoop] at h
  | succ f ih =>
    intro inEll items h
    cases items with
    | nil => exact ⟨fun _ => rfl, fun _ => rfl⟩
    | cons it rest =>
      unfold cpsLoop at h
      simp only at h
      split at h
      · cases h
      · rename_i hc
        split at h
        · rename_i hsub
          have hrest := ih _ _ h
          have hitem : ((inEll || peekIs ell rest) = true → ng ell it = true) ∧
              ((inEll || peekIs ell rest) = false → d1 ell it = true) := by
            cases it with
            | vec v => simp at hsub
            | pair a d =>
              simp only at hsub
              split at hsub
              · cases hsub
              · have := ih _ _ hsub
                rw [ngL_iterList, d1L_iterList] at this
                exact this
            | _ => exact ⟨fun _ => rfl, fun _ => rfl⟩
          refine ⟨fun hi => ?_, fun hi => ?_⟩
          · subst hi
            have hpk : peekIs ell rest = false := by simpa using hc
            simp only [ngL, hpk, Bool.not_false, Bool.and_true, Bool.and_eq_true]
            exact ⟨hitem.1 (by simp), hrest.1 rfl⟩
          · subst hi
            simp only [d1L, Bool.and_eq_true]
            refine ⟨?_, hrest.2 rfl⟩
            cases hpk : peekIs ell rest with
            | true => simpa using hitem.1 (by simp [hpk])
            | false => simpa using hitem.2 (by simp [hpk])
        all_goals cases h

/-- inside a group of an accepted pattern there is no ellipsis at all -/
theorem ng_plain (es : Text) : ∀ d : Datum,
    (properP d = true → okP es d = true → ng (.sym es) d = true → plain es d = true) ∧
    (∀ allow, properS d = true → okS es allow d = true → peekIs (.sym es) (iterList d) = false →
      ng (.sym es) d = true → plain.plainTail es d = true) := by
  intro d
  induction d with
  | pair a d iha ihd =>
    constructor
    · intro hp hok hng
      simp only [properP, Bool.and_eq_true] at hp
      simp only [okP, Bool.and_eq_true] at hok
      simp only [ng, Bool.and_eq_true, Bool.not_eq_true'] at hng
      simp only [plain, Bool.and_eq_true]
      exact ⟨iha.1 hp.1 hok.1 hng.1.1, ihd.2 true hp.2 hok.2 hng.1.2 hng.2⟩
    · intro allow hp hok hpk hng
      simp only [properS, Bool.and_eq_true] at hp
      simp only [ng, Bool.and_eq_true, Bool.not_eq_true'] at hng
      have hane : a ≠ .sym es := by
        intro ha; subst ha; simp [iterList, peekIs] at hpk
      simp only [okS, hane, if_false, Bool.and_eq_true] at hok
      simp only [plain.plainTail, Bool.and_eq_true]
      exact ⟨iha.1 hp.1 hok.1 hng.1.1, ihd.2 allow hp.2 hok.2 hng.1.2 hng.2⟩
  | sym x =>
    exact ⟨fun _ hok _ => by simpa [okP, plain] using hok, fun _ hp => by simp [properS] at hp⟩
  | nil => exact ⟨fun _ _ _ => rfl, fun _ _ _ _ _ => rfl⟩
  | vec v _ => exact ⟨fun hp => by simp [properP] at hp, fun _ hp => by simp [properS] at hp⟩
  | _ => exact ⟨fun _ _ _ => rfl, fun _ hp => by simp [properS] at hp⟩

theorem nn_aux (es : Text) : ∀ (n : Nat) (d : Datum) (allow : Bool), dsize d ≤ n →
    properS d = true → okS es allow d = true → d1 (.sym es) d = true → nn es d = true := by
  intro n
  induction n with
  | zero => intro d _ hn; cases d <;> simp [dsize] at hn
  | succ n ih =>
    intro d allow hn hp hok hd
    -- an item of the list
    have hitem : ∀ a : Datum, dsize a ≤ n → properP a = true → (a = .sym es ∨ okP es a = true) →
        d1 (.sym es) a = true → nn es a = true := by
      intro a hna hpa hoa hda
      cases a with
      | pair x y =>
        rcases hoa with hoa | hoa
        · cases hoa
        · simp only [okP, Bool.and_eq_true] at hoa
          have hx : x ≠ .sym es := by
            intro hx; subst hx; simp [okP] at hoa
          refine ih (.pair x y) true hna (by simpa [properP, properS] using hpa) ?_ hda
          simp only [okS, hx, if_false, Bool.and_eq_true]
          exact hoa
      | vec v => simp [properP] at hpa
      | _ => simp [nn]
    cases d with
    | nil => simp [nn]
    | pair a d' =>
      simp only [dsize] at hn
      simp only [properS, Bool.and_eq_true] at hp
      simp only [d1, Bool.and_eq_true] at hd
      have hoa : (a = .sym es ∧ allow = true ∧ okS es false d' = true) ∨
          (a ≠ .sym es ∧ okP es a = true ∧ okS es allow d' = true) := by
        by_cases ha : a = .sym es
        · simp only [okS, ha, if_true, Bool.and_eq_true] at hok
          exact Or.inl ⟨ha, hok.1, hok.2⟩
        · simp only [okS, ha, if_false, Bool.and_eq_true] at hok
          exact Or.inr ⟨ha, hok.1, hok.2⟩
      have hoa' : a = .sym es ∨ okP es a = true := by
        rcases hoa with h | h
        · exact Or.inl h.1
        · exact Or.inr h.2.1
      obtain ⟨allow', hokd'⟩ : ∃ allow', okS es allow' d' = true := by
        rcases hoa with h | h
        · exact ⟨false, h.2.2⟩
        · exact ⟨allow, h.2.2⟩
      cases d' with
      | pair e rest =>
        simp only [dsize] at hn
        simp only [nn]
        split
        · rename_i he
          subst he
          have hpk : peekIs (.sym es) (iterList (.pair (.sym es) rest)) = true := by
            simp [iterList, peekIs]
          rw [hpk] at hd
          simp only [if_true] at hd
          have hokp : okP es a = true := by
            rcases hoa with h | h
            · have := h.2.2
              simp [okS] at this
            · exact h.2.1
          simp only [properS, Bool.and_eq_true] at hp
          have hokrest : okS es false rest = true := by
            simp only [okS, if_true, Bool.and_eq_true] at hokd'
            exact hokd'.2
          have hdrest : d1 (.sym es) rest = true := by
            have := hd.2
            simp only [d1, Bool.and_eq_true] at this
            exact this.2
          simp only [Bool.and_eq_true]
          exact ⟨(ng_plain es a).1 hp.1 hokp hd.1, ih rest false (by omega) hp.2.2 hokrest hdrest⟩
        · rename_i he
          have hpk : peekIs (.sym es) (iterList (.pair e rest)) = false := by
            simp [iterList, peekIs, he]
          rw [hpk] at hd
          simp only [Bool.false_eq_true, if_false] at hd
          simp only [Bool.and_eq_true]
          exact ⟨hitem a (by omega) hp.1 hoa' hd.1,
            ih (.pair e rest) allow' (by simp only [dsize]; omega) hp.2 hokd' hd.2⟩
      | nil =>
        have hpk : peekIs (.sym es) (iterList .nil) = false := rfl
        rw [hpk] at hd
        simp only [Bool.false_eq_true, if_false] at hd
        have := hitem a (by omega) hp.1 hoa' hd.1
        simp [nn, this]
      | _ => simp [properS] at hp
    | _ => simp [properS] at hp

end Marwood.Transform.EllAccept

namespace Marwood.Transform
open Marwood Marwood.Spec.Match Marwood.Transform.Term Marwood.Transform.EllAccept

/-- **(A) the pattern of every accepted rule has ellipsis depth ≤ 1** -/
theorem ruleOK_nn (s : Setup) {f : Nat} {r : Pattern × Datum} (h : RuleOK f s.ell s.lits r)
    {kw body : Datum} (hpe : r.1.expr = .pair kw body) : nn s.es body = true := by
  have hsup := h.support
  rw [hpe] at hsup
  have hprop := checkPatternSupport_proper hsup
  have hwf := ruleOK_wfPattern s h
  simp only [hpe, wfPattern, Bool.and_eq_true] at hwf
  have hd1 : d1 s.ell body = true := by
    unfold checkPatternSupport at hsup
    simp only at hsup
    split at hsup
    · cases hsup
    · have := (cpsLoop_d1 s.ell f false _ hsup).2 rfl
      simp only [iterList, d1L, Bool.and_eq_true] at this
      rw [← d1L_iterList]; exact this.2
  exact nn_aux s.es _ body true (Nat.le_refl _) hprop hwf.1 hd1

end Marwood.Transform
