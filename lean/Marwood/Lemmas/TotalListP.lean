import Marwood.Lemmas.TotalOps
/-!
# T06.3 for the repaired `list?`: the half-speed cursor terminates on every store (core Lean only)

`isListTHLoop` (Marwood/Total.lean) is the loop of `is_list` after `3d7bbb6`. Along the cdr chain
`C 0, C 1, …` of the (dereferenced) argument the state before iteration `n` is
`rest = C n`, `slow = C (n / 2)`, `step_slow = (n odd)`; iteration `n` answers when `C n` is not a
pair, or when `n` is odd and `C n` and `C (n / 2)` have the same cdr reference.

* acyclic chain: the first non-pair sits at `K ≤ |cells|` (pigeonhole: a repeated cdr reference makes
  the chain periodic, hence pairs forever) and no earlier iteration can see two equal references;
* cyclic chain: references `p 0 … p N` (`N = |cells|`) contain a repetition `p i = p j`, `i < j ≤ N`;
  the chain has period `j - i` from `i + 1` on, so some `m ≤ j` with `(j - i) ∣ m + 1` has
  `C (2m+1) = C m`: iteration `2m+1 ≤ 2N+1` answers `#f` at the latest.
-/
namespace Marwood.Store
open Outcome

/-- the cdr chain from the value `v` reaches `()` -/
inductive ProperList (s : Store) : VCell → Prop
  | nil {v : VCell} : s.get v = .ok .nil → ProperList s v
  | cons {v : VCell} {a d : Nat} : s.get v = .ok (.pair a d) → ProperList s (.ptr d) → ProperList s v

namespace THL

/-- the cell the cdr of `c` refers to (a non-pair stays where it is) -/
def nx (s : Store) : VCell → VCell
  | .pair _ d => (s.cells[d]?).getD .undef
  | c => c

def cdrIx : VCell → Nat
  | .pair _ d => d
  | _ => 0

/-- `C k`: the `k`-th cell of the cdr chain of `c` -/
def cellAt (s : Store) (c : VCell) : Nat → VCell
  | 0 => c
  | k+1 => nx s (cellAt s c k)

variable {s : Store} {c : VCell}

theorem nx_of_not_pair {c : VCell} (h : c.isPair = false) : nx s c = c := by
  cases c <;> simp_all [nx, VCell.isPair]

theorem nx_congr {a b : VCell} (ha : a.isPair = true) (hb : b.isPair = true) (h : cdrIx a = cdrIx b) :
    nx s a = nx s b := by
  cases a <;> simp [VCell.isPair] at ha
  cases b <;> simp [VCell.isPair] at hb
  simp only [cdrIx] at h
  simp [nx, h]

theorem cellAt_succ' (s : Store) (c : VCell) : ∀ k, cellAt s c (k+1) = cellAt s (nx s c) k
  | 0 => rfl
  | k+1 => by
    show nx s (cellAt s c (k+1)) = nx s (cellAt s (nx s c) k)
    rw [cellAt_succ' s c k]

theorem cellAt_stable {k : Nat} (h : (cellAt s c k).isPair = false) : ∀ j, cellAt s c (k + j) = cellAt s c k
  | 0 => rfl
  | j+1 => by
    show nx s (cellAt s c (k + j)) = _
    rw [cellAt_stable h j, nx_of_not_pair h]

theorem pair_mono {n : Nat} (h : (cellAt s c n).isPair = true) {k : Nat} (hk : k ≤ n) :
    (cellAt s c k).isPair = true := by
  cases hc : (cellAt s c k).isPair with
  | true => rfl
  | false =>
    have h2 := cellAt_stable hc (n - k)
    rw [Nat.add_sub_cancel' hk] at h2
    rw [h2, hc] at h; cases h

theorem get_next {c : VCell} (hp : c.isPair = true) (hb : cdrIx c < s.cells.length) :
    s.get (.ptr (cdrIx c)) = .ok (nx s c) := by
  cases c <;> simp [VCell.isPair] at hp
  simp only [cdrIx] at hb
  simp [Store.get, nx, cdrIx, ofOption, List.getElem?_eq_getElem hb]

/-! ### one iteration of the loop -/

theorem loop_stop {f : Nat} {rest slow : VCell} {step : Bool} (h : rest.isPair = false) :
    isListTHLoop (f+1) s rest slow step = .ok rest.isNil := by
  simp [isListTHLoop, h]

theorem loop_even {f : Nat} {rest slow : VCell} (hp : rest.isPair = true) (hb : cdrIx rest < s.cells.length) :
    isListTHLoop (f+1) s rest slow false = isListTHLoop f s (nx s rest) slow true := by
  have hg := get_next hp hb
  cases rest <;> simp [VCell.isPair] at hp
  simp only [cdrIx] at hg
  simp [isListTHLoop, hg]

theorem loop_odd_meet {f : Nat} {rest slow : VCell} (hp : rest.isPair = true) (hq : slow.isPair = true)
    (hm : cdrIx rest = cdrIx slow) : isListTHLoop (f+1) s rest slow true = .ok false := by
  cases rest <;> simp [VCell.isPair] at hp
  cases slow <;> simp [VCell.isPair] at hq
  simp only [cdrIx] at hm
  simp [isListTHLoop, hm]

theorem loop_odd_adv {f : Nat} {rest slow : VCell} (hp : rest.isPair = true) (hq : slow.isPair = true)
    (hb : cdrIx rest < s.cells.length) (hb' : cdrIx slow < s.cells.length) (hm : cdrIx rest ≠ cdrIx slow) :
    isListTHLoop (f+1) s rest slow true = isListTHLoop f s (nx s rest) (nx s slow) false := by
  have hg := get_next hp hb
  have hg' := get_next hq hb'
  cases rest <;> simp [VCell.isPair] at hp
  cases slow <;> simp [VCell.isPair] at hq
  simp only [cdrIx] at hg hg' hm
  simp [isListTHLoop, hg, hg', hm]

/-! ### the loop along the chain -/

/-- the loop in the state it has before iteration `n` -/
def runAt (f : Nat) (s : Store) (c : VCell) (n : Nat) : Outcome Bool :=
  isListTHLoop f s (cellAt s c n) (cellAt s c (n / 2)) (decide (n % 2 = 1))

/-- iteration `n` compares the two cursors' cdr references and finds them equal -/
def Meet (s : Store) (c : VCell) (n : Nat) : Prop :=
  n % 2 = 1 ∧ cdrIx (cellAt s c n) = cdrIx (cellAt s c (n / 2))

instance (s : Store) (c : VCell) (n : Nat) : Decidable (Meet s c n) := by unfold Meet; infer_instance

/-- the cdr reference of chain cell `k` points into the heap -/
def InB (s : Store) (c : VCell) (k : Nat) : Prop := cdrIx (cellAt s c k) < s.cells.length

theorem runAt_stop {f n : Nat} (hp : (cellAt s c n).isPair = false) :
    runAt (f+1) s c n = .ok (cellAt s c n).isNil := loop_stop hp

theorem runAt_meet {f n : Nat} (hp : (cellAt s c n).isPair = true) (hm : Meet s c n) :
    runAt (f+1) s c n = .ok false := by
  unfold runAt
  rw [show decide (n % 2 = 1) = true from by simp [hm.1]]
  exact loop_odd_meet hp (pair_mono hp (Nat.div_le_self n 2)) hm.2

theorem runAt_adv {f n : Nat} (hp : (cellAt s c n).isPair = true) (hb : ∀ k ≤ n, InB s c k)
    (hm : ¬ Meet s c n) : runAt (f+1) s c n = runAt f s c (n+1) := by
  unfold runAt
  rcases Nat.mod_two_eq_zero_or_one n with h0 | h1
  · have e1 : (n + 1) / 2 = n / 2 := by omega
    have e2 : (n + 1) % 2 = 1 := by omega
    rw [show decide (n % 2 = 1) = false from by simp [h0], show decide ((n+1) % 2 = 1) = true from by simp [e2], e1]
    exact loop_even hp (hb n (Nat.le_refl n))
  · have e1 : (n + 1) / 2 = n / 2 + 1 := by omega
    have e2 : (n + 1) % 2 = 0 := by omega
    rw [show decide (n % 2 = 1) = true from by simp [h1], show decide ((n+1) % 2 = 1) = false from by simp [e2], e1]
    have hne : cdrIx (cellAt s c n) ≠ cdrIx (cellAt s c (n / 2)) := fun h => hm ⟨h1, h⟩
    exact loop_odd_adv hp (pair_mono hp (Nat.div_le_self n 2)) (hb n (Nat.le_refl n))
      (hb (n / 2) (Nat.div_le_self n 2)) hne

/-- the loop runs undisturbed up to iteration `K`, which answers `r` -/
theorem run_to {K : Nat} {r : Outcome Bool} (hb : ∀ k < K, InB s c k)
    (hpairs : ∀ k < K, (cellAt s c k).isPair = true) (hnm : ∀ k < K, ¬ Meet s c k)
    (hend : ∀ f, runAt (f+1) s c K = r) :
    ∀ j n, n + j = K → ∀ f, j < f → runAt f s c n = r
  | 0, n, hn, f, hf => by
    obtain ⟨f', rfl⟩ : ∃ f', f = f' + 1 := ⟨f - 1, by omega⟩
    have : n = K := by omega
    subst this; exact hend f'
  | j+1, n, hn, f, hf => by
    obtain ⟨f', rfl⟩ : ∃ f', f = f' + 1 := ⟨f - 1, by omega⟩
    rw [runAt_adv (hpairs n (by omega)) (fun k hk => hb k (by omega)) (hnm n (by omega))]
    exact run_to hb hpairs hnm hend j (n+1) (by omega) f' (by omega)

/-! ### periodicity -/

theorem periodic {i j : Nat} (hpi : (cellAt s c i).isPair = true) (hpj : (cellAt s c j).isPair = true)
    (he : cdrIx (cellAt s c i) = cdrIx (cellAt s c j)) : ∀ t, cellAt s c (i + 1 + t) = cellAt s c (j + 1 + t)
  | 0 => nx_congr hpi hpj he
  | t+1 => by
    show nx s (cellAt s c (i + 1 + t)) = nx s (cellAt s c (j + 1 + t))
    rw [periodic hpi hpj he t]

/-- a repeated cdr reference among pairs: the chain consists of pairs forever -/
theorem periodic_all_pairs {i j : Nat} (hij : i < j) (hp : ∀ k ≤ j, (cellAt s c k).isPair = true)
    (he : cdrIx (cellAt s c i) = cdrIx (cellAt s c j)) : ∀ k, (cellAt s c k).isPair = true := by
  intro k
  induction k using Nat.strongRecOn with
  | _ k ih =>
    by_cases hk : k ≤ j
    · exact hp k hk
    · have hper := periodic (hp i (by omega)) (hp j (Nat.le_refl j)) he (k - (j + 1))
      rw [show j + 1 + (k - (j + 1)) = k from by omega] at hper
      rw [← hper]
      exact ih _ (by omega)

/-- pigeonhole: `N + 1` values below `N` contain a repetition (core Lean only: the driver's import
    closure stays free of Mathlib notation) -/
theorem pigeon : ∀ (N : Nat) (p : Nat → Nat), (∀ k, k ≤ N → p k < N) → ∃ i j, i < j ∧ j ≤ N ∧ p i = p j
  | 0, p, h => absurd (h 0 (Nat.le_refl 0)) (Nat.not_lt_zero _)
  | N+1, p, h => by
    by_cases hex : ∃ k, k ≤ N ∧ p k = p (N+1)
    · obtain ⟨k, hk, he⟩ := hex
      exact ⟨k, N+1, by omega, Nat.le_refl _, he⟩
    · -- the value `p (N+1)` does not occur among `p 0 … p N`: squeeze it out
      have hne : ∀ k, k ≤ N → p k ≠ p (N+1) := fun k hk he => hex ⟨k, hk, he⟩
      have hv := h (N+1) (Nat.le_refl _)
      obtain ⟨i, j, hij, hj, he⟩ := pigeon N (fun k => if p k < p (N+1) then p k else p k - 1) (by
        intro k hk
        have h1 := h k (by omega)
        have h2 := hne k hk
        show (if p k < p (N+1) then p k else p k - 1) < N
        split <;> omega)
      refine ⟨i, j, hij, by omega, ?_⟩
      have h1 := hne i (by omega)
      have h2 := hne j hj
      have he' : (if p i < p (N+1) then p i else p i - 1) = (if p j < p (N+1) then p j else p j - 1) := he
      split at he' <;> split at he' <;> omega

/-- a satisfiable predicate on `Nat` has a least witness -/
theorem exists_least {P : Nat → Prop} (h : ∃ n, P n) : ∃ n, P n ∧ ∀ k, k < n → ¬ P k := by
  obtain ⟨n, hn⟩ := h
  induction n using Nat.strongRecOn with
  | _ n ih =>
    by_cases hex : ∃ k, k < n ∧ P k
    · obtain ⟨k, hk, hpk⟩ := hex; exact ih k hk hpk
    · exact ⟨n, hn, fun k hk hpk => hex ⟨k, hk, hpk⟩⟩

/-- in a chain of pairs with in-bounds references, some odd iteration `≤ 2N+1` sees equal references -/
theorem exists_meet (hp : ∀ k, (cellAt s c k).isPair = true) (hb : ∀ k, InB s c k) :
    ∃ n, n ≤ 2 * s.cells.length + 1 ∧ Meet s c n := by
  obtain ⟨i, j, hij, hjN, he⟩ := pigeon s.cells.length (fun k => cdrIx (cellAt s c k)) (fun k _ => hb k)
  have hper := periodic (hp i) (hp j) he
  -- period `l = j - i` from `i + 1` on
  have per1 : ∀ k, i + 1 ≤ k → cellAt s c (k + (j - i)) = cellAt s c k := by
    intro k hk
    have := hper (k - (i + 1))
    rw [show i + 1 + (k - (i + 1)) = k from by omega, show j + 1 + (k - (i + 1)) = k + (j - i) from by omega] at this
    exact this.symm
  have perT : ∀ t k, i + 1 ≤ k → cellAt s c (k + t * (j - i)) = cellAt s c k := by
    intro t
    induction t with
    | zero => intro k _; simp
    | succ t ih =>
      intro k hk
      rw [show k + (t + 1) * (j - i) = (k + t * (j - i)) + (j - i) from by rw [Nat.succ_mul]; omega]
      rw [per1 _ (by omega)]
      exact ih k hk
  -- a multiple `M` of the period with `i + 2 ≤ M ≤ j + 1`
  have hl : 0 < j - i := by omega
  let q := (i + 1) / (j - i) + 1
  have hdm := Nat.div_add_mod (i + 1) (j - i)
  have hml := Nat.mod_lt (i + 1) hl
  have hM : q * (j - i) = (j - i) * ((i + 1) / (j - i)) + (j - i) := by
    show ((i + 1) / (j - i) + 1) * (j - i) = _
    rw [Nat.succ_mul, Nat.mul_comm]
  have hM1 : i + 2 ≤ q * (j - i) := by omega
  have hM2 : q * (j - i) ≤ j + 1 := by omega
  refine ⟨2 * (q * (j - i) - 1) + 1, by omega, by omega, ?_⟩
  have e1 : 2 * (q * (j - i) - 1) + 1 = (q * (j - i) - 1) + q * (j - i) := by omega
  have e2 : (2 * (q * (j - i) - 1) + 1) / 2 = q * (j - i) - 1 := by omega
  rw [e2, e1, perT q _ (by omega)]

/-! ### validity along the chain -/

theorem nx_valid (hs : s.WF) {c : VCell} (hv : VCell.Valid s c) : VCell.Valid s (nx s c) := by
  cases c with
  | pair a d =>
    have hd : d < s.cells.length := hv.2
    simp only [nx, List.getElem?_eq_getElem hd, Option.getD_some]
    exact hs.cells _ (List.getElem_mem hd)
  | _ => exact hv

theorem cellAt_valid (hs : s.WF) (hv : VCell.Valid s c) : ∀ k, VCell.Valid s (cellAt s c k)
  | 0 => hv
  | k+1 => nx_valid hs (cellAt_valid hs hv k)

theorem inB_of_valid {k : Nat} (hv : VCell.Valid s (cellAt s c k)) (hp : (cellAt s c k).isPair = true) :
    InB s c k := by
  unfold InB
  cases h : cellAt s c k <;> rw [h] at hp hv <;> simp [VCell.isPair] at hp
  exact hv.2

/-! ### proper lists are the chains that reach `()` -/

theorem properList_reaches {v : VCell} (h : ProperList s v) : ∀ c, s.get v = .ok c → ∃ K, cellAt s c K = .nil := by
  induction h with
  | nil hg => intro c hc; rw [hg] at hc; cases hc; exact ⟨0, rfl⟩
  | @cons v a d hg _ ih =>
    intro c hc
    rw [hg] at hc; cases hc
    cases hd : s.cells[d]? with
    | none =>
      -- the tail is a proper list, so its reference resolves
      rename_i htl
      cases htl with
      | nil h0 => simp [Store.get, ofOption, hd] at h0
      | cons h0 _ => simp [Store.get, ofOption, hd] at h0
    | some c' =>
      obtain ⟨K, hK⟩ := ih c' (by simp [Store.get, ofOption, hd])
      refine ⟨K+1, ?_⟩
      rw [cellAt_succ']
      simpa [nx, hd] using hK

theorem reaches_properList (hs : s.WF) : ∀ (K : Nat) (v c : VCell), s.get v = .ok c → VCell.Valid s c →
    cellAt s c K = .nil → ProperList s v
  | 0, v, c, hg, _, hK => by
    simp only [cellAt] at hK; subst hK; exact .nil hg
  | K+1, v, c, hg, hv, hK => by
    rw [cellAt_succ'] at hK
    cases c with
    | pair a d =>
      have hd : d < s.cells.length := hv.2
      have hg' : s.get (.ptr d) = .ok (nx s (.pair a d)) := get_next (c := .pair a d) rfl hd
      exact .cons hg (reaches_properList hs K (.ptr d) _ hg' (nx_valid hs hv) hK)
    | _ => exact reaches_properList hs K v _ hg hv (by simpa [nx] using hK)

/-! ### the loop terminates and decides `ProperList` -/

/-- the loop from the start state, on a well-formed store: an answer within `2N + 2` iterations, and
    the answer is "the chain reaches `()`" -/
theorem loop_total (hs : s.WF) (hv : VCell.Valid s c) {fuel : Nat} (hf : 2 * s.cells.length + 2 ≤ fuel) :
    ∃ b, isListTHLoop fuel s c c false = .ok b ∧ (b = true ↔ ∃ K, cellAt s c K = .nil) := by
  have hval := cellAt_valid hs hv
  have hstart : isListTHLoop fuel s c c false = runAt fuel s c 0 := rfl
  rw [hstart]
  by_cases hcyc : ∀ k, (cellAt s c k).isPair = true
  · -- cyclic: the first meeting answers #f
    have hb : ∀ k, InB s c k := fun k => inB_of_valid (hval k) (hcyc k)
    obtain ⟨n, hn, hm⟩ := exists_meet hcyc hb
    obtain ⟨n0, hm0, hmin⟩ := exists_least (P := Meet s c) ⟨n, hm⟩
    have hle : n0 ≤ 2 * s.cells.length + 1 := by
      by_cases h : n0 ≤ n
      · omega
      · exact absurd hm (hmin n (by omega))
    refine ⟨false, ?_, ?_⟩
    · exact run_to (K := n0) (fun k _ => hb k) (fun k _ => hcyc k) hmin
        (fun f => runAt_meet (hcyc _) hm0) n0 0 (by omega) fuel (by omega)
    · constructor
      · intro h; cases h
      · intro ⟨K, hK⟩
        have := hcyc K
        rw [hK] at this; cases this
  · -- acyclic: the first non-pair answers
    have hex : ∃ k, (cellAt s c k).isPair = false := by
      apply Classical.byContradiction
      intro hne
      exact hcyc fun k => by
        cases h : (cellAt s c k).isPair with
        | true => rfl
        | false => exact absurd ⟨k, h⟩ hne
    obtain ⟨K0, hK0, hmin⟩ := exists_least hex
    have hpairs : ∀ k, k < K0 → (cellAt s c k).isPair = true := by
      intro k hk
      have := hmin k hk
      simpa using this
    have hb : ∀ k, k < K0 → InB s c k := fun k hk => inB_of_valid (hval k) (hpairs k hk)
    have hnm : ∀ k, k < K0 → ¬ Meet s c k := by
      intro k hk hm
      refine hcyc (periodic_all_pairs (i := k / 2) (j := k) ?_ (fun m hm' => hpairs m (by omega)) hm.2.symm)
      have := hm.1; omega
    have hle : K0 ≤ s.cells.length := by
      by_cases hgt : K0 ≤ s.cells.length
      · exact hgt
      · obtain ⟨i, j, hij, hjN, he⟩ := pigeon s.cells.length (fun k => cdrIx (cellAt s c k))
          (fun k hk => hb k (by omega))
        exact absurd (periodic_all_pairs hij (fun m hm' => hpairs m (by omega)) he) hcyc
    refine ⟨(cellAt s c K0).isNil, ?_, ?_⟩
    · exact run_to hb hpairs hnm (fun f => runAt_stop hK0) K0 0 (by omega) fuel (by omega)
    · constructor
      · intro h
        refine ⟨K0, ?_⟩
        cases h' : cellAt s c K0 <;> rw [h'] at h <;> simp [VCell.isNil] at h
      · intro ⟨K, hK⟩
        have hKn : (cellAt s c K).isPair = false := by rw [hK]; rfl
        have hle' : K0 ≤ K := by
          by_cases h : K0 ≤ K
          · exact h
          · exact absurd hKn (hmin K (by omega))
        have := cellAt_stable hK0 (K - K0)
        rw [Nat.add_sub_cancel' hle', hK] at this
        rw [← this]; rfl

/-! ### any store whatsoever: the loop never runs out of fuel

Without well-formedness a cdr reference may point outside the heap; the Rust code would panic in
`get_at_index`, the model answers `panic` — which is an answer, not a hang. -/

theorem get_oob {d : Nat} (h : ¬ d < s.cells.length) : s.get (.ptr d) = .panic "heap index out of bounds" := by
  simp [Store.get, ofOption, List.getElem?_eq_none (Nat.le_of_not_gt h)]

/-- an iteration whose fast cursor holds a wild cdr reference answers at once (a panic, or `#f` when
    the slow cursor holds the same reference) -/
theorem loop_oob {rest : VCell} (hp : rest.isPair = true) (hb : ¬ cdrIx rest < s.cells.length)
    (slow : VCell) (step : Bool) :
    ∃ r : Outcome Bool, r ≠ .diverge ∧ ∀ f, isListTHLoop (f+1) s rest slow step = r := by
  cases rest <;> simp [VCell.isPair] at hp
  rename_i a d
  simp only [cdrIx] at hb
  have hg := get_oob hb
  cases step with
  | false => exact ⟨.panic "heap index out of bounds", by simp, fun f => by simp [isListTHLoop, hg]⟩
  | true =>
    cases slow with
    | pair a2 d2 =>
      by_cases he : d = d2
      · exact ⟨.ok false, by simp, fun f => by simp [isListTHLoop, he]⟩
      · cases hg2 : s.get (.ptr d2) with
        | ok c2 => exact ⟨.panic "heap index out of bounds", by simp, fun f => by simp [isListTHLoop, he, hg, hg2]⟩
        | err e => exact ⟨.err e, by simp, fun f => by simp [isListTHLoop, he, hg2]⟩
        | panic m => exact ⟨.panic m, by simp, fun f => by simp [isListTHLoop, he, hg2]⟩
        | diverge =>
          exfalso
          simp only [Store.get] at hg2
          unfold ofOption at hg2
          split at hg2 <;> cases hg2
    | _ => exact ⟨.err .type, by simp, fun f => by simp [isListTHLoop, VCell.asCdr]⟩

theorem inB_of_next_pair {k : Nat} (hp : (cellAt s c k).isPair = true) (hn : (cellAt s c (k+1)).isPair = true) :
    InB s c k := by
  unfold InB
  cases h : cellAt s c k <;> rw [h] at hp <;> simp [VCell.isPair] at hp
  rename_i a d
  simp only [cdrIx]
  by_cases hlt : d < s.cells.length
  · exact hlt
  · simp only [cellAt, h, nx, List.getElem?_eq_none (Nat.le_of_not_gt hlt), Option.getD_none] at hn
    cases hn

/-- **on every store** (well formed or not, circular or not) `2N + 2` iterations are enough for an
    answer -/
theorem loop_never_diverges (s : Store) (c : VCell) {fuel : Nat} (hf : 2 * s.cells.length + 2 ≤ fuel) :
    isListTHLoop fuel s c c false ≠ .diverge := by
  have hstart : isListTHLoop fuel s c c false = runAt fuel s c 0 := rfl
  rw [hstart]
  by_cases hcyc : ∀ k, (cellAt s c k).isPair = true
  · have hb : ∀ k, InB s c k := fun k => inB_of_next_pair (hcyc k) (hcyc (k+1))
    obtain ⟨n, hn, hm⟩ := exists_meet hcyc hb
    obtain ⟨n0, hm0, hmin⟩ := exists_least (P := Meet s c) ⟨n, hm⟩
    have hle : n0 ≤ 2 * s.cells.length + 1 := by
      by_cases h : n0 ≤ n
      · omega
      · exact absurd hm (hmin n (by omega))
    rw [run_to (K := n0) (r := .ok false) (fun k _ => hb k) (fun k _ => hcyc k) hmin
        (fun f => runAt_meet (hcyc _) hm0) n0 0 (by omega) fuel (by omega)]
    simp
  · have hex : ∃ k, (cellAt s c k).isPair = false := by
      apply Classical.byContradiction
      intro hne
      exact hcyc fun k => by
        cases h : (cellAt s c k).isPair with
        | true => rfl
        | false => exact absurd ⟨k, h⟩ hne
    obtain ⟨K0, hK0, hmin⟩ := exists_least hex
    have hpairs : ∀ k, k < K0 → (cellAt s c k).isPair = true := by
      intro k hk
      have := hmin k hk
      simpa using this
    have hb : ∀ k, k + 1 < K0 → InB s c k := fun k hk =>
      inB_of_next_pair (hpairs k (by omega)) (hpairs (k+1) hk)
    have hnm : ∀ k, k < K0 → ¬ Meet s c k := by
      intro k hk hm
      refine hcyc (periodic_all_pairs (i := k / 2) (j := k) ?_ (fun m hm' => hpairs m (by omega)) hm.2.symm)
      have := hm.1; omega
    have hle : K0 ≤ s.cells.length + 1 := by
      by_cases hgt : K0 ≤ s.cells.length + 1
      · exact hgt
      · obtain ⟨i, j, hij, hjN, he⟩ := pigeon s.cells.length (fun k => cdrIx (cellAt s c k))
          (fun k hk => hb k (by omega))
        exact absurd (periodic_all_pairs hij (fun m hm' => hpairs m (by omega)) he) hcyc
    by_cases hlast : ∀ k, k < K0 → InB s c k
    · rw [run_to hlast hpairs hnm (fun f => runAt_stop hK0) K0 0 (by omega) fuel (by omega)]
      simp
    · -- the last pair of the chain holds a wild reference
      have hpos : 0 < K0 := by
        cases K0 with
        | zero => exact absurd (fun k hk => absurd hk (Nat.not_lt_zero k)) hlast
        | succ k => omega
      have hwild : ¬ InB s c (K0 - 1) := by
        intro hin
        refine hlast fun k hk => ?_
        by_cases hk' : k + 1 < K0
        · exact hb k hk'
        · rw [show k = K0 - 1 from by omega]; exact hin
      obtain ⟨r, hr, hall⟩ := loop_oob (hpairs (K0 - 1) (by omega)) hwild
        (cellAt s c ((K0 - 1) / 2)) (decide ((K0 - 1) % 2 = 1))
      rw [run_to (K := K0 - 1) (r := r) (fun k hk => hb k (by omega)) (fun k hk => hpairs k (by omega))
        (fun k hk => hnm k (by omega)) hall (K0 - 1) 0 (by omega) fuel (by omega)]
      exact hr

end THL

/-- **T06.3 for `list?` after `3d7bbb6`.** On every well-formed store — of any size, circular or not —
    and for every valid argument, `fuel ≥ 2·|cells| + 2` iterations suffice: the builtin answers a
    boolean (no `diverge`, no `panic`, no `err`), the store is unchanged, and the boolean is `#t`
    exactly when the cdr chain of the argument reaches `()`. -/
theorem isListTH_total {s : Store} (hs : s.WF) {x : VCell} (hx : VCell.Valid s x) {fuel : Nat}
    (hf : 2 * s.cells.length + 2 ≤ fuel) :
    ∃ b, isListTH fuel s [x] = .ok (s, .bool b) ∧ (b = true ↔ ProperList s x) := by
  obtain ⟨c, hc, hcv⟩ := get_valid hs hx
  obtain ⟨b, hb, hiff⟩ := THL.loop_total hs hcv hf
  refine ⟨b, by simp [isListTH, hc, hb], hiff.trans ⟨?_, ?_⟩⟩
  · intro ⟨K, hK⟩; exact THL.reaches_properList hs K x c hc hcv hK
  · intro h; exact THL.properList_reaches h c hc

/-- for every argument list (any arity): never `diverge`, never `panic` -/
theorem isListTH_terminates {s : Store} (hs : s.WF) {args : List VCell} (ha : ∀ v ∈ args, VCell.Valid s v)
    {fuel : Nat} (hf : 2 * s.cells.length + 2 ≤ fuel) :
    (∃ b, isListTH fuel s args = .ok (s, .bool b)) ∨ isListTH fuel s args = .err .arity := by
  match args, ha with
  | [x], ha =>
    obtain ⟨b, hb, _⟩ := isListTH_total hs (ha x (by simp)) hf
    exact .inl ⟨b, hb⟩
  | [], _ => exact .inr rfl
  | _ :: _ :: _, _ => exact .inr rfl

/-- **no hypothesis on the store at all**: with `fuel ≥ 2·|cells| + 2` the repaired `list?` never
    answers `diverge` — the Rust loop returns (or panics on a wild pointer) on every heap -/
theorem isListTH_never_diverges (s : Store) (args : List VCell) {fuel : Nat}
    (hf : 2 * s.cells.length + 2 ≤ fuel) : isListTH fuel s args ≠ .diverge := by
  unfold isListTH
  split
  · rename_i x
    cases hg : s.get x with
    | ok c =>
      simp only [bind_ok]
      have := THL.loop_never_diverges s c hf
      cases hl : isListTHLoop fuel s c c false <;> simp_all
    | err e => simp
    | panic m => simp
    | diverge =>
      exfalso
      cases x <;> simp [Store.get] at hg
      unfold ofOption at hg
      split at hg <;> cases hg
  · simp

end Marwood.Store
