import Marwood.Lemmas.SimHeapOps
/-!
# Heap simulation, lemma (b) part 1: instruction fetch, operands, and the instructions that only move values

`step` is split into `readOpcode` followed by `exec op` (`step_eq`); one lemma per opcode shows
`ORel (PostB φ) (exec ops op s) (exec ops op t)` for `Sim φ`-related `s`, `t`: same error / panic, or
`Sim ψ`-related successors with `φ ⊆ ψ` and the same HALT flag. This file: JMP JNT MOV MOVIMM PUSH PUSHIMM
PUSHACC HALT (no allocation: `ψ = φ`).
-/
namespace Marwood.Lemmas.Sim
open Marwood Marwood.Vm Marwood.Vm.Concrete
open Marwood.Heap (GcState)

/-- post-states related under an extension of `φ` -/
def Post (φ : Inj) (s' t' : St CHeap) : Prop := ∃ ψ, φ.le ψ ∧ Sim ψ s' t'

def PostB (φ : Inj) (p q : St CHeap × Bool) : Prop := p.2 = q.2 ∧ Post φ p.1 q.1

theorem Post.of_sim {φ : Inj} {s t : St CHeap} (h : Sim φ s t) : Post φ s t := ⟨φ, φ.le_refl, h⟩

theorem Post.trans {φ ψ : Inj} {s t : St CHeap} (hle : φ.le ψ) (h : Post ψ s t) : Post φ s t := by
  obtain ⟨χ, h1, h2⟩ := h
  exact ⟨χ, Inj.le_trans hle h1, h2⟩

/-- the body of `step` after the opcode has been read -/
def exec (ops : HeapOps CHeap) (op : Op) (s : St CHeap) : Outcome (St CHeap × Bool) :=
  match op with
  | .jmp => do
    let (v, s) ← readOperand ops s
    let o ← asPtr v
    .ok ({ s with ipO := o }, false)
  | .jnt => do
    let (v, s) ← readOperand ops s
    let o ← asPtr v
    match ops.deref s.heap s.acc with
    | .bool false => .ok ({ s with ipO := o }, false)
    | _ => .ok (s, false)
  | .mov => do
    let (v, s) ← loadOperand ops s
    let s ← storeOperand ops s v
    .ok (s, false)
  | .movImm => do
    let (v, s) ← readOperand ops s
    let s ← storeOperand ops s v
    .ok (s, false)
  | .push => do
    let (v, s) ← loadOperand ops s
    .ok (s.push v, false)
  | .pushImm => do
    let (v, s) ← readOperand ops s
    .ok (s.push v, false)
  | .pushAcc => .ok (s.push s.acc, false)
  | .halt => .ok (s, true)
  | .cons => do
    let (d, st) ← s.stack.pop
    let (h, d) := ops.put s.heap d
    let (a, st) ← st.pop
    let (h, a) := ops.put h a
    let a ← asPtr a
    let d ← asPtr d
    let (h, p) := ops.put h (.pair a d)
    .ok ({ s with heap := h, stack := st, acc := p }, false)
  | .vpushAcc => do
    let (v, st) ← s.stack.pop
    let vec := ops.deref s.heap v
    let h ← ops.vectorPush s.heap vec s.acc
    .ok ({ s with heap := h, stack := st, acc := v }, false)
  | .closureAcc => do
    let lam ← asPtr s.acc
    let (h, c) ← ops.makeClosure s.heap lam s.ep s.bp s.stack
    .ok ({ s with heap := h, acc := c }, false)
  | .callAcc => do let s ← stepCall ops s; .ok (s, false)
  | .tcallAcc => do let s ← stepTCall ops s; .ok (s, false)
  | .enter => do let s ← stepEnter ops s; .ok (s, false)
  | .ret => do let s ← stepRet s; .ok (s, false)
  | .varArg => do let s ← stepVarArg ops s; .ok (s, false)

theorem step_eq (ops : HeapOps CHeap) (s : St CHeap) :
    step ops s = readOpcode ops s >>= fun p => exec ops p.1 p.2 := by
  unfold step
  cases readOpcode ops s with
  | ok p =>
    obtain ⟨op, s1⟩ := p
    cases op <;> rfl
  | err e => rfl
  | panic m => rfl

/-! ## fetch -/

def opOf : VCell → Option Op
  | .opcode op => some op
  | _ => none

theorem readOpcode_eq (ops : HeapOps CHeap) (s : St CHeap) :
    readOpcode ops s = if !ops.isLambda s.heap s.ipL then .panic "%ip is not a procedure" else
      match ops.fetch s.heap s.ipL s.ipO with
      | none => .err .invalidBytecode
      | some c => match opOf c with
        | some op => .ok (op, { s with ipO := s.ipO + 1 })
        | none => .err .expectedType := by
  unfold readOpcode
  split
  · rfl
  · cases ops.fetch s.heap s.ipL s.ipO with
    | none => rfl
    | some c => cases c <;> rfl

theorem readOperand_eq (ops : HeapOps CHeap) (s : St CHeap) :
    readOperand ops s = if !ops.isLambda s.heap s.ipL then .panic "%ip is not a procedure" else
      match ops.fetch s.heap s.ipL s.ipO with
      | none => .err .invalidBytecode
      | some c => match opOf c with
        | some _ => .err .invalidBytecode
        | none => .ok (c, { s with ipO := s.ipO + 1 }) := by
  unfold readOperand
  split
  · rfl
  · cases ops.fetch s.heap s.ipL s.ipO with
    | none => rfl
    | some c => cases c <;> rfl

theorem opOf_rel {φ : Inj} {c c'} (h : c = c' ∨ VRel φ c c') : opOf c = opOf c' := by
  rcases h with h | h
  · rw [h]
  · cases h <;> rfl

theorem isJumpOp_opcode (c : VCell) (h : opOf c = none) : isJumpOp c = false := by
  cases c <;> first | rfl | simp [opOf] at h

/-- the cell before `ip.1` in the running lambda is `c0` -/
def CodeAt (s : St CHeap) (c0 : VCell) : Prop :=
  ∃ l j, lambdaAt s.heap s.ipL = some l ∧ s.ipO = j + 1 ∧ l.bc[j]? = some c0

theorem Sim.setIpO {φ : Inj} {s t : St CHeap} (h : Sim φ s t) (o : Nat) :
    Sim φ { s with ipO := o } { t with ipO := o } :=
  ⟨h.heap, h.stack, h.acc, h.ep, h.ipL, rfl, h.bp⟩

section
variable (ext : ExtOps) {φ : Inj} {s t : St CHeap}

theorem BcRel.at {bc bc' : List VCell} (h : BcRel φ bc bc') (i : Nat) :
    (bc[i]? = none ∧ bc'[i]? = none) ∨
    ∃ c c', bc[i]? = some c ∧ bc'[i]? = some c' ∧ (prevIsJump bc i = true → c = c') ∧
      (prevIsJump bc i = false → VRel φ c c') := by
  cases e1 : bc[i]? with
  | none =>
    left
    refine ⟨rfl, ?_⟩
    rw [List.getElem?_eq_none_iff] at e1 ⊢; rw [← h.1]; exact e1
  | some c =>
    have hl : i < bc'.length := by rw [← h.1]; exact (List.getElem?_eq_some_iff.mp e1).1
    right
    refine ⟨c, bc'[i], rfl, List.getElem?_eq_getElem hl, ?_⟩
    exact h.2 i c _ e1 (List.getElem?_eq_getElem hl)

theorem BcRel.at' {bc bc' : List VCell} (h : BcRel φ bc bc') (i : Nat) :
    (bc[i]? = none ∧ bc'[i]? = none) ∨
    ∃ c c', bc[i]? = some c ∧ bc'[i]? = some c' ∧ (c = c' ∨ VRel φ c c') := by
  rcases h.at i with h1 | ⟨c, c', e1, e2, a, b⟩
  · exact .inl h1
  · refine .inr ⟨c, c', e1, e2, ?_⟩
    cases hp : prevIsJump bc i with
    | true => exact .inl (a hp)
    | false => exact .inr (b hp)

theorem readOpcode_rel (h : Sim φ s t) (ok : SizeOk s.heap) (ok' : SizeOk t.heap) :
    ORel (fun a b => a.1 = b.1 ∧ a.2 = { s with ipO := s.ipO + 1 } ∧ b.2 = { t with ipO := t.ipO + 1 } ∧
        CodeAt a.2 (.opcode a.1))
      (readOpcode (concreteOps ext) s) (readOpcode (concreteOps ext) t) := by
  rw [readOpcode_eq, readOpcode_eq]
  simp only [concreteOps]
  rcases lambdaAt_rel h.heap ok ok' h.ipL with ⟨e1, e2⟩ | ⟨l, l', e1, e2, hbc, _, _⟩
  · simp only [e1, e2, Option.isSome_none, Bool.not_false, if_true]; exact .panic
  · simp only [e1, e2, Option.isSome_some, Bool.not_true, Bool.false_eq_true, if_false]
    rw [← h.ipO]
    rcases hbc.at' s.ipO with ⟨f1, f2⟩ | ⟨c, c', f1, f2, r⟩
    · rw [f1, f2]; exact .err
    · rw [f1, f2]
      simp only
      rw [← opOf_rel r]
      cases hop : opOf c with
      | none => exact .err
      | some op =>
        refine .ok ⟨rfl, rfl, by rw [h.ipO], l, s.ipO, e1, rfl, ?_⟩
        rw [f1]; cases c <;> simp [opOf] at hop; rw [hop]

theorem readOperand_rel (h : Sim φ s t) (ok : SizeOk s.heap) (ok' : SizeOk t.heap) {c0 : VCell}
    (hc : CodeAt s c0) :
    ORel (fun a b => (isJumpOp c0 = true → a.1 = b.1) ∧ (isJumpOp c0 = false → VRel φ a.1 b.1) ∧
        a.2 = { s with ipO := s.ipO + 1 } ∧ b.2 = { t with ipO := t.ipO + 1 } ∧
        CodeAt a.2 a.1 ∧ opOf a.1 = none)
      (readOperand (concreteOps ext) s) (readOperand (concreteOps ext) t) := by
  rw [readOperand_eq, readOperand_eq]
  simp only [concreteOps]
  obtain ⟨l0, j, hl0, hj, hcj⟩ := hc
  rcases lambdaAt_rel h.heap ok ok' h.ipL with ⟨e1, e2⟩ | ⟨l, l', e1, e2, hbc, _, _⟩
  · simp only [e1, e2, Option.isSome_none, Bool.not_false, if_true]; exact .panic
  · simp only [e1, e2, Option.isSome_some, Bool.not_true, Bool.false_eq_true, if_false]
    rw [hl0] at e1; cases e1
    rw [← h.ipO]
    have hprev : prevIsJump l0.bc s.ipO = isJumpOp c0 := by
      rw [hj]; simp [prevIsJump, hcj]
    rcases hbc.at s.ipO with ⟨f1, f2⟩ | ⟨c, c', f1, f2, ra, rb⟩
    · rw [f1, f2]; exact .err
    · rw [f1, f2]
      simp only
      have r : c = c' ∨ VRel φ c c' := by
        cases hp : prevIsJump l0.bc s.ipO with
        | true => exact .inl (ra hp)
        | false => exact .inr (rb hp)
      rw [← opOf_rel r]
      cases hop : opOf c with
      | some op => exact .err
      | none =>
        refine .ok ⟨fun hjmp => ra (by rw [hprev]; exact hjmp), fun hjmp => rb (by rw [hprev]; exact hjmp),
          rfl, by rw [h.ipO], ⟨l0, s.ipO, hl0, rfl, f1⟩, hop⟩

/-! ## operands -/

/-- if the operand about to be read (`ip.1` points at it) is a `BasePointerOffset`, it designates a live stack
    slot -/
def BpLive (s : St CHeap) : Prop :=
  ∀ l off, lambdaAt s.heap s.ipL = some l → l.bc[s.ipO]? = some (VCell.bpOffset off) →
    (s.bp : Int) + off ≤ s.stack.sp

theorem CodeAt.mem {s : St CHeap} {c0 : VCell} (hc : CodeAt s c0) :
    ∃ l, lambdaAt s.heap s.ipL = some l ∧ c0 ∈ l.bc := by
  obtain ⟨l, j, h1, _, h3⟩ := hc
  exact ⟨l, h1, List.mem_of_getElem? h3⟩

theorem loadOperand_rel (h : Sim φ s t) (ok : SizeOk s.heap) (ok' : SizeOk t.heap) {c0 : VCell}
    (hc : CodeAt s c0) (hj : isJumpOp c0 = false) (live : BpLive s) :
    ORel (fun a b => VRel φ a.1 b.1 ∧ a.2 = { s with ipO := s.ipO + 1 } ∧ b.2 = { t with ipO := t.ipO + 1 } ∧
        ∃ c1, CodeAt a.2 c1 ∧ opOf c1 = none)
      (loadOperand (concreteOps ext) s) (loadOperand (concreteOps ext) t) := by
  unfold loadOperand
  refine (readOperand_rel ext h ok ok' hc).bind ?_
  rintro ⟨v, s1⟩ ⟨v', t1⟩ ⟨_, hv, e1, e2, hc1, hop⟩
  simp only at hv e1 e2 hc1 hop ⊢
  have hv := hv hj
  subst e1 e2
  have hs1 : Sim φ { s with ipO := s.ipO + 1 } { t with ipO := t.ipO + 1 } := by
    have := h.setIpO (s.ipO + 1); rw [h.ipO] at this ⊢; exact this
  have fin : ∀ {w w'}, VRel φ w w' → ORel (fun a b => VRel φ a.1 b.1 ∧ a.2 = { s with ipO := s.ipO + 1 } ∧
      b.2 = { t with ipO := t.ipO + 1 } ∧ ∃ c1, CodeAt a.2 c1 ∧ opOf c1 = none)
      (.ok (w, { s with ipO := s.ipO + 1 })) (.ok (w', { t with ipO := t.ipO + 1 })) :=
    fun hw => .ok ⟨hw, rfl, rfl, v, hc1, hop⟩
  cases hv with
  | ptr h1 => exact fin (getAt_rel h.heap ok ok' h1)
  | pair _ _ => exact .err
  | closure _ _ => exact .err
  | lexEnvPtr _ => exact .err
  | envPtr _ => exact .err
  | instrPtr _ => exact .err
  | atom hf =>
    cases v with
    | acc => exact fin h.acc
    | bpOffset off =>
      simp only [concreteOps]
      have ebp : (t.bp : Int) + off = (s.bp : Int) + off := by rw [h.bp]
      simp only [ebp]
      obtain ⟨l, j, hl, hj', hm⟩ := hc1
      simp only at hl hj' hm
      have hjs : j = s.ipO := by omega
      subst hjs
      have hlive := live l off hl hm
      split
      · refine (h.stack.get (i := ((s.bp : Int) + off).toNat) (by omega)).bind ?_
        intro w w' hw; exact fin hw
      · exact .err
    | globSlot n =>
      simp only [concreteOps]
      have hg := globGet_rel h.heap n
      generalize s.heap.globals[n]?.getD .undefined = g at hg
      generalize t.heap.globals[n]?.getD .undefined = g' at hg
      cases hg with
      | atom hf => cases g <;> first | exact .err | exact fin (.atom hf)
      | pair a b => exact fin (.pair a b)
      | closure a b => exact fin (.closure a b)
      | lexEnvPtr a => exact fin (.lexEnvPtr a)
      | envPtr a => exact fin (.envPtr a)
      | instrPtr a => exact fin (.instrPtr a)
      | ptr a => exact fin (.ptr a)
    | lexEnvSlot n =>
      simp only [concreteOps]
      have he := envGet_rel h.heap ok ok' h.ep n
      generalize envGet s.heap s.ep n = g at he
      generalize envGet t.heap t.ep n = g' at he
      cases he with
      | none => exact .err
      | some r =>
        cases r with
        | lexEnvPtr a =>
          rename_i e e' k
          dsimp only
          have he2 := envGet_rel h.heap ok ok' a k
          generalize envGet s.heap e k = g2 at he2
          generalize envGet t.heap e' k = g2' at he2
          cases he2 with
          | none => exact .err
          | some r2 => exact fin r2
        | atom hf => rename_i w; cases w <;> first | exact fin (.atom hf) | simp [addrFree] at hf
        | pair a b => exact fin (.pair a b)
        | closure a b => exact fin (.closure a b)
        | envPtr a => exact fin (.envPtr a)
        | instrPtr a => exact fin (.instrPtr a)
        | ptr a => exact fin (.ptr a)
    | _ => first | exact .err | simp [addrFree] at hf

end

end Marwood.Lemmas.Sim
