import Marwood.Lemmas.CompileVerifiesCInv
import Marwood.Lemmas.ProcInvDefs
import Marwood.Lemmas.MachineGarbage
import Marwood.Vm.PrepareCheck
/-!
# What `prepare_eval` does to the machine: the relation `Installs`

`Vm.prepare` (Vm/Eval.lean) takes the entry lambda as given: the compiler (`compile_runnable`, compile.rs) and the
loader (`Heap::put` / `put_cell` / `maybe_put_cell`, heap.rs; `GlobalEnvironment::get_binding`, environment.rs) run
before it and are outside `runEval` / `runHistory`. This file describes their effect on a state of the concrete
machine as a relation; `Lemmas/PrepareMain.lean` proves that it re-establishes the whole machine invariant, so that
the history-level theorems (C07, C12, C06) need the invariant of the INITIAL state only.

`prepare_eval` only ever *allocates* (it never writes an existing cell, an existing global slot or a register), in a
sequence of allocator steps — each step is one of

* `cell`  — `Heap::put` of a non-symbol value: `cput h c` (next address of the free list, growing the heap when the
  list is empty; 2-bit map updated), `c` being
  - a *data cell* of `put_cell` / `maybe_put_cell`: `val (pair a d)`, `val v` with `v` address-free and not a symbol
    (number, string, character, boolean, `()`, macro object …), or a `vector`;
  - a *lambda cell* whose code object satisfies `Q` (below);
  in both cases the addresses the collector follows from `c` are allocated at that moment (`CRefsOk`: `put_cell` puts
  the children first; a code object is put after the data and the code objects its immediates refer to) and none of
  the value positions of `c` designates entry code (`cellPB`: the immediates of compiled code point to data or to
  *procedure* code — the entry lambda is put last and nothing refers to it);
* `sym`   — interning a new symbol: `putNew h v` with `v` a symbol whose name the table does not contain;
* `glob`  — `GlobalEnvironment::get_binding` of a symbol without binding: a new slot holding `Undefined`, keyed by the
  (allocated) symbol cell — the allocation the known finding `C12-undefined-global-binding` is about;
* `resym` — no change except the *representation* of the symbol table / the binding keys (both are hash maps in
  Rust; the snapshots list them sorted): same lookup function, same key set.

`Q` is the requirement on new code objects, relative to the heap `h` the object is put into (wave 12: the
environment clauses of `EnvInv` talk about the cells a code object's immediates point to). For a compiled form `e` it is
`LoadedQ e fuel h`: a loading (`Enc`,
Vm/Encode.lean) of a code object of the compiler model's `compileRunnable e fuel`, with the two facts about formals
that `LoadedLam` does not record (`NPArgs`) and the decoding discipline `plainBc`. When the real compiler rejects a
form it may leave cells behind (constants, symbols, global slots, code objects of inner lambdas that compiled
before the error): `InstallsGarbage` — the same steps with `Q := CodeOkH`, the clauses the invariants state of
EVERY lambda cell, the two environment clauses `LamEnvOk` included (no model code object to relate to: `compileRunnable`
returns only the error); `prepare_eval`
then collects (`self.run_gc()` in the `Err` arm).
-/
namespace Marwood.Lemmas.Good
open Marwood Marwood.Vm Marwood.Vm.Verify Marwood.Vm.Concrete Marwood.Lemmas.Sim
open Marwood.Lemmas.MachineGarbage
open Marwood.Heap (GcState)

/-- the two facts about the formals of a code object that ENTER / VARARG rely on (`LamNP` of
    Lemmas/NoPanicDefs.lean, restated here so that this file does not depend on it) -/
structure NPArgs (cl : CLambda) : Prop where
  vararg : VCell.opcode .varArg ∈ cl.bc → 1 ≤ cl.args.length
  argSrc : ∀ p ∈ cl.envmap, ∀ a, p.2 = Source.arg a → a ≤ cl.args.length

/-- what the machine invariants state of every lambda cell -/
structure CodeOk (cl : CLambda) : Prop where
  ver : (verifyLam cl.bc).isSome = true
  noIof : ∀ x ∈ cl.envmap, ∀ n, x.2 ≠ Source.iofArg n
  args : argNeed cl.bc ≤ cl.args.length
  lamOk : LamOk cl
  np : NPArgs cl
  plain : Marwood.Spec.plainBc 0 (cl.bc.map eraseV) = true

/-- the two clauses `EnvInv` (Lemmas/EnvInvMain.lean) states of a lambda cell, in executable form, relative to the heap
    `h` the code object is put into: no MOVIMM / PUSHIMM immediate points to a capturing lambda except at
    `MOVIMM _ %acc; CLOSURE` (`TInv`); the lambda loaded at such a site has `IofEnvironment` indices below the length of
    this object's map, and no PUSHIMM immediate is an `InstructionPointer` (`FInv`) -/
structure LamEnvOk (h : CHeap) (cl : CLambda) : Prop where
  imm : immTF (capAt h) cl.bc = true
  sites : sitesFB h cl = true

/-- what the machine invariants state of a lambda cell put into the heap `h` (a rejected form's garbage: no model code
    object to relate to, the environment clauses are part of the relation) -/
structure CodeOkH (h : CHeap) (cl : CLambda) : Prop where
  code : CodeOk cl
  env : LamEnvOk h cl

/-- quoted data (a `datum` / `newVector` cell of the model's code) -/
def isDataBC : BC → Bool
  | .datum _ | .newVector => true
  | _ => false

/-- **what the loader guarantees of the immediates of a new code object `cl` — a loading of the model's `m` — in the
    heap `h` it is put into** (`tbl` = the code-object table the `lambda id` cells of the model index):
    * the cell loaded for quoted data does not point to a capturing lambda (it is an immediate or points to a data
      cell `put_cell` allocated);
    * the pointer loaded for `lambda id` points to a lambda cell holding a loading of code object `id`, and every
      `IofEnvironment(k)` entry of THAT object's environment map carries the slot `EnvironmentMap::new_from_iof`
      computes: `k = iof.envmap.get_slot(sym)`, i.e. slot `k` of this object's own map holds the same symbol. -/
structure ImmLoaded (tbl : List LambdaM) (h : CHeap) (m : LambdaM) (cl : CLambda) : Prop where
  data : ∀ (j : Nat) (b : BC) (v : VCell), m.bc[j]? = some b → isDataBC b = true → cl.bc[j]? = some v → neE h v = true
  lam : ∀ (j id a : Nat), m.bc[j]? = some (BC.lambda id) → cl.bc[j]? = some (VCell.ptr a) →
    ∃ m' cl', tbl[id]? = some m' ∧ lambdaAt h a = some cl' ∧ LoadedLam m' cl' ∧
      ∀ y ∈ cl'.envmap, ∀ k, y.2 = Source.iofEnv k → ∃ z, cl.envmap[k]? = some z ∧ z.1 = y.1

/-- the code objects `prepare_eval` installs for the form `e`, in the heap `h` they are put into -/
structure LoadedQ (e : Datum) (fuel : Nat) (h : CHeap) (cl : CLambda) : Prop where
  comp : ∃ st lam ent m, compileRunnable e fuel = .ok (st, lam, ent) ∧ (m = lam ∨ m ∈ st.lambdas ∨ m = ent) ∧
    LoadedLam m cl ∧ ImmLoaded (st.lambdas ++ [lam]) h m cl
  np : NPArgs cl
  plain : Marwood.Spec.plainBc 0 (cl.bc.map eraseV) = true

theorem LoadedQ.compiledFor {e : Datum} {fuel : Nat} {h : CHeap} {cl : CLambda} (q : LoadedQ e fuel h cl) :
    CompiledFor e fuel cl := by
  obtain ⟨st, lam, ent, m, a, b, c, _⟩ := q.comp
  exact ⟨st, lam, ent, m, a, b, c⟩

theorem LoadedQ.codeOk {e : Datum} {fuel : Nat} {h : CHeap} {cl : CLambda} (q : LoadedQ e fuel h cl) : CodeOk cl := by
  obtain ⟨a, b, c, d⟩ := compiledFor_ok q.compiledFor
  exact ⟨a, b, c, d, q.np, q.plain⟩

/-- the content of a cell the loader allocates -/
inductive NewCellOk (Q : CLambda → Prop) : CCell → Prop
  | pair (a d : Nat) : NewCellOk Q (.val (.pair a d))
  | atom {v : VCell} : addrFree v = true → symOf v = none → NewCellOk Q (.val v)
  | vector (es : List VCell) : NewCellOk Q (.vector es)
  | lambda {cl : CLambda} : Q cl → NewCellOk Q (.lambda cl)

/-- one allocator step of the loader; `Q h` is the requirement on a code object put into the heap `h` -/
inductive InstStep (Q : CHeap → CLambda → Prop) : CHeap → CHeap → Prop
  | cell {h : CHeap} {c : CCell} : NewCellOk (Q h) c → CRefsOk h c → cellPB h c = true → dataEB h c = true →
      InstStep Q h (cput h c).1
  | sym {h : CHeap} {v : VCell} {name : Text} : symOf v = some name → symLookup h name = none →
      InstStep Q h (putNew h v).1
  | glob {h : CHeap} {y : Nat} : (toHeap h).NonFree y →
      InstStep Q h { h with globSyms := y :: h.globSyms, globals := h.globals.push .undefined }
  | resym {h : CHeap} {tab : List (Text × Nat)} {gs : List Nat} :
      (∀ name, symLookup { h with symtab := tab } name = symLookup h name) → (∀ y, y ∈ gs ↔ y ∈ h.globSyms) →
      InstStep Q h { h with symtab := tab, globSyms := gs }

/-- a sequence of allocator steps -/
inductive InstSteps (Q : CHeap → CLambda → Prop) : CHeap → CHeap → Prop
  | refl (h : CHeap) : InstSteps Q h h
  | step {h h1 h2 : CHeap} : InstStep Q h h1 → InstSteps Q h1 h2 → InstSteps Q h h2

theorem InstSteps.trans {Q : CHeap → CLambda → Prop} {a b c : CHeap} (x : InstSteps Q a b) (y : InstSteps Q b c) :
    InstSteps Q a c := by
  induction x with
  | refl _ => exact y
  | step s _ ih => exact .step s (ih y)

theorem InstSteps.one {Q : CHeap → CLambda → Prop} {a b : CHeap} (x : InstStep Q a b) : InstSteps Q a b := .step x (.refl _)

theorem NewCellOk.mono {Q Q' : CLambda → Prop} (hq : ∀ cl, Q cl → Q' cl) {c : CCell} (x : NewCellOk Q c) :
    NewCellOk Q' c := by
  cases x with
  | pair a d => exact .pair a d
  | atom h1 h2 => exact .atom h1 h2
  | vector es => exact .vector es
  | lambda q => exact .lambda (hq _ q)

theorem InstStep.mono {Q Q' : CHeap → CLambda → Prop} (hq : ∀ h cl, Q h cl → Q' h cl) {h h' : CHeap} (x : InstStep Q h h') :
    InstStep Q' h h' := by
  cases x with
  | cell a b c d => exact .cell (a.mono (hq _)) b c d
  | sym a b => exact .sym a b
  | glob a => exact .glob a
  | resym a b => exact .resym a b

theorem InstSteps.mono {Q Q' : CHeap → CLambda → Prop} (hq : ∀ h cl, Q h cl → Q' h cl) {h h' : CHeap} (x : InstSteps Q h h') :
    InstSteps Q' h h' := by
  induction x with
  | refl _ => exact .refl _
  | step s _ ih => exact .step (s.mono hq) ih

/-- **`prepare_eval` (successful) on the concrete machine**: registers and stack unchanged; the heap grew by
    allocator steps installing loadings of the code objects of `compileRunnable e fuel`, their quoted data, the
    symbols and the global slots they mention; cell `entry` — allocated, and not allocated before — holds a loading of
    the entry lambda -/
structure Installs (e : Datum) (fuel : Nat) (s s' : St CHeap) (entry : Nat) : Prop where
  regs : s' = { s with heap := s'.heap }
  steps : InstSteps (LoadedQ e fuel) s.heap s'.heap
  entryLam : ∃ st lam ent cl, compileRunnable e fuel = .ok (st, lam, ent) ∧
    s'.heap.cells[entry]? = some (CCell.lambda cl) ∧ LoadedLam ent cl
  entryNF : (toHeap s'.heap).NonFree entry
  entryFresh : ¬ (toHeap s.heap).NonFree entry

/-- **what a rejected form may leave behind** (before the collection that ends the `Err` arm of `prepare_eval`):
    allocator steps whose code objects satisfy the clauses the invariants state of every lambda cell -/
structure InstallsGarbage (s s' : St CHeap) : Prop where
  regs : s' = { s with heap := s'.heap }
  steps : InstSteps CodeOkH s.heap s'.heap

end Marwood.Lemmas.Good
