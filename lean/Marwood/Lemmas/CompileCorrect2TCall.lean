import Marwood.Lemmas.CompileCorrect2Aux
import Marwood.Lemmas.CompileCorrect2Instr
import Marwood.Lemmas.TCall
/-!
# T01.3 stage 2 — `TCALL` of a closure replaces the frame

In tail position the operands and their number are pushed above the current frame
`[a₁ … aₙ, argc n, %ep, return address, %bp]` and `TCALL` rewrites the stack so that it is exactly what a
`CALL` *by the caller of the current procedure* would have left: `[b₁ … bₘ, argc m, %ep, return address]`
above the caller's stack, `bp` the caller's. Both branches of run.rs (equal / different argument counts) are
covered, through the loop specifications of `Lemmas/TCall.lean`.
-/
namespace Marwood.Lemmas.CompileCorrect2
open Marwood Marwood.Vm Marwood.Lemmas.CompileCorrect

variable {H : Type} {ops : HeapOps H}

/-- the frame of the current activation: what `CALL` and `ENTER` pushed, and the caller's stack below -/
structure Frame where
  nf : Nat
  epc : Nat
  lc : Nat
  oc : Nat
  bpc : Nat
  st0 : Stack

/-- `bp` points at a frame described by `fr` in the live part of `st` -/
structure FrameAt (st : Stack) (bp : Nat) (fr : Frame) : Prop where
  argc : st.cells[bp + 1]? = some (.argc fr.nf)
  ep : st.cells[bp + 2]? = some (.envPtr fr.epc)
  ip : st.cells[bp + 3]? = some (.instrPtr fr.lc fr.oc)
  bpc : st.cells[bp + 4]? = some (.basePtr fr.bpc)
  le : fr.nf ≤ bp
  live : bp + 4 ≤ st.sp
  sp0 : fr.st0.sp = bp - fr.nf
  below : ∀ i, i ≤ fr.st0.sp → fr.st0.cells[i]? = st.cells[i]?
  swf0 : SWF fr.st0

theorem FrameAt.of_liveEq {st st' : Stack} {bp : Nat} {fr : Frame} (h : FrameAt st bp fr) (l : LiveEq st st') :
    FrameAt st' bp fr := by
  have c : ∀ i, i ≤ bp + 4 → st'.cells[i]? = st.cells[i]? := fun i hi => (l.2 i (by have := h.live; omega)).symm
  refine ⟨by rw [c _ (by omega)]; exact h.argc, by rw [c _ (by omega)]; exact h.ep, by rw [c _ (by omega)]; exact h.ip,
    by rw [c _ (by omega)]; exact h.bpc, h.le, by rw [← l.1]; exact h.live, h.sp0, fun i hi => ?_, h.swf0⟩
  rw [c i (by have := h.sp0; omega)]; exact h.below i hi

theorem getElem?_cellAt (st : Stack) (i : Nat) (h : i < st.cells.length) : st.cells[i]? = some (st.cellAt i) := by
  unfold Stack.cellAt
  rw [List.getElem?_eq_getElem h]; rfl

theorem cellAt_of_getElem? {st : Stack} {i : Nat} {v : VCell} (h : st.cells[i]? = some v) : st.cellAt i = v := by
  unfold Stack.cellAt; rw [h]; rfl

theorem lt_of_getElem? {st : Stack} {i : Nat} {v : VCell} (h : st.cells[i]? = some v) : i < st.cells.length := by
  rcases Nat.lt_or_ge i st.cells.length with h1 | h1
  · exact h1
  · rw [List.getElem?_eq_none h1] at h; cases h

/-- a stack that has the cells of a `CALL` frame -/
theorem liveEq_callFrame {st0 st' : Stack} {vs : List VCell} {epc lc oc : Nat} (hw0 : SWF st0)
    (hsp : st'.sp = st0.sp + vs.length + 3)
    (h0 : ∀ i, i ≤ st0.sp → st'.cells[i]? = st0.cells[i]?)
    (h1 : ∀ j, j < vs.length → st'.cells[st0.sp + 1 + j]? = vs[j]?)
    (h2 : st'.cells[st0.sp + vs.length + 1]? = some (.argc vs.length))
    (h3 : st'.cells[st0.sp + vs.length + 2]? = some (.envPtr epc))
    (h4 : st'.cells[st0.sp + vs.length + 3]? = some (.instrPtr lc oc)) :
    LiveEq (callFrame st0 vs epc lc oc) st' := by
  obtain ⟨k0, k1, k2, k3, k4⟩ := callFrame_cells st0 vs epc lc oc hw0
  refine ⟨by rw [callFrame_sp, hsp], fun i hi => ?_⟩
  rw [callFrame_sp] at hi
  by_cases c0 : i ≤ st0.sp
  · rw [k0 i c0, h0 i c0]
  · by_cases c1 : i < st0.sp + 1 + vs.length
    · have e : i = st0.sp + 1 + (i - (st0.sp + 1)) := by omega
      rw [e, k1 _ (by omega), h1 _ (by omega)]
    · by_cases c2 : i = st0.sp + vs.length + 1
      · subst c2; rw [k2, h2]
      · by_cases c3 : i = st0.sp + vs.length + 2
        · subst c3; rw [k3, h3]
        · have c4 : i = st0.sp + vs.length + 3 := by omega
          subst c4; rw [k4, h4]

theorem getOffset_zero (st : Stack) : st.getOffset 0 = st.get st.sp := by
  unfold Stack.getOffset
  simp

/-- **`TCALL` of a closure.** `stk0` is the stack of the current activation before the operands `vs` were
    pushed; afterwards the stack is the frame a `CALL` by the caller would have left. -/
theorem stepTCall_closure {s : MSt H} {lam env : Nat} {fr : Frame} {stk0 : Stack} {vs : List VCell}
    (hc : ops.callee s.heap s.acc = .closure lam env) (hfr : FrameAt stk0 s.bp fr) (hw0 : SWF stk0)
    (hst : LiveEq ((pushAll stk0 vs).push (.argc vs.length)) s.stack) (hw : SWF s.stack) :
    ∃ st', stepTCall ops s = .ok { s with stack := st', bp := fr.bpc, ipL := lam, ipO := 0 } ∧
      LiveEq (callFrame fr.st0 vs fr.epc fr.lc fr.oc) st' ∧ SWF st' := by
  -- the layout of the stack
  have hA := pushAll_swf stk0 vs hw0
  have spS : s.stack.sp = stk0.sp + vs.length + 1 := by rw [← hst.1]; simp [pushAll_sp]
  have low : ∀ i, i ≤ stk0.sp → s.stack.cells[i]? = stk0.cells[i]? := by
    intro i hi
    rw [← hst.2 i (by simp [pushAll_sp]; omega), push_below _ _ hA i (by rw [pushAll_sp]; omega),
      pushAll_below stk0 vs hw0 i hi]
  have opnd : ∀ j, j < vs.length → s.stack.cells[stk0.sp + 1 + j]? = vs[j]? := by
    intro j hj
    rw [← hst.2 _ (by simp [pushAll_sp]; omega), push_below _ _ hA _ (by rw [pushAll_sp]; omega),
      pushAll_get stk0 vs hw0 j hj]
  have top : s.stack.cells[s.stack.sp]? = some (.argc vs.length) := by
    rw [← hst.2 _ (by rw [hst.1]; exact Nat.le_refl _), ← hst.1]
    have := push_top (pushAll stk0 vs) (.argc vs.length)
    simpa using this
  have hlen : s.stack.sp < s.stack.cells.length := hw
  have live := hfr.live
  have fle := hfr.le
  have f1 : s.stack.cells[s.bp + 1]? = some (.argc fr.nf) := by rw [low _ (by omega)]; exact hfr.argc
  have f2 : s.stack.cells[s.bp + 2]? = some (.envPtr fr.epc) := by rw [low _ (by omega)]; exact hfr.ep
  have f3 : s.stack.cells[s.bp + 3]? = some (.instrPtr fr.lc fr.oc) := by rw [low _ (by omega)]; exact hfr.ip
  have f4 : s.stack.cells[s.bp + 4]? = some (.basePtr fr.bpc) := by rw [low _ (by omega)]; exact hfr.bpc
  have below0 : ∀ i, i ≤ fr.st0.sp → s.stack.cells[i]? = fr.st0.cells[i]? := by
    intro i hi
    rw [low i (by have := hfr.sp0; omega)]; exact (hfr.below i hi).symm
  have sp0 := hfr.sp0
  unfold stepTCall
  simp only [hc, ok_bind, getOffset_zero, stack_get_of top, asArgc, stack_get_of f1]
  by_cases heq : vs.length = fr.nf
  · -- equal argument counts: copy over the old arguments
    simp only [heq, if_true, stack_get_of f4, ok_bind, asBp]
    obtain ⟨st1, e1, e2, e3, e4, e5⟩ := tcallCopySame_spec fr.nf 0 s.bp s.stack hlen (by omega) (by omega)
    rw [e1]
    simp only [ok_bind]
    refine ⟨_, rfl, ?_, ?_⟩
    · have len1 : ∀ i, i < s.stack.cells.length → ({ st1 with sp := s.bp + 3 } : Stack).cells[i]? = some (st1.cellAt i) :=
        fun i hi => getElem?_cellAt st1 i (by rw [e3]; exact hi)
      have same : ∀ i v, (i + fr.nf ≤ s.bp ∨ s.bp < i) → s.stack.cells[i]? = some v →
          ({ st1 with sp := s.bp + 3 } : Stack).cells[i]? = some v := by
        intro i v hi hv
        rw [len1 i (lt_of_getElem? hv), e5 i (by omega), cellAt_of_getElem? hv]
      refine liveEq_callFrame hfr.swf0 (by show s.bp + 3 = _; omega) ?_ ?_ ?_ ?_ ?_
      · intro i hi
        have hlt : i < fr.st0.cells.length := by have := hfr.swf0; unfold SWF at this; omega
        have hv : s.stack.cells[i]? = some (fr.st0.cells[i]) := by
          rw [below0 i hi, List.getElem?_eq_getElem hlt]
        rw [same i _ (.inl (by omega)) hv, List.getElem?_eq_getElem hlt]
      · intro j hj
        have hj' : fr.nf - 1 - j < fr.nf := by omega
        have h4' := e4 (fr.nf - 1 - j) hj'
        have ei : fr.st0.sp + 1 + j = s.bp - 0 - (fr.nf - 1 - j) := by omega
        have es : s.stack.sp - 1 - 0 - (fr.nf - 1 - j) = stk0.sp + 1 + j := by omega
        rw [ei, len1 _ (by omega), h4', es]
        have hv := opnd j hj
        rw [List.getElem?_eq_getElem hj] at hv ⊢
        rw [cellAt_of_getElem? hv]
      · rw [show fr.st0.sp + vs.length + 1 = s.bp + 1 by omega, heq]
        exact same _ _ (.inr (by omega)) f1
      · rw [show fr.st0.sp + vs.length + 2 = s.bp + 2 by omega]
        exact same _ _ (.inr (by omega)) f2
      · rw [show fr.st0.sp + vs.length + 3 = s.bp + 3 by omega]
        exact same _ _ (.inr (by omega)) f3
    · show s.bp + 3 < st1.cells.length
      rw [e3]; omega
  · -- different argument counts: rebuild the frame on top of the caller's stack
    simp only [heq, if_false, stack_get_of f2, stack_get_of f3, stack_get_of f4, ok_bind, asBp]
    have hu : usub s.bp fr.nf "tcall: bp - frame_argc" = .ok (s.bp - fr.nf) := by unfold usub; simp [fle]
    simp only [hu, ok_bind]
    obtain ⟨st1, e1, e2, e3, e4, e5, _⟩ := tcallCopyDiff_spec vs.length s.stack.sp
      { s.stack with sp := s.bp - fr.nf } hlen (by show s.bp - fr.nf + 1 + vs.length ≤ s.stack.sp; omega)
    rw [e1]
    simp only [ok_bind]
    have e2' : st1.sp = s.bp - fr.nf + vs.length := e2
    have e3' : s.stack.cells.length ≤ st1.cells.length := e3
    have hw1 : SWF st1 := by unfold SWF; omega
    have l1 : LiveEq (pushAll fr.st0 vs) st1 := by
      refine ⟨by rw [pushAll_sp, e2']; omega, fun i hi => ?_⟩
      rw [pushAll_sp] at hi
      by_cases c0 : i ≤ fr.st0.sp
      · rw [pushAll_below _ _ hfr.swf0 i c0, getElem?_cellAt st1 i (by omega), e5 i (by show i ≤ s.bp - fr.nf; omega)]
        have hlt : i < fr.st0.cells.length := by have := hfr.swf0; unfold SWF at this; omega
        have hv : s.stack.cells[i]? = some (fr.st0.cells[i]) := by
          rw [below0 i c0, List.getElem?_eq_getElem hlt]
        rw [List.getElem?_eq_getElem hlt]
        exact congrArg some (cellAt_of_getElem? hv).symm
      · have e : i = fr.st0.sp + 1 + (i - (fr.st0.sp + 1)) := by omega
        have hj : i - (fr.st0.sp + 1) < vs.length := by omega
        rw [e, pushAll_get _ _ hfr.swf0 _ hj, getElem?_cellAt st1 _ (by omega)]
        have h4' := e4 (i - (fr.st0.sp + 1)) hj
        have ei : fr.st0.sp + 1 + (i - (fr.st0.sp + 1)) = s.bp - fr.nf + 1 + (i - (fr.st0.sp + 1)) := by omega
        rw [ei, h4']
        have hv := opnd _ hj
        rw [List.getElem?_eq_getElem hj] at hv ⊢
        have es : s.stack.sp - vs.length + (i - (fr.st0.sp + 1)) = stk0.sp + 1 + (i - (fr.st0.sp + 1)) := by omega
        rw [es]
        exact congrArg some (cellAt_of_getElem? hv).symm
    refine ⟨_, rfl, ?_, push_swf _ _⟩
    unfold callFrame
    exact (((l1.push (pushAll_swf _ _ hfr.swf0) hw1 _).push (push_swf _ _) (push_swf _ _) _).push (push_swf _ _)
      (push_swf _ _) _)

/-- `TCALL %acc`, `acc` is a closure -/
theorem step_tcall_closure {s : MSt H} {lam env : Nat} {fr : Frame} {stk0 : Stack} {vs : List VCell}
    (hl : ops.isLambda s.heap s.ipL = true)
    (h0 : ops.fetch s.heap s.ipL s.ipO = some (.opcode .tcallAcc))
    (hc : ops.callee s.heap s.acc = .closure lam env) (hfr : FrameAt stk0 s.bp fr) (hw0 : SWF stk0)
    (hst : LiveEq ((pushAll stk0 vs).push (.argc vs.length)) s.stack) (hw : SWF s.stack) :
    ∃ st', step ops s = .ok ({ s with stack := st', bp := fr.bpc, ipL := lam, ipO := 0 }, false) ∧
      LiveEq (callFrame fr.st0 vs fr.epc fr.lc fr.oc) st' ∧ SWF st' := by
  obtain ⟨st', h1, h2, h3⟩ := stepTCall_closure (s := { s with ipO := s.ipO + 1 }) hc hfr hw0 hst hw
  refine ⟨st', ?_, h2, h3⟩
  unfold step
  rw [readOpcode_eq hl h0]
  simp only [ok_bind, h1]

end Marwood.Lemmas.CompileCorrect2
