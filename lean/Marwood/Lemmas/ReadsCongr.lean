import Marwood.Lemmas.CalleeCongr
/-!
# `step` consults the global / environment reads only on the heap of the current state

`HeapOps.withReads ops g e vp` replaces `globGet`, `envGet` and `vectorPush`. `step_wr`: if `g` / `e` agree
with the originals on the heap of `s`, and `vp` succeeds with the same heap wherever the original does, a
successful instruction from `s` under `ops` is the same successful instruction under the replaced
operations. Used to relate the concrete machine to its value-guarded version (`Lemmas/ConcreteLawsVal.lean`).
-/
namespace Marwood.Vm
variable {H : Type}

def HeapOps.withReads (ops : HeapOps H) (g : H → Nat → VCell) (e : H → Nat → Nat → Option VCell)
    (vp : H → VCell → VCell → Outcome H) : HeapOps H :=
  { ops with globGet := g, envGet := e, vectorPush := vp }

variable (ops : HeapOps H) (g : H → Nat → VCell) (e : H → Nat → Nat → Option VCell)
  (vp : H → VCell → VCell → Outcome H)

theorem pushList_wr (s : St H) :
    ∀ (fuel : Nat) (rest : VCell) (n : Nat) (st : Stack),
      builtinApply.pushList (ops.withReads g e vp) s fuel rest n st = builtinApply.pushList ops s fuel rest n st := by
  intro fuel
  induction fuel with
  | zero => intro rest n st; rfl
  | succ f ih =>
    intro rest n st
    unfold builtinApply.pushList
    cases rest <;> first | rfl | exact ih _ _ _

theorem builtinApply_wr (s : St H) : builtinApply (ops.withReads g e vp) s = builtinApply ops s := by
  unfold builtinApply
  simp only [pushList_wr]
  rfl

theorem varargCollect_wr :
    ∀ (k : Nat) (h : H) (acc : Nat) (st : Stack),
      varargCollect (ops.withReads g e vp) k h acc st = varargCollect ops k h acc st := by
  intro k
  induction k with
  | zero => intro h acc st; rfl
  | succ k ih =>
    intro h acc st
    unfold varargCollect
    simp only [ih]
    rfl

theorem runBuiltin_wr (id : Nat) (s : St H) : runBuiltin (ops.withReads g e vp) id s = runBuiltin ops id s := by
  unfold runBuiltin
  have e1 : builtinCallcc (ops.withReads g e vp) s = builtinCallcc ops s := rfl
  have e2 : builtinEvalProc (ops.withReads g e vp) s = builtinEvalProc ops s := rfl
  have e3 : builtinGeneric (ops.withReads g e vp) id s = builtinGeneric ops id s := rfl
  rw [builtinApply_wr, e1, e2, e3]
  rfl

theorem stepCall_wr (s : St H) : stepCall (ops.withReads g e vp) s = stepCall ops s := by
  unfold stepCall
  have e0 : (ops.withReads g e vp).callee s.heap s.acc = ops.callee s.heap s.acc := rfl
  rw [e0]
  simp only [runBuiltin_wr]

theorem stepTCall_wr (s : St H) : stepTCall (ops.withReads g e vp) s = stepTCall ops s := by
  unfold stepTCall
  have e0 : (ops.withReads g e vp).callee s.heap s.acc = ops.callee s.heap s.acc := rfl
  rw [e0]
  simp only [runBuiltin_wr]

theorem stepEnter_wr (s : St H) : stepEnter (ops.withReads g e vp) s = stepEnter ops s := rfl

theorem stepVarArg_wr (s : St H) : stepVarArg (ops.withReads g e vp) s = stepVarArg ops s := by
  unfold stepVarArg
  simp only [varargCollect_wr]
  rfl

theorem loadOperand_wr (s : St H) (hg : ∀ n, g s.heap n = ops.globGet s.heap n)
    (he : ∀ a k, e s.heap a k = ops.envGet s.heap a k) :
    loadOperand (ops.withReads g e vp) s = loadOperand ops s := by
  unfold loadOperand
  have hr : readOperand (ops.withReads g e vp) s = readOperand ops s := rfl
  rw [hr]
  cases hro : readOperand ops s with
  | err x => rfl
  | panic m => rfl
  | ok r =>
    obtain ⟨opnd, s1⟩ := r
    have e1 := (readOperand_ok hro).2
    have hh : s1.heap = s.heap := by subst e1; rfl
    have hep : s1.ep = s.ep := by subst e1; rfl
    cases opnd <;> dsimp only [Bind.bind] <;> try rfl
    · -- lexEnvSlot
      rename_i n
      have a1 : (ops.withReads g e vp).envGet s1.heap s1.ep n = ops.envGet s1.heap s1.ep n := by
        rw [hh]; exact he _ _
      rw [a1]
      cases hx : ops.envGet s1.heap s1.ep n with
      | none => rfl
      | some w =>
        cases w <;> try rfl
        rename_i a k
        dsimp only
        have a2 : (ops.withReads g e vp).envGet s1.heap a k = ops.envGet s1.heap a k := by
          rw [hh]; exact he _ _
        rw [a2]
    · -- globSlot
      rename_i n
      have a1 : (ops.withReads g e vp).globGet s1.heap n = ops.globGet s1.heap n := by
        rw [hh]; exact hg _
      rw [a1]

theorem storeOperand_wr (s : St H) (v : VCell) (he : ∀ a k, e s.heap a k = ops.envGet s.heap a k) :
    storeOperand (ops.withReads g e vp) s v = storeOperand ops s v := by
  unfold storeOperand
  have hr : readOperand (ops.withReads g e vp) s = readOperand ops s := rfl
  rw [hr]
  cases hro : readOperand ops s with
  | err x => rfl
  | panic m => rfl
  | ok r =>
    obtain ⟨opnd, s1⟩ := r
    have e1 := (readOperand_ok hro).2
    have hh : s1.heap = s.heap := by subst e1; rfl
    cases opnd <;> dsimp only [Bind.bind] <;> try rfl
    rename_i n
    have a1 : (ops.withReads g e vp).envGet s1.heap s1.ep n = ops.envGet s1.heap s1.ep n := by
      rw [hh]; exact he _ _
    rw [a1]
    rfl

/-- a successful instruction under `ops` is the same instruction under the replaced reads -/
theorem step_wr (s : St H) (hg : ∀ n, g s.heap n = ops.globGet s.heap n)
    (he : ∀ a k, e s.heap a k = ops.envGet s.heap a k)
    (hv : ∀ s1 d st1 h', readOpcode ops s = .ok (.vpushAcc, s1) → s.stack.pop = .ok (d, st1) →
      ops.vectorPush s.heap (ops.deref s.heap d) s.acc = .ok h' →
      vp s.heap (ops.deref s.heap d) s.acc = .ok h')
    {r : St H × Bool} (hs : step ops s = .ok r) : step (ops.withReads g e vp) s = .ok r := by
  unfold step at hs ⊢
  have hr : readOpcode (ops.withReads g e vp) s = readOpcode ops s := rfl
  rw [hr]
  cases hro : readOpcode ops s with
  | err x => rw [hro] at hs; cases hs
  | panic m => rw [hro] at hs; cases hs
  | ok r1 =>
    obtain ⟨op, s1⟩ := r1
    rw [hro] at hs
    have e1 := (readOpcode_ok hro).2
    have hh : s1.heap = s.heap := by subst e1; rfl
    have hg1 : ∀ n, g s1.heap n = ops.globGet s1.heap n := by rw [hh]; exact hg
    have he1 : ∀ a k, e s1.heap a k = ops.envGet s1.heap a k := by rw [hh]; exact he
    cases op <;> dsimp only [Bind.bind] at hs ⊢
    case mov =>
      rw [loadOperand_wr ops g e vp s1 hg1 he1]
      cases hlo : loadOperand ops s1 with
      | err x => rw [hlo] at hs; cases hs
      | panic m => rw [hlo] at hs; cases hs
      | ok r2 =>
        obtain ⟨v, s2⟩ := r2
        rw [hlo] at hs
        have e2 := loadOperand_ok hlo
        have hh2 : s2.heap = s.heap := by subst e2; exact hh
        dsimp only at hs ⊢
        rw [storeOperand_wr ops g e vp s2 v (by rw [hh2]; exact he)]
        exact hs
    case movImm =>
      have hr2 : readOperand (ops.withReads g e vp) s1 = readOperand ops s1 := rfl
      rw [hr2]
      cases hro2 : readOperand ops s1 with
      | err x => rw [hro2] at hs; cases hs
      | panic m => rw [hro2] at hs; cases hs
      | ok r2 =>
        obtain ⟨v, s2⟩ := r2
        rw [hro2] at hs
        have e2 := (readOperand_ok hro2).2
        have hh2 : s2.heap = s.heap := by subst e2; exact hh
        dsimp only at hs ⊢
        rw [storeOperand_wr ops g e vp s2 v (by rw [hh2]; exact he)]
        exact hs
    case push =>
      rw [loadOperand_wr ops g e vp s1 hg1 he1]
      exact hs
    case vpushAcc =>
      cases hp : s1.stack.pop with
      | err x => rw [hp] at hs; cases hs
      | panic m => rw [hp] at hs; cases hs
      | ok r2 =>
        obtain ⟨d, st1⟩ := r2
        rw [hp] at hs
        dsimp only at hs ⊢
        have hd : (ops.withReads g e vp).deref s1.heap d = ops.deref s1.heap d := rfl
        rw [hd]
        cases hvp : ops.vectorPush s1.heap (ops.deref s1.heap d) s1.acc with
        | err x => rw [hvp] at hs; cases hs
        | panic m => rw [hvp] at hs; cases hs
        | ok h' =>
          rw [hvp] at hs
          have : (ops.withReads g e vp).vectorPush s1.heap (ops.deref s1.heap d) s1.acc = .ok h' := by
            have hst : s1.stack = s.stack := by subst e1; rfl
            have hac : s1.acc = s.acc := by subst e1; rfl
            rw [hh, hac] at hvp ⊢
            rw [hst] at hp
            exact hv _ _ _ _ hro hp hvp
          rw [this]
          exact hs
    case callAcc => rw [stepCall_wr]; exact hs
    case tcallAcc => rw [stepTCall_wr]; exact hs
    case enter => rw [stepEnter_wr]; exact hs
    case varArg => rw [stepVarArg_wr]; exact hs
    all_goals exact hs

end Marwood.Vm
