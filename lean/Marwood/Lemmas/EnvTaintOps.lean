import Marwood.Lemmas.EnvTaintDefs
/-!
# "No value leads to a capturing lambda": the heap operations of `run_one`, and the law of the unmodelled ones

The shape of `Lemmas/ProcInvOps.lean`. Each modelled heap operation keeps `HP` and `LF`, keeps every lambda cell
(`LamSame`), and returns a value that does not point to a capturing lambda. CLOSURE needs no premise about the lambda
it closes over (`allAtB`). `ExtTaint ext` is what is assumed of the operations that are parameters of the concrete
model (`ExtOps`); `eval`'s compiler creates capturing lambdas, at fresh addresses: its law is `EKeep`, not `EShr`.
-/
namespace Marwood.Lemmas.Taint
open Marwood.Lemmas.Good Marwood Marwood.Vm Marwood.Vm.Verify Marwood.Vm.Concrete Marwood.Lemmas.Sim
open Marwood.Heap (GcState)

/-- what every heap operation of `run_one` delivers -/
structure OpRes (h h' : CHeap) : Prop where
  hp : HP h'
  lf : LF h'
  ls : LamSame h h'

theorem OpRes.refl {h : CHeap} (hp : HP h) (lf : LF h) : OpRes h h := ⟨hp, lf, .refl h⟩

theorem OpRes.trans {a b c : CHeap} (x : OpRes a b) (y : OpRes b c) : OpRes a c := ⟨y.hp, y.lf, x.ls.trans y.ls⟩

theorem OpRes.eshr {h h' : CHeap} (r : OpRes h h') : EShr h h' := r.ls.eshrE

theorem OpRes.neE {h h' : CHeap} (r : OpRes h h') {v : VCell} (x : neE h v = true) : neE h' v = true := by
  rw [r.ls.neE]; exact x

theorem OpRes.valEB {h h' : CHeap} (r : OpRes h h') {v : VCell} (x : valEB h v = true) : valEB h' v = true := by
  rw [r.ls.valEB]; exact x

theorem cput_res {h : CHeap} (lf : LF h) (hp : HP h) {c : CCell} (hc : ∀ lam, c ≠ CCell.lambda lam)
    (ok : cellEB h c = true) : OpRes h (cput h c).1 ∧ capAt (cput h c).1 (cput h c).2 = false := by
  obtain ⟨a, b, c', d⟩ := cput_hp lf hp hc ok
  exact ⟨⟨a, b, c'⟩, d⟩

/-- overwriting a cell that holds no lambda with a non-code cell -/
theorem cwrite_res {h : CHeap} (lf : LF h) (hp : HP h) {p : Nat} {c : CCell}
    (hold : ∀ lam, h.cells[p]? ≠ some (CCell.lambda lam)) (hc : ∀ lam, c ≠ CCell.lambda lam)
    (ok : cellEB h c = true) : OpRes h (cwrite h p c) := by
  have ls : LamSame h (cwrite h p c) := by
    intro l
    cases hl : lambdaAt h l with
    | some lam =>
      refine lambdaAt_iff.mpr ?_
      have hcl := lambdaAt_iff.mp hl
      rw [cwrite_cells]
      split
      · rename_i hh; obtain ⟨e, _⟩ := hh; subst e; exact absurd hcl (hold lam)
      · exact hcl
    | none =>
      cases hl' : lambdaAt (cwrite h p c) l with
      | none => rfl
      | some lam =>
        exfalso
        have := lambdaAt_iff.mp hl'
        rw [cwrite_cells] at this
        split at this
        · cases this; exact hc lam rfl
        · have := lambdaAt_iff.mpr this; rw [hl] at this; cases this
  refine ⟨⟨?_, ?_, ?_⟩, ?_, ls⟩
  · intro i x hx
    rw [ls.cellEB]
    rw [cwrite_cells] at hx
    split at hx
    · cases hx; exact ok
    · exact hp.cells i x hx
  · intro n v hv
    rw [ls.neE]
    exact hp.globals n v hv
  · intro name q hl
    rw [ls.capE]
    exact hp.sym name q hl
  · intro l lam hl hm
    have hold' : h.cells[l]? = some (CCell.lambda lam) := by
      have := ls l
      rw [lambdaAt_iff.mpr hl] at this
      exact lambdaAt_iff.mp this.symm
    exact lf l lam hold' hm

/-! ## `put` / `maybe_put` -/

theorem putNew_res {h : CHeap} (lf : LF h) (hp : HP h) {v : VCell} (hv : valEB h v = true) :
    OpRes h (putNew h v).1 ∧ neE (putNew h v).1 (putNew h v).2 = true := by
  have hc : ∀ lam, CCell.val v ≠ CCell.lambda lam := fun lam hh => by cases hh
  cases hs : symOf v with
  | none =>
    have e : putNew h v = ((cput h (.val v)).1, .ptr (cput h (.val v)).2) := by simp only [putNew, hs]
    rw [e]
    obtain ⟨r, he⟩ := cput_res lf hp hc hv
    exact ⟨r, by simp only [neE_ptr, he]; rfl⟩
  | some name =>
    cases hk : symLookup h name with
    | some p =>
      have e : putNew h v = (h, .ptr p) := by simp only [putNew, hs, hk]
      rw [e]
      refine ⟨.refl hp lf, ?_⟩
      simp only [neE_ptr, hp.sym name p hk]; rfl
    | none =>
      have e : putNew h v = ({ (cput h (.val v)).1 with
          symtab := Heap.Heap.symInsert (cput h (.val v)).1.symtab name (cput h (.val v)).2 },
          .ptr (cput h (.val v)).2) := by simp only [putNew, hs, hk]
      rw [e]
      obtain ⟨r, he⟩ := cput_res lf hp hc hv
      have ls2 : LamSame (cput h (.val v)).1 { (cput h (.val v)).1 with
          symtab := Heap.Heap.symInsert (cput h (.val v)).1.symtab name (cput h (.val v)).2 } := .of_cells rfl
      refine ⟨⟨⟨?_, ?_, ?_⟩, ?_, r.ls.trans ls2⟩, ?_⟩
      · intro i x hx
        rw [ls2.cellEB]
        exact r.hp.cells i x hx
      · intro n w hw
        rw [ls2.neE]
        exact r.hp.globals n w hw
      · intro nm q hl
        rw [ls2.capE]
        have hl' : ((Heap.Heap.symInsert (cput h (.val v)).1.symtab name (cput h (.val v)).2).find? (·.1 = nm)).map (·.2) =
            some q := hl
        rw [Lemmas.GcSweep.lookup_insert] at hl'
        split at hl'
        · cases hl'; exact he
        · exact r.hp.sym nm q hl'
      · intro l lam hl hm
        exact r.lf l lam hl hm
      · simp only [neE_ptr]
        rw [ls2.capE, he]; rfl

theorem putV_res {h : CHeap} (lf : LF h) (hp : HP h) {v : VCell} (hv : valEB h v = true) :
    OpRes h (putV h v).1 ∧ neE (putV h v).1 (putV h v).2 = true := by
  unfold putV
  split
  · exact ⟨.refl hp lf, neE_of_valEB hv⟩
  · exact putNew_res lf hp hv

theorem maybePutV_res {h : CHeap} (lf : LF h) (hp : HP h) {v : VCell} (hv : valEB h v = true) :
    OpRes h (maybePutV h v).1 ∧ neE (maybePutV h v).1 (maybePutV h v).2 = true := by
  unfold maybePutV
  split
  · exact ⟨.refl hp lf, neE_of_valEB hv⟩
  · exact putNew_res lf hp hv

/-- the address `put` returns for a pair does not hold a capturing lambda -/
theorem putV_ptr_cap {h : CHeap} {v : VCell} {a : Nat} (he : (putV h v).2 = .ptr a)
    (hn : neE (putV h v).1 (putV h v).2 = true) : capAt (putV h v).1 a = false := by
  rw [he] at hn
  simpa using hn

theorem valEB_pair {h : CHeap} {a d : Nat} (ha : capAt h a = false) (hd : capAt h d = false) :
    valEB h (.pair a d) = true := by
  show (!capAt h a && !capAt h d) = true
  rw [ha, hd]; rfl

/-! ## slot writes -/

theorem globPut_res {h : CHeap} (lf : LF h) (hp : HP h) (n : Nat) {v : VCell} (hv : neE h v = true) :
    OpRes h { h with globals := h.globals.setIfInBounds n v } := by
  have ls : LamSame h { h with globals := h.globals.setIfInBounds n v } := .of_cells rfl
  refine ⟨⟨?_, ?_, ?_⟩, ?_, ls⟩
  · intro i x hx; rw [ls.cellEB]; exact hp.cells i x hx
  · intro k w hw
    rw [ls.neE]
    have hw' : (h.globals.setIfInBounds n v)[k]? = some w := hw
    by_cases hk : n = k
    · subst hk
      by_cases hl : n < h.globals.size
      · rw [Array.getElem?_setIfInBounds_self_of_lt hl] at hw'
        cases hw'; exact hv
      · rw [Array.getElem?_eq_none (by simp; omega)] at hw'; cases hw'
    · rw [Array.getElem?_setIfInBounds_ne hk] at hw'
      exact hp.globals k w hw'
  · intro name q hl; rw [ls.capE]; exact hp.sym name q hl
  · intro l lam hl hm; exact lf l lam hl hm

theorem envAt_slots {h : CHeap} (hp : HP h) {e : Nat} {ss : List VCell} (he : envAt h e = some ss) :
    ∀ v ∈ ss, neE h v = true := by
  have := hp.cells e _ (Good.envAt_cell he)
  have h2 : ss.all (neE h) = true := this
  rw [List.all_eq_true] at h2
  exact h2

theorem envGet_ne {h : CHeap} (hp : HP h) {e k : Nat} {v : VCell} (hg : envGet h e k = some v) : neE h v = true := by
  unfold envGet at hg
  cases he : envAt h e with
  | none => rw [he] at hg; cases hg
  | some ss =>
    rw [he] at hg
    exact envAt_slots hp he v (List.mem_of_getElem? hg)

theorem envPut_res {h h' : CHeap} (lf : LF h) (hp : HP h) {e k : Nat} {v : VCell} (hv : neE h v = true)
    (hpt : envPut h e k v = some h') : OpRes h h' := by
  unfold envPut at hpt
  cases he : envAt h e with
  | none => rw [he] at hpt; cases hpt
  | some ss =>
    rw [he] at hpt
    simp only at hpt
    split at hpt
    · cases hpt
      refine cwrite_res lf hp ?_ (fun lam hh => by cases hh) ?_
      · intro lam hl
        rw [Good.envAt_cell he] at hl; cases hl
      · show (ss.set k v).all (neE h) = true
        rw [List.all_eq_true]
        intro w hw
        rcases mem_set hw with rfl | hw
        · exact hv
        · exact envAt_slots hp he w hw
    · cases hpt

/-! ## CLOSURE -/

theorem closureSlots_ne {h : CHeap} {ep bp : Nat} {st : Stack} :
    ∀ (em : List (VCell × Source)) (slots : List VCell), (∀ x ∈ em, ∀ n, x.2 ≠ Source.iofArg n) →
      closureSlots h ep bp st em = .ok slots → ∀ v ∈ slots, neE h v = true := by
  intro em
  induction em with
  | nil =>
    intro slots _ hc v hv
    simp only [closureSlots] at hc
    cases hc; cases hv
  | cons x rest ih =>
    intro slots hno hc v hv
    obtain ⟨sym, src⟩ := x
    simp only [closureSlots] at hc
    obtain ⟨w, h1, hc⟩ := bind_ok hc
    obtain ⟨ws, h2, hc⟩ := bind_ok hc
    cases hc
    rcases List.mem_cons.mp hv with rfl | hv
    · cases src with
      | iofArg n => exact absurd rfl (hno (sym, .iofArg n) (by simp) n)
      | iofEnv k =>
        simp only [closureSlot] at h1
        repeat' split at h1
        all_goals first | (cases h1; rfl) | cases h1
      | global => simp only [closureSlot] at h1; cases h1; rfl
      | arg n => simp only [closureSlot] at h1; cases h1; rfl
      | internal => simp only [closureSlot] at h1; cases h1; rfl
    · exact ih ws (fun y hy => hno y (List.mem_cons_of_mem _ hy)) h2 v hv

/-- CLOSURE (over any lambda cell) -/
theorem makeClosure_res {h h' : CHeap} (lf : LF h) (hp : HP h) {lam ep bp : Nat} {st : Stack} {c : VCell}
    (hno : ∀ l, lambdaAt h lam = some l → ∀ x ∈ l.envmap, ∀ n, x.2 ≠ Source.iofArg n)
    (hm : makeClosure h lam ep bp st = .ok (h', c)) : OpRes h h' ∧ neE h' c = true := by
  unfold makeClosure at hm
  cases hl : lambdaAt h lam with
  | none => rw [hl] at hm; cases hm
  | some l =>
    rw [hl] at hm
    simp only at hm
    obtain ⟨slots, hsl, hm⟩ := bind_ok hm
    cases hm
    have hsn := closureSlots_ne l.envmap slots (hno l hl) hsl
    obtain ⟨r1, _⟩ := cput_res lf hp (c := .lexEnv slots) (fun lam hh => by cases hh)
      (by show slots.all (neE h) = true; rw [List.all_eq_true]; exact hsn)
    have hpr : allAtB (cput h (.lexEnv slots)).1 lam = true := rfl
    obtain ⟨r2, he2⟩ := cput_res r1.lf r1.hp (c := .val (.closure lam (cput h (.lexEnv slots)).2))
      (fun lam hh => by cases hh) hpr
    exact ⟨r1.trans r2, by simp only [neE_ptr, he2]; rfl⟩

/-! ## ENTER -/

theorem activationSlots_ne {h : CHeap} {env bp argc : Nat} {st : Stack}
    (hst : ∀ (i : Nat) (v : VCell), i ≤ bp + 1 → st.cells[i]? = some v → neE h v = true) :
    ∀ (em : List (VCell × Source)) (slot : Nat) (olds slots : List VCell), (∀ v ∈ olds, neE h v = true) →
      activationSlots env bp argc st slot olds em = .ok slots → ∀ v ∈ slots, neE h v = true := by
  intro em
  induction em with
  | nil =>
    intro slot olds slots ho hc v hv
    cases olds <;> (simp only [activationSlots] at hc; cases hc; exact ho v hv)
  | cons x rest ih =>
    intro slot olds slots ho hc v hv
    obtain ⟨sym, src⟩ := x
    cases olds with
    | nil => simp only [activationSlots] at hc; cases hc
    | cons old olds =>
      simp only [activationSlots] at hc
      obtain ⟨w, h1, hc⟩ := bind_ok hc
      obtain ⟨ws, h2, hc⟩ := bind_ok hc
      cases hc
      rcases List.mem_cons.mp hv with rfl | hv
      · have hold : neE h old = true := ho old (by simp)
        cases src with
        | arg a =>
          simp only [activationSlot] at h1
          obtain ⟨d, hd, h1⟩ := bind_ok h1
          obtain ⟨base, hb, h1⟩ := bind_ok h1
          obtain ⟨_, e2⟩ := usub_inv hb
          unfold Stack.get at h1
          split at h1
          · rename_i w hw; cases h1; exact hst _ _ (by omega) hw
          · cases h1
        | iofArg n =>
          simp only [activationSlot] at h1
          split at h1 <;> (cases h1; first | exact hold | rfl)
        | iofEnv n =>
          simp only [activationSlot] at h1
          split at h1 <;> (cases h1; first | exact hold | rfl)
        | global => simp only [activationSlot] at h1; cases h1; exact hold
        | internal => simp only [activationSlot] at h1; cases h1; exact hold
      · exact ih (slot + 1) olds ws (fun y hy => ho y (List.mem_cons_of_mem _ hy)) h2 v hv

theorem makeActivation_res {h h' : CHeap} (lf : LF h) (hp : HP h) {lam env bp : Nat} {st : Stack} {e : Nat}
    (hst : ∀ (i : Nat) (v : VCell), i ≤ bp + 1 → st.cells[i]? = some v → neE h v = true)
    (hm : makeActivation h lam env bp st = .ok (h', e)) : OpRes h h' := by
  unfold makeActivation at hm
  cases hl : lambdaAt h lam with
  | none => rw [hl] at hm; cases hm
  | some l =>
    rw [hl] at hm
    simp only at hm
    cases he : envAt h env with
    | none => rw [he] at hm; cases hm
    | some olds =>
      rw [he] at hm
      simp only at hm
      obtain ⟨slots, hsl, hm⟩ := bind_ok hm
      cases hm
      have hsn := activationSlots_ne hst l.envmap 0 olds slots (envAt_slots hp he) hsl
      exact (cput_res lf hp (c := .lexEnv slots) (fun lam hh => by cases hh)
        (by show slots.all (neE h) = true; rw [List.all_eq_true]; exact hsn)).1

/-! ## `call/cc` -/

theorem newCont_res {h : CHeap} (lf : LF h) (hp : HP h) {k : Cont} (hs : ∀ v ∈ k.stack.cells, neE h v = true) :
    OpRes h (cput h (.cont k)).1 ∧ capAt (cput h (.cont k)).1 (cput h (.cont k)).2 = false :=
  cput_res lf hp (c := .cont k) (fun lam hh => by cases hh)
    (by show k.stack.cells.all (neE h) = true; rw [List.all_eq_true]; exact hs)

/-- a continuation cell's stack copy -/
theorem cont_cells_ne {h : CHeap} (hp : HP h) {p : Nat} {k : Cont} (hc : h.cells[p]? = some (CCell.cont k)) :
    ∀ v ∈ k.stack.cells, neE h v = true := by
  have := hp.cells p _ hc
  have h2 : k.stack.cells.all (neE h) = true := this
  rw [List.all_eq_true] at h2
  exact h2

/-! ## reading a cell -/

/-- `heap.get(v)` of a value that does not point to a capturing lambda: what comes out may be stored in a `val` cell -/
theorem deref_valEB {h : CHeap} (hp : HP h) {v : VCell} (hpl : plainGlob v = true) (hn : neE h v = true) :
    valEB h (deref h v) = true := by
  cases v with
  | ptr p =>
    show valEB h (getAt h p) = true
    unfold getAt
    cases hc : h.cells[p]? with
    | none => rfl
    | some c =>
      cases c with
      | val w => exact hp.cells p _ hc
      | _ => rfl
  | _ => exact valEB_of_value hpl hn

/-! ## the law of the unmodelled operations -/

/-- the values that refer to allocated cells only and do not point to a capturing lambda still do not (what `eval`'s
    compiler guarantees: the capturing lambdas it creates are at fresh addresses) -/
def EKeep (h h' : CHeap) : Prop := ∀ v, VRefsOk h v → neE h v = true → neE h' v = true

theorem EShr.ekeep {h h' : CHeap} (es : EShr h h') : EKeep h h' := fun _ _ hv => es.neE hv

/-- **What the clauses need from the operations that are parameters of the concrete model** (`ExtOps`; a parameter,
    not an axiom): given a heap satisfying `HP` and `LF` and arguments that are values not pointing to a capturing
    lambda, the generic builtins and VPUSH's push create no capturing lambda (`EShr`: they create no lambda cell at
    all), return a heap satisfying `HP` and a result that does not lead to a capturing lambda (`valEB`: the value is
    then stored by `maybe_put`). `eval`'s compiler DOES create capturing lambdas (the children of the lambda it
    returns), at fresh addresses: values that referred to allocated cells are not affected (`EKeep`), the heap
    satisfies `HP` (the children are only referred to by `MOVIMM _ %acc; CLOSURE` sites) and the lambda returned
    (the top-level `ENTER … RET` with an empty environment map) is not capturing. -/
structure ExtTaint (ext : ExtOps) : Prop where
  eval : ∀ (h : CHeap) (id : Nat) (args : List VCell) (h' : CHeap) (v : VCell), HP h → LF h →
    (∀ a ∈ args, plainGlob a = true ∧ neE h a = true) →
    ext.builtinEval h id args = .ok (h', v) → HP h' ∧ EShr h h' ∧ valEB h' v = true
  compile : ∀ (h : CHeap) (d : VCell) (h' : CHeap) (v : VCell), HP h → LF h → valEB h d = true →
    ext.compileEval h d = .ok (h', v) → HP h' ∧ EKeep h h' ∧ valEB h' v = true
  vpush : ∀ (h : CHeap) (vec a : VCell) (h' : CHeap), HP h → LF h → plainGlob a = true →
    neE h a = true → ext.vectorPush h vec a = .ok h' → HP h' ∧ EShr h h'

end Marwood.Lemmas.Taint
