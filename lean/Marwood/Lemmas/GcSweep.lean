import Marwood.Heap.Invariant
/-!
# What `Heap::sweep` does, extensionally

`SweepSpec h h'`: per-cell state `Used ↦ Allocated`, `Allocated ↦ Free`, `Free ↦ Free`; cells that were
`Allocated` become `Undefined` and are pushed on the free list; the symbol table loses exactly the
names held by freed symbol cells. Proved for the faithful index loop (`sweepFrom` over `0..len`).
-/
namespace Marwood.Lemmas.GcSweep
open Marwood Marwood.Heap
open Classical

def sweptState : GcState → GcState
  | .used => .allocated
  | _ => .free

/-! ## symbol table lookups -/

theorem lookup_remove (tab : List (Text × Nat)) (n name : Text) :
    ((Heap.symRemove tab n).find? (·.1 = name)).map (·.2) =
      if name = n then none else (tab.find? (·.1 = name)).map (·.2) := by
  unfold Heap.symRemove
  induction tab with
  | nil => simp
  | cons e tab ih =>
    by_cases hn : name = n <;> by_cases he : e.1 = n <;> by_cases hen : e.1 = name <;>
      simp_all [List.filter_cons, List.find?_cons]

theorem lookup_insert (tab : List (Text × Nat)) (n name : Text) (p : Nat) :
    ((Heap.symInsert tab n p).find? (·.1 = name)).map (·.2) =
      if name = n then some p else (tab.find? (·.1 = name)).map (·.2) := by
  unfold Heap.symInsert
  by_cases hn : name = n
  · simp [List.find?_cons, hn]
  · have : ¬ n = name := fun h => hn h.symm
    simp only [List.find?_cons, this, decide_false, hn, if_false]
    have := lookup_remove tab n name
    simp only [Heap.symRemove, hn, if_false] at this
    exact this

/-! ## one iteration -/

structure StepSpec (h h1 : Heap) (i : Nat) : Prop where
  chunk : h1.chunk = h.chunk
  gcsize : h1.gc.size = h.gc.size
  csize : h1.cells.size = h.cells.size
  gc : ∀ j : Nat, h1.gc[j]? = if j = i then (h.gc[i]?).map sweptState else h.gc[j]?
  cells : ∀ j : Nat, h1.cells[j]? =
    if j = i ∧ h.gc[i]? = some GcState.allocated then some VCell.undefined else h.cells[j]?
  free : h1.free = if h.gc[i]? = some GcState.allocated then i :: h.free else h.free
  sym : ∀ name, h1.symLookup name =
    if h.gc[i]? = some GcState.allocated ∧ h.cells[i]? = some (VCell.symbol name) then none
    else h.symLookup name

theorem sweepStep_spec (h : Heap) (i : Nat) (hsz : h.gc.size = h.cells.size) (hi : i < h.gc.size) :
    ∃ h1, Heap.sweepStep h i = .ok h1 ∧ StepSpec h h1 i := by
  have hget : h.gc[i]? = some h.gc[i] := Array.getElem?_eq_getElem hi
  unfold Heap.sweepStep
  rw [hget]
  cases hst : h.gc[i] with
  | free =>
    refine ⟨h, rfl, ⟨rfl, rfl, rfl, ?_, ?_, ?_, ?_⟩⟩
    · intro j
      by_cases hj : j = i
      · subst hj; simp [hget, hst, sweptState]
      · simp [hj]
    · intro j; simp [hget, hst]
    · simp [hget, hst]
    · intro name; simp [hget, hst]
  | used =>
    refine ⟨{ h with gc := h.gc.setIfInBounds i .allocated }, ?_, ⟨rfl, ?_, rfl, ?_, ?_, ?_, ?_⟩⟩
    · simp [Heap.setState, hi]
    · simp
    · intro j
      by_cases hj : j = i
      · subst hj; simp [hget, hst, sweptState, hi]
      · simp [hj, Array.getElem?_setIfInBounds_ne (Ne.symm hj)]
    · intro j; simp [hget, hst]
    · simp [hget, hst]
    · intro name; simp [hget, hst, Heap.symLookup]
  | allocated =>
    have hic : i < h.cells.size := hsz ▸ hi
    simp only [Heap.free', Heap.setState, hi, if_true]
    simp only [bind, Except.bind, hic, if_true]
    refine ⟨_, rfl, ⟨rfl, ?_, ?_, ?_, ?_, ?_, ?_⟩⟩
    · simp
    · simp
    · intro j
      by_cases hj : j = i
      · subst hj; simp [hget, hst, sweptState, hi]
      · simp [hj, Array.getElem?_setIfInBounds_ne (Ne.symm hj)]
    · intro j
      by_cases hj : j = i
      · subst hj; simp [hget, hst, hic]
      · simp [hj, Array.getElem?_setIfInBounds_ne (Ne.symm hj)]
    · simp [hget, hst]
    · intro name
      simp only [Heap.symLookup, Heap.freeTab, hget, hst, true_and]
      cases hc : h.cells[i]? with
      | none => simp
      | some c =>
        cases c with
        | symbol n =>
          simp only [lookup_remove]
          by_cases hn : name = n
          · simp [hn]
          · have : ¬ n = name := fun h => hn h.symm
            simp [hn, this]
        | _ => simp

/-! ## the loop -/

structure FoldSpec (l : List Nat) (h h' : Heap) : Prop where
  chunk : h'.chunk = h.chunk
  gcsize : h'.gc.size = h.gc.size
  csize : h'.cells.size = h.cells.size
  gc : ∀ j : Nat, h'.gc[j]? = if j ∈ l then (h.gc[j]?).map sweptState else h.gc[j]?
  cells : ∀ j : Nat, h'.cells[j]? =
    if j ∈ l ∧ h.gc[j]? = some GcState.allocated then some VCell.undefined else h.cells[j]?
  free : h'.free = (l.filter fun j => h.gc[j]? = some GcState.allocated).reverse ++ h.free
  sym : ∀ name, h'.symLookup name =
    if ∃ j ∈ l, h.gc[j]? = some GcState.allocated ∧ h.cells[j]? = some (VCell.symbol name) then none
    else h.symLookup name

theorem sweepFrom_spec : ∀ (l : List Nat) (h : Heap), h.gc.size = h.cells.size → l.Nodup →
    (∀ i ∈ l, i < h.gc.size) → ∃ h', Heap.sweepFrom h l = .ok h' ∧ FoldSpec l h h' := by
  intro l
  induction l with
  | nil =>
    intro h _ _ _
    exact ⟨h, rfl, ⟨rfl, rfl, rfl, by simp, by simp, by simp, by simp⟩⟩
  | cons i l ih =>
    intro h hsz hnd hlt
    obtain ⟨h1, hs1, sp1⟩ := sweepStep_spec h i hsz (hlt i List.mem_cons_self)
    have hnd' := List.nodup_cons.mp hnd
    obtain ⟨h', hs', sp'⟩ := ih h1 (by rw [sp1.gcsize, sp1.csize]; exact hsz) hnd'.2
      (by intro j hj; rw [sp1.gcsize]; exact hlt j (List.mem_cons_of_mem _ hj))
    refine ⟨h', ?_, ?_⟩
    · simp only [Heap.sweepFrom, hs1, bind, Except.bind]; exact hs'
    · have hgc1 : ∀ j ∈ l, h1.gc[j]? = h.gc[j]? := by
        intro j hj
        have : j ≠ i := fun e => hnd'.1 (e ▸ hj)
        rw [sp1.gc j]; simp [this]
      have hc1 : ∀ j ∈ l, h1.cells[j]? = h.cells[j]? := by
        intro j hj
        have : j ≠ i := fun e => hnd'.1 (e ▸ hj)
        rw [sp1.cells j]; simp [this]
      refine ⟨by rw [sp'.chunk, sp1.chunk], by rw [sp'.gcsize, sp1.gcsize],
        by rw [sp'.csize, sp1.csize], ?_, ?_, ?_, ?_⟩
      · intro j
        rw [sp'.gc j]
        by_cases hjl : j ∈ l
        · simp [hjl, hgc1 j hjl]
        · by_cases hji : j = i
          · subst hji; simp [hjl, sp1.gc j]
          · simp [hjl, hji, sp1.gc j]
      · intro j
        rw [sp'.cells j]
        by_cases hjl : j ∈ l
        · simp [hjl, hgc1 j hjl, hc1 j hjl]
        · by_cases hji : j = i
          · subst hji; simp [hjl, sp1.cells j]
          · simp [hjl, hji, sp1.cells j]
      · rw [sp'.free, sp1.free]
        have hfl : (l.filter fun j => h1.gc[j]? = some GcState.allocated) =
            (l.filter fun j => h.gc[j]? = some GcState.allocated) := by
          apply List.filter_congr
          intro j hj; rw [hgc1 j hj]
        rw [hfl]
        by_cases hia : h.gc[i]? = some GcState.allocated
        · simp [hia, List.filter_cons]
        · simp [hia, List.filter_cons]
      · intro name
        rw [sp'.sym name, sp1.sym name]
        by_cases hex : ∃ j ∈ l, h.gc[j]? = some GcState.allocated ∧ h.cells[j]? = some (VCell.symbol name)
        · have hex1 : ∃ j ∈ l, h1.gc[j]? = some GcState.allocated ∧ h1.cells[j]? = some (VCell.symbol name) := by
            obtain ⟨j, hj, h2, h3⟩ := hex
            exact ⟨j, hj, by rw [hgc1 j hj]; exact h2, by rw [hc1 j hj]; exact h3⟩
          have hex2 : ∃ j ∈ i :: l, h.gc[j]? = some GcState.allocated ∧ h.cells[j]? = some (VCell.symbol name) := by
            obtain ⟨j, hj, h2⟩ := hex
            exact ⟨j, List.mem_cons_of_mem _ hj, h2⟩
          rw [if_pos hex1, if_pos hex2]
        · have hex1 : ¬ ∃ j ∈ l, h1.gc[j]? = some GcState.allocated ∧ h1.cells[j]? = some (VCell.symbol name) := by
            rintro ⟨j, hj, h2, h3⟩
            exact hex ⟨j, hj, by rw [← hgc1 j hj]; exact h2, by rw [← hc1 j hj]; exact h3⟩
          rw [if_neg hex1]
          by_cases hi' : h.gc[i]? = some GcState.allocated ∧ h.cells[i]? = some (VCell.symbol name)
          · rw [if_pos hi', if_pos ⟨i, List.mem_cons_self, hi'⟩]
          · rw [if_neg hi']
            have : ¬ ∃ j ∈ i :: l, h.gc[j]? = some GcState.allocated ∧ h.cells[j]? = some (VCell.symbol name) := by
              rintro ⟨j, hj, h2⟩
              rcases List.mem_cons.mp hj with e | e
              · subst e; exact hi' h2
              · exact hex ⟨j, e, h2⟩
            rw [if_neg this]

/-! ## the whole sweep -/

structure SweepSpec (h h' : Heap) : Prop where
  chunk : h'.chunk = h.chunk
  gcsize : h'.gc.size = h.gc.size
  csize : h'.cells.size = h.cells.size
  gc : ∀ j : Nat, h'.gc[j]? = (h.gc[j]?).map sweptState
  cells : ∀ j : Nat, h'.cells[j]? =
    if h.gc[j]? = some GcState.allocated then some VCell.undefined else h.cells[j]?
  free : h'.free =
    ((List.range h.cells.size).filter fun j => h.gc[j]? = some GcState.allocated).reverse ++ h.free
  sym : ∀ name, h'.symLookup name =
    if ∃ j : Nat, h.gc[j]? = some GcState.allocated ∧ h.cells[j]? = some (VCell.symbol name) then none
    else h.symLookup name

theorem sweep_spec (h : Heap) (hsz : h.gc.size = h.cells.size) :
    ∃ h', Heap.sweep h = .ok h' ∧ SweepSpec h h' := by
  obtain ⟨h', hs, sp⟩ := sweepFrom_spec (List.range h.cells.size) h hsz List.nodup_range
    (by intro i hi; rw [hsz]; exact List.mem_range.mp hi)
  refine ⟨h', hs, ⟨sp.chunk, sp.gcsize, sp.csize, ?_, ?_, sp.free, ?_⟩⟩
  · intro j
    rw [sp.gc j]
    by_cases hj : j < h.cells.size
    · simp [List.mem_range, hj]
    · have : h.gc[j]? = none := Array.getElem?_eq_none (by omega)
      simp [List.mem_range, hj, this]
  · intro j
    rw [sp.cells j]
    by_cases hj : j < h.cells.size
    · simp [List.mem_range, hj]
    · have : h.gc[j]? = none := Array.getElem?_eq_none (by omega)
      simp [List.mem_range, hj, this]
  · intro name
    rw [sp.sym name]
    have : (∃ j ∈ List.range h.cells.size, h.gc[j]? = some GcState.allocated ∧ h.cells[j]? = some (VCell.symbol name))
        ↔ ∃ j : Nat, h.gc[j]? = some GcState.allocated ∧ h.cells[j]? = some (VCell.symbol name) := by
      constructor
      · rintro ⟨j, _, h2⟩; exact ⟨j, h2⟩
      · rintro ⟨j, h2, h3⟩
        refine ⟨j, ?_, h2, h3⟩
        rw [List.mem_range]
        rcases Array.getElem?_eq_some_iff.mp h3 with ⟨hlt, _⟩; exact hlt
    simp only [this]

end Marwood.Lemmas.GcSweep
