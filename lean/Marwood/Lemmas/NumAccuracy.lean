import Marwood.Lemmas.NumIndep
import Marwood.Lemmas.NumRnd
import Marwood.Lemmas.NumFlOps
/-!
# Accuracy of the inexact answers of `expt`, `abs`, `+` and `−` (T08.2, second conjunct)

The model's fall-backs are `Fl.rnd` of the exact result, so the proved rounding facts apply:
within the doubles' normal range the answer is finite and within 2⁻⁵³ relative (the property
allows 2⁻⁵⁰).
-/
namespace Marwood.Fl
theorem rnd_bits_lt (q : ℚ) : (rnd q).bits < 2 ^ 64 := by
  have hi : infBits < twoP63 := infBits_lt
  rcases lt_trichotomy q 0 with h | h | h
  · rw [rnd_neg h]
    have := rndMag_le (-q).num.toNat (-q).den
    show twoP63 + _ < 2 ^ 64
    unfold twoP63 at hi ⊢; omega
  · rw [h, rnd_zero]; decide
  · rw [rnd_pos h]
    have := rndMag_le q.num.toNat q.den
    show rndMag _ _ < 2 ^ 64
    unfold twoP63 at hi; omega
end Marwood.Fl

namespace Marwood.Arith
open Marwood Marwood.NumSpec

theorem mkRat_toNat {n d : Int} (hd : 0 < d) : mkRat n d.toNat = (n : ℚ) / d := by
  rw [Rat.mkRat_eq_div]
  have : ((d.toNat : ℕ) : ℤ) = d := Int.toNat_of_nonneg hd.le
  have : ((d.toNat : ℕ) : ℚ) = (d : ℚ) := by exact_mod_cast congrArg (fun z : ℤ => (z : ℚ)) this
  rw [this]

/-- an inexact `expt` is the correctly rounded exact power: finite and within 2⁻⁵³ relative when
    the exact power lies in the doubles' normal range -/
theorem pow_inexact_accurate (a : Num) (ha : a.WF = true) (e : Nat) {r : Num}
    (h : pow a e = some r) (he : isExact r = false) {x : ℚ} (hx : val a = some x)
    (hlo : (2 : ℚ) ^ (-1022 : ℤ) ≤ |x ^ e|) (hhi : |x ^ e| < 2 ^ (1023 : ℤ)) :
    ∃ v, val r = some v ∧ |v - x ^ e| ≤ 2 ^ (-53 : ℤ) * |x ^ e| := by
  cases a with
  | flo f => cases h
  | fix n => simp only [pow, Option.some.injEq] at h; subst h; rw [isExact_powFix] at he; cases he
  | big n => simp only [pow, Option.some.injEq] at h; subst h; cases he
  | rat n d =>
    have hd := wf_rat_pos ha
    simp only [val, Option.some.injEq] at hx; subst hx
    simp only [pow] at h
    split at h
    · cases h; cases he
    · split at h
      · cases h; rw [isExact_powFix] at he; cases he
      · split at h
        · cases h
          rw [mkRat_toNat hd]
          exact Fl.rnd_relerr _ hlo hhi
        · cases h

/-- an inexact `abs` (of `-2147483648/d`, `d > 1`) is finite and within 2⁻⁵³ relative -/
theorem abs_inexact_accurate (a : Num) (ha : a.WF = true) {r : Num} (h : abs a = some r)
    (he : isExact r = false) :
    ∃ x v, val a = some x ∧ val r = some v ∧ |v - absR x| ≤ 2 ^ (-53 : ℤ) * absR x := by
  cases a with
  | flo f => cases h
  | fix n => simp only [abs, Option.some.injEq] at h; subst h; split at he <;> cases he
  | big n => simp only [abs, Option.some.injEq] at h; subst h; cases he
  | rat n d =>
    have hd := wf_rat_pos ha
    have hq : (0 : ℚ) < d := by exact_mod_cast hd
    obtain ⟨hn32, hd32⟩ := wf_rat_i32 ha
    have hn32 := (inI32_iff n).mp hn32
    have hd32 := (inI32_iff d).mp hd32
    simp only [abs, Option.some.injEq] at h; subst h
    cases hc : chk32 (if n < 0 then -n else n) with
    | some m => rw [hc] at he; cases he
    | none =>
      rw [hc] at he
      simp only at he ⊢
      have hd1 : ¬ (d == 1) = true := by
        intro h1; rw [if_pos h1] at he; cases he
      rw [if_neg hd1]
      have hneg : n < 0 := by
        by_contra hn
        simp only [hn, if_false] at hc
        rw [chk32_of (wf_rat_i32 ha).1] at hc; cases hc
      have hnmin : n = -2147483648 := by
        simp only [hneg, if_true] at hc
        have : inI32 (-n) = false := by
          unfold chk32 at hc; split at hc
          · cases hc
          · rename_i hh; simpa using hh
        have h2 : ¬ (-2147483648 ≤ -n ∧ -n ≤ 2147483647) := by
          intro hh; rw [(inI32_iff (-n)).mpr hh] at this; cases this
        omega
      have hxneg : (n : ℚ) / d < 0 := by
        have hnq : (n : ℚ) < 0 := by exact_mod_cast hneg
        rw [div_lt_iff₀ hq]; linarith
      refine ⟨(n : ℚ) / d, ?_⟩
      have habs : absR ((n : ℚ) / d) = -((n : ℚ) / d) := by unfold absR; rw [if_pos hxneg]
      have hofr : Fl.ofRatio n d = Fl.rnd ((n : ℚ) / d) := by unfold Fl.ofRatio; rw [mkRat_toNat hd]
      rw [habs]
      -- 1 ≤ |x| ≤ 2^31: inside the normal range
      have hlo : (2 : ℚ) ^ (-1022 : ℤ) ≤ |(-((n : ℚ) / d))| := by
        rw [abs_of_pos (by linarith)]
        calc (2 : ℚ) ^ (-1022 : ℤ) ≤ 2 ^ (0 : ℤ) := Fl.two_zpow_mono (by norm_num)
          _ = 1 := by norm_num
          _ ≤ -((n : ℚ) / d) := by
            rw [← neg_div, le_div_iff₀ hq, hnmin]
            have : (d : ℚ) ≤ 2147483647 := by exact_mod_cast hd32.2
            push_cast; linarith
      have hhi : |(-((n : ℚ) / d))| < 2 ^ (1023 : ℤ) := by
        rw [abs_of_pos (by linarith)]
        calc -((n : ℚ) / d) ≤ 2147483648 := by
              rw [← neg_div, div_le_iff₀ hq, hnmin]
              have : (1 : ℚ) ≤ d := by exact_mod_cast hd
              push_cast; nlinarith
          _ < 2 ^ (32 : ℤ) := by norm_num
          _ ≤ 2 ^ (1023 : ℤ) := Fl.two_zpow_mono (by norm_num)
      obtain ⟨v, hv, herr⟩ := Fl.rnd_relerr _ hlo hhi
      refine ⟨v, rfl, ?_, ?_⟩
      · simp only [val]; rw [hofr, Fl.abs_rnd_neg hxneg]; exact hv
      · rw [abs_of_pos (by linarith : (0 : ℚ) < -((n : ℚ) / d))] at herr; exact herr

/-! ## the float fall-backs of `+` and `−` -/

/-- the double an exact operand is converted to by a fall-back is the rounded value -/
theorem toF_exact {a : Num} (ha : a.WF = true) (hea : isExact a = true) {x : ℚ}
    (hx : val a = some x) : toF a = Fl.rnd x := by
  cases a with
  | flo f => cases hea
  | fix n => simp only [val, Option.some.injEq] at hx; subst hx; rfl
  | big n => simp only [val, Option.some.injEq] at hx; subst hx; rfl
  | rat n d =>
    simp only [val, Option.some.injEq] at hx; subst hx
    show Fl.ofRatio n d = _
    unfold Fl.ofRatio; rw [mkRat_toNat (wf_rat_pos ha)]

theorem ratArm_inexact {q : Option Ratio} {fb : Num} (h : isExact (ratArm q fb) = false) :
    ratArm q fb = fb := by
  cases q with
  | none => rfl
  | some r => simp [ratArm, ofRatio, isExact] at h

/-- an inexact sum of exact operands is the double sum of the converted operands -/
theorem add_inexact_form (a b : Num) (hea : isExact a = true) (heb : isExact b = true)
    (he : isExact (add a b) = false) :
    add a b = .flo (Fl.add (toF a) (toF b)) ∨ add a b = .flo (Fl.add (toF b) (toF a)) := by
  generalize hr : add a b = r at he ⊢
  cases a <;> cases b <;> first | (cases hea; done) | (cases heb; done) | skip
  all_goals simp only [add] at hr
  all_goals first
    | (subst hr; cases he; done)
    | (split at hr <;> subst hr <;> cases he; done)
    | (subst hr; exact Or.inl (ratArm_inexact he))
    | (split at hr
       · subst hr; exact Or.inl (ratArm_inexact he)
       · subst hr; exact Or.inl rfl)
    | (split at hr
       · subst hr; cases he
       · subst hr; first | exact Or.inl rfl | exact Or.inr rfl)

theorem sub_inexact_form (a b : Num) (hea : isExact a = true) (heb : isExact b = true)
    (he : isExact (sub a b) = false) : sub a b = .flo (Fl.sub (toF a) (toF b)) := by
  generalize hr : sub a b = r at he ⊢
  cases a <;> cases b <;> first | (cases hea; done) | (cases heb; done) | skip
  all_goals simp only [sub] at hr
  all_goals first
    | (subst hr; cases he; done)
    | (split at hr <;> subst hr <;> cases he; done)
    | (subst hr; exact ratArm_inexact he)
    | (split at hr
       · subst hr; exact ratArm_inexact he
       · subst hr; rfl)
    | (split at hr
       · subst hr; cases he
       · subst hr; rfl)

/-- the common arithmetic: two operands rounded (standard model), their exact sum rounded again -/
theorem two_step_bound {x y xt yt v M : ℚ}
    (hxM : |x| ≤ M) (hyM : |y| ≤ M) (hsM : |x + y| ≤ M) (hM : (2 : ℚ) ^ (-1022 : ℤ) ≤ M)
    (h1 : |xt - x| ≤ Fl.uro * |x| + Fl.eta) (h2 : |yt - y| ≤ Fl.uro * |y| + Fl.eta)
    (h3 : |v - (xt + yt)| ≤ Fl.uro * |xt + yt| + Fl.eta) :
    |v - (x + y)| ≤ 2 ^ (-50 : ℤ) * M := by
  have hu : Fl.uro = 2 ^ (-53 : ℤ) := rfl
  have hupos : 0 < Fl.uro := Fl.two_zpow_pos _
  have hu4 : Fl.uro ≤ 1 / 4 := by
    rw [hu]; calc (2 : ℚ) ^ (-53 : ℤ) ≤ 2 ^ (-2 : ℤ) := Fl.two_zpow_mono (by norm_num)
      _ = 1 / 4 := by norm_num
  have hepos : 0 < Fl.eta := Fl.two_zpow_pos _
  have hM0 : 0 ≤ M := le_trans (abs_nonneg x) hxM
  -- eta = u * 2^-1022 ≤ u * M
  have heta : Fl.eta ≤ Fl.uro * M := by
    have : Fl.eta = Fl.uro * 2 ^ (-1022 : ℤ) := by
      unfold Fl.eta Fl.uro; rw [← Fl.two_zpow_add]; norm_num
    rw [this]; exact mul_le_mul_of_nonneg_left hM hupos.le
  have h50 : (2 : ℚ) ^ (-50 : ℤ) = 8 * Fl.uro := by
    rw [hu, show (-50 : ℤ) = 3 + -53 by norm_num, Fl.two_zpow_add]; norm_num
  have huM : 0 ≤ Fl.uro * M := mul_nonneg hupos.le hM0
  have a1 : Fl.uro * |x| ≤ Fl.uro * M := mul_le_mul_of_nonneg_left hxM hupos.le
  have a2 : Fl.uro * |y| ≤ Fl.uro * M := mul_le_mul_of_nonneg_left hyM hupos.le
  -- |xt + yt| ≤ M + 2uM + 2eta
  have b1 := abs_le.mp (le_trans h1 (by linarith : Fl.uro * |x| + Fl.eta ≤ Fl.uro * M + Fl.eta))
  have b2 := abs_le.mp (le_trans h2 (by linarith : Fl.uro * |y| + Fl.eta ≤ Fl.uro * M + Fl.eta))
  have bs := abs_le.mp hsM
  have hst : |xt + yt| ≤ M + 2 * (Fl.uro * M) + 2 * Fl.eta := by
    rw [abs_le]; constructor <;> linarith [b1.1, b1.2, b2.1, b2.2, bs.1, bs.2]
  have c1 : Fl.uro * |xt + yt| ≤ Fl.uro * (M + 2 * (Fl.uro * M) + 2 * Fl.eta) :=
    mul_le_mul_of_nonneg_left hst hupos.le
  have c2 : Fl.uro * (Fl.uro * M) ≤ 1 / 4 * (Fl.uro * M) := mul_le_mul_of_nonneg_right hu4 huM
  have c3 : Fl.uro * Fl.eta ≤ 1 / 4 * Fl.eta := mul_le_mul_of_nonneg_right hu4 hepos.le
  have b3 := abs_le.mp (le_trans h3 (by linarith :
    Fl.uro * |xt + yt| + Fl.eta ≤ Fl.uro * (M + 2 * (Fl.uro * M) + 2 * Fl.eta) + Fl.eta))
  rw [h50, abs_le]
  have e : Fl.uro * (M + 2 * (Fl.uro * M) + 2 * Fl.eta)
      = Fl.uro * M + 2 * (Fl.uro * (Fl.uro * M)) + 2 * (Fl.uro * Fl.eta) := by ring
  rw [e] at b3
  constructor <;> linarith [b1.1, b1.2, b2.1, b2.2, b3.1, b3.2]

theorem lt_1023_of_lt_1000 {x y : ℚ} (hx : |x| < 2 ^ (1000 : ℤ)) (hy : |y| < 2 ^ (1000 : ℤ)) :
    |x| < 2 ^ (1023 : ℤ) ∧ |y| < 2 ^ (1023 : ℤ) ∧
    ∀ xt yt, |xt - x| ≤ Fl.uro * |x| + Fl.eta → |yt - y| ≤ Fl.uro * |y| + Fl.eta →
      |xt + yt| < 2 ^ (1023 : ℤ) := by
  have hA1 : (1 : ℚ) ≤ 2 ^ (1000 : ℤ) := by
    calc (1 : ℚ) = 2 ^ (0 : ℤ) := by norm_num
      _ ≤ 2 ^ (1000 : ℤ) := Fl.two_zpow_mono (by norm_num)
  have h23 : (2 : ℚ) ^ (1023 : ℤ) = 8388608 * 2 ^ (1000 : ℤ) := by
    rw [show (1023 : ℤ) = 23 + 1000 by norm_num, Fl.two_zpow_add]; norm_num
  have hu1 : Fl.uro ≤ 1 := by
    calc Fl.uro = 2 ^ (-53 : ℤ) := rfl
      _ ≤ 2 ^ (0 : ℤ) := Fl.two_zpow_mono (by norm_num)
      _ = 1 := by norm_num
  have he1 : Fl.eta ≤ 1 := by
    calc Fl.eta = 2 ^ (-1075 : ℤ) := rfl
      _ ≤ 2 ^ (0 : ℤ) := Fl.two_zpow_mono (by norm_num)
      _ = 1 := by norm_num
  have hupos : 0 < Fl.uro := Fl.two_zpow_pos _
  generalize (2 : ℚ) ^ (1023 : ℤ) = B at *
  generalize (2 : ℚ) ^ (1000 : ℤ) = A at *
  subst h23
  refine ⟨by linarith, by linarith, ?_⟩
  intro xt yt h1 h2
  have a1 : Fl.uro * |x| ≤ 1 * |x| := mul_le_mul_of_nonneg_right hu1 (abs_nonneg _)
  have a2 : Fl.uro * |y| ≤ 1 * |y| := mul_le_mul_of_nonneg_right hu1 (abs_nonneg _)
  have b1 := abs_le.mp h1
  have b2 := abs_le.mp h2
  have bx := abs_le.mp (le_refl |x|)
  have by' := abs_le.mp (le_refl |y|)
  rw [abs_lt]
  constructor <;> linarith [b1.1, b1.2, b2.1, b2.2, bx.1, bx.2, by'.1, by'.2]

/-- T08.2 (second conjunct) for `+`: an inexact sum of exact operands of magnitude below 2¹⁰⁰⁰ is
    finite and within 2⁻⁵⁰·max(|x|, |y|, |x+y|) of the exact sum. -/
theorem add_inexact_accurate (a b : Num) (ha : a.WF = true) (hb : b.WF = true)
    (hea : isExact a = true) (heb : isExact b = true) {x y : ℚ} (hx : val a = some x)
    (hy : val b = some y) (hmx : |x| < 2 ^ (1000 : ℤ)) (hmy : |y| < 2 ^ (1000 : ℤ))
    (hM : (2 : ℚ) ^ (-1022 : ℤ) ≤ max |x| (max |y| |x + y|))
    (he : isExact (add a b) = false) :
    ∃ v, val (add a b) = some v ∧ |v - (x + y)| ≤ 2 ^ (-50 : ℤ) * max |x| (max |y| |x + y|) := by
  obtain ⟨hx3, hy3, hsum⟩ := lt_1023_of_lt_1000 hmx hmy
  obtain ⟨xt, hxt, ex⟩ := Fl.rnd_err x hx3
  obtain ⟨yt, hyt, ey⟩ := Fl.rnd_err y hy3
  have hxM : |x| ≤ max |x| (max |y| |x + y|) := le_max_left _ _
  have hyM : |y| ≤ max |x| (max |y| |x + y|) := le_trans (le_max_left _ _) (le_max_right _ _)
  have hsM : |x + y| ≤ max |x| (max |y| |x + y|) := le_trans (le_max_right _ _) (le_max_right _ _)
  rcases add_inexact_form a b hea heb he with hf | hf
  · rw [hf, toF_exact ha hea hx, toF_exact hb heb hy]
    obtain ⟨v, hv, ev⟩ := Fl.add_val hxt hyt (hsum xt yt ex ey)
    exact ⟨v, hv, two_step_bound hxM hyM hsM hM ex ey ev⟩
  · rw [hf, toF_exact ha hea hx, toF_exact hb heb hy]
    obtain ⟨v, hv, ev⟩ := Fl.add_val hyt hxt (by rw [add_comm]; exact hsum xt yt ex ey)
    refine ⟨v, hv, ?_⟩
    rw [add_comm yt xt] at ev
    exact two_step_bound hxM hyM hsM hM ex ey ev

/-- T08.2 (second conjunct) for `−` -/
theorem sub_inexact_accurate (a b : Num) (ha : a.WF = true) (hb : b.WF = true)
    (hea : isExact a = true) (heb : isExact b = true) {x y : ℚ} (hx : val a = some x)
    (hy : val b = some y) (hmx : |x| < 2 ^ (1000 : ℤ)) (hmy : |y| < 2 ^ (1000 : ℤ))
    (hM : (2 : ℚ) ^ (-1022 : ℤ) ≤ max |x| (max |y| |x - y|))
    (he : isExact (sub a b) = false) :
    ∃ v, val (sub a b) = some v ∧ |v - (x - y)| ≤ 2 ^ (-50 : ℤ) * max |x| (max |y| |x - y|) := by
  have hmy' : |(-y)| < 2 ^ (1000 : ℤ) := by rw [abs_neg]; exact hmy
  obtain ⟨hx3, hy3, hsum⟩ := lt_1023_of_lt_1000 hmx hmy'
  obtain ⟨xt, hxt, ex⟩ := Fl.rnd_err x hx3
  obtain ⟨yt, hyt, ey⟩ := Fl.rnd_err y (by rw [abs_neg] at hy3; exact hy3)
  have hneg : Fl.toRat? (Fl.neg (Fl.rnd y)) = some (-yt) := Fl.neg_val (Fl.rnd_bits_lt y) hyt
  have ey' : |(-yt) - (-y)| ≤ Fl.uro * |(-y)| + Fl.eta := by
    rw [abs_neg, show -yt - -y = -(yt - y) by ring, abs_neg]; exact ey
  have hxM : |x| ≤ max |x| (max |y| |x - y|) := le_max_left _ _
  have hyM : |(-y)| ≤ max |x| (max |y| |x - y|) := by
    rw [abs_neg]; exact le_trans (le_max_left _ _) (le_max_right _ _)
  have hsM : |x + -y| ≤ max |x| (max |y| |x - y|) := by
    rw [← sub_eq_add_neg]; exact le_trans (le_max_right _ _) (le_max_right _ _)
  rw [sub_inexact_form a b hea heb he, toF_exact ha hea hx, toF_exact hb heb hy]
  obtain ⟨v, hv, ev⟩ := Fl.add_val hxt hneg (hsum xt (-yt) ex ey')
  refine ⟨v, hv, ?_⟩
  have := two_step_bound hxM hyM hsM hM ex ey' ev
  rwa [← sub_eq_add_neg] at this

end Marwood.Arith
