import Marwood.Lemmas.CompileCorrect3Main
import Marwood.Lemmas.CompileCorrect3ErrBlock
/-!
# T01.3 stage 3, ERROR case — applications, the failing closure call, the induction

`compileExpr_correct3_err`: for `e ∈ F3`, if `Spec.Eval` ends the evaluation of `e` in `ρ` from `σ` with the error
class `cl ≠ syntax` in state `σ'`, the machine run of the compiled code reaches — without failing before, through
any number of closure calls and tail calls — a state in which `run_one` returns an error of the class of `cl`; the
heap of that state represents `σ'` (in a world extending the start's), and the live stack of the start state (in
tail position: of the caller of the current activation) is intact below whatever the calls in progress have pushed.
Classes: unbound global variable (`VariableNotBound`), not a procedure (`InvalidProcedure`), wrong number of
arguments to a closure (`InvalidNumArgs`, raised by `ENTER`, or by `VARARG` for a procedure with a rest parameter),
a failing primitive (law `ErrLaws3.call_err`). The failure may occur in the initialiser of an internal definition,
or after any number of internal definitions (single ones and blocks of `lambda`-initialised ones).
-/
namespace Marwood.Lemmas.CompileCorrect3
open Marwood Marwood.Vm Marwood.Lemmas.CompileCorrect Marwood.Lemmas.CompileCorrect2
open Marwood.Spec.Eval (Val Prim Cell Env ErrClass evalN evalStep applyStep evalArgs properList quoteVal kwOf insertG
  k_quote k_if_ k_setBang k_define k_lambda)

variable {H : Type} {ops : HeapOps H} {D : RepData2 ops}

/-- a failing application: an operand, the operator, or the call -/
theorem err3_app (L : Laws3 D) (LE : ErrLaws3 D) {n : Nat} (ih : ExprOK3 D n) (ihe : ExprErr3NT D n)
    (ihce : CallErr3 D n)
    {f : Nat} {cst cst' : CState} {c : Ctx} {base : Nat} {tail : Bool} {fn args : Datum} {code : List BC} {ρ : Env}
    {us : Text → Prop}
    (hh : AppHead fn) (hff : F3 D.setG f c (bound ρ) us false fn) (hfr : F3L D.setG f c (bound ρ) us args)
    (hcx : CtxOK c)
    (hcomp : compileExpr (f + 1) cst c base tail (.pair fn args) = .ok (cst', code))
    (hpre : cst'.lambdas <+: D.final) {σ σ' : SSt} {cl : ErrClass}
    (hev : evalStep (evalN n) (.pair fn args) ρ σ = .err cl σ') (hcs : cl ≠ .syntax)
    {W : World} {s : MSt H} {fr : Frame}
    (hc : CodeAt2 D c.envmap s.heap σ.store s.ipL base code) (hip : s.ipO = base)
    (hi : Inv3 D W s.heap σ) (her : EnvRep3 ops W s.heap c s.ep ρ us) (hw : SWF s.stack)
    (hfrm : tail = true → FrameAt s.stack s.bp fr) :
    ∃ W' sf e', W.le W' ∧ ErrRun3 D W' s (errBase tail s fr) σ σ' cl sf e' := by
  obtain ⟨cst1, code1, k, pcode, hca, hcf, hcode⟩ := compile_app_inv2 hh hcomp
  subst hcode
  subst hip
  have hcA := hc.left.left.left
  have hcP := hc.left.left.right
  have hcF := hc.left.right
  have hcC := hc.right
  have hpre1 : cst1.lambdas <+: D.final := ((monoOK3 _ f).1 _ _ _ _ _ _ _ _ _ hff hcf).trans hpre
  rcases evalStep_app_err_inv hh hev with h | ⟨es, hpl, hcase⟩
  · exact absurd h hcs
  rcases hcase with h | ⟨ws, σ1, hea, hcase⟩
  · obtain ⟨W', sf, e', hw', r⟩ := argsErr3 L ih ihe es _ _ _ _ _ _ _ _ ρ us hfr hcx hca hpre1 hpl σ cl σ' h hcs W s hcA
      rfl hi her hw
    exact ⟨W', sf, e', hw', r.lift hfrm (.refl _) (Ext3.refl _ _) (StackExt.refl _)⟩
  -- the operands succeed
  obtain ⟨W1, s1, vs, hw1, r1, hk⟩ := args3_ok L ih es _ _ _ _ _ _ _ _ ρ us hfr hcx hca hpre1 hpl σ ws σ1 hea W s hcA rfl
    hi her hw
  subst hk
  have hcP1 : CodeAt2 D c.envmap s1.heap σ1.store s1.ipL s1.ipO [BC.op .pushImm, BC.argc vs.length] :=
    (r1.codeAfter hcP).cast r1.ipO.symm
  have hp := step_pushImm hcP1.1 (hcP1.op 0 rfl) (hcP1.argcCell 1 rfl) (by intro o h; cases h)
  have hcF2 : CodeAt2 D c.envmap s1.heap σ1.store s1.ipL (s.ipO + code1.length + 2) pcode :=
    (r1.codeAfter hcF).cast (by simp only [List.length_append, List.length_cons, List.length_nil]; omega)
  have her1 : EnvRep3 ops W1 s1.heap c s1.ep ρ us := by rw [r1.ep]; exact her.ext r1.ext hw1
  have hext1 : StackExt s.stack (s1.stack.push (.argc vs.length)) :=
    ((StackExt.pushAll _ vs hw).trans r1.stack.ext).trans (StackExt.push _ _ r1.swf)
  rcases hcase with h | ⟨fv, σ2, hef, hap⟩
  · -- the operator fails
    obtain ⟨W3, sf, e', hw3, r3⟩ := ihe _ _ _ _ _ _ _ _ _ hff hcx hcf hpre σ1 cl σ' h hcs W1
      { s1 with stack := s1.stack.push (.argc vs.length), ipO := s1.ipO + 2 } hcF2
      (by show s1.ipO + 2 = _; rw [r1.ipO]) r1.inv her1 (push_swf _ _)
    exact ⟨W3, sf, e', World.le_trans hw1 hw3,
      r3.after (r1.steps.trans (Steps.one hp)) r1.ext ((errBase_le hfrm).trans hext1)⟩
  -- the call fails
  obtain ⟨W3, s3, hw3, r3⟩ := ih _ _ _ _ _ _ _ _ _ hff hcx hcf hpre σ1 fv σ2 hef W1
    { s1 with stack := s1.stack.push (.argc vs.length), ipO := s1.ipO + 2 } hcF2
    (by show s1.ipO + 2 = _; rw [r1.ipO]) r1.inv her1 (push_swf _ _)
  have e13 : Ext3 D s.heap σ.store s3.heap σ2.store := r1.ext.trans r3.ext
  have hvals : All2 (VR3 D W3 s3.heap σ2.store) vs ws := All2.vr3_mono r1.vals r3.ext hw3
  have hst : LiveEq ((pushAll s.stack vs).push (.argc vs.length)) s3.stack :=
    (r1.stack.push (pushAll_swf _ _ hw) r1.swf (.argc vs.length)).trans r3.stack
  have hipL : s3.ipL = s.ipL := r3.ipL.trans r1.ipL
  have hipO : s3.ipO = s.ipO + code1.length + 2 + pcode.length := by
    have h3 : s3.ipO = s1.ipO + 2 + pcode.length := r3.ipO
    rw [h3, r1.ipO]
  have hcC3 : CodeAt2 D c.envmap s3.heap σ2.store s3.ipL s3.ipO
      [BC.op (if tail = true then .tcallAcc else .callAcc)] := by
    rw [hipL]
    exact (hcC.ext e13.toExt2).cast (by
      rw [hipO]; simp only [List.length_append, List.length_cons, List.length_nil]; omega)
  have hbp : s3.bp = s.bp := r3.bp.trans r1.bp
  have hsteps : Steps ops s s3 := r1.steps.trans (.cons hp r3.steps)
  have hw13 : W.le W3 := World.le_trans hw1 hw3
  have hext3 : StackExt s.stack s3.stack := hext1.trans r3.stack.ext
  cases n with
  | zero => cases hap
  | succ m =>
    have failHere : ∀ e', step ops s3 = .err e' → machClass e' = specClass cl → Inv3 D W3 s3.heap σ' →
        Ext3 D s3.heap σ2.store s3.heap σ'.store →
        ∃ W' sf e', W.le W' ∧ ErrRun3 D W' s (errBase tail s fr) σ σ' cl sf e' :=
      fun e' hf hc' hinv hx => ⟨W3, s3, e', hw13, ⟨hsteps, hf, hc', (errBase_le hfrm).trans hext3, r3.swf, hinv,
        e13.trans hx⟩⟩
    have notProc : (∀ p, fv ≠ .prim p) → (∀ a b c d, fv ≠ .closure a b c d) →
        ∃ W' sf e', W.le W' ∧ ErrRun3 D W' s (errBase tail s fr) σ σ' cl sf e' := by
      intro hp' hcl'
      have hthrow : applyStep (evalN m) fv ws σ2 = .err .notProcedure σ2 := by
        cases fv <;> first | rfl | exact absurd rfl (hp' _) | exact absurd rfl (hcl' _ _ _ _)
      have hap' : applyStep (evalN m) fv ws σ2 = .err cl σ' := hap
      rw [hthrow] at hap'
      injection hap' with h1 h2
      subst h1 h2
      have hoth : ops.callee s3.heap s3.acc = .other := by
        cases r3.acc with
        | base hb => exact LE.callee_other _ _ _ _ hb hp'
        | clos _ _ => exact absurd rfl (hcl' _ _ _ _)
        | pair _ hd _ _ => exact LE.pair_other _ _ _ _ hd
      exact failHere _ (step_call_other hcC3.1 (hcC3.op 0 rfl) hoth) rfl r3.inv (Ext3.refl _ _)
    cases fv with
    | closure ps rest body ρc =>
      obtain ⟨lam, cenv, hcal, hok⟩ := VR3.closure_inv L r3.acc
      cases tail with
      | false =>
        have hcall := step_call_closure hcC3.1 (hcC3.op 0 rfl) hcal
        have hst4 : LiveEq (callFrame s.stack vs s3.ep s3.ipL (s3.ipO + 1))
            ((s3.stack.push (.envPtr s3.ep)).push (.instrPtr s3.ipL (s3.ipO + 1))) := by
          unfold callFrame
          exact ((hst.push (push_swf _ _) r3.swf _).push (push_swf _ _) (push_swf _ _) _)
        obtain ⟨W5, sf, e', hw5, r5⟩ :=
          ihce ps rest body ρc ws σ2 cl σ' hap hcs W3
            { s3 with stack := (s3.stack.push (.envPtr s3.ep)).push (.instrPtr s3.ipL (s3.ipO + 1)),
                      ipL := lam, ipO := 0 }
            lam cenv vs s.stack s3.ep s3.ipL (s3.ipO + 1) hcal hok r3.inv hvals rfl rfl hst4 hw (push_swf _ _)
        exact ⟨W5, sf, e', World.le_trans hw13 hw5, r5.after (hsteps.trans (Steps.one hcall)) e13 (StackExt.refl _)⟩
      | true =>
        have hfr0 := hfrm rfl
        obtain ⟨st4, htc, hst4, hw4⟩ := step_tcall_closure (fr := fr) hcC3.1 (hcC3.op 0 rfl) hcal
          (by rw [hbp]; exact hfr0) hw hst r3.swf
        obtain ⟨W5, sf, e', hw5, r5⟩ :=
          ihce ps rest body ρc ws σ2 cl σ' hap hcs W3 { s3 with stack := st4, bp := fr.bpc, ipL := lam, ipO := 0 }
            lam cenv vs fr.st0 fr.epc fr.lc fr.oc hcal hok r3.inv hvals rfl rfl hst4 hfr0.swf0 hw4
        exact ⟨W5, sf, e', World.le_trans hw13 hw5, r5.after (hsteps.trans (Steps.one htc)) e13 (StackExt.refl _)⟩
    | prim p =>
      have hvf : D.VR s3.heap σ2.store s3.acc (.prim p) := (VR3.prim_inv L r3.acc).1
      obtain ⟨id, e', hcal, hkind, hres, hcl', hinv, hx⟩ :=
        LE.call_err (m + 1) W3 s3.heap σ2 s3.acc p vs ws cl σ' r3.inv hvf hvals hap hcs
      exact failHere e' (step_call_builtin_err hcC3.1 (hcC3.op 0 rfl) hcal hkind hst hw r3.swf hres) hcl' hinv hx
    | bool b => exact notProc (by intro p e; cases e) (by intro a b c d e; cases e)
    | char ch => exact notProc (by intro p e; cases e) (by intro a b c d e; cases e)
    | nil => exact notProc (by intro p e; cases e) (by intro a b c d e; cases e)
    | int i => exact notProc (by intro p e; cases e) (by intro a b c d e; cases e)
    | str t => exact notProc (by intro p e; cases e) (by intro a b c d e; cases e)
    | sym t => exact notProc (by intro p e; cases e) (by intro a b c d e; cases e)
    | void => exact notProc (by intro p e; cases e) (by intro a b c d e; cases e)
    | pair a => exact notProc (by intro p e; cases e) (by intro a b c d e; cases e)
    | vec a => exact notProc (by intro p e; cases e) (by intro a b c d e; cases e)
    | promise a => exact notProc (by intro p e; cases e) (by intro a b c d e; cases e)
    | undef => exact notProc (by intro p e; cases e) (by intro a b c d e; cases e)

/-- `ENTER` of a procedure without rest parameter, wrong number of arguments -/
theorem closure_call_fixed_arity {ps : List Text} {body : List Datum} {ρc : Env}
    {ws : List Val} {σ : SSt} {W : World} {s : MSt H} {lam cenv : Nat} {vs : List VCell} {st0 : Stack}
    {epc lc oc : Nat} (hcal : ops.callee s.heap s.acc = .closure lam cenv)
    (hclos : ClosOK3 D W s.heap lam cenv ps none body ρc) (hi : Inv3 D W s.heap σ)
    (hvs : All2 (VR3 D W s.heap σ.store) vs ws) (hipL : s.ipL = lam) (hipO : s.ipO = 0)
    (hst : LiveEq (callFrame st0 vs epc lc oc) s.stack) (hw0 : SWF st0) (hne : ws.length ≠ ps.length) :
    step ops s = .err .invalidNumArgs := by
  obtain ⟨f, cst, cst1, co, p, bcode, ints, caps, a1, a2, a3, a4, a5, a6, a7, a8, a9, a10, a11, a12, a13, a14, a15,
    a16, a17, a18, a19⟩ := hclos
  obtain ⟨hcode, hinfo⟩ := hi.loaded _ _ a8
  rw [← a10] at hcode hinfo
  have hpro : p.prologue = [.op .enter] := by rw [a4, a2]; rfl
  have hcodeP : CodeAt2 D p.ctx.envmap s.heap σ.store lam 0 (p.prologue ++ bcode ++ [.op .ret]) := hcode
  have hf0 : ops.fetch s.heap s.ipL s.ipO = some (.opcode .enter) := by
    have := hcodeP.op 0 (o := .enter) (by rw [hpro]; rfl)
    rw [hipL, hipO]; simpa using this
  have hinfo' : ops.lambdaInfo s.heap lam = some ⟨ps.length⟩ := by
    rw [hinfo]; simp [lamOf, a1]
  obtain ⟨_, _, k2, _, _⟩ := callFrame_cells st0 vs epc lc oc hw0
  have hsp : s.stack.sp = st0.sp + vs.length + 3 := by rw [← hst.1, callFrame_sp]
  have hargc : s.stack.cells[s.stack.sp - 2]? = some (.argc vs.length) := by
    rw [show s.stack.sp - 2 = st0.sp + vs.length + 1 by omega, ← hst.2 _ (by rw [callFrame_sp]; omega)]
    exact k2
  have hvl : vs.length ≠ ps.length := by rw [All2.length_eq hvs]; exact hne
  exact step_enter_arity (s := s) (by rw [hipL]; exact a11) hf0 hcal hinfo' (by omega) hargc hvl

/-- a failing closure call: wrong number of arguments (`ENTER` fails, or `VARARG` for a procedure with a rest
    parameter), or the body fails -/
theorem callErr3_succ (L : Laws3 D) {n : Nat} (ih : ExprOK3 D n) (ihe : ExprErr3NT D n) (ihet : ExprErr3 D n) :
    CallErr3 D (n + 1) := by
  intro ps rest body ρc ws σ cl σ' hap hcs W s lam cenv vs st0 epc lc oc hcal hclos hi hvs hipL hipO hst hw0 hw
  change applyStep (evalN n) (.closure ps rest body ρc) ws σ = _ at hap
  have hst0 : StackExt st0 s.stack := by
    obtain ⟨k0, _⟩ := callFrame_cells st0 vs epc lc oc hw0
    refine ⟨by rw [← hst.1, callFrame_sp]; omega, fun i hi' => ?_⟩
    rw [← hst.2 i (by rw [callFrame_sp]; omega), k0 i hi']
  rcases applyStep_closure_err_inv3 hap with hb | ⟨ρ', σ1, ρ2, σ2, hbind, halloc, hforms⟩
  · -- wrong number of arguments
    obtain ⟨rfl, hne, hfew, hg, hsz, hpre⟩ := bindArgs3_err_inv _ _ _ _ _ _ _ hb
    have hs : step ops s = .err .invalidNumArgs := by
      cases rest with
      | none => exact closure_call_fixed_arity hcal hclos hi hvs hipL hipO hst hw0 (hne rfl)
      | some r => exact (closure_call_rest_arity (n := 0) L hclos hi hvs hipL hipO hst hw0 (hfew rfl)).2
    have hse : StoreExt σ.store σ'.store := StoreExt.ofPrefix hsz hpre
    have hx : Ext3 D s.heap σ.store s.heap σ'.store := Ext3.storeOnly L _ hse
    have hinv : Inv3 D W s.heap σ' :=
      hi.frame hx (L.srx_store _ _ _ hse hi.extra) hg (fun _ => rfl) (fun e n l hW => ⟨rfl, by
        obtain ⟨_, u, _, _, h3, _⟩ := hi.vars e n l hW
        exact hpre l (lt_size_of_get h3)⟩)
    exact ⟨W, s, _, World.le_refl _, ⟨.refl _, hs, rfl, hst0, hw, hinv, hx⟩⟩
  · -- the body fails
    obtain ⟨f, cst, cst1, p, bcode, ints, h', a, W', stE, nf, hsE, hwW, hi1, her1, hcx, a12, a7, a9, a5, hcodeE, hwE,
      hfrE, hx1⟩ := enter_closure3 L hbind halloc hcal hclos hi hvs hipL hipO hst hw0 hw
    let sE : MSt H := { s with heap := h', ep := a, stack := stE, bp := st0.sp + nf, ipO := p.prologue.length }
    have hcodeB : CodeAt2 D p.ctx.envmap sE.heap σ2.store sE.ipL p.prologue.length bcode := by
      have := hcodeE.left.right.cast (show 0 + p.prologue.length = p.prologue.length by omega)
      show CodeAt2 D p.ctx.envmap h' σ2.store s.ipL _ bcode
      rw [hipL]; exact this
    obtain ⟨W2, sf, e', hw2, r2⟩ := bodyErr3 L ih ihe ihet (blockErr3_ok L n) body.length body (Nat.le_refl _)
      _ _ _ _ _ _ _ ρ2 _ ints true a12 hcx a7 a9 a5 (fun _ => rfl) σ2 cl σ' hforms hcs
      W' sE ⟨nf, epc, lc, oc, s.bp, st0⟩ hcodeB rfl hi1 her1 hwE hfrE
    exact ⟨W2, sf, e', World.le_trans hwW hw2, r2.after hsE hx1 (StackExt.refl _)⟩

theorem exprErr3_succ (L : Laws3 D) (LE : ErrLaws3 D) {n : Nat} (iht : ExprOKT3 D n) (ihet : ExprErr3 D n)
    (ihce : CallErr3 D n) : ExprErr3 D (n + 1) := by
  have ih : ExprOK3 D n := iht.nontail
  have ihe : ExprErr3NT D n := ihet.nontail
  intro f cst c base tail e cst' code ρ us hf hcx hcomp hpre σ cl σ' hev hcs W s fr hc hip hi her hw hfrm
  change evalStep (evalN n) e ρ σ = .err cl σ' at hev
  cases hf with
  | bool b => exact absurd (quoteVal_atom_err (d := .bool b) (.inl rfl) hev) hcs
  | char ch => exact absurd (quoteVal_atom_err (d := .char ch) (.inl rfl) hev) hcs
  | num m => exact absurd (quoteVal_atom_err (d := .num m) (.inr ⟨m, rfl⟩) hev) hcs
  | str t => exact absurd (quoteVal_atom_err (d := .str t) (.inl rfl) hev) hcs
  | quote d rest =>
    rw [evalStep_quote] at hev
    exact absurd ((quoteVal_err_syntax d).1 _ _ _ hev) hcs
  | vecc e0 => exact absurd ((quoteVal_err_syntax (.vec e0)).1 _ _ _ hev) hcs
  | sym x hsc _ => exact err3_sym L hsc hcx hcomp hev hcs hc hip hi her hw hfrm
  | setBang x e hsc hG hfe => exact err3_setBang L ih ihe hsc hG hfe hcx hcomp hpre hev hcs hc hip hi her hw hfrm
  | if2 t cn hft hfc => exact err3_if2 L ih ihe ihet hft hfc hcx hcomp hpre hev hcs hc hip hi her hw hfrm
  | if3 t cn a hft hfc hfa => exact err3_if3 L ih ihe ihet hft hfc hfa hcx hcomp hpre hev hcs hc hip hi her hw hfrm
  | app fn args hh hff hfr => exact err3_app L LE ih ihe ihce hh hff hfr hcx hcomp hpre hev hcs hc hip hi her hw hfrm
  | lambda formals body p ps rest ints caps h1 h2 h3 h4 h5 h6 h7 h8 =>
    exact absurd hev (evalStep_lambda_ne_err3 h2 h8)

theorem bothErr3_ok (L : Laws3 D) (LE : ErrLaws3 D) : ∀ n, ExprErr3 D n ∧ CallErr3 D n
  | 0 => ⟨(by intro f cst c base tail e cst' code ρ us _ _ _ _ σ cl σ' hev; cases hev),
          (by intro ps rest body ρc ws σ cl σ' hap; cases hap)⟩
  | n + 1 =>
    have ih := bothErr3_ok L LE n
    have ok := both3_ok L n
    ⟨exprErr3_succ L LE ok.1 ih.1 ih.2, callErr3_succ L ok.1.nontail ih.1.nontail ih.1⟩

/-- **Compiler correctness, stage 3, ERROR case.** -/
theorem compileExpr_correct3_err (L : Laws3 D) (LE : ErrLaws3 D) (f : Nat) (cst : CState) (c : Ctx) (base : Nat)
    (tail : Bool) (e : Datum) (cst' : CState) (code : List BC) (ρ : Env) (us : Text → Prop)
    (hf : F3 D.setG f c (bound ρ) us tail e) (hcx : CtxOK c)
    (hcomp : compileExpr f cst c base tail e = .ok (cst', code)) (hpre : cst'.lambdas <+: D.final)
    (n : Nat) (σ : SSt) (cl : ErrClass) (σ' : SSt) (hev : (evalN n).eval e ρ σ = .err cl σ') (hcs : cl ≠ .syntax)
    (W : World) (s : MSt H) (fr : Frame) (hc : CodeAt2 D c.envmap s.heap σ.store s.ipL base code)
    (hip : s.ipO = base) (hi : Inv3 D W s.heap σ) (her : EnvRep3 ops W s.heap c s.ep ρ us) (hw : SWF s.stack)
    (hfr : tail = true → FrameAt s.stack s.bp fr) :
    ∃ W' sf e', W.le W' ∧ ErrRun3 D W' s (errBase tail s fr) σ σ' cl sf e' :=
  (bothErr3_ok L LE n).1 f cst c base tail e cst' code ρ us hf hcx hcomp hpre σ cl σ' hev hcs W s fr hc hip hi her hw
    hfr

/-- … the failing call of a closure value (any formals) -/
theorem closureCall_correct3_err (L : Laws3 D) (LE : ErrLaws3 D) (n : Nat) : CallErr3 D n := (bothErr3_ok L LE n).2

end Marwood.Lemmas.CompileCorrect3
