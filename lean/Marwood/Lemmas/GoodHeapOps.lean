import Marwood.Lemmas.GoodAlloc
/-!
# `Safe` as an invariant: the other heap operations of `run_one` preserve `HG`

`set!` of a global (`globPut`) and of an environment slot (`envPut`), CLOSURE (`makeClosure`: a fresh
environment whose slots are `Undefined` or one-level pointers into the current environment, and the closure
cell), ENTER of a closure (`makeActivation`: a fresh environment holding the arguments, pointers into the
closure environment, or copies of its slots), and `call/cc`'s continuation object.
-/
namespace Marwood.Lemmas.Good
open Marwood Marwood.Vm Marwood.Vm.Concrete Marwood.Lemmas.Sim
open Marwood.Heap (GcState WFHeap RootsOk vrefs vrefsList crefs)

theorem cwrite_get (h : CHeap) (p : Nat) (c : CCell) (i : Nat) :
    (cwrite h p c).cells[i]? = if i = p ∧ p < h.cells.size then some c else h.cells[i]? := by
  simp only [cwrite]
  by_cases e : i = p
  · subst e
    by_cases hl : i < h.cells.size
    · simp [hl]
    · simp [hl]
  · rw [Array.getElem?_setIfInBounds_ne (Ne.symm e)]
    simp [e]

theorem usub_inv {a b r : Nat} {site : String} (h : usub a b site = .ok r) : b ≤ a ∧ r = a - b := by
  unfold usub at h
  split at h
  · cases h; exact ⟨by assumption, rfl⟩
  · cases h

theorem SlotOk.of_plain (h : CHeap) {v : VCell} (x : plainGlob v = true) : SlotOk h v := .inl x

/-- a slot that is not a pointer holds a value -/
theorem SlotOk.plain_of_not_ptr {h : CHeap} {v : VCell} (x : SlotOk h v) (hn : ∀ e k, v ≠ .lexEnvPtr e k) :
    plainGlob v = true := by
  rcases x with x | ⟨e, k, _, _, rfl, _⟩
  · exact x
  · exact absurd rfl (hn e k)

/-! ## overwriting one slot of an environment -/

theorem mem_set {α} {l : List α} {k : Nat} {v w : α} (hw : w ∈ l.set k v) : w = v ∨ w ∈ l := by
  induction l generalizing k with
  | nil => simp at hw
  | cons a as ih =>
    cases k with
    | zero =>
      simp only [List.set_cons_zero, List.mem_cons] at hw
      rcases hw with h | h
      · exact .inl h
      · exact .inr (List.mem_cons_of_mem _ h)
    | succ k =>
      simp only [List.set_cons_succ, List.mem_cons] at hw
      rcases hw with h | h
      · exact .inr (h ▸ List.mem_cons_self ..)
      · rcases ih h with h | h
        · exact .inl h
        · exact .inr (List.mem_cons_of_mem _ h)

theorem envSet_hg {h : CHeap} (g : HG h) {e k : Nat} {ss : List VCell} {v : VCell}
    (he : h.cells[e]? = some (CCell.lexEnv ss)) (hv : VOk h v) :
    HG (cwrite h e (.lexEnv (ss.set k v))) ∧ Mono h (cwrite h e (.lexEnv (ss.set k v))) := by
  have hlt : e < h.cells.size := lt_of_get_some he
  have hget := cwrite_get h e (.lexEnv (ss.set k v))
  have hne : ∀ i, i ≠ e → (cwrite h e (.lexEnv (ss.set k v))).cells[i]? = h.cells[i]? := by
    intro i hi; rw [hget]; simp [hi]
  have hat : (cwrite h e (.lexEnv (ss.set k v))).cells[e]? = some (.lexEnv (ss.set k v)) := by
    rw [hget]; simp [hlt]
  have wf := g.wf
  have egc : (toHeap (cwrite h e (.lexEnv (ss.set k v)))).gc = (toHeap h).gc := rfl
  have efree : (toHeap (cwrite h e (.lexEnv (ss.set k v)))).free = (toHeap h).free := rfl
  have esym : (toHeap (cwrite h e (.lexEnv (ss.set k v)))).symtab = (toHeap h).symtab := rfl
  have ecells : ∀ i, i ≠ e → (toHeap (cwrite h e (.lexEnv (ss.set k v)))).cells[i]? = (toHeap h).cells[i]? := by
    intro i hi; rw [toHeap_cells_get, toHeap_cells_get, hne i hi]
  have ecell : (toHeap (cwrite h e (.lexEnv (ss.set k v)))).cells[e]? = some (.lexEnv ((ss.set k v).map eraseV)) := by
    rw [toHeap_cells_get, hat]; rfl
  have eold : (toHeap h).cells[e]? = some (.lexEnv (ss.map eraseV)) := by
    rw [toHeap_cells_get, he]; rfl
  have enf : ∀ y, (toHeap (cwrite h e (.lexEnv (ss.set k v)))).NonFree y ↔ (toHeap h).NonFree y := by
    intro y; unfold Heap.Heap.NonFree; rw [egc]
  -- the overwritten cell is allocated
  have hnotfree : (toHeap h).gc[e]? ≠ some GcState.free := by
    intro hf
    have := wf.free_undef e hf
    rw [eold] at this; cases this
  have slotsOk : ∀ w ∈ ss.set k v, VRefsOk h w := by
    intro w hw
    rcases mem_set hw with rfl | hw
    · exact hv.2
    · have hnf : (toHeap h).NonFree e := by
        have hl : e < (toHeap h).gc.size := by rw [wf.sizes]; simpa [toHeap] using hlt
        unfold Heap.Heap.NonFree
        rw [Array.getElem?_eq_getElem hl] at hnotfree ⊢
        cases hgc : (toHeap h).gc[e] with
        | free => rw [hgc] at hnotfree; exact absurd rfl hnotfree
        | allocated => left; rfl
        | used => right; rfl
      have hc := g.closed hnf he
      intro y hy
      refine hc y ?_
      simp only [eraseC, crefs]
      exact vrefsList_mem_iff.mpr ⟨w, hw, hy⟩
  refine ⟨⟨⟨⟨?_, ?_, ?_, ?_, ?_, ?_, ?_, ?_⟩, ?_⟩, ⟨?_, ?_, ?_⟩, ?_, ?_⟩, ⟨by simp [cwrite], fun y hy => (enf y).mpr hy⟩⟩
  · have := wf.sizes; simpa [toHeap, cwrite] using this
  · have := wf.shape; simpa [toHeap, cwrite] using this
  · have := wf.bound; simpa [toHeap, cwrite] using this
  · intro i; rw [efree, egc]; exact wf.free_iff i
  · rw [efree]; exact wf.nodup
  · intro i hi
    rw [egc] at hi
    have hie : i ≠ e := by rintro rfl; exact hnotfree hi
    rw [ecells i hie]; exact wf.free_undef i hi
  · intro name i
    have e1 : (toHeap (cwrite h e (.lexEnv (ss.set k v)))).symLookup name = (toHeap h).symLookup name := by
      simp [Heap.Heap.symLookup, esym]
    rw [e1, wf.interned name i]
    unfold Heap.Heap.AllocSym
    rw [enf]
    by_cases hie : i = e
    · subst hie
      rw [ecell, eold]
      constructor <;> rintro ⟨h1, _⟩ <;> cases h1
    · rw [ecells i hie]
  · intro i hi y hy
    rw [enf] at hi
    have key : NF h y := by
      by_cases hie : i = e
      · subst hie
        unfold Heap.Heap.children at hy
        rw [ecell] at hy
        simp only [crefs] at hy
        obtain ⟨w, hw, hx⟩ := vrefsList_mem_iff.mp hy
        exact slotsOk w hw y hx
      · unfold Heap.Heap.children at hy
        rw [ecells i hie] at hy
        exact wf.closed i hi y hy
    rcases key with key | key
    · exact .inl ((enf y).mpr key)
    · exact .inr key
  · intro i; rw [egc]; exact wf.no_used i
  · intro i w hw
    by_cases hie : i = e
    · subst hie; rw [hat] at hw; cases hw
    · rw [hne i hie] at hw; exact g.plain.cells i w hw
  · exact g.plain.globals
  · intro i c hc
    by_cases hie : i = e
    · subst hie; rw [hat] at hc; cases hc
    · rw [hne i hie] at hc; exact g.plain.conts i c hc
  · intro i l hl
    by_cases hie : i = e
    · subst hie; rw [hat] at hl; cases hl
    · rw [hne i hie] at hl; exact g.lam i l hl
  · -- environments: slots keep their kind; the overwritten slot holds a value
    have tr : ∀ w, SlotOk h w → SlotOk (cwrite h e (.lexEnv (ss.set k v))) w := by
      intro w hw
      rcases hw with hw | ⟨e', k', ss', w', rfl, h1, h2, h3⟩
      · exact .inl hw
      · by_cases hee : e' = e
        · subst hee
          rw [he] at h1; cases h1
          by_cases hk : k' = k
          · subst hk
            have hkl : k' < ss.length := (List.getElem?_eq_some_iff.mp h2).1
            exact .inr ⟨_, _, _, v, rfl, hat, by rw [List.getElem?_set_self hkl], hv.1⟩
          · exact .inr ⟨_, _, _, w', rfl, hat, by rw [List.getElem?_set_ne (Ne.symm hk)]; exact h2, h3⟩
        · exact .inr ⟨_, _, _, w', rfl, by rw [hne e' hee]; exact h1, h2, h3⟩
    intro i ss1 hs1 w hw
    by_cases hie : i = e
    · subst hie
      rw [hat] at hs1; cases hs1
      rcases mem_set hw with rfl | hw
      · exact .inl hv.1
      · exact tr w (g.env i ss he w hw)
    · rw [hne i hie] at hs1
      exact tr w (g.env i ss1 hs1 w hw)

theorem envPut_hg {h h' : CHeap} (g : HG h) {e k : Nat} {v : VCell} (hv : VOk h v)
    (hp : envPut h e k v = some h') : HG h' ∧ Mono h h' ∧ h'.globals = h.globals := by
  unfold envPut at hp
  cases hat : envAt h e with
  | none => rw [hat] at hp; cases hp
  | some ss =>
    rw [hat] at hp
    simp only at hp
    split at hp
    · cases hp
      have he : h.cells[e]? = some (CCell.lexEnv ss) := by
        unfold envAt at hat
        split at hat
        · rename_i ss' hc; cases hat; exact hc
        · cases hat
      obtain ⟨a, b⟩ := envSet_hg g (k := k) he hv
      exact ⟨a, b, rfl⟩
    · cases hp

theorem envAt_cell {h : CHeap} {e : Nat} {ss : List VCell} (hat : envAt h e = some ss) :
    h.cells[e]? = some (CCell.lexEnv ss) := by
  unfold envAt at hat
  split at hat
  · rename_i ss' hc; cases hat; exact hc
  · cases hat

/-! ## `set!` of a global -/

theorem globPut_hg {h : CHeap} (g : HG h) (n : Nat) {v : VCell} (hv : plainGlob v = true) :
    HG { h with globals := h.globals.setIfInBounds n v } ∧ Mono h { h with globals := h.globals.setIfInBounds n v } := by
  refine ⟨⟨g.wf, ⟨g.plain.cells, ?_, g.plain.conts⟩, g.lam, g.env⟩, Nat.le_refl _, fun _ x => x⟩
  intro w hw
  have hw' : w ∈ h.globals.toList.set n v := by simpa using hw
  rcases mem_set hw' with h1 | h1
  · rw [h1]; exact hv
  · exact g.plain.globals w h1

/-! ## what an allocated environment holds -/

/-- the slots of an allocated environment are well-formed and refer to allocated cells -/
theorem env_slot {h : CHeap} (g : HG h) {e : Nat} {ss : List VCell} (hn : NF h e)
    (hc : h.cells[e]? = some (CCell.lexEnv ss)) {w : VCell} (hw : w ∈ ss) : SlotOk h w ∧ VRefsOk h w := by
  refine ⟨g.env e ss hc w hw, ?_⟩
  have hnf := hn.nonFree g.wf hc
  intro y hy
  refine g.closed hnf hc y ?_
  simp only [eraseC, crefs]
  exact vrefsList_mem_iff.mpr ⟨w, hw, hy⟩

/-- … and what a load through an environment slot yields is a value -/
theorem envLoad_ok {h : CHeap} (g : HG h) {e n : Nat} (hn : NF h e) {w : VCell} (h1 : envGet h e n = some w) :
    (∀ e' k, w = .lexEnvPtr e' k → ∀ w', envGet h e' k = some w' → VOk h w') ∧
    ((∀ e' k, w ≠ .lexEnvPtr e' k) → VOk h w) ∧ VRefsOk h w := by
  unfold envGet at h1
  cases hat : envAt h e with
  | none => rw [hat] at h1; cases h1
  | some ss =>
    rw [hat] at h1
    simp only at h1
    have hc := envAt_cell hat
    have hw : w ∈ ss := List.mem_of_getElem? h1
    obtain ⟨so, ro⟩ := env_slot g hn hc hw
    refine ⟨?_, fun hne => ⟨so.plain_of_not_ptr hne, ro⟩, ro⟩
    rintro e' k rfl w' h2
    have hne' : NF h e' := ro e' (by simp [eraseV, vrefs])
    rcases so with so | ⟨e2, k2, ss2, w2, heq, c2, s2, p2⟩
    · simp [plainGlob, isPtr, addrFree] at so
    · cases heq
      unfold envGet at h2
      have : envAt h e' = some ss2 := by unfold envAt; rw [c2]
      rw [this] at h2
      simp only at h2
      rw [s2] at h2; cases h2
      exact ⟨p2, (env_slot g hne' c2 (List.mem_of_getElem? s2)).2⟩

/-! ## CLOSURE -/

theorem closureSlot_ok {h : CHeap} (g : HG h) {ep bp : Nat} {st : Stack} (hn : NF h ep) {src : Source}
    (hsrc : ∀ a, src ≠ .iofArg a) {v : VCell} (hr : closureSlot h ep bp st src = .ok v) :
    SlotOk h v ∧ VRefsOk h v := by
  cases src with
  | iofArg a => exact absurd rfl (hsrc a)
  | iofEnv k =>
    simp only [closureSlot] at hr
    cases hat : envAt h ep with
    | none => rw [hat] at hr; cases hr
    | some ss =>
      rw [hat] at hr
      simp only at hr
      have hc := envAt_cell hat
      cases hk : ss[k]? with
      | none => rw [hk] at hr; cases hr
      | some w =>
        rw [hk] at hr
        obtain ⟨so, ro⟩ := env_slot g hn hc (List.mem_of_getElem? hk)
        by_cases hp : ∃ e n, w = .lexEnvPtr e n
        · obtain ⟨e, n, rfl⟩ := hp
          simp only at hr
          cases hr
          exact ⟨so, ro⟩
        · have hv : v = .lexEnvPtr ep k := by
            cases w <;> simp only at hr <;> first | (cases hr; rfl) | (exact absurd ⟨_, _, rfl⟩ hp)
          subst hv
          refine ⟨.inr ⟨ep, k, ss, w, rfl, hc, hk, so.plain_of_not_ptr (fun e n he => hp ⟨e, n, he⟩)⟩, ?_⟩
          intro y hy
          have : y = ep := by simpa [eraseV, vrefs] using hy
          subst this; exact hn
  | global => simp only [closureSlot] at hr; cases hr; exact ⟨.inl rfl, .of_addrFree _ rfl⟩
  | arg a => simp only [closureSlot] at hr; cases hr; exact ⟨.inl rfl, .of_addrFree _ rfl⟩
  | internal => simp only [closureSlot] at hr; cases hr; exact ⟨.inl rfl, .of_addrFree _ rfl⟩

theorem closureSlots_ok {h : CHeap} (g : HG h) {ep bp : Nat} {st : Stack} (hn : NF h ep) :
    ∀ (em : List (VCell × Source)), (∀ p ∈ em, ∀ a, p.2 ≠ Source.iofArg a) → ∀ vs,
      closureSlots h ep bp st em = .ok vs → ∀ v ∈ vs, SlotOk h v ∧ VRefsOk h v := by
  intro em
  induction em with
  | nil => intro _ vs hr v hv; simp only [closureSlots] at hr; cases hr; cases hv
  | cons p rest ih =>
    intro hno vs hr v hv
    obtain ⟨c, src⟩ := p
    simp only [closureSlots] at hr
    obtain ⟨v1, h1, hr⟩ := bind_ok hr
    obtain ⟨vs1, h2, hr⟩ := bind_ok hr
    cases hr
    rcases List.mem_cons.mp hv with rfl | hv
    · exact closureSlot_ok g hn (hno (c, src) (List.mem_cons_self ..)) h1
    · exact ih (fun q hq => hno q (List.mem_cons_of_mem _ hq)) vs1 h2 v hv

theorem makeClosure_size {h h' : CHeap} {lam ep bp : Nat} {st : Stack} {c : VCell}
    (hr : makeClosure h lam ep bp st = .ok (h', c)) : h.cells.size ≤ h'.cells.size := by
  unfold makeClosure at hr
  split at hr
  · cases hr
  · obtain ⟨slots, _, hr⟩ := bind_ok hr
    cases hr
    exact Nat.le_trans (cput_size _ _) (cput_size _ _)

theorem makeClosure_hg {h h' : CHeap} (g : HG h) {lam ep bp : Nat} {st : Stack} {c : VCell}
    (hl : NF h lam) (hn : NF h ep) (hr : makeClosure h lam ep bp st = .ok (h', c)) (sm : Small h') :
    HG h' ∧ Mono h h' ∧ VOk h' c ∧ h'.globals = h.globals := by
  unfold makeClosure at hr
  cases hla : lambdaAt h lam with
  | none => rw [hla] at hr; cases hr
  | some l =>
    rw [hla] at hr
    simp only at hr
    obtain ⟨slots, hs, hr⟩ := bind_ok hr
    cases hr
    have hno := (g.lam lam l (lambdaAt_cell hla)).noIof
    have hso := closureSlots_ok g hn l.envmap hno slots hs
    have sm1 : Small (cput h (.lexEnv slots)).1 := sm.of_le (cput_size _ _)
    have r1 := cput_hg g (CRefsOk.lexEnv fun v hv => (hso v hv).2) (.lexEnv fun v hv => (hso v hv).1) sm1
    have hcr : CRefsOk (cput h (.lexEnv slots)).1 (.val (.closure lam (cput h (.lexEnv slots)).2)) := by
      intro y hy
      simp only [eraseC, eraseV, crefs, List.mem_cons, List.not_mem_nil, or_false] at hy
      rcases hy with rfl | rfl
      · exact hl.mono r1.mono
      · exact .inl r1.nf
    have r2 := cput_hg r1.hg hcr (.val rfl rfl) sm
    refine ⟨r2.hg, r1.mono.trans r2.mono, VOk.ptr (.inl r2.nf), by rw [r2.globals, r1.globals]⟩

/-! ## ENTER of a closure -/

theorem activationSlot_ok {h : CHeap} {env bp argc : Nat} {st : Stack} {olds : List VCell}
    (hc : h.cells[env]? = some (CCell.lexEnv olds))
    (hA : ∀ a v, a ≤ argc → argc - a ≤ bp → st.cells[bp - (argc - a) + 1]? = some v → VOk h v)
    {slot : Nat} {old : VCell} (ho : olds[slot]? = some old) (hso : SlotOk h old) (hro : VRefsOk h old) (hne : NF h env)
    {src : Source} {v : VCell} (hr : activationSlot env bp argc st slot old src = .ok v) :
    SlotOk h v ∧ VRefsOk h v := by
  have other : (∀ e n, old ≠ .lexEnvPtr e n) → SlotOk h (.lexEnvPtr env slot) ∧ VRefsOk h (.lexEnvPtr env slot) := by
    intro hp
    refine ⟨.inr ⟨env, slot, olds, old, rfl, hc, ho, hso.plain_of_not_ptr hp⟩, ?_⟩
    intro y hy
    have : y = env := by simpa [eraseV, vrefs] using hy
    subst this; exact hne
  cases src with
  | arg a =>
    simp only [activationSlot] at hr
    obtain ⟨d, h1, hr⟩ := bind_ok hr
    obtain ⟨base, h2, hr⟩ := bind_ok hr
    obtain ⟨l1, rfl⟩ := usub_inv h1
    obtain ⟨l2, rfl⟩ := usub_inv h2
    unfold Stack.get at hr
    split at hr
    · rename_i w hw
      cases hr
      have := hA a v l1 l2 hw
      exact ⟨.inl this.1, this.2⟩
    · cases hr
  | iofArg a =>
    cases old with
    | lexEnvPtr e n => simp only [activationSlot] at hr; cases hr; exact ⟨hso, hro⟩
    | _ => simp only [activationSlot] at hr; cases hr; exact other (by intro e n he; cases he)
  | iofEnv a =>
    cases old with
    | lexEnvPtr e n => simp only [activationSlot] at hr; cases hr; exact ⟨hso, hro⟩
    | _ => simp only [activationSlot] at hr; cases hr; exact other (by intro e n he; cases he)
  | global => simp only [activationSlot] at hr; cases hr; exact ⟨hso, hro⟩
  | internal => simp only [activationSlot] at hr; cases hr; exact ⟨hso, hro⟩

theorem activationSlots_ok {h : CHeap} (g : HG h) {env bp argc : Nat} {st : Stack} {olds : List VCell}
    (hc : h.cells[env]? = some (CCell.lexEnv olds)) (hne : NF h env)
    (hA : ∀ a v, a ≤ argc → argc - a ≤ bp → st.cells[bp - (argc - a) + 1]? = some v → VOk h v) :
    ∀ (em : List (VCell × Source)) (rest : List VCell) (slot : Nat), olds.drop slot = rest → ∀ vs,
      activationSlots env bp argc st slot rest em = .ok vs → ∀ v ∈ vs, SlotOk h v ∧ VRefsOk h v := by
  intro em
  induction em with
  | nil =>
    intro rest slot hd vs hr v hv
    simp only [activationSlots] at hr
    cases hr
    have : v ∈ olds := by rw [← hd] at hv; exact List.mem_of_mem_drop hv
    exact env_slot g hne hc this
  | cons p em ih =>
    intro rest slot hd vs hr v hv
    obtain ⟨c0, src⟩ := p
    cases rest with
    | nil => simp only [activationSlots] at hr; cases hr
    | cons old rest =>
      simp only [activationSlots] at hr
      obtain ⟨v1, h1, hr⟩ := bind_ok hr
      obtain ⟨vs1, h2, hr⟩ := bind_ok hr
      cases hr
      have ho : olds[slot]? = some old := by
        have := congrArg (fun l => l[0]?) hd
        simpa [List.getElem?_drop] using this
      have hd' : olds.drop (slot + 1) = rest := by
        have := congrArg (fun l => l.drop 1) hd
        simpa [List.drop_drop, Nat.add_comm] using this
      rcases List.mem_cons.mp hv with rfl | hv
      · obtain ⟨so, ro⟩ := env_slot g hne hc (List.mem_of_getElem? ho)
        exact activationSlot_ok hc hA ho so ro hne h1
      · exact ih rest (slot + 1) hd' vs1 h2 v hv

theorem makeActivation_size {h h' : CHeap} {lam env bp : Nat} {st : Stack} {e : Nat}
    (hr : makeActivation h lam env bp st = .ok (h', e)) : h.cells.size ≤ h'.cells.size := by
  unfold makeActivation at hr
  split at hr
  · cases hr
  · split at hr
    · cases hr
    · obtain ⟨slots, _, hr⟩ := bind_ok hr
      cases hr
      exact cput_size _ _

theorem makeActivation_hg {h h' : CHeap} (g : HG h) {lam env bp : Nat} {st : Stack} {e : Nat} (hne : NF h env)
    (hA : ∀ l, lambdaAt h lam = some l → ∀ a v, a ≤ l.args.length → l.args.length - a ≤ bp →
      st.cells[bp - (l.args.length - a) + 1]? = some v → VOk h v)
    (hr : makeActivation h lam env bp st = .ok (h', e)) (sm : Small h') :
    HG h' ∧ Mono h h' ∧ (toHeap h').NonFree e ∧ h'.globals = h.globals := by
  unfold makeActivation at hr
  cases hla : lambdaAt h lam with
  | none => rw [hla] at hr; cases hr
  | some l =>
    rw [hla] at hr
    simp only at hr
    cases hat : envAt h env with
    | none => rw [hat] at hr; cases hr
    | some olds =>
      rw [hat] at hr
      simp only at hr
      obtain ⟨slots, hs, hr⟩ := bind_ok hr
      cases hr
      have hc := envAt_cell hat
      have hso := activationSlots_ok g hc hne (hA l hla) l.envmap olds 0 (by simp) slots hs
      have r1 := cput_hg g (CRefsOk.lexEnv fun v hv => (hso v hv).2) (.lexEnv fun v hv => (hso v hv).1) sm
      exact ⟨r1.hg, r1.mono, r1.nf, r1.globals⟩

/-! ## `call/cc`: the continuation object -/

theorem newCont_hg {h : CHeap} (g : HG h) {k : Cont} (hs : ∀ v ∈ k.stack.cells, VRefsOk h v) (hl : NF h k.ipL)
    (he : NF h k.ep) (hfull : k.stack.sp < k.stack.cells.length) (sm : Small (cput h (.cont k)).1) :
    HG (cput h (.cont k)).1 ∧ Mono h (cput h (.cont k)).1 ∧ VOk (cput h (.cont k)).1 (.ptr (cput h (.cont k)).2) ∧
      (cput h (.cont k)).1.globals = h.globals := by
  have r := cput_hg g (CRefsOk.cont hs hl he) (.cont hfull) sm
  exact ⟨r.hg, r.mono, VOk.ptr (.inl r.nf), r.globals⟩

end Marwood.Lemmas.Good
