import Marwood.Lemmas.TransformEllExpand
/-!
# `expand` on templates with ellipsis groups (main induction)
-/
namespace Marwood.Transform
open Marwood Marwood.Spec.Match

section groups
variable (s : Setup) (pat : Pattern) (ev : List Text) (B : Bindings) (bs : Binds)

/-- the conclusion for a list template: the spec says `mismatch`, or the environment is back to its
    initial state and the expansion is the instantiation -/
def ListOut (T : Datum) (v : List Datum) (d : Datum) (env' : PEnv) : Prop :=
  inst s.ctx false false T bs = .mismatch ∨
    (env' = PEnv.new pat B ∧ ∃ ds, d = Datum.ofList (v ++ ds) ∧
      inst s.ctx false false T bs = .ok (Datum.ofList ds))

/-- one ellipsis group `U ... rest'` inside a list template -/
theorem group_out (hc : Corr pat ev B bs) (f0 : Nat)
    (ihb : ∀ m, m < f0 + 1 → ∀ cur rest v d env', tS s.es ev (Datum.ofList (cur :: rest)) = true →
        expandLoop s.ell pat m cur rest v (PEnv.new pat B) = .ok (some d, env') →
        ListOut s pat B bs (Datum.ofList (cur :: rest)) v d env')
    (U : Datum) (rest' v : List Datum) (d : Datum) (env' : PEnv)
    (hU : unitOK s.es ev U = true) (hrest : tS s.es ev (Datum.ofList rest') = true)
    (h : expandLoop s.ell pat (f0 + 1) U (s.ell :: rest') v (PEnv.new pat B) = .ok (some d, env')) :
    ListOut s pat B bs (Datum.ofList (U :: s.ell :: rest')) v d env' := by
  obtain ⟨hpl, hnd, hne⟩ := unitOK_spec ev hU
  have hUne : U ≠ s.ell := by
    intro he; rw [he] at hpl; simp [plain, Setup.ell] at hpl
  have hpk : peekIs s.ell rest' = false := by
    cases rest' with
    | nil => rfl
    | cons q r =>
      have := tS_head_ne ev hrest
      simp [peekIs, Setup.ell, this]
  have hgrp := inst_group s U rest' bs hUne hpk
  rcases repBinds_spec pat ev B bs hc U hne with hmis | ⟨n, bj, hrep, hlen, hb1, hb2⟩
  · left
    rw [hgrp, instRep_mismatch _ _ _ hmis]
  · obtain ⟨f', ds, hf', hdl, hds, hcont⟩ :=
      group_iter s pat ev B bs hc U hU rest' n bj hlen hb1 hb2 n 0 (by omega) (f0 + 1) v
        (PEnv.new pat B).iters (fun _ => 0) (some d, env') (stage_new pat ev B bs hc)
        (fun _ _ => rfl) (SameKeys.refl _) h
    have hrepok : instRep (fun b' => inst s.ctx false false U b') (tmplSyms U) 1 bs = .ok ds := by
      refine instRep_one _ _ _ _ ds hrep (by simp [hdl]) ?_
      intro i b d' hb hd'
      simp only [List.getElem?_map] at hb
      cases hri : (List.range n)[i]? with
      | none => rw [hri] at hb; cases hb
      | some i' =>
        rw [hri] at hb
        simp only [Option.map_some, Option.some.injEq] at hb
        have : i' = i := by
          have := List.getElem?_range (n := n) (i := i)
          by_cases hin : i < n
          · rw [List.getElem?_range hin] at hri; cases hri; rfl
          · rw [List.getElem?_eq_none (by simpa using hin)] at hri; cases hri
        subst this hb
        have := hds i' d' hd'
        simpa using this
    rw [hrepok] at hgrp
    cases rest' with
    | nil =>
      simp only [groupCont] at hcont
      cases hcont
      right
      refine ⟨rfl, ds, rfl, ?_⟩
      rw [hgrp]
      simp only [Datum.ofList, inst_nil]
      have := appendSpine_ofList ds []
      simpa [Datum.ofList] using this
    | cons t r =>
      simp only [groupCont] at hcont
      rcases ihb f' (by omega) t r (v ++ ds) d env' hrest hcont with hm | ⟨he, ds', hd, hi⟩
      · left; rw [hgrp, hm]
      · right
        refine ⟨he, ds ++ ds', by rw [hd, List.append_assoc], ?_⟩
        rw [hgrp, hi]
        simp only [appendSpine_ofList]

theorem expand_groups (hc : Corr pat ev B bs) : ∀ f : Nat,
    (∀ T d env', tP s.es ev T = true →
        expand s.ell pat f T (PEnv.new pat B) = .ok (some d, env') →
        inst s.ctx false false T bs = .mismatch ∨
          (env' = PEnv.new pat B ∧ inst s.ctx false false T bs = .ok d)) ∧
    (∀ cur rest v d env', tS s.es ev (Datum.ofList (cur :: rest)) = true →
        expandLoop s.ell pat f cur rest v (PEnv.new pat B) = .ok (some d, env') →
        ListOut s pat B bs (Datum.ofList (cur :: rest)) v d env') := by
  intro f
  induction f using Nat.strongRecOn with
  | ind f ih =>
    cases f with
    | zero =>
      exact ⟨fun T d env' _ h => by simp [expand] at h,
             fun cur rest v d env' _ h => by simp [expandLoop] at h⟩
    | succ f0 =>
      have iha := (ih f0 (by omega)).1
      have ihb : ∀ m, m < f0 + 1 → ∀ cur rest v d env', tS s.es ev (Datum.ofList (cur :: rest)) = true →
          expandLoop s.ell pat m cur rest v (PEnv.new pat B) = .ok (some d, env') →
          ListOut s pat B bs (Datum.ofList (cur :: rest)) v d env' := fun m hm => (ih m hm).2
      constructor
      · -- a template element outside any group
        intro T d env' hT h
        cases hTeq : T with
        | sym x =>
          rw [hTeq] at h hT
          simp only [tP, Bool.and_eq_true, bne_iff_ne, ne_eq, Bool.not_eq_true', decide_eq_false_iff_not] at hT
          obtain ⟨d', ho, he, hi⟩ := expand_sym_plain s pat ev B bs hc f0 x _ rfl _ _ hT.1 hT.2 h
          cases ho
          right; exact ⟨he, hi⟩
        | pair a dd =>
          rw [hTeq] at h hT
          rw [tP_pair] at hT
          have hnil := tS_endsInNil _ _ _ hT
          have hdeq : dd = Datum.ofList (iterList dd) := endsInNil_ofList (by simpa [endsInNil] using hnil)
          have hpeq : Datum.pair a dd = Datum.ofList (a :: iterList dd) := by
            simp only [Datum.ofList]; rw [← hdeq]
          rw [expand_pair] at h
          rw [hpeq] at hT ⊢
          rcases ihb f0 (by omega) a (iterList dd) [] d env' hT h with hm | ⟨he, ds, hd, hi⟩
          · left; exact hm
          · right; simp only [List.nil_append] at hd; rw [hd]; exact ⟨he, hi⟩
        | vec v => rw [hTeq] at hT; simp [tP] at hT
        | _ =>
          have hd : isDatumPat T = true := by rw [hTeq]; rfl
          rw [expand_datum _ _ _ _ _ hd] at h
          cases h
          right
          rw [← hTeq]
          exact ⟨rfl, inst_datum _ _ _ _ _ hd⟩
      · -- the loop over a list template
        intro cur rest v d env' hTS h
        by_cases hpk : peekIs s.ell rest = true
        · obtain ⟨rest', hrest⟩ := (peekIs_ell_iff s rest).mp hpk
          subst hrest
          have hsplit := hTS
          simp only [Setup.ell] at hsplit
          rw [tS_cons_ell, Bool.and_eq_true] at hsplit
          exact group_out s pat ev B bs hc f0 ihb cur rest' v d env' hsplit.1 hsplit.2 h
        · have hpk' : peekIs s.ell rest = false := by simpa using hpk
          rw [tS_cons_ne s ev cur rest hpk', Bool.and_eq_true] at hTS
          obtain ⟨hcur, hrestS⟩ := hTS
          have hcons := inst_cons s cur rest bs (by
            have := tP_ne_ell ev hcur; simpa [Setup.ell] using this) hpk'
          rw [expandLoop_succ] at h
          simp only [hpk', Bool.false_eq_true, if_false, Bool.not_false, if_true] at h
          cases hcx : expand s.ell pat f0 cur (PEnv.new pat B) with
          | ok rc =>
            obtain ⟨oc, envc⟩ := rc
            rw [hcx] at h
            cases oc with
            | none => simp only at h; cases h
            | some cell =>
              simp only at h
              rcases iha cur cell envc hcur hcx with hm | ⟨he, hi⟩
              · left; rw [hcons, hm]
              · subst he
                cases rest with
                | nil =>
                  simp only at h
                  cases h
                  right
                  refine ⟨rfl, [cell], rfl, ?_⟩
                  rw [hcons, hi]
                  simp [Datum.ofList, inst_nil]
                | cons t r =>
                  simp only at h
                  rcases ihb f0 (by omega) t r (v ++ [cell]) d env' hrestS h with hm | ⟨he, ds, hd, hi2⟩
                  · left; rw [hcons, hi, hm]
                  · right
                    refine ⟨he, cell :: ds, by rw [hd]; simp, ?_⟩
                    rw [hcons, hi, hi2]
                    rfl
          | err x => rw [hcx] at h; cases h
          | panic m => rw [hcx] at h; cases h
          | fuel => rw [hcx] at h; cases h

end groups

end Marwood.Transform
