import Marwood.Lemmas.TransformEllInst
/-!
# The specification on an ellipsis group: `inst` on list templates, `instRep`, `repBinds`
-/
namespace Marwood.Transform
open Marwood Marwood.Spec.Match

/-- what the matcher's environment `B` and the spec's bindings `bs` have to do with each other,
    for a pattern with variables `pat.variables` of which `ev` are ellipsis variables (depth 1) -/
structure Corr (pat : Pattern) (ev : List Text) (B : Bindings) (bs : Binds) : Prop where
  exp : ∀ x, pat.isExpandedVariable (.sym x) = decide (x ∈ ev)
  notVar : ∀ x, pat.isVariable (.sym x) = false → bs.lookup x = none ∧ x ∉ ev
  plainVar : ∀ x, pat.isVariable (.sym x) = true → x ∉ ev →
      ∃ d, bs.lookup x = some (.one d) ∧ proj (.sym x) B = [d]
  ellVar : ∀ x, x ∈ ev → pat.isVariable (.sym x) = true ∧
      bs.lookup x = some (.many ((proj (.sym x) B).map MTree.one))

/-! ### `inst` on list templates -/

theorem inst_skip (c : Ctx) (T : Datum) (b : Binds)
    (h : ∀ x r, T = .pair x r → c.isEllD x = false) :
    inst c false true T b = inst c false false T b := by
  cases T with
  | pair x r =>
    have hx := h x r rfl
    rw [inst.eq_def, inst.eq_def (skip := false)]
    simp [hx]
  | _ => simp [inst]

theorem leadEll_ofList (s : Setup) (ts : List Datum) (h : peekIs s.ell ts = false) :
    leadEll s.ctx (Datum.ofList ts) = 0 := by
  cases ts with
  | nil => rfl
  | cons q qs =>
    simp only [peekIs] at h
    simp [Datum.ofList, leadEll, s.isEllD_eq, h]

/-- a list template whose first element is not followed by an ellipsis -/
theorem inst_cons (s : Setup) (t : Datum) (ts : List Datum) (bs : Binds)
    (ht : t ≠ s.ell) (hts : peekIs s.ell ts = false) :
    inst s.ctx false false (Datum.ofList (t :: ts)) bs =
      (match inst s.ctx false false t bs with
       | .ok h =>
         match inst s.ctx false false (Datum.ofList ts) bs with
         | .ok r => .ok (.pair h r)
         | .mismatch => .mismatch
         | .malformed => .malformed
       | .mismatch => .mismatch
       | .malformed => .malformed) := by
  have h1 : s.ctx.isEllD t = false := by
    rw [s.isEllD_eq]
    cases hc : cellEq t s.ell with
    | false => rfl
    | true => simp [Setup.ell] at hc; exact absurd hc ht
  have h2 := leadEll_ofList s ts hts
  simp only [Datum.ofList]
  rw [inst.eq_def]
  simp [h1, h2]
  rfl

theorem appendSpine_ofList (hs ds : List Datum) :
    appendSpine hs (Datum.ofList ds) = Datum.ofList (hs ++ ds) := by
  induction hs with
  | nil => rfl
  | cons h hs ih => simp [appendSpine, Datum.ofList, ih]

/-- a list template whose first element is followed by one ellipsis -/
theorem inst_group (s : Setup) (t : Datum) (ts : List Datum) (bs : Binds)
    (ht : t ≠ s.ell) (hts : peekIs s.ell ts = false) :
    inst s.ctx false false (Datum.ofList (t :: s.ell :: ts)) bs =
      (match instRep (fun b' => inst s.ctx false false t b') (tmplSyms t) 1 bs with
       | .ok hs =>
         match inst s.ctx false false (Datum.ofList ts) bs with
         | .ok r => .ok (appendSpine hs r)
         | .mismatch => .mismatch
         | .malformed => .malformed
       | .mismatch => .mismatch
       | .malformed => .malformed) := by
  have h1 : s.ctx.isEllD t = false := by
    rw [s.isEllD_eq]
    cases hc : cellEq t s.ell with
    | false => rfl
    | true => simp [Setup.ell] at hc; exact absurd hc ht
  have h2 : leadEll s.ctx (Datum.ofList (s.ell :: ts)) = 1 := by
    simp [Datum.ofList, leadEll, isEllD_ell s, leadEll_ofList s ts hts]
  have h3 : inst s.ctx false true (Datum.ofList (s.ell :: ts)) bs
      = inst s.ctx false false (Datum.ofList ts) bs := by
    simp only [Datum.ofList]
    rw [inst.eq_def]
    simp only [Bool.not_false, Bool.true_and, isEllD_ell s, if_true]
    apply inst_skip
    intro x r hxr
    cases ts with
    | nil => simp [Datum.ofList] at hxr
    | cons q qs =>
      simp only [Datum.ofList, Datum.pair.injEq] at hxr
      rw [s.isEllD_eq, ← hxr.1]
      simpa [peekIs] using hts
  conv => lhs; simp only [Datum.ofList]
  rw [inst.eq_def]
  simp only [Bool.not_false, Bool.true_and, h1, Bool.false_eq_true, if_false]
  have h2' : leadEll s.ctx (.pair s.ell (Datum.ofList ts)) = 1 := h2
  have h3' : inst s.ctx false true (.pair s.ell (Datum.ofList ts)) bs
      = inst s.ctx false false (Datum.ofList ts) bs := h3
  simp only [h2', h3']
  rfl

/-! ### `instRep` with one ellipsis -/

theorem mapMI_singletons (F : Binds → IRes Datum) (syms : List Text) :
    ∀ (bsl : List Binds) (ds : List Datum), bsl.length = ds.length →
      (∀ (i : Nat) b d, bsl[i]? = some b → ds[i]? = some d → F b = .ok d) →
      mapMI (instRep F syms 0) bsl = .ok (ds.map fun d => [d]) := by
  intro bsl
  induction bsl with
  | nil => intro ds hl _; cases ds <;> simp_all [mapMI]
  | cons b bsl ih =>
    intro ds hl h
    cases ds with
    | nil => simp at hl
    | cons d ds =>
      have h0 := h 0 b d (by simp) (by simp)
      have ih' := ih ds (by simpa using hl) (fun i b' d' hb hd => h (i + 1) b' d' (by simpa using hb) (by simpa using hd))
      have hF : instRep F syms 0 b = .ok [d] := by simp [instRep, h0]
      simp only [mapMI, hF, ih', List.map_cons]

theorem flatten_singletons (ds : List Datum) : (ds.map fun d => [d]).flatten = ds := by
  induction ds with
  | nil => rfl
  | cons d ds ih => simp [ih]

theorem instRep_one (F : Binds → IRes Datum) (syms : List Text) (bs : Binds) (bsl : List Binds)
    (ds : List Datum) (hrep : repBinds syms bs = .ok bsl) (hl : bsl.length = ds.length)
    (h : ∀ (i : Nat) b d, bsl[i]? = some b → ds[i]? = some d → F b = .ok d) :
    instRep F syms 1 bs = .ok ds := by
  rw [instRep]
  simp only [hrep, mapMI_singletons F syms bsl ds hl h, flatten_singletons]

theorem instRep_mismatch (F : Binds → IRes Datum) (syms : List Text) (bs : Binds)
    (hrep : repBinds syms bs = .mismatch) : instRep F syms 1 bs = .mismatch := by
  rw [instRep]
  simp only [hrep]

/-! ### `repBinds` under `Corr` -/

/-- the bindings of iteration `i` -/
def iterBinds (ms : List (Text × List MTree)) (bs : Binds) (i : Nat) : Binds :=
  (ms.filterMap fun m => m.2[i]?.map fun t => (m.1, t)) ++ bs

theorem lookup_iter_hit (tsOf : Text → List MTree) (x : Text) (i : Nat) (t : MTree)
    (hx : (tsOf x)[i]? = some t) : ∀ (ms : List (Text × List MTree)),
    (∀ m ∈ ms, m.2 = tsOf m.1) → x ∈ ms.map Prod.fst →
    (ms.filterMap fun m => m.2[i]?.map fun t => (m.1, t)).lookup x = some t := by
  intro ms
  induction ms with
  | nil => intro _ h; simp at h
  | cons m ms ih =>
    intro hall hmem
    obtain ⟨v, ts⟩ := m
    have hts : ts = tsOf v := hall (v, ts) (by simp)
    by_cases hv : v = x
    · subst hv
      simp only [List.filterMap_cons, hts, hx, Option.map_some]
      simp [List.lookup]
    · have hmem' : x ∈ ms.map Prod.fst := by
        simp only [List.map_cons, List.mem_cons] at hmem
        rcases hmem with h | h
        · exact absurd h.symm hv
        · exact h
      have ih' := ih (fun m hm => hall m (List.mem_cons_of_mem _ hm)) hmem'
      have hb : (x == v) = false := by simp [beq_text]; exact fun e => hv e.symm
      simp only [List.filterMap_cons]
      cases ts[i]? with
      | none => simpa using ih'
      | some t' => simp [List.lookup, hb, ih']

theorem lookup_iter_miss (x : Text) (i : Nat) : ∀ (ms : List (Text × List MTree)),
    x ∉ ms.map Prod.fst →
    (ms.filterMap fun m => m.2[i]?.map fun t => (m.1, t)).lookup x = none := by
  intro ms
  induction ms with
  | nil => intro _; rfl
  | cons m ms ih =>
    intro hmem
    obtain ⟨v, ts⟩ := m
    simp only [List.map_cons, List.mem_cons, not_or] at hmem
    have hb : (x == v) = false := by simp [beq_text]; exact hmem.1
    simp only [List.filterMap_cons]
    cases ts[i]? with
    | none => simpa using ih hmem.2
    | some t' => simp [List.lookup, hb, ih hmem.2]

/-- the ellipsis variables of a sub-template with their matches (the `ms` of `repBinds`) -/
def repMs (syms : List Text) (b : Binds) : List (Text × List MTree) :=
  syms.eraseDups.filterMap fun v =>
    match b.lookup v with
    | some (.many ts) => some (v, ts)
    | _ => none

theorem repBinds_unfold (syms : List Text) (b : Binds) :
    repBinds syms b =
      (match repMs syms b with
       | [] => .malformed
       | (_, ts0) :: _ =>
         if (repMs syms b).all (fun m => m.2.length == ts0.length) then
           .ok ((List.range ts0.length).map (iterBinds (repMs syms b) b))
         else .mismatch) := rfl

/-- `repBinds` on a group: either the ellipsis variables of the group matched different numbers of
    items (`mismatch`), or there are `n` iterations whose bindings give every ellipsis variable of
    the group its `i`-th item and leave the other variables alone -/
theorem repBinds_spec (pat : Pattern) (ev : List Text) (B : Bindings) (bs : Binds)
    (hc : Corr pat ev B bs) (U : Datum) (hne : evSyms ev U ≠ []) :
    repBinds (tmplSyms U) bs = .mismatch ∨
    ∃ (n : Nat) (bj : Nat → Binds),
      repBinds (tmplSyms U) bs = .ok ((List.range n).map bj) ∧
      (∀ x ∈ evSyms ev U, (proj (.sym x) B).length = n) ∧
      (∀ i x d, x ∈ evSyms ev U → (proj (.sym x) B)[i]? = some d → (bj i).lookup x = some (.one d)) ∧
      (∀ i x, x ∉ ev → (bj i).lookup x = bs.lookup x) := by
  let tsOf : Text → List MTree := fun v => (proj (.sym v) B).map MTree.one
  -- entries of ms
  have hms : ∀ m ∈ repMs (tmplSyms U) bs, m.1 ∈ evSyms ev U ∧ m.2 = tsOf m.1 := by
    intro m hm
    obtain ⟨v, hv, hgv⟩ := List.mem_filterMap.mp hm
    have hv' : v ∈ tmplSyms U := List.mem_eraseDups.mp hv
    split at hgv
    · rename_i ts hl
      cases hgv
      have hvev : v ∈ ev := by
        by_cases hvev : v ∈ ev
        · exact hvev
        · exfalso
          cases hvar : pat.isVariable (.sym v) with
          | false => rw [(hc.notVar v hvar).1] at hl; cases hl
          | true =>
            obtain ⟨d, hd, _⟩ := hc.plainVar v hvar hvev
            rw [hd] at hl; cases hl
      refine ⟨by simp [evSyms, hv', hvev], ?_⟩
      have := (hc.ellVar v hvev).2
      rw [this] at hl
      cases hl; rfl
    · cases hgv
  have hin : ∀ x ∈ evSyms ev U, (x, tsOf x) ∈ repMs (tmplSyms U) bs := by
    intro x hx
    simp only [evSyms, List.mem_filter, decide_eq_true_eq] at hx
    refine List.mem_filterMap.mpr ⟨x, List.mem_eraseDups.mpr hx.1, ?_⟩
    simp only [(hc.ellVar x hx.2).2]
    rfl
  rw [repBinds_unfold]
  generalize repMs (tmplSyms U) bs = ms at hms hin
  have hkeys : ∀ x, x ∈ ms.map Prod.fst → x ∈ evSyms ev U := by
    intro x hx
    obtain ⟨m, hm, rfl⟩ := List.mem_map.mp hx
    exact (hms m hm).1
  cases hmseq : ms with
  | nil =>
    exfalso
    obtain ⟨x, hx⟩ := List.exists_mem_of_ne_nil _ hne
    have := hin x hx
    rw [hmseq] at this; cases this
  | cons m0 ms' =>
    obtain ⟨v0, ts0⟩ := m0
    simp only
    rw [← hmseq]
    by_cases hall : (ms.all fun m => m.2.length == ts0.length) = true
    · right
      simp only [hall, if_true]
      refine ⟨ts0.length, iterBinds ms bs, rfl, ?_, ?_, ?_⟩
      · intro x hx
        have := List.all_eq_true.mp hall _ (hin x hx)
        simpa [tsOf] using this
      · intro i x d hx hd
        simp only [iterBinds, List.lookup_append]
        have : (tsOf x)[i]? = some (.one d) := by simp [tsOf, hd]
        rw [lookup_iter_hit tsOf x i (.one d) this ms (fun m hm => (hms m hm).2)
          (List.mem_map.mpr ⟨_, hin x hx, rfl⟩)]
        rfl
      · intro i x hx
        simp only [iterBinds, List.lookup_append]
        have : x ∉ ms.map Prod.fst := by
          intro hm
          have := hkeys x hm
          simp only [evSyms, List.mem_filter, decide_eq_true_eq] at this
          exact hx this.2
        rw [lookup_iter_miss x i ms this]
        rfl
    · left
      simp only [hall, Bool.false_eq_true, if_false]

end Marwood.Transform
